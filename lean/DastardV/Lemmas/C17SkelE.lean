/-
C17 — `skeleton_ok` (Lemmas/C17Skel.lean), part E: thread-local typing of the core loop.  Core Lean only.

Loop invariant at the top of block `b` (a lower bound of what the core loop holds): the processor states of all
channels, its shares of the connections / write state, the archive fills not yet handed to a writer
(`archIdx (b-1) ≤ j`), the trigger-rate messages not yet sent (`trsIdx b ≤ m`); after the first request
(`ph = 1`) also the client's shares of the trigger states and connections.
-/
import DastardV.Lemmas.C17SkelD
namespace DastardV.C17
open Sched

/-- what the core loop holds: `alo`/`tlo` first archive fill / trigger-rate message still held, `ph = 1` after the
first request, `blk = 1` while it holds block `bb` -/
@[c17set] def LS (n narch ntrs alo tlo ph blk bb src : Nat) : TS := fun c i s =>
  (c = 7 ∧ i < n ∧ s = 0) ∨ (c = 8 ∧ i < n ∧ s ≤ ph) ∨ (c = 9 ∧ i = 0 ∧ s ≤ ph)
  ∨ (c = 14 ∧ i = 0 ∧ s = 0) ∨ (c = 5 ∧ i = 0 ∧ s = 0) ∨ (c = 11 ∧ i = 0 ∧ s = 0) ∨ (c = 12 ∧ i = 0 ∧ s = 0)
  ∨ (c = 6 ∧ alo ≤ i ∧ i < narch ∧ s = 0) ∨ (c = 10 ∧ tlo ≤ i ∧ i < ntrs ∧ s = 0)
  ∨ (1 ≤ blk ∧ (BlkS n bb c i s ∨ (src = 2 ∧ c = 1 ∧ i = 0 ∧ s = 0)))

/-- the block object a message on `oNb b` carries -/
@[c17set] def BlkMS (n bb src : Nat) : TS := fun c i s => BlkS n bb c i s ∨ (src = 2 ∧ c = 1 ∧ i = 0 ∧ s = 0)

namespace Sched
/-- index of the block object of block `b` -/
def bb (s : Sched) (b : Nat) : Nat := if s.merged then 0 else b + 1
def secN (s : Sched) (b i : Nat) : Nat := if s.sec b i then 1 else 0
@[c17set] def LI (s : Sched) (b alo tlo ph blk : Nat) : TS :=
  LS s.n (s.archIdx s.k) (s.trsIdx s.k) alo tlo ph blk (s.bb b) s.src
end Sched

section
variable (s : Sched)

theorem vBlk_eq (b : Nat) : s.vBlk b = mkVar 3 (s.bb b) := rfl
theorem vSeg_eq (b i : Nat) : s.vSeg b i = mkVar 4 (s.bb b * s.n + i) := rfl

/-! ### the counting functions -/

theorem archIdx_zero : s.archIdx 0 = 0 := rfl
theorem trsIdx_zero : s.trsIdx 0 = 0 := rfl

theorem archIdx_succ (b : Nat) :
    s.archIdx (b + 1) = s.archIdx b + (if s.k0 ≤ b ∧ s.rk b = 3 then 1 else 0) := by
  simp only [archIdx, rng, List.range_succ, List.filter_append, List.length_append, List.filter_cons,
    List.filter_nil]
  by_cases h : s.k0 ≤ b ∧ s.rk b = 3
  · simp [h]
  · simp [h]

theorem trsIdx_succ (b : Nat) : s.trsIdx (b + 1) = s.trsIdx b + (if s.tm b then 1 else 0) := by
  simp only [trsIdx, rng, List.range_succ, List.filter_append, List.length_append, List.filter_cons,
    List.filter_nil]
  cases s.tm b <;> simp

theorem archIdx_mono {a b : Nat} (h : a ≤ b) : s.archIdx a ≤ s.archIdx b := by
  induction b with
  | zero => have : a = 0 := by omega
            subst this; exact Nat.le_refl _
  | succ m ih =>
    by_cases h' : a = m + 1
    · subst h'; exact Nat.le_refl _
    · have := ih (by omega)
      rw [archIdx_succ]; omega

theorem trsIdx_mono {a b : Nat} (h : a ≤ b) : s.trsIdx a ≤ s.trsIdx b := by
  induction b with
  | zero => have : a = 0 := by omega
            subst this; exact Nat.le_refl _
  | succ m ih =>
    by_cases h' : a = m + 1
    · subst h'; exact Nat.le_refl _
    · have := ih (by omega)
      rw [trsIdx_succ]; omega

/-! ### the contracts the core loop uses -/

theorem rep_chan_nb (b : Nat) : Rep ((mkSpec s.par).chanPay (s.oNb b)) (BlkMS s.n (s.bb b) s.src) := by
  cases hm : s.merged with
  | true =>
    have : s.bb b = 0 := by simp [bb, hm]
    rw [this]; exact rep_chan_nb_merged s hm b
  | false =>
    have : s.bb b = b + 1 := by simp [bb, hm]
    have h0 : s.src = 0 := by simpa [Sched.merged] using hm
    rw [this]
    exact (rep_chan_nb_sim s hm b).congr (fun c i s' => by simp [BlkMS, h0])

theorem rep_spawn_tA (hm : s.merged = true) (b : Nat) :
    Rep ((mkSpec s.par).spawnPay (s.tA b)) (BlkMS s.n 0 s.src) :=
  rep_spawn_A s hm (show clsOf (s.tA b) = 4 from clsOf_enc (by decide))

theorem spawnPay_tAR (j : Nat) : (mkSpec s.par).spawnPay (tAR j) = [] :=
  spawnPayOf_10 _ _ (show clsOf (tAR j) = 10 from clsOf_enc (by decide))

theorem rep_spawn_tW1 (hn : 0 < s.n) (b j : Nat) (hj : j < s.n) :
    Rep ((mkSpec s.par).spawnPay (s.tW1 b j)) (ProcS j (s.phase b)) := by
  have h := rep_spawn_W s hn (s.tW1 b j) (s.phase b) (phase_le s b)
    (Or.inl (clsOf_enc (by have := phase_le s b; omega)))
  have e : idxOf (s.tW1 b j) % s.n = j := by
    unfold tW1; rw [idxOf_enc (by have := phase_le s b; omega)]; exact mul_add_mod hj
  rw [e] at h; exact h

theorem rep_spawn_tW2 (hn : 0 < s.n) (b j : Nat) (hj : j < s.n) :
    Rep ((mkSpec s.par).spawnPay (s.tW2 b j)) (ProcS j (s.phase b)) := by
  have h := rep_spawn_W s hn (s.tW2 b j) (s.phase b) (phase_le s b)
    (Or.inr (clsOf_enc (by have := phase_le s b; omega)))
  have e : idxOf (s.tW2 b j) % s.n = j := by
    unfold tW2; rw [idxOf_enc (by have := phase_le s b; omega)]; exact mul_add_mod hj
  rw [e] at h; exact h

theorem cls_tW1 (b j : Nat) : 6 ≤ clsOf (s.tW1 b j) ∧ clsOf (s.tW1 b j) ≤ 9 := by
  have := phase_le s b
  unfold tW1; rw [clsOf_enc (by omega)]; omega

theorem cls_tW2 (b j : Nat) : 6 ≤ clsOf (s.tW2 b j) ∧ clsOf (s.tW2 b j) ≤ 9 := by
  have := phase_le s b
  unfold tW2; rw [clsOf_enc (by omega)]; omega

/-- what a wait on a group returns when its children are `l.map f` -/
theorem rep_waitPay_map {sp : Spec} {kids : Obj → List Tid} {w : Obj} (f : Nat → Tid) (l : List Nat) (A : Nat → TS)
    (hk : kids w = l.map f) (hd : ∀ j, j ∈ l → Rep (sp.donePay w (f j)) (A j)) :
    Rep (waitPay sp kids w) (fun c i s => ∃ j, j ∈ l ∧ A j c i s) := by
  intro k
  rw [mem_waitPay, hk]
  simp only [List.mem_map]
  constructor
  · rintro ⟨u, ⟨j, hj, rfl⟩, h⟩; exact ⟨j, hj, (hd j hj k).1 h⟩
  · rintro ⟨j, hj, h⟩; exact ⟨_, ⟨j, hj, rfl⟩, (hd j hj k).2 h⟩

theorem kids_wgp0 (b : Nat) (hb : b < s.k) : s.kids (oWgp (2 * b)) = (rng s.n).map (s.tW1 b) := by
  have h1 : clsOf (oWgp (2 * b)) = 11 := clsOf_enc (by decide)
  have h2 : idxOf (oWgp (2 * b)) = 2 * b := idxOf_enc (by decide)
  have h3 : 2 * b / 2 = b := by omega
  have h4 : 2 * b % 2 = 0 := by omega
  simp [kids, h1, h2, h3, h4, hb]

theorem kids_wgp1 (b : Nat) (hb : b < s.k) :
    s.kids (oWgp (2 * b + 1)) = ((rng s.n).filter (s.sec b)).map (s.tW2 b) := by
  have h1 : clsOf (oWgp (2 * b + 1)) = 11 := clsOf_enc (by decide)
  have h2 : idxOf (oWgp (2 * b + 1)) = 2 * b + 1 := idxOf_enc (by decide)
  have h3 : (2 * b + 1) / 2 = b := by omega
  have h4 : (2 * b + 1) % 2 = 1 := by omega
  simp [kids, h1, h2, h3, h4, hb]

theorem rep_wait_wgp0 (hn : 0 < s.n) (b : Nat) (hb : b < s.k) :
    Rep (waitPay (mkSpec s.par) s.kids (oWgp (2 * b))) (ProcAllS s.n (s.phase b)) := by
  refine (rep_waitPay_map (s.tW1 b) (rng s.n) (fun j => ProcS j (s.phase b)) (kids_wgp0 s b hb) ?_).congr ?_
  · intro j hj
    have hj' : j < s.n := by simpa [rng] using hj
    show Rep ((mkSpec s.par).donePay (enc 11 (2 * b)) (s.tW1 b j)) _
    rw [donePay_wgp _ _ _ (cls_tW1 s b j)]; exact rep_spawn_tW1 s hn b j hj'
  · intro c i s'
    simp only [rng, List.mem_range]
    constructor
    · rintro ⟨j, hj, h⟩; tokarith
    · intro h; exact ⟨i, by tokarith, by tokarith⟩

/-- the processor states handed to the second wave -/
@[c17set] def SecS (s : Sched) (b hi ph : Nat) : TS := fun c i s' =>
  ((c = 7 ∧ s' = 0) ∨ (c = 8 ∧ s' ≤ ph)) ∧ i < hi ∧ 1 ≤ s.secN b i

theorem secN_pos (b i : Nat) : 1 ≤ s.secN b i ↔ s.sec b i = true := by
  unfold secN; cases s.sec b i <;> simp

theorem rep_wait_wgp1 (hn : 0 < s.n) (b : Nat) (hb : b < s.k) :
    Rep (waitPay (mkSpec s.par) s.kids (oWgp (2 * b + 1))) (SecS s b s.n (s.phase b)) := by
  refine (rep_waitPay_map (s.tW2 b) ((rng s.n).filter (s.sec b)) (fun j => ProcS j (s.phase b))
    (kids_wgp1 s b hb) ?_).congr ?_
  · intro j hj
    have hj' : j < s.n := by
      have := (List.mem_filter.1 hj).1
      simpa [rng] using this
    show Rep ((mkSpec s.par).donePay (enc 11 (2 * b + 1)) (s.tW2 b j)) _
    rw [donePay_wgp _ _ _ (cls_tW2 s b j)]; exact rep_spawn_tW2 s hn b j hj'
  · intro c i s'
    simp only [rng, List.mem_filter, List.mem_range, SecS, secN_pos, ProcS]
    constructor
    · rintro ⟨j, ⟨hj, hs⟩, h⟩
      rcases h with ⟨h1, rfl, h3⟩ | ⟨h1, rfl, h3⟩
      · exact ⟨Or.inl ⟨h1, h3⟩, hj, hs⟩
      · exact ⟨Or.inr ⟨h1, h3⟩, hj, hs⟩
    · rintro ⟨h, hi, hs⟩
      refine ⟨i, ⟨hi, hs⟩, ?_⟩
      rcases h with ⟨h1, h3⟩ | ⟨h1, h3⟩
      · exact Or.inl ⟨h1, rfl, h3⟩
      · exact Or.inr ⟨h1, rfl, h3⟩

/-- what the core loop hands over when it closes the per-run channel -/
theorem rep_close_rundone : Rep ((mkSpec s.par).closePay oRunDone) (fun c i s' => (c = 11 ∨ c = 12) ∧ i = 0 ∧ s' = 0) := by
  show Rep ((mkSpec s.par).closePay (enc 14 0)) _
  rw [closePay_rundone]
  intro k
  simp only [List.mem_cons, List.mem_nil_iff, or_false,
    eq_tk_iff (c := 11) (s := 0) (by decide) (by decide), eq_tk_iff (c := 12) (s := 0) (by decide) (by decide)]
  omega

theorem donePay_oRund (u : Tid) : (mkSpec s.par).donePay oRund u = [] := donePay_rund s.par u

/-- what the core loop is given at its start -/
theorem rep_spawn_tL (blk : Nat) (hblk : blk = if s.merged then 1 else 0) :
    Rep ((mkSpec s.par).spawnPay tL) (LS s.n (s.archIdx s.k) (s.trsIdx s.k) 0 0 0 blk 0 s.src) := by
  show Rep (spawnPayOf s.par tL) _
  rw [spawnPayOf_1 _ _ (show clsOf tL = 1 from rfl)]
  have r1 := rep_procAll s.n 0 (by omega)
  have r2 : Rep [tk 9 0 0, tk 14 0 0, tk 5 0 0, tk 11 0 0, tk 12 0 0]
      (fun c i s' => (c = 9 ∨ c = 14 ∨ c = 5 ∨ c = 11 ∨ c = 12) ∧ i = 0 ∧ s' = 0) := by
    intro k
    simp only [List.mem_cons, List.mem_nil_iff, or_false,
      eq_tk_iff (c := 9) (s := 0) (by decide) (by decide), eq_tk_iff (c := 14) (s := 0) (by decide) (by decide),
      eq_tk_iff (c := 5) (s := 0) (by decide) (by decide), eq_tk_iff (c := 11) (s := 0) (by decide) (by decide),
      eq_tk_iff (c := 12) (s := 0) (by decide) (by decide)]
    omega
  have r3 := Rep.mapTk (c0 := 6) (s0 := 0) (by decide) (by decide) (s.archIdx s.k)
  have r4 := Rep.mapTk (c0 := 10) (s0 := 0) (by decide) (by decide) (s.trsIdx s.k)
  have r5 : Rep (if s.par.merged then blockToks s.par 0 else []) (fun c i s' => s.merged = true ∧ BlkS s.n 0 c i s') :=
    (rep_blockToks s.par 0).ite s.par.merged
  have r6 := rep_nfn_if s.par
  have r := ((((r1.append r2).append r3).append r4).append r5).append r6
  clear r1 r2 r3 r4 r5 r6
  simp only [par_src] at r
  cases hm : s.merged with
  | true =>
    have : blk = 1 := by simp [hblk, hm]
    subst this
    simp only [hm] at r
    exact r.congrSub (by toksub) (by toksub)
  | false =>
    have : blk = 0 := by simp [hblk, hm]
    subst this
    have h0 : s.src = 0 := by simpa [Sched.merged] using hm
    simp only [hm] at r
    exact r.congrSub (by toksub) (by toksub)

/-! ### one block of the core loop, piece by piece -/

variable {t : Tid}

theorem seg1 (b alo tlo ph : Nat) :
    HT (mkSpec s.par) s.kids t (s.LI b alo tlo ph 0)
      [.recv (s.oNb b), .rd (s.vBlk b), .rd vArch] (s.LI b alo tlo ph 1) := by
  refine HT.cons (HT.recv (rep_chan_nb s b))
    (HT.cons (Q := fun c i s' => s.LI b alo tlo ph 0 c i s' ∨ BlkMS s.n (s.bb b) s.src c i s') ?_ ?_)
  · rw [vBlk_eq]; exact HT.rdv (c := 3) _ 0 (by decide) (by decide) (Or.inl rfl) (by tokarith)
  · exact (HT.rdv (c := 5) 0 0 (by decide) (by decide) (Or.inl rfl) (by tokarith)).post (by toksub)

theorem seg2 (b tlo ph : Nat) (hb : b < s.k) :
    HT (mkSpec s.par) s.kids t (s.LI b (s.archIdx (b - 1)) tlo ph 1)
      (if 0 < b ∧ s.k0 ≤ b - 1 ∧ s.rk (b - 1) = 3 then
        [.wr vArch, .wr (vAfill (s.archIdx (b - 1))), .send (oCmpl (s.archIdx (b - 1)))] else [])
      (s.LI b (s.archIdx b) tlo ph 1) := by
  have hk : s.archIdx b ≤ s.archIdx s.k := archIdx_mono s (by omega)
  split
  next h =>
    have e : s.archIdx b = s.archIdx (b - 1) + 1 := by
      have := archIdx_succ s (b - 1)
      rw [show b - 1 + 1 = b by omega, if_pos ⟨h.2.1, h.2.2⟩] at this
      exact this
    refine HT.cons (HT.wrv1 (c := 5) 0 (by decide) rfl (by tokarith))
      (HT.cons (HT.wrv1 (c := 6) _ (by decide) rfl (by tokarith)) ?_)
    exact (HT.send (rep_chan_cmpl _ _) (by toksub)).post (by toksub)
  next h =>
    have : s.archIdx (b - 1) ≤ s.archIdx b := archIdx_mono s (by omega)
    exact HT.nil (by toksub)

theorem seg3 (hn : 0 < s.n) (b alo tlo : Nat) :
    HT (mkSpec s.par) s.kids t (s.LI b alo tlo (s.phase b) 1)
      (s.perChan (fun i => [.rd (s.vSeg b i), .wgAdd (oWgp (2 * b)), .spawn (s.tW1 b i)]))
      (fun c i s' => s.LI b alo tlo (s.phase b) 1 c i s' ∧ ¬ ProcAllS s.n (s.phase b) c i s') := by
  have hph := phase_le s b
  refine (HT.range (fun j c i s' => s.LI b alo tlo (s.phase b) 1 c i s' ∧ ¬ ProcAllS j (s.phase b) c i s') _ s.n ?_).pre
    (by toksub)
  intro j hj
  refine HT.cons (HT.rdv (c := 4) (s.bb b * s.n + j) 0 (by decide) (by decide) (Or.inl rfl) (by tokarith))
    (HT.cons (HT.wgAdd _) ?_)
  exact (HT.spawn (rep_spawn_tW1 s hn b j hj) (by toksub)).post (by toksub)

theorem seg4 (hn : 0 < s.n) (b alo tlo : Nat) (hb : b < s.k) :
    HT (mkSpec s.par) s.kids t
      (fun c i s' => s.LI b alo tlo (s.phase b) 1 c i s' ∧ ¬ ProcAllS s.n (s.phase b) c i s')
      [.wgWait (oWgp (2 * b))] (s.LI b alo tlo (s.phase b) 1) := by
  have hph := phase_le s b
  exact (HT.wgWait (rep_wait_wgp0 s hn b hb)).post (by toksub)

theorem seg5 (b alo tlo ph : Nat) :
    HT (mkSpec s.par) s.kids t (s.LI b alo tlo ph 1) (s.perChan (fun i => [.rd (vPst i)])) (s.LI b alo tlo ph 1) := by
  apply HT.range_const; intro i hi
  exact HT.rdv (c := 7) i 0 (by decide) (by decide) (Or.inl rfl) (by tokarith)

theorem seg6 (b alo tlo ph : Nat) :
    HT (mkSpec s.par) s.kids t (s.LI b alo tlo ph 1) [.rd vBcon, .wr vBst] (s.LI b alo tlo ph 1) :=
  HT.cons (HT.rdv (c := 9) 0 0 (by decide) (by decide) (Or.inl rfl) (by tokarith))
    (HT.wrv1 (c := 14) 0 (by decide) rfl (by tokarith))

theorem seg7 (b alo ph : Nat) (hb : b < s.k) :
    HT (mkSpec s.par) s.kids t (s.LI b alo (s.trsIdx b) ph 1)
      (if s.tm b then [.wr (vTrs (s.trsIdx b)), .send (oCm (s.trsIdx b))] else [])
      (s.LI b alo (s.trsIdx (b + 1)) ph 1) := by
  have hk : s.trsIdx (b + 1) ≤ s.trsIdx s.k := trsIdx_mono s (by omega)
  have e := trsIdx_succ s b
  split
  next h =>
    rw [if_pos h] at e
    refine HT.cons (HT.wrv1 (c := 10) _ (by decide) rfl (by tokarith)) ?_
    exact (HT.send (rep_chan_cm _ _) (by toksub)).post (by toksub)
  next h =>
    rw [if_neg h] at e
    exact HT.nil (by toksub)

theorem seg8 (hn : 0 < s.n) (b alo tlo : Nat) :
    HT (mkSpec s.par) s.kids t (s.LI b alo tlo (s.phase b) 1)
      (s.perChan (fun i => if s.sec b i then [.wgAdd (oWgp (2 * b + 1)), .spawn (s.tW2 b i)] else []))
      (fun c i s' => s.LI b alo tlo (s.phase b) 1 c i s' ∧ ¬ SecS s b s.n (s.phase b) c i s') := by
  have hph := phase_le s b
  refine (HT.range (fun j c i s' => s.LI b alo tlo (s.phase b) 1 c i s' ∧ ¬ SecS s b j (s.phase b) c i s') _ s.n ?_).pre
    (by toksub)
  intro j hj
  cases hs : s.sec b j with
  | true =>
    have h1 : s.secN b j = 1 := by simp [secN, hs]
    simp only [if_true]
    refine HT.cons (HT.wgAdd _) ?_
    refine (HT.spawn (rep_spawn_tW2 s hn b j hj) (by toksub)).post ?_
    apply Sub.cls <;> intro i s' hs' h <;> by_cases hij : i = j
    all_goals first | (subst hij; tokarith) | tokarith
  | false =>
    have h1 : s.secN b j = 0 := by simp [secN, hs]
    simp only [Bool.false_eq_true, if_false]
    refine HT.nil ?_
    apply Sub.cls <;> intro i s' hs' h <;> by_cases hij : i = j
    all_goals first | (subst hij; tokarith) | tokarith

theorem seg9 (hn : 0 < s.n) (b alo tlo : Nat) (hb : b < s.k) :
    HT (mkSpec s.par) s.kids t
      (fun c i s' => s.LI b alo tlo (s.phase b) 1 c i s' ∧ ¬ SecS s b s.n (s.phase b) c i s')
      [.wgWait (oWgp (2 * b + 1))] (s.LI b alo tlo (s.phase b) 1) := by
  have hph := phase_le s b
  refine (HT.wgWait (rep_wait_wgp1 s hn b hb)).post ?_
  apply Sub.cls <;> intro i s' hs' h <;> by_cases hsec : 1 ≤ s.secN b i
  all_goals tokarith

theorem seg10 (b alo tlo ph : Nat) :
    HT (mkSpec s.par) s.kids t (s.LI b alo tlo ph 1) (s.perChan (fun i => [.wr (vPst i)])) (s.LI b alo tlo ph 1) := by
  apply HT.range_const; intro i hi
  exact HT.wrv1 (c := 7) i (by decide) rfl (by tokarith)

theorem seg11 (b alo tlo ph : Nat) :
    HT (mkSpec s.par) s.kids t (s.LI b alo tlo ph 1) [.rd vWsa, .wr vWsc] (s.LI b alo tlo ph 1) :=
  HT.cons (HT.rdv (c := 11) 0 0 (by decide) (by decide) (Or.inl rfl) (by tokarith))
    (HT.wrv1 (c := 12) 0 (by decide) rfl (by tokarith))

theorem seg12 (b alo tlo ph : Nat) :
    HT (mkSpec s.par) s.kids t (s.LI b alo tlo ph 1)
      (if s.merged then [.spawn (s.tA (b + 1))] else []) (s.LI b alo tlo ph 0) := by
  cases hm : s.merged with
  | true =>
    have e : s.bb b = 0 := by simp [bb, hm]
    simp only [if_true, LI, e]
    exact (HT.spawn (rep_spawn_tA s hm (b + 1)) (by toksub)).post (by toksub)
  | false =>
    simp only [Bool.false_eq_true, if_false]
    exact HT.nil (by toksub)

/-- a critical section of the write state -/
theorem HT.wsm {p : Par} {kids : Obj → List Tid} {P : TS} (e : Ev) (hP : P 11 0 0)
    (he : e = .rd vWsa ∨ (e = .wr vWsa)) :
    HT (mkSpec p) kids t P [.lock oWsm, e, .unlock oWsm] (fun c i s => P c i s ∧ ¬ OneS 11 0 1 c i s) := by
  refine HT.cons (HT.lock (rep_mtx_wsm p)) (HT.cons (Q := fun c i s => P c i s ∨ OneS 11 0 1 c i s) ?_ ?_)
  · rcases he with rfl | rfl
    · exact HT.rdv (c := 11) 0 0 (by decide) (by decide) (Or.inl rfl) (Or.inl hP)
    · exact HT.wrv2 (c := 11) 0 (by decide) rfl (Or.inl hP) (Or.inr ⟨rfl, rfl, rfl⟩)
  · exact (HT.unlock (rep_mtx_wsm p) (fun _ _ _ _ _ h => Or.inr h)).post
      (fun _ _ _ _ _ h => ⟨Or.inl h.1, h.2⟩)

/-- a trigger change: the core loop holds both shares of every trigger state -/
theorem trigChange (b alo tlo : Nat) :
    HT (mkSpec s.par) s.kids t (s.LI b alo tlo 1 0)
      (s.perChan (fun i => [.wr (vPtrig i), .wr (vPst i)]) ++ s.perChan (fun i => [.rd (vPtrig i)]))
      (s.LI b alo tlo 1 0) := by
  refine HT.seq (Q := s.LI b alo tlo 1 0) ?_ ?_
  · apply HT.range_const; intro i hi
    exact HT.cons (HT.wrv2 (c := 8) i (by decide) rfl (by tokarith) (by tokarith))
      (HT.wrv1 (c := 7) i (by decide) rfl (by tokarith))
  · apply HT.range_const; intro i hi
    exact HT.rdv (c := 8) i 0 (by decide) (by decide) (Or.inl rfl) (by tokarith)

theorem typedReqBody (b alo tlo : Nat) :
    HT (mkSpec s.par) s.kids t (s.LI b alo tlo 1 0) (s.reqBody b) (s.LI b alo tlo 1 0) := by
  unfold reqBody
  split
  · exact trigChange s b alo tlo
  · exact HT.cons (HT.wrv2 (c := 9) 0 (by decide) rfl (by tokarith) (by tokarith))
      (HT.rdv (c := 9) 0 0 (by decide) (by decide) (Or.inl rfl) (by tokarith))
  · refine HT.seq (Q := s.LI b alo tlo 1 0) (HT.seq (Q := s.LI b alo tlo 1 0) ?_ ?_) ?_
    · exact HT.wrv1 (c := 12) 0 (by decide) rfl (by tokarith)
    · apply HT.range_const; intro i hi
      exact HT.wrv1 (c := 7) i (by decide) rfl (by tokarith)
    · exact HT.seq (a := [.lock oWsm, .wr vWsa, .unlock oWsm]) (b := [.lock oWsm, .rd vWsa, .unlock oWsm])
        (Q := s.LI b alo tlo 1 0)
        ((HT.wsm (p := s.par) _ (by tokarith) (Or.inr rfl)).post (by toksub))
        ((HT.wsm (p := s.par) _ (by tokarith) (Or.inl rfl)).post (by toksub))
  · exact HT.cons (HT.wrv1 (c := 5) 0 (by decide) rfl (by tokarith)) (HT.spawn0 (spawnPay_tAR s _))

theorem seg13 (b alo tlo : Nat) :
    HT (mkSpec s.par) s.kids t (s.LI b alo tlo (s.phase b) 0)
      (if s.k0 ≤ b then [.recv (oQreq (b - s.k0 + 2)), .send oQres] ++ s.reqBody b else [])
      (s.LI b alo tlo (s.phase b) 0) := by
  split
  next h =>
    have hph : s.phase b = 1 := by unfold phase; rw [if_neg (by omega)]
    rw [hph]
    exact HT.seq (HT.cons (HT.recv0 _) (HT.send0 (chanPay_oQres _))) (typedReqBody s b alo tlo)
  next h => exact HT.refl

/-- one block of the core loop -/
theorem typedBlockL (hn : 0 < s.n) (b : Nat) (hb : b < s.k) :
    HT (mkSpec s.par) s.kids t (s.LI b (s.archIdx (b - 1)) (s.trsIdx b) (s.phase b) 0) (s.blockL b)
      (s.LI b (s.archIdx b) (s.trsIdx (b + 1)) (s.phase b) 0) := by
  unfold blockL
  exact HT.seq (HT.seq (HT.seq (HT.seq (HT.seq (HT.seq (HT.seq (HT.seq (HT.seq (HT.seq (HT.seq (HT.seq
    (seg1 s b _ _ _) (seg2 s b _ _ hb)) (seg3 s hn b _ _)) (seg4 s hn b _ _ hb)) (seg5 s b _ _ _)) (seg6 s b _ _ _))
    (seg7 s b _ _ hb)) (seg8 s hn b _ _)) (seg9 s hn b _ _ hb)) (seg10 s b _ _ _)) (seg11 s b _ _ _))
    (seg12 s b _ _ _)) (seg13 s b _ _)

/-! ### the whole core loop -/

/-- what the core loop still needs at its end -/
@[c17set] def TailS : TS := fun c i s => (c = 11 ∨ c = 12) ∧ i = 0 ∧ s = 0

theorem typedL_init :
    HT (mkSpec s.par) s.kids tL EmptyS ([.start] ++ (if s.merged then [.spawn (s.tA 0)] else [])) (s.LI 0 0 0 0 0) := by
  cases hm : s.merged with
  | true =>
    have e : s.bb 0 = 0 := by simp [bb, hm]
    simp only [if_true, LI, e]
    refine HT.cons (HT.start (rep_spawn_tL s 1 (by simp [hm]))) ?_
    exact (HT.spawn (rep_spawn_tA s hm 0) (by toksub)).post (by toksub)
  | false =>
    simp only [Bool.false_eq_true, if_false, List.append_nil]
    exact (HT.start (rep_spawn_tL s 0 (by simp [hm]))).post (by toksub)

theorem typedL_loop1 (hn : 0 < s.n) (m : Nat) (hm : m ≤ s.k0) (hk : m ≤ s.k) :
    HT (mkSpec s.par) s.kids tL (s.LI 0 0 0 0 0) ((rng m).flatMap s.blockL)
      (s.LI m (s.archIdx (m - 1)) (s.trsIdx m) 0 0) := by
  refine (HT.range (fun b => s.LI b (s.archIdx (b - 1)) (s.trsIdx b) 0 0) _ m ?_).pre ?_
  · intro b hb
    have hph : s.phase b = 0 := by unfold phase; rw [if_pos (by omega)]
    have h := typedBlockL (t := tL) s hn b (by omega)
    rw [hph] at h
    refine h.post ?_
    simp only [Nat.add_sub_cancel]
    toksub
  · simp only [Nat.zero_sub, archIdx_zero, trsIdx_zero]
    toksub

theorem typedL_first (b alo tlo : Nat) :
    HT (mkSpec s.par) s.kids tL (s.LI b alo tlo 0 0) s.firstReq (s.LI b alo tlo 1 0) := by
  unfold firstReq
  rw [List.append_assoc]
  refine HT.seq ?_ (trigChange s b alo tlo)
  have r : Rep ((mkSpec s.par).chanPay (oQreq 1)) (ClientS s.n) := rep_chan_qreq1 s.par
  exact HT.cons (HT.recv r) ((HT.send0 (chanPay_oQres _)).post (by toksub))

theorem typedL_loop2 (hn : 0 < s.n) (hk : s.k0 ≤ s.k) :
    HT (mkSpec s.par) s.kids tL (s.LI s.k0 (s.archIdx (s.k0 - 1)) (s.trsIdx s.k0) 1 0)
      ((rng (s.k - s.k0)).flatMap (fun d => s.blockL (s.k0 + d))) TailS := by
  refine ((HT.range (fun d => s.LI (s.k0 + d) (s.archIdx (s.k0 + d - 1)) (s.trsIdx (s.k0 + d)) 1 0) _
    (s.k - s.k0) ?_).pre ?_).post (by toksub)
  · intro d hd
    have hph : s.phase (s.k0 + d) = 1 := by unfold phase; rw [if_neg (by omega)]
    have h := typedBlockL (t := tL) s hn (s.k0 + d) (by omega)
    rw [hph] at h
    refine h.post ?_
    simp only [← Nat.add_assoc, Nat.add_sub_cancel]
    toksub
  · simp only [Nat.add_zero]
    toksub

theorem typedL_tail :
    HT (mkSpec s.par) s.kids tL TailS
      [.recvC oNbClose, .lock oWsm, .rd vWsa, .unlock oWsm, .close oRunDone, .wgDone oRund] EmptyS := by
  refine HT.cons (HT.recvC0 _) ?_
  refine HT.seq (a := [.lock oWsm, .rd vWsa, .unlock oWsm]) (b := [.close oRunDone, .wgDone oRund])
    (HT.wsm (p := s.par) _ (by tokarith) (Or.inl rfl)) ?_
  exact HT.cons (HT.close (rep_close_rundone s) (by toksub)) ((HT.wgDone0 (donePay_oRund s _)).post (by toksub))

theorem typedL (hn : 0 < s.n) : HT (mkSpec s.par) s.kids tL EmptyS s.progL EmptyS := by
  unfold progL
  refine HT.seq (HT.seq (Q := s.LI (min s.k0 s.k) (s.archIdx (min s.k0 s.k - 1)) (s.trsIdx (min s.k0 s.k)) 0 0)
    (HT.seq (typedL_init s) (typedL_loop1 s hn _ (Nat.min_le_left _ _) (Nat.min_le_right _ _))) ?_) (typedL_tail s)
  split
  next hk =>
    have e : min s.k0 s.k = s.k0 := Nat.min_eq_left hk
    rw [e]
    exact HT.seq (typedL_first s _ _ _) (typedL_loop2 s hn hk)
  next hk => exact HT.nil (by toksub)

end
end DastardV.C17
