/-
The three trigger passes of one block together: `triggerData` outside edge-multi never panics
(all reads and all record cuts are in range) when `3 ≤ npre < nsamp`, the rule
`ConfigurePulseLengths` enforces.
-/
import DastardV.Lemmas.Auto
namespace DastardV.Trig

/-- the validity rule of `ConfigurePulseLengths` -/
def ValidLen (c : Chan) : Prop := 3 ≤ c.npre ∧ c.npre < c.nsamp

theorem fpt_ge (c : Chan) : c.npre ≤ fpt c := by unfold fpt; simp only; split <;> omega
theorem fpta_ge (c : Chan) : c.npre ≤ fpta c := by unfold fpta; simp only; split <;> omega

/-- scan bound of the edge/level passes -/
def hiOf (c : Chan) : Int := (c.buf.length : Int) + c.npre - c.nsamp

theorem inRange_of_scan {c : Chan} {x : Int} (h1 : c.npre ≤ x) (h2 : x < hiOf c) : InRange c x := by
  unfold hiOf at h2; exact ⟨h1, by omega⟩

/-- the level pass never panics; its result keeps every index in range -/
theorem levelPass_some {c : Chan} (hv : ValidLen c) {found : List Int}
    (hf : FoundOK c (fpt c) found) (hr : ∀ x ∈ found, x < hiOf c) :
    ∃ res, levelPass c found = some res ∧ ∀ x ∈ res, c.npre ≤ x ∧ x < hiOf c := by
  obtain ⟨h3, hlt⟩ := hv
  unfold levelPass
  by_cases hl : c.ts.level = true
  · simp only [hl, Bool.not_true, Bool.false_eq_true, if_false]
    obtain ⟨res, hres, hs⟩ := levelLoop_spec c (hiOf c) (by omega) (by unfold hiOf; omega) _ (fpt c) found []
      (Nat.le_refl _) (by have := fpt_ge c; omega) hf
    have hres' : levelLoop c ((c.buf.length : Int) + c.npre - c.nsamp) (fpt c) found [] = some res := by
      simpa [hiOf] using hres
    simp only [hres']
    refine ⟨_, rfl, ?_⟩
    intro x hx
    rcases List.mem_append.mp (mem_sortAsc.mp hx) with hx | hx
    · exact ⟨by have := hf.1 x hx; have := fpt_ge c; omega, hr x hx⟩
    · have := hs.range x hx; have := fpt_ge c; exact ⟨by omega, by omega⟩
  · have hl' : c.ts.level = false := by simpa using hl
    simp only [hl', Bool.not_false, if_true]
    refine ⟨found, rfl, ?_⟩
    intro x hx
    exact ⟨by have := hf.1 x hx; have := fpt_ge c; omega, hr x hx⟩

/-- the auto pass never panics; its result keeps every index in range -/
theorem autoPass_some {c : Chan} (hv : ValidLen c) {found : List Int}
    (hr : ∀ x ∈ found, c.npre ≤ x ∧ x < hiOf c) :
    ∃ res, autoPass c found = some res ∧ ∀ x ∈ res, c.npre ≤ x ∧ x < hiOf c := by
  obtain ⟨h3, hlt⟩ := hv
  unfold autoPass
  by_cases ha : c.ts.auto = true
  · simp only [ha, Bool.not_true, Bool.false_eq_true, if_false]
    have hd : ¬ (if c.ts.autoDelay < c.nsamp then c.nsamp else c.ts.autoDelay) ≤ 0 := by split <;> omega
    simp only [hd, dite_false]
    obtain ⟨res, hres, hx⟩ := autoLoop_spec c (if c.ts.autoDelay < c.nsamp then c.nsamp else c.ts.autoDelay)
      (by omega) (by omega) (by omega) found _ (fpta c) [] (Nat.le_refl _) (fpta_ge c) (fun t ht => (hr t ht).1)
    simp only [List.nil_append] at hres
    simp only [hres]
    refine ⟨_, rfl, ?_⟩
    intro x hxm
    rcases List.mem_append.mp (mem_sortAsc.mp hxm) with h | h
    · exact hr x h
    · have := hx x h; unfold hiOf; exact ⟨this.1, by omega⟩
  · have ha' : c.ts.auto = false := by simpa using ha
    simp only [ha', Bool.not_false, if_true]
    exact ⟨found, rfl, hr⟩

/-- **No crash in the edge / level / auto passes**: for every buffer content and every trigger
state outside edge-multi, `TriggerData` returns (no index or slice bound is violated). -/
theorem triggerData_nonEMT_some (c : Chan) (zt : ZT) (hv : ValidLen c) (hem : c.ts.edgeMulti = false) :
    ∃ c' recs, triggerData c zt = some (c', recs) := by
  have hns : 0 ≤ c.nsamp := by obtain ⟨h3, hlt⟩ := hv; omega
  obtain ⟨e, he, hoff, hon⟩ := edgePass_spec c hv.1 hns (by obtain ⟨h3, hlt⟩ := hv; omega)
  -- facts about the edge result
  have hefound : FoundOK c (fpt c) e ∧ ∀ x ∈ e, x < hiOf c := by
    by_cases hedge : c.ts.edge = true
    · have hs := hon hedge
      exact ⟨⟨fun t ht => (hs.range t ht).1, hs.spaced⟩, fun x hx => (hs.range x hx).2⟩
    · have : e = [] := hoff (by simpa using hedge)
      subst this
      exact ⟨⟨by simp, by simp⟩, by simp⟩
  obtain ⟨hfo, her⟩ := hefound
  have herange : ∀ x ∈ e, InRange c x := fun x hx =>
    inRange_of_scan (by have := hfo.1 x hx; have := fpt_ge c; omega) (her x hx)
  obtain ⟨r1, hr1⟩ := cutAll_some hns e herange
  obtain ⟨el, hel, helr⟩ := levelPass_some hv hfo her
  obtain ⟨r2, hr2⟩ := cutAll_some hns el (fun x hx => inRange_of_scan (helr x hx).1 (helr x hx).2)
  obtain ⟨all, hall, hallr⟩ := autoPass_some hv helr
  obtain ⟨r3, hr3⟩ := cutAll_some hns all (fun x hx => inRange_of_scan (hallr x hx).1 (hallr x hx).2)
  unfold triggerData
  simp only [hem, Bool.false_eq_true, if_false, he, hr1, hel, hr2, hall, hr3]
  exact ⟨_, _, rfl⟩

end DastardV.Trig
