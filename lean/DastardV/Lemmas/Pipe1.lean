/-
Helper lemmas for C01: the stream-buffer invariant `Rep` (the buffer is a suffix of the
delivered stream, `first` is the frame number of its first sample), preserved by
`append`/`trim`; `cut` returns the exact excerpt.
-/
import DastardV.Model.Pipe
namespace DastardV.Trig

/-- `Rep G f0 c`: the buffer of `c` is the suffix of the delivered stream `G` (whose sample 0
has frame number `f0`) that starts at stream position `k`, and `c.first` is the frame number
of that position. -/
def Rep (G : List Nat) (f0 : Int) (c : Chan) : Prop :=
  ∃ k : Nat, k ≤ G.length ∧ c.buf = G.drop k ∧ c.first = f0 + k

/-- time bookkeeping: buffer index `i` has time `tB + (c.first + i − fB)·period` where
`(fB, tB)` is the stamp of the newest block. -/
def TimeRep (fB tB : Int) (c : Chan) : Prop :=
  ∀ i : Int, timeOf c i = tB + (c.first + i - fB) * c.period

theorem rep_nil (f0 : Int) (c : Chan) (hb : c.buf = []) (hf : c.first = f0) : Rep [] f0 c :=
  ⟨0, by simp, by simp [hb], by simp [hf]⟩

theorem append_rep {G : List Nat} {f0 : Int} {c : Chan} (h : Rep G f0 c)
    (seg : List Nat) (segFirst segT0 segPeriod : Int) (signed : Bool)
    (hcont : segFirst = f0 + G.length) :
    Rep (G ++ seg) f0 (append c seg segFirst segT0 segPeriod signed) := by
  obtain ⟨k, hk, hb, _⟩ := h
  refine ⟨k, by simp; omega, ?_, ?_⟩
  · simp [append, hb, List.drop_append_of_le_length hk]
  · simp only [append, hb, List.length_drop, hcont]
    omega

/-- the first block of a run (empty buffer): any frame number is accepted -/
theorem append_rep_first {c : Chan} (hb : c.buf = [])
    (seg : List Nat) (segFirst segT0 segPeriod : Int) (signed : Bool) :
    Rep seg segFirst (append c seg segFirst segT0 segPeriod signed) := by
  refine ⟨0, by simp, by simp [append, hb], by simp [append, hb]⟩

theorem append_timeRep (c : Chan) (seg : List Nat) (segFirst segT0 segPeriod : Int) (signed : Bool)
    (hper : c.buf = [] ∨ c.period = segPeriod) :
    TimeRep segFirst segT0 (append c seg segFirst segT0 segPeriod signed) := by
  intro i
  simp only [timeOf, append]
  rcases hper with h | h
  · simp [h]
    rw [show segFirst + i - segFirst = i by omega]
  · rw [h]
    generalize (c.buf.length : Int) = n
    rw [show segFirst - n + i - segFirst = i - n by omega, Int.sub_mul]
    omega

theorem trim_rep {G : List Nat} {f0 : Int} {c : Chan} (h : Rep G f0 c) (hk0 : 0 ≤ c.emt.nsamp) :
    Rep G f0 (trim c) := by
  obtain ⟨k, hk, hb, hf⟩ := h
  unfold trim
  simp only
  split
  · exact ⟨k, hk, hb, hf⟩
  · rename_i hlt
    have hlen : c.buf.length = G.length - k := by simp [hb]
    refine ⟨G.length - (2 * c.emt.nsamp + 10).toNat, by omega, ?_, ?_⟩
    · rw [hb, List.drop_drop]
      simp only [List.length_drop]
      have e : k + (G.length - k - (2 * c.emt.nsamp + 10).toNat) = G.length - (2 * c.emt.nsamp + 10).toNat := by omega
      rw [e]
    · simp only [hf]
      omega

theorem sliceI_some {raw : List Nat} {a b : Int} {d : List Nat} (h : sliceI raw a b = some d) :
    0 ≤ a ∧ a ≤ b ∧ b ≤ raw.length ∧ d = (raw.drop a.toNat).take (b.toNat - a.toNat) := by
  unfold sliceI at h
  split at h
  · rename_i hc
    simp only [Option.some.injEq] at h
    exact ⟨hc.1, hc.2.1, hc.2.2, h.symm⟩
  · simp at h

/-- what C01 demands of the samples and the frame label of a record: the record is the excerpt of
the delivered stream `G` (sample 0 = frame `f0`) that starts `npre` samples before its trigger frame -/
def Excerpt (G : List Nat) (f0 : Int) (r : Rec) : Prop :=
  ∃ a : Nat, (a : Int) = r.frame - f0 - r.npre ∧ a + r.data.length ≤ G.length ∧
    r.data = (G.drop a).take r.data.length

theorem cut_exact {G : List Nat} {f0 : Int} {c : Chan} (h : Rep G f0 c) {i p n : Int} {r : Rec}
    (hc : cut c i p n = some r) :
    r.frame = c.first + i ∧ r.npre = p ∧ (r.data.length : Int) = n ∧ r.signed = c.signed ∧
      r.time = timeOf c i ∧ Excerpt G f0 r := by
  obtain ⟨k, hk, hb, hf⟩ := h
  unfold cut at hc
  split at hc
  · simp at hc
  · rename_i hn
    split at hc
    · rename_i d hd
      obtain ⟨h0, h1, h2, hd⟩ := sliceI_some hd
      simp only [Option.some.injEq] at hc
      subst hc
      have hlen : c.buf.length = G.length - k := by simp [hb]
      have hdl : d.length = (i + n - p).toNat - (i - p).toNat := by
        rw [hd, List.length_take, List.length_drop]; omega
      refine ⟨rfl, rfl, ?_, rfl, rfl, k + (i - p).toNat, ?_, ?_, ?_⟩
      · simp only [hdl]; omega
      · simp only [hf]; omega
      · simp only [hdl]; omega
      · simp only [hdl]
        rw [hd, hb, List.drop_drop]
    · simp at hc

end DastardV.Trig
