/-
C09 at the level of the whole source: in every processing cycle (`ProcessSegments` = `opBlock`) the
secondary records a channel publishes sit exactly at the frames of the primary triggers of the channels
connected to it as sources (as a multiset), a channel without incoming connection publishes none, and
(`C01_block_exact`) each of them carries the receiving channel's own samples at that frame.
-/
import DastardV.Lemmas.NoCrash
namespace DastardV.Pipe
open Trig

theorem secondaries_frames {c : Chan} {fl : List Int} {sec : List Rec} (h : secondaries c fl = some sec) :
    sec.map (·.frame) = fl := by
  unfold secondaries at h
  rw [cutAll_frames h, List.map_map]
  have : ((fun x => c.first + x) ∘ fun x => x - c.first) = id := by
    funext x; simp only [Function.comp, id]; omega
  rw [this, List.map_id]

theorem sum_lengths_zero {α} : ∀ {ls : List (List α)}, (ls.map List.length).sum = 0 → ∀ l ∈ ls, l = []
  | [], _, l, hl => by simp at hl
  | x :: xs, h, l, hl => by
    simp only [List.map_cons, List.sum_cons] at h
    rcases List.mem_cons.mp hl with rfl | hl
    · exact List.eq_nil_of_length_eq_zero (by omega)
    · exact sum_lengths_zero (ls := xs) (by omega) l hl

/-- `phase2_get` with the frame list named: channel `idx + j` cuts the list the broker assigned to it -/
theorem phase2_get' (secMap : List (Nat × List Int)) :
    ∀ (p1 : List (Chan × List Rec)) (idx : Nat) (res : List (Chan × List Rec)),
      phase2 secMap p1 idx = some res →
      ∀ (j : Nat) (c3 : Chan) (out : List Rec), res[j]? = some (c3, out) →
        ∃ c2 prim sec, p1[j]? = some (c2, prim) ∧ secondaries c2 (flOf secMap (idx + j)) = some sec ∧
          out = prim ++ sec
  | [], idx, res, h => by
    simp [phase2] at h; subst h; simp
  | (c, prim) :: rest, idx, res, h => by
    simp only [phase2, bind, Option.bind_eq_some_iff, pure, Option.some.injEq] at h
    obtain ⟨sec, hsec, tl, htl, rfl⟩ := h
    have ih := phase2_get' secMap rest (idx + 1) tl htl
    intro j c3 out hj
    cases j with
    | zero =>
      simp only [List.getElem?_cons_zero, Option.some.injEq, Prod.mk.injEq] at hj
      obtain ⟨rfl, rfl⟩ := hj
      refine ⟨c, prim, sec, by simp, ?_, rfl⟩
      simp only [flOf, Nat.add_zero]
      cases hfind : List.find? (fun x => x.fst == idx) secMap with
      | none => rw [hfind] at hsec; exact hsec
      | some pr => rw [hfind] at hsec; exact hsec
    | succ j =>
      simp only [List.getElem?_cons_succ] at hj
      obtain ⟨c2, prim2, sec2, h1, h2, h3⟩ := ih j c3 out hj
      exact ⟨c2, prim2, sec2, by simpa using h1, by rw [show idx + (j + 1) = idx + 1 + j by omega]; exact h2, h3⟩

/-- **C09 at source level**: the secondaries of one processing cycle. -/
theorem C09_source_level {s s' : Src} {first t0 per : Int} {signed : List Bool} {data : List (List Nat)}
    {zts : List (List (Int × Int))} {rs : List (List Rec)}
    (hg : C09.Good s.broker) (hbn : s.broker.n = s.chans.length)
    (h : opBlock s first t0 per signed data zts = some (s', rs)) :
    ∃ prims : List (List Rec), prims.length = s.chans.length ∧
      ∀ (j : Nat), j < s.chans.length → ∃ prim sec, prims[j]? = some prim ∧ rs[j]? = some (prim ++ sec) ∧
        C09.SameMultiset (sec.map (·.frame))
          ((C09.sourcesOf s.broker j).flatMap fun src => (prims[src.toNat]?.getD []).map (·.frame)) := by
  unfold opBlock at h
  simp only [bind, pure] at h
  split at h
  · simp at h
  simp only [Option.bind_eq_some_iff] at h
  obtain ⟨p1, hp1, h⟩ := h
  split at h
  · simp at h
  rename_i b' dres secMap hdist
  simp only [Option.bind_eq_some_iff, Option.some.injEq, Prod.mk.injEq] at h
  obtain ⟨p2, hp2, hs', hrs⟩ := h
  subst hs'; subst hrs
  obtain ⟨hl1, g1⟩ := phase1_get first t0 per s.chans signed data zts p1 hp1
  obtain ⟨hl2, g2⟩ := phase2_get secMap p1 0 p2 hp2
  generalize hprim : (p1.map fun x => x.2.map (·.frame)) = prim at hdist
  have hpl : prim.length = s.broker.n := by rw [← hprim, hbn]; simp [hl1]
  have hd2 : (C09.distribute s.broker prim).2 = C09.DistRes.ok secMap := by rw [hdist]
  -- what the secondary frame list of channel j is, as a multiset
  have hfl : ∀ (j : Nat), j < s.chans.length →
      C09.SameMultiset (flOf secMap j) ((C09.sourcesOf s.broker j).flatMap fun src => prim[src.toNat]?.getD []) := by
    intro j hj
    by_cases hp0 : (prim.map List.length).sum = 0
    · have hsm : secMap = [] := by
        unfold C09.distribute at hd2
        simp only [hp0, true_or, if_true] at hd2
        simpa using hd2.symm
      subst hsm
      have hall := sum_lengths_zero hp0
      have : ((C09.sourcesOf s.broker j).flatMap fun src => prim[src.toNat]?.getD []) = [] := by
        apply List.flatMap_eq_nil_iff.mpr
        intro src _
        cases hps : prim[src.toNat]? with
        | none => rfl
        | some l => exact hall l (List.mem_of_getElem? hps)
      rw [this]
      intro x; simp [flOf]
    · obtain ⟨m, hm, hmem, hall⟩ := C09.C09_distribute_exact s.broker hg prim hpl hp0
      have : m = secMap := by rw [hm] at hd2; simpa using hd2
      subst this
      unfold flOf
      cases hfind : List.find? (fun x => x.1 == j) m with
      | some pr =>
        obtain ⟨k', fr⟩ := pr
        simp only
        have hin : (k', fr) ∈ m := List.mem_of_find?_eq_some hfind
        have hk : k' = j := by
          have := List.find?_some hfind
          simpa using this
        subst hk
        exact (hmem k' fr hin).2.2
      | none =>
        simp only
        have hno : C09.sourcesOf s.broker j = [] := by
          by_cases hne : C09.sourcesOf s.broker j = []
          · exact hne
          · obtain ⟨fr, hfr⟩ := hall j (by rw [hbn]; exact hj) hne
            have := List.find?_eq_none.mp hfind (j, fr) hfr
            simp at this
        rw [hno]
        intro x; simp
  refine ⟨p1.map (·.2), by simp [hl1], ?_⟩
  intro j hj
  have hj2 : j < p2.length := by omega
  obtain ⟨c2, primj, sec, hp1j, hsec, hout⟩ := phase2_get' secMap p1 0 p2 hp2 j (p2[j]).1 (p2[j]).2
    (by simp [List.getElem?_eq_getElem hj2])
  refine ⟨primj, sec, by simp [List.getElem?_map, hp1j], by simp [List.getElem?_map, List.getElem?_eq_getElem hj2, hout], ?_⟩
  rw [secondaries_frames hsec, Nat.zero_add]
  have hsame : ((C09.sourcesOf s.broker j).flatMap fun src => prim[src.toNat]?.getD []) =
      ((C09.sourcesOf s.broker j).flatMap fun src => ((p1.map (·.2))[src.toNat]?.getD []).map (·.frame)) := by
    congr 1
    funext src
    rw [← hprim]
    simp only [List.getElem?_map]
    cases p1[src.toNat]? <;> simp
  rw [← hsame]
  exact hfl j hj

end DastardV.Pipe
