/-
A channel that is (re)configured while its buffer still holds the samples `B` behaves, from the next
block on, exactly like a channel with an empty buffer that receives `B ++ seg` as its first block:
`append` only concatenates.  So every "from a fresh start" theorem also holds after a reconfiguration
at any point of the stream, for the stream that begins with the RETAINED samples — in particular the
tail of the stream that could not be searched before the request is searched after it.
-/
import DastardV.Lemmas.EdgeGlobal
namespace DastardV.Trig

theorem stepChan_prepend (zt : ZT) (c : Chan) (seg : List Nat) (first t0 per : Int) (sg : Bool) :
    stepChan zt c seg first t0 per sg =
      stepChan zt { c with buf := [] } (c.buf ++ seg) (first - c.buf.length) (t0 - c.buf.length * c.period) per sg := by
  unfold stepChan
  have : append c seg first t0 per sg =
      append { c with buf := [] } (c.buf ++ seg) (first - c.buf.length) (t0 - c.buf.length * c.period) per sg := by
    simp [append]
  rw [this]

/-- `runChan` reads the block stamps only from its own block number on -/
theorem runChan_congr_tp (zt : ZT) (sg : Bool) (tp tp' : Nat → Int × Int) :
    ∀ (segs : List (List Nat)) (n : Nat) (c : Chan) (first : Int), (∀ m, n ≤ m → tp m = tp' m) →
      runChan zt tp sg n c first segs = runChan zt tp' sg n c first segs
  | [], _, _, _, _ => rfl
  | seg :: segs, n, c, first, h => by
    unfold runChan
    rw [h n (Nat.le_refl _)]
    cases stepChan zt c seg first (tp' n).1 (tp' n).2 sg with
    | none => rfl
    | some r =>
      obtain ⟨c1, tr⟩ := r
      simp only
      rw [runChan_congr_tp zt sg tp tp' segs (n + 1) c1 (first + seg.length) (fun m hm => h m (by omega))]

/-- the run after a (re)configuration = a run from an empty buffer whose first block is the retained
samples followed by the first new block -/
theorem runChan_prepend (zt : ZT) (tp : Nat → Int × Int) (sg : Bool) (n : Nat) (c : Chan) (first : Int)
    (seg : List Nat) (segs : List (List Nat)) :
    ∃ tp', runChan zt tp sg n c first (seg :: segs) =
      runChan zt tp' sg n { c with buf := [] } (first - c.buf.length) ((c.buf ++ seg) :: segs) := by
  refine ⟨fun m => if m = n then ((tp n).1 - c.buf.length * c.period, (tp n).2) else tp m, ?_⟩
  conv => lhs; unfold runChan
  conv => rhs; unfold runChan
  simp only [if_true]
  rw [← stepChan_prepend]
  cases stepChan zt c seg first (tp n).1 (tp n).2 sg with
  | none => rfl
  | some r =>
    obtain ⟨c1, tr⟩ := r
    have hlen : first - (c.buf.length : Int) + ((c.buf ++ seg).length : Int) = first + seg.length := by
      simp; omega
    simp only [hlen]
    rw [runChan_congr_tp zt sg tp (fun m => if m = n then ((tp n).1 - c.buf.length * c.period, (tp n).2) else tp m)
      segs (n + 1) c1 (first + seg.length) (fun m hm => by
        have : m ≠ n := by omega
        simp [this])]

end DastardV.Trig
