/-
C03 helper lemmas, part b: one channel group against its ideal (completely filled) packet list.
`fullOf l A` is the gap-filled list of everything the group has received (`A`); a group's queue is
always what is left of it after `c` packets were consumed, possibly followed by arrivals that
`fillMissingPackets` has not looked at yet.
-/
import DastardV.Lemmas.C03a
namespace DastardV.C03

/-- the completely filled packet list of a group that received `A` -/
def fullOf (l : GL) (A : List Pkt) : List Pkt := (fillLoop l.nchan (l.l0 + 1) A).1

/-- frames filled in for it -/
def addedOf (l : GL) (A : List Pkt) : Nat := (fillLoop l.nchan (l.l0 + 1) A).2

/-- static validity of a group's layout and arrivals -/
structure GOK (fpp : Nat) (l : GL) (A : List Pkt) : Prop where
  fpp_pos : 0 < fpp
  nchan_pos : 0 < l.nchan
  sync_le : l.sync ≤ l.l0 + 1
  inc : Inc (l.l0 + 1) A
  wf : WF fpp l.nchan A

/-- the queue is the filled list of the processed arrivals `AP` minus `c` consumed packets, followed
by the arrivals `new` not yet seen by `fillMissingPackets`; `a` = frames filled in so far -/
structure GRel (l : GL) (A : List Pkt) (c a : Nat) (g : Group) : Prop where
  nchan_eq : g.nchan = l.nchan
  sync_eq : g.sync = l.sync
  ex : ∃ AP new, A = AP ++ new ∧ g.queue = (fullOf l AP).drop c ++ new ∧
        g.lastSN = lastSnOr l.l0 AP ∧ c ≤ (fullOf l AP).length ∧ a = addedOf l AP

/-- as `GRel` with every arrival processed -/
structure GFull (l : GL) (A : List Pkt) (c a : Nat) (g : Group) : Prop where
  nchan_eq : g.nchan = l.nchan
  sync_eq : g.sync = l.sync
  queue_eq : g.queue = (fullOf l A).drop c
  last_eq : g.lastSN = lastSnOr l.l0 A
  c_le : c ≤ (fullOf l A).length
  a_eq : a = addedOf l A

theorem GFull.toRel {l : GL} {A : List Pkt} {c a : Nat} {g : Group} (h : GFull l A c a g) : GRel l A c a g :=
  ⟨h.nchan_eq, h.sync_eq, A, [], by simp, by simp [h.queue_eq], h.last_eq, h.c_le, h.a_eq⟩

theorem GOK.prefix {fpp : Nat} {l : GL} {AP new : List Pkt} (h : GOK fpp l (AP ++ new)) : GOK fpp l AP :=
  ⟨h.fpp_pos, h.nchan_pos, h.sync_le, ((Inc.append AP _ new (by omega)).mp h.inc).1, h.wf.of_append_left⟩

theorem fullOf_append {fpp : Nat} {l : GL} {AP new : List Pkt} (h : GOK fpp l (AP ++ new)) :
    fullOf l (AP ++ new) = fullOf l AP ++ (fillLoop l.nchan (endOf (l.l0 + 1) AP) new).1 ∧
    addedOf l (AP ++ new) = addedOf l AP + (fillLoop l.nchan (endOf (l.l0 + 1) AP) new).2 := by
  have hi := (Inc.append AP _ new (by omega)).mp h.inc
  unfold fullOf addedOf
  rw [fill_append l.nchan AP (l.l0 + 1) new (by omega) hi.1]
  exact ⟨rfl, rfl⟩

theorem fullOf_length_mono {fpp : Nat} {l : GL} {AP new : List Pkt} (h : GOK fpp l (AP ++ new)) :
    (fullOf l AP).length ≤ (fullOf l (AP ++ new)).length := by
  rw [(fullOf_append h).1, List.length_append]; omega

theorem endOf_l0 (l : GL) (A : List Pkt) : endOf (l.l0 + 1) A = lastSnOr l.l0 A + 1 := by
  unfold endOf; simp

theorem fullOf_sns {fpp : Nat} {l : GL} {A : List Pkt} (h : GOK fpp l A) :
    (fullOf l A).map (·.sn) = List.range' (l.l0 + 1) (fullOf l A).length := by
  unfold fullOf
  rw [fill_length _ _ _ (by omega) h.inc]
  exact fill_sns l.nchan A (l.l0 + 1) (by omega) h.inc

theorem fullOf_wf {fpp : Nat} {l : GL} {A : List Pkt} (h : GOK fpp l A) : WF fpp l.nchan (fullOf l A) :=
  fill_wf fpp l.nchan A _ h.inc h.wf

theorem fullOf_length {fpp : Nat} {l : GL} {A : List Pkt} (h : GOK fpp l A) :
    (fullOf l A).length = lastSnOr l.l0 A - l.l0 := by
  unfold fullOf
  rw [fill_length _ _ _ (by omega) h.inc, endOf_l0]; omega

/-- arrivals are appended to the queue -/
theorem GRel.enq {l : GL} {A : List Pkt} {c a : Nat} {g : Group} (h : GRel l A c a g) (x : List Pkt) :
    GRel l (A ++ x) c a { g with queue := g.queue ++ x } := by
  obtain ⟨AP, new, h1, h2, h3, h4, h5⟩ := h.ex
  refine ⟨h.nchan_eq, h.sync_eq, AP, new ++ x, ?_, ?_, h3, h4, h5⟩
  · rw [h1, List.append_assoc]
  · show g.queue ++ x = _
    rw [h2, List.append_assoc]

theorem fillG_eq (g : Group) :
    fillG g = ({ g with queue := (fillLoop g.nchan (g.lastSN + 1) g.queue).1,
                        lastSN := lastSnOr g.lastSN (fillLoop g.nchan (g.lastSN + 1) g.queue).1 },
               (fillLoop g.nchan (g.lastSN + 1) g.queue).2) := by
  unfold fillG
  cases g with
  | mk first nchan queue lastSN sync =>
    cases queue with
    | nil => simp [fill_nil, lastSnOr_nil]
    | cons p ps => rfl

/-- `fillMissingPackets` brings a group to the completely filled state and reports exactly the
frames it added -/
theorem GRel.fill {fpp : Nat} {l : GL} {A : List Pkt} {c a : Nat} {g : Group}
    (hok : GOK fpp l A) (h : GRel l A c a g) : GFull l A c (a + (fillG g).2) (fillG g).1 := by
  obtain ⟨AP, new, h1, h2, h3, h4, h5⟩ := h.ex
  subst h1
  have hokP := hok.prefix
  have hi := (Inc.append AP _ new (by omega)).mp hok.inc
  have hfa := fullOf_append hok
  have he : g.lastSN + 1 = endOf (l.l0 + 1) AP := by rw [endOf_l0, h3]
  have hold : ∀ p ∈ (fullOf l AP).drop c, p.sn < g.lastSN + 1 := by
    intro p hp
    rw [he]
    exact fill_sn_lt l.nchan AP _ (by omega) hokP.inc p (List.mem_of_mem_drop hp)
  have hr : fillLoop g.nchan (g.lastSN + 1) g.queue =
      ((fullOf l AP).drop c ++ (fillLoop l.nchan (endOf (l.l0 + 1) AP) new).1,
       (fillLoop l.nchan (endOf (l.l0 + 1) AP) new).2) := by
    rw [h2, h.nchan_eq, fill_skip_old _ _ _ _ hold, he]
  rw [fillG_eq, hr]
  have hlastOld : lastSnOr g.lastSN ((fullOf l AP).drop c) = g.lastSN := by
    rw [lastSnOr_drop]
    split
    · rfl
    · unfold fullOf
      rw [fill_last _ _ _ _ hokP.inc, h3, lastSnOr_idem]
  refine ⟨h.nchan_eq, h.sync_eq, ?_, ?_, ?_, ?_⟩
  · show _ = (fullOf l (AP ++ new)).drop c
    rw [hfa.1, List.drop_append_of_le_length h4]
  · show lastSnOr g.lastSN _ = _
    rw [lastSnOr_append, hlastOld, fill_last _ _ _ _ hi.2, h3, ← lastSnOr_append]
  · rw [hfa.1, List.length_append]; omega
  · rw [hfa.2, h5]

/-- an empty queue after filling: the group has consumed everything it received -/
theorem GFull.empty_iff {l : GL} {A : List Pkt} {c a : Nat} {g : Group} (h : GFull l A c a g) :
    g.queue = [] ↔ c = (fullOf l A).length := by
  rw [h.queue_eq, List.drop_eq_nil_iff]
  have := h.c_le
  omega

theorem GFull.queue_sns {fpp : Nat} {l : GL} {A : List Pkt} {c a : Nat} {g : Group}
    (hok : GOK fpp l A) (h : GFull l A c a g) :
    g.queue.map (·.sn) = List.range' (l.l0 + 1 + c) g.queue.length := by
  rw [h.queue_eq, List.map_drop, fullOf_sns hok, List.drop_range', List.length_drop]
  simp

theorem GFull.queue_wf {fpp : Nat} {l : GL} {A : List Pkt} {c a : Nat} {g : Group}
    (hok : GOK fpp l A) (h : GFull l A c a g) : WF fpp l.nchan g.queue := by
  rw [h.queue_eq]; exact (fullOf_wf hok).drop c

/-- the global number of the head packet of a non-empty filled queue -/
theorem GFull.head_sn {fpp : Nat} {l : GL} {A : List Pkt} {c a : Nat} {g : Group}
    (hok : GOK fpp l A) (h : GFull l A c a g) (p : Pkt) (ps : List Pkt) (hq : g.queue = p :: ps) :
    p.sn = l.l0 + 1 + c := by
  have := h.queue_sns hok
  rw [hq] at this
  simp only [List.map_cons, List.length_cons, List.range'_succ, List.cons.injEq] at this
  exact this.1

/-- `trimPacketsBefore(firstSn)` -/
theorem GFull.trim {fpp : Nat} {l : GL} {A : List Pkt} {c a : Nat} {g : Group}
    (hok : GOK fpp l A) (h : GFull l A c a g) (fsn : Nat) :
    GFull l A (min (fullOf l A).length (max c (fsn + l.sync - (l.l0 + 1)))) a (trimG fsn g) := by
  have hc := h.c_le
  refine ⟨h.nchan_eq, h.sync_eq, ?_, h.last_eq, Nat.min_le_left _ _, h.a_eq⟩
  show trimLoop (fsn + g.sync) g.queue = _
  rw [trim_contig g.queue (l.l0 + 1 + c) _ (h.queue_sns hok), h.queue_eq, List.drop_drop, h.sync_eq]
  by_cases hbig : (fullOf l A).length ≤ c + (fsn + l.sync - (l.l0 + 1 + c))
  · rw [List.drop_eq_nil_of_le hbig, List.drop_eq_nil_of_le]
    have : min (fullOf l A).length (max c (fsn + l.sync - (l.l0 + 1))) = (fullOf l A).length := by omega
    omega
  · congr 1
    omega

theorem GFull.count {fpp : Nat} {l : GL} {A : List Pkt} {c a : Nat} {g : Group}
    (hok : GOK fpp l A) (h : GFull l A c a g) : countFrames g = ((fullOf l A).length - c) * fpp := by
  unfold countFrames
  rw [h.nchan_eq, count_uniform fpp l.nchan _ (h.queue_wf hok), Nat.mul_div_cancel _ hok.nchan_pos,
    h.queue_eq, List.length_drop]

/-- what a successful `demuxData` returns for `m` packets -/
def demuxOut (l : GL) (A : List Pkt) (c m : Nat) (g : Group) : Group × List (List Nat) :=
  ({ g with queue := (fullOf l A).drop (c + m) },
   (List.range l.nchan).map fun ch => chanData l.nchan ch (((fullOf l A).drop c).take m))

/-- `demuxData` for `m` whole packets that are in the queue: no panic, the queue loses exactly
them, each channel gets their samples in order -/
theorem GFull.demux {fpp : Nat} {l : GL} {A : List Pkt} {c a : Nat} {g : Group}
    (hok : GOK fpp l A) (h : GFull l A c a g) (m : Nat) (hm : c + m ≤ (fullOf l A).length) :
    demuxG (m * fpp) g = .ok (demuxOut l A c m g) ∧ GFull l A (c + m) a (demuxOut l A c m g).1 := by
  have hfr : ∀ p ∈ g.queue, p.frames g.nchan = fpp := by
    rw [h.nchan_eq]; exact (h.queue_wf hok).frames hok.nchan_pos
  have hlen : m ≤ g.queue.length := by rw [h.queue_eq, List.length_drop]; omega
  constructor
  · unfold demuxG
    rw [demux_uniform fpp g.nchan hok.fpp_pos m g.queue hfr hlen]
    simp only [Nat.lt_irrefl, if_false, demuxOut]
    rw [h.queue_eq, List.drop_drop, h.nchan_eq]
  · exact ⟨h.nchan_eq, h.sync_eq, rfl, h.last_eq, hm, h.a_eq⟩

end DastardV.C03
