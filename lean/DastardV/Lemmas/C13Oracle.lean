/-
C13 — helper lemmas about the oracle: every tolerance is non-negative, so a value that equals its
definition exactly is always accepted.  Core Lean only.
-/
import DastardV.Model.C13
import DastardV.Lemmas.C13Sums
namespace DastardV.C13

theorem u53_nonneg : 0 ≤ u53 := by
  unfold u53
  rw [Rat.div_def]
  have h1 : (0 : Q) ≤ 1 := by decide
  have h2 : (0 : Q) < ((2 ^ 53 : Nat) : Q) := Rat.natCast_pos.mpr (Nat.two_pow_pos 53)
  exact Rat.mul_nonneg h1 (Rat.le_of_lt (Rat.inv_pos.mpr h2))

theorem sumQ_nonneg (xs : List Q) (h : ∀ x ∈ xs, 0 ≤ x) : 0 ≤ sumQ xs := by
  induction xs with
  | nil => simp [sumQ]
  | cons x xs ih =>
    simp only [sumQ]
    exact Rat.add_nonneg (h x List.mem_cons_self) (ih fun y hy => h y (List.mem_cons_of_mem _ hy))

theorem meanQ_nonneg (xs : List Q) (h : 0 ≤ sumQ xs) : 0 ≤ meanQ xs := by
  unfold meanQ
  rw [Rat.div_def]
  apply Rat.mul_nonneg h
  rcases Nat.eq_zero_or_pos xs.length with h0 | h0
  · rw [h0]; simp
  · exact Rat.le_of_lt (Rat.inv_pos.mpr (Rat.natCast_pos.mpr h0))

theorem sumQ_mul_self_nonneg (xs : List Q) : 0 ≤ sumQ (xs.map fun v => v * v) := by
  apply sumQ_nonneg
  intro x hx
  obtain ⟨v, _, rfl⟩ := List.mem_map.mp hx
  exact mul_self_nonneg v

theorem sumAbsProd_nonneg (a b : List Q) : 0 ≤ sumAbsProd a b := by
  unfold sumAbsProd
  induction a generalizing b with
  | nil => simp [sumQ]
  | cons x xs ih =>
    cases b with
    | nil => simp [sumQ]
    | cons y ys =>
      simp only [List.zipWith_cons_cons, sumQ]
      exact Rat.add_nonneg (absQ_nonneg _) (ih ys)

theorem coefTol_nonneg (row x : List Q) : 0 ≤ coefTol row x := by
  unfold coefTol
  have hL : (0 : Q) ≤ (x.length : Q) := Rat.natCast_nonneg
  have h2 : (0 : Q) ≤ 2 * ((x.length : Q) + 2) := by grind
  exact Rat.mul_nonneg (Rat.mul_nonneg h2 u53_nonneg) (sumAbsProd_nonneg row x)

theorem le_foldl_maxAbs (xs : List Q) (acc : Q) : acc ≤ xs.foldl (fun m v => maxQ m (absQ v)) acc := by
  induction xs generalizing acc with
  | nil => simp only [List.foldl_nil]; grind
  | cons x xs ih =>
    simp only [List.foldl_cons]
    have h1 := ih (maxQ acc (absQ x))
    have h2 : acc ≤ maxQ acc (absQ x) := by unfold maxQ; split <;> grind
    grind

theorem maxAbs_nonneg (xs : List Q) : 0 ≤ maxAbs xs := le_foldl_maxAbs xs 0

/-- For a non-negative reported value `s` the band of `residBand` brackets `s` itself: `0 ≤ lo ≤ s ≤ hi`. -/
theorem residBand_brackets (B : List (List Q)) (x c chat r : List Q) (s : Q) (hs : 0 ≤ s) :
    0 ≤ (residBand B x c chat r s).1 ∧ (residBand B x c chat r s).1 ≤ s ∧ s ≤ (residBand B x c chat r s).2 := by
  unfold residBand
  simp only
  generalize hD : maxAbs (List.map _ B) = D
  generalize hE : maxAbs (List.zipWith _ _ x) = E2
  have hD0 : 0 ≤ D := by rw [← hD]; exact maxAbs_nonneg _
  have hE0 : 0 ≤ E2 := by rw [← hE]; exact maxAbs_nonneg _
  have hA : 0 ≤ D + E2 := Rat.add_nonneg hD0 hE0
  have hL : (0 : Q) ≤ (x.length : Q) := Rat.natCast_nonneg
  have hep : 0 ≤ 2 * ((x.length : Q) + 6) * u53 := Rat.mul_nonneg (by grind) u53_nonneg
  generalize 2 * ((x.length : Q) + 6) * u53 = ep at *
  generalize 2 * ((x.length : Q) + 2) * u53 * (maxAbs r + (D + E2)) = dl
  have hse : 0 ≤ s * ep := Rat.mul_nonneg hs hep
  refine ⟨?_, ?_, ?_⟩
  · split <;> grind
  · have h1 : (if s * (1 - ep) ≤ 0 then (0 : Q) else s * (1 - ep) - dl * dl / (s * (1 - ep)) - (D + E2)) ≤ s := by
      split
      · exact hs
      · rename_i hpos
        have hp : 0 < s * (1 - ep) := by grind
        have hq : 0 ≤ dl * dl / (s * (1 - ep)) := by
          rw [Rat.div_def]
          exact Rat.mul_nonneg (mul_self_nonneg dl) (Rat.le_of_lt (Rat.inv_pos.mpr hp))
        grind
    split <;> grind
  · grind

/-! ### exact values pass -/

theorem within_self (q tol : Q) (h : 0 ≤ tol) : within q q tol = true := by
  unfold within
  rw [absQ_self_sub]
  exact decide_eq_true h

theorem chkVal_exact (sig : String) (q tol : Q) (h : 0 ≤ tol) : chkVal sig (.fin q) q tol = none := by
  unfold chkVal
  simp only [within_self q tol h, if_true]

theorem mul_self_le_mul_self {a b : Q} (h0 : 0 ≤ a) (hab : a ≤ b) : a * a ≤ b * b := by
  have hb : 0 ≤ b := Rat.le_trans h0 hab
  have h1 : a * a ≤ a * b := Rat.mul_le_mul_of_nonneg_left hab h0
  have h2 : a * b ≤ b * b := Rat.mul_le_mul_of_nonneg_right hab hb
  exact Rat.le_trans h1 h2

theorem chkRoot_exact (sig : String) (s v : Q) (band : Q → Q × Q) (hs : 0 ≤ s) (hv : s * s = v)
    (hb : 0 ≤ (band s).1 ∧ (band s).1 ≤ s ∧ s ≤ (band s).2) :
    chkRoot sig (.fin s) v band = none := by
  unfold chkRoot
  simp only
  have h1 := mul_self_le_mul_self hb.1 hb.2.1
  have h2 := mul_self_le_mul_self hs hb.2.2
  rw [if_pos]
  refine ⟨hs, ?_, ?_⟩
  · rw [← hv]; exact h1
  · rw [← hv]; exact h2

theorem coefs_exact (sig : String) (c ec : List Q) (h : ∀ t ∈ ec, 0 ≤ t) :
    firstSome (List.zipWith (fun (cv : FV × Q) tol => chkVal sig cv.1 cv.2 tol)
      ((c.map FV.fin).zip c) ec) = none := by
  induction c generalizing ec with
  | nil => simp [firstSome]
  | cons x xs ih =>
    cases ec with
    | nil => simp [firstSome]
    | cons t ts =>
      simp only [List.map_cons, List.zip_cons_cons, List.zipWith_cons_cons]
      rw [chkVal_exact sig x t (h t List.mem_cons_self)]
      simp only [firstSome]
      exact ih ts fun u hu => h u (List.mem_cons_of_mem _ hu)

end DastardV.C13
