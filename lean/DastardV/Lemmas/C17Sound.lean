/-
C17 — soundness of the vector-clock analysis of `Model/C17Core.lean` (core Lean only):

  `raceFree_sound : raceFree tr = true → ¬ Race tr`

Organisation.  The trace `tr` is fixed and the analysis state after the prefix of length `n` is related
to `tr` by the invariant `Good tr n s`:
* every event has the epoch (thread, number of events of the thread up to and including it);
* a clock value `k ≤ v.get t` (with `k ≥ 1`) of a clock `v` held by the state means that the event of
  thread `t` with epoch number `k` is at, or happens before (`HB tr`), the position the clock belongs to
  (`Reach`, `SrcAt` for a clock stored by one event, `Src` for a join of the clocks of several events);
* `sends`/`nrecv` count the `send`/`recv` events of the prefix (the link to the counting condition of
  `syncEdge`);
* `lw`/`lr` are the last write of a variable and all reads since it;
* all conflicting accesses inside the prefix are ordered by `HB tr` (`AccOrd`).
`Good.step` carries the invariant over one event whose check passed, `Good.run` over the whole trace.
-/
import DastardV.Model.C17Core

namespace DastardV.C17

/-! ### vector clock facts -/

theorem VC.get_nil (t : Tid) : VC.get [] t = 0 := by simp [VC.get]

theorem VC.get_cons_zero (x : Nat) (a : VC) : VC.get (x :: a) 0 = x := by simp [VC.get]

theorem VC.get_cons_succ (x : Nat) (a : VC) (t : Nat) : VC.get (x :: a) (t + 1) = VC.get a t := by
  simp [VC.get]

theorem VC.get_join (a b : VC) (t : Tid) : (VC.join a b).get t = max (a.get t) (b.get t) := by
  induction a generalizing b t with
  | nil => simp [VC.join, VC.get_nil]
  | cons x a ih =>
    cases b with
    | nil => simp [VC.join, VC.get_nil]
    | cons y b =>
      cases t with
      | zero => simp [VC.join, VC.get_cons_zero]
      | succ t => simp only [VC.join, VC.get_cons_succ]; exact ih b t

theorem VC.get_tick_self (a : VC) (t : Tid) : (VC.tick a t).get t = a.get t + 1 := by
  induction t generalizing a with
  | zero => cases a <;> simp [VC.tick, VC.get_cons_zero, VC.get_nil]
  | succ t ih =>
    cases a with
    | nil => simp only [VC.tick, VC.get_cons_succ, VC.get_nil]; simpa [VC.get_nil] using ih []
    | cons x a => simp only [VC.tick, VC.get_cons_succ]; exact ih a

theorem VC.get_tick_ne (a : VC) (t u : Tid) (h : u ≠ t) : (VC.tick a t).get u = a.get u := by
  induction t generalizing a u with
  | zero =>
    cases u with
    | zero => exact absurd rfl h
    | succ u => cases a <;> simp [VC.tick, VC.get_cons_succ, VC.get_nil]
  | succ t ih =>
    cases u with
    | zero => cases a <;> simp [VC.tick, VC.get_cons_zero, VC.get_nil]
    | succ u =>
      have h' : u ≠ t := fun e => h (by rw [e])
      cases a with
      | nil => simp only [VC.tick, VC.get_cons_succ, VC.get_nil]; simpa [VC.get_nil] using ih [] u h'
      | cons x a => simp only [VC.tick, VC.get_cons_succ]; exact ih a u h'

theorem upd_same {α : Type} (f : Nat → α) (k : Nat) (v : α) : upd f k v k = v := by simp [upd]

theorem upd_ne {α : Type} (f : Nat → α) (k i : Nat) (v : α) (h : i ≠ k) : upd f k v i = f i := by
  simp [upd, h]

/-! ### counting events in a prefix -/

def cntP (p : Tid × Ev → Bool) (tr : Trace) (n : Nat) : Nat := ((tr.take n).filter p).length

def isT (t : Tid) (te : Tid × Ev) : Bool := te.1 == t

theorem cntP_zero (p) (tr : Trace) : cntP p tr 0 = 0 := by simp [cntP]

theorem cntP_succ (p) (tr : Trace) (n : Nat) (a) (h : tr[n]? = some a) :
    cntP p tr (n + 1) = cntP p tr n + (if p a then 1 else 0) := by
  unfold cntP
  rw [List.take_add_one, h]
  by_cases hp : p a <;> simp [hp]

theorem cntP_le_succ (p) (tr : Trace) (n : Nat) : cntP p tr n ≤ cntP p tr (n + 1) := by
  cases h : tr[n]? with
  | none =>
    unfold cntP
    rw [List.take_add_one, h]; simp
  | some a => rw [cntP_succ p tr n a h]; omega

theorem cntP_mono (p) (tr : Trace) {a b : Nat} (h : a ≤ b) : cntP p tr a ≤ cntP p tr b := by
  induction b with
  | zero => have : a = 0 := by omega
            subst this; exact Nat.le_refl _
  | succ b ih =>
    by_cases hb : a = b + 1
    · subst hb; exact Nat.le_refl _
    · exact Nat.le_trans (ih (by omega)) (cntP_le_succ p tr b)

/-- epochs of one thread are strictly increasing -/
theorem cntT_lt (tr : Trace) (t : Tid) {i j : Nat} {a b : Ev} (_hi : tr[i]? = some (t, a))
    (hj : tr[j]? = some (t, b)) (hij : i < j) :
    cntP (isT t) tr (i + 1) < cntP (isT t) tr (j + 1) := by
  have h1 : cntP (isT t) tr (i + 1) ≤ cntP (isT t) tr j := cntP_mono _ _ (by omega)
  rw [cntP_succ _ tr j _ hj]
  simp [isT]; omega

theorem cntT_inj (tr : Trace) (t : Tid) {i j : Nat} {a b : Ev} (hi : tr[i]? = some (t, a))
    (hj : tr[j]? = some (t, b)) (h : cntP (isT t) tr (i + 1) = cntP (isT t) tr (j + 1)) : i = j := by
  rcases Nat.lt_trichotomy i j with h1 | h1 | h1
  · have := cntT_lt tr t hi hj h1; omega
  · exact h1
  · have := cntT_lt tr t hj hi h1; omega

/-! ### happens-before facts -/

theorem HB.lt {tr : Trace} {i j : Nat} (h : HB tr i j) : i < j := by
  induction h with
  | edge h _ => exact h
  | trans _ _ ih1 ih2 => omega

theorem HB.po {tr : Trace} {i j : Nat} {t : Tid} {a b : Ev} (hi : tr[i]? = some (t, a))
    (hj : tr[j]? = some (t, b)) (hij : i < j) : HB tr i j :=
  HB.edge hij ⟨_, _, hi, hj, Or.inl rfl⟩

/-- reflexive closure -/
def Le (tr : Trace) (i q : Nat) : Prop := i = q ∨ HB tr i q

theorem Le.hb {tr : Trace} {i q r : Nat} (h : Le tr i q) (h2 : HB tr q r) : HB tr i r := by
  rcases h with h | h
  · subst h; exact h2
  · exact HB.trans h h2

theorem Le.le {tr : Trace} {i q : Nat} (h : Le tr i q) : i ≤ q := by
  rcases h with h | h
  · omega
  · have := h.lt; omega

/-- the event of thread `t` with epoch number `k` is at or happens before position `q` -/
def Reach (tr : Trace) (t : Tid) (k : Nat) (q : Nat) : Prop :=
  ∃ i a, tr[i]? = some (t, a) ∧ cntP (isT t) tr (i + 1) = k ∧ Le tr i q

theorem Reach.hb {tr : Trace} {t k q r} (h : Reach tr t k q) (h2 : HB tr q r) : Reach tr t k r := by
  obtain ⟨i, a, h1, h3, h4⟩ := h
  exact ⟨i, a, h1, h3, Or.inr (h4.hb h2)⟩

theorem Reach.bound {tr : Trace} {t k q} (h : Reach tr t k q) : k ≤ cntP (isT t) tr (q + 1) := by
  obtain ⟨i, a, h1, h3, h4⟩ := h
  rw [← h3]; exact cntP_mono _ _ (by have := h4.le; omega)

/-- everything known to clock `v` is at or before position `q` -/
def SrcAt (tr : Trace) (q : Nat) (v : VC) : Prop :=
  ∀ t k, 1 ≤ k → k ≤ v.get t → Reach tr t k q

/-- everything known to clock `v` is at or before some position `< n` whose event satisfies `P` -/
def Src (tr : Trace) (n : Nat) (P : Tid × Ev → Prop) (v : VC) : Prop :=
  ∀ t k, 1 ≤ k → k ≤ v.get t → ∃ q b, q < n ∧ tr[q]? = some b ∧ P b ∧ Reach tr t k q

theorem SrcAt.bound {tr : Trace} {q v} (h : SrcAt tr q v) (t : Tid) : v.get t ≤ cntP (isT t) tr (q + 1) := by
  by_cases h0 : 1 ≤ v.get t
  · exact (h t _ h0 (Nat.le_refl _)).bound
  · omega

theorem Src.bound {tr : Trace} {n P v} (h : Src tr n P v) (t : Tid) : v.get t ≤ cntP (isT t) tr n := by
  by_cases h0 : 1 ≤ v.get t
  · obtain ⟨q, b, hq, _, _, hr⟩ := h t _ h0 (Nat.le_refl _)
    exact Nat.le_trans hr.bound (cntP_mono _ _ (by omega))
  · omega

theorem Src.mono {tr : Trace} {n P v} (h : Src tr n P v) : Src tr (n + 1) P v := by
  intro t k h1 h2
  obtain ⟨q, b, hq, h3⟩ := h t k h1 h2
  exact ⟨q, b, by omega, h3⟩

theorem Src.nil (tr : Trace) (n P) : Src tr n P [] := by
  intro t k h1 h2; rw [VC.get_nil] at h2; omega

theorem SrcAt.src {tr : Trace} {n v b} {P : Tid × Ev → Prop} (h : SrcAt tr n v) (hb : tr[n]? = some b)
    (hP : P b) : Src tr (n + 1) P v := by
  intro t k h1 h2
  exact ⟨n, b, by omega, hb, hP, h t k h1 h2⟩

theorem Src.join_new {tr : Trace} {n v c b} {P : Tid × Ev → Prop} (h : Src tr n P v) (hc : SrcAt tr n c)
    (hb : tr[n]? = some b) (hP : P b) : Src tr (n + 1) P (VC.join v c) := by
  intro t k h1 h2
  rw [VC.get_join] at h2
  by_cases h3 : k ≤ v.get t
  · exact h.mono t k h1 h3
  · exact hc.src hb hP t k h1 (by omega)


theorem VC.join_nil_right (c : VC) : VC.join c [] = c := by cases c <;> rfl

/-- everything known to clock `X` is at or before a position with a direct edge to `n` -/
def SrcE (tr : Trace) (n : Nat) (X : VC) : Prop :=
  ∀ t k, 1 ≤ k → k ≤ X.get t → ∃ q, q < n ∧ syncEdge tr q n ∧ Reach tr t k q

theorem SrcE.nil (tr : Trace) (n) : SrcE tr n [] := by
  intro t k h1 h2; rw [VC.get_nil] at h2; omega

theorem SrcE.bound {tr : Trace} {n X} (h : SrcE tr n X) (t : Tid) : X.get t ≤ cntP (isT t) tr n := by
  by_cases h0 : 1 ≤ X.get t
  · obtain ⟨q, hq, _, hr⟩ := h t _ h0 (Nat.le_refl _)
    exact Nat.le_trans hr.bound (cntP_mono _ _ (by omega))
  · omega

theorem Src.srcE {tr : Trace} {n P X} (h : Src tr n P X)
    (hP : ∀ q b, q < n → tr[q]? = some b → P b → syncEdge tr q n) : SrcE tr n X := by
  intro t k h1 h2
  obtain ⟨q, b, hq, hb, hPb, hr⟩ := h t k h1 h2
  exact ⟨q, hq, hP q b hq hb hPb, hr⟩

theorem SrcAt.srcE {tr : Trace} {n q X} (h : SrcAt tr q X) (hq : q < n) (he : syncEdge tr q n) :
    SrcE tr n X := by
  intro t k h1 h2
  exact ⟨q, hq, he, h t k h1 h2⟩

theorem SrcAt.join {tr : Trace} {n c X} (hc : SrcAt tr n c) (hX : SrcE tr n X) :
    SrcAt tr n (VC.join c X) := by
  intro t k h1 h2
  rw [VC.get_join] at h2
  by_cases h3 : k ≤ c.get t
  · exact hc t k h1 h3
  · obtain ⟨q, hq, he, hr⟩ := hX t k h1 (by omega)
    exact hr.hb (HB.edge hq he)

/-- the clock of the event at position `n` (own component advanced) knows exactly the past of `n` -/
theorem tick_srcAt {tr : Trace} {n : Nat} {v : VC} {u : Tid} {e : Ev}
    (hown : v.get u = cntP (isT u) tr n) (hclk : Src tr n (fun b => b.1 = u) v)
    (hn : tr[n]? = some (u, e)) : SrcAt tr n (VC.tick v u) := by
  intro t k h1 h2
  have hsucc : cntP (isT u) tr (n + 1) = cntP (isT u) tr n + 1 := by
    rw [cntP_succ _ tr n _ hn]; simp [isT]
  by_cases hk : t = u ∧ k = cntP (isT u) tr n + 1
  · obtain ⟨rfl, rfl⟩ := hk
    exact ⟨n, e, hn, hsucc, Or.inl rfl⟩
  · have h3 : k ≤ v.get t := by
      by_cases htu : t = u
      · subst htu
        rw [VC.get_tick_self] at h2
        have : k ≠ cntP (isT t) tr n + 1 := fun h => hk ⟨rfl, h⟩
        omega
      · rw [VC.get_tick_ne _ _ _ htu] at h2; exact h2
    obtain ⟨q, b, hq, hb, hbu, hr⟩ := hclk t k h1 h3
    obtain ⟨bt, be⟩ := b
    simp only at hbu
    subst hbu
    exact hr.hb (HB.po hb hn hq)

/-- an epoch that passes the check against the clock of the event at `n` happens before `n` -/
theorem check_hb {tr : Trace} {n p : Nat} {c : VC} {t : Tid} {a : Ev} (hc : SrcAt tr n c)
    (hp : tr[p]? = some (t, a)) (hpn : p < n) (hle : cntP (isT t) tr (p + 1) ≤ c.get t) :
    HB tr p n := by
  have h1 : 1 ≤ cntP (isT t) tr (p + 1) := by
    rw [cntP_succ _ tr p _ hp]; simp [isT]
  obtain ⟨i, a', hi, hk, hle'⟩ := hc t _ h1 hle
  have : i = p := cntT_inj tr t hi hp hk
  subst this
  rcases hle' with h | h
  · omega
  · exact h

/-! ### the invariant -/

def LwOk (tr : Trace) (n : Nat) (x : Var) : Option Epoch → Prop
  | none => ∀ p t, p < n → tr[p]? ≠ some (t, .wr x)
  | some e => ∃ p, p < n ∧ tr[p]? = some (e.1, .wr x) ∧ cntP (isT e.1) tr (p + 1) = e.2 ∧
      ∀ p' t', p < p' → p' < n → tr[p']? ≠ some (t', .wr x)

def LrOk (tr : Trace) (n : Nat) (x : Var) (l : List Epoch) : Prop :=
  ∀ p t, p < n → tr[p]? = some (t, .rd x) →
    (∀ p' t', p < p' → p' < n → tr[p']? ≠ some (t', .wr x)) → (t, cntP (isT t) tr (p + 1)) ∈ l

def AccOrd (tr : Trace) (n : Nat) : Prop :=
  ∀ i j a b x, i < j → j < n → tr[i]? = some a → tr[j]? = some b →
    isAccess x a.2 = true → isAccess x b.2 = true → (a.2 = .wr x ∨ b.2 = .wr x) → HB tr i j

structure Good (tr : Trace) (n : Nat) (s : St) : Prop where
  own : ∀ u, (s.clk u).get u = cntP (isT u) tr n
  clk : ∀ u, Src tr n (fun b => b.1 = u) (s.clk u)
  cl : ∀ c, Src tr n (fun b => b.2 = .close c) (s.cl c)
  mu : ∀ m, Src tr n (fun b => b.2 = .unlock m) (s.mu m)
  wg : ∀ w, Src tr n (fun b => b.2 = .wgDone w) (s.wg w)
  sp : ∀ u, Src tr n (fun b => b.2 = .spawn u) (s.sp u)
  nrecv : ∀ c, s.nrecv c = cntP (isRecv c) tr n
  slen : ∀ c, (s.sends c).length = cntP (isSend c) tr n
  sends : ∀ c k m, (s.sends c)[k]? = some m →
    ∃ q t, q < n ∧ tr[q]? = some (t, .send c) ∧ cntP (isSend c) tr q = k ∧ SrcAt tr q m
  lw : ∀ x, LwOk tr n x (s.lw x)
  lr : ∀ x, LrOk tr n x (s.lr x)
  acc : AccOrd tr n

theorem Good.init (tr : Trace) : Good tr 0 St.init where
  own u := by simp [St.init, VC.get_nil, cntP_zero]
  clk u := Src.nil _ _ _
  cl c := Src.nil _ _ _
  mu c := Src.nil _ _ _
  wg c := Src.nil _ _ _
  sp c := Src.nil _ _ _
  nrecv c := by simp [St.init, cntP_zero]
  slen c := by simp [St.init, cntP_zero]
  sends c k m h := by simp [St.init] at h
  lw x := by intro p t hp; omega
  lr x := by intro p t hp; omega
  acc := by intro i j a b x _ hj; omega


/-! ### one step of the analysis -/

theorem step_clk_form {tr : Trace} {n : Nat} {s : St} {u : Tid} {e : Ev} (g : Good tr n s)
    (hn : tr[n]? = some (u, e)) :
    ∃ X, (stepVC s (u, e)).1.clk = upd s.clk u (VC.join (VC.tick (s.clk u) u) X) ∧ SrcE tr n X := by
  cases e with
  | recv ch =>
    cases hm : (s.sends ch)[s.nrecv ch]? with
    | none =>
      refine ⟨[], ?_, SrcE.nil _ _⟩
      simp only [stepVC, hm, VC.join_nil_right]
    | some m =>
      refine ⟨m, ?_, ?_⟩
      · simp only [stepVC, hm]
      · obtain ⟨q, t, hq, hqe, hk, hsrc⟩ := g.sends ch _ m hm
        refine hsrc.srcE hq ⟨_, _, hqe, hn, Or.inr (Or.inl ⟨ch, rfl, rfl, ?_⟩)⟩
        rw [g.nrecv ch] at hk; exact hk
  | recvC ch =>
    refine ⟨s.cl ch, by simp only [stepVC], (g.cl ch).srcE ?_⟩
    intro q b _ hb hP
    exact ⟨_, _, hb, hn, Or.inr (Or.inr (Or.inl ⟨ch, hP, rfl⟩))⟩
  | lock m =>
    refine ⟨s.mu m, by simp only [stepVC], (g.mu m).srcE ?_⟩
    intro q b _ hb hP
    exact ⟨_, _, hb, hn, Or.inr (Or.inr (Or.inr (Or.inl ⟨m, hP, rfl⟩)))⟩
  | wgWait w =>
    refine ⟨s.wg w, by simp only [stepVC], (g.wg w).srcE ?_⟩
    intro q b _ hb hP
    exact ⟨_, _, hb, hn, Or.inr (Or.inr (Or.inr (Or.inr (Or.inl ⟨w, hP, rfl⟩))))⟩
  | start =>
    refine ⟨s.sp u, by simp only [stepVC], (g.sp u).srcE ?_⟩
    intro q b _ hb hP
    exact ⟨_, _, hb, hn, Or.inr (Or.inr (Or.inr (Or.inr (Or.inr ⟨hP, rfl⟩))))⟩
  | rd x => exact ⟨[], by simp only [stepVC, VC.join_nil_right], SrcE.nil _ _⟩
  | wr x => exact ⟨[], by simp only [stepVC, VC.join_nil_right], SrcE.nil _ _⟩
  | send c => exact ⟨[], by simp only [stepVC, VC.join_nil_right], SrcE.nil _ _⟩
  | close c => exact ⟨[], by simp only [stepVC, VC.join_nil_right], SrcE.nil _ _⟩
  | unlock c => exact ⟨[], by simp only [stepVC, VC.join_nil_right], SrcE.nil _ _⟩
  | wgAdd c => exact ⟨[], by simp only [stepVC, VC.join_nil_right], SrcE.nil _ _⟩
  | wgDone c => exact ⟨[], by simp only [stepVC, VC.join_nil_right], SrcE.nil _ _⟩
  | spawn c => exact ⟨[], by simp only [stepVC, VC.join_nil_right], SrcE.nil _ _⟩

theorem cntT_step_self {tr : Trace} {n : Nat} {u : Tid} {e : Ev} (hn : tr[n]? = some (u, e)) :
    cntP (isT u) tr (n + 1) = cntP (isT u) tr n + 1 := by
  rw [cntP_succ _ tr n _ hn]; simp [isT]

theorem cntT_step_ne {tr : Trace} {n : Nat} {u u' : Tid} {e : Ev} (hn : tr[n]? = some (u, e))
    (h : u' ≠ u) : cntP (isT u') tr (n + 1) = cntP (isT u') tr n := by
  rw [cntP_succ _ tr n _ hn]
  have : (u == u') = false := by simp; exact fun e => h e.symm
  simp [isT, this]

theorem step_own {tr : Trace} {n : Nat} {s : St} {u : Tid} {e : Ev} (g : Good tr n s)
    (hn : tr[n]? = some (u, e)) (u' : Tid) :
    ((stepVC s (u, e)).1.clk u').get u' = cntP (isT u') tr (n + 1) := by
  obtain ⟨X, hX, hE⟩ := step_clk_form g hn
  rw [hX]
  by_cases h : u' = u
  · subst h
    rw [upd_same, VC.get_join, VC.get_tick_self, g.own, cntT_step_self hn]
    have := hE.bound u'
    omega
  · rw [upd_ne _ _ _ _ h, cntT_step_ne hn h, g.own]

theorem step_clk {tr : Trace} {n : Nat} {s : St} {u : Tid} {e : Ev} (g : Good tr n s)
    (hn : tr[n]? = some (u, e)) (u' : Tid) :
    Src tr (n + 1) (fun b => b.1 = u') ((stepVC s (u, e)).1.clk u') := by
  obtain ⟨X, hX, hE⟩ := step_clk_form g hn
  rw [hX]
  by_cases h : u' = u
  · subst h
    rw [upd_same]
    exact ((tick_srcAt (g.own u') (g.clk u') hn).join hE).src hn rfl
  · rw [upd_ne _ _ _ _ h]
    exact (g.clk u').mono

/-- the clock `c` used by `stepVC` for the checks and for the stored clocks -/
theorem step_c {tr : Trace} {n : Nat} {s : St} {u : Tid} {e : Ev} (g : Good tr n s)
    (hn : tr[n]? = some (u, e)) : SrcAt tr n (VC.tick (s.clk u) u) :=
  tick_srcAt (g.own u) (g.clk u) hn


theorem step_cl {tr : Trace} {n : Nat} {s : St} {u : Tid} {e : Ev} (g : Good tr n s)
    (hn : tr[n]? = some (u, e)) (ch : Obj) :
    Src tr (n + 1) (fun b => b.2 = .close ch) ((stepVC s (u, e)).1.cl ch) := by
  cases e with
  | close c' =>
    simp only [stepVC]
    by_cases h : ch = c'
    · subst h; rw [upd_same]; exact (g.cl ch).join_new (step_c g hn) hn rfl
    · rw [upd_ne _ _ _ _ h]; exact (g.cl ch).mono
  | _ => exact (g.cl ch).mono

theorem step_mu {tr : Trace} {n : Nat} {s : St} {u : Tid} {e : Ev} (g : Good tr n s)
    (hn : tr[n]? = some (u, e)) (ch : Obj) :
    Src tr (n + 1) (fun b => b.2 = .unlock ch) ((stepVC s (u, e)).1.mu ch) := by
  cases e with
  | unlock c' =>
    simp only [stepVC]
    by_cases h : ch = c'
    · subst h; rw [upd_same]; exact (g.mu ch).join_new (step_c g hn) hn rfl
    · rw [upd_ne _ _ _ _ h]; exact (g.mu ch).mono
  | _ => exact (g.mu ch).mono

theorem step_wg {tr : Trace} {n : Nat} {s : St} {u : Tid} {e : Ev} (g : Good tr n s)
    (hn : tr[n]? = some (u, e)) (ch : Obj) :
    Src tr (n + 1) (fun b => b.2 = .wgDone ch) ((stepVC s (u, e)).1.wg ch) := by
  cases e with
  | wgDone c' =>
    simp only [stepVC]
    by_cases h : ch = c'
    · subst h; rw [upd_same]; exact (g.wg ch).join_new (step_c g hn) hn rfl
    · rw [upd_ne _ _ _ _ h]; exact (g.wg ch).mono
  | _ => exact (g.wg ch).mono

theorem step_sp {tr : Trace} {n : Nat} {s : St} {u : Tid} {e : Ev} (g : Good tr n s)
    (hn : tr[n]? = some (u, e)) (ch : Tid) :
    Src tr (n + 1) (fun b => b.2 = .spawn ch) ((stepVC s (u, e)).1.sp ch) := by
  cases e with
  | spawn c' =>
    simp only [stepVC]
    by_cases h : ch = c'
    · subst h; rw [upd_same]; exact (g.sp ch).join_new (step_c g hn) hn rfl
    · rw [upd_ne _ _ _ _ h]; exact (g.sp ch).mono
  | _ => exact (g.sp ch).mono

theorem step_nrecv {tr : Trace} {n : Nat} {s : St} {u : Tid} {e : Ev} (g : Good tr n s)
    (hn : tr[n]? = some (u, e)) (ch : Obj) :
    (stepVC s (u, e)).1.nrecv ch = cntP (isRecv ch) tr (n + 1) := by
  rw [cntP_succ _ tr n _ hn]
  cases e with
  | recv c' =>
    simp only [stepVC, isRecv]
    by_cases h : ch = c'
    · subst h; rw [upd_same, g.nrecv]; simp
    · rw [upd_ne _ _ _ _ h, g.nrecv]
      have : (Ev.recv c' == Ev.recv ch) = false := by simp; exact fun e => h e.symm
      simp [this]
  | _ => simp only [stepVC, isRecv]; rw [g.nrecv]; simp

theorem step_slen {tr : Trace} {n : Nat} {s : St} {u : Tid} {e : Ev} (g : Good tr n s)
    (hn : tr[n]? = some (u, e)) (ch : Obj) :
    ((stepVC s (u, e)).1.sends ch).length = cntP (isSend ch) tr (n + 1) := by
  rw [cntP_succ _ tr n _ hn]
  cases e with
  | send c' =>
    simp only [stepVC, isSend]
    by_cases h : ch = c'
    · subst h; rw [upd_same, List.length_append, g.slen]; simp
    · rw [upd_ne _ _ _ _ h, g.slen]
      have : (Ev.send c' == Ev.send ch) = false := by simp; exact fun e => h e.symm
      simp [this]
  | _ => simp only [stepVC, isSend]; rw [g.slen]; simp

theorem step_sends {tr : Trace} {n : Nat} {s : St} {u : Tid} {e : Ev} (g : Good tr n s)
    (hn : tr[n]? = some (u, e)) (ch : Obj) (k : Nat) (m : VC)
    (hm : ((stepVC s (u, e)).1.sends ch)[k]? = some m) :
    ∃ q t, q < n + 1 ∧ tr[q]? = some (t, .send ch) ∧ cntP (isSend ch) tr q = k ∧ SrcAt tr q m := by
  have old : (s.sends ch)[k]? = some m →
      ∃ q t, q < n + 1 ∧ tr[q]? = some (t, .send ch) ∧ cntP (isSend ch) tr q = k ∧ SrcAt tr q m := by
    intro h
    obtain ⟨q, t, hq, h2⟩ := g.sends ch k m h
    exact ⟨q, t, by omega, h2⟩
  cases e with
  | send c' =>
    simp only [stepVC] at hm
    by_cases h : ch = c'
    · subst h
      rw [upd_same] at hm
      by_cases hk : k < (s.sends ch).length
      · rw [List.getElem?_append_left hk] at hm; exact old hm
      · rw [List.getElem?_append_right (by omega)] at hm
        have hk0 : k - (s.sends ch).length = 0 := by
          cases hk' : k - (s.sends ch).length with
          | zero => rfl
          | succ j => rw [hk'] at hm; simp at hm
        rw [hk0] at hm
        simp at hm
        subst hm
        refine ⟨n, u, by omega, hn, ?_, step_c g hn⟩
        rw [← g.slen]; omega
    · rw [upd_ne _ _ _ _ h] at hm; exact old hm
  | _ => exact old hm


theorem LwOk.ext {tr : Trace} {n : Nat} {x : Var} {o : Option Epoch} (h : LwOk tr n x o)
    (hn : ∀ t, tr[n]? ≠ some (t, .wr x)) : LwOk tr (n + 1) x o := by
  cases o with
  | none =>
    intro p t hp
    by_cases hpn : p = n
    · subst hpn; exact hn t
    · exact h p t (by omega)
  | some e =>
    obtain ⟨p, hp, h1, h2, h3⟩ := h
    refine ⟨p, by omega, h1, h2, ?_⟩
    intro p' t' hpp' hp'
    by_cases hpn : p' = n
    · subst hpn; exact hn t'
    · exact h3 p' t' hpp' (by omega)

theorem step_lw {tr : Trace} {n : Nat} {s : St} {u : Tid} {e : Ev} (g : Good tr n s)
    (hn : tr[n]? = some (u, e)) (x : Var) : LwOk tr (n + 1) x ((stepVC s (u, e)).1.lw x) := by
  cases e with
  | wr y =>
    simp only [stepVC]
    by_cases h : x = y
    · subst h
      rw [upd_same]
      refine ⟨n, by omega, hn, ?_, ?_⟩
      · simp only
        rw [VC.get_tick_self, g.own, cntT_step_self hn]
      · intro p' t' h1 h2; omega
    · rw [upd_ne _ _ _ _ h]
      refine (g.lw x).ext ?_
      intro t; rw [hn]; simp; intro _; exact fun e => h e.symm
  | _ => exact (g.lw x).ext (by intro t; rw [hn]; simp)

theorem LrOk.ext {tr : Trace} {n : Nat} {x : Var} {l l' : List Epoch} (h : LrOk tr n x l)
    (hn : ∀ t, tr[n]? ≠ some (t, .rd x)) (hl : ∀ a, a ∈ l → a ∈ l') : LrOk tr (n + 1) x l' := by
  intro p t hp hpr hnw
  by_cases hpn : p = n
  · subst hpn; exact absurd hpr (hn t)
  · exact hl _ (h p t (by omega) hpr (fun p' t' h1 h2 => hnw p' t' h1 (by omega)))

theorem step_lr {tr : Trace} {n : Nat} {s : St} {u : Tid} {e : Ev} (g : Good tr n s)
    (hn : tr[n]? = some (u, e)) (x : Var) : LrOk tr (n + 1) x ((stepVC s (u, e)).1.lr x) := by
  cases e with
  | rd y =>
    simp only [stepVC]
    by_cases h : x = y
    · subst h
      rw [upd_same]
      intro p t hp hpr hnw
      by_cases hpn : p = n
      · subst hpn
        rw [hn] at hpr
        simp at hpr
        subst hpr
        rw [VC.get_tick_self, g.own, cntT_step_self hn]
        exact List.mem_cons_self
      · exact List.mem_cons_of_mem _
          (g.lr x p t (by omega) hpr (fun p' t' h1 h2 => hnw p' t' h1 (by omega)))
    · rw [upd_ne _ _ _ _ h]
      refine (g.lr x).ext ?_ (fun _ h => h)
      intro t; rw [hn]; simp; intro _; exact fun e => h e.symm
  | wr y =>
    simp only [stepVC]
    by_cases h : x = y
    · subst h
      rw [upd_same]
      intro p t hp hpr hnw
      by_cases hpn : p = n
      · subst hpn; rw [hn] at hpr; simp at hpr
      · exact absurd hn (hnw n u (by omega) (by omega))
    · rw [upd_ne _ _ _ _ h]
      exact (g.lr x).ext (by intro t; rw [hn]; simp) (fun _ h => h)
  | _ => exact (g.lr x).ext (by intro t; rw [hn]; simp) (fun _ h => h)

/-! ### the checks -/

theorem write_before {tr : Trace} {n : Nat} {x : Var} {o : Option Epoch} {c : VC}
    (hlw : LwOk tr n x o) (hacc : AccOrd tr n) (hc : SrcAt tr n c) (hchk : optLe o c = true)
    {i : Nat} {t : Tid} (hi : i < n) (hw : tr[i]? = some (t, .wr x)) : HB tr i n := by
  cases o with
  | none => exact absurd hw (hlw i t hi)
  | some e =>
    obtain ⟨p, hp, h1, h2, h3⟩ := hlw
    have hle : cntP (isT e.1) tr (p + 1) ≤ c.get e.1 := by
      simp only [optLe, Epoch.le, decide_eq_true_eq] at hchk
      omega
    have hpn : HB tr p n := check_hb hc h1 hp hle
    by_cases hip : i = p
    · subst hip; exact hpn
    · have : i < p := by
        rcases Nat.lt_or_ge p i with h | h
        · exact absurd hw (h3 i t h hi)
        · omega
      exact HB.trans (hacc i p _ _ x this hp hw h1 (by simp [isAccess]) (by simp [isAccess])
        (Or.inl rfl)) hpn

theorem read_before {tr : Trace} {n : Nat} {x : Var} {o : Option Epoch} {l : List Epoch} {c : VC}
    (hlw : LwOk tr n x o) (hlr : LrOk tr n x l) (hacc : AccOrd tr n) (hc : SrcAt tr n c)
    (hchk : optLe o c = true) (hall : l.all (fun r => r.le c) = true)
    {i : Nat} {t : Tid} (hi : i < n) (hr : tr[i]? = some (t, .rd x)) : HB tr i n := by
  by_cases hex : ∃ p' t', i < p' ∧ p' < n ∧ tr[p']? = some (t', .wr x)
  · obtain ⟨p', t', h1, h2, h3⟩ := hex
    exact HB.trans (hacc i p' _ _ x h1 h2 hr h3 (by simp [isAccess]) (by simp [isAccess])
      (Or.inr rfl)) (write_before hlw hacc hc hchk h2 h3)
  · have hmem := hlr i t hi hr (fun p' t' h1 h2 h3 => hex ⟨p', t', h1, h2, h3⟩)
    have := List.all_eq_true.mp hall _ hmem
    simp only [Epoch.le, decide_eq_true_eq] at this
    exact check_hb hc hr hi this

theorem isAccess_cases {x : Var} {e : Ev} (h : isAccess x e = true) : e = .rd x ∨ e = .wr x := by
  simpa [isAccess] using h

theorem step_acc {tr : Trace} {n : Nat} {s : St} {u : Tid} {e : Ev} (g : Good tr n s)
    (hn : tr[n]? = some (u, e)) (hchk : (stepVC s (u, e)).2 = true) : AccOrd tr (n + 1) := by
  intro i j a b x hij hj hi' hj' ha hb hw
  by_cases hjn : j < n
  · exact g.acc i j a b x hij hjn hi' hj' ha hb hw
  · have : j = n := by omega
    subst this
    rw [hn] at hj'
    simp at hj'
    subst hj'
    obtain ⟨ta, ea⟩ := a
    simp only at ha hb hw
    have hc := step_c g hn
    rcases isAccess_cases hb with he | he
    · -- a read: the earlier access is a write
      subst he
      have hea : ea = .wr x := by
        rcases hw with h | h
        · exact h
        · cases h
      subst hea
      simp only [stepVC] at hchk
      exact write_before (g.lw x) g.acc hc hchk hij hi'
    · subst he
      simp only [stepVC, Bool.and_eq_true] at hchk
      rcases isAccess_cases ha with hea | hea
      · subst hea
        exact read_before (g.lw x) (g.lr x) g.acc hc hchk.1 hchk.2 hij hi'
      · subst hea
        exact write_before (g.lw x) g.acc hc hchk.1 hij hi'

theorem Good.step {tr : Trace} {n : Nat} {s : St} {te : Tid × Ev} (g : Good tr n s)
    (hn : tr[n]? = some te) (hchk : (stepVC s te).2 = true) : Good tr (n + 1) (stepVC s te).1 := by
  obtain ⟨u, e⟩ := te
  exact
    { own := step_own g hn, clk := step_clk g hn, cl := step_cl g hn, mu := step_mu g hn,
      wg := step_wg g hn, sp := step_sp g hn, nrecv := step_nrecv g hn, slen := step_slen g hn,
      sends := step_sends g hn, lw := step_lw g hn, lr := step_lr g hn, acc := step_acc g hn hchk }

theorem Good.run {tr : Trace} (suf : Trace) : ∀ (n : Nat) (s : St), tr.drop n = suf → Good tr n s →
    raceFreeFrom s suf = true → AccOrd tr tr.length := by
  induction suf with
  | nil =>
    intro n s hd g _
    have hlen : tr.length ≤ n := by simpa using hd
    intro i j a b x hij hj hi' hj' ha hb hw
    exact g.acc i j a b x hij (by omega) hi' hj' ha hb hw
  | cons te r ih =>
    intro n s hd g hrf
    simp only [raceFreeFrom, Bool.and_eq_true] at hrf
    have hnlt : n < tr.length := by
      rcases Nat.lt_or_ge n tr.length with h | h
      · exact h
      · rw [List.drop_eq_nil_of_le h] at hd; cases hd
    have hn : tr[n]? = some te := by
      rw [List.getElem?_eq_getElem hnlt]
      rw [List.drop_eq_getElem_cons hnlt] at hd
      injection hd with h1 h2
      rw [h1]
    have hd' : tr.drop (n + 1) = r := by
      rw [List.drop_eq_getElem_cons hnlt] at hd
      injection hd
    exact ih (n + 1) _ hd' (g.step hn hrf.1) hrf.2

theorem raceFree_sound (tr : Trace) : raceFree tr = true → ¬ Race tr := by
  intro h hr
  have hacc : AccOrd tr tr.length := Good.run tr 0 St.init (by simp) (Good.init tr) h
  obtain ⟨i, j, a, b, x, hij, hi, hj, _, ha, hb, hw, hnot⟩ := hr
  have hjl : j < tr.length := by
    rcases Nat.lt_or_ge j tr.length with h | h
    · exact h
    · rw [List.getElem?_eq_none h] at hj; cases hj
  exact hnot (hacc i j a b x hij hjl hi hj ha hb hw)


/-! ### non-vacuity -/

/-- two threads write the same variable without synchronisation: rejected -/
example : raceFree [(0, .wr 7), (1, .wr 7)] = false := by decide

/-- the same two writes with a message in between: accepted -/
example : raceFree [(0, .wr 7), (0, .send 3), (1, .recv 3), (1, .wr 7)] = true := by decide

/-- a message on another channel does not order them -/
example : raceFree [(0, .wr 7), (0, .send 3), (1, .send 4), (1, .recv 4), (1, .wr 7)] = false := by
  decide

/-- unlock → lock orders a write and a later read -/
example : raceFree [(0, .lock 1), (0, .wr 7), (0, .unlock 1), (1, .lock 1), (1, .rd 7), (1, .unlock 1)]
    = true := by decide

end DastardV.C17
