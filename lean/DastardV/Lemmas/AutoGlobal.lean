/-
C02, auto trigger without veto, across blocks.  Invariant `AutoInv`: from the first trigger of the
epoch on, every window of `delay + nsamp` consecutive frames that ends at or before the newest trigger
contains a trigger; the hold-off reference `lastTrig` is the newest trigger; the next block's auto scan
starts `delay` after it, and that start is inside the retained buffer (`low`) and the previous scan
ended no earlier than `delay` after it (`tail`).
-/
import DastardV.Lemmas.LevelGlobal
import DastardV.Lemmas.AutoDense
namespace DastardV.Trig

/-! ### the auto loop, density from the first trigger on (no start-of-epoch parameters) -/

structure AutoK (delay nsamp : Int) (S : List Int) (npt : Int) : Prop where
  dense : ∀ x, x < npt → (∃ T ∈ S, T ≤ x) → DenseR (delay + nsamp) S x
  anchor : (∃ T0 ∈ S, npt - delay ≤ T0 ∧ T0 < npt) ∨ (∀ T ∈ S, npt ≤ T)

theorem AutoK.emit {delay nsamp : Int} {S : List Int} {npt : Int} (hd : 0 < delay) (hns : 0 ≤ nsamp)
    (hj : AutoK delay nsamp S npt) : AutoK delay nsamp (S ++ [npt]) (npt + delay) := by
  refine ⟨?_, Or.inl ⟨npt, by simp, by omega, by omega⟩⟩
  intro x hx hex
  by_cases hxn : x < npt
  · obtain ⟨T, hT, hTx⟩ := hex
    have hT' : T ∈ S := by
      rcases List.mem_append.mp hT with h | h
      · exact h
      · simp at h; omega
    exact (hj.dense x hxn ⟨T, hT', hTx⟩).mono (fun t ht => List.mem_append_left _ ht)
  · exact ⟨npt, by simp, by omega, by omega⟩

theorem AutoK.conflict {delay nsamp : Int} {S : List Int} {npt nf : Int} (hd : 0 < delay) (hns : 0 ≤ nsamp)
    (hnf : nf ∈ S) (hfit : ¬ npt + nsamp ≤ nf) (hj : AutoK delay nsamp S npt) :
    AutoK delay nsamp S (nf + delay) := by
  refine ⟨?_, Or.inl ⟨nf, hnf, by omega, by omega⟩⟩
  intro x hx hex
  by_cases hxn : x < npt
  · exact hj.dense x hxn hex
  · by_cases hxf : nf ≤ x
    · exact ⟨nf, hnf, by omega, hxf⟩
    · rcases hj.anchor with ⟨T0, hT0, ha, hb⟩ | hall
      · exact ⟨T0, hT0, by omega, by omega⟩
      · obtain ⟨T, hT, hTx⟩ := hex
        have := hall T hT
        exact ⟨T, hT, by omega, hTx⟩

/-- the no-veto auto loop preserves `AutoK` and ends at or beyond the scan bound -/
theorem autoLoop_denseK (c : Chan) (delay : Int) (hd : 0 < delay) (hv : c.ts.autoVeto = 0) (hns : 0 ≤ c.nsamp)
    (P : List Int) :
    ∀ (found : List Int) (n : Nat) (npt : Int) (acc : List Int) (F : List Int),
      ((c.buf.length : Int) + c.npre - c.nsamp - npt).toNat ≤ n →
      (∀ t ∈ found, t ∈ F) →
      AutoK delay c.nsamp (P ++ F ++ acc) npt →
      ∃ res nptf, autoLoop c c.buf.length delay hd npt found acc = some (acc ++ res) ∧
        (c.buf.length : Int) ≤ nptf + c.nsamp - c.npre ∧
        AutoK delay c.nsamp (P ++ F ++ (acc ++ res)) nptf := by
  intro found
  induction found with
  | nil =>
    intro n
    induction n with
    | zero =>
      intro npt acc F hn _ hj
      refine ⟨[], npt, ?_, by omega, by simpa using hj⟩
      rw [autoLoop]
      have : ¬ npt + c.nsamp - c.npre < (c.buf.length : Int) := by omega
      simp [this]
    | succ n ih =>
      intro npt acc F hn hF hj
      by_cases hlt : npt + c.nsamp - c.npre < (c.buf.length : Int)
      · have hj' : AutoK delay c.nsamp (P ++ F ++ (acc ++ [npt])) (npt + delay) := by
          have := hj.emit hd hns
          simpa [List.append_assoc] using this
        obtain ⟨res, nptf, hres, hend, hjf⟩ := ih (npt + delay) (acc ++ [npt]) F (by omega) hF hj'
        refine ⟨npt :: res, nptf, ?_, hend, by simpa using hjf⟩
        rw [autoLoop]
        have hv' : ¬ c.ts.autoVeto > 0 := by omega
        simp only [hlt, if_true, hv', if_false, hres, List.append_assoc, List.singleton_append]
      · refine ⟨[], npt, ?_, by omega, by simpa using hj⟩
        rw [autoLoop]; simp [hlt]
  | cons nf rest ihf =>
    intro n
    induction n with
    | zero =>
      intro npt acc F hn _ hj
      refine ⟨[], npt, ?_, by omega, by simpa using hj⟩
      rw [autoLoop]
      have : ¬ npt + c.nsamp - c.npre < (c.buf.length : Int) := by omega
      simp [this]
    | succ n ih =>
      intro npt acc F hn hF hj
      by_cases hlt : npt + c.nsamp - c.npre < (c.buf.length : Int)
      · by_cases hfit : npt + c.nsamp ≤ nf
        · have hj' : AutoK delay c.nsamp (P ++ F ++ (acc ++ [npt])) (npt + delay) := by
            have := hj.emit hd hns
            simpa [List.append_assoc] using this
          obtain ⟨res, nptf, hres, hend, hjf⟩ := ih (npt + delay) (acc ++ [npt]) F (by omega) hF hj'
          refine ⟨npt :: res, nptf, ?_, hend, by simpa using hjf⟩
          rw [autoLoop]
          have hv' : ¬ c.ts.autoVeto > 0 := by omega
          simp only [hlt, if_true, hfit, hv', if_false, hres, List.append_assoc, List.singleton_append]
        · have hnfF : nf ∈ F := hF nf (by simp)
          have hj' : AutoK delay c.nsamp (P ++ F ++ acc) (nf + delay) :=
            hj.conflict hd hns (by simp [hnfF]) hfit
          obtain ⟨res, nptf, hres, hend, hjf⟩ := ihf _ (nf + delay) acc F (Nat.le_refl _)
            (fun t ht => hF t (List.mem_cons_of_mem _ ht)) hj'
          refine ⟨res, nptf, ?_, hend, hjf⟩
          rw [autoLoop]
          simp only [hlt, if_true, hfit, if_false, hres]
      · refine ⟨[], npt, ?_, by omega, by simpa using hj⟩
        rw [autoLoop]; simp [hlt]

/-! ### one block, opened up once for all -/

/-- the effective auto delay: the configured delay, or one record if that is longer -/
def autoD (ts : TS) (nsamp : Int) : Int := if ts.autoDelay < nsamp then nsamp else ts.autoDelay

theorem fpta_eq (c : Chan) : fpta c =
    (if c.lastTrig - c.first + autoD c.ts c.nsamp < c.npre then c.npre else c.lastTrig - c.first + autoD c.ts c.nsamp) := by
  unfold fpta autoD
  simp only
  have : (if c.ts.autoDelay > c.nsamp then c.ts.autoDelay else c.nsamp) =
      (if c.ts.autoDelay < c.nsamp then c.nsamp else c.ts.autoDelay) := by
    split <;> split <;> omega
  rw [this]

/-- the auto pass when enabled: the found triggers plus the new auto triggers -/
theorem autoPass_on {c : Chan} (ha : c.ts.auto = true) (hns : 1 ≤ c.nsamp) {found all : List Int}
    (h : autoPass c found = some all) :
    ∃ (hd : 0 < autoD c.ts c.nsamp) (new : List Int),
      autoLoop c c.buf.length (autoD c.ts c.nsamp) hd (fpta c) found [] = some new ∧ all = sortAsc (found ++ new) := by
  have hd : 0 < autoD c.ts c.nsamp := by unfold autoD; split <;> omega
  unfold autoPass at h
  simp only [ha, Bool.not_true, Bool.false_eq_true, if_false] at h
  have hdn : ¬ (if c.ts.autoDelay < c.nsamp then c.nsamp else c.ts.autoDelay) ≤ 0 := by
    unfold autoD at hd; omega
  simp only [hdn, dite_false] at h
  split at h
  · rename_i new hnew
    simp only [Option.some.injEq] at h
    exact ⟨hd, new, hnew, h.symm⟩
  · simp at h

/-- triggers of the level pass start at the first potential trigger index -/
theorem levelPass_lower {c : Chan} (hv : ValidLen c) {found res : List Int} (hf : FoundOK c (fpt c) found)
    (h : levelPass c found = some res) : ∀ x ∈ res, fpt c ≤ x := by
  by_cases hl : c.ts.level = true
  · obtain ⟨new, hnew, hls⟩ := levelPass_spec hv hl hf
    have : res = sortAsc (found ++ new) := some_inj' (h.symm.trans hnew)
    subst this
    intro x hx
    rcases List.mem_append.mp (mem_sortAsc.mp hx) with hx | hx
    · exact hf.1 x hx
    · exact (hls.range x hx).1
  · have hl' : c.ts.level = false := by simpa using hl
    have : res = found := some_inj' (h.symm.trans (levelPass_off hl' found))
    subst this
    exact hf.1

/-- one block of one channel outside edge-multi, opened up: the channel after `append`, the three
index lists, the emitted frames, the new hold-off reference and where the trimmed buffer starts -/
theorem stepChan_anat {ts : TS} {npre nsamp : Int} {sg : Bool} {G : List Nat} {f0 : Int} {c : Chan}
    {k : Nat} {zt : ZT} {seg : List Nat} {t0 per : Int} {c1 : Chan} {tr : List Int}
    (hv : 3 ≤ npre ∧ npre < nsamp) (hem : ts.edgeMulti = false)
    (hk : k ≤ G.length) (hbuf : c.buf = G.drop k) (hcfg : Cfg c ts npre nsamp sg)
    (h : stepChan zt c seg (f0 + G.length) t0 per sg = some (c1, tr)) :
    ∃ (ca : Chan) (e el all : List Int) (k' : Nat),
      ca.buf = (G ++ seg).drop k ∧ ca.first = f0 + k ∧ ca.ts = ts ∧ ca.npre = npre ∧ ca.nsamp = nsamp ∧
      ca.signed = sg ∧ ca.lastTrig = c.lastTrig ∧
      hiOf ca = (G.length : Int) + seg.length + npre - nsamp - k ∧
      edgePass ca = some e ∧ levelPass ca e = some el ∧ autoPass ca el = some all ∧
      FoundOK ca (fpt ca) e ∧
      (∀ x ∈ el, fpt ca ≤ x ∧ x < hiOf ca) ∧ (∀ x ∈ all, npre ≤ x ∧ x < hiOf ca) ∧
      tr = all.map (ca.first + ·) ∧
      c1.lastTrig = (match all.getLast? with | some i => ca.first + i | none => c.lastTrig) ∧
      Cfg c1 ts npre nsamp sg ∧ k' ≤ (G ++ seg).length ∧ c1.buf = (G ++ seg).drop k' ∧
      (k' = k ∨ (k' : Int) + nsamp ≤ (G.length : Int) + seg.length) := by
  obtain ⟨hts, hnpre, hnsamp, hsync, _⟩ := hcfg
  unfold stepChan at h
  split at h
  · simp at h
  rename_i c2 recs htd
  simp only [Option.some.injEq, Prod.mk.injEq] at h
  obtain ⟨hc1, htr⟩ := h
  generalize hca : append c seg (f0 + ↑G.length) t0 per sg = ca at htd
  have ca_buf : ca.buf = (G ++ seg).drop k := by
    rw [← hca]; simp [append, hbuf, List.drop_append_of_le_length hk]
  have ca_first : ca.first = f0 + k := by
    rw [← hca]; simp only [append, hbuf, List.length_drop]; omega
  have ca_ts : ca.ts = ts := by rw [← hca]; exact hts
  have ca_npre : ca.npre = npre := by rw [← hca]; exact hnpre
  have ca_nsamp : ca.nsamp = nsamp := by rw [← hca]; exact hnsamp
  have ca_sync : ca.emt.nsamp = nsamp := by rw [← hca]; exact hsync
  have ca_sg : ca.signed = sg := by rw [← hca]; rfl
  have ca_last : ca.lastTrig = c.lastTrig := by rw [← hca]; rfl
  have ca_len : (ca.buf.length : Int) = (G.length : Int) + seg.length - k := by
    rw [ca_buf]; simp only [List.length_drop, List.length_append]; omega
  have hval : ValidLen ca := by unfold ValidLen; rw [ca_npre, ca_nsamp]; exact hv
  have hem' : ca.ts.edgeMulti = false := by rw [ca_ts]; exact hem
  obtain ⟨e, el, all, he, hel, hall, hframes, hc2⟩ := triggerData_nonEMT_idx hem' htd
  obtain ⟨e', he', hoff, hon⟩ := edgePass_spec ca hval.1 (by obtain ⟨a, b⟩ := hval; omega) (by obtain ⟨a, b⟩ := hval; omega)
  have hee : e' = e := some_inj' (he'.symm.trans he)
  subst hee
  have hefound : FoundOK ca (fpt ca) e' ∧ ∀ x ∈ e', x < hiOf ca := by
    by_cases hedge : ca.ts.edge = true
    · have hs := hon hedge
      exact ⟨⟨fun t ht => (hs.range t ht).1, hs.spaced⟩, fun x hx => (hs.range x hx).2⟩
    · have : e' = [] := hoff (by simpa using hedge)
      subst this
      exact ⟨⟨by simp, by simp⟩, by simp⟩
  obtain ⟨hfo, her⟩ := hefound
  obtain ⟨el', hel', helr⟩ := levelPass_some hval hfo her
  have : el' = el := some_inj' (hel'.symm.trans hel)
  subst this
  obtain ⟨all', hall', hallr⟩ := autoPass_some hval helr
  have : all' = all := some_inj' (hall'.symm.trans hall)
  subst this
  have hhi : hiOf ca = (G.length : Int) + seg.length + npre - nsamp - k := by
    unfold hiOf; rw [ca_len, ca_npre, ca_nsamp]; omega
  have c2_eq : c2.buf = ca.buf ∧ c2.first = ca.first ∧ c2.ts = ca.ts ∧ c2.npre = ca.npre ∧ c2.nsamp = ca.nsamp ∧
      c2.emt = ca.emt ∧ c2.signed = ca.signed := by rw [hc2]; exact ⟨rfl, rfl, rfl, rfl, rfl, rfl, rfl⟩
  obtain ⟨b1, b2, b3, b4, b5, b6, b7⟩ := c2_eq
  have c2_last : c2.lastTrig = (match all'.getLast? with | some i => ca.first + i | none => ca.lastTrig) := by
    rw [hc2]; rfl
  have trim_same : (trim c2).ts = c2.ts ∧ (trim c2).npre = c2.npre ∧ (trim c2).nsamp = c2.nsamp ∧
      (trim c2).emt = c2.emt ∧ (trim c2).signed = c2.signed ∧ (trim c2).lastTrig = c2.lastTrig := by
    unfold trim; simp only; split <;> exact ⟨rfl, rfl, rfl, rfl, rfl, rfl⟩
  obtain ⟨t1, t2, t3, t4, t5, t6⟩ := trim_same
  have hk2 : c2.emt.nsamp = nsamp := by rw [b6, ca_sync]
  have hkG : k ≤ (G ++ seg).length := by simp; omega
  have htrim : ∃ k' : Nat, k' ≤ (G ++ seg).length ∧ (trim c2).buf = (G ++ seg).drop k' ∧
      (k' = k ∨ (k' : Int) + nsamp ≤ (G.length : Int) + seg.length) := by
    unfold trim
    simp only [hk2]
    split
    · exact ⟨k, hkG, by rw [b1, ca_buf], Or.inl rfl⟩
    · rename_i hlt
      have c2_len : (c2.buf.length : Int) = (G.length : Int) + seg.length - k := by rw [b1]; exact ca_len
      have hGl : ((G ++ seg).length : Int) = (G.length : Int) + seg.length := by simp
      have c2_lenN : c2.buf.length = (G ++ seg).length - k := by rw [b1, ca_buf]; simp
      refine ⟨(G ++ seg).length - (2 * nsamp + 10).toNat, by omega, ?_, ?_⟩
      · simp only [b1, ca_buf, List.drop_drop]
        congr 1
        simp only [List.length_drop]
        omega
      · right
        omega
  obtain ⟨k', hk', hbuf', hkk⟩ := htrim
  subst hc1
  refine ⟨ca, e', el', all', k', ca_buf, ca_first, ca_ts, ca_npre, ca_nsamp, ca_sg, ca_last, hhi, he, hel, hall,
    hfo, ?_, ?_, ?_, ?_, ?_, hk', hbuf', hkk⟩
  · intro x hx
    exact ⟨levelPass_lower hval hfo hel x hx, (helr x hx).2⟩
  · intro x hx
    have := hallr x hx
    rw [ca_npre] at this
    exact this
  · rw [← htr, hframes]
  · rw [t6, c2_last, ca_last]
  · exact ⟨by rw [t1, b3, ca_ts], by rw [t2, b4, ca_npre], by rw [t3, b5, ca_nsamp], by rw [t4, b6, ca_sync],
      Or.inl (by rw [t5, b7, ca_sg])⟩

/-! ### the invariant -/

structure AutoInv (ts : TS) (npre nsamp : Int) (sg : Bool) (G : List Nat) (f0 : Int) (c : Chan)
    (trigs : List Int) (k : Nat) : Prop where
  hk : k ≤ G.length
  hbuf : c.buf = G.drop k
  cfg : Cfg c ts npre nsamp sg
  sorted : trigs.Pairwise (· ≤ ·)
  last : trigs ≠ [] → c.lastTrig ∈ trigs
  newest : ∀ T ∈ trigs, T ≤ c.lastTrig
  /-- from the first trigger on, every window of `delay + nsamp` frames ending at or before the newest
  trigger contains a trigger -/
  dense : ∀ y, y ≤ c.lastTrig → (∃ T ∈ trigs, T ≤ y) →
    ∃ T ∈ trigs, y - (autoD ts nsamp + nsamp) < T ∧ T ≤ y
  low : trigs ≠ [] → f0 + k + npre ≤ c.lastTrig + autoD ts nsamp
  tail : trigs ≠ [] → f0 + (G.length : Int) + npre - nsamp ≤ c.lastTrig + autoD ts nsamp

/-- in an ascending list the last element is the largest -/
theorem sorted_le_getLast : ∀ {l : List Int} {i : Int},
    l.Pairwise (· ≤ ·) → l.getLast? = some i → ∀ x ∈ l, x ≤ i
  | [], _, _, h, _, _ => by simp at h
  | [a], i, _, h, x, hx => by simp at h hx; omega
  | a :: b :: r, i, hp, h, x, hx => by
    obtain ⟨h1, h2⟩ := List.pairwise_cons.mp hp
    have h' : (b :: r).getLast? = some i := by simpa [List.getLast?_cons_cons] using h
    rcases List.mem_cons.mp hx with rfl | hx
    · have hb := sorted_le_getLast h2 h' b (by simp)
      have := h1 b (by simp); omega
    · exact sorted_le_getLast h2 h' x hx

theorem autoPass_on' {c : Chan} (ha : c.ts.auto = true) (hns : 1 ≤ c.nsamp) {found all : List Int}
    (h : autoPass c found = some all) :
    ∃ (D : Int) (_ : D = autoD c.ts c.nsamp) (hd : 0 < D) (new : List Int),
      autoLoop c c.buf.length D hd (fpta c) found [] = some new ∧ all = sortAsc (found ++ new) := by
  obtain ⟨hd, new, h1, h2⟩ := autoPass_on ha hns h
  exact ⟨_, rfl, hd, new, h1, h2⟩

set_option maxHeartbeats 1600000 in
/-- one block preserves the auto invariant -/
theorem stepChan_auto_inv {ts : TS} {npre nsamp : Int} {sg : Bool} {G : List Nat} {f0 : Int} {c : Chan}
    {trigs : List Int} {k : Nat} {zt : ZT} {seg : List Nat} {t0 per : Int} {c1 : Chan} {tr : List Int}
    (hv : 3 ≤ npre ∧ npre < nsamp) (hem : ts.edgeMulti = false) (hauto : ts.auto = true) (hveto : ts.autoVeto = 0)
    (hinv : AutoInv ts npre nsamp sg G f0 c trigs k)
    (h : stepChan zt c seg (f0 + G.length) t0 per sg = some (c1, tr)) :
    ∃ k', AutoInv ts npre nsamp sg (G ++ seg) f0 c1 (trigs ++ tr) k' := by
  obtain ⟨hk, hbuf, hcfg, hsorted, hlast, hnewest, hdense, hlow, htail⟩ := hinv
  obtain ⟨ca, e, el, all, k', ca_buf, ca_first, ca_ts, ca_npre, ca_nsamp, ca_sg, ca_last, hhi, he, hel, hall, hfo,
    helr, hallr, htr, hc1last, hcfg1, hk', hbuf', hkk⟩ := stepChan_anat hv hem hk hbuf hcfg h
  have hns1 : 1 ≤ ca.nsamp := by rw [ca_nsamp]; omega
  have hns0 : 0 ≤ ca.nsamp := by omega
  obtain ⟨D, hDc, hd, new, hnew, hall_eq⟩ := autoPass_on' (by rw [ca_ts]; exact hauto) hns1 hall
  have hDeq : D = autoD ts nsamp := by rw [hDc, ca_ts, ca_nsamp]
  have hGl : ((G ++ seg).length : Int) = (G.length : Int) + seg.length := by simp
  -- the first potential (auto) trigger indices
  have hfp3 : (npre ≤ c.lastTrig - ca.first + D ∧ fpta ca = c.lastTrig - ca.first + D) ∨
      (c.lastTrig - ca.first + D < npre ∧ fpta ca = npre) := by
    rw [fpta_eq, ← hDc, ca_last, ca_npre]
    split
    · right; exact ⟨by assumption, rfl⟩
    · left; exact ⟨by omega, rfl⟩
  have hfpt : c.lastTrig - ca.first + nsamp ≤ fpt ca ∧ npre ≤ fpt ca := by
    unfold fpt; rw [ca_last, ca_nsamp, ca_npre]; simp only; split <;> omega
  -- previous triggers as indices of this buffer
  generalize hP : trigs.map (fun T => T - ca.first) = P
  have memP : ∀ t, t ∈ P ↔ ca.first + t ∈ trigs := by
    intro t
    rw [← hP]
    constructor
    · intro ht
      obtain ⟨T, hT, rfl⟩ := List.mem_map.mp ht
      rw [show ca.first + (T - ca.first) = T by omega]; exact hT
    · intro ht
      exact List.mem_map.mpr ⟨ca.first + t, ht, by omega⟩
  -- the loop invariant holds at the start of this block's auto scan
  have hJ0 : AutoK D ca.nsamp (P ++ el ++ []) (fpta ca) := by
    constructor
    · intro x hx hex
      obtain ⟨T, hT, hTx⟩ := hex
      simp only [List.append_nil, List.mem_append] at hT
      rcases hT with hT | hT
      · have hTt : ca.first + T ∈ trigs := (memP T).mp hT
        have hne : trigs ≠ [] := List.ne_nil_of_mem hTt
        have hl := hlast hne
        have hlo := hlow hne
        by_cases hy : ca.first + x ≤ c.lastTrig
        · obtain ⟨T', hT', h1, h2⟩ := hdense (ca.first + x) hy ⟨ca.first + T, hTt, by omega⟩
          refine ⟨T' - ca.first, ?_, ?_, ?_⟩
          · simp only [List.append_nil, List.mem_append]
            left
            exact (memP _).mpr (by rw [show ca.first + (T' - ca.first) = T' by omega]; exact hT')
          · rw [ca_nsamp]; omega
          · omega
        · refine ⟨c.lastTrig - ca.first, ?_, ?_, by omega⟩
          · simp only [List.append_nil, List.mem_append]
            left
            exact (memP _).mpr (by rw [show ca.first + (c.lastTrig - ca.first) = c.lastTrig by omega]; exact hl)
          · rw [ca_nsamp]
            rcases hfp3 with ⟨_, h2⟩ | ⟨h1, h2⟩ <;> omega
      · have hTl := (helr T hT).1
        refine ⟨T, ?_, ?_, hTx⟩
        · simp only [List.append_nil, List.mem_append]; right; exact hT
        · rw [ca_nsamp]
          rcases hfp3 with ⟨_, h2⟩ | ⟨h1, h2⟩ <;> omega
    · by_cases hne : trigs = []
      · by_cases hex : ∃ T ∈ el, T < fpta ca
        · obtain ⟨T, hT, hTlt⟩ := hex
          have hTl := (helr T hT).1
          left
          refine ⟨T, ?_, ?_, hTlt⟩
          · simp only [List.append_nil, List.mem_append]; right; exact hT
          · rcases hfp3 with ⟨_, h2⟩ | ⟨h1, h2⟩ <;> omega
        · right
          intro T hT
          simp only [List.append_nil, List.mem_append] at hT
          rcases hT with hT | hT
          · have := (memP T).mp hT
            rw [hne] at this
            simp at this
          · by_cases hlt : T < fpta ca
            · exact absurd ⟨T, hT, hlt⟩ hex
            · omega
      · have hl := hlast hne
        have hlo := hlow hne
        left
        refine ⟨c.lastTrig - ca.first, ?_, ?_, ?_⟩
        · simp only [List.append_nil, List.mem_append]
          left
          exact (memP _).mpr (by rw [show ca.first + (c.lastTrig - ca.first) = c.lastTrig by omega]; exact hl)
        · rcases hfp3 with ⟨_, h2⟩ | ⟨h1, h2⟩ <;> omega
        · rcases hfp3 with ⟨_, h2⟩ | ⟨h1, h2⟩ <;> omega
  obtain ⟨res, nptf, hres, hend, hjf⟩ := autoLoop_denseK ca D hd (by rw [ca_ts]; exact hveto) hns0 P el _ (fpta ca) [] el
    (Nat.le_refl _) (fun _ ht => ht) hJ0
  have hnr : new = res := by
    have := hnew.symm.trans hres
    simpa using this
  subst hnr
  simp only [List.nil_append] at hjf
  have hnptf : hiOf ca ≤ nptf := by unfold hiOf; omega
  -- the auto triggers of this block come after the scan start
  have hlowA : ∀ a ∈ new, fpta ca ≤ a := by
    intro a ha
    have := autoLoop_lower ca D hd (fpta ca) el _ (fpta ca) [] new (Nat.le_refl _) (Int.le_refl _)
      (by
        intro t ht
        have := (helr t ht).1
        rcases hfp3 with ⟨_, h2⟩ | ⟨h1, h2⟩ <;> omega) hnew a ha
    rcases this with h | h
    · simp at h
    · exact h
  have memAll : ∀ x, x ∈ all ↔ x ∈ el ∨ x ∈ new := by
    intro x; rw [hall_eq, mem_sortAsc, List.mem_append]
  have hnewer : ∀ x ∈ all, c.lastTrig < ca.first + x := by
    intro x hx
    rcases (memAll x).mp hx with hx | hx
    · have := (helr x hx).1; omega
    · have := hlowA x hx
      rcases hfp3 with ⟨_, h2⟩ | ⟨h1, h2⟩ <;> omega
  have memS : ∀ t, t ∈ P ++ el ++ new ↔ ca.first + t ∈ trigs ++ tr := by
    intro t
    simp only [List.mem_append, htr, List.mem_map]
    constructor
    · rintro ((h | h) | h)
      · exact Or.inl ((memP t).mp h)
      · exact Or.inr ⟨t, (memAll t).mpr (Or.inl h), rfl⟩
      · exact Or.inr ⟨t, (memAll t).mpr (Or.inr h), rfl⟩
    · rintro (h | ⟨x, hx, hxe⟩)
      · exact Or.inl (Or.inl ((memP t).mpr h))
      · have : x = t := by omega
        subst this
        rcases (memAll x).mp hx with h | h
        · exact Or.inl (Or.inr h)
        · exact Or.inr h
  have hallsorted : all.Pairwise (· ≤ ·) := by rw [hall_eq]; exact sortAsc_sorted _
  -- the new hold-off reference
  have hL : (all = [] ∧ tr = [] ∧ c1.lastTrig = c.lastTrig) ∨
      (∃ i, i ∈ all ∧ c1.lastTrig = ca.first + i ∧ ∀ x ∈ all, x ≤ i) := by
    cases hal : all.getLast? with
    | none =>
      have hnil : all = [] := List.getLast?_eq_none_iff.mp hal
      left
      refine ⟨hnil, by rw [htr, hnil]; rfl, ?_⟩
      rw [hc1last, hal]
    | some i =>
      right
      refine ⟨i, List.mem_of_getLast? hal, ?_, sorted_le_getLast hallsorted hal⟩
      rw [hc1last, hal]
  have hLge : c.lastTrig ≤ c1.lastTrig := by
    rcases hL with ⟨_, _, h3⟩ | ⟨i, hi, h3, _⟩
    · omega
    · have := hnewer i hi; omega
  have hlast' : trigs ++ tr ≠ [] → c1.lastTrig ∈ trigs ++ tr := by
    intro hne
    rcases hL with ⟨_, h2, h3⟩ | ⟨i, hi, h3, _⟩
    · rw [h2, List.append_nil] at hne ⊢
      rw [h3]; exact hlast hne
    · rw [h3, htr]
      exact List.mem_append_right _ (List.mem_map.mpr ⟨i, hi, rfl⟩)
  have hnewest' : ∀ T ∈ trigs ++ tr, T ≤ c1.lastTrig := by
    intro T hT
    rcases List.mem_append.mp hT with hT | hT
    · have := hnewest T hT; omega
    · rcases hL with ⟨_, h2, _⟩ | ⟨i, hi, h3, hmax⟩
      · rw [h2] at hT; simp at hT
      · rw [htr] at hT
        obtain ⟨x, hx, rfl⟩ := List.mem_map.mp hT
        have := hmax x hx
        omega
  have htail' : trigs ++ tr ≠ [] → f0 + ((G ++ seg).length : Int) + npre - nsamp ≤ c1.lastTrig + autoD ts nsamp := by
    intro hne
    have hl' := hlast' hne
    rw [hGl]
    rcases hjf.anchor with ⟨T0, hT0, ha, _⟩ | hall2
    · have := hnewest' _ ((memS T0).mp hT0)
      omega
    · have hmem : c1.lastTrig - ca.first ∈ P ++ el ++ new :=
        (memS _).mpr (by rw [show ca.first + (c1.lastTrig - ca.first) = c1.lastTrig by omega]; exact hl')
      have := hall2 _ hmem
      omega
  refine ⟨k', ⟨hk', hbuf', hcfg1, ?_, hlast', hnewest', ?_, ?_, htail'⟩⟩
  · -- ascending
    refine List.pairwise_append.mpr ⟨hsorted, ?_, ?_⟩
    · rw [htr]
      refine List.pairwise_map.mpr ?_
      exact hallsorted.imp (by intro a b hab; omega)
    · intro a ha b hb
      rw [htr] at hb
      obtain ⟨x, hx, rfl⟩ := List.mem_map.mp hb
      have := hnewest a ha
      have := hnewer x hx
      omega
  · -- density
    intro y hy hex
    rcases hL with ⟨_, h2, h3⟩ | ⟨i, hi, h3, hmax⟩
    · rw [h2, List.append_nil] at hex ⊢
      exact hdense y (by omega) hex
    · obtain ⟨T, hT, hTy⟩ := hex
      have hi2 := (hallr i hi).2
      obtain ⟨T', hT', h1, h2⟩ := hjf.dense (y - ca.first) (by omega)
        ⟨T - ca.first, (memS _).mpr (by rw [show ca.first + (T - ca.first) = T by omega]; exact hT), by omega⟩
      refine ⟨ca.first + T', (memS T').mp hT', ?_, by omega⟩
      rw [ca_nsamp] at h1
      omega
  · -- the next auto scan starts inside the retained buffer
    intro hne
    have ht := htail' hne
    rw [hGl] at ht
    rcases hkk with hkk | hkk
    · subst hkk
      by_cases hne0 : trigs = []
      · rcases hL with ⟨_, h2, _⟩ | ⟨i, hi, h3, _⟩
        · rw [hne0, h2] at hne; simp at hne
        · have := (hallr i hi).1
          have hdpos : 0 < autoD ts nsamp := by omega
          omega
      · have := hlow hne0
        omega
    · omega

/-- any number of blocks of any lengths -/
theorem runChan_auto_inv {ts : TS} {npre nsamp : Int} {sg : Bool} {f0 : Int} {zt : ZT} {tp : Nat → Int × Int}
    (hv : 3 ≤ npre ∧ npre < nsamp) (hem : ts.edgeMulti = false) (hauto : ts.auto = true) (hveto : ts.autoVeto = 0) :
    ∀ (segs : List (List Nat)) (n : Nat) (G : List Nat) (c : Chan) (trigs : List Int) (k : Nat) (c' : Chan) (tr : List Int),
      AutoInv ts npre nsamp sg G f0 c trigs k →
      runChan zt tp sg n c (f0 + G.length) segs = some (c', tr) →
      ∃ k', AutoInv ts npre nsamp sg (G ++ segs.flatten) f0 c' (trigs ++ tr) k'
  | [], n, G, c, trigs, k, c', tr, hinv, h => by
    simp only [runChan, Option.some.injEq, Prod.mk.injEq] at h
    obtain ⟨rfl, rfl⟩ := h
    exact ⟨k, by simpa using hinv⟩
  | seg :: segs, n, G, c, trigs, k, c', tr, hinv, h => by
    unfold runChan at h
    split at h
    · simp at h
    rename_i c1 tr1 hstep
    split at h
    · simp at h
    rename_i c2 tr2 hrun
    simp only [Option.some.injEq, Prod.mk.injEq] at h
    obtain ⟨rfl, rfl⟩ := h
    obtain ⟨k1, hinv1⟩ := stepChan_auto_inv hv hem hauto hveto hinv hstep
    have hlen : f0 + (G.length : Int) + (seg.length : Int) = f0 + ((G ++ seg).length : Int) := by simp; omega
    rw [hlen] at hrun
    obtain ⟨k2, hinv2⟩ := runChan_auto_inv hv hem hauto hveto segs (n + 1) (G ++ seg) c1 (trigs ++ tr1) k1 c2 tr2 hinv1 hrun
    refine ⟨k2, ?_⟩
    simpa [List.append_assoc] using hinv2

/-- consecutive triggers of an ascending, dense trigger list are at most one window apart -/
theorem gap_of_dense {W L : Int} {tr : List Int} (hs : tr.Pairwise (· ≤ ·)) (hn : ∀ T ∈ tr, T ≤ L)
    (hdense : ∀ y, y ≤ L → (∃ T ∈ tr, T ≤ y) → ∃ T ∈ tr, y - W < T ∧ T ≤ y)
    {a b : Int} (hab : [a, b] <:+: tr) : a ≤ b ∧ b - a ≤ W := by
  obtain ⟨l1, l2, rfl⟩ := hab
  have hp := hs
  rw [List.append_assoc] at hp
  obtain ⟨_, hp2, hp3⟩ := List.pairwise_append.mp hp
  obtain ⟨hp4, _, hp5⟩ := List.pairwise_append.mp hp2
  have hab' : a ≤ b := by
    have := List.pairwise_cons.mp hp4
    exact this.1 b (by simp)
  refine ⟨hab', ?_⟩
  by_cases heq : a = b
  · subst heq
    have : 0 ≤ W ∨ W < 0 := by omega
    rcases this with hw | hw
    · omega
    · -- a negative window is impossible: the trigger `a` itself needs a trigger in `(a − W, a]`
      obtain ⟨T, _, h1, h2⟩ := hdense a (hn a (by simp)) ⟨a, by simp, Int.le_refl _⟩
      omega
  · have hb : b ∈ l1 ++ [a, b] ++ l2 := by simp
    obtain ⟨T, hT, h1, h2⟩ := hdense (b - 1) (by have := hn b hb; omega) ⟨a, by simp, by omega⟩
    have hTa : T ≤ a := by
      simp only [List.mem_append, List.mem_cons, List.mem_nil_iff, or_false] at hT
      rcases hT with (hT | hT | hT) | hT
      · exact hp3 T hT a (by simp)
      · omega
      · omega
      · have := hp5 b (by simp) T hT
        omega
    omega

end DastardV.Trig
