/-
"The analysis values of a published record are the definitions evaluated on the stream excerpt" (C01 ∘ C13).

C13 proves, over ℚ, that the values `AnalyzeData` stores for a record (pre-trigger mean, pre-trigger delta,
pulse average, pulse RMS², peak value; with a model loaded the coefficients `projectors · data` and the
variance of the residual) are the mathematical definitions `C13.Spec.*` — as functions of the record's
samples `data`, its pre-trigger length `npre` and its signedness.  C01 proves that every record the source
publishes for channel `j` is the excerpt of the stream delivered to the channel, `chanStream j ops`, that
starts `npre` samples before its trigger frame, has the configured lengths and the block's signedness.
Here the two are composed, for a source from `PrepareRun`, every channel and any history of blocks with
group-trigger requests woven in (the hypotheses of `wire_samples_are_stream_excerpts` /
`file_samples_are_stream_excerpts_of_blocks`), plus: all blocks carry one signedness flag `sg` for the
channel (`SignedAt`).

* `chanRecs_signed`            every record published for channel `j` carries the blocks' signedness flag;
* `record_is_stream_excerpt`   for a run `runOps … = some outs`: `r.data = (S.drop a).take nsamp.toNat`
                               with `a = r.frame − f0 − npre`, `r.npre = npre`, `r.signed = sg`;
* `analysis_of_stream_excerpt` (run existence discharged by `C01_no_crash`) the same, and hence for EVERY
                               function `f` of a record's samples, pre-trigger length and signedness:
                               `f r.data r.npre r.signed = f ((S.drop a).take nsamp.toNat) npre sg`;
* `analysis_values_of_stream_excerpt`
                               the instances for the definitions of C13: pre-trigger mean, pre-trigger
                               delta, pulse average, pulse mean square (RMS²), peak, coefficients and
                               residual variance of the record = those of the stream excerpt;
* `analyze_of_stream_excerpt`  the model of `AnalyzeData` itself (`C13.analyze`, the code's one-pass
                               formulas) run on the published record does not fail and stores exactly the
                               DEFINITIONS evaluated on the stream excerpt
                               (`C13_formulas_equal_definitions` ∘ `record_is_stream_excerpt`).

Restrictions: as in Task A (valid record lengths `3 ≤ npre < nsamp`; requests during the run are
group-trigger edits only, so no channel is in edge-multi mode and the lengths stay the configured ones;
`OpsOK`, one sample period); one signedness flag per channel over the run; everything is exact arithmetic
over ℚ — IEEE rounding is outside (see C13).  In `analyze_of_stream_excerpt` the projector / basis matrices,
if any, are well-formed (`Mat.wf`: `rows` has the declared shape); their shapes may be incompatible with the
record length (then `SetProjectorsBasis` refuses, as in C13).
-/
import DastardV.Lemmas.ComposeExcerpt
import DastardV.Props.C13
namespace DastardV.Compose
open Pipe Trig C01

/-- every block of the history carries the signedness flag `sg` for channel `j` -/
def SignedAt (j : Nat) (sg : Bool) : Op → Prop
  | .block _ _ _ signed _ => signed[j]?.getD false = sg
  | _ => True

/-- from the per-block judgement `OutsOK` (`RecOK.signed`: a record carries its block's flag) to the whole
run: every record published for channel `j` carries the flag all blocks carry for `j` -/
theorem chanRecs_signed_aux (zts : List (List (Int × Int))) (per f0 : Int) (j : Nat) (sg : Bool) :
    ∀ (ops : List Op) (Gs : List (List Nat)) (s : Src) (outs : List Out),
      (∀ o ∈ ops, SignedAt j sg o) → runOps zts s ops = some outs →
      OutsOK zts per f0 Gs s ops outs →
      ∀ r ∈ chanRecs j outs, r.signed = sg
  | [], _, _, outs, _, h, _ => by
    simp only [runOps, Option.some.injEq] at h
    subst h
    intro r hr; simp [chanRecs] at hr
  | op :: ops, Gs, s, outs, hsg, h, ho => by
    simp only [runOps, bind, Option.bind_eq_some_iff, pure, Option.some.injEq] at h
    obtain ⟨⟨s', out⟩, hstep, rest, hrest, rfl⟩ := h
    obtain ⟨hstepok, hnext⟩ := ho
    rw [hstep] at hnext
    simp only at hnext
    have hsgo := hsg op (by simp)
    have hsgs : ∀ o ∈ ops, SignedAt j sg o := fun o ho => hsg o (by simp [ho])
    have ih := chanRecs_signed_aux zts per f0 j sg ops _ s' rest hsgs hrest hnext
    cases op with
    | block first t0 period signed data =>
      simp only [stepOp, bind, Option.bind_eq_some_iff, pure, Option.some.injEq, Prod.mk.injEq] at hstep
      obtain ⟨⟨s1, rs⟩, hb, rfl, rfl⟩ := hstep
      intro r hr
      simp only [chanRecs, List.mem_append] at hr
      rcases hr with hr | hr
      · cases hrj : rs[j]? with
        | none => simp [hrj] at hr
        | some recs =>
          simp only [hrj, Option.getD_some] at hr
          obtain ⟨G', d, c, _, _, _, hall⟩ := hstepok j recs hrj
          rw [(hall r hr).1.signed]
          exact hsgo
      · exact ih r hr
    | trig rq =>
      simp only [stepOp, bind, Option.bind_eq_some_iff, pure, Option.some.injEq, Prod.mk.injEq] at hstep
      obtain ⟨⟨s1, e⟩, _, rfl, rfl⟩ := hstep
      simpa [chanRecs] using ih
    | len a b =>
      simp only [stepOp, Option.some.injEq, Prod.mk.injEq] at hstep
      obtain ⟨rfl, rfl⟩ := hstep
      simpa [chanRecs] using ih
    | gadd ps =>
      simp only [stepOp, Option.some.injEq, Prod.mk.injEq] at hstep
      obtain ⟨rfl, rfl⟩ := hstep
      simpa [chanRecs] using ih
    | gdel ps =>
      simp only [stepOp, Option.some.injEq, Prod.mk.injEq] at hstep
      obtain ⟨rfl, rfl⟩ := hstep
      simpa [chanRecs] using ih
    | gstop =>
      simp only [stepOp, Option.some.injEq, Prod.mk.injEq] at hstep
      obtain ⟨rfl, rfl⟩ := hstep
      simpa [chanRecs] using ih

/-- **Every record of a channel carries the blocks' signedness flag.**  A source from `PrepareRun`, any
contiguous history on which the model does not panic, all of whose blocks carry the flag `sg` for
channel `j`. -/
theorem chanRecs_signed (zts : List (List (Int × Int))) (per f0 : Int) (nch : Nat) (npre nsamp : Int)
    (saved : List (Nat × TS)) (hn : 0 ≤ nsamp) (ops : List Op) (outs : List Out)
    (hcont : Contig per f0 (List.replicate nch []) ops)
    (h : runOps zts (prepare nch npre nsamp saved) ops = some outs) (j : Nat) (sg : Bool)
    (hsg : ∀ o ∈ ops, SignedAt j sg o) :
    ∀ r ∈ chanRecs j outs, r.signed = sg :=
  chanRecs_signed_aux zts per f0 j sg ops _ _ outs hsg h
    (C01_run_exact zts per f0 nch npre nsamp saved hn ops outs hcont h)

/-- the excerpt of channel `j`'s delivered stream a record with trigger frame `frame` is cut from: the
`nsamp` consecutive samples that start `npre` samples before the trigger frame (sample 0 = frame `f0`) -/
def streamExcerpt (j : Nat) (ops : List Op) (f0 npre nsamp frame : Int) : List Nat :=
  ((chanStream j ops).drop (frame - f0 - npre).toNat).take nsamp.toNat

/-- **A published record is the stream excerpt, with the configured pre-trigger length and the blocks'
signedness.**  A source from `PrepareRun` (valid record lengths), a history of blocks as a data source
delivers them (`OpsOK`, one sample period, one signedness flag `sg` for channel `j`) with group-trigger
requests woven in, and its run `outs` (which exists: `C01_no_crash`): for every record `r` published for
channel `j`, the excerpt lies inside the stream (`0 ≤ r.frame − f0 − npre`, end `≤` the stream's length) and
`r.data`, `r.npre`, `r.signed` are the excerpt, `npre`, `sg`. -/
theorem record_is_stream_excerpt (nch : Nat) (npre nsamp : Int) (saved : List (Nat × TS))
    (hv : 3 ≤ npre ∧ npre < nsamp) (zts : List (List (Int × Int)))
    (per f0 : Int) (ops : List Op) (hok : OpsOK nch f0 ops)
    (hper : ∀ o ∈ ops, OnePeriod per o) (hk : ∀ o ∈ ops, KeepsSettings o)
    (outs : List Out) (hrun : runOps zts (prepare nch npre nsamp saved) ops = some outs)
    (j : Nat) (hj : j < nch) (sg : Bool) (hsg : ∀ o ∈ ops, SignedAt j sg o) :
    ∀ r ∈ chanRecs j outs,
      0 ≤ r.frame - f0 - npre ∧
      (r.frame - f0 - npre).toNat + nsamp.toNat ≤ (chanStream j ops).length ∧
      r.data = streamExcerpt j ops f0 npre nsamp r.frame ∧ r.npre = npre ∧ r.signed = sg := by
  have hjn : j < (prepare nch npre nsamp saved).chans.length := by simp [prepare]; exact hj
  obtain ⟨c, hc⟩ : ∃ c, (prepare nch npre nsamp saved).chans[j]? = some c :=
    ⟨_, List.getElem?_eq_getElem hjn⟩
  obtain ⟨hcn1, hcn2⟩ := prepare_lens hc
  have hem : c.ts.edgeMulti = false :=
    (C02.prepare_fresh (f0 := -2305843009213693952 + nsamp) hc (Int.le_refl _)).2
  have hlen := runOps_chanRecs_len zts j ops _ c outs hk hc hem hrun
  have hcont := contig_of_opsOK per f0 nch ops hok hper
  have hex := chanRecs_excerpts zts per f0 nch npre nsamp saved (by omega) ops f0 outs hok hcont hrun j hj
  have hsig := chanRecs_signed zts per f0 nch npre nsamp saved (by omega) ops outs hcont hrun j sg hsg
  intro r hr
  obtain ⟨hl, hnp⟩ := hlen r hr
  rw [hcn1] at hl; rw [hcn2] at hnp
  obtain ⟨a, ha, hle, hdata⟩ := hex r hr
  have hln : r.data.length = nsamp.toNat := by omega
  rw [hnp] at ha
  have hat : (r.frame - f0 - npre).toNat = a := by omega
  refine ⟨by omega, ?_, ?_, hnp, hsig r hr⟩
  · rw [hat, ← hln]; exact hle
  · simp only [streamExcerpt]
    rw [hat, ← hln]; exact hdata

/-- **Any function of a published record is that function of the stream excerpt.**  Same hypotheses as
`wire_samples_are_stream_excerpts` plus one signedness flag per channel; no hypothesis about the run
succeeding is left (`C01_no_crash`).  For every channel `j`, every record `r` published for it and EVERY
function `f` of a record's samples, pre-trigger length and signedness (in particular each analysis
definition of C13), `f` of the record is `f` of the `nsamp` consecutive samples of `chanStream j ops` from
position `a = r.frame − f0 − npre` on, with `npre` pre-trigger samples and the blocks' signedness. -/
theorem analysis_of_stream_excerpt (nch : Nat) (npre nsamp : Int) (saved : List (Nat × TS))
    (hv : 3 ≤ npre ∧ npre < nsamp) (zts : List (List (Int × Int)))
    (hzt : ∀ (j : Nat) (p : Int), -1 ≤ ztOf (zts[j]?.getD []) p ∧ ztOf (zts[j]?.getD []) p ≤ 1)
    (per f0 : Int) (ops : List Op) (hok : OpsOK nch f0 ops)
    (hper : ∀ o ∈ ops, OnePeriod per o) (hk : ∀ o ∈ ops, KeepsSettings o) :
    ∃ outs, runOps zts (prepare nch npre nsamp saved) ops = some outs ∧
      ∀ (j : Nat), j < nch → ∀ (sg : Bool), (∀ o ∈ ops, SignedAt j sg o) →
        ∀ r ∈ chanRecs j outs,
          let S := chanStream j ops
          ∃ a : Nat, (a : Int) = r.frame - f0 - npre ∧ a + nsamp.toNat ≤ S.length ∧
            r.data = (S.drop a).take nsamp.toNat ∧ r.npre = npre ∧ r.signed = sg ∧
            ∀ {α : Type} (f : List Nat → Int → Bool → α),
              f r.data r.npre r.signed = f ((S.drop a).take nsamp.toNat) npre sg := by
  obtain ⟨outs, hrun⟩ := C01.C01_no_crash nch npre nsamp saved hv zts hzt ops f0 hok
  refine ⟨outs, hrun, ?_⟩
  intro j hj sg hsg r hr
  obtain ⟨h0, hle, hdata, hnp, hs⟩ :=
    record_is_stream_excerpt nch npre nsamp saved hv zts per f0 ops hok hper hk outs hrun j hj sg hsg r hr
  refine ⟨(r.frame - f0 - npre).toNat, by omega, hle, hdata, hnp, hs, ?_⟩
  intro α f
  rw [hnp, hs]
  exact congrArg (fun d => f d npre sg) hdata

/-! ### The definitions of C13 as functions of a record's samples, pre-trigger length and signedness -/

/-- the values the analysis works on: `float64(v)` / `float64(int16(v))` of each sample, exactly -/
def recVec (data : List Nat) (signed : Bool) : List C13.Q := C13.dataVec signed data

/-- pre-trigger mean of a record -/
def ptmOf (data : List Nat) (npre : Int) (signed : Bool) : C13.Q :=
  C13.Spec.pretrigMean ((recVec data signed).take npre.toNat)

/-- pre-trigger delta (least-squares slope × span) of a record -/
def ptdOf (data : List Nat) (npre : Int) (signed : Bool) : C13.Q :=
  C13.Spec.pretrigDelta ((recVec data signed).take npre.toNat)

/-- pulse average relative to the pre-trigger mean -/
def avgOf (data : List Nat) (npre : Int) (signed : Bool) : C13.Q :=
  C13.Spec.pulseAverage (ptmOf data npre signed) ((recVec data signed).drop npre.toNat)

/-- pulse RMS², relative to the pre-trigger mean -/
def msOf (data : List Nat) (npre : Int) (signed : Bool) : C13.Q :=
  C13.Spec.pulseMeanSquare (ptmOf data npre signed) ((recVec data signed).drop npre.toNat)

/-- peak value relative to the pre-trigger mean (`none` without a post-trigger sample) -/
def peakOf (data : List Nat) (npre : Int) (signed : Bool) : Option C13.Q :=
  C13.Spec.peak (ptmOf data npre signed) ((recVec data signed).drop npre.toNat)

/-- model coefficients `projectors · data` -/
def coefsOf (P : List (List C13.Q)) (data : List Nat) (_npre : Int) (signed : Bool) : List C13.Q :=
  C13.Spec.coefs P (recVec data signed)

/-- variance of the residual `data − basis · coefficients` (the square of the residual std-dev) -/
def residVarOf (P B : List (List C13.Q)) (data : List Nat) (_npre : Int) (signed : Bool) : C13.Q :=
  C13.Spec.residVar P B (recVec data signed)

/-- **The analysis definitions of C13 on a published record = on the stream excerpt.**  For a run as in
`record_is_stream_excerpt`, every record `r` published for channel `j`, with
`E = streamExcerpt j ops f0 npre nsamp r.frame` (the `nsamp` samples of the channel's delivered stream that
start `npre` samples before the trigger frame): pre-trigger mean, pre-trigger delta, pulse average, pulse
mean square, peak value — and for any projector / basis matrices the coefficients and the residual
variance — of the record are those of `E` with `npre` pre-trigger samples and signedness `sg`. -/
theorem analysis_values_of_stream_excerpt (nch : Nat) (npre nsamp : Int) (saved : List (Nat × TS))
    (hv : 3 ≤ npre ∧ npre < nsamp) (zts : List (List (Int × Int)))
    (per f0 : Int) (ops : List Op) (hok : OpsOK nch f0 ops)
    (hper : ∀ o ∈ ops, OnePeriod per o) (hk : ∀ o ∈ ops, KeepsSettings o)
    (outs : List Out) (hrun : runOps zts (prepare nch npre nsamp saved) ops = some outs)
    (j : Nat) (hj : j < nch) (sg : Bool) (hsg : ∀ o ∈ ops, SignedAt j sg o) :
    ∀ r ∈ chanRecs j outs,
      let E := streamExcerpt j ops f0 npre nsamp r.frame
      ptmOf r.data r.npre r.signed = ptmOf E npre sg ∧
      ptdOf r.data r.npre r.signed = ptdOf E npre sg ∧
      avgOf r.data r.npre r.signed = avgOf E npre sg ∧
      msOf r.data r.npre r.signed = msOf E npre sg ∧
      peakOf r.data r.npre r.signed = peakOf E npre sg ∧
      (∀ P, coefsOf P r.data r.npre r.signed = coefsOf P E npre sg) ∧
      (∀ P B, residVarOf P B r.data r.npre r.signed = residVarOf P B E npre sg) := by
  intro r hr
  obtain ⟨_, _, hdata, hnp, hs⟩ :=
    record_is_stream_excerpt nch npre nsamp saved hv zts per f0 ops hok hper hk outs hrun j hj sg hsg r hr
  simp only
  rw [hnp, hs, ← hdata]
  exact ⟨rfl, rfl, rfl, rfl, rfl, fun _ => rfl, fun _ _ => rfl⟩

/-- the call of `AnalyzeData` on a published record: the record's own pre-trigger length, samples and
signedness; `cfgNpre`, `nsamp` = the processor's configured lengths; `pb` = the loaded model, if any -/
def recInput (r : Rec) (cfgNpre nsamp : Nat) (pb : Option (C13.Mat × C13.Mat)) : C13.Input :=
  { npre := r.npre.toNat, cfgNpre := cfgNpre, nsamp := nsamp, signed := r.signed, data := r.data, pb := pb }

/-- **`AnalyzeData` on a published record stores the definitions evaluated on the stream excerpt.**  For a
run as in `record_is_stream_excerpt`, every record `r` published for channel `j` and any loaded model `pb`
(well-formed matrices, or none): the model of `AnalyzeData` (`C13.analyze`: the code's one-pass formulas)
does not fail on the record, and with `x` = the values of the `nsamp` samples of the channel's delivered
stream that start `npre` samples before the trigger frame (signedness `sg`), `pre` = its first `npre`,
`post` = the rest: the stored values are the pre-trigger mean of `pre`, the least-squares slope × span of
`pre`, the mean, mean square and peak of `post` relative to that mean, and — when `SetProjectorsBasis`
accepts the shapes — `projectors · x` and the population variance of `x − basis · (projectors · x)`. -/
theorem analyze_of_stream_excerpt (nch : Nat) (npre nsamp : Int) (saved : List (Nat × TS))
    (hv : 3 ≤ npre ∧ npre < nsamp) (zts : List (List (Int × Int)))
    (per f0 : Int) (ops : List Op) (hok : OpsOK nch f0 ops)
    (hper : ∀ o ∈ ops, OnePeriod per o) (hk : ∀ o ∈ ops, KeepsSettings o)
    (outs : List Out) (hrun : runOps zts (prepare nch npre nsamp saved) ops = some outs)
    (j : Nat) (hj : j < nch) (sg : Bool) (hsg : ∀ o ∈ ops, SignedAt j sg o)
    (pb : Option (C13.Mat × C13.Mat)) (hwf : ∀ P B, pb = some (P, B) → P.wf ∧ B.wf) :
    ∀ r ∈ chanRecs j outs,
      let x := C13.dataVec sg (streamExcerpt j ops f0 npre nsamp r.frame)
      let pre := x.take npre.toNat
      let post := x.drop npre.toNat
      ∃ out, C13.analyze (recInput r npre.toNat nsamp.toNat pb) = .ok out ∧
        out.ptm = C13.Spec.pretrigMean pre ∧
        out.ptd = some (C13.Spec.pretrigDelta pre) ∧
        out.avg = C13.Spec.pulseAverage out.ptm post ∧
        out.ms = C13.Spec.pulseMeanSquare out.ptm post ∧
        C13.Spec.IsPeak out.ptm post out.peak ∧
        (match (generalizing := false) pb with
         | none => out.setErr = false ∧ out.coefs = none ∧ out.rvar = none
         | some (P, B) =>
           if C13.setPBok nsamp.toNat P B then
             out.setErr = false ∧ out.coefs = some (C13.Spec.coefs P.rows x) ∧
             out.rvar = some (C13.Spec.residVar P.rows B.rows x)
           else out.setErr = true ∧ out.coefs = none ∧ out.rvar = none) := by
  intro r hr
  obtain ⟨h0, hle, hdata, hnp, hs⟩ :=
    record_is_stream_excerpt nch npre nsamp saved hv zts per f0 ops hok hper hk outs hrun j hj sg hsg r hr
  have hElen : (streamExcerpt j ops f0 npre nsamp r.frame).length = nsamp.toNat := by
    simp only [streamExcerpt, List.length_take, List.length_drop]
    omega
  have hin : recInput r npre.toNat nsamp.toNat pb =
      ⟨npre.toNat, npre.toNat, nsamp.toNat, sg, streamExcerpt j ops f0 npre nsamp r.frame, pb⟩ := by
    simp only [recInput, hnp, hs, ← hdata]
  rw [hin]
  have hvalid : C13.Valid
      ⟨npre.toNat, npre.toNat, nsamp.toNat, sg, streamExcerpt j ops f0 npre nsamp r.frame, pb⟩ :=
    ⟨by simp only; omega, by simp only [hElen]; omega, fun _ => hElen, hwf⟩
  exact C13.C13_formulas_equal_definitions _ hvalid

/-- non-vacuity: an ordinary history (two channels, two blocks with a connection request in between, frames
from 100 on, sample period 1000, channel 1 unsigned throughout) meets the hypotheses on the history; and the
record-level definitions evaluate: a record of 3 + 2 samples -/
example : OpsOK 2 100 [.block 100 0 1000 [false, false] [[1, 2, 3], [4, 5, 6]], .gadd [(0, 1)],
      .block 103 3000 1000 [false, false] [[7], [8]]] ∧
    (∀ o ∈ [Op.block 100 0 1000 [false, false] [[1, 2, 3], [4, 5, 6]], .gadd [(0, 1)],
      .block 103 3000 1000 [false, false] [[7], [8]]], OnePeriod 1000 o) ∧
    (∀ o ∈ [Op.block 100 0 1000 [false, false] [[1, 2, 3], [4, 5, 6]], .gadd [(0, 1)],
      .block 103 3000 1000 [false, false] [[7], [8]]], KeepsSettings o) ∧
    (∀ o ∈ [Op.block 100 0 1000 [false, false] [[1, 2, 3], [4, 5, 6]], .gadd [(0, 1)],
      .block 103 3000 1000 [false, false] [[7], [8]]], SignedAt 1 false o) ∧
    streamExcerpt 1 [.block 100 0 1000 [false, false] [[1, 2, 3], [4, 5, 6]], .gadd [(0, 1)],
      .block 103 3000 1000 [false, false] [[7], [8]]] 100 1 3 102 = [5, 6, 8] := by
  refine ⟨⟨rfl, 3, by simp, by decide, rfl, ⟨rfl, 1, by simp, by decide, rfl, trivial⟩⟩, ?_, ?_, ?_, by decide⟩
  · intro o ho
    simp only [List.mem_cons, List.not_mem_nil, or_false] at ho
    rcases ho with rfl | rfl | rfl <;> first | rfl | trivial
  · intro o ho
    simp only [List.mem_cons, List.not_mem_nil, or_false] at ho
    rcases ho with rfl | rfl | rfl <;> trivial
  · intro o ho
    simp only [List.mem_cons, List.not_mem_nil, or_false] at ho
    rcases ho with rfl | rfl | rfl <;> first | rfl | trivial

/-- sanity (evaluation, not a proof): a concrete run in which channel 1's level trigger fires publishes one
record for it; the record is the stream excerpt and its analysis values are those of the excerpt -/
def exOps : List Op :=
  [.block 100 0 1000 [false, false] [[1, 2, 3, 4, 5, 6, 7, 8, 9, 10], [4, 4, 4, 4, 4, 4, 50, 60, 70, 40]],
   .gadd [(0, 1)], .block 110 10000 1000 [false, false] [[7, 7, 7, 7, 7, 7], [8, 8, 8, 8, 8, 8]]]

#guard ((runOps [] (prepare 2 3 6 [(1, { level := true, levelRising := true, levelLevel := 20 })]) exOps).map
    fun o => (chanRecs 1 o).map fun r =>
      (r.frame, r.data, streamExcerpt 1 exOps 100 3 6 r.frame, ptmOf r.data r.npre r.signed,
        avgOf r.data r.npre r.signed, peakOf r.data r.npre r.signed)) ==
  some [(106, [4, 4, 4, 50, 60, 70], [4, 4, 4, 50, 60, 70], 4, 56, some 66)]

end DastardV.Compose
