/-
C17 — `skeleton_ok` (Lemmas/C17Skel.lean): the simp set that unfolds the token-set predicates.
-/
import Lean
register_simp_attr c17set
