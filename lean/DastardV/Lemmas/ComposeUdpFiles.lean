/-
UDP datagrams → files (C15 ∘ the UDP reader goroutine ∘ C03 ∘ C01/C02 ∘ C05): what the sender put on the wire
as UDP datagrams is what ends up in the LJH files.

`ComposeUdp` speaks about the concatenation of everything the reader goroutine of `AbacoUDPReceiver` has
queued.  The ingest (C03) works tick by tick: it needs to know what EACH `ReadAllPackets` call returned.

* A. the consumer side: `ReadAllPackets` hands out, at each call, everything queued since the previous call.
  A history is the list of the datagram lists received between consecutive calls (`batches`); `recvTicks`
  is what the goroutine queued from each batch — the ONE receive buffer carries over from batch to batch
  (`bufAfter`), and so does the end of the goroutine.  `recvTicks_flatten`: batching does not change what is
  queued (unconditionally: the model of the ticks also carries the end of the goroutine over).
* B. `udp_ticks_are_sent`: tick by tick, the receiver hands the ingest exactly the packets sent between two
  calls; `udp_history_eq_sent` (one receiver), `udps_history_eq_sent` (`n` receivers read in the same tick).
* C. `udp_to_ljh22_files`, `udps_to_ljh22_files`: `Compose.abaco_packets_to_files` with every hypothesis stated
  about what the SENDER put on the wire, and the conclusion about what the receiver handed out.
* D. junk: `udp_junk_is_dropped` (datagrams that `ReadPacket` rejects when they arrive, interleaved in any
  way with encodings of sendable packets, do not change what is queued), per tick `udp_junk_ticks_are_sent`,
  and `udp_junk_to_ljh22_files`.
* E. non-vacuity.
-/
import DastardV.Lemmas.ComposeUdp
import DastardV.Lemmas.ComposeEndToEnd
import DastardV.Lemmas.ComposeRingFiles
namespace DastardV.UdpPk
open C15 RingPk

/-! ### A. what each `ReadAllPackets` call returns -/

/-- the receive buffer after the datagrams `ms` were received into it, one after the other -/
def bufAfter (ms : List (List Nat)) (buf : List Nat) : List Nat := ms.foldl fill buf

/-- `batches` = the datagrams received between consecutive `ReadAllPackets` calls; tick `k` = what the
goroutine queued from batch `k`, i.e. what the k-th call returns.  The buffer carries over from batch to
batch; once the goroutine has ended (`(recvF …).2 = true`, unreachable) nothing is queued any more. -/
def recvTicks : List (List (List Nat)) → List Nat → List (List Packet)
  | [], _ => []
  | b :: bs, buf =>
    (recvF b buf).1 ::
      (if (recvF b buf).2 then bs.map (fun _ => []) else recvTicks bs (bufAfter b buf))

/-- the goroutine started by `AbacoUDPReceiver.start` (zeroed 8192-byte buffer) -/
def ticksOf (batches : List (List (List Nat))) : List (List Packet) :=
  recvTicks batches (List.replicate bufSize 0)

/-- `ReadFrom` never changes the size of the buffer (a longer datagram is truncated) -/
theorem fill_length' (buf msg : List Nat) : (fill buf msg).length = buf.length := by
  unfold fill
  simp only [List.length_append, List.length_take, List.length_drop]
  omega

theorem bufAfter_nil (buf : List Nat) : bufAfter [] buf = buf := rfl

theorem bufAfter_cons (m : List Nat) (ms : List (List Nat)) (buf : List Nat) :
    bufAfter (m :: ms) buf = bufAfter ms (fill buf m) := rfl

theorem bufAfter_append (a b : List (List Nat)) (buf : List Nat) :
    bufAfter (a ++ b) buf = bufAfter b (bufAfter a buf) := by
  unfold bufAfter; rw [List.foldl_append]

theorem bufAfter_length (ms : List (List Nat)) : ∀ buf, (bufAfter ms buf).length = buf.length := by
  induction ms with
  | nil => intro buf; rfl
  | cons m ms ih => intro buf; rw [bufAfter_cons, ih, fill_length']

theorem recvTicks_length (batches : List (List (List Nat))) :
    ∀ buf, (recvTicks batches buf).length = batches.length := by
  induction batches with
  | nil => intro buf; rfl
  | cons b bs ih =>
    intro buf
    simp only [recvTicks, List.length_cons]
    split
    · simp
    · rw [ih]

/-- the goroutine on two datagram lists, one after the other -/
theorem recvF_append (a b : List (List Nat)) : ∀ buf,
    recvF (a ++ b) buf =
      if (recvF a buf).2 then recvF a buf
      else ((recvF a buf).1 ++ (recvF b (bufAfter a buf)).1, (recvF b (bufAfter a buf)).2) := by
  induction a with
  | nil => intro buf; simp [recvF, bufAfter]
  | cons m ms ih =>
    intro buf
    rw [List.cons_append, bufAfter_cons]
    rcases h : decodeC (fill buf m) with ⟨e | p, n⟩
    · cases e
      · simp only [recvF, h]; rfl
      · simp only [recvF, h, ih]
      · simp only [recvF, h, ih]
    · simp only [recvF, h, ih]
      by_cases h2 : (recvF ms (fill buf m)).2 = true
      · simp [h2]
      · simp [h2]

theorem flatten_map_nil {α β : Type} (l : List β) : (l.map fun _ => ([] : List α)).flatten = [] := by
  induction l with
  | nil => rfl
  | cons x l ih => simp

/-- **batching does not change what is queued**: the concatenation of what the `ReadAllPackets` calls return
is what the goroutine queues from all the datagrams — whether or not the goroutine ends -/
theorem recvTicks_flatten : ∀ (batches : List (List (List Nat))) (buf : List Nat),
    (recvTicks batches buf).flatten = (recvF batches.flatten buf).1
  | [], _ => rfl
  | b :: bs, buf => by
    rw [List.flatten_cons, recvF_append]
    simp only [recvTicks, List.flatten_cons]
    by_cases h : (recvF b buf).2 = true
    · simp [h, flatten_map_nil]
    · simp [h, recvTicks_flatten bs]

theorem ticksOf_flatten (batches : List (List (List Nat))) :
    (ticksOf batches).flatten = (recv batches.flatten).1 :=
  recvTicks_flatten batches _

/-! ### B. tick by tick, what is handed out is what was sent -/

/-- for any previous content of the buffer -/
theorem udp_ticks_buf : ∀ (B : List (List Packet)) (buf : List Nat),
    (∀ ps ∈ B, ∀ p ∈ ps, Sendable p ∧ (encB p).length ≤ buf.length) →
    recvTicks (B.map (·.map encB)) buf = B.map (·.map rt)
  | [], _, _ => rfl
  | ps :: B, buf, h => by
    have h1 := udp_packets_fifo_buf ps buf (h ps (by simp))
    have hl : (bufAfter (ps.map encB) buf).length = buf.length := bufAfter_length _ _
    have ih := udp_ticks_buf B (bufAfter (ps.map encB) buf)
      (fun qs hqs p hp => by rw [hl]; exact h qs (by simp [hqs]) p hp)
    simp only [List.map_cons, recvTicks, h1, ih]
    simp

/-- the k-th `ReadAllPackets` call returns the decodings of the packets sent between call k-1 and call k -/
theorem udp_ticks_rt (B : List (List Packet))
    (h : ∀ ps ∈ B, ∀ p ∈ ps, Sendable p ∧ (encB p).length ≤ bufSize) :
    ticksOf (B.map (·.map encB)) = B.map (·.map rt) :=
  udp_ticks_buf B _ (fun ps hps p hp => by simpa using h ps hps p hp)

/-- **tick by tick, the receiver hands the ingest exactly the packets sent between two calls** -/
theorem udp_ticks_are_sent (B : List (List Packet))
    (h : ∀ ps ∈ B, ∀ p ∈ ps, Sendable p ∧ p.data.len ≠ 0 ∧ (encB p).length ≤ bufSize) :
    (recvTicks (B.map (·.map encB)) (List.replicate bufSize 0)).map (·.map Compose.toIngest)
      = B.map (·.map Compose.toIngest) := by
  have h1 := udp_ticks_rt B (fun ps hps p hp => ⟨(h ps hps p hp).1, (h ps hps p hp).2.2⟩)
  unfold ticksOf at h1
  rw [h1, List.map_map]
  apply List.map_congr_left
  intro ps hps
  exact map_rt_toIngest ps (fun p hp => ⟨(h ps hps p hp).1, (h ps hps p hp).2.1⟩)

/-- … and the goroutine does not end -/
theorem udp_ticks_not_ended (B : List (List Packet))
    (h : ∀ ps ∈ B, ∀ p ∈ ps, Sendable p ∧ (encB p).length ≤ bufSize) :
    (recv (B.map (·.map encB)).flatten).2 = false := by
  have e : (B.map (·.map encB)).flatten = B.flatten.map encB := by
    rw [List.map_flatten]
  rw [e, udp_packets_fifo B.flatten (fun p hp => by
    obtain ⟨ps, hps, hpp⟩ := List.mem_flatten.mp hp
    exact h ps hps p hpp)]

/-- ONE receiver (one sender, one channel group): the packet history the ingest works on — tick k = the k-th
`ReadAllPackets` call, one producer per tick; `B` = the packets sent between consecutive calls -/
def historyOf (B : List (List Packet)) : List (List (List C03.Pkt)) :=
  (recvTicks (B.map (·.map encB)) (List.replicate bufSize 0)).map fun ps => [ps.map Compose.toIngest]

/-- the history of what the sender SENT (no receiver, no buffer in the definition) -/
def sentHistory (B : List (List Packet)) : List (List (List C03.Pkt)) :=
  B.map fun ps => [ps.map Compose.toIngest]

/-- the hypotheses on what is sent: constructible packets with a payload whose encodings fit a datagram of
the receive buffer's size -/
def SentOK (B : List (List Packet)) : Prop :=
  ∀ ps ∈ B, ∀ p ∈ ps, Sendable p ∧ p.data.len ≠ 0 ∧ (encB p).length ≤ bufSize

/-- **the history the receiver handed out is the history that was sent** -/
theorem udp_history_eq_sent (B : List (List Packet)) (h : SentOK B) : historyOf B = sentHistory B := by
  have e := congrArg (List.map fun (y : List C03.Pkt) => [y]) (udp_ticks_are_sent B h)
  rw [List.map_map, List.map_map] at e
  exact e

/-- `n` receivers (one sender, one channel group each) read in the same tick, for `T` ticks
(`RingPk.ticksOf`: the transpose, `[]` for a receiver with fewer than `T` batches) -/
def historyOfN (T : Nat) (Bs : List (List (List Packet))) : List (List (List C03.Pkt)) :=
  RingPk.ticksOf T (Bs.map fun B => (ticksOf (B.map (·.map encB))).map (·.map Compose.toIngest))

/-- the history of what the `n` senders sent -/
def sentHistoryN (T : Nat) (Bs : List (List (List Packet))) : List (List (List C03.Pkt)) :=
  RingPk.ticksOf T (Bs.map fun B => B.map (·.map Compose.toIngest))

/-- **`n` receivers: the history handed out is the history that was sent** -/
theorem udps_history_eq_sent (T : Nat) (Bs : List (List (List Packet))) (h : ∀ B ∈ Bs, SentOK B) :
    historyOfN T Bs = sentHistoryN T Bs := by
  unfold historyOfN sentHistoryN
  congr 1
  apply List.map_congr_left
  intro B hB
  exact udp_ticks_are_sent B (h B hB)

/-- one receiver is the case `n = 1` -/
theorem historyOfN_single (B : List (List Packet)) : historyOfN B.length [B] = historyOf B := by
  have hl : B.length = ((ticksOf (B.map (·.map encB))).map (·.map Compose.toIngest)).length := by
    rw [List.length_map, ticksOf, recvTicks_length, List.length_map]
  unfold historyOfN historyOf
  simp only [List.map_cons, List.map_nil]
  rw [hl, ticksOf_single, List.map_map]
  rfl

theorem sentHistoryN_single (B : List (List Packet)) : sentHistoryN B.length [B] = sentHistory B := by
  have hl : B.length = (B.map (·.map Compose.toIngest)).length := by rw [List.length_map]
  unfold sentHistoryN sentHistory
  simp only [List.map_cons, List.map_nil]
  rw [hl, ticksOf_single, List.map_map]
  rfl

/-! ### C. what is sent as UDP datagrams is what ends up in the files -/

open Compose Pipe in
/-- **UDP datagrams → LJH 2.2 files.**  One sender that puts one constructible packet with a payload per
datagram on the wire (each of at most 8192 bytes), the Abaco UDP receiver's goroutine receiving them into its
one reusable buffer, the reader calling `ReadAllPackets` whenever it likes: `B` = the packets sent between
consecutive calls.  Every hypothesis is about what the SENDER sent (`sentHistory`: neither the buffer nor the
goroutine occurs in it): the sent history is one the ingest theorems cover (`validIn`: numbers increasing,
payload sizes right — losses allowed), and the ingest run on it yields the blocks `outs`.  Then: the goroutine
does not end; the history the receiver actually handed out is valid, and the ingest run on it yields the same
state and the same blocks `outs`; the source processes these blocks without a panic, and every channel's
LJH 2.2 file over that period reads back as exactly the channel's published records. -/
theorem udp_to_ljh22_files (B : List (List Packet)) (hsend : SentOK B)
    (fpp : Nat) (L : List C03.GL) (f0 : Int) (hf0 : 0 ≤ f0)
    (gs : List C03.Group) (perms : List (List Nat))
    (hv : C03.validIn fpp L (sentHistory B) = true) (hi : C03.InitOK L gs)
    (hp : C03.PermsOK L.length (sentHistory B) perms)
    (s' : C03.St) (outs : List (Nat × C03.Block))
    (hrun : C03.runFrom 0 (C03.startSt gs f0) (sentHistory B) perms = .ok (s', outs))
    (mk : C03.Block → Int × Int × List Bool)
    (npre nsamp : Int) (hlen : 3 ≤ npre ∧ npre < nsamp) (saved : List (Nat × Trig.TS))
    (zts : List (List (Int × Int)))
    (hzt : ∀ (j : Nat) (p : Int), -1 ≤ Pipe.ztOf (zts[j]?.getD []) p ∧ Pipe.ztOf (zts[j]?.getD []) p ≤ 1) :
    (recv (B.map (·.map encB)).flatten).2 = false ∧
    C03.validIn fpp L (historyOf B) = true ∧
    C03.runFrom 0 (C03.startSt gs f0) (historyOf B) perms = .ok (s', outs) ∧
    ∃ res, runOps zts (prepare ((L.map (·.nchan)).sum) npre nsamp saved) ((outs.map (·.2)).map (blockOp mk)) = some res ∧
      ∀ (j : Nat), j < (L.map (·.nchan)).sum →
        (∀ r ∈ chanRecs j res, (r.data.length : Int) = nsamp ∧ r.npre = npre) ∧
        ∀ (p : C05.Params) (hdr : C05.Bytes), p.nsamp = nsamp →
        ∀ (batches : List (List C05.W22)), batches.flatten = (chanRecs j res).map toW22 →
          let recs := chanRecs j res
          let fin := C05.run (C05.fmt22 p hdr) {} (fileOps batches)
          (recs = [] → C05.fileOf fin = none) ∧
          (recs ≠ [] → ∃ file, C05.fileOf fin = some file ∧ file.take hdr.length = hdr ∧
            C05.parseBody (C05.parseLJH22 p.nsamp.toNat 2) (file.drop hdr.length) =
              some (recs.map fun r => C05.expect22 p.subdiv p.suboff (toW22 r)) ∧
            file.length = hdr.length + recs.length * (16 + p.nsamp.toNat * 2)) := by
  have hok := udp_ticks_not_ended B (fun ps hps p hp => ⟨(hsend ps hps p hp).1, (hsend ps hps p hp).2.2⟩)
  have hH := udp_history_eq_sent B hsend
  rw [← hH] at hv hp hrun
  exact ⟨hok, hv, hrun,
    abaco_packets_to_files fpp L f0 hf0 _ gs perms hv hi hp s' outs hrun mk npre nsamp hlen saved zts hzt⟩

open Compose Pipe in
/-- **`n` UDP receivers → LJH 2.2 files**: `n` receivers (one sender, one channel group each) read once per
tick for `T` ticks; every hypothesis is about what the senders sent (`sentHistoryN`) -/
theorem udps_to_ljh22_files (T : Nat) (Bs : List (List (List Packet))) (hsend : ∀ B ∈ Bs, SentOK B)
    (fpp : Nat) (L : List C03.GL) (f0 : Int) (hf0 : 0 ≤ f0)
    (gs : List C03.Group) (perms : List (List Nat))
    (hv : C03.validIn fpp L (sentHistoryN T Bs) = true) (hi : C03.InitOK L gs)
    (hp : C03.PermsOK L.length (sentHistoryN T Bs) perms)
    (s' : C03.St) (outs : List (Nat × C03.Block))
    (hrun : C03.runFrom 0 (C03.startSt gs f0) (sentHistoryN T Bs) perms = .ok (s', outs))
    (mk : C03.Block → Int × Int × List Bool)
    (npre nsamp : Int) (hlen : 3 ≤ npre ∧ npre < nsamp) (saved : List (Nat × Trig.TS))
    (zts : List (List (Int × Int)))
    (hzt : ∀ (j : Nat) (p : Int), -1 ≤ Pipe.ztOf (zts[j]?.getD []) p ∧ Pipe.ztOf (zts[j]?.getD []) p ≤ 1) :
    (∀ B ∈ Bs, (recv (B.map (·.map encB)).flatten).2 = false) ∧
    C03.validIn fpp L (historyOfN T Bs) = true ∧
    C03.runFrom 0 (C03.startSt gs f0) (historyOfN T Bs) perms = .ok (s', outs) ∧
    ∃ res, runOps zts (prepare ((L.map (·.nchan)).sum) npre nsamp saved) ((outs.map (·.2)).map (blockOp mk)) = some res ∧
      ∀ (j : Nat), j < (L.map (·.nchan)).sum →
        (∀ r ∈ chanRecs j res, (r.data.length : Int) = nsamp ∧ r.npre = npre) ∧
        ∀ (p : C05.Params) (hdr : C05.Bytes), p.nsamp = nsamp →
        ∀ (batches : List (List C05.W22)), batches.flatten = (chanRecs j res).map toW22 →
          let recs := chanRecs j res
          let fin := C05.run (C05.fmt22 p hdr) {} (fileOps batches)
          (recs = [] → C05.fileOf fin = none) ∧
          (recs ≠ [] → ∃ file, C05.fileOf fin = some file ∧ file.take hdr.length = hdr ∧
            C05.parseBody (C05.parseLJH22 p.nsamp.toNat 2) (file.drop hdr.length) =
              some (recs.map fun r => C05.expect22 p.subdiv p.suboff (toW22 r)) ∧
            file.length = hdr.length + recs.length * (16 + p.nsamp.toNat * 2)) := by
  have hok : ∀ B ∈ Bs, (recv (B.map (·.map encB)).flatten).2 = false := fun B hB =>
    udp_ticks_not_ended B (fun ps hps p hp => ⟨(hsend B hB ps hps p hp).1, (hsend B hB ps hps p hp).2.2⟩)
  have hH := udps_history_eq_sent T Bs hsend
  rw [← hH] at hv hp hrun
  exact ⟨hok, hv, hrun,
    abaco_packets_to_files fpp L f0 hf0 _ gs perms hv hi hp s' outs hrun mk npre nsamp hlen saved zts hzt⟩

/-! ### D. junk datagrams are dropped -/

/-- a datagram on the wire: the encoding of a packet, or any other bytes -/
inductive Dg where
  | pk (p : Packet)
  | junk (j : List Nat)

def Dg.bytes : Dg → List Nat
  | .pk p => encB p
  | .junk j => j

/-- the packets of a datagram stream, without the junk -/
def sentOf : List Dg → List Packet
  | [] => []
  | .pk p :: r => p :: sentOf r
  | .junk _ :: r => sentOf r

/-- `ReadPacket` on the buffer `buf` after receiving `j` into it returns an error other than `io.EOF` -/
def RejectedAt (buf j : List Nat) : Prop :=
  ∃ e n, decodeC (fill buf j) = (.error e, n) ∧ e ≠ .eof

/-- a decidable form of `RejectedAt`, for concrete runs -/
def isRejection : Except Err Packet × Nat → Bool
  | (.error .short, _) => true
  | (.error .bad, _) => true
  | _ => false

theorem rejectedAt_of_isRejection (buf j : List Nat) (h : isRejection (decodeC (fill buf j)) = true) :
    RejectedAt buf j := by
  unfold RejectedAt
  rcases hd : decodeC (fill buf j) with ⟨e | p, n⟩
  · cases e
    · rw [hd] at h; cases h
    · exact ⟨_, _, rfl, by decide⟩
    · exact ⟨_, _, rfl, by decide⟩
  · rw [hd] at h; cases h

/-- a predicate on the run: every junk datagram of the stream is rejected WHEN IT ARRIVES (on the buffer as
the datagrams before it left it) -/
def JunkRejected : List Dg → List Nat → Prop
  | [], _ => True
  | .pk p :: r, buf => JunkRejected r (fill buf (encB p))
  | .junk j :: r, buf => RejectedAt buf j ∧ JunkRejected r (fill buf j)

/-- every packet of the stream is sendable and its encoding fits the buffer -/
def PksOK (ds : List Dg) : Prop := ∀ p, Dg.pk p ∈ ds → Sendable p ∧ (encB p).length ≤ bufSize

theorem sentOf_mem (ds : List Dg) : ∀ p, p ∈ sentOf ds ↔ Dg.pk p ∈ ds := by
  induction ds with
  | nil => intro p; simp [sentOf]
  | cons d r ih =>
    intro p
    cases d with
    | pk q => simp [sentOf, ih]
    | junk j => simp [sentOf, ih]

theorem sentOf_append (a b : List Dg) : sentOf (a ++ b) = sentOf a ++ sentOf b := by
  induction a with
  | nil => rfl
  | cons d r ih => cases d <;> simp [sentOf, ih]

/-- for any previous content of the 8192-byte buffer -/
theorem udp_junk_is_dropped_buf : ∀ (ds : List Dg) (buf : List Nat), buf.length = bufSize → PksOK ds →
    JunkRejected ds buf → recvF (ds.map Dg.bytes) buf = ((sentOf ds).map rt, false)
  | [], _, _, _, _ => rfl
  | .pk p :: r, buf, hb, hp, hj => by
    obtain ⟨hs, hl⟩ := hp p (by simp)
    obtain ⟨_, hd, _⟩ := enc_rt p hs
    have hl' : (encB p).length ≤ buf.length := by rw [hb]; exact hl
    have hdec : decodeC (fill buf (encB p)) = (.ok (rt p), (encB p).length) := by
      rw [fill_of_fits buf (encB p) hl']; exact decodeC_append _ _ _ _ hd
    have ih := udp_junk_is_dropped_buf r (fill buf (encB p)) (by rw [fill_length', hb])
      (fun q hq => hp q (by simp [hq])) hj
    simp only [List.map_cons, Dg.bytes, sentOf, recvF, hdec, ih]
  | .junk j :: r, buf, hb, hp, hj => by
    obtain ⟨⟨e, n, hd, hne⟩, hj'⟩ := hj
    have ih := udp_junk_is_dropped_buf r (fill buf j) (by rw [fill_length', hb])
      (fun q hq => hp q (by simp [hq])) hj'
    cases e with
    | eof => exact absurd rfl hne
    | short => simp only [List.map_cons, Dg.bytes, sentOf, recvF, hd, ih]
    | bad => simp only [List.map_cons, Dg.bytes, sentOf, recvF, hd, ih]

/-- **junk is dropped.**  A datagram stream in which encodings of sendable packets (≤ 8192 bytes each) are
interleaved in any way with datagrams that `ReadPacket` rejects when they arrive (`JunkRejected`, a predicate
on the run from the zeroed buffer; the rejected datagrams may be of any length and may leave anything in the
buffer): the goroutine does not end, and what it queues is exactly what it queues from the stream without
the junk — the decodings of the packets, one per packet datagram, in order. -/
theorem udp_junk_is_dropped (ds : List Dg) (hp : PksOK ds)
    (hj : JunkRejected ds (List.replicate bufSize 0)) :
    recv (ds.map Dg.bytes) = ((sentOf ds).map rt, false) ∧
    recv (ds.map Dg.bytes) = recv ((sentOf ds).map encB) := by
  have h1 : recv (ds.map Dg.bytes) = ((sentOf ds).map rt, false) :=
    udp_junk_is_dropped_buf ds _ (by simp) hp hj
  refine ⟨h1, ?_⟩
  rw [h1, udp_packets_fifo (sentOf ds) (fun p h => hp p ((sentOf_mem ds p).mp h))]

/-- a datagram that `ReadPacket` rejects whatever the 8192-byte buffer held before (e.g. 16 or more bytes
with a header length below 16 or a wrong magic number: the header decides) -/
def Rejected (j : List Nat) : Prop := ∀ buf : List Nat, buf.length = bufSize → RejectedAt buf j

theorem junkRejected_of_rejected : ∀ (ds : List Dg) (buf : List Nat), buf.length = bufSize →
    (∀ j, Dg.junk j ∈ ds → Rejected j) → JunkRejected ds buf
  | [], _, _, _ => trivial
  | .pk p :: r, buf, hb, h =>
    junkRejected_of_rejected r _ (by rw [fill_length', hb]) (fun j hj => h j (by simp [hj]))
  | .junk j :: r, buf, hb, h =>
    ⟨h j (by simp) buf hb,
     junkRejected_of_rejected r _ (by rw [fill_length', hb]) (fun j' hj => h j' (by simp [hj]))⟩

/-- the clean special case: junk datagrams that are rejected on ANY buffer content -/
theorem udp_junk_is_dropped_always (ds : List Dg) (hp : PksOK ds) (hj : ∀ j, Dg.junk j ∈ ds → Rejected j) :
    recv (ds.map Dg.bytes) = ((sentOf ds).map rt, false) ∧
    recv (ds.map Dg.bytes) = recv ((sentOf ds).map encB) :=
  udp_junk_is_dropped ds hp (junkRejected_of_rejected ds _ (by simp) hj)

theorem junkRejected_append : ∀ (a b : List Dg) (buf : List Nat),
    JunkRejected (a ++ b) buf ↔ JunkRejected a buf ∧ JunkRejected b (bufAfter (a.map Dg.bytes) buf)
  | [], b, buf => by simp [JunkRejected, bufAfter]
  | .pk p :: r, b, buf => by
    simp only [List.cons_append, JunkRejected, List.map_cons, bufAfter_cons, Dg.bytes]
    exact junkRejected_append r b _
  | .junk j :: r, b, buf => by
    simp only [List.cons_append, JunkRejected, List.map_cons, bufAfter_cons, Dg.bytes]
    rw [junkRejected_append r b _, and_assoc]

/-- per tick, for any previous content of the buffer -/
theorem udp_junk_ticks_buf : ∀ (D : List (List Dg)) (buf : List Nat), buf.length = bufSize →
    PksOK D.flatten → JunkRejected D.flatten buf →
    recvTicks (D.map (·.map Dg.bytes)) buf = D.map fun ds => (sentOf ds).map rt
  | [], _, _, _, _ => rfl
  | ds :: D, buf, hb, hp, hj => by
    rw [List.flatten_cons] at hp hj
    obtain ⟨hj1, hj2⟩ := (junkRejected_append ds D.flatten buf).mp hj
    have h1 := udp_junk_is_dropped_buf ds buf hb (fun p h => hp p (by simp [h])) hj1
    have ih := udp_junk_ticks_buf D (bufAfter (ds.map Dg.bytes) buf) (by rw [bufAfter_length, hb])
      (fun p h => hp p (by simp [h])) hj2
    simp only [List.map_cons, recvTicks, h1, ih]
    simp

/-- **tick by tick with junk on the wire**: `D` = the datagrams (packets and junk) received between
consecutive `ReadAllPackets` calls; the k-th call hands the ingest exactly the packets sent between call k-1
and call k -/
theorem udp_junk_ticks_are_sent (D : List (List Dg))
    (hp : PksOK D.flatten) (hne : ∀ p, Dg.pk p ∈ D.flatten → p.data.len ≠ 0)
    (hj : JunkRejected D.flatten (List.replicate bufSize 0)) :
    (ticksOf (D.map (·.map Dg.bytes))).map (·.map Compose.toIngest)
      = (D.map sentOf).map (·.map Compose.toIngest) := by
  unfold ticksOf
  rw [udp_junk_ticks_buf D _ (by simp) hp hj, List.map_map, List.map_map]
  apply List.map_congr_left
  intro ds hds
  have hm : ∀ p ∈ sentOf ds, Dg.pk p ∈ D.flatten := fun p h =>
    List.mem_flatten.mpr ⟨ds, hds, (sentOf_mem ds p).mp h⟩
  exact map_rt_toIngest (sentOf ds) (fun p h => ⟨(hp p (hm p h)).1, hne p (hm p h)⟩)

/-- the history the receiver hands out when junk is on the wire too -/
def historyOfDg (D : List (List Dg)) : List (List (List C03.Pkt)) :=
  (ticksOf (D.map (·.map Dg.bytes))).map fun ps => [ps.map Compose.toIngest]

theorem udp_junk_history_eq_sent (D : List (List Dg))
    (hp : PksOK D.flatten) (hne : ∀ p, Dg.pk p ∈ D.flatten → p.data.len ≠ 0)
    (hj : JunkRejected D.flatten (List.replicate bufSize 0)) :
    historyOfDg D = sentHistory (D.map sentOf) := by
  have e := congrArg (List.map fun (y : List C03.Pkt) => [y]) (udp_junk_ticks_are_sent D hp hne hj)
  rw [List.map_map, List.map_map] at e
  exact e

open Compose Pipe in
/-- **UDP datagrams with junk → LJH 2.2 files**: as `udp_to_ljh22_files`, with datagrams that `ReadPacket`
rejects when they arrive interleaved in any way; every hypothesis of the ingest is about the packets that
were sent (`sentHistory (D.map sentOf)`: the junk does not occur in it) -/
theorem udp_junk_to_ljh22_files (D : List (List Dg))
    (hpk : PksOK D.flatten) (hne : ∀ p, Dg.pk p ∈ D.flatten → p.data.len ≠ 0)
    (hj : JunkRejected D.flatten (List.replicate bufSize 0))
    (fpp : Nat) (L : List C03.GL) (f0 : Int) (hf0 : 0 ≤ f0)
    (gs : List C03.Group) (perms : List (List Nat))
    (hv : C03.validIn fpp L (sentHistory (D.map sentOf)) = true) (hi : C03.InitOK L gs)
    (hp : C03.PermsOK L.length (sentHistory (D.map sentOf)) perms)
    (s' : C03.St) (outs : List (Nat × C03.Block))
    (hrun : C03.runFrom 0 (C03.startSt gs f0) (sentHistory (D.map sentOf)) perms = .ok (s', outs))
    (mk : C03.Block → Int × Int × List Bool)
    (npre nsamp : Int) (hlen : 3 ≤ npre ∧ npre < nsamp) (saved : List (Nat × Trig.TS))
    (zts : List (List (Int × Int)))
    (hzt : ∀ (j : Nat) (p : Int), -1 ≤ Pipe.ztOf (zts[j]?.getD []) p ∧ Pipe.ztOf (zts[j]?.getD []) p ≤ 1) :
    (recv (D.flatten.map Dg.bytes)).2 = false ∧
    C03.validIn fpp L (historyOfDg D) = true ∧
    C03.runFrom 0 (C03.startSt gs f0) (historyOfDg D) perms = .ok (s', outs) ∧
    ∃ res, runOps zts (prepare ((L.map (·.nchan)).sum) npre nsamp saved) ((outs.map (·.2)).map (blockOp mk)) = some res ∧
      ∀ (j : Nat), j < (L.map (·.nchan)).sum →
        (∀ r ∈ chanRecs j res, (r.data.length : Int) = nsamp ∧ r.npre = npre) ∧
        ∀ (p : C05.Params) (hdr : C05.Bytes), p.nsamp = nsamp →
        ∀ (batches : List (List C05.W22)), batches.flatten = (chanRecs j res).map toW22 →
          let recs := chanRecs j res
          let fin := C05.run (C05.fmt22 p hdr) {} (fileOps batches)
          (recs = [] → C05.fileOf fin = none) ∧
          (recs ≠ [] → ∃ file, C05.fileOf fin = some file ∧ file.take hdr.length = hdr ∧
            C05.parseBody (C05.parseLJH22 p.nsamp.toNat 2) (file.drop hdr.length) =
              some (recs.map fun r => C05.expect22 p.subdiv p.suboff (toW22 r)) ∧
            file.length = hdr.length + recs.length * (16 + p.nsamp.toNat * 2)) := by
  have hok : (recv (D.flatten.map Dg.bytes)).2 = false := by
    rw [(udp_junk_is_dropped D.flatten hpk hj).1]
  have hH := udp_junk_history_eq_sent D hpk hne hj
  rw [← hH] at hv hp hrun
  exact ⟨hok, hv, hrun,
    abaco_packets_to_files fpp L f0 hf0 _ gs perms hv hi hp s' outs hrun mk npre nsamp hlen saved zts hzt⟩

/-! ### E. non-vacuity -/

/-- two `ReadAllPackets` calls: `pkA` arrives before the first, `pkB` and `pkA` between the two -/
def B2 : List (List Packet) := [[pkA], [pkB, pkA]]

theorem B2_ok : SentOK B2 := by
  intro ps hps p hp
  simp only [B2, List.mem_cons, List.not_mem_nil, or_false] at hps
  rcases hps with rfl | rfl
  · simp only [List.mem_cons, List.not_mem_nil, or_false] at hp
    subst hp
    exact ⟨pkA_sendable.1, pkA_sendable.2, by decide +kernel⟩
  · simp only [List.mem_cons, List.not_mem_nil, or_false] at hp
    rcases hp with rfl | rfl
    · exact ⟨pkB_sendable.1, pkB_sendable.2, by decide +kernel⟩
    · exact ⟨pkA_sendable.1, pkA_sendable.2, by decide +kernel⟩

/-- the hypotheses of `udp_ticks_are_sent` / `udp_history_eq_sent` are satisfiable … -/
example : historyOf B2 = [[[Compose.toIngest pkA]], [[Compose.toIngest pkB, Compose.toIngest pkA]]] :=
  udp_history_eq_sent B2 B2_ok

/-- … and the model computes the same (the second tick starts on the buffer `pkA` left: the 80-byte `pkB`
overwrites the 48 bytes of `pkA`, then `pkA` is received over the head of `pkB`) -/
example : (ticksOf (B2.map (·.map encB))).map (·.map Compose.toIngest)
    = [[Compose.toIngest pkA], [Compose.toIngest pkB, Compose.toIngest pkA]] ∧
    (ticksOf (B2.map (·.map encB))).map (·.map (·.seq)) = [[8], [9, 8]] := by decide +kernel

/-- 16 zero bytes: header length 0 < 16, rejected whatever the buffer held -/
def junk16 : List Nat := List.replicate 16 0

theorem junk16_rejected : Rejected junk16 := by
  intro buf hb
  refine ⟨.bad, 16, ?_, by decide⟩
  rw [fill_of_fits buf junk16 (by rw [hb]; decide)]
  rfl

/-- junk between and after the packets, in two batches; a SHORT datagram (3 bytes: the rest of the header is
what `pkA` left in the buffer — the stale tail) is rejected when it arrives here, which `JunkRejected`
expresses and `Rejected` cannot -/
def D2 : List (List Dg) := [[.junk junk16, .pk pkA, .junk [1, 2, 3]], [.pk pkB, .junk junk16, .pk pkA]]

theorem D2_pks : PksOK D2.flatten ∧ ∀ p, Dg.pk p ∈ D2.flatten → p.data.len ≠ 0 := by
  have h : ∀ p, Dg.pk p ∈ D2.flatten → p = pkA ∨ p = pkB := by
    intro p hp
    simp only [D2, List.flatten_cons, List.flatten_nil, List.cons_append, List.nil_append, List.append_nil,
      List.mem_cons, List.not_mem_nil, or_false, Dg.pk.injEq, reduceCtorEq, false_or] at hp
    rcases hp with rfl | rfl | rfl
    · exact Or.inl rfl
    · exact Or.inr rfl
    · exact Or.inl rfl
  refine ⟨fun p hp => ?_, fun p hp => ?_⟩
  · rcases h p hp with rfl | rfl
    · exact ⟨pkA_sendable.1, by decide +kernel⟩
    · exact ⟨pkB_sendable.1, by decide +kernel⟩
  · rcases h p hp with rfl | rfl
    · exact pkA_sendable.2
    · exact pkB_sendable.2

theorem D2_junk : JunkRejected D2.flatten (List.replicate bufSize 0) := by
  refine ⟨junk16_rejected _ (by simp), rejectedAt_of_isRejection _ _ (by decide +kernel),
    junk16_rejected _ (by simp [fill_length']), trivial⟩

/-- the hypotheses of `udp_junk_ticks_are_sent` are satisfiable: with the junk the ingest is handed, tick by
tick, what it is handed without -/
example : (ticksOf (D2.map (·.map Dg.bytes))).map (·.map Compose.toIngest)
    = [[Compose.toIngest pkA], [Compose.toIngest pkB, Compose.toIngest pkA]] :=
  udp_junk_ticks_are_sent D2 D2_pks.1 D2_pks.2 D2_junk

/-- outside the hypotheses: a short datagram that is NOT rejected when it arrives.  The first 20 bytes of
`pkA`'s encoding sent after `pkA`: the tail `pkA` left in the buffer completes them, and `pkA` is queued a
second time (behaviour of the code as it is) -/
example : ((recv [encB pkA, (encB pkA).take 20]).1.map (·.seq)) = [8, 8] := by decide +kernel

/-! the whole chain on a concrete datagram history: that of `ComposeRingFiles.evs3` (one group of 4 channels;
three ticks: `pkA` / nothing / `pkC`, `pkD`; packet number 10 lost before the sender) -/

def B3 : List (List Packet) := [[pkA], [], [pkC, pkD]]

theorem B3_ok : SentOK B3 := by
  intro ps hps p hp
  simp only [B3, List.mem_cons, List.not_mem_nil, or_false] at hps
  rcases hps with rfl | rfl | rfl
  · simp only [List.mem_cons, List.not_mem_nil, or_false] at hp
    subst hp
    exact ⟨pkA_sendable.1, pkA_sendable.2, by decide +kernel⟩
  · cases hp
  · simp only [List.mem_cons, List.not_mem_nil, or_false] at hp
    rcases hp with rfl | rfl
    · exact ⟨pkC_sendable.1, pkC_sendable.2, by decide +kernel⟩
    · exact ⟨pkD_sendable.1, pkD_sendable.2, by decide +kernel⟩

theorem B3_written : sentHistory B3 = writtenHistory 1000 64 evs3 := by decide +kernel

/-- the hypotheses of `udp_to_ljh22_files` are jointly satisfiable (with a lost packet and an empty tick in
the history), and its conclusion for the concrete history: the receiver's history runs to the same blocks,
and the pipeline (record length 4, 3 pre-samples) processes them -/
example : ∃ s' outs res,
    C03.runFrom 0 (C03.startSt gs3 0) (sentHistory B3) perms3 = .ok (s', outs) ∧
    (recv (B3.map (·.map encB)).flatten).2 = false ∧
    C03.runFrom 0 (C03.startSt gs3 0) (historyOf B3) perms3 = .ok (s', outs) ∧
    Pipe.runOps [] (Pipe.prepare ((L3.map (·.nchan)).sum) 3 4 []) ((outs.map (·.2)).map (Compose.blockOp fun _ => (0, 0, []))) = some res := by
  cases h : C03.runFrom 0 (C03.startSt gs3 0) (sentHistory B3) perms3 with
  | error e => have := evs3_runs; rw [← B3_written, h] at this; cases this
  | ok v =>
    obtain ⟨s', outs⟩ := v
    obtain ⟨hok, _, hr, res, hres, _⟩ := udp_to_ljh22_files B3 B3_ok 1 L3 0 (by decide) gs3 perms3
      (by rw [B3_written]; exact evs3_valid) evs3_init (by rw [B3_written]; exact evs3_perms) s' outs h
      (fun _ => (0, 0, [])) 3 4 (by decide) [] [] (by intro j p; simp [Pipe.ztOf])
    exact ⟨s', outs, res, rfl, hok, hr, hres⟩

end DastardV.UdpPk
