/-
Edge-multi: `emtSpecs` = scan loop + flush; the loop only reads the configuration fields of the
state; where the loop stops.
-/
import DastardV.Lemmas.EmtSim
namespace DastardV.Trig

/-- the configuration part of an edge-multi state (what the scan reads) -/
structure SameCfg (s s' : EMT) : Prop where
  threshold : s'.threshold = s.threshold
  nmonotone : s'.nmonotone = s.nmonotone
  enableZT : s'.enableZT = s.enableZT
  npre : s'.npre = s.npre
  nsamp : s'.nsamp = s.nsamp
  mode : s'.mode = s.mode

theorem SameCfg.refl (s : EMT) : SameCfg s s := ⟨rfl, rfl, rfl, rfl, rfl, rfl⟩

theorem emtLoop_congr (G : List Nat) (first : Int) (zt : ZT) (s s' : EMT) (hc : SameCfg s s') (iLast maxN : Int) :
    ∀ (n : Nat) (iFirst t u v : Int) (acc : List Spec), (iLast + maxN + 2 - iFirst).toNat ≤ n →
      emtLoop G first zt s' iLast maxN iFirst t u v acc = emtLoop G first zt s iLast maxN iFirst t u v acc := by
  obtain ⟨c1, c2, c3, c4, c5, c6⟩ := hc
  intro n
  induction n with
  | zero =>
    intro iFirst t u v acc hn
    conv => lhs; rw [emtLoop]
    conv => rhs; rw [emtLoop]
    rw [c1, c2, c3, c4, c5, c6]
    cases hx : findNext G first zt iFirst iLast s.threshold s.nmonotone maxN s.enableZT iFirst with
    | none => rfl
    | some x =>
      dsimp only
      split
      · rfl
      · split
        · rename_i g; omega
        · rfl
  | succ n ih =>
    intro iFirst t u v acc hn
    conv => lhs; rw [emtLoop]
    conv => rhs; rw [emtLoop]
    rw [c1, c2, c3, c4, c5, c6]
    cases hx : findNext G first zt iFirst iLast s.threshold s.nmonotone maxN s.enableZT iFirst with
    | none => rfl
    | some x =>
      dsimp only
      split
      · rfl
      · split
        · rename_i g
          exact ih _ _ _ _ _ (by omega)
        · rfl

/-- the loop stops at or beyond `iLast + 1`, and never before where it started -/
theorem emtLoop_pos (G : List Nat) (first : Int) (zt : ZT) (s : EMT) (iLast maxN : Int) :
    ∀ (n : Nat) (iFirst t u v : Int) (acc : List Spec) (r : Int × Int × Int × Int × List Spec),
      (iLast + maxN + 2 - iFirst).toNat ≤ n →
      emtLoop G first zt s iLast maxN iFirst t u v acc = some r → iLast + 1 ≤ r.1 ∧ iFirst ≤ r.1 := by
  intro n
  induction n with
  | zero =>
    intro iFirst t u v acc r hn h
    rw [emtLoop] at h
    cases hx : findNext G first zt iFirst iLast s.threshold s.nmonotone maxN s.enableZT iFirst with
    | none => simp [hx] at h
    | some x =>
      simp only [hx] at h
      by_cases hf : x.found = true
      · simp only [hf, Bool.not_true, Bool.false_eq_true, if_false] at h
        have g : ¬(iFirst < x.nextI ∧ x.nextI ≤ iLast + maxN + 1) := by omega
        simp only [g, dite_false] at h
        simp at h
      · have hf' : x.found = false := by simpa using hf
        simp only [hf', Bool.not_false, if_true, Option.some.injEq] at h
        subst h
        have hN := findNext_notfound G first zt iFirst iLast s.threshold s.nmonotone maxN s.enableZT _ iFirst x (Nat.le_refl _) hx hf'
        dsimp only
        rw [hN]; split <;> omega
  | succ n ih =>
    intro iFirst t u v acc r hn h
    rw [emtLoop] at h
    cases hx : findNext G first zt iFirst iLast s.threshold s.nmonotone maxN s.enableZT iFirst with
    | none => simp [hx] at h
    | some x =>
      simp only [hx] at h
      by_cases hf : x.found = true
      · simp only [hf, Bool.not_true, Bool.false_eq_true, if_false] at h
        by_cases g : iFirst < x.nextI ∧ x.nextI ≤ iLast + maxN + 1
        · simp only [g, and_self, dite_true] at h
          have := ih _ _ _ _ _ r (by omega) h
          omega
        · simp only [g, dite_false] at h
          simp at h
      · have hf' : x.found = false := by simpa using hf
        simp only [hf', Bool.not_false, if_true, Option.some.injEq] at h
        subst h
        have hN := findNext_notfound G first zt iFirst iLast s.threshold s.nmonotone maxN s.enableZT _ iFirst x (Nat.le_refl _) hx hf'
        dsimp only
        rw [hN]; split <;> omega

/-- whether the loop panics does not depend on the carried edges and accumulator -/
theorem emtLoop_some_indep (G : List Nat) (first : Int) (zt : ZT) (s : EMT) (iLast maxN : Int) :
    ∀ (n : Nat) (iFirst t u v : Int) (acc : List Spec) (t' u' v' : Int) (acc' : List Spec)
      (r : Int × Int × Int × Int × List Spec), (iLast + maxN + 2 - iFirst).toNat ≤ n →
      emtLoop G first zt s iLast maxN iFirst t u v acc = some r →
      ∃ r', emtLoop G first zt s iLast maxN iFirst t' u' v' acc' = some r' := by
  intro n
  induction n with
  | zero =>
    intro iFirst t u v acc t' u' v' acc' r hn h
    rw [emtLoop] at h ⊢
    cases hx : findNext G first zt iFirst iLast s.threshold s.nmonotone maxN s.enableZT iFirst with
    | none => simp [hx] at h
    | some x =>
      simp only [hx] at h ⊢
      by_cases hf : x.found = true
      · simp only [hf, Bool.not_true, Bool.false_eq_true, if_false] at h
        have g : ¬(iFirst < x.nextI ∧ x.nextI ≤ iLast + maxN + 1) := by omega
        simp only [g, dite_false] at h
        simp at h
      · have hf' : x.found = false := by simpa using hf
        simp only [hf', Bool.not_false, if_true]
        exact ⟨_, rfl⟩
  | succ n ih =>
    intro iFirst t u v acc t' u' v' acc' r hn h
    rw [emtLoop] at h ⊢
    cases hx : findNext G first zt iFirst iLast s.threshold s.nmonotone maxN s.enableZT iFirst with
    | none => simp [hx] at h
    | some x =>
      simp only [hx] at h ⊢
      by_cases hf : x.found = true
      · simp only [hf, Bool.not_true, Bool.false_eq_true, if_false] at h ⊢
        by_cases g : iFirst < x.nextI ∧ x.nextI ≤ iLast + maxN + 1
        · simp only [g, and_self, dite_true] at h ⊢
          exact ih _ _ _ _ _ _ _ _ _ r (by omega) h
        · simp only [g, dite_false] at h
          simp at h
      · have hf' : x.found = false := by simpa using hf
        simp only [hf', Bool.not_false, if_true]
        exact ⟨_, rfl⟩

/-- what a call of `emtSpecs` returns, given the loop result -/
def emtFinish (s1 : EMT) (first : Int) (r : Int × Int × Int × Int × List Spec) : EMT × List Spec :=
  let nfi := r.1 + first
  let fu := flushUV s1.npre s1.nsamp s1.mode nfi r.2.2.1 r.2.2.2.1 r.2.2.2.2
  ({ s1 with t := r.2.1, u := fu.1, v := r.2.2.2.1, next := nfi }, fu.2)

/-- the scan start after a reset -/
def emtStart (s : EMT) : Int := if s.enableZT then s.npre + 1 else s.npre

theorem emtSpecs_nonreset (raw : List Nat) (first : Int) (zt : ZT) (s : EMT) (h : s.npre ≤ s.next - first) :
    emtSpecs raw first zt s =
      (emtLoop raw first zt s ((raw.length : Int) - 1 - (s.nsamp - s.npre)) (s.nsamp - s.npre) (s.next - first)
        s.t s.u s.v []).map (emtFinish s first) := by
  unfold emtSpecs
  have hn : ¬ s.next - first < s.npre := by omega
  simp only [hn, if_false]
  cases hl : emtLoop raw first zt s ((raw.length : Int) - 1 - (s.nsamp - s.npre)) (s.nsamp - s.npre) (s.next - first) s.t s.u s.v [] with
  | none => rfl
  | some r =>
    obtain ⟨iF, t, u, v, specs⟩ := r
    simp only [Option.map_some, emtFinish, flushUV]
    split
    · cases shouldRecord u v (iF + first) s.npre s.nsamp s.mode <;> simp [optList]
    · rfl

theorem emtSpecs_reset (raw : List Nat) (first : Int) (zt : ZT) (s : EMT) (h : s.next - first < s.npre) :
    emtSpecs raw first zt s =
      (emtLoop raw first zt { s.reset with sentinel := true } ((raw.length : Int) - 1 - (s.nsamp - s.npre))
        (s.nsamp - s.npre) (emtStart s) 0 0 0 []).map (emtFinish { s.reset with sentinel := true } first) := by
  unfold emtSpecs
  simp only [h, if_true]
  have e : emtLoop raw first zt { s.reset with sentinel := true } ((raw.length : Int) - 1 - (s.nsamp - s.npre))
      (s.nsamp - s.npre) (if s.enableZT = true then s.npre + 1 else s.npre)
      ({ s.reset with sentinel := true } : EMT).t ({ s.reset with sentinel := true } : EMT).u
      ({ s.reset with sentinel := true } : EMT).v [] =
    emtLoop raw first zt { s.reset with sentinel := true } ((raw.length : Int) - 1 - (s.nsamp - s.npre))
      (s.nsamp - s.npre) (emtStart s) 0 0 0 [] := rfl
  rw [e]
  cases hl : emtLoop raw first zt { s.reset with sentinel := true } ((raw.length : Int) - 1 - (s.nsamp - s.npre))
      (s.nsamp - s.npre) (emtStart s) 0 0 0 [] with
  | none => rfl
  | some r =>
    obtain ⟨iF, t, u, v, specs⟩ := r
    simp only [Option.map_some, emtFinish, flushUV]
    split
    · rename_i hc
      cases shouldRecord u v (iF + first) ({ s.reset with sentinel := true } : EMT).npre
        ({ s.reset with sentinel := true } : EMT).nsamp ({ s.reset with sentinel := true } : EMT).mode <;>
        simp [optList]
    · rfl

theorem flushUV_append (npre nsamp : Int) (mode : EMTMode) (nfi u v : Int) (A B : List Spec) :
    flushUV npre nsamp mode nfi u v (A ++ B) =
      ((flushUV npre nsamp mode nfi u v B).1, A ++ (flushUV npre nsamp mode nfi u v B).2) := by
  unfold flushUV
  split <;> simp [List.append_assoc]

/-- flushing twice at the same position changes nothing more -/
theorem flushUV_idem (npre nsamp : Int) (mode : EMTMode) (nfi u v : Int) (E : List Spec) :
    flushUV npre nsamp mode nfi (flushUV npre nsamp mode nfi u v E).1 v (flushUV npre nsamp mode nfi u v E).2 =
      flushUV npre nsamp mode nfi u v E := by
  unfold flushUV
  by_cases hc : 0 < v ∧ v < nfi - nsamp
  · simp only [hc, and_self, if_true]
    rw [shouldRecord_same]
    simp [optList]
  · simp only [hc, if_false]

/-! ### single-channel edge-multi run -/

/-- one block for one channel in edge-multi mode: append, compute record specs, trim -/
def stepEmt (zt : ZT) (c : Chan) (seg : List Nat) (first per : Int) (sg : Bool) : Option (Chan × List Spec) :=
  let ca := append c seg first 0 per sg
  match emtSpecs ca.buf ca.first zt ca.emt with
  | none => none
  | some (emt', specs) => some (trim { ca with emt := emt' }, specs)

def runEmt (zt : ZT) (per : Int) (sg : Bool) : Chan → Int → List (List Nat) → Option (Chan × List Spec)
  | c, _, [] => some (c, [])
  | c, first, seg :: segs =>
    match stepEmt zt c seg first per sg with
    | none => none
    | some (c1, sp) =>
      match runEmt zt per sg c1 (first + seg.length) segs with
      | none => none
      | some (c2, sp2) => some (c2, sp ++ sp2)

/-- the single scan of a whole stream `G` from a fresh state -/
def loopAt (cfg : EMT) (zt : ZT) (f0 : Int) (G : List Nat) : Option (Int × Int × Int × Int × List Spec) :=
  emtLoop G f0 zt cfg ((G.length : Int) - 1 - (cfg.nsamp - cfg.npre)) (cfg.nsamp - cfg.npre) (emtStart cfg) 0 0 0 []

/-- validity of the configuration (what `ConfigureTrigger` / `ConfigurePulseLengths` enforce) -/
structure CfgOK (cfg : EMT) : Prop where
  npre3 : 3 ≤ cfg.npre
  lt : cfg.npre < cfg.nsamp
  zt4 : cfg.enableZT = true → 4 ≤ cfg.npre ∧ 4 ≤ cfg.nsamp - cfg.npre

/-- invariant of the block-by-block run after at least one block: the channel holds a suffix of the
delivered stream `G`, the next call will not reset, and its edge-multi state is `Sim`-related to the
single scan of `G`. -/
structure EmtInv (cfg : EMT) (zt : ZT) (f0 : Int) (G : List Nat) (c : Chan) (Em : List Spec) (kk : Nat) : Prop where
  hk : kk ≤ G.length
  hbuf : c.buf = G.drop kk
  hcfg : SameCfg cfg c.emt
  hnonreset : cfg.npre ≤ c.emt.next - (f0 + kk)
  hsim : ∃ P ts us vs Es, loopAt cfg zt f0 G = some (P, ts, us, vs, Es) ∧ c.emt.next = P + f0 ∧
    Sim cfg.npre cfg.nsamp cfg.mode f0 P c.emt.u c.emt.v Em us vs Es
  hidem : (flushUV cfg.npre cfg.nsamp cfg.mode c.emt.next c.emt.u c.emt.v Em).2 = Em

end DastardV.Trig
