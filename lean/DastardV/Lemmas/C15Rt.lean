/-
C15 — decode ∘ encode on a constructible packet.
-/
import DastardV.Lemmas.C15Enc
namespace DastardV.C15

theorem magic_bytes : beBytes 4 magic = [129, 11, 0, 255] := by decide

/-- `ReadPacket` on a fixed header followed by a TLV area that parses and a payload -/
theorem decodeC_of_parts (v hl pl src seq : Nat) (area pay : List Nat) (tlvs : List TLV)
    (hpl : pl < 65536) (hsrc : src < 4294967296) (hseq : seq < 4294967296)
    (hhl : 16 ≤ hl) (harea : area.length = hl - 16) (hparse : parseTLV area = .ok tlvs) :
    decodeC ([v, hl] ++ beBytes 2 pl ++ beBytes 4 magic ++ beBytes 4 src ++ beBytes 4 seq ++ area ++ pay) =
      if shapeUnusable (tlvs.foldl applyTLV (basePacket v hl pl src seq)) then (.error .bad, hl)
      else readPayload (tlvs.foldl applyTLV (basePacket v hl pl src seq)) pay hl := by
  rw [magic_bytes, beBytes_two, beBytes_four, beBytes_four]
  simp only [List.cons_append, List.nil_append]
  rw [decodeC_cons16]
  have e1 : be16 (pl / 256 % 256) (pl % 256) = pl := by unfold be16; omega
  have e2 : be32 (src / 256 / 256 / 256 % 256) (src / 256 / 256 % 256) (src / 256 % 256) (src % 256) = src := by
    unfold be32; omega
  have e3 : be32 (seq / 256 / 256 / 256 % 256) (seq / 256 / 256 % 256) (seq / 256 % 256) (seq % 256) = seq := by
    unfold be32; omega
  have e4 : be32 129 11 0 255 = magic := by decide
  have htake : List.take (hl - 16) (area ++ pay) = area := List.take_left' harea
  have hdrop : List.drop (hl - 16) (area ++ pay) = pay := List.drop_left' harea
  rw [if_neg (by omega), if_neg (by simp [e4]), if_neg (by simp only [List.length_append]; omega)]
  rw [htake, hdrop, hparse, e1, e2, e3]

theorem encPayload_typed (d : Data) (hd : d.typed = true) :
    encPayload (fmtOf d) d = .ok (unwords d.wsize false d.vals) := by
  cases d <;> simp_all [encPayload, fmtOf, Data.typed, Data.wsize, Data.vals]

theorem vals_nil_of_len (d : Data) (h : d.len = 0) (ht : d.typed = true) : d.vals = [] := by
  cases d <;> simp_all [Data.len, Data.vals, Data.typed]

/-- the payload part of `ReadPacket` on what `Bytes()` wrote for typed data -/
theorem readPayload_typed (p' : Packet) (f : Fmt) (d : Data) (hd : d.typed = true) (hvd : ValidData d)
    (hdat : p'.data = .none) (hf : p'.format = some f) (hk : f.kinds = (fmtOf d).kinds) (he : f.endian = 1)
    (hpl : p'.pl = d.wsize * d.len) (base : Nat) :
    ∃ d', readPayload p' (unwords d.wsize false d.vals) base
        = (.ok { p' with data := d' }, base + d.wsize * d.len) ∧
      d'.vals = d.vals ∧ (d.len = 0 ∨ d'.kind = d.kind) := by
  have hend : (f.endian == 2) = false := by rw [he]; rfl
  by_cases hz : d.len = 0
  · refine ⟨.none, ?_, ?_, Or.inl hz⟩
    · have hpl0 : p'.pl = 0 := by rw [hpl, hz]; simp
      have hp : ({ p' with data := Data.none } : Packet) = p' := by cases p'; simp_all
      rw [hp, hz, Nat.mul_zero, Nat.add_zero]
      unfold readPayload
      simp only [hf, hpl0, if_true]
    · rw [vals_nil_of_len d hz hd]; rfl
  · have hpos : 0 < d.len := Nat.pos_of_ne_zero hz
    cases d with
    | none => simp [Data.typed] at hd
    | raw _ => simp [Data.typed] at hd
    | i16 xs =>
      simp only [Data.wsize, Data.len, Data.vals] at hpl hpos ⊢
      refine ⟨.i16 xs, ?_, rfl, Or.inr rfl⟩
      have hk' : f.kinds = [.i16] := hk
      have hn : p'.pl / 2 = xs.length := by omega
      unfold readPayload
      rw [hf]
      simp only [hk', hend, hn]
      rw [if_neg (by omega), if_neg (by rw [unwords_length]; omega)]
      have := words_unwords 2 (Or.inl rfl) xs hvd []
      rw [List.append_nil] at this
      rw [this]
    | i32 xs =>
      simp only [Data.wsize, Data.len, Data.vals] at hpl hpos ⊢
      refine ⟨.i32 xs, ?_, rfl, Or.inr rfl⟩
      have hk' : f.kinds = [.i32] := hk
      have hn : p'.pl / 4 = xs.length := by omega
      unfold readPayload
      rw [hf]
      simp only [hk', hend, hn]
      rw [if_neg (by omega), if_neg (by rw [unwords_length]; omega)]
      have := words_unwords 4 (Or.inr (Or.inl rfl)) xs hvd []
      rw [List.append_nil] at this
      rw [this]
    | i64 xs =>
      simp only [Data.wsize, Data.len, Data.vals] at hpl hpos ⊢
      refine ⟨.i64 xs, ?_, rfl, Or.inr rfl⟩
      have hk' : f.kinds = [.i64] := hk
      have hn : p'.pl / 8 = xs.length := by omega
      unfold readPayload
      rw [hf]
      simp only [hk', hend, hn]
      rw [if_neg (by omega), if_neg (by rw [unwords_length]; omega)]
      have := words_unwords 8 (Or.inr (Or.inr rfl)) xs hvd []
      rw [List.append_nil] at this
      rw [this]

/-! ### The TLV area written by `Bytes()` -/

theorem parse_offB (o : Nat) (ho : o < 4294967296) (rest : List Nat) (tl : List TLV)
    (h : parseTLV rest = .ok tl) :
    parseTLV (([0x23, 1, 0, 0] ++ beBytes 4 o) ++ rest) = .ok (.off o :: tl) := by
  have e : ([0x23, 1, 0, 0] ++ beBytes 4 o) ++ rest = 0x23 :: 1 :: (([0, 0] ++ beBytes 4 o) ++ rest) := by simp
  rw [e, parseTLV_block _ _ _ _ (by decide) (by simp [beBytes_length]), parse_off o ho, h]
  rfl

def tsTLVs : Option TS → List TLV
  | none => []
  | some t => [.ts t]

theorem parse_tsB (o : Option TS) (hv : ∀ t, o = some t → ValidTS t) (rest : List Nat) (tl : List TLV)
    (h : parseTLV rest = .ok tl) :
    parseTLV (encTS o ++ rest) = .ok (tsTLVs o ++ tl) ∧ (encTS o).length = (if o.isSome then 16 else 0) := by
  cases o with
  | none => exact ⟨by simpa [encTS, tsTLVs] using h, rfl⟩
  | some t =>
    have e : encTS (some t) ++ rest = 0x13 :: 2 ::
        (([64, 0xf5] ++ beBytes 2 t.num ++ beBytes 2 t.den ++ beBytes 8 t.t) ++ rest) := by
      simp [encTS]
    constructor
    · rw [e, parseTLV_block _ _ _ _ (by decide) (by simp [beBytes_length]), parse_ts t (hv t rfl), h]
      rfl
    · simp [encTS, beBytes_length]

theorem padTo6_length (d : Data) : (padTo6 (fmtOf d).raw).length = 6 := by
  cases d <;> rfl

theorem parse_fmtB (d : Data) (hd : d.typed = true) (rest : List Nat) (tl : List TLV)
    (h : parseTLV rest = .ok tl) :
    ∃ f, parseTLV (([0x21, 1] ++ padTo6 (fmtOf d).raw) ++ rest) = .ok (.fmt f :: tl) ∧
      f.kinds = (fmtOf d).kinds ∧ f.wordlen = (fmtOf d).wordlen ∧ f.endian = 1 := by
  obtain ⟨f, hf, h1, h2, h3⟩ := parse_fmt d hd
  refine ⟨f, ?_, h1, h2, h3⟩
  have e : ([0x21, 1] ++ padTo6 (fmtOf d).raw) ++ rest = 0x21 :: 1 :: (padTo6 (fmtOf d).raw ++ rest) := by simp
  rw [e, parseTLV_block _ _ _ _ (by decide) (by rw [padTo6_length]), hf, h]
  rfl

theorem fold_ts (o : Option TS) (b : Packet) (hb : b.ts = none) :
    (tsTLVs o).foldl applyTLV b = { b with ts := o } := by
  cases o with
  | none => cases b; simp_all [tsTLVs]
  | some t => rfl

/-! ### decode ∘ encode -/

/-- well-formed: the shape (if any) can be carried by the wire format -/
def WF (p : Packet) : Prop := ∀ s, p.shape = some s → wfShape s = true

/-- the fixed header written by `Bytes()` -/
def hdrBytes (p : Packet) : List Nat :=
  [p.version, p.hl] ++ beBytes 2 p.pl ++ beBytes 4 magic ++ beBytes 4 p.src ++ beBytes 4 p.seq

theorem hdrBytes_length (p : Packet) : (hdrBytes p).length = 16 := by
  simp [hdrBytes, beBytes_length]

theorem wsize_pos (d : Data) (h : d.typed = true) : 0 < d.wsize := by
  cases d <;> simp_all [Data.wsize, Data.typed]

/-- the packet `ReadPacket` produces from the bytes of `p` (format, shape and data filled in per case) -/
def decodedOf (p : Packet) (f : Option Fmt) (sh : Option (List Int)) (d : Data) : Packet :=
  { version := p.version, hl := p.hl, pl := p.pl, src := p.src, seq := p.seq,
    plen := (p.hl : Int) + p.pl, format := f, shape := sh, ts := p.ts, label := [],
    offset := p.offset, explicitOffset := true, data := d }

theorem roundtrip_good (p : Packet) (g : Good p) (wf : WF p) :
    ∃ bs q, encode p = .ok bs ∧ decodeC bs = (.ok q, bs.length) ∧
      q.version = p.version ∧ q.src = p.src ∧ q.seq = p.seq ∧ q.offset = p.offset ∧
      q.shape = p.shape.map (·.filter (· > 0)) ∧ q.data.vals = p.data.vals ∧
      (p.data.len = 0 ∨ q.data.kind = p.data.kind) ∧ tsCounter q = tsCounter p := by
  obtain ⟨hv, hs, hq, ho, hts, hb⟩ := g
  have hbl : baseLen p = 24 + (if p.ts.isSome then 16 else 0) := by
    unfold baseLen; split <;> rfl
  rcases hb with ⟨h1, h2, h3, h4, h5⟩ | ⟨dims, h1, h2, h3, h4, h5, h6, h7, h8, h9⟩
  · -- header-only packet
    obtain ⟨hpt, htl⟩ := parse_tsB p.ts hts [] [] parseTLV_nil
    have hparse := parse_offB p.offset ho _ _ hpt
    have harea : (([0x23, 1, 0, 0] ++ beBytes 4 p.offset) ++ (encTS p.ts ++ [])).length = p.hl - 16 := by
      simp only [List.length_append, List.length_cons, List.length_nil, beBytes_length, htl]
      omega
    have henc : encode p = .ok (hdrBytes p ++ (([0x23, 1, 0, 0] ++ beBytes 4 p.offset) ++ (encTS p.ts ++ [])) ++ []) := by
      simp [encode, h1, hdrBytes]
    have hdec := decodeC_of_parts p.version p.hl p.pl p.src p.seq _ [] _ (by omega) hs hq (by omega) harea hparse
    have hlen : (hdrBytes p ++ (([0x23, 1, 0, 0] ++ beBytes 4 p.offset) ++ (encTS p.ts ++ [])) ++ []).length = p.hl := by
      simp only [List.length_append, hdrBytes_length, harea, List.length_nil]
      omega
    refine ⟨_, decodedOf p none none .none, henc, ?_,
      rfl, rfl, rfl, rfl, by rw [h2]; rfl, by rw [h1]; rfl, Or.inl (by rw [h1]; rfl), rfl⟩
    rw [hlen]
    unfold hdrBytes
    rw [hdec, List.append_nil, List.foldl_cons, fold_ts _ _ rfl]
    rfl
  · -- packet with data
    have hwf := wf dims h4
    obtain ⟨hps, hsl⟩ := encShape_parse dims h3 hwf h6 []
    rw [parseTLV_nil] at hps
    have hps' : parseTLV (encShape dims ++ []) = .ok [.shape (dims.filter (· > 0))] := hps
    obtain ⟨f, hpf, hk, hw, he⟩ := parse_fmtB p.data h1 _ _ hps'
    obtain ⟨hpt, htl⟩ := parse_tsB p.ts hts _ _ hpf
    have hparse := parse_offB p.offset ho _ _ hpt
    have hwl := fmtOf_wordlen p.data h1
    have harea : (([0x23, 1, 0, 0] ++ beBytes 4 p.offset) ++ (encTS p.ts ++
        (([0x21, 1] ++ padTo6 (fmtOf p.data).raw) ++ (encShape dims ++ [])))).length = p.hl - 16 := by
      simp only [List.length_append, List.length_cons, List.length_nil, beBytes_length, htl, hsl,
        padTo6_length]
      omega
    have henc : encode p = .ok (hdrBytes p ++ (([0x23, 1, 0, 0] ++ beBytes 4 p.offset) ++ (encTS p.ts ++
        (([0x21, 1] ++ padTo6 (fmtOf p.data).raw) ++ (encShape dims ++ [])))) ++
        unwords p.data.wsize false p.data.vals) := by
      unfold encode
      rw [h4, h5]
      cases hd : p.data with
      | none => rw [hd] at h1; simp [Data.typed] at h1
      | raw _ => rw [hd] at h1; simp [Data.typed] at h1
      | i16 xs => simp [encPayload, fmtOf, Res.bind, hdrBytes, Data.wsize, Data.vals, List.append_assoc]
      | i32 xs => simp [encPayload, fmtOf, Res.bind, hdrBytes, Data.wsize, Data.vals, List.append_assoc]
      | i64 xs => simp [encPayload, fmtOf, Res.bind, hdrBytes, Data.wsize, Data.vals, List.append_assoc]
    have hdec := decodeC_of_parts p.version p.hl p.pl p.src p.seq _ (unwords p.data.wsize false p.data.vals) _
      h9 hs hq (by omega) harea hparse
    have hvl : p.data.vals.length = p.data.len := by cases p.data <;> simp [Data.vals, Data.len]
    have hlen : (hdrBytes p ++ (([0x23, 1, 0, 0] ++ beBytes 4 p.offset) ++ (encTS p.ts ++
        (([0x21, 1] ++ padTo6 (fmtOf p.data).raw) ++ (encShape dims ++ [])))) ++
        unwords p.data.wsize false p.data.vals).length = p.hl + p.data.wsize * p.data.len := by
      simp only [List.length_append, hdrBytes_length, harea, unwords_length, hvl]
      omega
    have hun : shapeUnusable (decodedOf p (some f) (some (dims.filter (· > 0))) .none) = false := by
      have : f.wordlen ≠ 0 := by
        have := wsize_pos p.data h1
        rw [hw, hwl]; omega
      simp [shapeUnusable, decodedOf, this]
    obtain ⟨d', hrp, hvals, hkind⟩ := readPayload_typed
      (decodedOf p (some f) (some (dims.filter (· > 0))) .none) f p.data h1 h2 rfl rfl hk he h8 p.hl
    refine ⟨_, decodedOf p (some f) (some (dims.filter (· > 0))) d', henc, ?_,
      rfl, rfl, rfl, rfl, by rw [h4]; rfl, hvals, hkind, rfl⟩
    rw [hlen]
    unfold hdrBytes
    rw [hdec, List.foldl_cons, List.foldl_append, fold_ts _ _ rfl]
    have hfold : List.foldl applyTLV
        { applyTLV (basePacket p.version p.hl p.pl p.src p.seq) (TLV.off p.offset) with ts := p.ts }
        [TLV.fmt f, TLV.shape (dims.filter (· > 0))] = decodedOf p (some f) (some (dims.filter (· > 0))) .none := rfl
    rw [hfold, hun]
    simp only [Bool.false_eq_true, if_false]
    rw [hrp]
    rfl

end DastardV.C15
