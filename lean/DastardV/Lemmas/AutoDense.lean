/-
The auto pass without veto, density: after the loop every index below the loop's final candidate
has a trigger in the window of `delay + nsamp` samples ending at it.  `S` is the list of triggers
known before the loop (previous blocks' triggers, relative to this buffer, and the edge/level
triggers found in this block); the loop adds the auto triggers `res`.
-/
import DastardV.Lemmas.Auto
namespace DastardV.Trig

/-- some trigger of `S` lies in the window `(x − W, x]` -/
def DenseR (W : Int) (S : List Int) (x : Int) : Prop := ∃ T ∈ S, x - W < T ∧ T ≤ x

theorem DenseR.mono {W : Int} {S S' : List Int} {x : Int} (h : DenseR W S x) (hs : ∀ t ∈ S, t ∈ S') :
    DenseR W S' x := by
  obtain ⟨T, hT, h⟩ := h
  exact ⟨T, hs T hT, h⟩

/-- loop invariant: indices in `[lo, npt)` are dense; `npt` is anchored at a trigger at most `delay`
back, unless we are still before `lo` (start of an epoch) -/
structure AutoJ (delay nsamp lo m0 : Int) (S : List Int) (npt : Int) : Prop where
  dense : ∀ x, lo ≤ x → x < npt → DenseR (delay + nsamp) S x
  anchor : (∃ T0 ∈ S, npt - delay ≤ T0 ∧ T0 < npt) ∨ npt ≤ m0

/-- the no-veto auto loop: specification by the invariant -/
theorem autoLoop_dense (c : Chan) (delay : Int) (hd : 0 < delay) (hv : c.ts.autoVeto = 0) (hns : 0 ≤ c.nsamp)
    (lo m0 : Int) (hm0 : m0 + c.nsamp ≤ lo) (P : List Int) :
    ∀ (found : List Int) (n : Nat) (npt : Int) (acc : List Int) (F : List Int),
      ((c.buf.length : Int) + c.npre - c.nsamp - npt).toNat ≤ n →
      (∀ t ∈ found, t ∈ F) →
      AutoJ delay c.nsamp lo m0 (P ++ F ++ acc) npt →
      ∃ res nptf, autoLoop c c.buf.length delay hd npt found acc = some (acc ++ res) ∧
        (c.buf.length : Int) ≤ nptf + c.nsamp - c.npre ∧
        AutoJ delay c.nsamp lo m0 (P ++ F ++ (acc ++ res)) nptf := by
  intro found
  induction found with
  | nil =>
    intro n
    induction n with
    | zero =>
      intro npt acc F hn _ hj
      refine ⟨[], npt, ?_, by omega, by simpa using hj⟩
      rw [autoLoop]
      have : ¬ npt + c.nsamp - c.npre < (c.buf.length : Int) := by omega
      simp [this]
    | succ n ih =>
      intro npt acc F hn hF hj
      by_cases hlt : npt + c.nsamp - c.npre < (c.buf.length : Int)
      · -- emit at npt
        have hj' : AutoJ delay c.nsamp lo m0 (P ++ F ++ (acc ++ [npt])) (npt + delay) := by
          refine ⟨?_, Or.inl ⟨npt, by simp, by omega, by omega⟩⟩
          intro x hx1 hx2
          by_cases hxn : x < npt
          · exact (hj.dense x hx1 hxn).mono (by intro t ht; simp only [List.mem_append] at ht ⊢; rcases ht with (h | h) | h <;> simp [h])
          · exact ⟨npt, by simp, by omega, by omega⟩
        obtain ⟨res, nptf, hres, hend, hjf⟩ := ih (npt + delay) (acc ++ [npt]) F (by omega) hF hj'
        refine ⟨npt :: res, nptf, ?_, hend, by simpa using hjf⟩
        rw [autoLoop]
        have hv' : ¬ c.ts.autoVeto > 0 := by omega
        simp only [hlt, if_true, hv', if_false, hres, List.append_assoc, List.singleton_append]
      · refine ⟨[], npt, ?_, by omega, by simpa using hj⟩
        rw [autoLoop]; simp [hlt]
  | cons nf rest ihf =>
    intro n
    induction n with
    | zero =>
      intro npt acc F hn _ hj
      refine ⟨[], npt, ?_, by omega, by simpa using hj⟩
      rw [autoLoop]
      have : ¬ npt + c.nsamp - c.npre < (c.buf.length : Int) := by omega
      simp [this]
    | succ n ih =>
      intro npt acc F hn hF hj
      by_cases hlt : npt + c.nsamp - c.npre < (c.buf.length : Int)
      · by_cases hfit : npt + c.nsamp ≤ nf
        · -- emit at npt
          have hj' : AutoJ delay c.nsamp lo m0 (P ++ F ++ (acc ++ [npt])) (npt + delay) := by
            refine ⟨?_, Or.inl ⟨npt, by simp, by omega, by omega⟩⟩
            intro x hx1 hx2
            by_cases hxn : x < npt
            · exact (hj.dense x hx1 hxn).mono (by intro t ht; simp only [List.mem_append] at ht ⊢; rcases ht with (h | h) | h <;> simp [h])
            · exact ⟨npt, by simp, by omega, by omega⟩
          obtain ⟨res, nptf, hres, hend, hjf⟩ := ih (npt + delay) (acc ++ [npt]) F (by omega) hF hj'
          refine ⟨npt :: res, nptf, ?_, hend, by simpa using hjf⟩
          rw [autoLoop]
          have hv' : ¬ c.ts.autoVeto > 0 := by omega
          simp only [hlt, if_true, hfit, hv', if_false, hres, List.append_assoc, List.singleton_append]
        · -- conflict with the found trigger nf: restart the delay from it
          have hnfF : nf ∈ F := hF nf (by simp)
          have hj' : AutoJ delay c.nsamp lo m0 (P ++ F ++ acc) (nf + delay) := by
            refine ⟨?_, Or.inl ⟨nf, by simp [hnfF], by omega, by omega⟩⟩
            intro x hx1 hx2
            by_cases hxn : x < npt
            · exact hj.dense x hx1 hxn
            · by_cases hxf : nf ≤ x
              · exact ⟨nf, by simp [hnfF], by omega, hxf⟩
              · rcases hj.anchor with ⟨T0, hT0, ha, hb⟩ | hlo
                · exact ⟨T0, hT0, by omega, by omega⟩
                · omega
          obtain ⟨res, nptf, hres, hend, hjf⟩ := ihf _ (nf + delay) acc F (Nat.le_refl _)
            (fun t ht => hF t (List.mem_cons_of_mem _ ht)) hj'
          refine ⟨res, nptf, ?_, hend, hjf⟩
          rw [autoLoop]
          simp only [hlt, if_true, hfit, if_false, hres]
      · refine ⟨[], npt, ?_, by omega, by simpa using hj⟩
        rw [autoLoop]; simp [hlt]

/-- every auto trigger the loop adds lies at or after `m`, when the start candidate does and every
found trigger is at most `delay` before `m` -/
theorem autoLoop_lower (c : Chan) (delay : Int) (hd : 0 < delay) (m : Int) :
    ∀ (found : List Int) (n : Nat) (npt : Int) (acc out : List Int),
      ((c.buf.length : Int) + c.npre - c.nsamp - npt).toNat ≤ n →
      m ≤ npt → (∀ t ∈ found, m ≤ t + delay) →
      autoLoop c c.buf.length delay hd npt found acc = some out →
      ∀ a ∈ out, a ∈ acc ∨ m ≤ a := by
  intro found
  induction found with
  | nil =>
    intro n
    induction n with
    | zero =>
      intro npt acc out hn _ _ h
      rw [autoLoop] at h
      have : ¬ npt + c.nsamp - c.npre < (c.buf.length : Int) := by omega
      simp only [this, if_false, Option.some.injEq] at h
      subst h; intro a ha; exact Or.inl ha
    | succ n ih =>
      intro npt acc out hn hm hf h
      rw [autoLoop] at h
      by_cases hlt : npt + c.nsamp - c.npre < (c.buf.length : Int)
      · simp only [hlt, if_true] at h
        have step : ∀ acc', (∀ a ∈ acc', a ∈ acc ∨ m ≤ a) →
            autoLoop c c.buf.length delay hd (npt + delay) [] acc' = some out → ∀ a ∈ out, a ∈ acc ∨ m ≤ a := by
          intro acc' hacc' h'
          intro a ha
          rcases ih (npt + delay) acc' out (by omega) (by omega) hf h' a ha with h1 | h1
          · exact hacc' a h1
          · exact Or.inr h1
        have hA : ∀ a ∈ acc ++ [npt], a ∈ acc ∨ m ≤ a := by
          intro a ha; rcases List.mem_append.mp ha with h1 | h1
          · exact Or.inl h1
          · simp at h1; subst h1; exact Or.inr hm
        split at h
        · split at h
          · simp at h
          · split at h
            · exact step acc (fun a ha => Or.inl ha) h
            · exact step _ hA h
        · exact step _ hA h
      · simp only [hlt, if_false, Option.some.injEq] at h
        subst h; intro a ha; exact Or.inl ha
  | cons nf rest ihf =>
    intro n
    induction n with
    | zero =>
      intro npt acc out hn _ _ h
      rw [autoLoop] at h
      have : ¬ npt + c.nsamp - c.npre < (c.buf.length : Int) := by omega
      simp only [this, if_false, Option.some.injEq] at h
      subst h; intro a ha; exact Or.inl ha
    | succ n ih =>
      intro npt acc out hn hm hf h
      rw [autoLoop] at h
      by_cases hlt : npt + c.nsamp - c.npre < (c.buf.length : Int)
      · simp only [hlt, if_true] at h
        have step : ∀ acc', (∀ a ∈ acc', a ∈ acc ∨ m ≤ a) →
            autoLoop c c.buf.length delay hd (npt + delay) (nf :: rest) acc' = some out → ∀ a ∈ out, a ∈ acc ∨ m ≤ a := by
          intro acc' hacc' h'
          intro a ha
          rcases ih (npt + delay) acc' out (by omega) (by omega) hf h' a ha with h1 | h1
          · exact hacc' a h1
          · exact Or.inr h1
        have hA : ∀ a ∈ acc ++ [npt], a ∈ acc ∨ m ≤ a := by
          intro a ha; rcases List.mem_append.mp ha with h1 | h1
          · exact Or.inl h1
          · simp at h1; subst h1; exact Or.inr hm
        split at h
        · split at h
          · split at h
            · simp at h
            · split at h
              · exact step acc (fun a ha => Or.inl ha) h
              · exact step _ hA h
          · exact step _ hA h
        · exact ihf _ (nf + delay) acc out (Nat.le_refl _) (hf nf (by simp))
            (fun t ht => hf t (List.mem_cons_of_mem _ ht)) h
      · simp only [hlt, if_false, Option.some.injEq] at h
        subst h; intro a ha; exact Or.inl ha

end DastardV.Trig
