/-
C15 — from the decode invariant `DecInv` to the accessor oracle: no accessor panics and the sizes
they report are mutually consistent.
-/
import DastardV.Lemmas.C15Dec
namespace DastardV.C15

theorem wrap64_id (x : Int) (h0 : 0 ≤ x) (h1 : x < 9223372036854775808) : wrap64 x = x := by
  unfold wrap64
  simp only
  split <;> omega

theorem prod_pos (s : List Int) (h : ∀ d ∈ s, 0 < d) : 1 ≤ prod s := by
  induction s with
  | nil => simp [prod]
  | cons d r ih =>
    have hd : 0 < d := h d (by simp)
    have hr := ih (fun x hx => h x (by simp [hx]))
    simp only [prod]
    have : d * 1 ≤ d * prod r := Int.mul_le_mul_of_nonneg_left hr (by omega)
    omega

theorem nchan_foldl (s : List Int) (acc : Int) (ha : 1 ≤ acc) (hs : ∀ d ∈ s, 0 < d)
    (hb : acc * prod s ≤ 65535) :
    s.foldl (fun acc s => if s > 0 then wrap64 (acc * s) else acc) acc = acc * prod s := by
  induction s generalizing acc with
  | nil => simp [prod]
  | cons d r ih =>
    have hd : 0 < d := hs d (by simp)
    have hr : ∀ x ∈ r, 0 < x := fun x hx => hs x (by simp [hx])
    have hpr := prod_pos r hr
    simp only [prod] at hb
    have h1 : 1 ≤ acc * d := by
      have : acc * 1 ≤ acc * d := Int.mul_le_mul_of_nonneg_left (by omega) (by omega)
      omega
    have h2 : acc * d ≤ 65535 := by
      have h3 : acc * d * 1 ≤ acc * d * prod r := Int.mul_le_mul_of_nonneg_left hpr (by omega)
      have e : acc * d * prod r = acc * (d * prod r) := Int.mul_assoc _ _ _
      rw [Int.mul_one] at h3
      omega
    simp only [List.foldl_cons, gt_iff_lt, hd, if_true]
    rw [wrap64_id _ (by omega) (by omega)]
    rw [ih (acc * d) h1 hr (by rw [Int.mul_assoc]; exact hb)]
    simp [prod, Int.mul_assoc]

theorem nchanOf_eq (s : List Int) (hs : ∀ d ∈ s, 0 < d) (hp : prod s ≤ 65535) : nchanOf s = prod s := by
  unfold nchanOf
  rw [nchan_foldl s 1 (by decide) hs (by simpa using hp)]
  simp

/-- what `Frames()` and `ChannelInfo()` return on a decoded packet -/
theorem frames_chan (p : Packet) (hl pl : Nat) (inv : DecInv p hl pl) :
    ∃ F N : Nat, frames p = .ok (F : Int) ∧ channelInfo p = .ok ((N : Int), (p.offset : Int)) ∧ 1 ≤ N ∧
      F * N ≤ p.data.len ∧
      (match p.shape with | some s => (N : Int) = prod s ∧ (∀ d ∈ s, 0 < d) | none => N = 1) := by
  obtain ⟨hhl, hpl, hpl_lt, hhl_lt, hplen, ⟨hoff, hts, hfmt, hshape⟩, husable, hdata⟩ := inv
  cases hsh : p.shape with
  | none =>
    refine ⟨0, 1, ?_, ?_, by decide, by simp, by simp⟩
    · simp [frames, hsh]
    · simp [channelInfo, hsh]
  | some s =>
    obtain ⟨hne, hpos, hprod⟩ := hshape s hsh
    have hp1 := prod_pos s hpos
    obtain ⟨N, hN⟩ := Int.eq_ofNat_of_zero_le (a := prod s) (by omega)
    have hN1 : 1 ≤ N := by omega
    have hN2 : N ≤ 65535 := by omega
    -- the format exists and has a positive word length
    cases hfm : p.format with
    | none => simp [shapeUnusable, hsh, hfm] at husable
    | some fm =>
      have hwl0 : fm.wordlen ≠ 0 := by
        simpa [shapeUnusable, hsh, hfm] using husable
      obtain ⟨hwk, hwb⟩ := hfmt fm hfm
      have hnc : nchanOf s = (N : Int) := by rw [nchanOf_eq s hpos hprod, hN]
      have hmul : (fm.wordlen : Int) * (N : Int) = ((fm.wordlen * N : Nat) : Int) := (Int.natCast_mul _ _).symm
      have hb1 : fm.wordlen * N ≤ 16320 * 65535 := Nat.mul_le_mul hwb hN2
      have hb0 : 0 < fm.wordlen * N := Nat.mul_pos (by omega) (by omega)
      have hfr : frames p = .ok ((p.pl / (fm.wordlen * N) : Nat) : Int) := by
        simp only [frames, hsh, hfm, hnc, hmul]
        rw [wrap64_id _ (by omega) (by omega)]
        rw [if_neg (by omega)]
        rw [Int.ofNat_tdiv]
      refine ⟨p.pl / (fm.wordlen * N), N, hfr, ?_, hN1, ?_, ?_⟩
      · simp [channelInfo, hsh, hnc]
      · -- frames × channels ≤ number of values
        unfold DataOK at hdata
        cases hd : p.data with
        | none =>
          rw [hd] at hdata
          simp only [Data.len]
          rcases hdata with h | h
          · rw [hfm] at h; cases h
          · rw [h]; simp
        | i16 xs =>
          rw [hd] at hdata
          obtain ⟨f, hf, hk, hlen⟩ := hdata
          rw [hfm] at hf; cases hf
          have : fm.wordlen = 2 := by rw [hwk, hk]; rfl
          simp only [Data.len, hlen, this]
          rw [← Nat.div_div_eq_div_mul]
          exact Nat.div_mul_le_self _ _
        | i32 xs =>
          rw [hd] at hdata
          obtain ⟨f, hf, hk, hlen⟩ := hdata
          rw [hfm] at hf; cases hf
          have : fm.wordlen = 4 := by rw [hwk, hk]; rfl
          simp only [Data.len, hlen, this]
          rw [← Nat.div_div_eq_div_mul]
          exact Nat.div_mul_le_self _ _
        | i64 xs =>
          rw [hd] at hdata
          obtain ⟨f, hf, hk, hlen⟩ := hdata
          rw [hfm] at hf; cases hf
          have : fm.wordlen = 8 := by rw [hwk, hk]; rfl
          simp only [Data.len, hlen, this]
          rw [← Nat.div_div_eq_div_mul]
          exact Nat.div_mul_le_self _ _
        | raw bs =>
          rw [hd] at hdata
          obtain ⟨f, hf, hk, hlen⟩ := hdata
          simp only [Data.len, hlen]
          have h1 : p.pl / (fm.wordlen * N) * N ≤ p.pl / (fm.wordlen * N) * (fm.wordlen * N) := by
            apply Nat.mul_le_mul_left
            have : 1 * N ≤ fm.wordlen * N := Nat.mul_le_mul_right N (by omega)
            omega
          have h2 := Nat.div_mul_le_self p.pl (fm.wordlen * N)
          omega
      · exact ⟨hN.symm, hpos⟩

/-! ### ReadValue -/

theorem readValue_spec (p : Packet) (F N : Nat) (hF : frames p = .ok (F : Int)) (hN : 1 ≤ N)
    (hFN : F * N ≤ p.data.len) (i : Int) :
    ∃ v, readValue p i = .ok v ∧
      (if 0 ≤ i ∧ i < (F : Int) then (!p.data.typed || p.data.vals[i.toNat]? == some v) else v == 0) = true := by
  have hFle : F ≤ p.data.len := Nat.le_trans (Nat.le_mul_of_pos_right F hN) hFN
  unfold readValue
  rw [hF]
  simp only [Res.bind]
  by_cases hi : i < 0 ∨ i ≥ (F : Int)
  · rw [if_pos hi]
    refine ⟨0, rfl, ?_⟩
    rw [if_neg (by omega)]
    rfl
  · rw [if_neg hi]
    have h0 : 0 ≤ i := by omega
    have h1 : i < (F : Int) := by omega
    have hlt : i.toNat < p.data.len := by omega
    cases hd : p.data with
    | none => exact ⟨0, rfl, by rw [if_pos ⟨h0, h1⟩]; rfl⟩
    | raw bs => exact ⟨0, rfl, by rw [if_pos ⟨h0, h1⟩]; rfl⟩
    | i16 xs =>
      rw [hd] at hlt
      simp only [Data.len] at hlt
      refine ⟨xs[i.toNat], ?_, ?_⟩
      · simp only [List.getElem?_eq_getElem hlt]
      · rw [if_pos ⟨h0, h1⟩]
        simp [Data.typed, Data.vals, List.getElem?_eq_getElem hlt]
    | i32 xs =>
      rw [hd] at hlt
      simp only [Data.len] at hlt
      refine ⟨xs[i.toNat], ?_, ?_⟩
      · simp only [List.getElem?_eq_getElem hlt]
      · rw [if_pos ⟨h0, h1⟩]
        simp [Data.typed, Data.vals, List.getElem?_eq_getElem hlt]
    | i64 xs =>
      rw [hd] at hlt
      simp only [Data.len] at hlt
      refine ⟨xs[i.toNat], ?_, ?_⟩
      · simp only [List.getElem?_eq_getElem hlt]
      · rw [if_pos ⟨h0, h1⟩]
        simp [Data.typed, Data.vals, List.getElem?_eq_getElem hlt]

/-! ### MakePretendPacket -/

theorem pickAll_spec (xs : List Int) (k : Nat) (idxs : List Nat) (h : ∀ i ∈ idxs, i % k < xs.length) :
    ∃ ys : List Int, pickAll xs k idxs = .ok ys ∧ ys.length = idxs.length ∧
      ∀ j : Nat, ys[j]? = (idxs[j]?).bind (fun i => xs[i % k]?) := by
  induction idxs with
  | nil => exact ⟨[], rfl, rfl, by simp⟩
  | cons i r ih =>
    obtain ⟨ys, hys, hlen, hget⟩ := ih (fun j hj => h j (by simp [hj]))
    have hi : i % k < xs.length := h i (by simp)
    refine ⟨xs[i % k] :: ys, ?_, by simp [hlen], ?_⟩
    · simp only [pickAll, List.getElem?_eq_getElem hi, hys, Res.bind]
    · intro j
      cases j with
      | zero => simp [List.getElem?_eq_getElem hi]
      | succ j => simpa using hget j

theorem pretendVals_spec (xs : List Int) (nchan : Int) (hn : nchan ≠ 0) :
    ∃ ys : List Int, pretendVals xs nchan = .ok ys ∧ ys.length = xs.length ∧
      ∀ i : Nat, i < xs.length → ys[i]? = xs[i % nchan.natAbs]? := by
  unfold pretendVals
  by_cases hx : xs = []
  · subst hx
    exact ⟨[], by simp, rfl, by simp⟩
  · rw [if_neg hx, if_neg hn]
    have hk : 0 < nchan.natAbs := Int.natAbs_pos.mpr hn
    obtain ⟨ys, hys, hlen, hget⟩ := pickAll_spec xs nchan.natAbs (List.range xs.length) (by
      intro i hi
      have := List.mem_range.mp hi
      have := Nat.mod_le i nchan.natAbs
      omega)
    refine ⟨ys, hys, by simpa using hlen, ?_⟩
    intro i hi
    rw [hget i, List.getElem?_range hi]
    rfl

theorem frames_withSeqData (p : Packet) (seq : Nat) (d : Data) :
    frames { p with seq := seq, data := d } = frames p := rfl

theorem pretendOK_obs (p : Packet) (o : Obs) (h1 : o.len = length p) (h2 : o.fr = frames p)
    (h3 : o.data = p.data) (seq : Nat) (nchan : Int) (hn : nchan ≠ 0) :
    pretendOK o seq nchan (pretendObs p seq nchan) = true := by
  have typedCase : ∀ (mk : List Int → Data) (xs : List Int),
      (∀ l, (mk l).kind = (mk xs).kind) → (∀ l, (mk l).len = l.length) → (∀ l, (mk l).vals = l) →
      (∀ l, (mk l).typed = true) → p.data = mk xs →
      (pretendObs p seq nchan = (pretendVals xs nchan).bind fun ys =>
          .ok { seq := seq, len := length p, fr := frames p, data := mk ys }) →
      pretendOK o seq nchan (pretendObs p seq nchan) = true := by
    intro mk xs hkind hlen hvals htyped hd hobs
    obtain ⟨ys, hys, hl, hget⟩ := pretendVals_spec xs nchan hn
    rw [hobs, hys]
    simp only [Res.bind, pretendOK, h1, h2, h3, hd, hkind ys, hlen, hvals, htyped, hl,
      beq_self_eq_true, Bool.true_and, Bool.not_true, Bool.false_or, List.all_eq_true, List.mem_range]
    intro i hi
    rw [hget i hi]
    exact beq_self_eq_true _
  cases hd : p.data with
  | none =>
    simp [pretendObs, makePretend, hd, Res.bind, pretendOK, h1, h2, h3, length, frames, Data.typed]
  | raw bs =>
    simp [pretendObs, makePretend, hd, Res.bind, pretendOK, h1, h2, h3, length, frames, Data.typed]
  | i16 xs =>
    refine typedCase .i16 xs (fun _ => rfl) (fun _ => rfl) (fun _ => rfl) (fun _ => rfl) hd ?_
    simp only [pretendObs, makePretend, hd]
    cases pretendVals xs nchan <;> rfl
  | i32 xs =>
    refine typedCase .i32 xs (fun _ => rfl) (fun _ => rfl) (fun _ => rfl) (fun _ => rfl) hd ?_
    simp only [pretendObs, makePretend, hd]
    cases pretendVals xs nchan <;> rfl
  | i64 xs =>
    refine typedCase .i64 xs (fun _ => rfl) (fun _ => rfl) (fun _ => rfl) (fun _ => rfl) hd ?_
    simp only [pretendObs, makePretend, hd]
    cases pretendVals xs nchan <;> rfl

/-! ### Assembly: the accessor oracle holds on the observation of a decoded packet -/

theorem all_zip_map {α β : Type} (l : List α) (g : α → β) (P : α × β → Bool)
    (h : ∀ a ∈ l, P (a, g a) = true) : (l.zip (l.map g)).all P = true := by
  induction l with
  | nil => rfl
  | cons a r ih =>
    simp only [List.map_cons, List.zip_cons_cons, List.all_cons, Bool.and_eq_true]
    exact ⟨h a (by simp), ih (fun b hb => h b (by simp [hb]))⟩

theorem accOK_of_decInv (p : Packet) (hl pl n : Nat) (inv : DecInv p hl pl)
    (hn : n = hl + p.data.len * p.data.wsize) (hle : n ≤ hl + pl)
    (reads : List Int) (pseq : Nat) (pn : Int) :
    accOK (hl, pl) reads pseq pn (observe p n reads pseq pn) = true := by
  obtain ⟨F, N, hF, hC, hN1, hFN, hsh⟩ := frames_chan p hl pl inv
  have hoff := inv.hdr.1
  have ofr : (observe p n reads pseq pn).fr = .ok (F : Int) := hF
  have oci : (observe p n reads pseq pn).ci = .ok ((N : Int), (p.offset : Int)) := hC
  have odata : (observe p n reads pseq pn).data = p.data := rfl
  have olen : (observe p n reads pseq pn).len = length p := rfl
  have osh : (observe p n reads pseq pn).sh = p.shape := rfl
  have ord : (observe p n reads pseq pn).rd = reads.map (readValue p) := rfl
  have ocons : (observe p n reads pseq pn).consumed = n := rfl
  have opp : (observe p n reads pseq pn).pp = pretendObs p pseq pn := rfl
  have opa : (observe p n reads pseq pn).pa = some (pretendObs p ((pseq + 1) % 4294967296) (N : Int)) := by
    simp only [observe, hC]
  have ots : (observe p n reads pseq pn).ts = tsCounter p := rfl
  have hwsz : p.data.len * p.data.wsize ≤ pl := by omega
  simp only [accOK, accClauses, List.all_cons, List.all_nil, Bool.and_true, Bool.and_eq_true]
  refine ⟨?_, ?_, ?_, ?_, ?_, ?_, ?_, ?_, ?_, ?_, ?_, ?_, ?_⟩
  · -- length
    rw [olen]; simp [length, inv.plen]
  · -- consumed
    rw [ocons, odata]
    simp only [decide_eq_true_eq, beq_iff_eq]
    exact ⟨hle, hn.symm⟩
  · rw [ofr]; rfl
  · rw [ofr]; simp
  · rw [oci]; rfl
  · -- chaninfo-range
    rw [oci, osh]
    simp only [Bool.and_eq_true, decide_eq_true_eq]
    refine ⟨⟨⟨by omega, by omega⟩, by omega⟩, ?_⟩
    cases hs : p.shape with
    | none => rw [hs] at hsh; simp [hsh]
    | some s =>
      rw [hs] at hsh
      simp only [Bool.and_eq_true, beq_iff_eq, List.all_eq_true, decide_eq_true_eq]
      exact ⟨hsh.1, fun d hd => hsh.2 d hd⟩
  · -- sizes
    rw [ofr, oci, odata]
    simp only [decide_eq_true_eq]
    refine ⟨?_, hwsz⟩
    rw [← Int.natCast_mul]
    exact Int.ofNat_le.mpr hFN
  · -- read-panic
    rw [ord]
    simp only [List.all_eq_true, List.mem_map, List.length_map, beq_self_eq_true, and_true]
    rintro r ⟨i, _, rfl⟩
    obtain ⟨v, hv, _⟩ := readValue_spec p F N hF hN1 hFN i
    rw [hv]; rfl
  · -- read-value
    rw [ord, ofr, odata]
    apply all_zip_map
    intro i _
    obtain ⟨v, hv, hc⟩ := readValue_spec p F N hF hN1 hFN i
    simp only [hv]
    exact hc
  · -- pretend
    by_cases hpn : pn = 0
    · simp [hpn]
    · rw [opp, pretendOK_obs p _ olen (ofr.trans hF.symm) odata pseq pn hpn]
      simp
  · -- pretend with the channel count of ChannelInfo
    rw [opa, oci]
    have hN0 : (N : Int) ≠ 0 := by omega
    simp only
    rw [pretendOK_obs p _ olen (ofr.trans hF.symm) odata _ (N : Int) hN0]
    simp
  · -- timestamp
    rw [ots]
    cases hts : p.ts with
    | none => simp [tsCounter, hts]
    | some t => simpa [tsCounter, hts] using inv.hdr.2.1 t hts
  · -- clear
    simp [observe, clearData, frames, channelInfo, Data.len, Data.kind]

end DastardV.C15
