/-
"The samples on the wire are the samples of the stream" (C01 ∘ C14).

`pipeline_to_wire` (ComposeWire) says that the messages on the pulse-record port decode, one per published
record and in order, to the record's fields; `chanRecs_excerpts` (ComposeExcerpt) says that every record
published for channel `j` is the excerpt of the stream delivered to the channel, `chanStream j ops`, that
starts `npre` samples before the record's trigger frame.  Here the two are composed, for a source from
`PrepareRun`, every channel and any history of blocks with group-trigger requests woven in — the run's
existence being discharged by `C01_no_crash` exactly as in `file_samples_are_stream_excerpts_of_blocks`:

* `wire_samples_are_stream_excerpts`
      the `k`-th message on the pulse-record port for channel `j`, decoded with `C14.decRecord` at the
      documented offsets, carries channel number `twos 2 j`, the configured pre-trigger length and record
      length (as their 4-byte fields encode them), the frame `twos 8 frame_k` and the time stamp of the
      `k`-th record the source published for the channel, exactly `nsamp` samples, and these are the `nsamp`
      consecutive samples of `chanStream j ops` from position `frame_k − f0 − npre` on, each reduced
      mod 65536 by the 16-bit encoding.

Restrictions (as for the file theorem): valid record lengths `3 ≤ npre < nsamp`; requests woven into the
history are group-trigger edits only (`KeepsSettings` — no ConfigureTriggers / ConfigurePulseLengths during
the run, so edge-multi stays off as `PrepareRun` leaves it and the record lengths stay the configured ones);
the blocks carry one segment per channel, equal lengths, consecutive frame numbers from `f0` (`OpsOK`) and
one sample period (`OnePeriod`).  The two float32 constants of the channel (sample period, volts per
arbitrary unit) travel as opaque bit patterns (`toMsgRec`).
-/
import DastardV.Lemmas.ComposeWire
import DastardV.Lemmas.ComposeExcerpt
namespace DastardV.Compose
open Pipe Trig C01

/-- the `k`-th message the publisher sends is the encoding of the `k`-th record of the flattened batches -/
theorem wireOf_getElem? (batches : List (List C14.Rec)) (k : Nat) :
    (wireOf batches)[k]? = (batches.flatten[k]?).map C14.encRecord := by
  simp only [wireOf, List.getElem?_map]

/-- **The samples on the wire are the samples of the stream.**  A source from `PrepareRun` (any restored
trigger settings, valid record lengths), any history `ops` of blocks as a data source delivers them
(`OpsOK`: one segment per channel, equal lengths, consecutive frame numbers starting at `f0`) with one
sample period, with group-trigger requests woven in (`KeepsSettings`): the source does not crash, and for
every channel `j` — the channel's records reaching the publisher goroutine in any batching — the messages on
the pulse-record port are one per published record, and the `k`-th message `m`, `r` being the `k`-th record
the source published for the channel, decodes at the documented offsets to a message `M` that

* carries channel number `twos 2 j`, the configured `npre` and `nsamp` in its 4-byte length fields, the
  data type by the record's signedness, the record's frame `twos 8 r.frame` and time stamp `twos 8 r.time`,
* has exactly `nsamp` samples,
* and they are the `nsamp` consecutive samples of the stream delivered to the channel, `chanStream j ops`
  (sample 0 = frame `f0`), from position `a = r.frame − f0 − npre` on — i.e. starting `npre` samples before
  the record's trigger frame, all inside the stream —, each reduced mod 65536 by the 16-bit encoding. -/
theorem wire_samples_are_stream_excerpts (nch : Nat) (npre nsamp : Int) (saved : List (Nat × TS))
    (hv : 3 ≤ npre ∧ npre < nsamp) (zts : List (List (Int × Int)))
    (hzt : ∀ (j : Nat) (p : Int), -1 ≤ ztOf (zts[j]?.getD []) p ∧ ztOf (zts[j]?.getD []) p ≤ 1)
    (per f0 : Int) (ops : List Op) (hok : OpsOK nch f0 ops)
    (hper : ∀ o ∈ ops, OnePeriod per o) (hk : ∀ o ∈ ops, KeepsSettings o) :
    ∃ outs, runOps zts (prepare nch npre nsamp saved) ops = some outs ∧
      ∀ (j : Nat), j < nch →
        ∀ (periodBits vpaBits : Nat) (batches : List (List C14.Rec)),
          batches.flatten = (chanRecs j outs).map (toMsgRec j periodBits vpaBits) →
          let recs := chanRecs j outs
          let S := chanStream j ops
          let wire := wireOf batches
          wire.length = recs.length ∧
          ∀ (k : Nat) (m : List Nat × List Nat), wire[k]? = some m →
            ∃ r M, recs[k]? = some r ∧ C14.decRecord m.1 m.2 = some M ∧
              M.channel = C14.twos 2 j ∧
              M.presamples = C14.twos 4 npre ∧
              (M.nsamples : Int) = nsamp % 2 ^ 32 ∧
              M.dtype = (if r.signed then 2 else 3) ∧
              M.frame = C14.twos 8 r.frame ∧
              M.timeNs = C14.twos 8 r.time ∧
              (M.samples.length : Int) = nsamp ∧
              ∃ a : Nat, (a : Int) = r.frame - f0 - npre ∧ a + nsamp.toNat ≤ S.length ∧
                M.samples = ((S.drop a).take nsamp.toNat).map (· % 65536) := by
  obtain ⟨outs, hrun, hall⟩ := prepared_source_to_ljh22_file nch npre nsamp saved hv zts hzt ops f0 hok hk
  refine ⟨outs, hrun, ?_⟩
  intro j hj periodBits vpaBits batches hbat
  obtain ⟨hlen, _⟩ := hall j hj
  have hex := chanRecs_excerpts zts per f0 nch npre nsamp saved (by omega) ops f0 outs hok
    (contig_of_opsOK per f0 nch ops hok hper) hrun j hj
  simp only
  refine ⟨by simp [wireOf, hbat], ?_⟩
  intro k m hm
  rw [wireOf_getElem?, hbat, List.getElem?_map] at hm
  cases hr : (chanRecs j outs)[k]? with
  | none => simp [hr] at hm
  | some r =>
    simp only [hr, Option.map_some, Option.some.injEq] at hm
    subst hm
    have hmem : r ∈ chanRecs j outs := List.mem_of_getElem? hr
    obtain ⟨hl, hnp⟩ := hlen r hmem
    obtain ⟨a, ha, hle, hdata⟩ := hex r hmem
    have hln : r.data.length = nsamp.toNat := by omega
    refine ⟨r, _, rfl, C14.C14_record_roundtrip _, rfl, ?_, ?_, rfl, rfl, rfl, ?_, a, ?_, ?_, ?_⟩
    · simp only [C14.expectRecord, toMsgRec, hnp]
    · simp only [C14.expectRecord, toMsgRec]
      rw [← hl]; omega
    · simp only [C14.expectRecord, toMsgRec, List.length_map]; exact hl
    · rw [ha, hnp]
    · rw [← hln]; exact hle
    · simp only [C14.expectRecord, toMsgRec]
      rw [← hln, ← hdata]

/-- non-vacuity: an ordinary history (two channels, two blocks with a connection request in between, frames
from 100 on, sample period 1000) meets the hypotheses on the history, and the batching hypothesis is met by
sending every record on its own -/
example : OpsOK 2 100 [.block 100 0 1000 [false, false] [[1, 2, 3], [4, 5, 6]], .gadd [(0, 1)],
      .block 103 3000 1000 [false, false] [[7], [8]]] ∧
    (∀ o ∈ [Op.block 100 0 1000 [false, false] [[1, 2, 3], [4, 5, 6]], .gadd [(0, 1)],
      .block 103 3000 1000 [false, false] [[7], [8]]], OnePeriod 1000 o) ∧
    (∀ o ∈ [Op.block 100 0 1000 [false, false] [[1, 2, 3], [4, 5, 6]], .gadd [(0, 1)],
      .block 103 3000 1000 [false, false] [[7], [8]]], KeepsSettings o) ∧
    ∀ (rs : List C14.Rec), (rs.map fun r => [r]).flatten = rs := by
  refine ⟨⟨rfl, 3, by simp, by decide, rfl, ⟨rfl, 1, by simp, by decide, rfl, trivial⟩⟩, ?_, ?_, ?_⟩
  · intro o ho
    simp only [List.mem_cons, List.not_mem_nil, or_false] at ho
    rcases ho with rfl | rfl | rfl <;> first | rfl | trivial
  · intro o ho
    simp only [List.mem_cons, List.not_mem_nil, or_false] at ho
    rcases ho with rfl | rfl | rfl <;> trivial
  · intro rs
    induction rs with
    | nil => rfl
    | cons r rs ih => simp [ih]

end DastardV.Compose
