/-
`sortAsc` is a sorting permutation; the auto pass (`autoLoop`) never panics and its triggers
are in range; `triggerData` outside edge-multi never panics.
-/
import DastardV.Lemmas.Level
namespace DastardV.Trig

theorem mem_insertAsc {x y : Int} : ∀ {l : List Int}, y ∈ insertAsc x l ↔ y = x ∨ y ∈ l
  | [] => by simp [insertAsc]
  | z :: zs => by
    simp only [insertAsc]
    split
    · simp
    · simp only [List.mem_cons, mem_insertAsc (l := zs)]
      constructor
      · rintro (h | h | h) <;> simp [h]
      · rintro (h | h | h) <;> simp [h]

theorem mem_sortAsc {y : Int} : ∀ {l : List Int}, y ∈ sortAsc l ↔ y ∈ l
  | [] => by simp [sortAsc]
  | x :: xs => by simp [sortAsc, mem_insertAsc, mem_sortAsc (l := xs)]

theorem insertAsc_sorted {x : Int} : ∀ {l : List Int}, l.Pairwise (· ≤ ·) → (insertAsc x l).Pairwise (· ≤ ·)
  | [], _ => by simp [insertAsc]
  | z :: zs, h => by
    obtain ⟨h1, h2⟩ := List.pairwise_cons.mp h
    simp only [insertAsc]
    split
    · rename_i hxz
      refine List.pairwise_cons.mpr ⟨?_, h⟩
      intro a ha
      rcases List.mem_cons.mp ha with rfl | ha
      · exact hxz
      · have := h1 a ha; omega
    · rename_i hxz
      refine List.pairwise_cons.mpr ⟨?_, insertAsc_sorted h2⟩
      intro a ha
      rcases mem_insertAsc.mp ha with rfl | ha
      · omega
      · exact h1 a ha

theorem sortAsc_sorted : ∀ (l : List Int), (sortAsc l).Pairwise (· ≤ ·)
  | [] => by simp [sortAsc]
  | x :: xs => by simp only [sortAsc]; exact insertAsc_sorted (sortAsc_sorted xs)

/-- a record cut at index `x` cannot fail: `npre ≤ x` and `x + nsamp − npre ≤ len` -/
def InRange (c : Chan) (x : Int) : Prop := c.npre ≤ x ∧ x + c.nsamp - c.npre ≤ c.buf.length

theorem cut_some {c : Chan} {x : Int} (hr : InRange c x) (hns : 0 ≤ c.nsamp) :
    ∃ r, cut c x c.npre c.nsamp = some r := by
  unfold cut
  have : ¬ c.nsamp < 0 := by omega
  simp only [this, if_false]
  unfold sliceI
  have hc : 0 ≤ x - c.npre ∧ x - c.npre ≤ x + c.nsamp - c.npre ∧ x + c.nsamp - c.npre ≤ (c.buf.length : Int) := by
    obtain ⟨h1, h2⟩ := hr; omega
  simp only [hc, and_self, if_true]
  exact ⟨_, rfl⟩

theorem cutAll_some {c : Chan} (hns : 0 ≤ c.nsamp) : ∀ (is : List Int), (∀ x ∈ is, InRange c x) →
    ∃ rs, cutAll c is = some rs
  | [], _ => ⟨[], rfl⟩
  | i :: is, h => by
    obtain ⟨r, hr⟩ := cut_some (h i (by simp)) hns
    obtain ⟨rs, hrs⟩ := cutAll_some hns is (fun x hx => h x (List.mem_cons_of_mem _ hx))
    exact ⟨r :: rs, by simp [cutAll, hr, hrs]⟩

theorem spanOf_some {raw : List Nat} {b f : Int} (h0 : 0 ≤ b) (h1 : b < raw.length) (h2 : f ≤ raw.length) :
    ∃ s, spanOf raw b f = some s := by
  unfold spanOf
  obtain ⟨x0, hx0⟩ := rd_some (raw := raw) (i := b) h0 h1
  simp only [hx0]
  split
  · exact ⟨_, rfl⟩
  · rename_i hbf
    have hc : 0 ≤ b + 1 ∧ b + 1 ≤ f ∧ f ≤ (raw.length : Int) := by omega
    simp only [sliceI, hc, and_self, if_true]
    exact ⟨_, rfl⟩

/-- the auto loop never panics; every trigger it adds is in range -/
theorem autoLoop_spec (c : Chan) (delay : Int) (hd : 0 < delay) (hns : 1 ≤ c.nsamp) (hnp : 0 ≤ c.npre) :
    ∀ (found : List Int) (n : Nat) (npt : Int) (acc : List Int),
      ((c.buf.length : Int) + c.npre - c.nsamp - npt).toNat ≤ n → c.npre ≤ npt → (∀ t ∈ found, c.npre ≤ t) →
      ∃ res, autoLoop c c.buf.length delay hd npt found acc = some (acc ++ res) ∧
        ∀ x ∈ res, c.npre ≤ x ∧ x + c.nsamp - c.npre < c.buf.length := by
  intro found
  induction found with
  | nil =>
    intro n
    induction n with
    | zero =>
      intro npt acc hn hp _
      refine ⟨[], ?_, by simp⟩
      rw [autoLoop]
      have : ¬ npt + c.nsamp - c.npre < (c.buf.length : Int) := by omega
      simp [this]
    | succ n ih =>
      intro npt acc hn hp hf
      by_cases hlt : npt + c.nsamp - c.npre < (c.buf.length : Int)
      · obtain ⟨sp, hsp⟩ := spanOf_some (raw := c.buf) (b := npt - c.npre) (f := npt - c.npre + c.nsamp)
          (by omega) (by omega) (by omega)
        obtain ⟨r1, hr1, hx1⟩ := ih (npt + delay) acc (by omega) (by omega) hf
        obtain ⟨r2, hr2, hx2⟩ := ih (npt + delay) (acc ++ [npt]) (by omega) (by omega) hf
        rw [autoLoop]
        simp only [hlt, if_true, hsp]
        by_cases hv : c.ts.autoVeto > 0
        · simp only [hv, if_true]
          by_cases hge : sp ≥ c.ts.autoVeto
          · simp only [hge, if_true]; exact ⟨r1, hr1, hx1⟩
          · simp only [hge, if_false]
            refine ⟨npt :: r2, by simp [hr2], ?_⟩
            intro x hx
            rcases List.mem_cons.mp hx with rfl | hx
            · exact ⟨hp, hlt⟩
            · exact hx2 x hx
        · simp only [hv, if_false]
          refine ⟨npt :: r2, by simp [hr2], ?_⟩
          intro x hx
          rcases List.mem_cons.mp hx with rfl | hx
          · exact ⟨hp, hlt⟩
          · exact hx2 x hx
      · refine ⟨[], ?_, by simp⟩
        rw [autoLoop]; simp [hlt]
  | cons nf rest ihf =>
    intro n
    induction n with
    | zero =>
      intro npt acc hn hp _
      refine ⟨[], ?_, by simp⟩
      rw [autoLoop]
      have : ¬ npt + c.nsamp - c.npre < (c.buf.length : Int) := by omega
      simp [this]
    | succ n ih =>
      intro npt acc hn hp hf
      by_cases hlt : npt + c.nsamp - c.npre < (c.buf.length : Int)
      · rw [autoLoop]
        simp only [hlt, if_true]
        by_cases hfit : npt + c.nsamp ≤ nf
        · simp only [hfit, if_true]
          obtain ⟨sp, hsp⟩ := spanOf_some (raw := c.buf) (b := npt - c.npre) (f := npt - c.npre + c.nsamp)
            (by omega) (by omega) (by omega)
          obtain ⟨r1, hr1, hx1⟩ := ih (npt + delay) acc (by omega) (by omega) hf
          obtain ⟨r2, hr2, hx2⟩ := ih (npt + delay) (acc ++ [npt]) (by omega) (by omega) hf
          simp only [hsp]
          by_cases hv : c.ts.autoVeto > 0
          · simp only [hv, if_true]
            by_cases hge : sp ≥ c.ts.autoVeto
            · simp only [hge, if_true]; exact ⟨r1, hr1, hx1⟩
            · simp only [hge, if_false]
              refine ⟨npt :: r2, by simp [hr2], ?_⟩
              intro x hx
              rcases List.mem_cons.mp hx with rfl | hx
              · exact ⟨hp, hlt⟩
              · exact hx2 x hx
          · simp only [hv, if_false]
            refine ⟨npt :: r2, by simp [hr2], ?_⟩
            intro x hx
            rcases List.mem_cons.mp hx with rfl | hx
            · exact ⟨hp, hlt⟩
            · exact hx2 x hx
        · simp only [hfit, if_false]
          have hnf : c.npre ≤ nf := hf nf (by simp)
          exact ihf _ (nf + delay) acc (Nat.le_refl _) (by omega) (fun t ht => hf t (List.mem_cons_of_mem _ ht))
      · refine ⟨[], ?_, by simp⟩
        rw [autoLoop]; simp [hlt]

end DastardV.Trig
