/-
Edge-multi: the record-extent rule (`shouldRecord`) and the search (`findNext`, `monoRun`,
`ztApply`) never read outside the buffer.
-/
import DastardV.Lemmas.Edge
namespace DastardV.Trig

/-! ### `shouldRecord` -/

/-- fixed-length modes always give full-length records with the configured pre-trigger length -/
theorem shouldRecord_fixed {t u v npreIn nsampIn : Int} {mode : EMTMode} {sp : Spec}
    (hm : mode ≠ .variable) (h : shouldRecord t u v npreIn nsampIn mode = some sp) :
    sp.frame = u ∧ sp.npre = npreIn ∧ sp.nsamp = nsampIn := by
  unfold shouldRecord at h
  simp only at h
  split at h
  · simp at h
  · rcases mode with _ | _ | _
    · simp only [Option.some.injEq] at h; subst h; exact ⟨rfl, rfl, rfl⟩
    · exact absurd rfl hm
    · simp only at h
      split at h
      · simp only [Option.some.injEq] at h; subst h; exact ⟨rfl, rfl, rfl⟩
      · simp at h

/-- a record is only made for a trigger distinct from its neighbours (each edge at most once) -/
theorem shouldRecord_distinct {t u v npreIn nsampIn : Int} {mode : EMTMode} {sp : Spec}
    (h : shouldRecord t u v npreIn nsampIn mode = some sp) : sp.frame = u ∧ u ≠ 0 ∧ u ≠ v ∧ u ≠ t := by
  unfold shouldRecord at h
  simp only at h
  split at h
  · simp at h
  · rename_i hne
    have hne' : u ≠ 0 ∧ u ≠ v ∧ u ≠ t := by omega
    refine ⟨?_, hne'⟩
    rcases mode with _ | _ | _
    · simp only [Option.some.injEq] at h; subst h; rfl
    · simp only [Option.some.injEq] at h; subst h; rfl
    · simp only at h
      split at h
      · simp only [Option.some.injEq] at h; subst h; rfl
      · simp at h

/-- variable-length mode: the record of `u` (between neighbours `t < u < v`) starts no earlier than
the end of `t`'s record, ends no later than `v`, and has its trigger inside it. -/
theorem shouldRecord_variable {t u v npreIn nsampIn : Int} {sp : Spec}
    (htu : t < u) (huv : u < v) (hpre : 0 ≤ npreIn) (hlen : npreIn ≤ nsampIn)
    (h : shouldRecord t u v npreIn nsampIn .variable = some sp) :
    sp.frame = u ∧ 0 ≤ sp.npre ∧ sp.npre ≤ sp.nsamp ∧
      -- start of this record ≥ end of the previous trigger's record (its post part is min(npost, u−t))
      t + imin (nsampIn - npreIn) (u - t) ≤ sp.frame - sp.npre ∧
      -- end of this record ≤ the next trigger
      sp.frame - sp.npre + sp.nsamp ≤ v := by
  unfold shouldRecord at h
  simp only at h
  split at h
  · simp at h
  · simp only [Option.some.injEq] at h
    subst h
    refine ⟨rfl, ?_, ?_, ?_, ?_⟩ <;> simp only [imin] <;> (repeat' split) <;> omega

/-! ### the search never reads outside the buffer -/

theorem monoRun_some (raw : List Nat) (rising : Bool) (i maxN : Int) (hi1 : 1 ≤ i)
    (hlen : i + maxN < raw.length) :
    ∀ (n : Nat) (j : Int), (maxN - j).toNat ≤ n → 1 ≤ j → j ≤ maxN →
      ∃ r, monoRun raw rising i maxN j = some r ∧ j ≤ r ∧ r ≤ maxN := by
  intro n
  induction n with
  | zero =>
    intro j hn hj1 hjm
    obtain ⟨a, ha⟩ := rd_some (raw := raw) (i := i + j) (by omega) (by omega)
    obtain ⟨b, hb⟩ := rd_some (raw := raw) (i := i + j - 1) (by omega) (by omega)
    rw [monoRun]
    simp only [ha, hb]
    have : j ≥ maxN := by omega
    simp only [this, decide_true, Bool.or_true, if_true]
    exact ⟨j, rfl, by omega, hjm⟩
  | succ n ih =>
    intro j hn hj1 hjm
    obtain ⟨a, ha⟩ := rd_some (raw := raw) (i := i + j) (by omega) (by omega)
    obtain ⟨b, hb⟩ := rd_some (raw := raw) (i := i + j - 1) (by omega) (by omega)
    rw [monoRun]
    simp only [ha, hb]
    split
    · exact ⟨j, rfl, by omega, hjm⟩
    · rename_i hcont
      have hjlt : j < maxN := by
        simp only [Bool.or_eq_true, Bool.not_eq_true', decide_eq_true_eq, not_or] at hcont
        omega
      obtain ⟨r, hr, h1, h2⟩ := ih (j + 1) (by omega) (by omega) (by omega)
      exact ⟨r, hr, by omega, h2⟩

/-- whatever `monoRun` returns lies between its start count and the look-ahead limit -/
theorem monoRun_range (raw : List Nat) (rising : Bool) (i maxN : Int) (_hmax : 1 ≤ maxN) :
    ∀ (n : Nat) (j r : Int), (maxN - j).toNat ≤ n → 1 ≤ j → j ≤ maxN →
      monoRun raw rising i maxN j = some r → j ≤ r ∧ r ≤ maxN := by
  intro n
  induction n with
  | zero =>
    intro j r hn hj1 hjm h
    rw [monoRun] at h
    split at h
    · dsimp only at h
      have : j ≥ maxN := by omega
      simp only [this, decide_true, Bool.or_true, if_true, Option.some.injEq] at h
      omega
    · simp at h
  | succ n ih =>
    intro j r hn hj1 hjm h
    rw [monoRun] at h
    split at h
    · dsimp only at h
      split at h
      · simp only [Option.some.injEq] at h; omega
      · rename_i hcont
        have hjlt : j < maxN := by
          simp only [Bool.or_eq_true, Bool.not_eq_true', decide_eq_true_eq, not_or] at hcont
          omega
        have := ih (j + 1) r (by omega) (by omega) (by omega) h
        omega
    · simp at h

theorem ztApply_some {raw : List Nat} {first : Int} {zt : ZT} {enable : Bool} {i : Int}
    (h4 : enable = true → 4 ≤ i ∧ i + 3 < raw.length) : ∃ t, ztApply raw first zt enable i = some t := by
  unfold ztApply
  cases enable with
  | false => exact ⟨i, by simp⟩
  | true =>
    obtain ⟨h1, h2⟩ := h4 rfl
    obtain ⟨a, ha⟩ := rd_some (raw := raw) (i := i - 4) (by omega) (by omega)
    obtain ⟨b, hb⟩ := rd_some (raw := raw) (i := i + 3) (by omega) (by omega)
    simp only [Bool.not_true, Bool.false_eq_true, if_false, ha, hb]
    exact ⟨_, rfl⟩

/-- `findNext` never reads outside `raw` when the scan stays within `[1, len−1−maxN]`, the
look-ahead limit is at least 1, and (with zero-threshold) there are 4 samples of look-back
and 3 of look-ahead around every scanned index. -/
theorem findNext_some (raw : List Nat) (first : Int) (zt : ZT) (iFirst iLast thr nmono maxN : Int) (ezt : Bool)
    (hmax : 1 ≤ maxN) (hlast : iLast + maxN < raw.length)
    (hz : ezt = true → 3 ≤ maxN) :
    ∀ (n : Nat) (i : Int), (iLast + 1 - i).toNat ≤ n → 1 ≤ i → (ezt = true → 4 ≤ i) →
      ∃ x, findNext raw first zt iFirst iLast thr nmono maxN ezt i = some x ∧
        (x.found = true → i ≤ x.nextI ∧ x.nextI ≤ iLast + maxN + 1) := by
  intro n
  induction n with
  | zero =>
    intro i hn _ _
    have : ¬ i ≤ iLast := by omega
    unfold findNext
    simp only [this, if_false]
    exact ⟨_, rfl, by simp⟩
  | succ n ih =>
    intro i hn h1 h4
    by_cases hle : i ≤ iLast
    · obtain ⟨a, ha⟩ := rd_some (raw := raw) (i := i) (by omega) (by omega)
      obtain ⟨b, hb⟩ := rd_some (raw := raw) (i := i - 1) (by omega) (by omega)
      unfold findNext
      simp only [hle, if_true, ha, hb]
      split
      · -- threshold exceeded: look at the monotone run
        obtain ⟨fm, hfm, hf1, hf2⟩ := monoRun_some raw (decide (thr ≥ 1)) i maxN h1 (by omega) _ 1
          (Nat.le_refl _) (by omega) hmax
        simp only [hfm]
        split
        · obtain ⟨t, ht⟩ := ztApply_some (raw := raw) (first := first) (zt := zt) (enable := ezt) (i := i)
            (fun he => ⟨h4 he, by have := hz he; omega⟩)
          simp only [ht]
          exact ⟨_, rfl, fun _ => ⟨by simp; omega, by simp; omega⟩⟩
        · obtain ⟨x, hx, hr⟩ := ih (i + 1) (by omega) (by omega) (fun he => by have := h4 he; omega)
          exact ⟨x, hx, fun hf => by have := hr hf; omega⟩
      · obtain ⟨x, hx, hr⟩ := ih (i + 1) (by omega) (by omega) (fun he => by have := h4 he; omega)
        exact ⟨x, hx, fun hf => by have := hr hf; omega⟩
    · unfold findNext
      simp only [hle, if_false]
      exact ⟨_, rfl, by simp⟩

end DastardV.Trig
