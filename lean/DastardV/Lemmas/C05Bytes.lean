/-
C05 — byte-level helper lemmas for `Model/C05.lean`: little-endian fields, word lists,
chunk skipping, the generic record-sequence parser.
-/
import DastardV.Model.C05
namespace DastardV.C05

theorem le_length (w n : Nat) : (le w n).length = w := by
  induction w generalizing n with
  | zero => rfl
  | succ w ih => simp [le, ih]

theorem unle_le (w n : Nat) : unle (le w n) = n % 256 ^ w := by
  induction w generalizing n with
  | zero => simp [le, unle, Nat.mod_one]
  | succ w ih =>
    simp only [le, unle, ih]
    rw [Nat.pow_succ', Nat.mod_mul]

theorem le_lt (w n : Nat) : ∀ x ∈ le w n, x < 256 := by
  induction w generalizing n with
  | zero => intro x hx; simp [le] at hx
  | succ w ih =>
    intro x hx
    simp only [le, List.mem_cons] at hx
    rcases hx with rfl | hx
    · omega
    · exact ih _ x hx

/-- re-encoding the value of `w` bytes gives the bytes back -/
theorem le_unle (bs : Bytes) (hb : ∀ x ∈ bs, x < 256) : le bs.length (unle bs) = bs := by
  induction bs with
  | nil => rfl
  | cons x xs ih =>
    have hx : x < 256 := hb x (by simp)
    have hxs : ∀ y ∈ xs, y < 256 := fun y hy => hb y (by simp [hy])
    simp only [List.length_cons, le, unle]
    have h1 : (x + 256 * unle xs) % 256 = x := by omega
    have h2 : (x + 256 * unle xs) / 256 = unle xs := by omega
    rw [h1, h2, ih hxs]

theorem unle_lt (bs : Bytes) (hb : ∀ x ∈ bs, x < 256) : unle bs < 256 ^ bs.length := by
  induction bs with
  | nil => simp [unle]
  | cons x xs ih =>
    have hx : x < 256 := hb x (by simp)
    have hxs : ∀ y ∈ xs, y < 256 := fun y hy => hb y (by simp [hy])
    have := ih hxs
    simp only [unle, List.length_cons, Nat.pow_succ']
    omega

theorem twos_lt (w : Nat) (x : Int) : twos w x < 256 ^ w := by
  unfold twos
  have hpos : (0 : Int) < ((256 ^ w : Nat) : Int) := by
    exact_mod_cast Nat.pow_pos (n := w) (by decide : 0 < 256)
  have h1 := Int.emod_lt_of_pos x hpos
  have h0 := Int.emod_nonneg x (Int.ne_of_gt hpos)
  omega

theorem twos_mod (w : Nat) (x : Int) : twos w x % 256 ^ w = twos w x :=
  Nat.mod_eq_of_lt (twos_lt w x)

/-- the signed reading of the two's complement image is the integer itself, inside the range -/
theorem toSigned_twos (w : Nat) (x : Int)
    (hlo : -((256 ^ w : Nat) : Int) ≤ 2 * x) (hhi : 2 * x < ((256 ^ w : Nat) : Int)) :
    toSigned w (twos w x) = x := by
  unfold toSigned twos
  have hM : 0 < 256 ^ w := Nat.pow_pos (by decide : 0 < 256)
  generalize 256 ^ w = M at *
  have hpos : (0 : Int) < (M : Int) := by exact_mod_cast hM
  by_cases hx : 0 ≤ x
  · have hxm : x % (M : Int) = x := Int.emod_eq_of_lt hx (by omega)
    rw [hxm]
    split <;> omega
  · have hxm : x % (M : Int) = x + M := by
      have h2 : (x + M) % (M : Int) = x % M := by simp
      rw [← h2]
      exact Int.emod_eq_of_lt (by omega) (by omega)
    rw [hxm]
    split <;> omega

/-! ### chunks at the head of a byte string -/

theorem take_le (w n : Nat) (rest : Bytes) : (le w n ++ rest).take w = le w n :=
  List.take_left' (le_length w n)

theorem drop_le (w n : Nat) (rest : Bytes) (k : Nat) (h : w ≤ k) :
    (le w n ++ rest).drop k = rest.drop (k - w) := by
  rw [List.drop_append, le_length, List.drop_of_length_le (by rw [le_length]; exact h)]
  rfl

theorem unle_take_le (w n : Nat) (rest : Bytes) : unle ((le w n ++ rest).take w) = n % 256 ^ w := by
  rw [take_le, unle_le]

/-! ### word lists -/

theorem leWords_length (w : Nat) (xs : List Nat) : (leWords w xs).length = xs.length * w := by
  induction xs with
  | nil => simp [leWords]
  | cons x xs ih =>
    simp only [leWords, List.length_append, le_length, ih, List.length_cons]
    rw [Nat.add_mul]; omega

theorem unWords_leWords (w : Nat) (xs : List Nat) (rest : Bytes) :
    unWords w xs.length (leWords w xs ++ rest) = xs.map (· % 256 ^ w) := by
  induction xs with
  | nil => simp [unWords]
  | cons x xs ih =>
    simp only [leWords, List.length_cons, unWords, List.append_assoc, List.map_cons]
    rw [take_le, unle_le, List.drop_left' (le_length w x), ih]

theorem drop_leWords (w : Nat) (xs : List Nat) (rest : Bytes) :
    (leWords w xs ++ rest).drop (xs.length * w) = rest := by
  exact List.drop_left' (leWords_length w xs)

theorem map_mod_id (m : Nat) (xs : List Nat) (h : ∀ x ∈ xs, x < m) : xs.map (· % m) = xs := by
  induction xs with
  | nil => rfl
  | cons x xs ih =>
    simp only [List.map_cons]
    rw [Nat.mod_eq_of_lt (h x (by simp)), ih (fun y hy => h y (by simp [hy]))]

theorem unWords_length (w k : Nat) (bs : Bytes) : (unWords w k bs).length = k := by
  induction k generalizing bs with
  | zero => rfl
  | succ k ih => simp [unWords, ih]

/-- re-encoding `k` parsed words gives the first `k*w` bytes back -/
theorem leWords_unWords (w k : Nat) (bs : Bytes) (hb : ∀ x ∈ bs, x < 256) (hl : k * w ≤ bs.length) :
    leWords w (unWords w k bs) = bs.take (k * w) := by
  induction k generalizing bs with
  | zero => simp [unWords, leWords]
  | succ k ih =>
    have hw : w ≤ bs.length := by rw [Nat.succ_mul] at hl; omega
    have htl : (bs.take w).length = w := by simp [List.length_take]; omega
    have hbt : ∀ x ∈ bs.take w, x < 256 := fun x hx => hb x (List.mem_of_mem_take hx)
    have hbd : ∀ x ∈ bs.drop w, x < 256 := fun x hx => hb x (List.mem_of_mem_drop hx)
    have hld : k * w ≤ (bs.drop w).length := by
      rw [List.length_drop, Nat.succ_mul] at *; omega
    simp only [unWords, leWords]
    have h1 : le w (unle (bs.take w)) = bs.take w := by
      have := le_unle (bs.take w) hbt
      rwa [htl] at this
    rw [h1, ih (bs.drop w) hbd hld]
    rw [Nat.succ_mul, Nat.add_comm (k * w) w, List.take_add]

/-! ### the record-sequence parser -/

/-- if the record parser reads back the encoding of every record of the list (whatever follows
it), the concatenation of the encodings parses back to exactly the list of records -/
theorem parseMany_concat {α ρ} (pr : Bytes → Option (α × Bytes)) (enc : ρ → Bytes) (ex : ρ → α)
    (rs : List ρ)
    (hpr : ∀ r ∈ rs, ∀ rest, pr (enc r ++ rest) = some (ex r, rest))
    (hpos : ∀ r ∈ rs, enc r ≠ [])
    (fuel : Nat) (hf : (rs.flatMap enc).length ≤ fuel) :
    parseMany pr fuel (rs.flatMap enc) = some (rs.map ex) := by
  induction rs generalizing fuel with
  | nil => cases fuel <;> simp [parseMany]
  | cons r rs ih =>
    simp only [List.flatMap_cons]
    have hne := hpos r (by simp)
    have ih' := ih (fun q hq => hpr q (by simp [hq])) (fun q hq => hpos q (by simp [hq]))
    cases hE : enc r with
    | nil => exact absurd hE hne
    | cons x xs =>
      have hlen : (rs.flatMap enc).length + 1 ≤ fuel := by
        simp only [List.flatMap_cons, hE, List.length_append, List.length_cons] at hf
        omega
      cases fuel with
      | zero => omega
      | succ f =>
        show parseMany pr (f + 1) (x :: (xs ++ rs.flatMap enc)) = _
        have h := hpr r (by simp) (rs.flatMap enc)
        rw [hE] at h
        simp only [List.cons_append] at h
        simp only [parseMany, h, ih' f (by omega), List.map_cons]

/-- if every successful read consumes exactly `size a` bytes, a body that parses has length equal
to the sum of the sizes of its records: nothing is left over -/
theorem parseMany_length {α} (pr : Bytes → Option (α × Bytes)) (size : α → Nat)
    (hpr : ∀ bs a rest, pr bs = some (a, rest) → bs.length = size a + rest.length)
    (fuel : Nat) (bs : Bytes) (ps : List α) (h : parseMany pr fuel bs = some ps) :
    bs.length = (ps.map size).sum := by
  induction fuel generalizing bs ps with
  | zero =>
    cases bs with
    | nil => simp [parseMany] at h; subst h; rfl
    | cons x xs => simp [parseMany] at h
  | succ f ih =>
    cases bs with
    | nil => simp [parseMany] at h; subst h; rfl
    | cons x xs =>
      cases hp : pr (x :: xs) with
      | none => simp [parseMany, hp] at h
      | some ar =>
        obtain ⟨a, rest⟩ := ar
        cases hm : parseMany pr f rest with
        | none => simp [parseMany, hp, hm] at h
        | some as =>
          simp only [parseMany, hp, hm, Option.some.injEq] at h
          subst h
          rw [List.map_cons, List.sum_cons, ← ih rest as hm]
          exact hpr _ _ _ hp

/-- if every successful read consumes exactly the bytes of a re-encoding, every successful parse of
a body re-encodes to exactly that body: no byte is skipped, none is left over -/
theorem parseMany_unique {α} (pr : Bytes → Option (α × Bytes)) (re : α → Bytes)
    (hpr : ∀ bs a rest, pr bs = some (a, rest) → bs = re a ++ rest)
    (fuel : Nat) (bs : Bytes) (ps : List α) (h : parseMany pr fuel bs = some ps) :
    bs = ps.flatMap re := by
  induction fuel generalizing bs ps with
  | zero =>
    cases bs with
    | nil => simp [parseMany] at h; subst h; rfl
    | cons x xs => simp [parseMany] at h
  | succ f ih =>
    cases bs with
    | nil => simp [parseMany] at h; subst h; rfl
    | cons x xs =>
      cases hp : pr (x :: xs) with
      | none => simp [parseMany, hp] at h
      | some ar =>
        obtain ⟨a, rest⟩ := ar
        cases hm : parseMany pr f rest with
        | none => simp [parseMany, hp, hm] at h
        | some as =>
          simp only [parseMany, hp, hm, Option.some.injEq] at h
          subst h
          rw [List.flatMap_cons, ← ih rest as hm]
          exact hpr _ _ _ hp

/-- a trailing piece on which the record parser fails makes the whole body fail: a partial record
at the end of a file is detected -/
theorem parseMany_partial {α ρ} (pr : Bytes → Option (α × Bytes)) (enc : ρ → Bytes) (ex : ρ → α)
    (rs : List ρ)
    (hpr : ∀ r ∈ rs, ∀ rest, pr (enc r ++ rest) = some (ex r, rest))
    (hpos : ∀ r ∈ rs, enc r ≠ [])
    (tail : Bytes) (htail : tail ≠ []) (hfail : pr tail = none) (fuel : Nat) :
    parseMany pr fuel (rs.flatMap enc ++ tail) = none := by
  induction rs generalizing fuel with
  | nil =>
    simp only [List.flatMap_nil, List.nil_append]
    cases tail with
    | nil => exact absurd rfl htail
    | cons x xs => cases fuel <;> simp [parseMany, hfail]
  | cons r rs ih =>
    simp only [List.flatMap_cons, List.append_assoc]
    have ih' := ih (fun q hq => hpr q (by simp [hq])) (fun q hq => hpos q (by simp [hq]))
    cases hE : enc r with
    | nil => exact absurd hE (hpos r (by simp))
    | cons x xs =>
      cases fuel with
      | zero => simp [parseMany]
      | succ f =>
        have h := hpr r (by simp) (rs.flatMap enc ++ tail)
        rw [hE] at h
        simp only [List.cons_append] at h ⊢
        simp only [parseMany, h, ih' f]

end DastardV.C05
