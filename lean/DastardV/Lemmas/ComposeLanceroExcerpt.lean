/-
From the card's words to the samples in the file (C04 ∘ C01 ∘ C05, Lancero side).

`file_samples_are_stream_excerpts_of_blocks` (Lemmas/ComposeExcerpt.lean) says: the `k`-th record parsed
back from a channel's LJH 2.2 file has exactly `nsamp` samples, and they are the consecutive samples of
the stream DELIVERED to the pipeline channel (`chanStream j ops`) that start `npre` samples before the
record's trigger frame.  `C04_chunking_independent` says what the Lancero reader loop + `distributeData`
deliver, for every schedule of reads: `C04.concatChan blocks j` is, for an error channel
`j = 2(c·nrows+r)`, the `err` component of word (row `r`, column `c`) of the card's frames `0..N-1`, and
for a feedback channel the retarded / mixed feedback (`mixSpec`).  Here the two are joined:

* `chanStream_lblocks`   the stream delivered to pipeline channel `j` by block operations made from
                         Lancero blocks is `C04.concatChan bs j`;
* `lancero_file_samples_are_card_words`
                         every geometry, well-formed frames, read schedule, mixer state, every pipeline
                         channel `j`: the samples of the `k`-th record in channel `j`'s file are
                         `((S.drop a).take nsamp).map (· % 65536)`, `S = C04.concatChan blocks j`,
                         `a = frame − st.next − npre`;
* `lancero_error_file_samples_are_card_words`
                         error channel `2(c·nrows+r)`: the same with `S` = the `err` components of word
                         (r, c) of frames `0..N-1` of the card's byte stream (the stream as
                         `lancero_error_edges_never_lost` names it);
* `lancero_feedback_file_samples_are_mixed_words`
                         feedback channel `2(c·nrows+r)+1`: the same with `S = mixSpec …` of the `err` and
                         `fb` components of word (r, c) (sample form: `C04_fb_retard_mix_sample`; exact
                         arithmetic: `C04_mix_exact_saturating`);
* `excerpt_sample_of_word`
                         sample by sample: the `m`-th sample of such an excerpt of an error channel is the
                         `err` component of word (r, c) of frame `a + m` of the card's stream, reduced mod
                         65536 — i.e. unchanged when the card's words are 16-bit (the model's `Word` is a
                         pair of unbounded naturals, so this is a hypothesis there).
-/
import DastardV.Lemmas.ComposeLancero
import DastardV.Lemmas.ComposeExcerpt
namespace DastardV.Compose
open Pipe Trig

/-- **the delivered stream of a pipeline channel, for block operations made from Lancero blocks**, is the
concatenation of the channel's slices of those blocks, `C04.concatChan` -/
theorem chanStream_lblocks (mk : C04.Block → Int × Int × List Bool) (j : Nat) :
    ∀ (bs : List C04.Block), chanStream j (bs.map (lblockOp mk)) = C04.concatChan bs j
  | [] => rfl
  | b :: bs => by
    have ih := chanStream_lblocks mk j bs
    rw [List.map_cons, chanStream_cons, ih]
    simp [C04.concatChan, lblockOp, segOf, List.getD_eq_getElem?_getD]

/-- block operations made with a `mk` that gives every block the same sample period carry one period -/
theorem onePeriod_lblocks (mk : C04.Block → Int × Int × List Bool) (per : Int) (hper : ∀ b, (mk b).2.1 = per)
    (bs : List C04.Block) : ∀ o ∈ bs.map (lblockOp mk), OnePeriod per o := by
  intro o ho
  obtain ⟨b, _, rfl⟩ := List.mem_map.mp ho
  exact hper b

/-- a channel's stream over well-shaped blocks has one sample per delivered frame -/
theorem concatChan_length (g : C04.Geom) (j : Nat) (hj : j < g.nchan) :
    ∀ (bs : List C04.Block), C04.shapeOK g bs = true → (C04.concatChan bs j).length = C04.totalFrames bs
  | [], _ => rfl
  | b :: bs, hs => by
    simp only [C04.shapeOK, List.all_cons, Bool.and_eq_true, beq_iff_eq, List.all_eq_true] at hs
    obtain ⟨⟨hlen, hall⟩, hrest⟩ := hs
    have ih := concatChan_length g j hj bs
      (by simp only [C04.shapeOK, List.all_eq_true, Bool.and_eq_true, beq_iff_eq]; exact hrest)
    have hjl : j < b.data.length := by rw [hlen]; exact hj
    have hd : b.data[j]? = some b.data[j] := List.getElem?_eq_getElem hjl
    have hdl : (b.data[j]).length = b.nframes := hall _ (List.getElem_mem hjl)
    simp only [C04.concatChan, C04.totalFrames, List.flatMap_cons, List.length_append, List.map_cons,
      List.sum_cons] at ih ⊢
    rw [ih, List.getD_eq_getElem?_getD, hd, Option.getD_some, hdl]

/-! ### the channel numbering, word by word -/

/-- channel `2(c·nrows+r)` of the statement's numbering is the `err` component of word (r, c) -/
theorem chanTrue_err (g : C04.Geom) (frs : List C04.Frame) (r c : Nat) (hr : r < g.nr) :
    C04.chanTrue g frs (2 * (c * g.nr + r)) = frs.map fun fr => (fr.getD (r * g.nc + c) (0, 0)).1 := by
  have e0 : (2 * (c * g.nr + r)) % 2 = 0 := by omega
  have e1 : (2 * (c * g.nr + r)) / 2 = c * g.nr + r := by omega
  have h2 := C04.dm' g.nr c r (c * g.nr + r) (by rw [Nat.mul_comm]) hr
  simp only [e0, C04.chanTrue, C04.wordAt, e1, h2.1, h2.2]
  simp

/-- channel `2(c·nrows+r)+1` of the statement's numbering is the `fb` component of word (r, c) -/
theorem chanTrue_fb (g : C04.Geom) (frs : List C04.Frame) (r c : Nat) (hr : r < g.nr) :
    C04.chanTrue g frs (2 * (c * g.nr + r) + 1) = frs.map fun fr => (fr.getD (r * g.nc + c) (0, 0)).2 := by
  have e0 : (2 * (c * g.nr + r) + 1) % 2 = 1 := by omega
  have e1 : (2 * (c * g.nr + r) + 1) / 2 = c * g.nr + r := by omega
  have h2 := C04.dm' g.nr c r (c * g.nr + r) (by rw [Nat.mul_comm]) hr
  simp only [e0, C04.chanTrue, C04.wordAt, e1, h2.1, h2.2]
  simp

/-- **a file sample is a card word.**  `S` the `err` components of word (r, c) of the first `N` frames of
the card's stream; an excerpt of `S` as the file theorems name it (`n` samples from position `a`, each
reduced mod 65536).  Its `m`-th sample (`a + m < N`) is the `err` component of word (r, c) of frame
`a + m`, mod 65536 — and the word itself when it is a 16-bit value (as every word of a real card is). -/
theorem excerpt_sample_of_word (g : C04.Geom) (frames : List C04.Frame) (N r c : Nat) (hN : N ≤ frames.length)
    {a n m : Nat} (hm : m < n) (ham : a + m < N) :
    ∃ fr, frames[a + m]? = some fr ∧
      ((((((frames.take N).map fun fr => (fr.getD (r * g.nc + c) (0, 0)).1).drop a).take n).map (· % 65536))[m]? =
        some ((fr.getD (r * g.nc + c) (0, 0)).1 % 65536)) ∧
      ((fr.getD (r * g.nc + c) (0, 0)).1 < 65536 →
        (((((frames.take N).map fun fr => (fr.getD (r * g.nc + c) (0, 0)).1).drop a).take n).map (· % 65536))[m]? =
          some (fr.getD (r * g.nc + c) (0, 0)).1) := by
  have hlt : a + m < frames.length := by omega
  refine ⟨frames[a + m], List.getElem?_eq_getElem hlt, ?_⟩
  have h1 : (((((frames.take N).map fun fr => (fr.getD (r * g.nc + c) (0, 0)).1).drop a).take n).map (· % 65536))[m]? =
      some ((frames[a + m].getD (r * g.nc + c) (0, 0)).1 % 65536) := by
    rw [List.getElem?_map, List.getElem?_take_of_lt hm, List.getElem?_drop, List.getElem?_map,
      List.getElem?_take_of_lt ham, List.getElem?_eq_getElem hlt]
    rfl
  refine ⟨h1, ?_⟩
  intro hw
  rw [h1, Nat.mod_eq_of_lt hw]

/-! ### the theorems -/

/-- **The samples in a Lancero channel's file are the samples the card delivered to the channel.**  For
every geometry (≥ 1 column, ≥ 2 rows), every list of well-formed frames, EVERY schedule of reads of the
card's byte stream, every mixer state and every non-negative frame counter (hypotheses of
`lancero_card_to_files`), blocks stamped by any `mk` that gives ALL blocks one sample period `per` (`hper`;
time stamps and signedness flags arbitrary), a source from `PrepareRun` (any restored trigger settings,
valid record lengths): the reader does not crash, the source does not crash, and for every pipeline
channel `j < nchan`, with

* `S = C04.concatChan blocks j` the stream `C04_chunking_independent` / `C04_fb_retard_mix` speak about
  (one sample per delivered frame: `S.length = totalFrames blocks`),

the LJH 2.2 file of channel `j` written over that period (records reaching the writer in any batching),
read back with the documented layout, is a list `parsed` with one entry per published record, and its
`k`-th entry `R`, `r` being the `k`-th record published for the channel,

* has exactly `nsamp` samples,
* they are `((S.drop a).take nsamp.toNat).map (· % 65536)` with `(a : Int) = r.frame − st.next − npre` and
  `a + nsamp ≤ S.length`: the `nsamp` consecutive samples of the channel's stream that start `npre`
  samples before the record's trigger frame (frame numbers count from the source's counter `st.next`),
* carries `twos 8 (r.frame * subdiv + suboff)` in its subframe field and the record's time in its time
  field. -/
theorem lancero_file_samples_are_card_words {σ ρ : Type} (fops : C04.FloatOps σ ρ) (zero : σ) (scaleOf : Nat → σ)
    (g : C04.Geom) (hg : C04.geomOK g = true) (frames : List C04.Frame)
    (hwf : ∀ fr ∈ frames, C04.frameWF g fr = true) (ticks : List (Nat × Int))
    (st : C04.DState σ) (hnext : 0 ≤ st.next)
    (mk : C04.Block → Int × Int × List Bool) (per : Int) (hper : ∀ b, (mk b).2.1 = per)
    (npre nsamp : Int) (hlen : 3 ≤ npre ∧ npre < nsamp) (saved : List (Nat × Trig.TS))
    (zts : List (List (Int × Int)))
    (hzt : ∀ (j : Nat) (p : Int), -1 ≤ Pipe.ztOf (zts[j]?.getD []) p ∧ Pipe.ztOf (zts[j]?.getD []) p ≤ 1) :
    ∃ bufs, C04.runReader g { pending := [], future := C04.encFrames frames } false ticks = .ok bufs ∧
      let blocks := C04.blocksOf (C04.runSteps fops zero scaleOf g st (bufs.map C04.Step.buf))
      ∃ res, runOps zts (prepare g.nchan npre nsamp saved) (blocks.map (lblockOp mk)) = some res ∧
        ∀ (j : Nat), j < g.nchan →
          let S := C04.concatChan blocks j
          S.length = C04.totalFrames blocks ∧
          ∀ (p : C05.Params) (hdr : C05.Bytes), p.nsamp = nsamp →
          ∀ (batches : List (List C05.W22)), batches.flatten = (chanRecs j res).map toW22 →
            let recs := chanRecs j res
            let fin := C05.run (C05.fmt22 p hdr) {} (fileOps batches)
            (recs = [] → C05.fileOf fin = none) ∧
            (recs ≠ [] → ∃ file parsed, C05.fileOf fin = some file ∧ file.take hdr.length = hdr ∧
              C05.parseBody (C05.parseLJH22 p.nsamp.toNat 2) (file.drop hdr.length) = some parsed ∧
              parsed.length = recs.length ∧
              ∀ (k : Nat) (R : C05.R22), parsed[k]? = some R →
                ∃ r, recs[k]? = some r ∧
                  (R.samples.length : Int) = nsamp ∧
                  (∃ a : Nat, (a : Int) = r.frame - st.next - npre ∧ a + nsamp.toNat ≤ S.length ∧
                    R.samples = ((S.drop a).take nsamp.toNat).map (· % 65536)) ∧
                  R.subframe = C05.twos 8 (r.frame * p.subdiv + p.suboff) ∧
                  R.timeUs = C05.twos 8 (r.time.tdiv 1000)) := by
  obtain ⟨bufs, hrun, _, hrest⟩ := C04.C04_chunking_independent fops zero scaleOf g hg frames hwf ticks st
  obtain ⟨_, _, hcont, _, hshape, _⟩ := hrest
  refine ⟨bufs, hrun, ?_⟩
  intro blocks
  obtain ⟨res, hres, hall⟩ :=
    file_samples_are_stream_excerpts_of_blocks g.nchan npre nsamp saved hlen zts hzt per st.next _
      (lancero_blocks_opsOK mk g blocks st.next hnext hshape hcont) (onePeriod_lblocks mk per hper blocks)
      (keepsSettings_blocks (lblockOp mk) (fun b => ⟨_, _, _, _, _, rfl⟩) blocks)
  refine ⟨res, hres, ?_⟩
  intro j hj
  refine ⟨concatChan_length g j hj blocks hshape, ?_⟩
  intro p hdr hpn batches hbat
  have := hall j hj p hdr hpn batches hbat
  rw [chanStream_lblocks] at this
  exact this

/-- **The samples in an error channel's file are the card's error words, whatever the read schedule.**
The corollary of `lancero_file_samples_are_card_words` for the error channel `2(c·nrows+r)` of word
(row `r`, column `c`): the stream the records are cut from is literally the `err` component of word (r, c)
of frames `0..N-1` of the card's byte stream (`N` = frames delivered; all but the last < 3 visible frames)
— the stream as `lancero_error_edges_never_lost` names it.  So the `k`-th record in the file holds, at
position `m`, the `err` word (r, c) of card frame `r.frame − st.next − npre + m` (reduced mod 65536, which
changes nothing for 16-bit words: `excerpt_sample_of_word`). -/
theorem lancero_error_file_samples_are_card_words {σ ρ : Type} (fops : C04.FloatOps σ ρ) (zero : σ)
    (scaleOf : Nat → σ)
    (g : C04.Geom) (hg : C04.geomOK g = true) (frames : List C04.Frame)
    (hwf : ∀ fr ∈ frames, C04.frameWF g fr = true) (ticks : List (Nat × Int))
    (st : C04.DState σ) (hnext : 0 ≤ st.next)
    (mk : C04.Block → Int × Int × List Bool) (per : Int) (hper : ∀ b, (mk b).2.1 = per)
    (npre nsamp : Int) (hlen : 3 ≤ npre ∧ npre < nsamp) (saved : List (Nat × Trig.TS))
    (zts : List (List (Int × Int)))
    (hzt : ∀ (j : Nat) (p : Int), -1 ≤ Pipe.ztOf (zts[j]?.getD []) p ∧ Pipe.ztOf (zts[j]?.getD []) p ≤ 1)
    (r c : Nat) (hr : r < g.nr) (hcc : c < g.nc) :
    ∃ bufs, C04.runReader g { pending := [], future := C04.encFrames frames } false ticks = .ok bufs ∧
      let blocks := C04.blocksOf (C04.runSteps fops zero scaleOf g st (bufs.map C04.Step.buf))
      let N := C04.totalFrames blocks
      N ≤ frames.length ∧
      min ((ticks.map (·.1)).sum) (C04.encFrames frames).length < (N + 3) * g.fs ∧
      ∃ res, runOps zts (prepare g.nchan npre nsamp saved) (blocks.map (lblockOp mk)) = some res ∧
        let j := 2 * (c * g.nr + r)
        let S := (frames.take N).map fun fr => (fr.getD (r * g.nc + c) (0, 0)).1
        ∀ (p : C05.Params) (hdr : C05.Bytes), p.nsamp = nsamp →
        ∀ (batches : List (List C05.W22)), batches.flatten = (chanRecs j res).map toW22 →
          let recs := chanRecs j res
          let fin := C05.run (C05.fmt22 p hdr) {} (fileOps batches)
          (recs = [] → C05.fileOf fin = none) ∧
          (recs ≠ [] → ∃ file parsed, C05.fileOf fin = some file ∧ file.take hdr.length = hdr ∧
            C05.parseBody (C05.parseLJH22 p.nsamp.toNat 2) (file.drop hdr.length) = some parsed ∧
            parsed.length = recs.length ∧
            ∀ (k : Nat) (R : C05.R22), parsed[k]? = some R →
              ∃ rec, recs[k]? = some rec ∧
                (R.samples.length : Int) = nsamp ∧
                (∃ a : Nat, (a : Int) = rec.frame - st.next - npre ∧ a + nsamp.toNat ≤ N ∧
                  R.samples = ((S.drop a).take nsamp.toNat).map (· % 65536)) ∧
                R.subframe = C05.twos 8 (rec.frame * p.subdiv + p.suboff) ∧
                R.timeUs = C05.twos 8 (rec.time.tdiv 1000)) := by
  obtain ⟨bufs, hrun, _, hrest⟩ := C04.C04_chunking_independent fops zero scaleOf g hg frames hwf ticks st
  obtain ⟨hN, hav, hcont, _, hshape, herr, _⟩ := hrest
  refine ⟨bufs, hrun, hN, hav, ?_⟩
  obtain ⟨res, hres, hall⟩ :=
    file_samples_are_stream_excerpts_of_blocks g.nchan npre nsamp saved hlen zts hzt per st.next _
      (lancero_blocks_opsOK mk g _ st.next hnext hshape hcont) (onePeriod_lblocks mk per hper _)
      (keepsSettings_blocks (lblockOp mk) (fun b => ⟨_, _, _, _, _, rfl⟩) _)
  refine ⟨res, hres, ?_⟩
  intro j S p hdr hpn batches hbat
  have hlt := C04.lt_mul_of_parts c g.nc r g.nr hcc hr
  have hj : 2 * (c * g.nr + r) < g.nchan := by unfold C04.Geom.nchan; omega
  have hSlen : S.length = C04.totalFrames
      (C04.blocksOf (C04.runSteps fops zero scaleOf g st (bufs.map C04.Step.buf))) := by
    simp only [S, List.length_map, List.length_take]
    omega
  have := hall (2 * (c * g.nr + r)) hj p hdr hpn batches hbat
  rw [chanStream_lblocks, herr r c hr hcc] at this
  simp only at this ⊢
  rw [← hSlen]
  exact this

/-- **The samples in a feedback channel's file are the retarded / mixed feedback words.**  The corollary
of `lancero_file_samples_are_card_words` for the feedback channel `2(c·nrows+r)+1` of word (r, c): the
stream the records are cut from is `mixSpec` of the `err` and `fb` components of word (r, c) of frames
`0..N-1` — sample `i` = the `fb` word of frame `i-1` with the two flag bits cleared (`lastFb` for `i = 0`)
plus, when the channel's mix scale is non-zero, the scaled signed `err` word OF FRAME `i`, saturated
(`C04_fb_retard_mix_sample`; with exact arithmetic `C04_mix_exact_saturating`).  The mix scale is the one
in force at the start (`st.scale`): no mix request arrives during the run, as in
`C04_chunking_independent` (for requests in between: `C04_fb_retard_mix`, at the level of blocks).  The
float arithmetic is abstract (`fops`). -/
theorem lancero_feedback_file_samples_are_mixed_words {σ ρ : Type} (fops : C04.FloatOps σ ρ) (zero : σ)
    (scaleOf : Nat → σ)
    (g : C04.Geom) (hg : C04.geomOK g = true) (frames : List C04.Frame)
    (hwf : ∀ fr ∈ frames, C04.frameWF g fr = true) (ticks : List (Nat × Int))
    (st : C04.DState σ) (hnext : 0 ≤ st.next)
    (mk : C04.Block → Int × Int × List Bool) (per : Int) (hper : ∀ b, (mk b).2.1 = per)
    (npre nsamp : Int) (hlen : 3 ≤ npre ∧ npre < nsamp) (saved : List (Nat × Trig.TS))
    (zts : List (List (Int × Int)))
    (hzt : ∀ (j : Nat) (p : Int), -1 ≤ Pipe.ztOf (zts[j]?.getD []) p ∧ Pipe.ztOf (zts[j]?.getD []) p ≤ 1)
    (r c : Nat) (hr : r < g.nr) (hcc : c < g.nc) :
    ∃ bufs, C04.runReader g { pending := [], future := C04.encFrames frames } false ticks = .ok bufs ∧
      let blocks := C04.blocksOf (C04.runSteps fops zero scaleOf g st (bufs.map C04.Step.buf))
      let N := C04.totalFrames blocks
      N ≤ frames.length ∧
      min ((ticks.map (·.1)).sum) (C04.encFrames frames).length < (N + 3) * g.fs ∧
      ∃ res, runOps zts (prepare g.nchan npre nsamp saved) (blocks.map (lblockOp mk)) = some res ∧
        let j := 2 * (c * g.nr + r) + 1
        let S := C04.mixSpec fops (List.replicate N (st.scale.getD j zero))
          ((frames.take N).map fun fr => (fr.getD (r * g.nc + c) (0, 0)).1)
          ((frames.take N).map fun fr => (fr.getD (r * g.nc + c) (0, 0)).2) (st.lastFb.getD j 0)
        S.length = N ∧
        ∀ (p : C05.Params) (hdr : C05.Bytes), p.nsamp = nsamp →
        ∀ (batches : List (List C05.W22)), batches.flatten = (chanRecs j res).map toW22 →
          let recs := chanRecs j res
          let fin := C05.run (C05.fmt22 p hdr) {} (fileOps batches)
          (recs = [] → C05.fileOf fin = none) ∧
          (recs ≠ [] → ∃ file parsed, C05.fileOf fin = some file ∧ file.take hdr.length = hdr ∧
            C05.parseBody (C05.parseLJH22 p.nsamp.toNat 2) (file.drop hdr.length) = some parsed ∧
            parsed.length = recs.length ∧
            ∀ (k : Nat) (R : C05.R22), parsed[k]? = some R →
              ∃ rec, recs[k]? = some rec ∧
                (R.samples.length : Int) = nsamp ∧
                (∃ a : Nat, (a : Int) = rec.frame - st.next - npre ∧ a + nsamp.toNat ≤ N ∧
                  R.samples = ((S.drop a).take nsamp.toNat).map (· % 65536)) ∧
                R.subframe = C05.twos 8 (rec.frame * p.subdiv + p.suboff) ∧
                R.timeUs = C05.twos 8 (rec.time.tdiv 1000)) := by
  obtain ⟨bufs, hrun, _, hrest⟩ := C04.C04_chunking_independent fops zero scaleOf g hg frames hwf ticks st
  obtain ⟨hN, hav, hcont, _, hshape, _, hfb, _⟩ := hrest
  refine ⟨bufs, hrun, hN, hav, ?_⟩
  obtain ⟨res, hres, hall⟩ :=
    file_samples_are_stream_excerpts_of_blocks g.nchan npre nsamp saved hlen zts hzt per st.next _
      (lancero_blocks_opsOK mk g _ st.next hnext hshape hcont) (onePeriod_lblocks mk per hper _)
      (keepsSettings_blocks (lblockOp mk) (fun b => ⟨_, _, _, _, _, rfl⟩) _)
  refine ⟨res, hres, ?_⟩
  intro j S
  have hlt := C04.lt_mul_of_parts c g.nc r g.nr hcc hr
  have hj : 2 * (c * g.nr + r) + 1 < g.nchan := by unfold C04.Geom.nchan; omega
  have hS : C04.concatChan (C04.blocksOf (C04.runSteps fops zero scaleOf g st (bufs.map C04.Step.buf)))
      (2 * (c * g.nr + r) + 1) = S := by
    rw [hfb _ hj (by omega), Nat.add_sub_cancel, chanTrue_err g _ r c hr, chanTrue_fb g _ r c hr]
  have hSlen : S.length = C04.totalFrames
      (C04.blocksOf (C04.runSteps fops zero scaleOf g st (bufs.map C04.Step.buf))) := by
    rw [← hS]; exact concatChan_length g _ hj _ hshape
  refine ⟨hSlen, ?_⟩
  intro p hdr hpn batches hbat
  have := hall (2 * (c * g.nr + r) + 1) hj p hdr hpn batches hbat
  rw [chanStream_lblocks, hS] at this
  simp only at this ⊢
  rw [← hSlen]
  exact this

/-! ### Non-vacuity -/

/-- the hypothesis on `mk` is met by the obvious stamping (time stamp from the first frame number, one
period, all channels unsigned); `geomOK` / `frameWF` are met by the example frames of Props/C04.lean; and
`chanStream_lblocks` / `excerpt_sample_of_word` speak about non-trivial objects: one column, two rows, two
blocks (2 + 1 frames) — channel 2 = error word of (row 1, column 0) — and the sample at position 1 of an
excerpt from position 1 of that word's stream is the error word of card frame 2 -/
example :
    (∀ b : C04.Block, ((fun b : C04.Block => (b.first * 1000, (1000 : Int), ([] : List Bool))) b).2.1 = 1000) ∧
    C04.geomOK C04.exG = true ∧ (∀ fr ∈ C04.exFrames, C04.frameWF C04.exG fr = true) ∧
    chanStream 2 (([⟨0, 0, 2, [], [[10, 20], [0, 1], [11, 21], [0, 0]]⟩,
        ⟨2, 0, 1, [], [[30], [1], [31], [0]]⟩] : List C04.Block).map
      (lblockOp fun b => (b.first * 1000, (1000 : Int), ([] : List Bool)))) = [11, 21, 31] ∧
    ((((((C04.exFrames.take 3).map fun fr => (fr.getD (1 * C04.exG.nc + 0) (0, 0)).1).drop 1).take 2).map
      (· % 65536))[1]? = some 31) := by
  refine ⟨fun _ => rfl, by decide, by decide, by decide, by decide⟩

end DastardV.Compose
