/-
C17 — the release events (send, close, unlock, Done, spawn) of `typed_interleavings_owned`.
-/
import DastardV.Lemmas.C17TypedC

namespace DastardV.C17

theorem thr_ne_of {l : Loc} {t : Tid} (hl : l ≠ .thr t) : ∀ u, l = .thr u → u ≠ t :=
  fun _ hu h => hl (hu.trans (by rw [h]))

theorem step_send {S : System} {pre : Trace} {o : OSt} {f f' : FSt} {t : Tid} {c : Obj} {H H' : List Tok}
    (g : GoodT S pre o f) (cx : Ctx S pre t (.send c) H H') (hF : stepF f (t, .send c) = some f') :
    ∃ o', stepO S.sp o (t, .send c) = some o' ∧ GoodT S (pre ++ [(t, .send c)]) o' f' := by
  have hf := stepF_send hF
  subst hf
  have hE := cx.tE
  simp only [typeEv] at hE
  have hg := give_inv hE
  refine ⟨{ o with loc := moveL o.loc (S.sp.chanPay c) (.msg c (o.nsend c)),
                   nsend := upd o.nsend c (o.nsend c + 1) }, ?_, ?_⟩
  · simp only [stepO]
    rw [release_ok o t _ _ (fun k hk => (g.at_thr cx k).2 (hg.1 k hk))]
    rfl
  · have hw := wg_frame g t (.send c) (f' := { f with nsend := upd f.nsend c (f.nsend c + 1) }) rfl
      (fun _ => nofun) (fun _ => nofun) (fun _ => nofun)
    refine ⟨(g.release_step (dst := .msg c (o.nsend c)) cx hg nofun ?_ ?_).2, ?_, g.nr, ?_, g.ss, hw.1, hw.2, rc_frame g t _ _ (fun _ h => h) (fun _ => nofun)⟩
    · intro k
      simp only [Exp, g.ns c, upd_self]
      have := g.le c
      constructor
      · intro h; exact Or.inr h.2
      · rintro (h | h)
        · omega
        · exact ⟨⟨this, Nat.lt_succ_self _⟩, h⟩
    · intro l hl1 hl2 k
      apply Exp_frame
      · exact thr_ne_of hl1
      · intro c' j hl
        subst hl
        show f.nrecv c' ≤ j ∧ j < upd f.nsend c (f.nsend c + 1) c' ↔ _
        by_cases hc : c' = c
        · subst hc
          have : j ≠ f.nsend c' := fun h => hl2 (by rw [h, g.ns])
          rw [upd_self]; omega
        · rw [upd_ne _ _ _ _ hc]
      · intro _ _; rfl
      · intro _ _; exact ⟨rfl, rfl⟩
      · intro _ _; exact ⟨nofun, nofun⟩
      · intro _ _; exact ⟨rfl, nofun⟩
    · intro c'
      show upd o.nsend c (o.nsend c + 1) c' = upd f.nsend c (f.nsend c + 1) c'
      by_cases hc : c' = c
      · subst hc; rw [upd_self, upd_self, g.ns]
      · rw [upd_ne _ _ _ _ hc, upd_ne _ _ _ _ hc, g.ns]
    · intro c'
      show f.nrecv c' ≤ upd f.nsend c (f.nsend c + 1) c'
      have := g.le c'
      by_cases hc : c' = c
      · subst hc; rw [upd_self]; omega
      · rw [upd_ne _ _ _ _ hc]; exact this

theorem step_close {S : System} {pre : Trace} {o : OSt} {f f' : FSt} {t : Tid} {c : Obj}
    {H H' : List Tok}
    (g : GoodT S pre o f) (cx : Ctx S pre t (.close c) H H') (hF : stepF f (t, .close c) = some f') :
    ∃ o', stepO S.sp o (t, .close c) = some o' ∧ GoodT S (pre ++ [(t, .close c)]) o' f' := by
  obtain ⟨hcl, hf⟩ := stepF_close hF
  subst hf
  -- nobody has received the close yet: a `recvC c` needs a closed channel
  have hnr : ∀ u, Ev.recvC c ∉ proj pre u := by
    intro u h
    have := g.rc c u h
    rw [hcl] at this
    cases this
  have hE := cx.tE
  simp only [typeEv] at hE
  have hg := give_inv hE
  refine ⟨{ o with loc := moveL o.loc (S.sp.closePay c) (.clo c) }, ?_, ?_⟩
  · simp only [stepO]
    exact release_ok o t _ _ (fun k hk => (g.at_thr cx k).2 (hg.1 k hk))
  · have hw := wg_frame g t (.close c) (f' := { f with closed := upd f.closed c true }) rfl
      (fun _ => nofun) (fun _ => nofun) (fun _ => nofun)
    refine ⟨(g.release_step (dst := .clo c) cx hg nofun ?_ ?_).2, g.ns, g.nr, g.le, g.ss, hw.1, hw.2,
      rc_frame g t (.close c) _ ?_ (fun _ => nofun)⟩
    · intro k
      simp only [Exp, upd_self, hcl, true_and]
      rw [mem_proj_snoc_of_ne pre t _ (.close c) (.recvC c) nofun]
      constructor
      · intro h; exact Or.inr h.2
      · rintro (h | h)
        · exact absurd h.1.1 (by simp)
        · exact ⟨hnr _, h⟩
    · intro l hl1 hl2 k
      apply Exp_frame
      · exact thr_ne_of hl1
      · intro _ _ _; exact Iff.rfl
      · intro _ _; rfl
      · intro _ _; exact ⟨rfl, rfl⟩
      · intro _ _; exact ⟨nofun, nofun⟩
      · intro c' hl
        subst hl
        have hc : c' ≠ c := fun h => hl2 (by rw [h])
        exact ⟨upd_ne _ _ _ _ hc, nofun⟩
    · intro c' h
      show upd f.closed c true c' = true
      by_cases hc : c' = c
      · subst hc; exact upd_self _ _ _
      · rw [upd_ne _ _ _ _ hc]; exact h

theorem step_unlock {S : System} {pre : Trace} {o : OSt} {f f' : FSt} {t : Tid} {m : Obj} {H H' : List Tok}
    (g : GoodT S pre o f) (cx : Ctx S pre t (.unlock m) H H') (hF : stepF f (t, .unlock m) = some f') :
    ∃ o', stepO S.sp o (t, .unlock m) = some o' ∧ GoodT S (pre ++ [(t, .unlock m)]) o' f' := by
  obtain ⟨hheld, hf⟩ := stepF_unlock hF
  subst hf
  have hE := cx.tE
  simp only [typeEv] at hE
  have hg := give_inv hE
  refine ⟨{ o with loc := moveL o.loc (S.sp.mtxPay m) (.mtx m) }, ?_, ?_⟩
  · simp only [stepO]
    exact release_ok o t _ _ (fun k hk => (g.at_thr cx k).2 (hg.1 k hk))
  · have hw := wg_frame g t (.unlock m) (f' := { f with held := upd f.held m false }) rfl
      (fun _ => nofun) (fun _ => nofun) (fun _ => nofun)
    refine ⟨(g.release_step (dst := .mtx m) cx hg nofun ?_ ?_).2, g.ns, g.nr, g.le, g.ss, hw.1, hw.2, rc_frame g t _ _ (fun _ h => h) (fun _ => nofun)⟩
    · intro k
      simp only [Exp, upd_self, hheld, true_and]
      constructor
      · intro h; exact Or.inr h
      · rintro (h | h)
        · exact absurd h.1 (by simp)
        · exact h
    · intro l hl1 hl2 k
      apply Exp_frame
      · exact thr_ne_of hl1
      · intro _ _ _; exact Iff.rfl
      · intro m' hl
        subst hl
        have hm : m' ≠ m := fun h => hl2 (by rw [h])
        exact upd_ne _ _ _ _ hm
      · intro _ _; exact ⟨rfl, rfl⟩
      · intro _ _; exact ⟨nofun, nofun⟩
      · intro _ _; exact ⟨rfl, nofun⟩

theorem step_spawn {S : System} {pre : Trace} {o : OSt} {f f' : FSt} {t u : Tid} {H H' : List Tok}
    (g : GoodT S pre o f) (cx : Ctx S pre t (.spawn u) H H') (hF : stepF f (t, .spawn u) = some f') :
    ∃ o', stepO S.sp o (t, .spawn u) = some o' ∧ GoodT S (pre ++ [(t, .spawn u)]) o' f' := by
  obtain ⟨hsp, hf⟩ := stepF_spawn hF
  subst hf
  have hst : f.started u = false := by
    cases h : f.started u with
    | false => rfl
    | true => have := g.ss u h; rw [hsp] at this; cases this
  have hE := cx.tE
  simp only [typeEv] at hE
  have hg := give_inv hE
  refine ⟨{ o with loc := moveL o.loc (S.sp.spawnPay u) (.spw u) }, ?_, ?_⟩
  · simp only [stepO]
    exact release_ok o t _ _ (fun k hk => (g.at_thr cx k).2 (hg.1 k hk))
  · have hw := wg_frame g t (.spawn u) (f' := { f with spawned := upd f.spawned u true }) rfl
      (fun _ => nofun) (fun _ => nofun) (fun _ => nofun)
    refine ⟨(g.release_step (dst := .spw u) cx hg nofun ?_ ?_).2, g.ns, g.nr, g.le, ?_, hw.1, hw.2, rc_frame g t _ _ (fun _ h => h) (fun _ => nofun)⟩
    · intro k
      simp only [Exp, upd_self, hsp, hst, true_and]
      constructor
      · intro h; exact Or.inr h
      · rintro (h | h)
        · exact absurd h.1 (by simp)
        · exact h
    · intro l hl1 hl2 k
      apply Exp_frame
      · exact thr_ne_of hl1
      · intro _ _ _; exact Iff.rfl
      · intro _ _; rfl
      · intro u' hl
        subst hl
        have hu : u' ≠ u := fun h => hl2 (by rw [h])
        exact ⟨upd_ne _ _ _ _ hu, rfl⟩
      · intro _ _; exact ⟨nofun, nofun⟩
      · intro _ _; exact ⟨rfl, nofun⟩
    · intro u' h
      show upd f.spawned u true u' = true
      by_cases hu : u' = u
      · subst hu; exact upd_self _ _ _
      · rw [upd_ne _ _ _ _ hu]; exact g.ss u' h

theorem step_wgDone {S : System} (ok : S.OK) {pre : Trace} {o : OSt} {f f' : FSt} {t : Tid} {w : Obj}
    {H H' : List Tok}
    (g : GoodT S pre o f) (cx : Ctx S pre t (.wgDone w) H H') (hF : stepF f (t, .wgDone w) = some f') :
    ∃ o', stepO S.sp o (t, .wgDone w) = some o' ∧ GoodT S (pre ++ [(t, .wgDone w)]) o' f' := by
  obtain ⟨hcnt, hf⟩ := stepF_wgDone hF
  subst hf
  have hkid := cx.done_kid ok
  have hfresh := cx.done_fresh ok
  have hnw : ¬ waited S pre w := fun h => hfresh (g.wd w h t hkid)
  have hnw' : ¬ waited S (pre ++ [(t, .wgDone w)]) w := by
    rw [waited_snoc_of_ne S pre t (.wgDone w) w nofun]; exact hnw
  have hE := cx.tE
  simp only [typeEv] at hE
  have hg := give_inv hE
  refine ⟨{ o with loc := moveL o.loc (S.sp.donePay w t) (.wgb w) }, ?_, ?_⟩
  · simp only [stepO]
    exact release_ok o t _ _ (fun k hk => (g.at_thr cx k).2 (hg.1 k hk))
  · refine ⟨(g.release_step (dst := .wgb w) cx hg nofun ?_ ?_).2, g.ns, g.nr, g.le, g.ss, ?_, ?_, rc_frame g t _ _ (fun _ h => h) (fun _ => nofun)⟩
    · intro k
      simp only [Exp]
      constructor
      · rintro ⟨_, u, hu, hd, hk⟩
        rcases (mem_proj_snoc pre t u _ _).1 hd with hd | ⟨hut, _⟩
        · exact Or.inl ⟨hnw, u, hu, hd, hk⟩
        · subst hut; exact Or.inr hk
      · rintro (⟨_, u, hu, hd, hk⟩ | hk)
        · exact ⟨hnw', u, hu, mem_proj_snoc_mono pre t u _ _ hd, hk⟩
        · exact ⟨hnw', t, hkid, (mem_proj_snoc pre t t _ _).2 (Or.inr ⟨rfl, rfl⟩), hk⟩
    · intro l hl1 hl2 k
      apply Exp_frame
      · exact thr_ne_of hl1
      · intro _ _ _; exact Iff.rfl
      · intro _ _; rfl
      · intro _ _; exact ⟨rfl, rfl⟩
      · intro w' hl
        subst hl
        refine ⟨nofun, fun h => hl2 ?_⟩
        cases h; rfl
      · intro _ _; exact ⟨rfl, nofun⟩
    · intro w' hw'
      rw [waited_snoc_of_ne S pre t (.wgDone w) w' nofun] at hw'
      rw [cnt_proj_snoc_of_ne pre t _ (.wgDone w) (.wgAdd w') nofun]
      show upd f.cnt w (f.cnt w - 1) w' + _ = _
      have := g.wg w' hw'
      by_cases hw : w' = w
      · subst hw
        rw [upd_self, doneCount_snoc_done S ok pre t w' hkid hfresh]
        omega
      · rw [upd_ne _ _ _ _ hw, doneCount_snoc_of_ne S pre t _ w' (fun h => hw (by cases h; rfl))]
        exact this
    · intro w' hw' u hu
      rw [waited_snoc_of_ne S pre t (.wgDone w) w' nofun] at hw'
      exact mem_proj_snoc_mono pre t u _ _ (g.wd w' hw' u hu)

end DastardV.C17
