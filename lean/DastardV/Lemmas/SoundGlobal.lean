/-
C02, soundness across blocks for EVERY trigger combination: each emitted primary trigger sits on a
sample of the delivered stream that satisfies an enabled criterion (edge, level) — or the auto trigger
is enabled (an auto trigger has no sample criterion).
-/
import DastardV.Lemmas.AutoGlobal
namespace DastardV.Trig

/-- frame `T` satisfies an enabled criterion on the stream `G` -/
def SoundAt (ts : TS) (sg : Bool) (G : List Nat) (f0 T : Int) : Prop :=
  (ts.edge = true ∧ edgeAtG (cfgChan ts sg) G (T - f0) = true) ∨
  (ts.level = true ∧ levelAtG (cfgChan ts sg) G (T - f0) = true) ∨ ts.auto = true

structure SoundInv (ts : TS) (npre nsamp : Int) (sg : Bool) (G : List Nat) (f0 : Int) (c : Chan)
    (trigs : List Int) (k : Nat) : Prop where
  hk : k ≤ G.length
  hbuf : c.buf = G.drop k
  cfg : Cfg c ts npre nsamp sg
  inside : ∀ T ∈ trigs, T - f0 < G.length
  sound : ∀ T ∈ trigs, SoundAt ts sg G f0 T

theorem SoundAt.extend {ts : TS} {sg : Bool} {G : List Nat} {f0 T : Int} (h : SoundAt ts sg G f0 T)
    (hin : T - f0 < G.length) (seg : List Nat) : SoundAt ts sg (G ++ seg) f0 T := by
  rcases h with ⟨h1, h2⟩ | ⟨h1, h2⟩ | h
  · exact Or.inl ⟨h1, by rw [edgeAtG_append G seg _ hin]; exact h2⟩
  · exact Or.inr (Or.inl ⟨h1, by rw [levelAtG_append G seg _ hin]; exact h2⟩)
  · exact Or.inr (Or.inr h)

set_option maxHeartbeats 1600000 in
theorem stepChan_sound_inv {ts : TS} {npre nsamp : Int} {sg : Bool} {G : List Nat} {f0 : Int} {c : Chan}
    {trigs : List Int} {k : Nat} {zt : ZT} {seg : List Nat} {t0 per : Int} {c1 : Chan} {tr : List Int}
    (hv : 3 ≤ npre ∧ npre < nsamp) (hem : ts.edgeMulti = false)
    (hinv : SoundInv ts npre nsamp sg G f0 c trigs k)
    (h : stepChan zt c seg (f0 + G.length) t0 per sg = some (c1, tr)) :
    ∃ k', SoundInv ts npre nsamp sg (G ++ seg) f0 c1 (trigs ++ tr) k' := by
  obtain ⟨hk, hbuf, hcfg, hinside, hsound⟩ := hinv
  obtain ⟨ca, e, el, all, k', ca_buf, ca_first, ca_ts, ca_npre, ca_nsamp, ca_sg, ca_last, hhi, he, hel, hall, hfo,
    helr, hallr, htr, hc1last, hcfg1, hk', hbuf', hkk⟩ := stepChan_anat hv hem hk hbuf hcfg h
  have hval : ValidLen ca := by unfold ValidLen; rw [ca_npre, ca_nsamp]; exact hv
  have hGl : ((G ++ seg).length : Int) = (G.length : Int) + seg.length := by simp
  -- edge triggers are sound
  have hE : ∀ x ∈ e, ts.edge = true ∧ edgeAt ca x = true := by
    obtain ⟨e', he', hoff, hon⟩ := edgePass_spec ca hval.1 (by obtain ⟨a, b⟩ := hval; omega) (by obtain ⟨a, b⟩ := hval; omega)
    have hee : e' = e := some_inj' (he'.symm.trans he)
    subst hee
    intro x hx
    by_cases hedge : ca.ts.edge = true
    · exact ⟨by rw [← ca_ts]; exact hedge, (hon hedge).sound x hx⟩
    · have : e' = [] := hoff (by simpa using hedge)
      rw [this] at hx; simp at hx
  -- level triggers are sound
  have hL : ∀ x ∈ el, x ∈ e ∨ (ts.level = true ∧ levelAt ca x = true) := by
    intro x hx
    by_cases hl : ca.ts.level = true
    · obtain ⟨new, hnew, hls⟩ := levelPass_spec hval hl hfo
      have : el = sortAsc (e ++ new) := some_inj' (hel.symm.trans hnew)
      rw [this] at hx
      rcases List.mem_append.mp (mem_sortAsc.mp hx) with hx | hx
      · exact Or.inl hx
      · exact Or.inr ⟨by rw [← ca_ts]; exact hl, hls.sound x hx⟩
    · have hl' : ca.ts.level = false := by simpa using hl
      have : el = e := some_inj' (hel.symm.trans (levelPass_off hl' e))
      rw [this] at hx
      exact Or.inl hx
  -- all triggers
  have hA : ∀ x ∈ all, x ∈ el ∨ ts.auto = true := by
    intro x hx
    by_cases ha : ca.ts.auto = true
    · exact Or.inr (by rw [← ca_ts]; exact ha)
    · have ha' : ca.ts.auto = false := by simpa using ha
      have : all = el := some_inj' (hall.symm.trans (autoPass_off ha' el))
      rw [this] at hx
      exact Or.inl hx
  refine ⟨k', ⟨hk', hbuf', hcfg1, ?_, ?_⟩⟩
  · intro T hT
    rw [hGl]
    rcases List.mem_append.mp hT with hT | hT
    · have := hinside T hT; omega
    · rw [htr] at hT
      obtain ⟨x, hx, rfl⟩ := List.mem_map.mp hT
      have := (hallr x hx).2
      rw [hhi] at this
      rw [ca_first]; omega
  · intro T hT
    rcases List.mem_append.mp hT with hT | hT
    · exact (hsound T hT).extend (hinside T hT) seg
    · rw [htr] at hT
      obtain ⟨x, hx, rfl⟩ := List.mem_map.mp hT
      have hx3 : 3 ≤ x := by have := (hallr x hx).1; omega
      have hpos : ca.first + x - f0 = (k : Int) + x := by rw [ca_first]; omega
      unfold SoundAt
      rw [hpos]
      rcases hA x hx with hxl | ha
      · rcases hL x hxl with hxe | ⟨hl, hlv⟩
        · obtain ⟨hedge, hev⟩ := hE x hxe
          left
          refine ⟨hedge, ?_⟩
          rw [edgeAt_eq_G ca_buf x hx3] at hev
          rw [← hev]
          exact (edgeAtG_congr (c := cfgChan ts sg) (c' := ca) (by rw [ca_ts]; rfl) (by rw [ca_sg]; rfl) _ _).symm
        · right; left
          refine ⟨hl, ?_⟩
          rw [levelAt_eq_G ca_buf x (by omega)] at hlv
          rw [← hlv]
          exact (levelAtG_congr (c := cfgChan ts sg) (c' := ca) (by rw [ca_ts]; rfl) (by rw [ca_sg]; rfl) _ _).symm
      · exact Or.inr (Or.inr ha)

theorem runChan_sound_inv {ts : TS} {npre nsamp : Int} {sg : Bool} {f0 : Int} {zt : ZT} {tp : Nat → Int × Int}
    (hv : 3 ≤ npre ∧ npre < nsamp) (hem : ts.edgeMulti = false) :
    ∀ (segs : List (List Nat)) (n : Nat) (G : List Nat) (c : Chan) (trigs : List Int) (k : Nat) (c' : Chan) (tr : List Int),
      SoundInv ts npre nsamp sg G f0 c trigs k →
      runChan zt tp sg n c (f0 + G.length) segs = some (c', tr) →
      ∃ k', SoundInv ts npre nsamp sg (G ++ segs.flatten) f0 c' (trigs ++ tr) k'
  | [], n, G, c, trigs, k, c', tr, hinv, h => by
    simp only [runChan, Option.some.injEq, Prod.mk.injEq] at h
    obtain ⟨rfl, rfl⟩ := h
    exact ⟨k, by simpa using hinv⟩
  | seg :: segs, n, G, c, trigs, k, c', tr, hinv, h => by
    unfold runChan at h
    split at h
    · simp at h
    rename_i c1 tr1 hstep
    split at h
    · simp at h
    rename_i c2 tr2 hrun
    simp only [Option.some.injEq, Prod.mk.injEq] at h
    obtain ⟨rfl, rfl⟩ := h
    obtain ⟨k1, hinv1⟩ := stepChan_sound_inv hv hem hinv hstep
    have hlen : f0 + (G.length : Int) + (seg.length : Int) = f0 + ((G ++ seg).length : Int) := by simp; omega
    rw [hlen] at hrun
    obtain ⟨k2, hinv2⟩ := runChan_sound_inv hv hem segs (n + 1) (G ++ seg) c1 (trigs ++ tr1) k1 c2 tr2 hinv1 hrun
    refine ⟨k2, ?_⟩
    simpa [List.append_assoc] using hinv2

end DastardV.Trig
