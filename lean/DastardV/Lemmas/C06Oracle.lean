/-
C06 — what the answers of the file-level oracle mean.  After every request the C06 check reads the REAL
files back and demands `firstBad before after want keys = none` (each file grew by exactly the number of
records the reported writing state allows) and, between requests that must not write, `sameFiles`.
`firstBad_sound`: an accepted step stored exactly `want k` new records in EVERY file of the key list;
`sameFiles_iff`: accepted ⇔ every file — listed on either side or not at all — holds the same number of records.
-/
import DastardV.Model.C06
namespace DastardV.C06

theorem firstBad_sound (before after : Files) (want : FKey → Nat) :
    ∀ keys, firstBad before after want keys = none → ∀ k ∈ keys, stored after k = stored before k + want k
  | [], _, k, hk => by simp at hk
  | k0 :: ks, h, k, hk => by
    unfold firstBad at h
    by_cases h1 : stored after k0 < stored before k0 + want k0
    · simp [h1] at h
    · by_cases h2 : stored after k0 > stored before k0 + want k0
      · simp [h1, h2] at h
      · simp only [h1, h2, if_false] at h
        rcases List.mem_cons.1 hk with rfl | hk
        · omega
        · exact firstBad_sound before after want ks h k hk

/-- a file that is not listed holds no records -/
theorem stored_of_not_mem : ∀ (fs : Files) (k : FKey), k ∉ keysOf fs → stored fs k = 0
  | [], _, _ => rfl
  | (k', n) :: r, k, h => by
    have h' : k' ≠ k ∧ k ∉ keysOf r := by
      simp only [keysOf, List.map_cons, List.mem_cons, not_or] at h
      exact ⟨fun e => h.1 e.symm, h.2⟩
    simp [stored, h'.1, stored_of_not_mem r k h'.2]

theorem sameFiles_iff (a b : Files) : sameFiles a b = true ↔ ∀ k, stored a k = stored b k := by
  constructor
  · intro h k
    simp only [sameFiles, List.all_eq_true, beq_iff_eq] at h
    by_cases hk : k ∈ keysOf a ++ keysOf b
    · exact h k hk
    · simp only [List.mem_append, not_or] at hk
      rw [stored_of_not_mem a k hk.1, stored_of_not_mem b k hk.2]
  · intro h
    simp only [sameFiles, List.all_eq_true, beq_iff_eq]
    exact fun k _ => h k

end DastardV.C06
