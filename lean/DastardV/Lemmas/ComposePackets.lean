/-
Composition of the packet codec model with the Abaco ingest model (C15 → C03): the packet the reader
loop works on is the packet the sender built.

The ingest model (C03) takes packets as (sequence number, payload width, payload values) — what
`ReadPacket` hands to `AbacoGroup.enqueuePacket`.  `C15_roundtrip_fields` says that decoding the bytes of
any constructible packet reproduces exactly those fields, so every C03 statement about a packet history
is a statement about the datagram history on the wire.
-/
import DastardV.Props.C15
import DastardV.Model.C03
namespace DastardV.Compose

/-- the view the Abaco reader loop takes of a decoded packet -/
def toIngest (q : C15.Packet) : C03.Pkt :=
  { sn := q.seq, wide := q.data.kind == 32, data := q.data.vals }

/-- **a datagram is ingested as the packet that was built**: for every constructible packet with a
non-empty payload, decoding its bytes gives a packet with the same ingest view (sequence number, payload
width, payload values), and the decoder consumes exactly the datagram -/
theorem wire_to_ingest (p : C15.Packet) (hb : C15.Built p) (hwf : C15.WF p) (hne : p.data.len ≠ 0) :
    ∃ bs q, C15.encode p = .ok bs ∧ C15.decodeC bs = (.ok q, bs.length) ∧ toIngest q = toIngest p := by
  obtain ⟨bs, q, he, hd, _, _, hseq, _, _, hvals, hkind, _⟩ := C15.C15_roundtrip_fields p hb hwf
  refine ⟨bs, q, he, hd, ?_⟩
  have hk : q.data.kind = p.data.kind := by
    rcases hkind with h | h
    · exact absurd h hne
    · exact h
  simp only [toIngest, hseq, hvals, hk]

/-- the same for a whole history of datagrams (any grouping into reads): the ingest model sees the
history that was sent -/
theorem wire_history_to_ingest (H : List (List (List C15.Packet)))
    (hb : ∀ t ∈ H, ∀ g ∈ t, ∀ p ∈ g, C15.Built p ∧ C15.WF p ∧ p.data.len ≠ 0) :
    ∃ D : List (List (List (List Nat × C15.Packet))),
      -- D has the shape of H, every entry is (bytes of the datagram, what the decoder returns for them)
      D.map (·.map (·.map fun x => toIngest x.2)) = H.map (·.map (·.map toIngest)) ∧
      ∀ t ∈ D, ∀ g ∈ t, ∀ x ∈ g, C15.decodeC x.1 = (.ok x.2, x.1.length) := by
  induction H with
  | nil => exact ⟨[], rfl, by simp⟩
  | cons t ts ih =>
    obtain ⟨Ds, hDs, hdec⟩ := ih (fun t' ht' => hb t' (by simp [ht']))
    -- one tick
    have tick : ∀ (t : List (List C15.Packet)), (∀ g ∈ t, ∀ p ∈ g, C15.Built p ∧ C15.WF p ∧ p.data.len ≠ 0) →
        ∃ Dt : List (List (List Nat × C15.Packet)),
          Dt.map (·.map fun x => toIngest x.2) = t.map (·.map toIngest) ∧
          ∀ g ∈ Dt, ∀ x ∈ g, C15.decodeC x.1 = (.ok x.2, x.1.length) := by
      intro t
      induction t with
      | nil => intro _; exact ⟨[], rfl, by simp⟩
      | cons g gs ihg =>
        intro h
        obtain ⟨Dg, hDg, hdg⟩ := ihg (fun g' hg' => h g' (by simp [hg']))
        have grp : ∀ (g : List C15.Packet), (∀ p ∈ g, C15.Built p ∧ C15.WF p ∧ p.data.len ≠ 0) →
            ∃ Dp : List (List Nat × C15.Packet), Dp.map (fun x => toIngest x.2) = g.map toIngest ∧
              ∀ x ∈ Dp, C15.decodeC x.1 = (.ok x.2, x.1.length) := by
          intro g
          induction g with
          | nil => intro _; exact ⟨[], rfl, by simp⟩
          | cons p ps ihp =>
            intro h
            obtain ⟨Dp, hDp, hdp⟩ := ihp (fun p' hp' => h p' (by simp [hp']))
            obtain ⟨hb1, hwf1, hne1⟩ := h p (by simp)
            obtain ⟨bs, q, _, hd, hq⟩ := wire_to_ingest p hb1 hwf1 hne1
            refine ⟨(bs, q) :: Dp, by simp [hq, hDp], ?_⟩
            intro x hx
            rcases List.mem_cons.mp hx with rfl | hx
            · exact hd
            · exact hdp x hx
        obtain ⟨Dp, hDp, hdp⟩ := grp g (h g (by simp))
        refine ⟨Dp :: Dg, by simp [hDp, hDg], ?_⟩
        intro g' hg' x hx
        rcases List.mem_cons.mp hg' with rfl | hg'
        · exact hdp x hx
        · exact hdg g' hg' x hx
    obtain ⟨Dt, hDt, hdt⟩ := tick t (hb t (by simp))
    refine ⟨Dt :: Ds, by simp [hDt, hDs], ?_⟩
    intro t' ht' g hg x hx
    rcases List.mem_cons.mp ht' with rfl | ht'
    · exact hdt g hg x hx
    · exact hdec t' ht' g hg x hx

end DastardV.Compose
