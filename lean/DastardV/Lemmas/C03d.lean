/-
C03 helper lemmas, part d: one tick of the reader loop preserves the alignment invariant, under
every map order, and emits exactly the next common window of every group's filled list.
-/
import DastardV.Lemmas.C03c
namespace DastardV.C03

/-- the invariant between ticks.  `n` = packets emitted per group so far (counted from the common
start), `rep` = dropped frames reported so far. -/
structure TInv (fpp : Nat) (L : List GL) (f0 : Int) (A : Nat → List Pkt) (s : St) (c a : Nat → Nat)
    (n rep : Nat) : Prop where
  rel : AllRel L A c a s.groups
  align : ∀ i l, L[i]? = some l →
    c i ≤ skipOf (startSN L) l + n ∧ (0 < n → c i = skipOf (startSN L) l + n)
  maxi : ∃ i l, L[i]? = some l ∧ c i = (fullOf l (A i)).length
  frame : s.nextFrame = f0 + ((fpp * n : Nat) : Int)
  acct : sumTo L.length a = s.pend + rep

/-- the channel lists `demuxData` produces for packets `[n, n+m)` (from the common start) of group `i` -/
def window (L : List GL) (A : Nat → List Pkt) (l : GL) (i n m : Nat) : List (List Nat) :=
  (List.range l.nchan).map fun ch =>
    chanData l.nchan ch (((fullOf l (A i)).drop (skipOf (startSN L) l + n)).take m)

theorem startSN_ge (L : List GL) (i : Nat) (l : GL) (h : L[i]? = some l) : l.l0 + 1 - l.sync ≤ startSN L := by
  apply le_maxList
  exact List.mem_map.mpr ⟨l, List.mem_of_getElem? h, rfl⟩

theorem startSN_attained (L : List GL) (hL : L ≠ []) : ∃ (i : Nat) (l : GL), L[i]? = some l ∧ startSN L = l.l0 + 1 - l.sync := by
  have := maxList_mem (L.map fun g => g.l0 + 1 - g.sync) (by simpa using hL)
  obtain ⟨l, hl, he⟩ := List.mem_map.mp this
  obtain ⟨i, hi⟩ := List.mem_iff_getElem?.mp hl
  exact ⟨i, l, hi, he.symm⟩

/-- `skip + (l0 + 1) = S + sync`: no truncation in `skipOf` -/
theorem skip_eq (L : List GL) (i : Nat) (l : GL) (h : L[i]? = some l) :
    skipOf (startSN L) l + (l.l0 + 1) = startSN L + l.sync := by
  have := startSN_ge L i l h
  unfold skipOf
  omega

theorem tick_spec (fpp : Nat) (L : List GL) (f0 : Int) (A : Nat → List Pkt) (s : St) (c a : Nat → Nat)
    (n rep : Nat) (arr : List (List Pkt)) (perm : List Nat) (hL : L ≠ [])
    (hok : AllOK fpp L (fun i => A i ++ arr.getD i []))
    (hcov : ∀ i, i < L.length → i ∈ perm)
    (hinv : TInv fpp L f0 A s c a n rep) :
    ∃ s' o c' a', tick s arr perm = .ok (s', o) ∧
      match o with
      | none => TInv fpp L f0 (fun i => A i ++ arr.getD i []) s' c' a' n rep
      | some b => ∃ m, 0 < m ∧
          TInv fpp L f0 (fun i => A i ++ arr.getD i []) s' c' a' (n + m) (rep + b.dropped) ∧
          b.nframes = m * fpp ∧ b.first = f0 + ((fpp * n : Nat) : Int) ∧ s'.pend = 0 ∧
          (∀ i l, L[i]? = some l → a' i = addedOf l (A i ++ arr.getD i [])) ∧
          b.data.length = L.length ∧
          (∀ i l, L[i]? = some l →
            skipOf (startSN L) l + n + m ≤ (fullOf l (A i ++ arr.getD i [])).length ∧
            b.data[i]? = some (window L (fun i => A i ++ arr.getD i []) l i n m)) := by
  -- abbreviations
  obtain ⟨hrel, halign, hmaxi, hframe, hacct⟩ := hinv
  have hfpp : 0 < fpp := by
    obtain ⟨i, l, hl, _⟩ := hmaxi
    exact (hok i l hl).fpp_pos
  have hk : 0 < L.length := by
    cases L with
    | nil => exact absurd rfl hL
    | cons _ _ => simp
  have hrel0 := hrel.enq arr
  obtain ⟨a1, hrel1, hsum, hcase⟩ :=
    loop1_spec fpp L _ c hok perm (enq s.groups arr) 0 s.pend a (fun _ => False) hrel0 (fun j hj => absurd hj id)
  unfold tick
  simp only []
  cases hl1 : loop1 perm (enq s.groups arr) 0 s.pend with
  | mk gs1 rest =>
  cases rest with
  | mk dr r =>
  rw [hl1] at hrel1 hsum hcase
  simp only [] at hrel1 hsum hcase
  cases r with
  | none =>
    -- some group is still empty: await more data
    simp only [] at hcase ⊢
    obtain ⟨i, l, g, hl, hg, hfull, hq⟩ := hcase
    refine ⟨_, none, c, a1, rfl, ?_⟩
    exact ⟨hrel1, halign, ⟨i, l, hl, hfull.empty_iff.mp hq⟩, hframe, by show _ = dr + rep; omega⟩
  | some fsn =>
    simp only [] at hcase ⊢
    obtain ⟨hfullne, _, hge, hatt⟩ := hcase
    -- every group is filled and non-empty
    have hall : ∀ i l, L[i]? = some l → ∃ g, gs1[i]? = some g ∧
        GFull l (A i ++ arr.getD i []) (c i) (a1 i) g ∧ g.queue ≠ [] := by
      intro i l hl
      have hil := lt_length_of_getElem? hl
      obtain ⟨l', g, h1, h2, h3, h4⟩ := hfullne i (Or.inr ⟨hcov i hil, hil⟩)
      rw [hl] at h1; cases h1
      exact ⟨g, h2, h3, h4⟩
    -- firstSn is the common start plus what was emitted
    have hhd_le : ∀ j, j < L.length → hdOf L c j ≤ startSN L + n := by
      intro j hj
      obtain ⟨l, hl⟩ := getElem?_of_lt_length hj
      unfold hdOf; rw [hl]; simp only []
      have := (halign j l hl).1
      have := skip_eq L j l hl
      omega
    have hfsn : fsn = startSN L + n := by
      apply Nat.le_antisymm
      · rcases hatt with h | ⟨j, _, hjl, h⟩
        · omega
        · rw [h]; exact hhd_le j hjl
      · by_cases hn : 0 < n
        · obtain ⟨l, hl⟩ := getElem?_of_lt_length hk
          have h1 := hge 0 (hcov 0 hk) hk
          have h2 := (halign 0 l hl).2 hn
          have h3 := skip_eq L 0 l hl
          have h4 := (hok 0 l hl).sync_le
          unfold hdOf at h1; rw [hl] at h1; simp only [] at h1
          omega
        · obtain ⟨j, l, hl, hS⟩ := startSN_attained L hL
          have hjl := lt_length_of_getElem? hl
          have h1 := hge j (hcov j hjl) hjl
          have h2 := (halign j l hl).1
          have h3 := skip_eq L j l hl
          have h4 := (hok j l hl).sync_le
          unfold hdOf at h1; rw [hl] at h1; simp only [] at h1
          omega
    -- after trimming
    let c2 : Nat → Nat := fun i => match L[i]? with
      | some l => min (fullOf l (A i ++ arr.getD i [])).length (skipOf (startSN L) l + n)
      | none => c i
    have hc2 : ∀ i l, L[i]? = some l →
        c2 i = min (fullOf l (A i ++ arr.getD i [])).length (skipOf (startSN L) l + n) := by
      intro i l hl
      show (match L[i]? with | some l => _ | none => _) = _
      rw [hl]
    have hfull2 : ∀ i l, L[i]? = some l → ∃ g, (gs1.map (trimG fsn))[i]? = some g ∧
        GFull l (A i ++ arr.getD i []) (c2 i) (a1 i) g := by
      intro i l hl
      obtain ⟨g, hg, hf, _⟩ := hall i l hl
      refine ⟨trimG fsn g, by rw [List.getElem?_map, hg]; rfl, ?_⟩
      have ht := hf.trim (hok i l hl) fsn
      have h1 := (halign i l hl).1
      have h3 := skip_eq L i l hl
      have e : max (c i) (fsn + l.sync - (l.l0 + 1)) = skipOf (startSN L) l + n := by
        rw [hfsn]; omega
      rw [e] at ht
      rw [hc2 i l hl]; exact ht
    have hlen2 : (gs1.map (trimG fsn)).length = L.length := by rw [List.length_map]; exact hrel1.1
    have hrel2 : AllRel L (fun i => A i ++ arr.getD i []) c2 a1 (gs1.map (trimG fsn)) := by
      refine ⟨hlen2, ?_⟩
      intro i g hg
      have hil : i < L.length := by rw [← hlen2]; exact lt_length_of_getElem? hg
      obtain ⟨l, hl⟩ := getElem?_of_lt_length hil
      obtain ⟨g', hg', hf⟩ := hfull2 i l hl
      rw [hg] at hg'; cases hg'
      exact ⟨l, hl, hf.toRel⟩
    have halign2 : ∀ i l, L[i]? = some l →
        c2 i ≤ skipOf (startSN L) l + n ∧ (0 < n → c2 i = skipOf (startSN L) l + n) := by
      intro i l hl
      rw [hc2 i l hl]
      refine ⟨Nat.min_le_right _ _, ?_⟩
      intro hn
      obtain ⟨g, _, hf, _⟩ := hall i l hl
      have := hf.c_le
      have := (halign i l hl).2 hn
      omega
    -- the frame count
    have hne2 : gs1.map (trimG fsn) ≠ [] := by
      intro h
      rw [h] at hlen2
      simp at hlen2
      omega
    obtain ⟨mf, hmf, hmle, gw, hgw, hmeq⟩ := minFrames_spec _ hne2
    have hcount : ∀ i l g, L[i]? = some l → (gs1.map (trimG fsn))[i]? = some g →
        countFrames g = ((fullOf l (A i ++ arr.getD i [])).length - c2 i) * fpp := by
      intro i l g hl hg
      obtain ⟨g', hg', hf⟩ := hfull2 i l hl
      rw [hg] at hg'; cases hg'
      exact hf.count (hok i l hl)
    obtain ⟨iw, hiw⟩ := List.mem_iff_getElem?.mp hgw
    have hiwl : iw < L.length := by rw [← hlen2]; exact lt_length_of_getElem? hiw
    obtain ⟨lw, hlw⟩ := getElem?_of_lt_length hiwl
    have hmw := hcount iw lw gw hlw hiw
    rw [hmf]
    cases mf with
    | zero =>
      -- nothing left after aligning: await more data
      simp only []
      refine ⟨_, none, c2, a1, rfl, ?_⟩
      refine ⟨hrel2, halign2, ⟨iw, lw, hlw, ?_⟩, hframe, by show _ = dr + rep; omega⟩
      have h0 : ((fullOf lw (A iw ++ arr.getD iw [])).length - c2 iw) * fpp = 0 := by omega
      have h1 : (fullOf lw (A iw ++ arr.getD iw [])).length - c2 iw = 0 := by
        rcases Nat.mul_eq_zero.mp h0 with h | h
        · exact h
        · omega
      have h2 : c2 iw ≤ (fullOf lw (A iw ++ arr.getD iw [])).length := by
        rw [hc2 iw lw hlw]; exact Nat.min_le_left _ _
      omega
    | succ fr =>
      simp only []
      -- M whole packets from every group
      let M := (fullOf lw (A iw ++ arr.getD iw [])).length - c2 iw
      have hM : fr + 1 = M * fpp := by rw [hmeq, hmw]
      have hMpos : 0 < M := by
        rcases Nat.eq_zero_or_pos M with h | h
        · rw [h] at hM; omega
        · exact h
      have hMle : ∀ i l, L[i]? = some l → c2 i + M ≤ (fullOf l (A i ++ arr.getD i [])).length ∧
          c2 i = skipOf (startSN L) l + n := by
        intro i l hl
        obtain ⟨g, hg, hf⟩ := hfull2 i l hl
        have h1 := hmle g (List.mem_of_getElem? hg)
        rw [hcount i l g hl hg, hM] at h1
        have h2 := Nat.le_of_mul_le_mul_right h1 hfpp
        have h3 := hc2 i l hl
        omega
      have hdm : ∀ g ∈ gs1.map (trimG fsn), demuxG (fr + 1) g = .ok (dmx (fr + 1) g) := by
        intro g hg
        obtain ⟨i, hi⟩ := List.mem_iff_getElem?.mp hg
        have hil : i < L.length := by rw [← hlen2]; exact lt_length_of_getElem? hi
        obtain ⟨l, hl⟩ := getElem?_of_lt_length hil
        obtain ⟨g', hg', hf⟩ := hfull2 i l hl
        rw [hi] at hg'; cases hg'
        have := (hf.demux (hok i l hl) M (hMle i l hl).1).1
        rw [← hM] at this
        rw [dmx_of_ok this]; exact this
      rw [demuxAll_ok (fr + 1) (dmx (fr + 1)) _ hdm]
      simp only []
      -- element-wise description of the result
      have hres : ∀ i l, L[i]? = some l → ∃ g, (gs1.map (trimG fsn))[i]? = some g ∧
          dmx (fr + 1) g = demuxOut l (A i ++ arr.getD i []) (c2 i) M g ∧
          GFull l (A i ++ arr.getD i []) (c2 i + M) (a1 i) (demuxOut l (A i ++ arr.getD i []) (c2 i) M g).1 := by
        intro i l hl
        obtain ⟨g, hg, hf⟩ := hfull2 i l hl
        have hd := hf.demux (hok i l hl) M (hMle i l hl).1
        rw [← hM] at hd
        exact ⟨g, hg, dmx_of_ok hd.1, hd.2⟩
      let c3 : Nat → Nat := fun i => c2 i + M
      refine ⟨_, some _, c3, a1, rfl, M, hMpos, ?_, hM, hframe, rfl, ?_, ?_, ?_⟩
      · refine ⟨⟨?_, ?_⟩, ?_, ⟨iw, lw, hlw, ?_⟩, ?_, ?_⟩
        · show ((gs1.map (trimG fsn)).map fun g => (dmx (fr + 1) g).1).length = L.length
          rw [List.length_map]; exact hlen2
        · intro i g hg
          have hil : i < L.length := by
            have := lt_length_of_getElem? hg
            simp only [List.length_map] at this
            rw [← hrel1.1]; exact this
          obtain ⟨l, hl⟩ := getElem?_of_lt_length hil
          obtain ⟨g2, hg2, he, hf⟩ := hres i l hl
          change ((gs1.map (trimG fsn)).map fun g => (dmx (fr + 1) g).1)[i]? = some g at hg
          rw [List.getElem?_map, hg2] at hg
          simp only [Option.map_some, Option.some.injEq] at hg
          rw [he] at hg
          exact ⟨l, hl, hg ▸ hf.toRel⟩
        · intro i l hl
          have := (hMle i l hl).2
          show c2 i + M ≤ _ ∧ (_ → c2 i + M = _)
          omega
        · show c2 iw + M = _
          have h2 : c2 iw ≤ (fullOf lw (A iw ++ arr.getD iw [])).length := by
            rw [hc2 iw lw hlw]; exact Nat.min_le_left _ _
          show c2 iw + ((fullOf lw (A iw ++ arr.getD iw [])).length - c2 iw) = _
          omega
        · show s.nextFrame + ((fr + 1 : Nat) : Int) = f0 + ((fpp * (n + M) : Nat) : Int)
          rw [hframe, hM, Nat.mul_add, Nat.mul_comm M fpp]
          omega
        · show sumTo L.length a1 = 0 + (rep + dr)
          omega
      · intro i l hl
        obtain ⟨g, _, hf⟩ := hfull2 i l hl
        exact hf.a_eq
      · show ((gs1.map (trimG fsn)).map fun g => (dmx (fr + 1) g).2).length = L.length
        rw [List.length_map]; exact hlen2
      · intro i l hl
        obtain ⟨g2, hg2, he, _⟩ := hres i l hl
        have hm := hMle i l hl
        refine ⟨by omega, ?_⟩
        show ((gs1.map (trimG fsn)).map fun g => (dmx (fr + 1) g).2)[i]? = _
        rw [List.getElem?_map, hg2]
        simp only [Option.map_some]
        rw [he, hm.2]
        rfl

end DastardV.C03
