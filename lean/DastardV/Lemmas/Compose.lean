/-
Composition of the ingest model with the pipeline model: the blocks the Abaco reader loop emits
(`C03`: contiguous frame numbers, one channel list per channel of every group, all of the block's
length) are exactly what the pipeline theorems ask of their input (`Pipe.OpsOK`), so the no-crash
theorem of the whole source applies to every packet history — losses, reordering between groups and
batching included.
-/
import DastardV.Props.C03
import DastardV.Props.C01
import DastardV.Props.C02
namespace DastardV.Compose
open Pipe

/-- a block of the ingest model as a block operation of the pipeline model (time stamp, period and
signedness flags are irrelevant to `OpsOK` and chosen by `mk`) -/
def blockOp (mk : C03.Block → Int × Int × List Bool) (b : C03.Block) : Op :=
  .block b.first (mk b).1 (mk b).2.1 (mk b).2.2 b.data.flatten

theorem flatten_length_of_map {α} : ∀ {gs : List (List α)} {ns : List Nat}, gs.map (·.length) = ns →
    gs.flatten.length = ns.sum
  | [], ns, h => by simp at h; subst h; rfl
  | g :: gs, ns, h => by
    cases ns with
    | nil => simp at h
    | cons n ns =>
      simp only [List.map_cons, List.cons.injEq] at h
      simp [h.1, flatten_length_of_map h.2]

/-- ingest blocks that pass the two shape checks are valid pipeline input -/
theorem blocks_opsOK (mk : C03.Block → Int × Int × List Bool) (L : List C03.GL) :
    ∀ (bs : List C03.Block) (f : Int), 0 ≤ f → C03.chkShape L bs = true → C03.chkFrames f bs = true →
      OpsOK ((L.map (·.nchan)).sum) f (bs.map (blockOp mk))
  | [], _, _, _, _ => trivial
  | b :: bs, f, hf, hs, hfr => by
    simp only [C03.chkShape, List.all_cons, Bool.and_eq_true, beq_iff_eq, List.all_eq_true] at hs
    obtain ⟨⟨hlen, hall⟩, hrest⟩ := hs
    simp only [C03.chkFrames, Bool.and_eq_true, beq_iff_eq] at hfr
    obtain ⟨hfirst, hfr'⟩ := hfr
    refine ⟨flatten_length_of_map hlen, b.nframes, ?_, by rw [hfirst]; exact hf, hfirst, ?_⟩
    · intro d hd
      obtain ⟨g, hg, hdg⟩ := List.mem_flatten.mp hd
      exact hall g hg d hdg
    · exact blocks_opsOK mk L bs (f + b.nframes) (by omega)
        (by simp only [C03.chkShape, List.all_eq_true, Bool.and_eq_true, beq_iff_eq]; exact hrest) hfr'

/-- `os` = the block operations `bs`, in order, with arbitrary control requests inserted anywhere -/
inductive Weave : List Op → List Op → Prop
  | nil : Weave [] []
  | trig (r) {bs os} : Weave bs os → Weave bs (.trig r :: os)
  | len (a b) {bs os} : Weave bs os → Weave bs (.len a b :: os)
  | gadd (ps) {bs os} : Weave bs os → Weave bs (.gadd ps :: os)
  | gdel (ps) {bs os} : Weave bs os → Weave bs (.gdel ps :: os)
  | gstop {bs os} : Weave bs os → Weave bs (.gstop :: os)
  | blk (f t p sg d) {bs os} : Weave bs os → Weave (.block f t p sg d :: bs) (.block f t p sg d :: os)

theorem opsOK_weave (nch : Nat) : ∀ {bs os : List Op}, Weave bs os → ∀ F, OpsOK nch F bs → OpsOK nch F os := by
  intro bs os h
  induction h with
  | nil => intro F h; exact h
  | trig r _ ih => intro F h; exact ih F h
  | len a b _ ih => intro F h; exact ih F h
  | gadd ps _ ih => intro F h; exact ih F h
  | gdel ps _ ih => intro F h; exact ih F h
  | gstop _ ih => intro F h; exact ih F h
  | blk f t p sg d _ ih =>
    intro F h
    obtain ⟨h1, n, h2, h3, h4, h5⟩ := h
    exact ⟨h1, n, h2, h3, h4, ih _ h5⟩

/-- **Abaco ingest feeds the pipeline safely.**  For every packet history the ingest theorems cover
(any loss pattern, any interleaving of the groups, any batching into reads), the blocks the reader
loop emits, handed to a source as `PrepareRun` leaves it (any restored trigger settings, valid record
lengths), are processed without a panic, whatever control requests (ConfigureTriggers incl. edge-multi,
ConfigurePulseLengths, group-trigger edits) arrive in between (`Weave`). -/
theorem abaco_blocks_never_crash (fpp : Nat) (L : List C03.GL) (f0 : Int) (hf0 : 0 ≤ f0)
    (H : List (List (List C03.Pkt))) (gs : List C03.Group) (perms : List (List Nat))
    (hv : C03.validIn fpp L H = true) (hi : C03.InitOK L gs) (hp : C03.PermsOK L.length H perms)
    (s' : C03.St) (outs : List (Nat × C03.Block))
    (hrun : C03.runFrom 0 (C03.startSt gs f0) H perms = .ok (s', outs))
    (mk : C03.Block → Int × Int × List Bool)
    (npre nsamp : Int) (hlen : 3 ≤ npre ∧ npre < nsamp) (saved : List (Nat × Trig.TS))
    (zts : List (List (Int × Int)))
    (hzt : ∀ (j : Nat) (p : Int), -1 ≤ ztOf (zts[j]?.getD []) p ∧ ztOf (zts[j]?.getD []) p ≤ 1)
    (ops : List Op) (hw : Weave ((outs.map (·.2)).map (blockOp mk)) ops) :
    ∃ res, runOps zts (prepare ((L.map (·.nchan)).sum) npre nsamp saved) ops = some res := by
  have h1 := (C03.C03_frames_contiguous fpp L f0 H gs perms hv hi hp s' outs hrun).1
  have h2 := C03.C03_groups_aligned fpp L f0 H gs perms hv hi hp s' outs hrun
  exact C01.C01_no_crash _ npre nsamp saved hlen zts hzt _ f0
    (opsOK_weave _ hw f0 (blocks_opsOK mk L _ f0 hf0 h2 h1))

/-! ### no pulse lost, end to end -/

/-- the segments pipeline channel `j` receives from the ingest blocks -/
def chanSegs (j : Nat) (bs : List C03.Block) : List (List Nat) := bs.map fun b => b.data.flatten[j]?.getD []

/-- ingest blocks with contiguous frame numbers are, for every pipeline channel, a run of blocks in the
sense of the per-channel projection (`Pipe.BlocksFor`), provided the signedness flag handed over with the
blocks is the same for all of them; `tp` lists the stamps the blocks carry -/
theorem blocks_blocksFor (mk : C03.Block → Int × Int × List Bool) (j : Nat) (sg : Bool)
    (hsg : ∀ b, ((mk b).2.2)[j]?.getD false = sg) (L : List C03.GL) (tp : Nat → Int × Int) :
    ∀ (bs : List C03.Block) (n : Nat) (f : Int), C03.chkShape L bs = true → C03.chkFrames f bs = true →
      j < (L.map (·.nchan)).sum →
      (∀ (i : Nat) (b : C03.Block), bs[i]? = some b → tp (n + i) = ((mk b).1, (mk b).2.1)) →
      BlocksFor j sg tp n f (bs.map (blockOp mk)) (chanSegs j bs)
  | [], _, _, _, _, _, _ => rfl
  | b :: bs, n, f, hs, hfr, hj, htp => by
    simp only [C03.chkShape, List.all_cons, Bool.and_eq_true, beq_iff_eq, List.all_eq_true] at hs
    obtain ⟨⟨hlen, hall⟩, hrest⟩ := hs
    simp only [C03.chkFrames, Bool.and_eq_true, beq_iff_eq] at hfr
    obtain ⟨hfirst, hfr'⟩ := hfr
    have hjl : j < b.data.flatten.length := by rw [flatten_length_of_map hlen]; exact hj
    have hd : b.data.flatten[j]? = some b.data.flatten[j] := List.getElem?_eq_getElem hjl
    have hdl : (b.data.flatten[j]).length = b.nframes := by
      obtain ⟨g, hg, hdg⟩ := List.mem_flatten.mp (List.getElem_mem hjl)
      exact hall g hg _ hdg
    refine ⟨(mk b).1, (mk b).2.1, b.data.flatten[j], chanSegs j bs, ?_, ?_, ?_, ?_⟩
    · simp only [blockOp, blockOf, hsg b, hd, Option.getD_some, hfirst]
    · have := htp 0 b (by simp)
      simpa using this
    · simp [chanSegs, hd]
    · rw [hdl]
      exact blocks_blocksFor mk j sg hsg L tp bs (n + 1) (f + b.nframes)
        (by simp only [C03.chkShape, List.all_eq_true, Bool.and_eq_true, beq_iff_eq]; exact hrest) hfr' hj
        (by
          intro i b' hb'
          have := htp (i + 1) b' (by simpa using hb')
          rw [show n + 1 + i = n + (i + 1) by omega]
          exact this)

/-- **No pulse lost, end to end (Abaco).**  For every packet history the ingest theorems cover, every
pipeline channel `j`, any trigger settings restored at `PrepareRun` (`saved`) and valid record lengths:
on the stream channel `j` receives — the concatenation of its segments of the emitted blocks, which
`C03_stream_exact` identifies with the gap-filled packet stream — the primary records the source
publishes satisfy every clause of C02 (`C02_source_level`: edge and level completeness, the auto gap,
soundness, edge-only non-overlap). -/
theorem abaco_no_pulse_lost (fpp : Nat) (L : List C03.GL) (f0 : Int) (hf0 : -2305843009213693952 + nsamp ≤ f0)
    (H : List (List (List C03.Pkt))) (gs : List C03.Group) (perms : List (List Nat))
    (hv : C03.validIn fpp L H = true) (hi : C03.InitOK L gs) (hp : C03.PermsOK L.length H perms)
    (s' : C03.St) (outs : List (Nat × C03.Block))
    (hrun : C03.runFrom 0 (C03.startSt gs f0) H perms = .ok (s', outs))
    (mk : C03.Block → Int × Int × List Bool) (j : Nat) (hj : j < (L.map (·.nchan)).sum) (sg : Bool)
    (hsg : ∀ b, ((mk b).2.2)[j]?.getD false = sg)
    (npre : Int) (hlen : 3 ≤ npre ∧ npre < nsamp) (saved : List (Nat × Trig.TS))
    (zts : List (List (Int × Int))) (res : List Out)
    (hres : runOps zts (prepare ((L.map (·.nchan)).sum) npre nsamp saved) ((outs.map (·.2)).map (blockOp mk)) = some res) :
    ∃ (c : Trig.Chan) (parts : List (List Trig.Rec × List Trig.Rec)),
      (prepare ((L.map (·.nchan)).sum) npre nsamp saved).chans[j]? = some c ∧ OutsFor j res parts ∧
      let prims := ((parts.map (·.1)).flatten).map (·.frame)
      let S := (chanSegs j (outs.map (·.2))).flatten
      (c.ts.edge = true → ∀ p : Int, npre ≤ p → p + (nsamp - npre) < (S.length : Int) →
        Trig.edgeAtG (Trig.cfgChan c.ts sg) S p = true → Trig.Cov nsamp f0 prims p) ∧
      (c.ts.level = true → ∀ p : Int, npre ≤ p → p + (nsamp - npre) < (S.length : Int) →
        Trig.levelAtG (Trig.cfgChan c.ts sg) S p = true → Trig.Near nsamp f0 prims p) ∧
      (∀ T ∈ prims, Trig.SoundAt c.ts sg S f0 T) := by
  have h1 := (C03.C03_frames_contiguous fpp L f0 H gs perms hv hi hp s' outs hrun).1
  have h2 := C03.C03_groups_aligned fpp L f0 H gs perms hv hi hp s' outs hrun
  have hjn : j < (prepare ((L.map (·.nchan)).sum) npre nsamp saved).chans.length := by simp [prepare]; exact hj
  obtain ⟨c, hc⟩ : ∃ c, (prepare ((L.map (·.nchan)).sum) npre nsamp saved).chans[j]? = some c :=
    ⟨_, List.getElem?_eq_getElem hjn⟩
  obtain ⟨hfresh, hem⟩ := C02.prepare_fresh (f0 := f0) hc hf0
  have hb := blocks_blocksFor mk j sg hsg L
    (fun m => match (outs.map (·.2))[m]? with | some b => ((mk b).1, (mk b).2.1) | none => (0, 0))
    (outs.map (·.2)) 0 f0 h2 h1 hj (by intro i b hb; simp [hb])
  obtain ⟨parts, hof, he, hl, _, _, hs⟩ := C02.C02_source_level hb hc hres hlen hem hfresh
  exact ⟨c, parts, hc, hof, he, hl, hs⟩

end DastardV.Compose
