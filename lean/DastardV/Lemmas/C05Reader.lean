/-
C05 — lemmas about the transcription of the repository's own LJH reader (`readPulses`, `scanHeader`).
-/
import DastardV.Lemmas.C05Records
import DastardV.Lemmas.C05Header
namespace DastardV.C05

/-- the pulse `NextPulse` must return for a written record -/
def toPulse (subdiv suboff : Int) (r : W22) : Pulse :=
  { sub := toSigned 8 (twos 8 (r.frame * subdiv + suboff)), ts := toSigned 8 (twos 8 r.ts),
    samples := r.data.map (· % 65536) }

/-- one whole record at the head of the input is returned and reading continues behind it -/
theorem readPulses_cons (subdiv suboff : Int) (r : W22) (rest : Bytes) (f : Nat) :
    readPulses r.data.length (f + 1) (encodeLJH22 subdiv suboff r ++ rest) =
      (toPulse subdiv suboff r :: (readPulses r.data.length f rest).1, (readPulses r.data.length f rest).2) := by
  have hlen := encodeLJH22_length subdiv suboff r
  have e0 : (encodeLJH22 subdiv suboff r ++ rest) =
      le 8 (twos 8 (r.frame * subdiv + suboff)) ++ (le 8 (twos 8 r.ts) ++ (leWords 2 r.data ++ rest)) := by
    simp [encodeLJH22, List.append_assoc]
  have hne : (encodeLJH22 subdiv suboff r ++ rest).isEmpty = false := by
    cases h : encodeLJH22 subdiv suboff r ++ rest with
    | nil => have := congrArg List.length h; simp [hlen] at this
    | cons _ _ => rfl
  have h8 : ¬ (encodeLJH22 subdiv suboff r ++ rest).length < 8 := by
    rw [List.length_append, hlen]; omega
  have hd1 : (encodeLJH22 subdiv suboff r ++ rest).drop 8 = le 8 (twos 8 r.ts) ++ (leWords 2 r.data ++ rest) := by
    rw [e0]; exact List.drop_left' (le_length 8 _)
  have hr1ne : (le 8 (twos 8 r.ts) ++ (leWords 2 r.data ++ rest)).isEmpty = false := by
    cases h : le 8 (twos 8 r.ts) ++ (leWords 2 r.data ++ rest) with
    | nil => have := congrArg List.length h; simp [le_length] at this
    | cons _ _ => rfl
  have hr18 : ¬ (le 8 (twos 8 r.ts) ++ (leWords 2 r.data ++ rest)).length < 8 := by
    simp only [List.length_append, le_length]; omega
  have hd2 : (le 8 (twos 8 r.ts) ++ (leWords 2 r.data ++ rest)).drop 8 = leWords 2 r.data ++ rest :=
    List.drop_left' (le_length 8 _)
  have hr2 : ¬ (r.data.length ≠ 0 ∧ (leWords 2 r.data ++ rest).isEmpty = true) := by
    intro ⟨h0, he⟩
    have : (leWords 2 r.data ++ rest).length = 0 := by simpa using he
    simp only [List.length_append, leWords_length] at this
    omega
  have hr2l : ¬ (leWords 2 r.data ++ rest).length < 2 * r.data.length := by
    simp only [List.length_append, leWords_length]; omega
  have hd3 : (leWords 2 r.data ++ rest).drop (2 * r.data.length) = rest := by
    have : 2 * r.data.length = r.data.length * 2 := by omega
    rw [this]; exact drop_leWords 2 r.data rest
  have ht1 : unle ((encodeLJH22 subdiv suboff r ++ rest).take 8) = twos 8 (r.frame * subdiv + suboff) := by
    rw [e0, unle_take_le, twos_mod]
  have ht2 : unle ((le 8 (twos 8 r.ts) ++ (leWords 2 r.data ++ rest)).take 8) = twos 8 r.ts := by
    rw [unle_take_le, twos_mod]
  have hs : unWords 2 r.data.length (leWords 2 r.data ++ rest) = r.data.map (· % 65536) := by
    have := unWords_leWords 2 r.data rest
    simpa using this
  rw [readPulses]
  simp only [hne, Bool.false_eq_true, if_false, h8, hd1, hr1ne, hr18, hd2, hr2, hr2l, hd3, ht1, ht2, hs, toPulse]

/-- how the iteration ends on what is left after the last whole record (shorter than a record) -/
def tailEnd (L : Nat) (t : Bytes) : REnd :=
  if t.length = 0 ∨ t.length = 8 ∨ (t.length = 16 ∧ L ≠ 0) then .eof else .ueof

theorem readPulses_tail (L : Nat) (t : Bytes) (ht : t.length < 16 + 2 * L) (f : Nat) :
    readPulses L (f + 1) t = ([], tailEnd L t) := by
  rw [readPulses]
  unfold tailEnd
  have he : ∀ l : Bytes, l.isEmpty = true ↔ l.length = 0 := fun l => by cases l <;> simp
  by_cases h0 : t.length = 0
  · have : t.isEmpty = true := (he t).2 h0
    simp [this, h0]
  · have hne : t.isEmpty = false := by
      cases h : t.isEmpty
      · rfl
      · exact absurd ((he t).1 h) h0
    simp only [hne, Bool.false_eq_true, if_false]
    by_cases h8 : t.length < 8
    · rw [if_pos h8, if_neg (by omega)]
    · rw [if_neg h8]
      have hl1 : (t.drop 8).length = t.length - 8 := List.length_drop
      by_cases h1 : t.length = 8
      · have : (t.drop 8).isEmpty = true := (he _).2 (by omega)
        simp [this, h1]
      · have hne1 : (t.drop 8).isEmpty = false := by
          cases h : (t.drop 8).isEmpty
          · rfl
          · have := (he _).1 h; omega
        simp only [hne1, Bool.false_eq_true, if_false]
        by_cases h16 : (t.drop 8).length < 8
        · rw [if_pos h16, if_neg (by omega)]
        · rw [if_neg h16]
          have hl2 : ((t.drop 8).drop 8).length = t.length - 16 := by rw [List.length_drop, hl1]; omega
          by_cases h2 : t.length = 16
          · have hem : ((t.drop 8).drop 8).isEmpty = true := (he _).2 (by omega)
            by_cases hL : L = 0
            · omega
            · simp [hL, h2]
          · have hnem : ((t.drop 8).drop 8).isEmpty = false := by
              cases h : ((t.drop 8).drop 8).isEmpty
              · rfl
              · have := (he _).1 h; omega
            have : ¬ (L ≠ 0 ∧ ((t.drop 8).drop 8).isEmpty = true) := by
              intro ⟨_, h⟩; rw [hnem] at h; cases h
            rw [if_neg this, if_pos (by omega), if_neg (by omega)]

/-- **all records, then the classification of the rest**: whole records are returned in order; what is left (shorter
than a record) ends the iteration with `tailEnd` -/
theorem readPulses_records_then_tail (subdiv suboff : Int) (L : Nat) (rs : List W22) (hL : ∀ r ∈ rs, r.data.length = L)
    (t : Bytes) (ht : t.length < 16 + 2 * L) (fuel : Nat) (hf : rs.length < fuel) :
    readPulses L fuel (rs.flatMap (encodeLJH22 subdiv suboff) ++ t) = (rs.map (toPulse subdiv suboff), tailEnd L t) := by
  induction rs generalizing fuel with
  | nil =>
    cases fuel with
    | zero => simp at hf
    | succ f => simpa using readPulses_tail L t ht f
  | cons r rs ih =>
    cases fuel with
    | zero => simp at hf
    | succ f =>
      have hr : r.data.length = L := hL r (by simp)
      have ih' := ih (fun q hq => hL q (by simp [hq])) f (by simp only [List.length_cons] at hf; omega)
      simp only [List.flatMap_cons, List.append_assoc, List.map_cons]
      rw [← hr, readPulses_cons, hr, ih']

/-! ### the header scan -/

/-- what `parseHeader` does with one line after the first that is not the end tag -/
def lineStep (h : RHdr) (line : Bytes) : Except RErr RHdr :=
  if containsB versionTag line then setVersion h line else .ok (extractLine h line)

theorem takeWhile_ne_append (l rest : Bytes) (h : ∀ x ∈ l, x ≠ 10) :
    (l ++ 10 :: rest).takeWhile (· ≠ 10) = l ∧ (l ++ 10 :: rest).dropWhile (· ≠ 10) = 10 :: rest := by
  induction l with
  | nil => simp
  | cons c l ih =>
    have hc : c ≠ 10 := h c (by simp)
    have := ih (fun x hx => h x (by simp [hx]))
    refine ⟨?_, ?_⟩
    · rw [List.cons_append, List.takeWhile_cons_of_pos (by simpa using hc), this.1]
    · rw [List.cons_append, List.dropWhile_cons_of_pos (by simpa using hc), this.2]

theorem dropCR_noEOL (l : Bytes) (h : NoEOL l) : dropCR l = l := by
  unfold dropCR
  split
  · rename_i hl
    have : (13 : Nat) ∈ l := List.mem_of_getLast? hl
    exact absurd rfl (h 13 this).2
  · rfl

theorem scanLine_line (l rest : Bytes) (h : NoEOL l) : scanLine (l ++ 10 :: rest) = some (l, rest) := by
  have ht := takeWhile_ne_append l rest (fun x hx => (h x hx).1)
  cases hl : l ++ 10 :: rest with
  | nil => cases l <;> simp at hl
  | cons c cs =>
    rw [show scanLine (c :: cs) = some (dropCR ((c :: cs).takeWhile (· ≠ 10)), ((c :: cs).dropWhile (· ≠ 10)).drop 1)
      from rfl, ← hl, ht.1, ht.2, dropCR_noEOL l h]
    rfl

/-- the scan of a sequence of ordinary lines followed by the end tag: the lines are folded through `lineStep`
and the text length grows by the line lengths and the tag (line terminators are NOT counted) -/
theorem scanHeader_lines (ls : List Bytes) (hl : ∀ l ∈ ls, NoEOL l ∧ l ≠ endTag22) (body : Bytes)
    (fuel : Nat) (hf : ls.length < fuel) (lnum : Nat) (hn : lnum ≠ 0) (tl : Nat) (h : RHdr) :
    scanHeader fuel lnum tl h (ls.flatMap (· ++ [10]) ++ (endTag22 ++ 10 :: body)) =
      match ls.foldlM lineStep h with
      | .error e => .error e
      | .ok h' => .ok (h', tl + (ls.map List.length).sum + endTag22.length) := by
  induction ls generalizing fuel lnum tl h with
  | nil =>
    cases fuel with
    | zero => omega
    | succ f =>
      have hr := scanLine_line endTag22 body (by decide)
      have hc : containsB versionTag endTag22 = false := by decide
      simp only [List.flatMap_nil, List.nil_append, scanHeader, hr, hn, if_false, hc, Bool.false_eq_true,
        if_true, List.foldlM_nil, List.map_nil, List.sum_nil, Nat.add_zero]
      rfl
  | cons l ls ih =>
    cases fuel with
    | zero => omega
    | succ f =>
      obtain ⟨hnl, hne⟩ := hl l (by simp)
      have hshape : (l :: ls).flatMap (· ++ [10]) ++ (endTag22 ++ 10 :: body) =
          l ++ 10 :: (ls.flatMap (· ++ [10]) ++ (endTag22 ++ 10 :: body)) := by
        simp [List.append_assoc]
      have hr := scanLine_line l (ls.flatMap (· ++ [10]) ++ (endTag22 ++ 10 :: body)) hnl
      have ih' := fun lnum' hn' tl' h' =>
        ih (fun q hq => hl q (by simp [hq])) f (by simp only [List.length_cons] at hf; omega) lnum' hn' tl' h'
      rw [hshape]
      simp only [scanHeader, hr, hn, if_false, List.foldlM_cons]
      by_cases hv : containsB versionTag l = true
      · simp only [hv, if_true, lineStep]
        cases hs : setVersion h l with
        | error e => simp [bind, Except.bind]
        | ok h' =>
          simp only [bind, Except.bind]
          rw [ih' (lnum + 1) (by omega) (tl + l.length) h']
          cases ls.foldlM lineStep h' with
          | error e => rfl
          | ok h'' => simp [List.map_cons, List.sum_cons]; omega
      · have hv' : containsB versionTag l = false := by simpa using hv
        simp only [hv', Bool.false_eq_true, if_false, hne, lineStep, bind, Except.bind]
        rw [ih' (lnum + 1) (by omega) (tl + l.length) (extractLine h l)]
        cases ls.foldlM lineStep (extractLine h l) with
        | error e => rfl
        | ok h'' => simp [List.map_cons, List.sum_cons]; omega

/-! ### finding the body -/

theorem isPrefix_append (p r : Bytes) : isPrefix p (p ++ r) = true := by
  induction p with
  | nil => rfl
  | cons a p ih => simp [isPrefix, ih]

theorem endTag22_cons : endTag22 = 35 :: b "End of Header" := by decide

theorem indexOfB_tag (s r : Bytes) (hs : ∀ x ∈ s, x ≠ 35) :
    indexOfB endTag22 (s ++ (endTag22 ++ r)) = some s.length := by
  induction s with
  | nil =>
    have h := isPrefix_append endTag22 r
    rw [endTag22_cons] at h ⊢
    rw [List.cons_append] at h
    simp only [List.nil_append, List.cons_append, indexOfB, List.length_nil]
    rw [if_pos h]
  | cons c s ih =>
    have hc : c ≠ 35 := hs c (by simp)
    have hp : isPrefix endTag22 (c :: (s ++ (endTag22 ++ r))) = false := by
      rw [endTag22_cons]
      simp only [isPrefix, Bool.and_eq_false_imp, beq_iff_eq]
      intro h; exact absurd h.symm hc
    simp only [List.cons_append, indexOfB, hp, Bool.false_eq_true, if_false,
      ih (fun x hx => hs x (by simp [hx])), Option.map_some, List.length_cons]

/-- after a header whose last bytes (as many as there are lines) contain no `#`, the body is found right behind the
end-tag line — provided the body does not itself start with CR / LF bytes, which the reader would swallow -/
theorem locateBody_header (pre body : Bytes) (tl : Nat) (h14 : endTag22.length ≤ tl)
    (hoff : tl - endTag22.length ≤ pre.length)
    (hN : pre.length - (tl - endTag22.length) + 16 ≤ 1024)
    (h35 : ∀ x ∈ pre.drop (tl - endTag22.length), x ≠ 35)
    (hb : body.head? ≠ some 10 ∧ body.head? ≠ some 13) :
    locateBody (pre ++ (endTag22 ++ 10 :: body)) tl = some (pre.length + endTag22.length + 1) := by
  have hlen : endTag22.length = 14 := by decide
  unfold locateBody
  rw [if_neg (by omega)]
  generalize hoffd : tl - endTag22.length = off at *
  have hdrop : (pre ++ (endTag22 ++ 10 :: body)).drop off = pre.drop off ++ (endTag22 ++ 10 :: body) := by
    rw [List.drop_append, show off - pre.length = 0 by omega, List.drop_zero]
  have hsl : (pre.drop off).length = pre.length - off := List.length_drop
  have htake : (pre.drop off ++ (endTag22 ++ 10 :: body)).take 1024 =
      pre.drop off ++ (endTag22 ++ (10 :: body).take (1024 - (pre.length - off) - 14)) := by
    rw [List.take_append, List.take_of_length_le (by omega), hsl, List.take_append,
      List.take_of_length_le (by omega), hlen]
  simp only [hdrop, htake, indexOfB_tag _ _ h35]
  have hd2 : (pre.drop off ++ (endTag22 ++ (10 :: body).take (1024 - (pre.length - off) - 14))).drop
      ((pre.drop off).length + endTag22.length) = (10 :: body).take (1024 - (pre.length - off) - 14) := by
    rw [← List.append_assoc]
    exact List.drop_left' (by simp)
  rw [hd2]
  obtain ⟨m, hm⟩ : ∃ m, 1024 - (pre.length - off) - 14 = m + 2 := ⟨1024 - (pre.length - off) - 16, by omega⟩
  rw [hm]
  have heat : (((10 : Nat) :: body).take (m + 2)).takeWhile (fun c => c = 10 || c = 13) = [10] := by
    cases body with
    | nil => simp
    | cons c cs =>
      have h1 : c ≠ 10 := fun h => hb.1 (by simp [h])
      have h2 : c ≠ 13 := fun h => hb.2 (by simp [h])
      simp [List.take_succ_cons, h1, h2]
  rw [heat, hsl]
  simp only [List.length_singleton, Option.some.injEq]
  omega

end DastardV.C05
