/-
C05 — record-level lemmas: sizes of the encodings, reading a record back from the head of a byte
string, what every successful read consumes, truncated records.
-/
import DastardV.Lemmas.C05Bytes
namespace DastardV.C05

theorem twos_ofNat (w n : Nat) (h : n < 256 ^ w) : twos w (n : Int) = n := by
  unfold twos
  have : ((n : Int) % ((256 ^ w : Nat) : Int)) = n := Int.emod_eq_of_lt (by omega) (by exact_mod_cast h)
  rw [this]; rfl

/-! ### sizes -/

theorem encodeLJH22_length (sd so : Int) (r : W22) : (encodeLJH22 sd so r).length = 16 + r.data.length * 2 := by
  simp only [encodeLJH22, List.length_append, le_length, leWords_length]

theorem encodeLJH3_length (r : W3) : (encodeLJH3 r).length = 24 + 2 * r.data.length := by
  simp only [encodeLJH3, List.length_append, le_length, leWords_length]; omega

theorem encodeOFF_length (r : WO) : (encodeOFF r).length = 36 + 4 * r.coefs.length := by
  simp only [encodeOFF, List.length_append, le_length, leWords_length]; omega

theorem encodeLJH22_ne_nil (sd so : Int) (r : W22) : encodeLJH22 sd so r ≠ [] := by
  intro h; have := encodeLJH22_length sd so r; rw [h] at this; simp at this; omega

theorem encodeLJH3_ne_nil (r : W3) : encodeLJH3 r ≠ [] := by
  intro h; have := encodeLJH3_length r; rw [h] at this; simp at this; omega

theorem encodeOFF_ne_nil (r : WO) : encodeOFF r ≠ [] := by
  intro h; have := encodeOFF_length r; rw [h] at this; simp at this; omega

/-! ### reading one record back -/

theorem ljh22_read (sd so : Int) (r : W22) (rest : Bytes) :
    parseLJH22 r.data.length 2 (encodeLJH22 sd so r ++ rest) = some (expect22 sd so r, rest) := by
  have hdrop : (encodeLJH22 sd so r ++ rest).drop (16 + r.data.length * 2) = rest :=
    List.drop_left' (encodeLJH22_length sd so r)
  unfold parseLJH22
  rw [if_neg (by rw [List.length_append, encodeLJH22_length]; omega), hdrop]
  simp only [encodeLJH22, List.append_assoc, expect22]
  simp only [unle_take_le, drop_le, Nat.le_refl, Nat.reduceLeDiff, Nat.reduceSub, Nat.sub_self,
    List.drop_zero, twos_mod, unWords_leWords]

theorem ljh3_read (r : W3) (hlen : r.data.length < 2 ^ 31) (rest : Bytes) :
    parseLJH3 (encodeLJH3 r ++ rest) = some (expect3 r, rest) := by
  have hdrop : (encodeLJH3 r ++ rest).drop (24 + 2 * r.data.length) = rest :=
    List.drop_left' (encodeLJH3_length r)
  have hn : unle ((encodeLJH3 r ++ rest).take 4) = r.data.length := by
    simp only [encodeLJH3, List.append_assoc, unle_take_le]
    rw [twos_ofNat 4 _ (by omega)]
    exact Nat.mod_eq_of_lt (by omega)
  unfold parseLJH3
  rw [if_neg (by rw [List.length_append, encodeLJH3_length]; omega)]
  simp only [hn]
  rw [if_neg (by omega), if_neg (by rw [List.length_append, encodeLJH3_length]; omega), hdrop]
  simp only [encodeLJH3, List.append_assoc, expect3]
  simp only [unle_take_le, drop_le, Nat.le_refl, Nat.reduceLeDiff, Nat.reduceSub, Nat.sub_self,
    List.drop_zero, twos_mod, unWords_leWords]

theorem off_read (r : WO) (rest : Bytes) :
    parseOFF r.coefs.length (encodeOFF r ++ rest) = some (expectOFF r, rest) := by
  have hdrop : (encodeOFF r ++ rest).drop (36 + 4 * r.coefs.length) = rest :=
    List.drop_left' (encodeOFF_length r)
  unfold parseOFF
  rw [if_neg (by rw [List.length_append, encodeOFF_length]; omega), hdrop]
  simp only [encodeOFF, List.append_assoc, expectOFF]
  simp only [unle_take_le, drop_le, Nat.le_refl, Nat.reduceLeDiff, Nat.reduceSub, Nat.sub_self,
    List.drop_zero, twos_mod, unWords_leWords]

/-! ### what a successful read consumes -/

theorem parseLJH22_consumes (L M : Nat) (bs : Bytes) (a : R22) (rest : Bytes)
    (h : parseLJH22 L M bs = some (a, rest)) :
    bs.length = (16 + L * M) + rest.length ∧ a.samples.length = L := by
  unfold parseLJH22 at h
  split at h
  · simp at h
  · simp only [Option.some.injEq, Prod.mk.injEq] at h
    obtain ⟨ha, hr⟩ := h
    subst ha; subst hr
    simp only [List.length_drop, unWords_length, and_true]
    omega

theorem parseLJH3_consumes (bs : Bytes) (a : R3) (rest : Bytes) (h : parseLJH3 bs = some (a, rest)) :
    bs.length = (24 + 2 * a.nsamp) + rest.length ∧ a.samples.length = a.nsamp := by
  unfold parseLJH3 at h
  split at h
  · simp at h
  · simp only at h
    split at h
    · simp at h
    · split at h
      · simp at h
      · simp only [Option.some.injEq, Prod.mk.injEq] at h
        obtain ⟨ha, hr⟩ := h
        subst ha; subst hr
        simp only [List.length_drop, unWords_length, and_true]
        omega

theorem parseOFF_consumes (nb : Nat) (bs : Bytes) (a : ROff) (rest : Bytes)
    (h : parseOFF nb bs = some (a, rest)) :
    bs.length = (36 + 4 * nb) + rest.length ∧ a.coefs.length = nb := by
  unfold parseOFF at h
  split at h
  · simp at h
  · simp only [Option.some.injEq, Prod.mk.injEq] at h
    obtain ⟨ha, hr⟩ := h
    subst ha; subst hr
    simp only [List.length_drop, unWords_length, and_true]
    omega

/-! ### truncated records -/

theorem parseLJH22_short (L M : Nat) (t : Bytes) (h : t.length < 16 + L * M) : parseLJH22 L M t = none := by
  unfold parseLJH22; rw [if_pos h]

theorem parseOFF_short (nb : Nat) (t : Bytes) (h : t.length < 36 + 4 * nb) : parseOFF nb t = none := by
  unfold parseOFF; rw [if_pos h]

/-- any strict prefix of an LJH3 record is rejected -/
theorem parseLJH3_prefix (r : W3) (hlen : r.data.length < 2 ^ 31) (k : Nat)
    (hk : k < (encodeLJH3 r).length) : parseLJH3 ((encodeLJH3 r).take k) = none := by
  have hL := encodeLJH3_length r
  have htl : ((encodeLJH3 r).take k).length = k := by
    rw [List.length_take]; omega
  unfold parseLJH3
  by_cases h24 : k < 24
  · rw [if_pos (by omega)]
  · rw [if_neg (by omega)]
    have hn : unle (((encodeLJH3 r).take k).take 4) = r.data.length := by
      rw [List.take_take, Nat.min_eq_left (by omega)]
      have := unle_take_le 4 (twos 4 (r.data.length : Int))
        (le 4 (twos 4 r.frs) ++ (le 8 (twos 8 r.frame) ++ (le 8 (twos 8 r.ts) ++ leWords 2 r.data)))
      simp only [encodeLJH3, List.append_assoc]
      rw [this, twos_ofNat 4 _ (by omega)]
      exact Nat.mod_eq_of_lt (by omega)
    simp only [hn]
    rw [if_neg (by omega), if_pos (by omega)]

end DastardV.C05
