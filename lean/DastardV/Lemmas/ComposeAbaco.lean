/-
Composition, Abaco side: pipeline channel `j` (position in the flattened per-group channel lists of a
block) is channel `c` of group `i` with `j = (channels of the groups before i) + c`; its stream is the
C03 view `catChan bs i c`, i.e. (by `C03_stream_exact`) the packets' own samples where they arrived and
`fpp` filler samples where they were lost.  `abaco_no_pulse_lost` restated in those terms.
-/
import DastardV.Lemmas.Compose
namespace DastardV.Compose
open Pipe

/-- pipeline channel index of channel `c` of group `i` -/
def chanIndex (L : List C03.GL) (i c : Nat) : Nat := ((L.take i).map (·.nchan)).sum + c

theorem flatten_index {α} : ∀ (gs : List (List α)) (i : Nat) (g : List α) (c : Nat),
    gs[i]? = some g → c < g.length →
    gs.flatten[((gs.take i).map (·.length)).sum + c]? = g[c]? := by
  intro gs
  induction gs with
  | nil => intro i g c h; simp at h
  | cons x xs ih =>
    intro i g c h hc
    cases i with
    | zero =>
      simp only [List.getElem?_cons_zero, Option.some.injEq] at h
      subst h
      simp only [List.take_zero, List.map_nil, List.sum_nil, Nat.zero_add, List.flatten_cons]
      exact List.getElem?_append_left hc
    | succ i =>
      simp only [List.getElem?_cons_succ] at h
      simp only [List.take_succ_cons, List.map_cons, List.sum_cons, List.flatten_cons]
      rw [List.getElem?_append_right (by omega)]
      have e : x.length + ((xs.take i).map (·.length)).sum + c - x.length = ((xs.take i).map (·.length)).sum + c := by omega
      rw [e]
      exact ih i g c h hc

theorem chanIndex_lt : ∀ (L : List C03.GL) (i : Nat) (l : C03.GL) (c : Nat), L[i]? = some l → c < l.nchan →
    chanIndex L i c < (L.map (·.nchan)).sum := by
  intro L
  induction L with
  | nil => intro i l c h; simp at h
  | cons x xs ih =>
    intro i l c h hc
    cases i with
    | zero =>
      simp only [List.getElem?_cons_zero, Option.some.injEq] at h
      subst h
      simp only [chanIndex, List.take_zero, List.map_nil, List.sum_nil, List.map_cons, List.sum_cons]
      omega
    | succ i =>
      simp only [List.getElem?_cons_succ] at h
      have := ih i l c h hc
      simp only [chanIndex, List.take_succ_cons, List.map_cons, List.sum_cons] at this ⊢
      omega

/-- one block: position `chanIndex L i c` of the flattened channel lists is channel `c` of group `i` -/
theorem block_chan (L : List C03.GL) (b : C03.Block) (hlen : b.data.map (·.length) = L.map (·.nchan))
    (i : Nat) (l : C03.GL) (hl : L[i]? = some l) (c : Nat) (hc : c < l.nchan) :
    b.data.flatten[chanIndex L i c]?.getD [] = (b.data.getD i []).getD c [] := by
  have h1 : (b.data.map (·.length))[i]? = some l.nchan := by rw [hlen, List.getElem?_map, hl]; rfl
  rw [List.getElem?_map] at h1
  cases hg : b.data[i]? with
  | none => rw [hg] at h1; cases h1
  | some g =>
    rw [hg] at h1
    simp only [Option.map_some, Option.some.injEq] at h1
    have e : chanIndex L i c = ((b.data.take i).map (·.length)).sum + c := by
      unfold chanIndex
      rw [List.map_take, List.map_take, hlen]
    rw [e, flatten_index b.data i g c hg (by omega)]
    simp [List.getD_eq_getElem?_getD, hg]

/-- **index mapping**: under the shape check, the stream pipeline channel `chanIndex L i c` receives is
the C03 stream of channel `c` of group `i` -/
theorem chanSegs_catChan (L : List C03.GL) (bs : List C03.Block) (hs : C03.chkShape L bs = true)
    (i : Nat) (l : C03.GL) (hl : L[i]? = some l) (c : Nat) (hc : c < l.nchan) :
    (chanSegs (chanIndex L i c) bs).flatten = C03.catChan bs i c := by
  unfold chanSegs C03.catChan
  congr 1
  apply List.map_congr_left
  intro b hb
  simp only [C03.chkShape, List.all_eq_true, Bool.and_eq_true, beq_iff_eq] at hs
  exact block_chan L b (hs b hb).1 i l hl c hc

/-- **No pulse lost, end to end (Abaco), in terms of packets.**  For every packet history the ingest
theorems cover, channel `ch` of group `i` (pipeline channel `chanIndex L i ch`): the stream `S` the
pipeline sees is the expected packet sequence `E` of that group — for the `navail` packets from the
common start: `some p` = an arrived packet (its own samples of channel `ch`), `none` = a lost one
(`fpp` filler samples) — and on that stream the published primaries satisfy the C02 clauses
(edge completeness, level completeness, soundness). -/
theorem abaco_no_pulse_lost_packets (fpp : Nat) (L : List C03.GL) (f0 : Int) {nsamp : Int}
    (hf0 : -2305843009213693952 + nsamp ≤ f0)
    (H : List (List (List C03.Pkt))) (gs : List C03.Group) (perms : List (List Nat))
    (hv : C03.validIn fpp L H = true) (hi : C03.InitOK L gs) (hp : C03.PermsOK L.length H perms)
    (s' : C03.St) (outs : List (Nat × C03.Block))
    (hrun : C03.runFrom 0 (C03.startSt gs f0) H perms = .ok (s', outs))
    (mk : C03.Block → Int × Int × List Bool)
    (i : Nat) (l : C03.GL) (hl : L[i]? = some l) (ch : Nat) (hch : ch < l.nchan) (sg : Bool)
    (hsg : ∀ b, ((mk b).2.2)[chanIndex L i ch]?.getD false = sg)
    (npre : Int) (hlen : 3 ≤ npre ∧ npre < nsamp) (saved : List (Nat × Trig.TS))
    (zts : List (List (Int × Int))) (res : List Out)
    (hres : runOps zts (prepare ((L.map (·.nchan)).sum) npre nsamp saved) ((outs.map (·.2)).map (blockOp mk)) = some res) :
    ∃ (c : Trig.Chan) (parts : List (List Trig.Rec × List Trig.Rec)),
      (prepare ((L.map (·.nchan)).sum) npre nsamp saved).chans[chanIndex L i ch]? = some c ∧
      OutsFor (chanIndex L i ch) res parts ∧
      let prims := ((parts.map (·.1)).flatten).map (·.frame)
      let S := C03.catChan (outs.map (·.2)) i ch
      let E := ((C03.specOf l H i).drop (C03.skipOf (C03.startSN L) l)).take (C03.navail L H)
      C03.streamOK fpp l.nchan ch E S = true ∧ S.length = C03.navail L H * fpp ∧
      (c.ts.edge = true → ∀ p : Int, npre ≤ p → p + (nsamp - npre) < (S.length : Int) →
        Trig.edgeAtG (Trig.cfgChan c.ts sg) S p = true → Trig.Cov nsamp f0 prims p) ∧
      (c.ts.level = true → ∀ p : Int, npre ≤ p → p + (nsamp - npre) < (S.length : Int) →
        Trig.levelAtG (Trig.cfgChan c.ts sg) S p = true → Trig.Near nsamp f0 prims p) ∧
      (∀ T ∈ prims, Trig.SoundAt c.ts sg S f0 T) := by
  have hshape := C03.C03_groups_aligned fpp L f0 H gs perms hv hi hp s' outs hrun
  have hstream := C03.C03_stream_exact fpp L f0 H gs perms hv hi hp s' outs hrun
  have hcount := C03.C03_sample_count fpp L f0 H gs perms hv hi hp s' outs hrun i l hl ch hch
  have hmap := chanSegs_catChan L (outs.map (·.2)) hshape i l hl ch hch
  obtain ⟨c, parts, hc, hof, hrest⟩ :=
    abaco_no_pulse_lost fpp L f0 hf0 H gs perms hv hi hp s' outs hrun mk (chanIndex L i ch)
      (chanIndex_lt L i l ch hl hch) sg hsg npre hlen saved zts res hres
  dsimp only at hrest
  rw [hmap] at hrest
  refine ⟨c, parts, hc, hof, ?_⟩
  dsimp only
  refine ⟨?_, hcount, hrest⟩
  unfold C03.chkStream at hstream
  rw [List.all_eq_true] at hstream
  have h1 := hstream i (List.mem_range.mpr (C03.lt_length_of_getElem? hl))
  rw [hl] at h1
  simp only [List.all_eq_true, List.mem_range] at h1
  exact h1 ch hch

end DastardV.Compose
