/-
C17 — the parameterised skeleton of a running acquisition satisfies the side conditions `System.OK` of
`typed_interleavings_owned` (Lemmas/C17Typed.lean), for EVERY number of channels `n ≥ 1`, number of blocks `k`,
position `k0` of the first request, kinds of requests `rk`, secondary-trigger pattern `sec` and trigger-rate
pattern `tm`, and the three source kinds.  Core Lean only.

The hypothesis `0 < s.n` is necessary: for `n = 0` the thread ids of the block-assembly goroutines collapse
(`tA b = enc 4 (b*0) = enc 4 0` for every `b`) while `prog` still gives `enc 4 b` the program `progA b`, so
`add_adder` fails (`n = 0, src = 1, k = 2, w = oWga 1, t = enc 4 1`).  dastard's PrepareRun rejects a source
without channels, and the driver rejects a skeleton with `n = 0`.

Parts: A id arithmetic · B Hoare logic for thread-local typing · C payloads of the contracts as token sets ·
D small programs · E core loop · F token universe, initial placement, control client, `typed` · G wait-group
events of the programs · H wait-group / start fields.
-/
import DastardV.Lemmas.C17SkelH
namespace DastardV.C17
open Sched

theorem skeleton_ok (s : Sched) (hsrc : s.src ≤ 2) (hn : 0 < s.n) : s.system.OK where
  typed := sys_typed s hn hsrc
  init_thr := sys_init_thr s
  init_kind := sys_init_kind s
  init_mtx := fun k m => init_mtx_iff s.par k m
  recvc_one := sys_recvc_one s hn
  start_head := sys_start_head s hn
  start_root := sys_start_root s hn
  kids_nodup := sys_kids_nodup s
  done_kid := sys_done_kid s hn
  add_adder := sys_add_adder s hn
  wait_once := sys_wait_once s hn
  adds_before := sys_adds_before s hn

end DastardV.C17
