/-
C19 helper lemmas: row/column code arithmetic, decimal rendering is injective, names and file names
are injective, sort-based duplicate detection is `Nodup`.
-/
import DastardV.Model.C19
namespace DastardV.C19

/-! ### rcCode -/

theorem rcRow_rcCode (row col rows cols : Nat) : rcRow (rcCode row col rows cols) = row % 65536 := by
  unfold rcRow rcCode; omega

theorem rcCol_rcCode (row col rows cols : Nat) : rcCol (rcCode row col rows cols) = col % 65536 := by
  unfold rcCol rcCode; omega

theorem rcRows_rcCode (row col rows cols : Nat) : rcRows (rcCode row col rows cols) = rows % 65536 := by
  unfold rcRows rcCode; omega

theorem rcCols_rcCode (row col rows cols : Nat) : rcCols (rcCode row col rows cols) = cols % 65536 := by
  unfold rcCols rcCode; omega

theorem rcCode_lt (row col rows cols : Nat) : rcCode row col rows cols < 2 ^ 64 := by
  unfold rcCode; omega

theorem decoded_mkStream (e : Bool) (num : Int) (row col rows cols : Nat)
    (h1 : row < 65536) (h2 : col < 65536) (h3 : rows < 65536) (h4 : cols < 65536) :
    decoded (mkStream e num row col rows cols) = (row, col, rows, cols) := by
  simp only [decoded, mkStream, rcRow_rcCode, rcCol_rcCode, rcRows_rcCode, rcCols_rcCode,
    Nat.mod_eq_of_lt h1, Nat.mod_eq_of_lt h2, Nat.mod_eq_of_lt h3, Nat.mod_eq_of_lt h4]

/-! ### decimal digits -/

def digVal (c : Char) : Nat := c.toNat - 48

def revVal : List Char → Nat
  | [] => 0
  | c :: r => digVal c + 10 * revVal r

theorem lt_ten_cases (d : Nat) (h : d < 10) :
    d = 0 ∨ d = 1 ∨ d = 2 ∨ d = 3 ∨ d = 4 ∨ d = 5 ∨ d = 6 ∨ d = 7 ∨ d = 8 ∨ d = 9 := by omega

theorem digVal_digitChar (d : Nat) (h : d < 10) : digVal (digitChar d) = d := by
  rcases lt_ten_cases d h with h | h | h | h | h | h | h | h | h | h <;> subst h <;> decide

theorem digitChar_ne_minus (d : Nat) (h : d < 10) : digitChar d ≠ '-' := by
  rcases lt_ten_cases d h with h | h | h | h | h | h | h | h | h | h <;> subst h <;> decide

theorem revVal_natDigitsRev (f : Nat) : ∀ n, n < f → revVal (natDigitsRev f n) = n := by
  induction f with
  | zero => intro n h; omega
  | succ f ih =>
    intro n h
    unfold natDigitsRev
    by_cases h10 : n < 10
    · rw [if_pos h10]; simp [revVal, digVal_digitChar n h10]
    · rw [if_neg h10]
      simp only [revVal]
      rw [digVal_digitChar _ (Nat.mod_lt _ (by omega)), ih (n / 10) (by omega)]
      omega

theorem natDigitsRev_no_minus (f : Nat) : ∀ n, ∀ c ∈ natDigitsRev f n, c ≠ '-' := by
  induction f with
  | zero => intro n c hc; simp [natDigitsRev] at hc
  | succ f ih =>
    intro n c hc
    unfold natDigitsRev at hc
    by_cases h10 : n < 10
    · rw [if_pos h10] at hc
      simp at hc; subst hc; exact digitChar_ne_minus n h10
    · rw [if_neg h10] at hc
      rcases List.mem_cons.mp hc with h | h
      · subst h; exact digitChar_ne_minus _ (Nat.mod_lt _ (by omega))
      · exact ih _ c h

theorem natDigits_inj {a b : Nat} (h : natDigits a = natDigits b) : a = b := by
  unfold natDigits at h
  have h' := List.reverse_inj.mp h
  have ha := revVal_natDigitsRev (a + 1) a (by omega)
  have hb := revVal_natDigitsRev (b + 1) b (by omega)
  rw [h'] at ha; omega

theorem natDigits_no_minus (n : Nat) : '-' ∉ natDigits n := by
  intro h
  unfold natDigits at h
  exact natDigitsRev_no_minus _ _ _ (List.mem_reverse.mp h) rfl

theorem fmtInt_inj {a b : Int} (h : fmtInt a = fmtInt b) : a = b := by
  unfold fmtInt at h
  by_cases ha : a < 0 <;> by_cases hb : b < 0
  · rw [if_pos ha, if_pos hb] at h
    have := natDigits_inj (List.cons.inj h).2
    omega
  · rw [if_pos ha, if_neg hb] at h
    exact absurd (h ▸ List.mem_cons_self) (natDigits_no_minus _)
  · rw [if_neg ha, if_pos hb] at h
    exact absurd (h ▸ List.mem_cons_self) (natDigits_no_minus _)
  · rw [if_neg ha, if_neg hb] at h
    have := natDigits_inj h
    omega

theorem chanName_inj {e1 e2 : Bool} {n1 n2 : Int} (h : chanName e1 n1 = chanName e2 n2) :
    e1 = e2 ∧ n1 = n2 := by
  unfold chanName at h
  cases e1 <;> cases e2
  · simp only [Bool.false_eq_true, if_false] at h
    exact ⟨rfl, fmtInt_inj (List.append_cancel_left h)⟩
  · simp [errPfx, chanPfx] at h
  · simp [errPfx, chanPfx] at h
  · simp only [if_true] at h
    exact ⟨rfl, fmtInt_inj (List.append_cancel_left h)⟩

/-! ### file names -/

def IsExt (e : List Char) : Prop := e = extLJH ∨ e = extOFF ∨ e = extLJH3

theorem fileName_inj {pfx a b e e' : List Char} (he : IsExt e) (he' : IsExt e')
    (h : fileName pfx a e = fileName pfx b e') : a = b ∧ e = e' := by
  unfold fileName at h
  rw [List.append_assoc, List.append_assoc] at h
  have h1 := List.append_cancel_left h
  have hl := congrArg List.getLast? h1
  by_cases hee : e = e'
  · subst hee
    exact ⟨List.append_cancel_right h1, rfl⟩
  · exfalso
    rcases he with he | he | he <;> rcases he' with he' | he' | he' <;> subst he <;> subst he' <;>
      first
        | exact hee rfl
        | (simp [extLJH, extOFF, extLJH3] at hl)

/-- all output file names formed from pairwise distinct channel names are pairwise distinct, over
all three file types -/
theorem fileNames_nodup (pfx : List Char) (names : List (List Char)) (h : names.Nodup) :
    (names.flatMap fun n => [fileName pfx n extLJH, fileName pfx n extOFF, fileName pfx n extLJH3]).Nodup := by
  unfold List.Nodup
  rw [List.pairwise_flatMap]
  have e1 : IsExt extLJH := Or.inl rfl
  have e2 : IsExt extOFF := Or.inr (Or.inl rfl)
  have e3 : IsExt extLJH3 := Or.inr (Or.inr rfl)
  constructor
  · intro a _
    have d12 : extLJH ≠ extOFF := by decide
    have d13 : extLJH ≠ extLJH3 := by decide
    have d23 : extOFF ≠ extLJH3 := by decide
    simp only [List.pairwise_cons, List.mem_cons, List.not_mem_nil, or_false, forall_eq_or_imp, forall_eq,
      List.Pairwise.nil, and_true, false_implies, implies_true]
    refine ⟨⟨?_, ?_⟩, ?_⟩
    · intro hh; exact d12 (fileName_inj e1 e2 hh).2
    · intro hh; exact d13 (fileName_inj e1 e3 hh).2
    · intro hh; exact d23 (fileName_inj e2 e3 hh).2
  · refine List.Pairwise.imp ?_ h
    intro a b hab x hx y hy hxy
    simp only [List.mem_cons, List.not_mem_nil, or_false] at hx hy
    rcases hx with hx | hx | hx <;> rcases hy with hy | hy | hy <;> subst hx <;> subst hy <;>
      first
        | exact hab (fileName_inj e1 e1 hxy).1
        | exact hab (fileName_inj e1 e2 hxy).1
        | exact hab (fileName_inj e1 e3 hxy).1
        | exact hab (fileName_inj e2 e1 hxy).1
        | exact hab (fileName_inj e2 e2 hxy).1
        | exact hab (fileName_inj e2 e3 hxy).1
        | exact hab (fileName_inj e3 e1 hxy).1
        | exact hab (fileName_inj e3 e2 hxy).1
        | exact hab (fileName_inj e3 e3 hxy).1

/-! ### sort-based duplicate detection -/

theorem strictAdj_iff_nodup : ∀ (s : List Int), s.Pairwise (fun a b => a ≤ b) → (strictAdj s = true ↔ s.Nodup)
  | [], _ => by simp [strictAdj]
  | [a], _ => by simp [strictAdj]
  | a :: b :: r, hp => by
    have hp' := List.pairwise_cons.mp hp
    have ih := strictAdj_iff_nodup (b :: r) hp'.2
    simp only [strictAdj, Bool.and_eq_true, decide_eq_true_eq, ih]
    rw [List.nodup_cons (a := a)]
    constructor
    · rintro ⟨hab, hn⟩
      refine ⟨?_, hn⟩
      intro hmem
      rcases List.mem_cons.mp hmem with h | h
      · omega
      · have h1 := (List.pairwise_cons.mp hp'.2).1 a h
        omega
    · rintro ⟨hnm, hn⟩
      refine ⟨?_, hn⟩
      have h1 := hp'.1 b List.mem_cons_self
      have h2 : a ≠ b := fun h => hnm (h ▸ List.mem_cons_self)
      omega

theorem sortInt_pairwise (l : List Int) :
    (l.mergeSort (fun a b => decide (a ≤ b))).Pairwise (fun a b => a ≤ b) := by
  have h := List.pairwise_mergeSort (le := fun (a b : Int) => decide (a ≤ b))
    (by intro a b c h1 h2; simp only [decide_eq_true_eq] at *; omega)
    (by intro a b; simp only [Bool.or_eq_true, decide_eq_true_eq]; omega) l
  exact h.imp (by intro a b hab; simpa using hab)

theorem dupFree_iff_nodup (l : List Int) : dupFree l = true ↔ l.Nodup := by
  unfold dupFree
  rw [strictAdj_iff_nodup _ (sortInt_pairwise l)]
  exact (List.mergeSort_perm l _).nodup_iff

theorem mem_dedupAdj : ∀ (l : List Int) (x : Int), x ∈ dedupAdj l ↔ x ∈ l
  | [], x => by simp [dedupAdj]
  | [a], x => by simp [dedupAdj]
  | a :: b :: r, x => by
    have ih := mem_dedupAdj (b :: r) x
    unfold dedupAdj
    by_cases hab : a = b
    · rw [if_pos hab, ih]; subst hab; simp
    · rw [if_neg hab, List.mem_cons, ih, List.mem_cons (a := x) (b := a)]

/-- soundness of `sameSet`: equal sorted-deduplicated lists have the same members -/
theorem sameSet_sound (a b : List Int) (h : sameSet a b = true) : ∀ x, x ∈ a ↔ x ∈ b := by
  intro x
  unfold sameSet at h
  have h' := eq_of_beq h
  have ha := mem_dedupAdj (a.mergeSort (fun x y => decide (x ≤ y))) x
  have hb := mem_dedupAdj (b.mergeSort (fun x y => decide (x ≤ y))) x
  rw [List.mem_mergeSort] at ha hb
  rw [← ha, ← hb, h']

theorem sameSet_refl (a : List Int) : sameSet a a = true := by
  unfold sameSet; exact beq_self_eq_true _

/-- soundness of `sameBag`: equal sorted lists are rearrangements of each other -/
theorem sameBag_sound (a b : List Int) (h : sameBag a b = true) : a.Perm b := by
  unfold sameBag at h
  have h' := eq_of_beq h
  exact (List.mergeSort_perm a _).symm.trans (h' ▸ List.mergeSort_perm b _)

theorem sameBag_refl (a : List Int) : sameBag a a = true := by
  unfold sameBag; exact beq_self_eq_true _

/-! ### name encoding -/

theorem encName_nil : encName [] = 0 := by unfold encName; rw [List.foldr_nil]

theorem encName_cons (c : Char) (r : List Char) :
    encName (c :: r) = encName r * 2097152 + (c.toNat + 1) := by
  unfold encName; rw [List.foldr_cons]

theorem char_toNat_lt (c : Char) : c.toNat < 2097152 := by
  have := c.valid; simp only [Char.toNat]
  rcases this with h | h <;> omega

theorem encName_inj : ∀ (a b : List Char), encName a = encName b → a = b
  | [], [], _ => rfl
  | [], c :: r, h => by rw [encName_nil, encName_cons] at h; omega
  | c :: r, [], h => by rw [encName_nil, encName_cons] at h; omega
  | c :: r, d :: s, h => by
    have hc := char_toNat_lt c
    have hd := char_toNat_lt d
    rw [encName_cons, encName_cons] at h
    have h1 : c.toNat = d.toNat := by omega
    have h2 : encName r = encName s := by omega
    rw [Char.toNat_inj.mp h1, encName_inj r s h2]

/-! ### generic list facts -/

theorem nodup_map_of_inj {α β} (f : α → β) (l : List α) (hf : ∀ a b, f a = f b → a = b) (h : l.Nodup) :
    (l.map f).Nodup := by
  unfold List.Nodup
  rw [List.pairwise_map]
  exact h.imp (fun hab hf' => hab (hf _ _ hf'))

theorem nodup_of_nodup_map {α β} (f : α → β) (l : List α) (h : (l.map f).Nodup) : l.Nodup := by
  unfold List.Nodup at h
  rw [List.pairwise_map] at h
  exact h.imp (fun hab hh => hab (congrArg f hh))

theorem evens_pairs {α β} (f g : α → β) : ∀ l : List α, evens (l.flatMap fun x => [f x, g x]) = l.map f
  | [] => rfl
  | a :: l => by simp [evens, evens_pairs f g l]

theorem odds_pairs {α β} (f g : α → β) : ∀ l : List α, odds (l.flatMap fun x => [f x, g x]) = l.map g
  | [] => rfl
  | a :: l => by simp [odds, odds_pairs f g l]

end DastardV.C19
