/-
C03 helper lemmas, part a: packets, de-interleaving, gap filling (`fillLoop`), trimming, the
packet loop of `demuxData`.
-/
import DastardV.Model.C03
namespace DastardV.C03

/-! ### small list / arithmetic facts -/

theorem mul_index_lt {nchan frames c i : Nat} (hc : c < nchan) (hi : i < frames) :
    c + nchan * i < frames * nchan := by
  have h1 : nchan * (i + 1) ≤ nchan * frames := Nat.mul_le_mul_left _ hi
  rw [Nat.mul_add, Nat.mul_one] at h1
  rw [Nat.mul_comm frames nchan]
  omega

theorem lastSnOr_nil (d : Nat) : lastSnOr d [] = d := rfl

theorem lastSnOr_append_cons (d : Nat) (xs : List Pkt) (p : Pkt) (ys : List Pkt) :
    lastSnOr d (xs ++ p :: ys) = lastSnOr p.sn ys := by
  unfold lastSnOr
  rw [List.getLast?_append, List.getLast?_cons]
  cases h : ys.getLast? <;> simp

theorem lastSnOr_cons (d : Nat) (p : Pkt) (ys : List Pkt) : lastSnOr d (p :: ys) = lastSnOr p.sn ys :=
  lastSnOr_append_cons d [] p ys

theorem lastSnOr_append_nil (d : Nat) (xs : List Pkt) : lastSnOr d (xs ++ []) = lastSnOr d xs := by simp

/-- the default only matters for the empty list -/
theorem lastSnOr_default (d d' : Nat) (xs : List Pkt) (h : xs ≠ []) : lastSnOr d xs = lastSnOr d' xs := by
  cases xs with
  | nil => exact absurd rfl h
  | cons p ps => rw [lastSnOr_cons, lastSnOr_cons]

theorem lastSnOr_idem (d : Nat) (xs : List Pkt) : lastSnOr (lastSnOr d xs) xs = lastSnOr d xs := by
  cases xs with
  | nil => rfl
  | cons p ps => rw [lastSnOr_cons, lastSnOr_cons]

theorem lastSnOr_append (d : Nat) (xs ys : List Pkt) : lastSnOr d (xs ++ ys) = lastSnOr (lastSnOr d xs) ys := by
  cases ys with
  | nil => simp [lastSnOr_nil]
  | cons p ps => rw [lastSnOr_append_cons, lastSnOr_cons]

theorem lastSnOr_drop (d c : Nat) (xs : List Pkt) :
    lastSnOr d (xs.drop c) = if xs.length ≤ c then d else lastSnOr d xs := by
  unfold lastSnOr
  rw [List.getLast?_drop]
  split <;> simp

/-! ### de-interleaving -/

/-- **demux_deinterleave**: for a packet of `frames` frames of `nchan` values, channel `c` of the
demultiplexed packet has `frames` samples and sample `i` is the converted payload value at position
`c + nchan * i` (frame `i`, channel `c`); no default value is ever used. -/
theorem demux_deinterleave (nchan c frames : Nat) (p : Pkt) (hlen : p.data.length = frames * nchan)
    (hc : c < nchan) :
    (chanOf nchan c p).length = frames ∧
      ∀ i (hi : i < frames), (chanOf nchan c p)[i]? =
        some (conv p.wide (p.data[c + nchan * i]'(by rw [hlen]; exact mul_index_lt hc hi))) := by
  have hn : 0 < nchan := by omega
  have hf : p.data.length / nchan = frames := by rw [hlen]; exact Nat.mul_div_cancel _ hn
  unfold chanOf
  rw [hf]
  refine ⟨by simp, ?_⟩
  intro i hi
  have hb : c + nchan * i < p.data.length := by rw [hlen]; exact mul_index_lt hc hi
  rw [List.getElem?_map, List.getElem?_range hi]
  simp only [Option.map_some]
  rw [List.getD_eq_getElem?_getD, List.getElem?_eq_getElem hb]
  rfl

theorem chanOf_length (nchan c : Nat) (p : Pkt) : (chanOf nchan c p).length = p.data.length / nchan := by
  simp [chanOf]

theorem pretend_data_length (nchan : Nat) (p : Pkt) (sn : Nat) :
    (pretend nchan p sn).data.length = p.data.length := by simp [pretend]

theorem pretend_sn (nchan : Nat) (p : Pkt) (sn : Nat) : (pretend nchan p sn).sn = sn := rfl

/-- a pretend packet repeats, on every channel, that channel's first value of the packet it was made from -/
theorem pretend_chan (nchan c frames : Nat) (p : Pkt) (sn : Nat) (hlen : p.data.length = frames * nchan)
    (hc : c < nchan) :
    chanOf nchan c (pretend nchan p sn) = List.replicate frames (conv p.wide (p.data.getD c 0)) := by
  have hn : 0 < nchan := by omega
  have hf : p.data.length / nchan = frames := by rw [hlen]; exact Nat.mul_div_cancel _ hn
  unfold chanOf
  rw [pretend_data_length, hf]
  apply List.ext_getElem?
  intro i
  rw [List.getElem?_map, List.getElem?_replicate]
  by_cases hi : i < frames
  · rw [List.getElem?_range hi, if_pos hi]
    have hb : c + nchan * i < p.data.length := by rw [hlen]; exact mul_index_lt hc hi
    simp only [Option.map_some, pretend]
    rw [List.getD_eq_getElem?_getD, List.getElem?_map, List.getElem?_range hb]
    simp only [Option.map_some, Option.getD_some]
    rw [Nat.add_mul_mod_self_left, Nat.mod_eq_of_lt hc]
  · rw [if_neg hi, List.getElem?_eq_none (by simp; omega)]
    rfl

/-! ### well-formed packets -/

/-- every packet carries `fpp` frames of `nchan` values -/
def WF (fpp nchan : Nat) (ps : List Pkt) : Prop := ∀ p ∈ ps, p.data.length = fpp * nchan

theorem WF.frames {fpp nchan : Nat} {ps : List Pkt} (h : WF fpp nchan ps) (hn : 0 < nchan) :
    ∀ p ∈ ps, p.frames nchan = fpp := by
  intro p hp
  unfold Pkt.frames
  rw [h p hp]
  exact Nat.mul_div_cancel _ hn

theorem WF.append {fpp nchan : Nat} {xs ys : List Pkt} (hx : WF fpp nchan xs) (hy : WF fpp nchan ys) :
    WF fpp nchan (xs ++ ys) := by
  intro p hp
  rcases List.mem_append.mp hp with h | h
  · exact hx p h
  · exact hy p h

theorem WF.of_append_left {fpp nchan : Nat} {xs ys : List Pkt} (h : WF fpp nchan (xs ++ ys)) : WF fpp nchan xs :=
  fun p hp => h p (List.mem_append_left _ hp)

theorem WF.of_append_right {fpp nchan : Nat} {xs ys : List Pkt} (h : WF fpp nchan (xs ++ ys)) : WF fpp nchan ys :=
  fun p hp => h p (List.mem_append_right _ hp)

theorem WF.drop {fpp nchan : Nat} {xs : List Pkt} (h : WF fpp nchan xs) (k : Nat) : WF fpp nchan (xs.drop k) :=
  fun p hp => h p (List.mem_of_mem_drop hp)

theorem WF.take {fpp nchan : Nat} {xs : List Pkt} (h : WF fpp nchan xs) (k : Nat) : WF fpp nchan (xs.take k) :=
  fun p hp => h p (List.mem_of_mem_take hp)

/-! ### sequence-ordered arrival lists -/

/-- numbers strictly increasing, the first one `≥ e` -/
def Inc : Nat → List Pkt → Prop
  | _, [] => True
  | e, p :: ps => e ≤ p.sn ∧ Inc (p.sn + 1) ps

theorem inc_of_increasing : ∀ (ps : List Pkt) (e : Nat), increasing e ps = true → Inc e ps := by
  intro ps
  induction ps with
  | nil => intro e _; trivial
  | cons p ps ih =>
    intro e h
    simp only [increasing, Bool.and_eq_true, decide_eq_true_eq] at h
    exact ⟨h.1, ih _ h.2⟩

theorem Inc.mono : ∀ {ps : List Pkt} {e e' : Nat}, Inc e ps → e' ≤ e → Inc e' ps := by
  intro ps
  cases ps with
  | nil => intro _ _ _ _; trivial
  | cons p ps => intro e e' h hle; exact ⟨Nat.le_trans hle h.1, h.2⟩

/-- one past the last number (`e` for the empty list) -/
def endOf (e : Nat) (ps : List Pkt) : Nat := lastSnOr (e - 1) ps + 1

theorem endOf_nil (e : Nat) (he : 1 ≤ e) : endOf e [] = e := by
  unfold endOf; rw [lastSnOr_nil]; omega

theorem endOf_cons (e : Nat) (p : Pkt) (ps : List Pkt) : endOf e (p :: ps) = endOf (p.sn + 1) ps := by
  unfold endOf; rw [lastSnOr_cons]; simp

theorem Inc.append : ∀ (xs : List Pkt) (e : Nat) (ys : List Pkt), 1 ≤ e →
    (Inc e (xs ++ ys) ↔ Inc e xs ∧ Inc (endOf e xs) ys) := by
  intro xs
  induction xs with
  | nil =>
    intro e ys he
    rw [List.nil_append, endOf_nil e he]
    exact ⟨fun h => ⟨trivial, h⟩, fun h => h.2⟩
  | cons p ps ih =>
    intro e ys he
    rw [List.cons_append, endOf_cons]
    show (e ≤ p.sn ∧ Inc (p.sn + 1) (ps ++ ys)) ↔ (e ≤ p.sn ∧ Inc (p.sn + 1) ps) ∧ _
    rw [ih (p.sn + 1) ys (by omega)]
    exact ⟨fun h => ⟨⟨h.1, h.2.1⟩, h.2.2⟩, fun h => ⟨h.1.1, h.1.2, h.2⟩⟩

theorem Inc.le_endOf : ∀ (xs : List Pkt) (e : Nat), 1 ≤ e → Inc e xs → e ≤ endOf e xs := by
  intro xs
  induction xs with
  | nil => intro e he _; rw [endOf_nil e he]; exact Nat.le_refl _
  | cons p ps ih =>
    intro e he h
    rw [endOf_cons]
    have := ih (p.sn + 1) (by omega) h.2
    have := h.1
    omega

/-! ### fillLoop -/

theorem fakes_length (nchan : Nat) (p : Pkt) : ∀ (k e : Nat), (fakes nchan p k e).length = k := by
  intro k
  induction k with
  | zero => intro e; rfl
  | succ k ih => intro e; simp [fakes, ih]

theorem fakes_sns (nchan : Nat) (p : Pkt) : ∀ (k e : Nat), (fakes nchan p k e).map (·.sn) = List.range' e k := by
  intro k
  induction k with
  | zero => intro e; rfl
  | succ k ih => intro e; simp [fakes, ih, List.range', pretend_sn]

theorem fakes_wf (fpp nchan : Nat) (p : Pkt) (hp : p.data.length = fpp * nchan) :
    ∀ (k e : Nat), WF fpp nchan (fakes nchan p k e) := by
  intro k
  induction k with
  | zero => intro e q hq; simp [fakes] at hq
  | succ k ih =>
    intro e q hq
    simp only [fakes, List.mem_cons] at hq
    rcases hq with h | h
    · rw [h, pretend_data_length]; exact hp
    · exact ih _ q h

/-- on an ordered list starting at or after `e` the skip branch is never taken -/
theorem fill_inc_cons (nchan e : Nat) (p : Pkt) (ps : List Pkt) (h : e ≤ p.sn) :
    fillLoop nchan e (p :: ps) =
      (fakes nchan p (p.sn - e) e ++ p :: (fillLoop nchan (p.sn + 1) ps).1,
       (p.sn - e) * p.frames nchan + (fillLoop nchan (p.sn + 1) ps).2) := by
  rw [fillLoop]
  rw [if_neg (by omega)]

/-- packets numbered below `snexpect` (left over from earlier calls) are copied unchanged -/
theorem fill_skip_old (nchan e : Nat) : ∀ (old new : List Pkt), (∀ p ∈ old, p.sn < e) →
    fillLoop nchan e (old ++ new) = (old ++ (fillLoop nchan e new).1, (fillLoop nchan e new).2) := by
  intro old
  induction old with
  | nil => intro new _; rfl
  | cons p ps ih =>
    intro new h
    rw [List.cons_append, fillLoop, if_pos (h p (by simp))]
    rw [ih new (fun q hq => h q (by simp [hq]))]
    rfl

theorem fill_nil (nchan e : Nat) : fillLoop nchan e [] = ([], 0) := rfl

/-- filling is compositional over an ordered list: the second part is filled from one past the
last number of the first part -/
theorem fill_append (nchan : Nat) : ∀ (xs : List Pkt) (e : Nat) (ys : List Pkt), 1 ≤ e → Inc e xs →
    fillLoop nchan e (xs ++ ys) =
      ((fillLoop nchan e xs).1 ++ (fillLoop nchan (endOf e xs) ys).1,
       (fillLoop nchan e xs).2 + (fillLoop nchan (endOf e xs) ys).2) := by
  intro xs
  induction xs with
  | nil =>
    intro e ys he _
    rw [List.nil_append, endOf_nil e he, fill_nil]
    simp
  | cons p ps ih =>
    intro e ys he h
    rw [List.cons_append, fill_inc_cons _ _ _ _ h.1, fill_inc_cons _ _ _ _ h.1, endOf_cons,
      ih (p.sn + 1) ys (by omega) h.2]
    simp [Nat.add_assoc]

/-- the filled list carries the consecutive numbers `e, e+1, …, endOf - 1` -/
theorem fill_sns (nchan : Nat) : ∀ (xs : List Pkt) (e : Nat), 1 ≤ e → Inc e xs →
    (fillLoop nchan e xs).1.map (·.sn) = List.range' e (endOf e xs - e) := by
  intro xs
  induction xs with
  | nil => intro e he _; rw [endOf_nil e he, fill_nil]; simp
  | cons p ps ih =>
    intro e he h
    have h1 := h.1
    have h2 := Inc.le_endOf ps (p.sn + 1) (by omega) h.2
    rw [fill_inc_cons _ _ _ _ h.1, endOf_cons]
    simp only [List.map_append, List.map_cons, fakes_sns, ih (p.sn + 1) (by omega) h.2]
    have e1 : endOf (p.sn + 1) ps - e = (p.sn - e) + (1 + (endOf (p.sn + 1) ps - (p.sn + 1))) := by omega
    rw [e1, ← List.range'_append_1, ← List.range'_append_1]
    have e2 : e + (p.sn - e) = p.sn := by omega
    rw [e2]
    rfl

theorem fill_length (nchan : Nat) (xs : List Pkt) (e : Nat) (he : 1 ≤ e) (h : Inc e xs) :
    (fillLoop nchan e xs).1.length = endOf e xs - e := by
  have := congrArg List.length (fill_sns nchan xs e he h)
  simpa using this

theorem fill_wf (fpp nchan : Nat) : ∀ (xs : List Pkt) (e : Nat), Inc e xs → WF fpp nchan xs →
    WF fpp nchan (fillLoop nchan e xs).1 := by
  intro xs
  induction xs with
  | nil => intro e _ _ q hq; simp [fill_nil] at hq
  | cons p ps ih =>
    intro e h hw
    rw [fill_inc_cons _ _ _ _ h.1]
    apply WF.append (fakes_wf fpp nchan p (hw p (by simp)) _ _)
    intro q hq
    simp only [List.mem_cons] at hq
    rcases hq with hq | hq
    · rw [hq]; exact hw p (by simp)
    · exact ih _ h.2 (fun r hr => hw r (by simp [hr])) q hq

theorem fill_last (nchan : Nat) : ∀ (xs : List Pkt) (e d : Nat), Inc e xs →
    lastSnOr d (fillLoop nchan e xs).1 = lastSnOr d xs := by
  intro xs
  induction xs with
  | nil => intro e d _; rfl
  | cons p ps ih =>
    intro e d h
    rw [fill_inc_cons _ _ _ _ h.1, lastSnOr_append_cons, lastSnOr_cons, ih _ _ h.2]

theorem fill_eq_nil (nchan : Nat) (xs : List Pkt) (e : Nat) (h : (fillLoop nchan e xs).1 = []) : xs = [] := by
  cases xs with
  | nil => rfl
  | cons p ps =>
    rw [fillLoop] at h
    split at h <;> simp at h

/-- every number in the filled list is below `endOf` -/
theorem fill_sn_lt (nchan : Nat) (xs : List Pkt) (e : Nat) (he : 1 ≤ e) (h : Inc e xs) :
    ∀ q ∈ (fillLoop nchan e xs).1, q.sn < endOf e xs := by
  intro q hq
  have hm : q.sn ∈ (fillLoop nchan e xs).1.map (·.sn) := List.mem_map_of_mem hq
  rw [fill_sns nchan xs e he h, List.mem_range'_1] at hm
  have := Inc.le_endOf xs e he h
  omega

/-- lost packets between `e` and the end of an ordered list -/
def lost : Nat → List Pkt → Nat
  | _, [] => 0
  | e, p :: ps => (p.sn - e) + lost (p.sn + 1) ps

theorem specFrom_length : ∀ (xs : List Pkt) (e : Nat), (specFrom e xs).length = xs.length + lost e xs := by
  intro xs
  induction xs with
  | nil => intro e; rfl
  | cons p ps ih => intro e; simp [specFrom, lost, ih]; omega

/-- frames added by a fill = frames per packet × packets lost -/
theorem fill_added (fpp nchan : Nat) (hn : 0 < nchan) : ∀ (xs : List Pkt) (e : Nat), Inc e xs →
    WF fpp nchan xs → (fillLoop nchan e xs).2 = fpp * lost e xs := by
  intro xs
  induction xs with
  | nil => intro e _ _; rfl
  | cons p ps ih =>
    intro e h hw
    rw [fill_inc_cons _ _ _ _ h.1]
    simp only [lost]
    rw [ih _ h.2 (fun r hr => hw r (by simp [hr])), hw.frames hn p (by simp), Nat.mul_add, Nat.mul_comm]

/-! ### the expected sequence vs. the filled list -/

/-- position by position: where the expected sequence has an arrived packet the list has that very packet -/
def Rel : List (Option Pkt) → List Pkt → Prop
  | [], [] => True
  | o :: E, q :: F => (∀ p, o = some p → q = p) ∧ Rel E F
  | _, _ => False

theorem Rel.length_eq : ∀ {E : List (Option Pkt)} {F : List Pkt}, Rel E F → E.length = F.length := by
  intro E
  induction E with
  | nil => intro F h; cases F with
    | nil => rfl
    | cons _ _ => exact absurd h (by simp [Rel])
  | cons o E ih => intro F h; cases F with
    | nil => exact absurd h (by simp [Rel])
    | cons q F => simp [ih h.2]

theorem Rel.append : ∀ {E1 : List (Option Pkt)} {F1 : List Pkt} {E2 : List (Option Pkt)} {F2 : List Pkt},
    Rel E1 F1 → Rel E2 F2 → Rel (E1 ++ E2) (F1 ++ F2) := by
  intro E1
  induction E1 with
  | nil => intro F1 E2 F2 h1 h2; cases F1 with
    | nil => exact h2
    | cons _ _ => exact absurd h1 (by simp [Rel])
  | cons o E ih => intro F1 E2 F2 h1 h2; cases F1 with
    | nil => exact absurd h1 (by simp [Rel])
    | cons q F => exact ⟨h1.1, ih h1.2 h2⟩

theorem Rel.drop : ∀ {E : List (Option Pkt)} {F : List Pkt} (k : Nat), Rel E F → Rel (E.drop k) (F.drop k) := by
  intro E
  induction E with
  | nil => intro F k h; cases F with
    | nil => simpa using h
    | cons _ _ => exact absurd h (by simp [Rel])
  | cons o E ih => intro F k h; cases F with
    | nil => exact absurd h (by simp [Rel])
    | cons q F => cases k with
      | zero => exact h
      | succ k => exact ih k h.2

theorem Rel.take : ∀ {E : List (Option Pkt)} {F : List Pkt} (k : Nat), Rel E F → Rel (E.take k) (F.take k) := by
  intro E
  induction E with
  | nil => intro F k h; cases F with
    | nil => simpa using h
    | cons _ _ => exact absurd h (by simp [Rel])
  | cons o E ih => intro F k h; cases F with
    | nil => exact absurd h (by simp [Rel])
    | cons q F => cases k with
      | zero => trivial
      | succ k => exact ⟨h.1, ih k h.2⟩

theorem rel_fakes (nchan : Nat) (p : Pkt) : ∀ (k e : Nat), Rel (List.replicate k none) (fakes nchan p k e) := by
  intro k
  induction k with
  | zero => intro e; trivial
  | succ k ih => intro e; exact ⟨fun _ h => (by cases h), ih _⟩

/-- the filled list realises the expected sequence -/
theorem fill_rel (nchan : Nat) : ∀ (xs : List Pkt) (e : Nat), Inc e xs →
    Rel (specFrom e xs) (fillLoop nchan e xs).1 := by
  intro xs
  induction xs with
  | nil => intro e _; trivial
  | cons p ps ih =>
    intro e h
    rw [fill_inc_cons _ _ _ _ h.1]
    exact Rel.append (rel_fakes nchan p _ _) ⟨fun q hq => (by cases hq; rfl), ih _ h.2⟩

/-! ### trimming -/

/-- on a queue with consecutive numbers from `h`, trimming to `target` drops `target - h` packets -/
theorem trim_contig : ∀ (q : List Pkt) (h target : Nat), q.map (·.sn) = List.range' h q.length →
    trimLoop target q = q.drop (target - h) := by
  intro q
  induction q with
  | nil => intro h target _; simp [trimLoop]
  | cons p ps ih =>
    intro h target hs
    simp only [List.map_cons, List.length_cons, List.range'_succ, List.cons.injEq] at hs
    rw [trimLoop]
    by_cases hge : p.sn ≥ target
    · rw [if_pos hge]
      have : target - h = 0 := by omega
      rw [this]; rfl
    · rw [if_neg hge, ih (h + 1) target hs.2]
      have : target - h = (target - (h + 1)) + 1 := by omega
      rw [this]; rfl

/-! ### the packet loop of demuxData and the frame count -/

theorem demux_uniform (fpp nchan : Nat) (hf : 0 < fpp) : ∀ (m : Nat) (q : List Pkt),
    (∀ p ∈ q, p.frames nchan = fpp) → m ≤ q.length →
    demuxLoop nchan (m * fpp) q = (q.take m, q.drop m, 0) := by
  intro m
  induction m with
  | zero =>
    intro q h _
    cases q with
    | nil => simp [demuxLoop]
    | cons p ps =>
      rw [demuxLoop, if_pos (by rw [h p (by simp)]; omega)]
      simp
  | succ m ih =>
    intro q h hm
    cases q with
    | nil => simp at hm
    | cons p ps =>
      have hp := h p (by simp)
      have hle : ¬ (p.frames nchan > (m + 1) * fpp) := by
        rw [hp, Nat.succ_mul]; omega
      rw [demuxLoop, if_neg hle, hp]
      have e : (m + 1) * fpp - fpp = m * fpp := by rw [Nat.succ_mul]; omega
      rw [e, ih ps (fun r hr => h r (by simp [hr])) (by simpa using hm)]
      simp

theorem count_uniform (fpp nchan : Nat) : ∀ (q : List Pkt), WF fpp nchan q →
    (q.map (·.data.length)).sum = (q.length * fpp) * nchan := by
  intro q
  induction q with
  | nil => intro _; simp
  | cons p ps ih =>
    intro h
    simp only [List.map_cons, List.sum_cons, List.length_cons]
    rw [ih (fun r hr => h r (by simp [hr])), h p (by simp), Nat.succ_mul, Nat.add_mul]
    omega

theorem chanData_length (fpp nchan c : Nat) (hn : 0 < nchan) : ∀ (q : List Pkt), WF fpp nchan q →
    (chanData nchan c q).length = q.length * fpp := by
  intro q
  induction q with
  | nil => intro _; simp [chanData]
  | cons p ps ih =>
    intro h
    unfold chanData at ih ⊢
    simp only [List.map_cons, List.flatten_cons, List.length_append, List.length_cons]
    rw [ih (fun r hr => h r (by simp [hr])), chanOf_length, h p (by simp), Nat.mul_div_cancel _ hn, Nat.succ_mul]
    omega

theorem chanData_append (nchan c : Nat) (xs ys : List Pkt) :
    chanData nchan c (xs ++ ys) = chanData nchan c xs ++ chanData nchan c ys := by
  simp [chanData]

end DastardV.C03
