/-
C03 helper lemmas, part c: all groups of a source — `enq`, the first loop of the tick under an
arbitrary map order (`loop1`), trimming, `minFrames`, `demuxAll`.
Ghost context: `L` the layouts, `A i` everything group `i` has received, `c i` packets of its filled
list consumed so far, `a i` frames filled in for it so far.
-/
import DastardV.Lemmas.C03b
namespace DastardV.C03

/-! ### sums over group indices -/

def sumTo (k : Nat) (f : Nat → Nat) : Nat := ((List.range k).map f).sum

theorem sumTo_succ (k : Nat) (f : Nat → Nat) : sumTo (k + 1) f = sumTo k f + f k := by
  unfold sumTo
  rw [List.range_succ, List.map_append, List.sum_append]
  simp

theorem sumTo_congr (k : Nat) (f g : Nat → Nat) (h : ∀ i, i < k → f i = g i) : sumTo k f = sumTo k g := by
  unfold sumTo
  rw [List.map_congr_left]
  intro i hi
  exact h i (List.mem_range.mp hi)

/-- function update -/
def upd (f : Nat → Nat) (i v : Nat) : Nat → Nat := fun j => if j = i then v else f j

theorem upd_same (f : Nat → Nat) (i v : Nat) : upd f i v i = v := by simp [upd]
theorem upd_other (f : Nat → Nat) (i v j : Nat) (h : j ≠ i) : upd f i v j = f j := by simp [upd, h]

theorem sumTo_upd (f : Nat → Nat) (i v : Nat) : ∀ k, i < k → sumTo k (upd f i v) + f i = sumTo k f + v := by
  intro k
  induction k with
  | zero => intro h; omega
  | succ k ih =>
    intro h
    rw [sumTo_succ, sumTo_succ]
    by_cases hik : i = k
    · subst hik
      rw [upd_same, sumTo_congr i (upd f i v) f (fun j hj => upd_other f i v j (by omega))]
      omega
    · rw [upd_other f i v k (by omega)]
      have := ih (by omega)
      omega

/-! ### the ghost relation on the list of groups -/

def AllOK (fpp : Nat) (L : List GL) (A : Nat → List Pkt) : Prop :=
  ∀ i l, L[i]? = some l → GOK fpp l (A i)

def AllRel (L : List GL) (A : Nat → List Pkt) (c a : Nat → Nat) (gs : List Group) : Prop :=
  gs.length = L.length ∧ ∀ i g, gs[i]? = some g → ∃ l, L[i]? = some l ∧ GRel l (A i) (c i) (a i) g

def AllFull (L : List GL) (A : Nat → List Pkt) (c a : Nat → Nat) (gs : List Group) : Prop :=
  gs.length = L.length ∧ ∀ i g, gs[i]? = some g → ∃ l, L[i]? = some l ∧ GFull l (A i) (c i) (a i) g

theorem AllFull.toRel {L : List GL} {A : Nat → List Pkt} {c a : Nat → Nat} {gs : List Group}
    (h : AllFull L A c a gs) : AllRel L A c a gs :=
  ⟨h.1, fun i g hg => let ⟨l, hl, hf⟩ := h.2 i g hg; ⟨l, hl, hf.toRel⟩⟩

theorem getElem?_of_lt_length {α} {xs : List α} {i : Nat} (h : i < xs.length) : ∃ x, xs[i]? = some x :=
  ⟨xs[i], List.getElem?_eq_getElem h⟩

theorem lt_length_of_getElem? {α} {xs : List α} {i : Nat} {x : α} (h : xs[i]? = some x) : i < xs.length := by
  rcases Nat.lt_or_ge i xs.length with h1 | h1
  · exact h1
  · rw [List.getElem?_eq_none h1] at h; cases h

/-! ### enq -/

theorem group_queue_append_nil (g : Group) : { g with queue := g.queue ++ [] } = g := by
  cases g; simp

theorem enq_length : ∀ (gs : List Group) (arr : List (List Pkt)), (enq gs arr).length = gs.length := by
  intro gs
  induction gs with
  | nil => intro arr; simp [enq]
  | cons g gs ih =>
    intro arr
    cases arr with
    | nil => simp [enq]
    | cons x xs => simp [enq, ih]

theorem enq_getElem? : ∀ (gs : List Group) (arr : List (List Pkt)) (i : Nat),
    (enq gs arr)[i]? = gs[i]?.map fun g => { g with queue := g.queue ++ arr.getD i [] } := by
  intro gs
  induction gs with
  | nil => intro arr i; simp [enq]
  | cons g gs ih =>
    intro arr i
    cases arr with
    | nil =>
      simp only [enq, List.getD_nil]
      cases h : (g :: gs)[i]? with
      | none => rfl
      | some x => simp
    | cons x xs =>
      cases i with
      | zero => simp [enq]
      | succ i => simp [enq, ih]

theorem AllRel.enq {L : List GL} {A : Nat → List Pkt} {c a : Nat → Nat} {gs : List Group}
    (h : AllRel L A c a gs) (arr : List (List Pkt)) :
    AllRel L (fun i => A i ++ arr.getD i []) c a (enq gs arr) := by
  refine ⟨by rw [enq_length]; exact h.1, ?_⟩
  intro i g hg
  rw [enq_getElem?] at hg
  cases hgi : gs[i]? with
  | none => rw [hgi] at hg; cases hg
  | some g0 =>
    rw [hgi] at hg
    simp only [Option.map_some, Option.some.injEq] at hg
    obtain ⟨l, hl, hr⟩ := h.2 i g0 hgi
    exact ⟨l, hl, hg ▸ hr.enq _⟩

/-! ### loop1 -/

/-- global number of the head packet of group `i`'s filled queue -/
def hdOf (L : List GL) (c : Nat → Nat) (i : Nat) : Nat :=
  match L[i]? with
  | some l => l.l0 + 1 + c i - l.sync
  | none => 0

/-- group `j` is completely filled and its queue is not empty -/
def FullNE (L : List GL) (A : Nat → List Pkt) (c a : Nat → Nat) (gs : List Group) (j : Nat) : Prop :=
  ∃ l g, L[j]? = some l ∧ gs[j]? = some g ∧ GFull l (A j) (c j) (a j) g ∧ g.queue ≠ []

theorem loop1_nil (gs : List Group) (fsn dr : Nat) : loop1 [] gs fsn dr = (gs, dr, some fsn) := rfl

theorem loop1_spec (fpp : Nat) (L : List GL) (A : Nat → List Pkt) (c : Nat → Nat) (hok : AllOK fpp L A) :
    ∀ (perm : List Nat) (gs : List Group) (fsn dr : Nat) (a : Nat → Nat) (D : Nat → Prop),
      AllRel L A c a gs → (∀ j, D j → FullNE L A c a gs j) →
      ∃ a', AllRel L A c a' (loop1 perm gs fsn dr).1 ∧
        sumTo L.length a' + dr = sumTo L.length a + (loop1 perm gs fsn dr).2.1 ∧
        (match (loop1 perm gs fsn dr).2.2 with
         | none => ∃ i l g, L[i]? = some l ∧ (loop1 perm gs fsn dr).1[i]? = some g ∧
                     GFull l (A i) (c i) (a' i) g ∧ g.queue = []
         | some f =>
             (∀ j, (D j ∨ (j ∈ perm ∧ j < L.length)) → FullNE L A c a' (loop1 perm gs fsn dr).1 j) ∧
             fsn ≤ f ∧ (∀ j, j ∈ perm → j < L.length → hdOf L c j ≤ f) ∧
             (f = fsn ∨ ∃ j, j ∈ perm ∧ j < L.length ∧ f = hdOf L c j)) := by
  intro perm
  induction perm with
  | nil =>
    intro gs fsn dr a D hrel hD
    refine ⟨a, hrel, rfl, ?_⟩
    show (∀ j, (D j ∨ (j ∈ ([] : List Nat) ∧ j < L.length)) → FullNE L A c a gs j) ∧ _
    refine ⟨?_, Nat.le_refl _, ?_, Or.inl rfl⟩
    · intro j hj
      rcases hj with hj | hj
      · exact hD j hj
      · simp at hj
    · intro j hj; simp at hj
  | cons i is ih =>
    intro gs fsn dr a D hrel hD
    rw [loop1]
    cases hgi : gs[i]? with
    | none =>
      -- not an index of the group list: skipped
      simp only []
      have hik : ¬ i < L.length := by
        intro h
        rw [← hrel.1] at h
        obtain ⟨x, hx⟩ := getElem?_of_lt_length h
        rw [hx] at hgi; cases hgi
      obtain ⟨a', h1, h2, h3⟩ := ih gs fsn dr a D hrel hD
      refine ⟨a', h1, h2, ?_⟩
      cases hres : (loop1 is gs fsn dr).2.2 with
      | none => rw [hres] at h3; exact h3
      | some f =>
        rw [hres] at h3
        obtain ⟨k1, k2, k3, k4⟩ := h3
        refine ⟨?_, k2, ?_, ?_⟩
        · intro j hj
          apply k1 j
          rcases hj with hj | ⟨hj, hjl⟩
          · exact Or.inl hj
          · rcases List.mem_cons.mp hj with hj | hj
            · subst hj; exact absurd hjl hik
            · exact Or.inr ⟨hj, hjl⟩
        · intro j hj hjl
          rcases List.mem_cons.mp hj with hj | hj
          · subst hj; exact absurd hjl hik
          · exact k3 j hj hjl
        · rcases k4 with k4 | ⟨j, hj, hjl, hf⟩
          · exact Or.inl k4
          · exact Or.inr ⟨j, List.mem_cons_of_mem _ hj, hjl, hf⟩
    | some g =>
      simp only []
      obtain ⟨l, hl, hr⟩ := hrel.2 i g hgi
      have hil : i < L.length := lt_length_of_getElem? hl
      have hig : i < gs.length := lt_length_of_getElem? hgi
      have hfull := hr.fill (hok i l hl)
      -- the ghost after this step
      have hrel1 : AllRel L A c (upd a i (a i + (fillG g).2)) (gs.set i (fillG g).1) := by
        refine ⟨by rw [List.length_set]; exact hrel.1, ?_⟩
        intro j gj hgj
        rw [List.getElem?_set] at hgj
        by_cases hij : i = j
        · subst hij
          rw [if_pos rfl, if_pos hig] at hgj
          cases hgj
          exact ⟨l, hl, by rw [upd_same]; exact hfull.toRel⟩
        · rw [if_neg hij] at hgj
          obtain ⟨l', hl', hr'⟩ := hrel.2 j gj hgj
          exact ⟨l', hl', by rw [upd_other _ _ _ _ (Ne.symm hij)]; exact hr'⟩
      have hsum := sumTo_upd a i (a i + (fillG g).2) L.length hil
      cases hq : (fillG g).1.queue with
      | nil =>
        -- continue awaitmoredata
        simp only []
        refine ⟨_, hrel1, by show _ + dr = _ + (dr + _); omega, ?_⟩
        show ∃ i' l' g', L[i']? = some l' ∧ (gs.set i (fillG g).1)[i']? = some g' ∧ _
        refine ⟨i, l, (fillG g).1, hl, ?_, by rw [upd_same]; exact hfull, hq⟩
        rw [List.getElem?_set, if_pos rfl, if_pos hig]
      | cons p ps =>
        simp only []
        have hne : (fillG g).1.queue ≠ [] := by rw [hq]; simp
        have hhead : p.sn - (fillG g).1.sync = hdOf L c i := by
          unfold hdOf
          rw [hl]
          simp only []
          rw [hfull.head_sn (hok i l hl) p ps hq, hfull.sync_eq]
        have hD1 : ∀ j, (D j ∨ j = i) → FullNE L A c (upd a i (a i + (fillG g).2)) (gs.set i (fillG g).1) j := by
          intro j hj
          by_cases hji : j = i
          · subst hji
            refine ⟨l, (fillG g).1, hl, ?_, by rw [upd_same]; exact hfull, hne⟩
            rw [List.getElem?_set, if_pos rfl, if_pos hig]
          · rcases hj with hj | hj
            · obtain ⟨l', g', h1, h2, h3, h4⟩ := hD j hj
              refine ⟨l', g', h1, ?_, by rw [upd_other _ _ _ _ hji]; exact h3, h4⟩
              rw [List.getElem?_set, if_neg (Ne.symm hji)]; exact h2
            · exact absurd hj hji
        obtain ⟨a', h1, h2, h3⟩ := ih (gs.set i (fillG g).1) (max fsn (p.sn - (fillG g).1.sync))
          (dr + (fillG g).2) _ (fun j => D j ∨ j = i) hrel1 hD1
        refine ⟨a', h1, by omega, ?_⟩
        cases hres : (loop1 is (gs.set i (fillG g).1) (max fsn (p.sn - (fillG g).1.sync)) (dr + (fillG g).2)).2.2 with
        | none => rw [hres] at h3; exact h3
        | some f =>
          rw [hres] at h3
          obtain ⟨k1, k2, k3, k4⟩ := h3
          rw [hhead] at k2 k4
          refine ⟨?_, by omega, ?_, ?_⟩
          · intro j hj
            apply k1 j
            rcases hj with hj | ⟨hj, hjl⟩
            · exact Or.inl (Or.inl hj)
            · rcases List.mem_cons.mp hj with hj | hj
              · exact Or.inl (Or.inr hj)
              · exact Or.inr ⟨hj, hjl⟩
          · intro j hj hjl
            rcases List.mem_cons.mp hj with hj | hj
            · subst hj; omega
            · exact k3 j hj hjl
          · rcases k4 with k4 | ⟨j, hj, hjl, hf⟩
            · by_cases hmx : fsn ≤ hdOf L c i
              · exact Or.inr ⟨i, List.mem_cons_self, hil, by omega⟩
              · exact Or.inl (by omega)
            · exact Or.inr ⟨j, List.mem_cons_of_mem _ hj, hjl, hf⟩

/-! ### minFrames -/

theorem minFrames_spec : ∀ (gs : List Group), gs ≠ [] →
    ∃ m, minFrames gs = some m ∧ (∀ g ∈ gs, m ≤ countFrames g) ∧ ∃ g ∈ gs, m = countFrames g := by
  intro gs
  induction gs with
  | nil => intro h; exact absurd rfl h
  | cons g gs ih =>
    intro _
    cases gs with
    | nil => exact ⟨countFrames g, by simp [minFrames], by simp, g, by simp, rfl⟩
    | cons g2 gs2 =>
      obtain ⟨m, h1, h2, g', hg', h3⟩ := ih (by simp)
      rw [minFrames, h1]
      refine ⟨min (countFrames g) m, rfl, ?_, ?_⟩
      · intro x hx
        rcases List.mem_cons.mp hx with hx | hx
        · subst hx; exact Nat.min_le_left _ _
        · exact Nat.le_trans (Nat.min_le_right _ _) (h2 x hx)
      · by_cases hle : countFrames g ≤ m
        · exact ⟨g, by simp, by omega⟩
        · exact ⟨g', List.mem_cons_of_mem _ hg', by omega⟩

/-! ### maxList / minOr -/

theorem le_maxList : ∀ (xs : List Nat) (x : Nat), x ∈ xs → x ≤ maxList xs := by
  intro xs
  induction xs with
  | nil => intro x h; simp at h
  | cons y ys ih =>
    intro x h
    rw [maxList]
    rcases List.mem_cons.mp h with h | h
    · subst h; exact Nat.le_max_left _ _
    · exact Nat.le_trans (ih x h) (Nat.le_max_right _ _)

theorem maxList_mem : ∀ (xs : List Nat), xs ≠ [] → maxList xs ∈ xs := by
  intro xs
  induction xs with
  | nil => intro h; exact absurd rfl h
  | cons y ys ih =>
    intro _
    rw [maxList]
    cases ys with
    | nil => simp [maxList]
    | cons z zs =>
      have := ih (by simp)
      by_cases hle : maxList (z :: zs) ≤ y
      · rw [Nat.max_eq_left hle]; simp
      · rw [Nat.max_eq_right (by omega)]; exact List.mem_cons_of_mem _ this

theorem minOr_le : ∀ (xs : List Nat) (x : Nat), x ∈ xs → minOr xs ≤ x := by
  intro xs
  induction xs with
  | nil => intro x h; simp at h
  | cons y ys ih =>
    intro x h
    cases ys with
    | nil => simp at h; subst h; simp [minOr]
    | cons z zs =>
      rw [minOr]
      rcases List.mem_cons.mp h with h | h
      · subst h; exact Nat.min_le_left _ _
      · exact Nat.le_trans (Nat.min_le_right _ _) (ih x h)

theorem minOr_mem : ∀ (xs : List Nat), xs ≠ [] → minOr xs ∈ xs := by
  intro xs
  induction xs with
  | nil => intro h; exact absurd rfl h
  | cons y ys ih =>
    intro _
    cases ys with
    | nil => simp [minOr]
    | cons z zs =>
      rw [minOr]
      have := ih (by simp)
      by_cases hle : y ≤ minOr (z :: zs)
      · rw [Nat.min_eq_left hle]; simp
      · rw [Nat.min_eq_right (by omega)]; exact List.mem_cons_of_mem _ this

/-! ### demuxAll -/

/-- the result of `demuxData` when it does not panic -/
def dmx (fr : Nat) (g : Group) : Group × List (List Nat) :=
  match demuxG fr g with
  | .ok r => r
  | .error _ => (g, [])

theorem dmx_of_ok {fr : Nat} {g : Group} {r : Group × List (List Nat)} (h : demuxG fr g = .ok r) :
    dmx fr g = r := by
  unfold dmx; rw [h]

theorem demuxAll_ok (fr : Nat) (h : Group → Group × List (List Nat)) : ∀ (gs : List Group),
    (∀ g ∈ gs, demuxG fr g = .ok (h g)) →
    demuxAll fr gs = .ok (gs.map fun g => (h g).1, gs.map fun g => (h g).2) := by
  intro gs
  induction gs with
  | nil => intro _; rfl
  | cons g gs ih =>
    intro hall
    rw [demuxAll, hall g (by simp)]
    simp only []
    rw [ih (fun x hx => hall x (by simp [hx]))]
    rfl

end DastardV.C03
