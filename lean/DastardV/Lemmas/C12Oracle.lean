/-
C12 — what an accepting answer of the specification oracle `chkFrom` / `chk` means.  The C12 check runs it on
the outputs of the REAL `PhaseUnwrapper` (and of `NewAbacoGroup`/`RoachDevice`).  Accepted ⇒ as many outputs
as inputs and EVERY output is congruent to its pre-processed input modulo the flux quantum `twoPi` — the
"keeps the signal modulo flux quanta" clause of the property, read off the implementation's own output, for
streams of any length.
-/
import DastardV.Model.C12
namespace DastardV.C12

theorem chkFrom_sound (p : Params) : ∀ (vs os : List Nat) (pv po : Nat) (away : Int),
    chkFrom p pv po away vs os = true →
      vs.length = os.length ∧ ∀ (i : Nat) (v o : Nat), vs[i]? = some v → os[i]? = some o → o % p.twoPi = v % p.twoPi
  | [], [], _, _, _, _ => by simp
  | [], _ :: _, _, _, _, h => by simp [chkFrom] at h
  | _ :: _, [], _, _, _, h => by simp [chkFrom] at h
  | v :: vs, o :: os, pv, po, away, h => by
    simp only [chkFrom, Bool.and_eq_true, beq_iff_eq] at h
    obtain ⟨⟨⟨hmod, _⟩, _⟩, hrest⟩ := h
    have ih := chkFrom_sound p vs os _ _ _ hrest
    refine ⟨by simp [ih.1], fun i v' o' hv ho => ?_⟩
    cases i with
    | zero =>
      simp only [List.getElem?_cons_zero, Option.some.injEq] at hv ho
      subst hv; subst ho; exact hmod
    | succ i =>
      simp only [List.getElem?_cons_succ] at hv ho
      exact ih.2 i v' o' hv ho

theorem chk_sound (p : Params) (s0 : St) (vs os : List Nat) (h : chk p s0 vs os = true) :
    vs.length = os.length ∧ ∀ (i : Nat) (v o : Nat), vs[i]? = some v → os[i]? = some o → o % p.twoPi = v % p.twoPi :=
  chkFrom_sound p vs os _ _ _ h

end DastardV.C12
