/-
C04 helper lemmas, part 1: the frame-bit view of an encoded word stream and `findFrameBits`
on the bit pattern of well-formed frames.
-/
import DastardV.Model.C04
namespace DastardV.C04

/-! ### byte encoding of words -/

def encWord (w : Word) : List Nat := [w.1 % 256, w.1 / 256, w.2 % 256, w.2 / 256]
def encWords (ws : List Word) : List Nat := ws.flatMap encWord
def encFrames (frs : List Frame) : List Nat := encWords frs.flatten

@[simp] theorem encWords_nil : encWords [] = [] := rfl
@[simp] theorem encWords_cons (w : Word) (ws : List Word) : encWords (w :: ws) = encWord w ++ encWords ws := by
  simp [encWords]
@[simp] theorem encWords_append (a b : List Word) : encWords (a ++ b) = encWords a ++ encWords b := by
  simp [encWords]
@[simp] theorem encWords_length (ws : List Word) : (encWords ws).length = 4 * ws.length := by
  induction ws with
  | nil => rfl
  | cons w ws ih => simp [encWord, ih]; omega

theorem lsb_mod256 (x : Nat) : lsb (x % 256) = lsb x := by
  unfold lsb
  have : x % 256 % 2 = x % 2 := by omega
  rw [this]

/-- frame-bit list of a word list -/
def fbits (ws : List Word) : List Bool := ws.map fun w => lsb w.2

theorem every4_four (a b c d : Nat) (X : List Nat) : every4 (a :: b :: c :: d :: X) = lsb a :: every4 X := by
  simp [every4]

theorem bitsAt2_word (w : Word) (X : List Nat) : bitsAt 2 (encWord w ++ X) = lsb w.2 :: bitsAt 2 X := by
  unfold bitsAt encWord
  match X with
  | [] => simp [every4, lsb_mod256]
  | [x] => simp [every4, lsb_mod256]
  | x :: y :: rest => simp [every4, lsb_mod256]

theorem bitsAt2_words (ws : List Word) (X : List Nat) : bitsAt 2 (encWords ws ++ X) = fbits ws ++ bitsAt 2 X := by
  induction ws with
  | nil => simp [fbits]
  | cons w ws ih =>
    rw [encWords_cons, List.append_assoc, bitsAt2_word, ih]
    simp [fbits]

/-! ### the three loops on runs of set / clear bits -/

theorem findQ_seen_false (z : Nat) (R : List Bool) (i : Nat) :
    findQ (List.replicate z false ++ true :: R) i true = some (i + z) := by
  induction z generalizing i with
  | zero => simp [findQ]
  | succ z ih =>
    rw [List.replicate_succ, List.cons_append]
    simp only [findQ]
    rw [ih]; simp; omega

theorem findQ_pattern (a z : Nat) (hz : 1 ≤ z) (R : List Bool) (i : Nat) :
    findQ (List.replicate a true ++ (List.replicate z false ++ true :: R)) i false = some (i + a + z) := by
  induction a generalizing i with
  | zero =>
    obtain ⟨z', rfl⟩ : ∃ z', z = z' + 1 := ⟨z - 1, by omega⟩
    rw [List.replicate_zero, List.nil_append, List.replicate_succ, List.cons_append]
    simp only [findQ]
    simp only [Bool.false_eq_true, ↓reduceIte, Bool.not_false]
    rw [findQ_seen_false]; simp; omega
  | succ a ih =>
    rw [List.replicate_succ, List.cons_append]
    simp only [findQ]
    simp only [Bool.false_eq_true, ↓reduceIte, Bool.not_true]
    rw [ih]; simp; omega

theorem countTrue_pattern (a : Nat) (R : List Bool) : countTrue (List.replicate a true ++ false :: R) = a := by
  induction a with
  | zero => simp [countTrue]
  | succ a ih => rw [List.replicate_succ, List.cons_append]; simp [countTrue, ih]

theorem findP_prev_false (z : Nat) (R : List Bool) (i : Nat) :
    findP (List.replicate z false ++ true :: R) i false = some (i + z) := by
  induction z generalizing i with
  | zero => simp [findP]
  | succ z ih =>
    rw [List.replicate_succ, List.cons_append]
    simp only [findP]
    simp only [Bool.false_eq_true, Bool.false_and, ↓reduceIte, Bool.not_false, Bool.and_false]
    rw [ih]; simp; omega

theorem findP_pattern (z : Nat) (hz : 1 ≤ z) (R : List Bool) (i : Nat) :
    findP (List.replicate z false ++ true :: R) i true = some (i + z) := by
  obtain ⟨z', rfl⟩ : ∃ z', z = z' + 1 := ⟨z - 1, by omega⟩
  rw [List.replicate_succ, List.cons_append]
  simp only [findP]
  simp only [Bool.not_false, Bool.and_self, ↓reduceIte]
  rw [findP_prev_false]; simp; omega

theorem drop_two_runs {α} (a z : Nat) (x y : α) (T : List α) :
    (List.replicate a x ++ (List.replicate z y ++ T)).drop (a + z) = T := by
  rw [← List.append_assoc]
  have : (List.replicate a x ++ List.replicate z y).length = a + z := by simp
  rw [← this, List.drop_left]

theorem drop_run {α} (a : Nat) (x : α) (T : List α) : (List.replicate a x ++ T).drop a = T :=
  List.drop_left' (by simp)

theorem findFrameBits_of_bits (b : List Nat) (a z n2 z2 : Nat) (R : List Bool)
    (hz : 1 ≤ z) (hn : 1 ≤ n2) (hz2 : 1 ≤ z2)
    (hb : bitsAt 2 b = List.replicate a true ++ (List.replicate z false ++
      (List.replicate n2 true ++ (List.replicate z2 false ++ true :: R)))) :
    findFrameBits b = { q := a + z, p := a + z + n2 + z2, n := n2, ok := true } := by
  obtain ⟨n', rfl⟩ : ∃ n', n2 = n' + 1 := ⟨n2 - 1, by omega⟩
  obtain ⟨z', rfl⟩ : ∃ z', z2 = z' + 1 := ⟨z2 - 1, by omega⟩
  have hq : findQ (bitsAt 2 b) 0 false = some (a + z) := by
    rw [hb, List.replicate_succ (n := n'), List.cons_append, findQ_pattern a z hz]; simp
  have htail : (bitsAt 2 b).drop (a + z) =
      List.replicate (n' + 1) true ++ (List.replicate (z' + 1) false ++ true :: R) := by
    rw [hb, drop_two_runs]
  have hcnt : countTrue ((bitsAt 2 b).drop (a + z)) = n' + 1 := by
    rw [htail, List.replicate_succ (n := z'), List.cons_append, countTrue_pattern]
  have hdrop : ((bitsAt 2 b).drop (a + z)).drop (n' + 1) = List.replicate (z' + 1) false ++ true :: R := by
    rw [htail, drop_run]
  unfold findFrameBits
  simp only [hq, hcnt, hdrop]
  rw [findP_pattern (z' + 1) (by omega)]
  simp

/-- frame-bit pattern of one well-formed frame -/
def pat (g : Geom) : List Bool := List.replicate g.nc true ++ List.replicate (g.F - g.nc) false

theorem geom_facts (g : Geom) (hg : geomOK g = true) : 1 ≤ g.nc ∧ 2 ≤ g.nr ∧ 2 * g.nc ≤ g.F := by
  unfold geomOK at hg
  simp at hg
  refine ⟨hg.1, hg.2, ?_⟩
  unfold Geom.F
  calc 2 * g.nc = g.nc * 2 := by omega
    _ ≤ g.nc * g.nr := Nat.mul_le_mul_left _ hg.2

theorem frameWF_length (g : Geom) (fr : Frame) (h : frameWF g fr = true) : fr.length = g.F := by
  unfold frameWF at h
  simp at h
  exact h.1

theorem fbits_of_WF (g : Geom) (hg : geomOK g = true) (fr : Frame) (h : frameWF g fr = true) : fbits fr = pat g := by
  have ⟨_, _, h2⟩ := geom_facts g hg
  have hl := frameWF_length g fr h
  unfold frameWF at h
  simp at h
  apply List.ext_getElem
  · simp [fbits, pat, hl]; omega
  · intro i h1 h2'
    have hi : i < g.F := by simpa [fbits, hl] using h1
    have := h.2 i hi
    simp [fbits, pat, List.getElem_append, List.getElem_replicate]
    rw [List.getElem?_eq_getElem (by omega)] at this
    simp at this
    by_cases hc : i < g.nc <;> simp [hc] at this ⊢ <;> exact this

theorem pat_drop (g : Geom) (k : Nat) :
    (pat g).drop k = List.replicate (g.nc - k) true ++ List.replicate (g.F - g.nc - (k - g.nc)) false := by
  unfold pat
  rw [List.drop_append]
  simp [List.drop_replicate]

theorem fbits_append (a b : List Word) : fbits (a ++ b) = fbits a ++ fbits b := by simp [fbits]
theorem fbits_drop (a : List Word) (k : Nat) : fbits (a.drop k) = (fbits a).drop k := by simp [fbits, List.map_drop]

/-- `FindFrameBits` on a buffer that starts `k` words into a well-formed frame and holds at least the
rest of that frame and two more frames. -/
theorem ffb_phase (g : Geom) (hg : geomOK g = true) (fr0 fr1 fr2 : Frame)
    (h0 : frameWF g fr0 = true) (h1 : frameWF g fr1 = true) (h2 : frameWF g fr2 = true)
    (k : Nat) (hk : k < g.F) (X : List Nat) :
    findFrameBits (encWords (fr0.drop k ++ fr1 ++ fr2) ++ X) =
      { q := g.F - k, p := 2 * g.F - k, n := g.nc, ok := true } := by
  have ⟨hc, hr, hF⟩ := geom_facts g hg
  have hb : bitsAt 2 (encWords (fr0.drop k ++ fr1 ++ fr2) ++ X) =
      List.replicate (g.nc - k) true ++ (List.replicate (g.F - g.nc - (k - g.nc)) false ++
        (List.replicate g.nc true ++ (List.replicate (g.F - g.nc) false ++
          true :: (List.replicate (g.nc - 1) true ++ (List.replicate (g.F - g.nc) false ++ bitsAt 2 X))))) := by
    rw [bitsAt2_words, fbits_append, fbits_append, fbits_drop, fbits_of_WF g hg fr0 h0, fbits_of_WF g hg fr1 h1,
      fbits_of_WF g hg fr2 h2, pat_drop]
    have : pat g = true :: (List.replicate (g.nc - 1) true ++ List.replicate (g.F - g.nc) false) := by
      unfold pat
      obtain ⟨c, hc'⟩ : ∃ c, g.nc = c + 1 := ⟨g.nc - 1, by omega⟩
      rw [hc', List.replicate_succ]; simp
    conv => lhs; arg 1; arg 2; rw [this]
    unfold pat
    simp [List.append_assoc]
  rw [findFrameBits_of_bits _ _ _ _ _ _ (by omega) hc (by omega) hb]
  congr 1 <;> omega

end DastardV.C04
