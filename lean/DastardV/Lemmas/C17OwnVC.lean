/-
C17 — the ownership (permission-token) discipline of `Model/C17Own.lean` implies that the
vector-clock analysis of `Model/C17Core.lean` accepts the trace (core Lean only):

  `ownership_transfer : ownRun sp tr = true → raceFree tr = true`

Organisation.  Both machines are run in lock step.  Every location a token can be at has a clock in
the analysis state (`clkOf`): a thread its own clock, the k-th message of a channel the clock stored
by the k-th send, a close / mutex / wait group / spawn slot the join stored there.  The invariant
`Rel sp o s` says
* the send / receive counters of both machines agree;
* for every variable `x` and every token `k ∈ toks x` the last write of `x` is known to the clock of
  the location of `k`;
* every read epoch of `x` since the last write is known to the clock of the location of SOME token
  of `x`.
Clocks of locations only grow (`stepVC_mono`), a release stores (a join with) the releasing thread's
clock at the destination, an acquire joins the clock of the source into the acquiring thread's clock;
hence `clkOf s (o.loc k) ⊑ clkOf s' (o'.loc k)` for every token over every step (`moveL_le`,
`moveAll_le`) and the invariant is carried along (`Rel.transport`).  A read needs one token — the last
write is known; a write needs all tokens — the last write and every read are known.

Remark: the invariant is phrased with `k ∈ toks x`, never with `varOf`, so `Spec.WF` is not used.
-/
import DastardV.Model.C17Own
import DastardV.Lemmas.C17Sound

namespace DastardV.C17

/-! ### the pointwise order on vector clocks -/

def VC.le (a b : VC) : Prop := ∀ t, VC.get a t ≤ VC.get b t

theorem VC.le_refl (a : VC) : VC.le a a := fun _ => Nat.le_refl _

theorem VC.le_trans {a b c : VC} (h1 : VC.le a b) (h2 : VC.le b c) : VC.le a c :=
  fun t => Nat.le_trans (h1 t) (h2 t)

theorem VC.nil_le (a : VC) : VC.le [] a := fun t => by
  rw [VC.get_nil]; exact Nat.zero_le _

theorem VC.le_join_left (a b : VC) : VC.le a (VC.join a b) := fun t => by
  rw [VC.get_join]; exact Nat.le_max_left _ _

theorem VC.le_join_right (a b : VC) : VC.le b (VC.join a b) := fun t => by
  rw [VC.get_join]; exact Nat.le_max_right _ _

theorem VC.le_tick (a : VC) (t : Tid) : VC.le a (VC.tick a t) := fun u => by
  by_cases h : u = t
  · subst h; rw [VC.get_tick_self]; exact Nat.le_succ _
  · rw [VC.get_tick_ne _ _ _ h]; exact Nat.le_refl _

theorem VC.le_tick_join (a b : VC) (t : Tid) : VC.le a (VC.join (VC.tick a t) b) :=
  VC.le_trans (VC.le_tick a t) (VC.le_join_left _ _)

theorem VC.le_join_tick (a b : VC) (t : Tid) : VC.le a (VC.join b (VC.tick a t)) :=
  VC.le_trans (VC.le_tick a t) (VC.le_join_right _ _)

theorem Epoch.le_mono {e : Epoch} {a b : VC} (h : VC.le a b) (h1 : Epoch.le e a = true) :
    Epoch.le e b = true := by
  simp only [Epoch.le, decide_eq_true_eq] at h1 ⊢
  exact Nat.le_trans h1 (h e.1)

theorem optLe_mono {o : Option Epoch} {a b : VC} (h : VC.le a b) (h1 : optLe o a = true) :
    optLe o b = true := by
  cases o with
  | none => rfl
  | some e => exact Epoch.le_mono h h1

theorem upd_le (f : Nat → VC) (k : Nat) (v : VC) (h : VC.le (f k) v) (i : Nat) :
    VC.le (f i) (upd f k v i) := by
  by_cases hi : i = k
  · subst hi; rw [upd_same]; exact h
  · rw [upd_ne _ _ _ _ hi]; exact VC.le_refl _

/-! ### the clock of a location; clocks only grow -/

def clkOf (s : St) : Loc → VC
  | .thr t => s.clk t
  | .msg c k => ((s.sends c)[k]?).getD []
  | .clo c => s.cl c
  | .mtx m => s.mu m
  | .wgb w => s.wg w
  | .spw u => s.sp u

theorem stepVC_clk_le (s : St) (te : Tid × Ev) (u : Tid) :
    VC.le (s.clk u) ((stepVC s te).1.clk u) := by
  obtain ⟨t, e⟩ := te
  cases e with
  | recv ch =>
    simp only [stepVC]
    apply upd_le
    split
    · exact VC.le_tick_join _ _ _
    · exact VC.le_tick _ _
  | rd x => simp only [stepVC]; exact upd_le _ _ _ (VC.le_tick _ _) _
  | wr x => simp only [stepVC]; exact upd_le _ _ _ (VC.le_tick _ _) _
  | send c => simp only [stepVC]; exact upd_le _ _ _ (VC.le_tick _ _) _
  | close c => simp only [stepVC]; exact upd_le _ _ _ (VC.le_tick _ _) _
  | unlock c => simp only [stepVC]; exact upd_le _ _ _ (VC.le_tick _ _) _
  | wgAdd c => simp only [stepVC]; exact upd_le _ _ _ (VC.le_tick _ _) _
  | wgDone c => simp only [stepVC]; exact upd_le _ _ _ (VC.le_tick _ _) _
  | spawn c => simp only [stepVC]; exact upd_le _ _ _ (VC.le_tick _ _) _
  | recvC c => simp only [stepVC]; exact upd_le _ _ _ (VC.le_tick_join _ _ _) _
  | lock c => simp only [stepVC]; exact upd_le _ _ _ (VC.le_tick_join _ _ _) _
  | wgWait c => simp only [stepVC]; exact upd_le _ _ _ (VC.le_tick_join _ _ _) _
  | start => simp only [stepVC]; exact upd_le _ _ _ (VC.le_tick_join _ _ _) _

theorem stepVC_sends_le (s : St) (te : Tid × Ev) (ch : Obj) (k : Nat) :
    VC.le (((s.sends ch)[k]?).getD []) ((((stepVC s te).1.sends ch)[k]?).getD []) := by
  obtain ⟨t, e⟩ := te
  cases e with
  | send c =>
    simp only [stepVC]
    by_cases hc : ch = c
    · subst hc
      rw [upd_same]
      by_cases hk : k < (s.sends ch).length
      · rw [List.getElem?_append_left hk]; exact VC.le_refl _
      · rw [List.getElem?_eq_none (Nat.le_of_not_lt hk)]; exact VC.nil_le _
    · rw [upd_ne _ _ _ _ hc]; exact VC.le_refl _
  | _ => exact VC.le_refl _

theorem stepVC_cl_le (s : St) (te : Tid × Ev) (ch : Obj) :
    VC.le (s.cl ch) ((stepVC s te).1.cl ch) := by
  obtain ⟨t, e⟩ := te
  cases e with
  | close c => simp only [stepVC]; exact upd_le _ _ _ (VC.le_join_left _ _) _
  | _ => exact VC.le_refl _

theorem stepVC_mu_le (s : St) (te : Tid × Ev) (m : Obj) :
    VC.le (s.mu m) ((stepVC s te).1.mu m) := by
  obtain ⟨t, e⟩ := te
  cases e with
  | unlock c => simp only [stepVC]; exact upd_le _ _ _ (VC.le_join_left _ _) _
  | _ => exact VC.le_refl _

theorem stepVC_wg_le (s : St) (te : Tid × Ev) (w : Obj) :
    VC.le (s.wg w) ((stepVC s te).1.wg w) := by
  obtain ⟨t, e⟩ := te
  cases e with
  | wgDone c => simp only [stepVC]; exact upd_le _ _ _ (VC.le_join_left _ _) _
  | _ => exact VC.le_refl _

theorem stepVC_sp_le (s : St) (te : Tid × Ev) (u : Tid) :
    VC.le (s.sp u) ((stepVC s te).1.sp u) := by
  obtain ⟨t, e⟩ := te
  cases e with
  | spawn c => simp only [stepVC]; exact upd_le _ _ _ (VC.le_join_left _ _) _
  | _ => exact VC.le_refl _

/-- the clock of every location only grows -/
theorem stepVC_mono (s : St) (te : Tid × Ev) (l : Loc) :
    VC.le (clkOf s l) (clkOf (stepVC s te).1 l) := by
  cases l with
  | thr t => exact stepVC_clk_le s te t
  | msg c k => exact stepVC_sends_le s te c k
  | clo c => exact stepVC_cl_le s te c
  | mtx m => exact stepVC_mu_le s te m
  | wgb w => exact stepVC_wg_le s te w
  | spw u => exact stepVC_sp_le s te u

/-! ### the invariant relating the two machines -/

structure Rel (sp : Spec) (o : OSt) (s : St) : Prop where
  ns : ∀ c, o.nsend c = (s.sends c).length
  nr : ∀ c, o.nrecv c = s.nrecv c
  lw : ∀ x k, k ∈ sp.toks x → optLe (s.lw x) (clkOf s (o.loc k)) = true
  lr : ∀ x r, r ∈ s.lr x → ∃ k, k ∈ sp.toks x ∧ Epoch.le r (clkOf s (o.loc k)) = true

theorem Rel.init (sp : Spec) : Rel sp (OSt.init sp) St.init where
  ns _ := rfl
  nr _ := rfl
  lw _ _ _ := rfl
  lr x r hr := by simp [St.init] at hr

/-- the invariant is carried along when the clock of the location of every token does not shrink and
new `lw` / `lr` entries are known where they have to be -/
theorem Rel.transport {sp : Spec} {o o' : OSt} {s s' : St} (h : Rel sp o s)
    (hns : ∀ c, o'.nsend c = (s'.sends c).length) (hnr : ∀ c, o'.nrecv c = s'.nrecv c)
    (hmv : ∀ k, VC.le (clkOf s (o.loc k)) (clkOf s' (o'.loc k)))
    (hlw : ∀ x, s'.lw x = s.lw x ∨
      ∀ k, k ∈ sp.toks x → optLe (s'.lw x) (clkOf s' (o'.loc k)) = true)
    (hlr : ∀ x r, r ∈ s'.lr x → r ∈ s.lr x ∨
      ∃ k, k ∈ sp.toks x ∧ Epoch.le r (clkOf s' (o'.loc k)) = true) :
    Rel sp o' s' where
  ns := hns
  nr := hnr
  lw x k hk := by
    rcases hlw x with h1 | h1
    · rw [h1]; exact optLe_mono (hmv k) (h.lw x k hk)
    · exact h1 k hk
  lr x r hr := by
    rcases hlr x r hr with h1 | h1
    · obtain ⟨k, hk, hle⟩ := h.lr x r h1
      exact ⟨k, hk, Epoch.le_mono (hmv k) hle⟩
    · exact h1

/-- a release: the tokens `ks` held by `t` go to `dst`, whose new clock knows the clock of `t` -/
theorem moveL_le {s s' : St} {loc : Tok → Loc} {t : Tid} {ks : List Tok} {dst : Loc}
    (hall : ∀ k, k ∈ ks → loc k = .thr t)
    (hmono : ∀ l, VC.le (clkOf s l) (clkOf s' l))
    (hdst : VC.le (s.clk t) (clkOf s' dst)) (k : Tok) :
    VC.le (clkOf s (loc k)) (clkOf s' (moveL loc ks dst k)) := by
  unfold moveL
  by_cases hk : k ∈ ks
  · rw [if_pos hk, hall k hk]; exact hdst
  · rw [if_neg hk]; exact hmono _

/-- an acquire: everything at `src` goes to `t`, whose new clock knows the clock of `src` -/
theorem moveAll_le {s s' : St} {loc : Tok → Loc} {t : Tid} {src : Loc}
    (hmono : ∀ l, VC.le (clkOf s l) (clkOf s' l))
    (hsrc : VC.le (clkOf s src) (s'.clk t)) (k : Tok) :
    VC.le (clkOf s (loc k)) (clkOf s' (moveAll loc src (.thr t) k)) := by
  unfold moveAll
  by_cases hk : loc k = src
  · rw [if_pos hk, hk]; exact hsrc
  · rw [if_neg hk]; exact hmono _

theorem allAt_iff {loc : Tok → Loc} {ks : List Tok} {l : Loc} :
    allAt loc ks l = true ↔ ∀ k, k ∈ ks → loc k = l := by
  simp only [allAt, List.all_eq_true, beq_iff_eq]

theorem release_some {o o' : OSt} {t : Tid} {ks : List Tok} {dst : Loc}
    (h : release o t ks dst = some o') :
    (∀ k, k ∈ ks → o.loc k = .thr t) ∧ o' = { o with loc := moveL o.loc ks dst } := by
  unfold release at h
  split at h
  · rename_i ha
    injection h with h
    exact ⟨allAt_iff.mp ha, h.symm⟩
  · cases h

theorem getD_append_length (l : List VC) (v : VC) : ((l ++ [v])[l.length]?).getD [] = v := by
  simp

/-- the invariant over a release event that is not a `send` -/
theorem Rel.release_step {sp : Spec} {o o' : OSt} {s : St} {t : Tid} {e : Ev} {ks : List Tok}
    {dst : Loc} (h : Rel sp o s) (hr : release o t ks dst = some o')
    (hsends : (stepVC s (t, e)).1.sends = s.sends) (hnrecv : (stepVC s (t, e)).1.nrecv = s.nrecv)
    (hlw : (stepVC s (t, e)).1.lw = s.lw) (hlr : (stepVC s (t, e)).1.lr = s.lr)
    (hdst : VC.le (s.clk t) (clkOf (stepVC s (t, e)).1 dst)) :
    Rel sp o' (stepVC s (t, e)).1 := by
  obtain ⟨hall, ho'⟩ := release_some hr
  subst ho'
  refine h.transport (fun c => ?_) (fun c => ?_) (moveL_le hall (stepVC_mono s _) hdst)
    (fun x => Or.inl ?_) (fun x r hr => Or.inl ?_)
  · rw [hsends]; exact h.ns c
  · rw [hnrecv]; exact h.nr c
  · rw [hlw]
  · rw [hlr] at hr; exact hr

/-- the invariant over an acquire event that is not a `recv` -/
theorem Rel.acquire_step {sp : Spec} {o : OSt} {s : St} {t : Tid} {e : Ev} {src : Loc}
    (h : Rel sp o s)
    (hsends : (stepVC s (t, e)).1.sends = s.sends) (hnrecv : (stepVC s (t, e)).1.nrecv = s.nrecv)
    (hlw : (stepVC s (t, e)).1.lw = s.lw) (hlr : (stepVC s (t, e)).1.lr = s.lr)
    (hsrc : VC.le (clkOf s src) ((stepVC s (t, e)).1.clk t)) :
    Rel sp { o with loc := moveAll o.loc src (.thr t) } (stepVC s (t, e)).1 := by
  refine h.transport (fun c => ?_) (fun c => ?_) (moveAll_le (stepVC_mono s _) hsrc)
    (fun x => Or.inl ?_) (fun x r hr => Or.inl ?_)
  · rw [hsends]; exact h.ns c
  · rw [hnrecv]; exact h.nr c
  · rw [hlw]
  · rw [hlr] at hr; exact hr

/-! ### the accesses -/

theorem Rel.rd_step {sp : Spec} {o : OSt} {s : St} {t : Tid} {x : Var} (h : Rel sp o s)
    {k : Tok} (hk : k ∈ sp.toks x) (hkt : o.loc k = .thr t) :
    (stepVC s (t, .rd x)).2 = true ∧ Rel sp o (stepVC s (t, .rd x)).1 := by
  constructor
  · simp only [stepVC]
    have := h.lw x k hk
    rw [hkt] at this
    exact optLe_mono (VC.le_tick _ _) this
  · refine h.transport (fun c => h.ns c) (fun c => h.nr c) (fun k => stepVC_mono s _ _)
      (fun y => Or.inl rfl) (fun y r hr => ?_)
    simp only [stepVC] at hr
    by_cases hy : y = x
    · subst hy
      rw [upd_same] at hr
      rcases List.mem_cons.mp hr with h1 | h1
      · refine Or.inr ⟨k, hk, ?_⟩
        subst h1
        rw [hkt]
        simp only [stepVC, clkOf, upd_same, Epoch.le, decide_eq_true_eq]
        exact Nat.le_refl _
      · exact Or.inl h1
    · rw [upd_ne _ _ _ _ hy] at hr; exact Or.inl hr

theorem Rel.wr_step {sp : Spec} {o : OSt} {s : St} {t : Tid} {x : Var} (h : Rel sp o s)
    (hne : sp.toks x ≠ []) (hall : ∀ k, k ∈ sp.toks x → o.loc k = .thr t) :
    (stepVC s (t, .wr x)).2 = true ∧ Rel sp o (stepVC s (t, .wr x)).1 := by
  constructor
  · simp only [stepVC, Bool.and_eq_true, List.all_eq_true]
    constructor
    · obtain ⟨k, hk⟩ := List.exists_mem_of_ne_nil _ hne
      have := h.lw x k hk
      rw [hall k hk] at this
      exact optLe_mono (VC.le_tick _ _) this
    · intro r hr
      obtain ⟨k, hk, hle⟩ := h.lr x r hr
      rw [hall k hk] at hle
      exact Epoch.le_mono (VC.le_tick _ _) hle
  · refine h.transport (fun c => h.ns c) (fun c => h.nr c) (fun k => stepVC_mono s _ _)
      (fun y => ?_) (fun y r hr => ?_)
    · by_cases hy : y = x
      · subst hy
        refine Or.inr (fun k hk => ?_)
        rw [hall k hk]
        simp only [stepVC, clkOf, upd_same, optLe, Epoch.le, decide_eq_true_eq]
        exact Nat.le_refl _
      · refine Or.inl ?_
        simp only [stepVC]
        rw [upd_ne _ _ _ _ hy]
    · simp only [stepVC] at hr
      by_cases hy : y = x
      · subst hy; rw [upd_same] at hr; cases hr
      · rw [upd_ne _ _ _ _ hy] at hr; exact Or.inl hr

/-! ### one step of both machines -/

theorem Rel.step {sp : Spec} {o o' : OSt} {s : St} {t : Tid} {e : Ev} (h : Rel sp o s)
    (ho : stepO sp o (t, e) = some o') :
    (stepVC s (t, e)).2 = true ∧ Rel sp o' (stepVC s (t, e)).1 := by
  cases e with
  | rd x =>
    simp only [stepO] at ho
    split at ho
    · rename_i hany
      injection ho with ho
      subst ho
      obtain ⟨k, hk, hkt⟩ := List.any_eq_true.mp hany
      exact h.rd_step hk (beq_iff_eq.mp hkt)
    · cases ho
  | wr x =>
    simp only [stepO] at ho
    split at ho
    · rename_i hc
      injection ho with ho
      subst ho
      simp only [Bool.and_eq_true, Bool.not_eq_true', List.isEmpty_eq_false_iff] at hc
      exact h.wr_step hc.1 (allAt_iff.mp hc.2)
    · cases ho
  | send c =>
    simp only [stepO] at ho
    cases hr : release o t (sp.chanPay c) (.msg c (o.nsend c)) with
    | none => rw [hr] at ho; cases ho
    | some o1 =>
      rw [hr] at ho
      obtain ⟨hall, ho1⟩ := release_some hr
      simp only [Option.map_some] at ho
      injection ho with ho
      subst ho
      subst ho1
      refine ⟨rfl, h.transport (fun c' => ?_) (fun c' => h.nr c')
        (moveL_le hall (stepVC_mono s _) ?_) (fun x => Or.inl rfl) (fun x r hr => Or.inl hr)⟩
      · simp only [stepVC]
        by_cases hc : c' = c
        · subst hc; rw [upd_same, upd_same, List.length_append, h.ns]; rfl
        · rw [upd_ne _ _ _ _ hc, upd_ne _ _ _ _ hc]; exact h.ns c'
      · simp only [stepVC, clkOf]
        rw [upd_same, h.ns c, getD_append_length]
        exact VC.le_tick _ _
  | recv c =>
    simp only [stepO] at ho
    injection ho with ho
    subst ho
    refine ⟨rfl, h.transport (fun c' => h.ns c') (fun c' => ?_)
      (moveAll_le (stepVC_mono s _) ?_) (fun x => Or.inl rfl) (fun x r hr => Or.inl hr)⟩
    · simp only [stepVC]
      by_cases hc : c' = c
      · subst hc; rw [upd_same, upd_same, h.nr]
      · rw [upd_ne _ _ _ _ hc, upd_ne _ _ _ _ hc]; exact h.nr c'
    · simp only [stepVC, clkOf]
      rw [upd_same, h.nr c]
      cases (s.sends c)[s.nrecv c]? with
      | none => exact VC.nil_le _
      | some m => exact VC.le_join_right _ _
  | close c =>
    simp only [stepO] at ho
    refine ⟨rfl, h.release_step ho rfl rfl rfl rfl ?_⟩
    simp only [stepVC, clkOf]
    rw [upd_same]; exact VC.le_join_tick _ _ _
  | unlock m =>
    simp only [stepO] at ho
    refine ⟨rfl, h.release_step ho rfl rfl rfl rfl ?_⟩
    simp only [stepVC, clkOf]
    rw [upd_same]; exact VC.le_join_tick _ _ _
  | wgDone w =>
    simp only [stepO] at ho
    refine ⟨rfl, h.release_step ho rfl rfl rfl rfl ?_⟩
    simp only [stepVC, clkOf]
    rw [upd_same]; exact VC.le_join_tick _ _ _
  | spawn u =>
    simp only [stepO] at ho
    refine ⟨rfl, h.release_step ho rfl rfl rfl rfl ?_⟩
    simp only [stepVC, clkOf]
    rw [upd_same]; exact VC.le_join_tick _ _ _
  | recvC c =>
    simp only [stepO] at ho
    injection ho with ho
    subst ho
    refine ⟨rfl, h.acquire_step rfl rfl rfl rfl ?_⟩
    simp only [stepVC, clkOf]
    rw [upd_same]; exact VC.le_join_right _ _
  | lock m =>
    simp only [stepO] at ho
    injection ho with ho
    subst ho
    refine ⟨rfl, h.acquire_step rfl rfl rfl rfl ?_⟩
    simp only [stepVC, clkOf]
    rw [upd_same]; exact VC.le_join_right _ _
  | wgWait w =>
    simp only [stepO] at ho
    injection ho with ho
    subst ho
    refine ⟨rfl, h.acquire_step rfl rfl rfl rfl ?_⟩
    simp only [stepVC, clkOf]
    rw [upd_same]; exact VC.le_join_right _ _
  | start =>
    simp only [stepO] at ho
    injection ho with ho
    subst ho
    refine ⟨rfl, h.acquire_step rfl rfl rfl rfl ?_⟩
    simp only [stepVC, clkOf]
    rw [upd_same]; exact VC.le_join_right _ _
  | wgAdd w =>
    simp only [stepO] at ho
    injection ho with ho
    subst ho
    exact ⟨rfl, h.transport (fun c => h.ns c) (fun c => h.nr c) (fun k => stepVC_mono s _ _)
      (fun x => Or.inl rfl) (fun x r hr => Or.inl hr)⟩

/-! ### the whole trace -/

theorem Rel.run {sp : Spec} (tr : Trace) : ∀ (o : OSt) (s : St), Rel sp o s →
    ownRunFrom sp o tr = true → raceFreeFrom s tr = true := by
  induction tr with
  | nil => intro _ _ _ _; rfl
  | cons te r ih =>
    intro o s h hrun
    obtain ⟨t, e⟩ := te
    simp only [ownRunFrom] at hrun
    cases ho : stepO sp o (t, e) with
    | none => rw [ho] at hrun; cases hrun
    | some o' =>
      rw [ho] at hrun
      obtain ⟨hchk, hrel⟩ := h.step ho
      simp only [raceFreeFrom, Bool.and_eq_true]
      exact ⟨hchk, ih o' _ hrel hrun⟩

/-- A trace that respects the ownership discipline of `sp` is accepted by the vector-clock race
analysis.  (No well-formedness of the spec is needed: the invariant only speaks about `k ∈ sp.toks x`.) -/
theorem ownership_transfer (sp : Spec) (tr : Trace) :
    ownRun sp tr = true → raceFree tr = true := by
  exact Rel.run tr (OSt.init sp) St.init (Rel.init sp)

/-! ### non-vacuity -/

/-- one variable `7` with the single token `0`, initially held by thread `0`; every message on
channel `3` carries the token -/
def exSpec : Spec where
  toks x := if x = 7 then [0] else []
  varOf _ := 7
  chanPay c := if c = 3 then [0] else []
  closePay _ := []
  mtxPay _ := []
  donePay _ _ := []
  spawnPay _ := []
  init _ := .thr 0

/-- thread 0 writes, hands the token over with a message, thread 1 receives and writes: accepted -/
example : ownRun exSpec [(0, .wr 7), (0, .send 3), (1, .recv 3), (1, .wr 7)] = true := by decide

/-- thread 1 writes without having received the token: rejected -/
example : ownRun exSpec [(0, .wr 7), (1, .wr 7)] = false := by decide

/-- … and after the send thread 0 may no longer read -/
example : ownRun exSpec [(0, .wr 7), (0, .send 3), (0, .rd 7)] = false := by decide

end DastardV.C17
