/-
From packets to the file: the three layers composed (C03 ingest → C01/C02 pipeline → C05 writer).
-/
import DastardV.Lemmas.Compose
import DastardV.Lemmas.ComposeFile
namespace DastardV.Compose
open Pipe

/-- **Abaco, end to end: packets → blocks → triggers → records → LJH 2.2 file.**  For every packet
history the ingest theorems cover (losses, reordering between groups, any batching into reads), every
pipeline channel `j` whose restored trigger settings are not edge-multi, valid record lengths, and a
writing period that spans the run: the channel's LJH 2.2 file, read back with the documented layout,
holds exactly the records the pipeline published for the channel — and by `abaco_no_pulse_lost` (same
hypotheses) those records satisfy every clause of C02 on the gap-filled packet stream: every edge /
level crossing far enough from the ends of the stream is covered by a record in the file. -/
theorem abaco_to_ljh22_file (fpp : Nat) (L : List C03.GL) (f0 : Int) (hf0 : -2305843009213693952 + nsamp ≤ f0)
    (H : List (List (List C03.Pkt))) (gs : List C03.Group) (perms : List (List Nat))
    (hv : C03.validIn fpp L H = true) (hi : C03.InitOK L gs) (hp : C03.PermsOK L.length H perms)
    (s' : C03.St) (outs : List (Nat × C03.Block))
    (hrun : C03.runFrom 0 (C03.startSt gs f0) H perms = .ok (s', outs))
    (mk : C03.Block → Int × Int × List Bool) (j : Nat) (hj : j < (L.map (·.nchan)).sum) (sg : Bool)
    (hsg : ∀ b, ((mk b).2.2)[j]?.getD false = sg)
    (npre : Int) (saved : List (Nat × Trig.TS))
    (hem : ∀ c, (prepare ((L.map (·.nchan)).sum) npre nsamp saved).chans[j]? = some c → c.ts.edgeMulti = false)
    (zts : List (List (Int × Int))) (res : List Out)
    (hres : runOps zts (prepare ((L.map (·.nchan)).sum) npre nsamp saved) ((outs.map (·.2)).map (blockOp mk)) = some res)
    (p : C05.Params) (hdr : C05.Bytes) (hpn : p.nsamp = nsamp)
    (batches : List (List C05.W22)) (hbat : batches.flatten = (chanRecs j res).map toW22) :
    let recs := chanRecs j res
    let fin := C05.run (C05.fmt22 p hdr) {} (fileOps batches)
    (∀ r ∈ recs, (r.data.length : Int) = nsamp ∧ r.npre = npre) ∧
    (recs = [] → C05.fileOf fin = none) ∧
    (recs ≠ [] → ∃ file, C05.fileOf fin = some file ∧ file.take hdr.length = hdr ∧
      C05.parseBody (C05.parseLJH22 p.nsamp.toNat 2) (file.drop hdr.length) =
        some (recs.map fun r => C05.expect22 p.subdiv p.suboff (toW22 r)) ∧
      file.length = hdr.length + recs.length * (16 + p.nsamp.toNat * 2)) := by
  have h1 := (C03.C03_frames_contiguous fpp L f0 H gs perms hv hi hp s' outs hrun).1
  have h2 := C03.C03_groups_aligned fpp L f0 H gs perms hv hi hp s' outs hrun
  have hjn : j < (prepare ((L.map (·.nchan)).sum) npre nsamp saved).chans.length := by simp [prepare]; exact hj
  obtain ⟨c, hc⟩ : ∃ c, (prepare ((L.map (·.nchan)).sum) npre nsamp saved).chans[j]? = some c :=
    ⟨_, List.getElem?_eq_getElem hjn⟩
  have hb := blocks_blocksFor mk j sg hsg L
    (fun m => match (outs.map (·.2))[m]? with | some b => ((mk b).1, (mk b).2.1) | none => (0, 0))
    (outs.map (·.2)) 0 f0 h2 h1 hj (by intro i b hb; simp [hb])
  have hcn : c.nsamp = nsamp ∧ c.npre = npre := by
    simp only [prepare, List.getElem?_map] at hc
    cases hr : (List.range ((L.map (·.nchan)).sum))[j]? with
    | none => simp [hr] at hc
    | some i =>
      simp only [hr, Option.map_some, Option.some.injEq] at hc
      subst hc
      exact ⟨rfl, rfl⟩
  have := pipeline_to_ljh22_file zts j sg _ _ 0 f0 _ _ c res hb hc (hem c hc) hres p hdr (by rw [hpn, hcn.1]) batches hbat
  simp only at this ⊢
  rw [hcn.1, hcn.2] at this
  exact this

end DastardV.Compose
