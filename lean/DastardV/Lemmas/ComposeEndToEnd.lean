/-
From packets to the file: the three layers composed (C03 ingest → C01/C02 pipeline → C05 writer).
-/
import DastardV.Lemmas.Compose
import DastardV.Lemmas.ComposeFile
import DastardV.Lemmas.ComposeLancero
namespace DastardV.Compose
open Pipe

/-- **Abaco, end to end: packets → blocks → triggers → records → LJH 2.2 file.**  For every packet
history the ingest theorems cover (losses, reordering between groups, any batching into reads), every
pipeline channel `j` whose restored trigger settings are not edge-multi, valid record lengths, and a
writing period that spans the run: the channel's LJH 2.2 file, read back with the documented layout,
holds exactly the records the pipeline published for the channel — and by `abaco_no_pulse_lost` (same
hypotheses) those records satisfy every clause of C02 on the gap-filled packet stream: every edge /
level crossing far enough from the ends of the stream is covered by a record in the file. -/
theorem abaco_to_ljh22_file (fpp : Nat) (L : List C03.GL) (f0 : Int) {nsamp : Int}
    (H : List (List (List C03.Pkt))) (gs : List C03.Group) (perms : List (List Nat))
    (hv : C03.validIn fpp L H = true) (hi : C03.InitOK L gs) (hp : C03.PermsOK L.length H perms)
    (s' : C03.St) (outs : List (Nat × C03.Block))
    (hrun : C03.runFrom 0 (C03.startSt gs f0) H perms = .ok (s', outs))
    (mk : C03.Block → Int × Int × List Bool) (j : Nat) (hj : j < (L.map (·.nchan)).sum) (sg : Bool)
    (hsg : ∀ b, ((mk b).2.2)[j]?.getD false = sg)
    (npre : Int) (saved : List (Nat × Trig.TS))
    (hem : ∀ c, (prepare ((L.map (·.nchan)).sum) npre nsamp saved).chans[j]? = some c → c.ts.edgeMulti = false)
    (zts : List (List (Int × Int))) (res : List Out)
    (hres : runOps zts (prepare ((L.map (·.nchan)).sum) npre nsamp saved) ((outs.map (·.2)).map (blockOp mk)) = some res)
    (p : C05.Params) (hdr : C05.Bytes) (hpn : p.nsamp = nsamp)
    (batches : List (List C05.W22)) (hbat : batches.flatten = (chanRecs j res).map toW22) :
    let recs := chanRecs j res
    let fin := C05.run (C05.fmt22 p hdr) {} (fileOps batches)
    (∀ r ∈ recs, (r.data.length : Int) = nsamp ∧ r.npre = npre) ∧
    (recs = [] → C05.fileOf fin = none) ∧
    (recs ≠ [] → ∃ file, C05.fileOf fin = some file ∧ file.take hdr.length = hdr ∧
      C05.parseBody (C05.parseLJH22 p.nsamp.toNat 2) (file.drop hdr.length) =
        some (recs.map fun r => C05.expect22 p.subdiv p.suboff (toW22 r)) ∧
      file.length = hdr.length + recs.length * (16 + p.nsamp.toNat * 2)) := by
  have h1 := (C03.C03_frames_contiguous fpp L f0 H gs perms hv hi hp s' outs hrun).1
  have h2 := C03.C03_groups_aligned fpp L f0 H gs perms hv hi hp s' outs hrun
  have hjn : j < (prepare ((L.map (·.nchan)).sum) npre nsamp saved).chans.length := by simp [prepare]; exact hj
  obtain ⟨c, hc⟩ : ∃ c, (prepare ((L.map (·.nchan)).sum) npre nsamp saved).chans[j]? = some c :=
    ⟨_, List.getElem?_eq_getElem hjn⟩
  have hb := blocks_blocksFor mk j sg hsg L
    (fun m => match (outs.map (·.2))[m]? with | some b => ((mk b).1, (mk b).2.1) | none => (0, 0))
    (outs.map (·.2)) 0 f0 h2 h1 hj (by intro i b hb; simp [hb])
  have hcn : c.nsamp = nsamp ∧ c.npre = npre := by
    simp only [prepare, List.getElem?_map] at hc
    cases hr : (List.range ((L.map (·.nchan)).sum))[j]? with
    | none => simp [hr] at hc
    | some i =>
      simp only [hr, Option.map_some, Option.some.injEq] at hc
      subst hc
      exact ⟨rfl, rfl⟩
  have := pipeline_to_ljh22_file zts j sg _ _ 0 f0 _ _ c res hb hc (hem c hc) hres p hdr (by rw [hpn, hcn.1]) batches hbat
  simp only at this ⊢
  rw [hcn.1, hcn.2] at this
  exact this


/-- the channel `prepare` creates has the requested lengths -/
theorem prepare_lens {nch : Nat} {npre nsamp : Int} {saved : List (Nat × Trig.TS)} {j : Nat} {c : Trig.Chan}
    (hc : (prepare nch npre nsamp saved).chans[j]? = some c) : c.nsamp = nsamp ∧ c.npre = npre := by
  simp only [prepare, List.getElem?_map] at hc
  cases hr : (List.range nch)[j]? with
  | none => simp [hr] at hc
  | some i =>
    simp only [hr, Option.map_some, Option.some.injEq] at hc
    subst hc
    exact ⟨rfl, rfl⟩

/-- **Lancero, end to end: card bytes → frames → blocks → triggers → records → LJH 2.2 file.**  For every
geometry, every list of well-formed frames, EVERY schedule of reads and every mixer state: the reader does
not crash and, for every pipeline channel `j` whose restored trigger settings are not edge-multi and a
writing period that spans the run, the channel's LJH 2.2 file read back with the documented layout holds
exactly the records the pipeline published for the channel (which, by `lancero_no_pulse_lost`, cover every
qualifying crossing of the card's words). -/
theorem lancero_to_ljh22_file {σ ρ : Type} (fops : C04.FloatOps σ ρ) (zero : σ) (scaleOf : Nat → σ)
    (g : C04.Geom) (hg : C04.geomOK g = true) (frames : List C04.Frame)
    (hwf : ∀ fr ∈ frames, C04.frameWF g fr = true) (ticks : List (Nat × Int))
    (st : C04.DState σ)
    (mk : C04.Block → Int × Int × List Bool) (j : Nat) (hj : j < g.nchan) (sg : Bool)
    (hsg : ∀ b, ((mk b).2.2)[j]?.getD false = sg)
    (npre nsamp : Int) (saved : List (Nat × Trig.TS))
    (hem : ∀ c, (prepare g.nchan npre nsamp saved).chans[j]? = some c → c.ts.edgeMulti = false)
    (zts : List (List (Int × Int)))
    (p : C05.Params) (hdr : C05.Bytes) (hpn : p.nsamp = nsamp) :
    ∃ bufs, C04.runReader g { pending := [], future := C04.encFrames frames } false ticks = .ok bufs ∧
      let blocks := C04.blocksOf (C04.runSteps fops zero scaleOf g st (bufs.map C04.Step.buf))
      ∀ res, runOps zts (prepare g.nchan npre nsamp saved) (blocks.map (lblockOp mk)) = some res →
      ∀ (batches : List (List C05.W22)), batches.flatten = (chanRecs j res).map toW22 →
        let recs := chanRecs j res
        let fin := C05.run (C05.fmt22 p hdr) {} (fileOps batches)
        (∀ r ∈ recs, (r.data.length : Int) = nsamp ∧ r.npre = npre) ∧
        (recs = [] → C05.fileOf fin = none) ∧
        (recs ≠ [] → ∃ file, C05.fileOf fin = some file ∧ file.take hdr.length = hdr ∧
          C05.parseBody (C05.parseLJH22 p.nsamp.toNat 2) (file.drop hdr.length) =
            some (recs.map fun r => C05.expect22 p.subdiv p.suboff (toW22 r)) ∧
          file.length = hdr.length + recs.length * (16 + p.nsamp.toNat * 2)) := by
  obtain ⟨bufs, hrun, _, hrest⟩ := C04.C04_chunking_independent fops zero scaleOf g hg frames hwf ticks st
  obtain ⟨_, _, hcont, _, hshape, _⟩ := hrest
  refine ⟨bufs, hrun, ?_⟩
  intro blocks res hres batches hbat
  have hjn : j < (prepare g.nchan npre nsamp saved).chans.length := by simp [prepare]; exact hj
  obtain ⟨c, hc⟩ : ∃ c, (prepare g.nchan npre nsamp saved).chans[j]? = some c :=
    ⟨_, List.getElem?_eq_getElem hjn⟩
  have hb := lancero_blocks_blocksFor mk g j sg hsg
    (fun m => match blocks[m]? with | some b => ((mk b).1, (mk b).2.1) | none => (0, 0))
    blocks 0 st.next hshape hcont hj (by intro i b hb; simp [hb])
  obtain ⟨hcn1, hcn2⟩ := prepare_lens hc
  have := pipeline_to_ljh22_file zts j sg _ _ 0 st.next _ _ c res hb hc (hem c hc) hres p hdr (by rw [hpn, hcn1]) batches hbat
  simp only at this ⊢
  rw [hcn1, hcn2] at this
  exact this

/-- **A freshly prepared source, unconditionally.**  From `PrepareRun` (any restored trigger settings — edge-multi
is switched off by `PrepareRun` —, valid record lengths), for any history of blocks as a data source delivers
them with group-trigger requests woven in: the source does not crash (`C01_no_crash`), every record of
every channel has the configured lengths, and each channel's LJH 2.2 file written over that period reads
back as exactly the channel's published records.  No hypothesis about the run succeeding is left: it is
discharged by the no-crash theorem. -/
theorem prepared_source_to_ljh22_file (nch : Nat) (npre nsamp : Int) (saved : List (Nat × Trig.TS))
    (hv : 3 ≤ npre ∧ npre < nsamp) (zts : List (List (Int × Int)))
    (hzt : ∀ (j : Nat) (p : Int), -1 ≤ Pipe.ztOf (zts[j]?.getD []) p ∧ Pipe.ztOf (zts[j]?.getD []) p ≤ 1)
    (ops : List Op) (F : Int) (hok : OpsOK nch F ops) (hk : ∀ o ∈ ops, KeepsSettings o) :
    ∃ outs, runOps zts (prepare nch npre nsamp saved) ops = some outs ∧
      ∀ (j : Nat), j < nch →
        (∀ r ∈ chanRecs j outs, (r.data.length : Int) = nsamp ∧ r.npre = npre) ∧
        ∀ (p : C05.Params) (hdr : C05.Bytes), p.nsamp = nsamp →
        ∀ (batches : List (List C05.W22)), batches.flatten = (chanRecs j outs).map toW22 →
          let recs := chanRecs j outs
          let fin := C05.run (C05.fmt22 p hdr) {} (fileOps batches)
          (recs = [] → C05.fileOf fin = none) ∧
          (recs ≠ [] → ∃ file, C05.fileOf fin = some file ∧ file.take hdr.length = hdr ∧
            C05.parseBody (C05.parseLJH22 p.nsamp.toNat 2) (file.drop hdr.length) =
              some (recs.map fun r => C05.expect22 p.subdiv p.suboff (toW22 r)) ∧
            file.length = hdr.length + recs.length * (16 + p.nsamp.toNat * 2)) := by
  obtain ⟨outs, hrun⟩ := C01.C01_no_crash nch npre nsamp saved hv zts hzt ops F hok
  refine ⟨outs, hrun, ?_⟩
  intro j hj
  have hjn : j < (prepare nch npre nsamp saved).chans.length := by simp [prepare]; exact hj
  obtain ⟨c, hc⟩ : ∃ c, (prepare nch npre nsamp saved).chans[j]? = some c :=
    ⟨_, List.getElem?_eq_getElem hjn⟩
  obtain ⟨hcn1, hcn2⟩ := prepare_lens hc
  have hem : c.ts.edgeMulti = false :=
    (C02.prepare_fresh (f0 := -2305843009213693952 + nsamp) hc (Int.le_refl _)).2
  have hlen := runOps_chanRecs_len zts j ops _ c outs hk hc hem hrun
  refine ⟨by intro r hr; have := hlen r hr; rw [hcn1, hcn2] at this; exact this, ?_⟩
  intro p hdr hp batches hbat
  exact pipeline_to_ljh22_file_weave zts j ops _ c outs hk hc hem hrun p hdr (by rw [hp, hcn1]) batches hbat

/-- non-vacuity: the hypotheses on the history are met by an ordinary one (blocks of two channels with a
connection request in between) -/
example : OpsOK 2 0 [.block 0 0 1000 [false, false] [[1, 2, 3], [4, 5, 6]], .gadd [(0, 1)],
      .block 3 3000 1000 [false, false] [[7], [8]]] ∧
    ∀ o ∈ [Op.block 0 0 1000 [false, false] [[1, 2, 3], [4, 5, 6]], .gadd [(0, 1)],
      .block 3 3000 1000 [false, false] [[7], [8]]], KeepsSettings o := by
  refine ⟨⟨rfl, 3, by simp, by decide, rfl, ?_⟩, ?_⟩
  · exact ⟨rfl, 1, by simp, by decide, rfl, trivial⟩
  · intro o ho
    simp only [List.mem_cons, List.not_mem_nil, or_false] at ho
    rcases ho with rfl | rfl | rfl <;> trivial

theorem keepsSettings_blocks {α} (f : α → Op) (hf : ∀ a, ∃ x t p sg d, f a = .block x t p sg d) (l : List α) :
    ∀ o ∈ l.map f, KeepsSettings o := by
  intro o ho
  obtain ⟨a, _, rfl⟩ := List.mem_map.mp ho
  obtain ⟨x, t, p, sg, d, h⟩ := hf a
  rw [h]; trivial

/-- **Lancero, unconditionally: from the card's bytes to every channel's file.**  For every geometry, every
list of well-formed frames, EVERY schedule of reads, every mixer state, any restored trigger settings and
valid record lengths: the reader does not crash, the source processes the resulting blocks without a panic,
and every channel's LJH 2.2 file over that period reads back as exactly the channel's published records. -/
theorem lancero_card_to_files {σ ρ : Type} (fops : C04.FloatOps σ ρ) (zero : σ) (scaleOf : Nat → σ)
    (g : C04.Geom) (hg : C04.geomOK g = true) (frames : List C04.Frame)
    (hwf : ∀ fr ∈ frames, C04.frameWF g fr = true) (ticks : List (Nat × Int))
    (st : C04.DState σ) (hnext : 0 ≤ st.next)
    (mk : C04.Block → Int × Int × List Bool)
    (npre nsamp : Int) (hlen : 3 ≤ npre ∧ npre < nsamp) (saved : List (Nat × Trig.TS))
    (zts : List (List (Int × Int)))
    (hzt : ∀ (j : Nat) (p : Int), -1 ≤ Pipe.ztOf (zts[j]?.getD []) p ∧ Pipe.ztOf (zts[j]?.getD []) p ≤ 1) :
    ∃ bufs, C04.runReader g { pending := [], future := C04.encFrames frames } false ticks = .ok bufs ∧
      let blocks := C04.blocksOf (C04.runSteps fops zero scaleOf g st (bufs.map C04.Step.buf))
      ∃ res, runOps zts (prepare g.nchan npre nsamp saved) (blocks.map (lblockOp mk)) = some res ∧
        ∀ (j : Nat), j < g.nchan →
          (∀ r ∈ chanRecs j res, (r.data.length : Int) = nsamp ∧ r.npre = npre) ∧
          ∀ (p : C05.Params) (hdr : C05.Bytes), p.nsamp = nsamp →
          ∀ (batches : List (List C05.W22)), batches.flatten = (chanRecs j res).map toW22 →
            let recs := chanRecs j res
            let fin := C05.run (C05.fmt22 p hdr) {} (fileOps batches)
            (recs = [] → C05.fileOf fin = none) ∧
            (recs ≠ [] → ∃ file, C05.fileOf fin = some file ∧ file.take hdr.length = hdr ∧
              C05.parseBody (C05.parseLJH22 p.nsamp.toNat 2) (file.drop hdr.length) =
                some (recs.map fun r => C05.expect22 p.subdiv p.suboff (toW22 r)) ∧
              file.length = hdr.length + recs.length * (16 + p.nsamp.toNat * 2)) := by
  obtain ⟨bufs, hrun, _, hrest⟩ := C04.C04_chunking_independent fops zero scaleOf g hg frames hwf ticks st
  obtain ⟨_, _, hcont, _, hshape, _⟩ := hrest
  refine ⟨bufs, hrun, ?_⟩
  intro blocks
  exact prepared_source_to_ljh22_file g.nchan npre nsamp saved hlen zts hzt _ st.next
    (lancero_blocks_opsOK mk g _ st.next hnext hshape hcont)
    (keepsSettings_blocks (lblockOp mk) (fun b => ⟨_, _, _, _, _, rfl⟩) blocks)

/-- **Abaco, unconditionally: from the packet history to every channel's file.** -/
theorem abaco_packets_to_files (fpp : Nat) (L : List C03.GL) (f0 : Int) (hf0 : 0 ≤ f0)
    (H : List (List (List C03.Pkt))) (gs : List C03.Group) (perms : List (List Nat))
    (hv : C03.validIn fpp L H = true) (hi : C03.InitOK L gs) (hp : C03.PermsOK L.length H perms)
    (s' : C03.St) (outs : List (Nat × C03.Block))
    (hrun : C03.runFrom 0 (C03.startSt gs f0) H perms = .ok (s', outs))
    (mk : C03.Block → Int × Int × List Bool)
    (npre nsamp : Int) (hlen : 3 ≤ npre ∧ npre < nsamp) (saved : List (Nat × Trig.TS))
    (zts : List (List (Int × Int)))
    (hzt : ∀ (j : Nat) (p : Int), -1 ≤ Pipe.ztOf (zts[j]?.getD []) p ∧ Pipe.ztOf (zts[j]?.getD []) p ≤ 1) :
    ∃ res, runOps zts (prepare ((L.map (·.nchan)).sum) npre nsamp saved) ((outs.map (·.2)).map (blockOp mk)) = some res ∧
      ∀ (j : Nat), j < (L.map (·.nchan)).sum →
        (∀ r ∈ chanRecs j res, (r.data.length : Int) = nsamp ∧ r.npre = npre) ∧
        ∀ (p : C05.Params) (hdr : C05.Bytes), p.nsamp = nsamp →
        ∀ (batches : List (List C05.W22)), batches.flatten = (chanRecs j res).map toW22 →
          let recs := chanRecs j res
          let fin := C05.run (C05.fmt22 p hdr) {} (fileOps batches)
          (recs = [] → C05.fileOf fin = none) ∧
          (recs ≠ [] → ∃ file, C05.fileOf fin = some file ∧ file.take hdr.length = hdr ∧
            C05.parseBody (C05.parseLJH22 p.nsamp.toNat 2) (file.drop hdr.length) =
              some (recs.map fun r => C05.expect22 p.subdiv p.suboff (toW22 r)) ∧
            file.length = hdr.length + recs.length * (16 + p.nsamp.toNat * 2)) := by
  have h1 := (C03.C03_frames_contiguous fpp L f0 H gs perms hv hi hp s' outs hrun).1
  have h2 := C03.C03_groups_aligned fpp L f0 H gs perms hv hi hp s' outs hrun
  exact prepared_source_to_ljh22_file _ npre nsamp saved hlen zts hzt _ f0
    (blocks_opsOK mk L _ f0 hf0 h2 h1)
    (keepsSettings_blocks (blockOp mk) (fun b => ⟨_, _, _, _, _, rfl⟩) (outs.map (·.2)))

end DastardV.Compose
