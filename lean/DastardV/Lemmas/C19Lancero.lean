/-
C19 helper lemmas for the Lancero numbering loop: what the row/column/device loops emit, the
separation invariant, and disjointness of channel groups.
-/
import DastardV.Lemmas.C19Basic
namespace DastardV.C19

def Pixel.geom (p : Pixel) : Nat × Nat × Nat × Nat := (p.row, p.col, p.nrows, p.ncols)
def Pixel.ccr (p : Pixel) : Nat × Nat × Nat := (p.card, p.col, p.row)

/-! ### membership in a group's range -/

theorem mem_range_iff (g : Group) (x : Int) : x ∈ g.range ↔ g.first ≤ x ∧ x < g.first + g.n := by
  unfold Group.range
  rw [List.mem_map]
  constructor
  · rintro ⟨r, hr, rfl⟩
    have := List.mem_range.mp hr
    omega
  · rintro ⟨h1, h2⟩
    refine ⟨(x - g.first).toNat, List.mem_range.mpr (by omega), by omega⟩

theorem nodup_range (g : Group) : g.range.Nodup := by
  unfold Group.range List.Nodup
  rw [List.pairwise_map]
  exact (List.nodup_range (n := g.n)).imp (by intro a b hab h; omega)

/-- two groups do not share a channel number -/
def Disj (g h : Group) : Prop := g.first + g.n ≤ h.first ∨ h.first + h.n ≤ g.first

theorem nodup_allChans (gs : List Group) (h : gs.Pairwise Disj) : (allChans gs).Nodup := by
  unfold allChans List.Nodup
  rw [List.pairwise_flatMap]
  refine ⟨fun g _ => nodup_range g, h.imp ?_⟩
  intro g k hd x hx y hy hxy
  rw [mem_range_iff] at hx hy
  unfold Disj at hd
  omega

theorem mem_allChans (gs : List Group) (x : Int) :
    x ∈ allChans gs ↔ ∃ g ∈ gs, g.first ≤ x ∧ x < g.first + g.n := by
  unfold allChans
  rw [List.mem_flatMap]
  constructor
  · rintro ⟨g, hg, hx⟩; exact ⟨g, hg, (mem_range_iff g x).mp hx⟩
  · rintro ⟨g, hg, hx⟩; exact ⟨g, hg, (mem_range_iff g x).mpr hx⟩

theorem allChans_append (a b : List Group) : allChans (a ++ b) = allChans a ++ allChans b := by
  unfold allChans; exact List.flatMap_append

theorem allChans_cons (g : Group) (b : List Group) : allChans (g :: b) = g.range ++ allChans b := by
  unfold allChans; exact List.flatMap_cons

/-! ### separated, ordered group lists -/

/-- groups are in increasing order without overlap and all lie in `[lo, hi)` -/
def Sep (lo hi : Int) (gs : List Group) : Prop :=
  gs.Pairwise (fun (g h : Group) => g.first + (g.n : Int) ≤ h.first) ∧
    ∀ g ∈ gs, lo ≤ g.first ∧ g.first + (g.n : Int) ≤ hi

theorem Sep.nil (lo hi : Int) : Sep lo hi [] := ⟨List.Pairwise.nil, by simp⟩

theorem Sep.append {lo mid hi : Int} {a b : List Group} (ha : Sep lo mid a) (hb : Sep mid hi b)
    (h1 : lo ≤ mid) (h2 : mid ≤ hi) : Sep lo hi (a ++ b) := by
  refine ⟨List.pairwise_append.mpr ⟨ha.1, hb.1, ?_⟩, ?_⟩
  · intro g hg k hk
    have := ha.2 g hg; have := hb.2 k hk; omega
  · intro g hg
    rcases List.mem_append.mp hg with h | h
    · have := ha.2 g h; omega
    · have := hb.2 g h; omega

theorem Sep.disj {lo hi : Int} {gs : List Group} (h : Sep lo hi gs) : gs.Pairwise Disj :=
  h.1.imp (fun hab => Or.inl hab)

theorem Sep.mono {lo hi lo' hi' : Int} {gs : List Group} (h : Sep lo hi gs) (h1 : lo' ≤ lo) (h2 : hi ≤ hi') :
    Sep lo' hi' gs :=
  ⟨h.1, fun g hg => by have := h.2 g hg; omega⟩

/-! ### the row loop -/

theorem rowLoop_spec (card col nrows ncols : Nat) : ∀ (k row : Nat) (cnum : Int),
    (rowLoop card col nrows ncols k row cnum).2 = cnum + k ∧
    (rowLoop card col nrows ncols k row cnum).1.map (·.num) = (List.range k).map (fun (r : Nat) => cnum + (r : Int)) ∧
    (rowLoop card col nrows ncols k row cnum).1.map Pixel.geom
      = (List.range k).map (fun r => (row + r, col, nrows, ncols)) ∧
    (rowLoop card col nrows ncols k row cnum).1.map Pixel.ccr
      = (List.range k).map (fun r => (card, col, row + r)) := by
  intro k
  induction k with
  | zero => intro row cnum; simp [rowLoop]
  | succ k ih =>
    intro row cnum
    obtain ⟨h1, h2, h3, h4⟩ := ih (row + 1) (cnum + 1)
    unfold rowLoop
    simp only [List.map_cons, h1, h2, h3, h4, List.range_succ_eq_map, List.map_map]
    refine ⟨by omega, ?_, ?_, ?_⟩
    · simp only [Int.natCast_zero, Int.add_zero, List.cons.injEq, true_and]
      apply List.map_congr_left; intro r _; simp only [Function.comp]; omega
    · simp only [Pixel.geom, Nat.add_zero, List.cons.injEq, true_and]
      apply List.map_congr_left; intro r _; simp only [Function.comp, Nat.succ_eq_add_one]
      congr 1; omega
    · simp only [Pixel.ccr, Nat.add_zero, List.cons.injEq, true_and]
      apply List.map_congr_left; intro r _; simp only [Function.comp, Nat.succ_eq_add_one]
      congr 2; omega

/-! ### the column loop -/

/-- the channel number the next column will start at -/
def nextStart (sepCols : Int) (s : St) : Int := if sepCols > 0 then s.tcf + sepCols else s.cnum

/-- effective column width -/
def colW (sepCols : Int) (nrows : Nat) : Int := if sepCols > 0 then sepCols else nrows

def colGeom (nrows ncols col0 k : Nat) : List (Nat × Nat × Nat × Nat) :=
  (List.range k).flatMap fun c => (List.range nrows).map fun row => (row, col0 + c, nrows, ncols)

def colCCR (card nrows col0 k : Nat) : List (Nat × Nat × Nat) :=
  (List.range k).flatMap fun c => (List.range nrows).map fun row => (card, col0 + c, row)

theorem natCast_succ_mul (k : Nat) (w : Int) : ((k + 1 : Nat) : Int) * w = (k : Int) * w + w := by
  rw [Int.natCast_add, Int.add_mul]; simp

theorem range_flatMap_succ {β} (k : Nat) (f : Nat → List β) :
    (List.range (k + 1)).flatMap f = f 0 ++ (List.range k).flatMap (fun c => f (c + 1)) := by
  rw [List.range_succ_eq_map, List.flatMap_cons, List.flatMap_map]

theorem flatMap_congr' {α β} (f g : α → List β) : ∀ (l : List α), (∀ a ∈ l, f a = g a) → l.flatMap f = l.flatMap g
  | [], _ => rfl
  | a :: l, h => by
    rw [List.flatMap_cons, List.flatMap_cons, h a List.mem_cons_self,
      flatMap_congr' f g l (fun b hb => h b (List.mem_cons_of_mem _ hb))]

theorem colLoop_spec (sepCols : Int) (card nrows ncols : Nat)
    (hw : (nrows : Int) ≤ colW sepCols nrows) : ∀ (k col : Nat) (s : St),
    let r := colLoop sepCols card nrows ncols k col s
    nextStart sepCols r.2 = nextStart sepCols s + (k : Int) * colW sepCols nrows ∧
    Sep (nextStart sepCols s) (nextStart sepCols s + (k : Int) * colW sepCols nrows) r.1.groups ∧
    r.1.pixels.map (·.num) = allChans r.1.groups ∧
    r.1.pixels.map Pixel.geom = colGeom nrows ncols col k ∧
    r.1.pixels.map Pixel.ccr = colCCR card nrows col k := by
  intro k
  induction k with
  | zero =>
    intro col s
    simp [colLoop, Sep.nil, allChans, colGeom, colCCR]
  | succ k ih =>
    intro col s
    have hw0 : (0 : Int) ≤ colW sepCols nrows := by omega
    have hk0 : (0 : Int) ≤ (k : Int) * colW sepCols nrows := Int.mul_nonneg (Int.natCast_nonneg k) hw0
    have hmul := natCast_succ_mul k (colW sepCols nrows)
    -- abbreviations
    let x := nextStart sepCols s
    have hx : (if sepCols > 0 then s.tcf + sepCols else s.cnum) = x := rfl
    obtain ⟨r2, rnum, rgeom, rccr⟩ := rowLoop_spec card col nrows ncols nrows 0 x
    let s' : St := { cnum := (rowLoop card col nrows ncols nrows 0 x).2, tcf := x }
    have hs' : nextStart sepCols s' = x + colW sepCols nrows := by
      show (if sepCols > 0 then s'.tcf + sepCols else s'.cnum) = _
      unfold colW
      by_cases h : sepCols > 0
      · rw [if_pos h, if_pos h]
      · rw [if_neg h, if_neg h]; exact r2
    obtain ⟨i1, i2, i3, i4, i5⟩ := ih (col + 1) s'
    rw [hs'] at i1 i2
    show (let r := colLoop sepCols card nrows ncols (k + 1) col s; _)
    unfold colLoop
    simp only [hx]
    refine ⟨?_, ?_, ?_, ?_, ?_⟩
    · rw [i1, hmul]; omega
    · rw [hmul]
      have hg : Sep x (x + colW sepCols nrows) [{ first := x, n := nrows }] := by
        refine ⟨by simp, ?_⟩
        intro g hg
        simp only [List.mem_singleton] at hg
        subst hg
        constructor <;> simp only <;> omega
      have := Sep.append hg i2 (by omega) (by omega)
      have e : x + colW sepCols nrows + (k : Int) * colW sepCols nrows
          = x + ((k : Int) * colW sepCols nrows + colW sepCols nrows) := by omega
      rw [e] at this
      exact this
    · rw [List.map_append, rnum, i3, allChans_cons]
      rfl
    · rw [List.map_append, rgeom, i4]
      unfold colGeom
      rw [range_flatMap_succ]
      simp only [Nat.zero_add, Nat.add_zero]
      congr 1
      apply flatMap_congr'; intro c _
      apply List.map_congr_left; intro r _
      congr 2; omega
    · rw [List.map_append, rccr, i5]
      unfold colCCR
      rw [range_flatMap_succ]
      simp only [Nat.zero_add, Nat.add_zero]
      congr 1
      apply flatMap_congr'; intro c _
      apply List.map_congr_left; intro r _
      congr 2; omega

/-! ### the device loop -/

def devCCR (card : Nat) (d : Dev) : List (Nat × Nat × Nat) :=
  (List.range d.ncols).flatMap fun col => (List.range d.nrows).map fun row => (card, col, row)

/-- every (card index, column, row) of the configuration, in read-out order -/
def ccrFrom : List Dev → Nat → List (Nat × Nat × Nat)
  | [], _ => []
  | d :: ds, k => devCCR k d ++ ccrFrom ds (k + 1)

theorem colGeom_zero (d : Dev) : colGeom d.nrows d.ncols 0 d.ncols = devGeom d := by
  unfold colGeom devGeom
  apply flatMap_congr'; intro c _
  apply List.map_congr_left; intro r _
  rw [Nat.zero_add]

theorem colCCR_zero (card : Nat) (d : Dev) : colCCR card d.nrows 0 d.ncols = devCCR card d := by
  unfold colCCR devCCR
  apply flatMap_congr'; intro c _
  apply List.map_congr_left; intro r _
  rw [Nat.zero_add]

/-- rows fit into the effective column width (what the first size check establishes) -/
def RowsFit (c : LCfg) (devs : List Dev) : Prop := ∀ d ∈ devs, (d.nrows : Int) ≤ colW c.sepCols d.nrows

theorem devLoop_pixels (c : LCfg) : ∀ (devs : List Dev) (card : Nat) (s : St), RowsFit c devs →
    (devLoop c devs card s).pixels.map (·.num) = allChans (devLoop c devs card s).groups ∧
    (devLoop c devs card s).pixels.map Pixel.geom = lanceroGeom devs ∧
    (devLoop c devs card s).pixels.map Pixel.ccr = ccrFrom devs card := by
  intro devs
  induction devs with
  | nil => intro card s _; simp [devLoop, allChans, lanceroGeom, ccrFrom]
  | cons d ds ih =>
    intro card s hr
    unfold devLoop
    simp only
    generalize hs1 : (if c.sepCards > 0 then
      ({ cnum := d.devnum * c.sepCards + c.firstRow, tcf := d.devnum * c.sepCards + c.firstRow - c.sepCols } : St)
      else s) = s1
    obtain ⟨_, _, c3, c4, c5⟩ := colLoop_spec c.sepCols card d.nrows d.ncols (hr d List.mem_cons_self) d.ncols 0 s1
    obtain ⟨i1, i2, i3⟩ := ih (card + 1) (colLoop c.sepCols card d.nrows d.ncols d.ncols 0 s1).2
      (fun e he => hr e (List.mem_cons_of_mem _ he))
    refine ⟨?_, ?_, ?_⟩
    · rw [List.map_append, allChans_append, c3, i1]
    · rw [List.map_append, c4, i2, colGeom_zero]; simp [lanceroGeom]
    · rw [List.map_append, c5, i3, colCCR_zero]; rfl

theorem natCast_mul_nonneg (k : Nat) (w : Int) (hw : 0 ≤ w) : 0 ≤ (k : Int) * w :=
  Int.mul_nonneg (Int.natCast_nonneg k) hw

/-- sequential cards (`ChanSepCards = 0`): all groups are in increasing order -/
theorem devLoop_seq (c : LCfg) (h0 : ¬ c.sepCards > 0) : ∀ (devs : List Dev) (card : Nat) (s : St),
    RowsFit c devs →
    ∃ hi, nextStart c.sepCols s ≤ hi ∧ Sep (nextStart c.sepCols s) hi (devLoop c devs card s).groups := by
  intro devs
  induction devs with
  | nil => intro card s _; exact ⟨_, Int.le_refl _, by simp [devLoop, Sep.nil]⟩
  | cons d ds ih =>
    intro card s hr
    unfold devLoop
    simp only [if_neg h0]
    have hw := hr d List.mem_cons_self
    obtain ⟨c1, c2, _, _, _⟩ := colLoop_spec c.sepCols card d.nrows d.ncols hw d.ncols 0 s
    obtain ⟨hi, h1, h2⟩ := ih (card + 1) (colLoop c.sepCols card d.nrows d.ncols d.ncols 0 s).2
      (fun e he => hr e (List.mem_cons_of_mem _ he))
    rw [c1] at h1 h2
    have hnn := natCast_mul_nonneg d.ncols (colW c.sepCols d.nrows) (by omega)
    exact ⟨hi, by omega, Sep.append c2 h2 (by omega) h1⟩

theorem card_disj (S a b : Int) (hS : 0 < S) (hab : a ≠ b) : a * S + S ≤ b * S ∨ b * S + S ≤ a * S := by
  have key : ∀ x y : Int, x < y → x * S + S ≤ y * S := by
    intro x y hxy
    have h1 : (x + 1) * S ≤ y * S := Int.mul_le_mul_of_nonneg_right (by omega) (by omega)
    rw [Int.add_mul, Int.one_mul] at h1
    exact h1
  rcases Int.lt_or_gt_of_ne hab with h | h
  · exact Or.inl (key a b h)
  · exact Or.inr (key b a h)

/-- cards fit into the card separation (what the second size check establishes) -/
def CardsFit (c : LCfg) (devs : List Dev) : Prop :=
  ∀ d ∈ devs, colW c.sepCols d.nrows * (d.ncols : Int) ≤ c.sepCards

/-- separated cards (`ChanSepCards > 0`): each card's groups stay inside the card's own interval, so
cards with different device numbers never share a channel number -/
theorem devLoop_cards (c : LCfg) (hS : c.sepCards > 0) : ∀ (devs : List Dev) (card : Nat) (s : St),
    RowsFit c devs → CardsFit c devs → (devs.map (·.devnum)).Nodup →
    (devLoop c devs card s).groups.Pairwise Disj ∧
    ∀ g ∈ (devLoop c devs card s).groups, ∃ d ∈ devs,
      d.devnum * c.sepCards + c.firstRow ≤ g.first ∧
      g.first + (g.n : Int) ≤ d.devnum * c.sepCards + c.firstRow + c.sepCards := by
  intro devs
  induction devs with
  | nil => intro card s _ _ _; simp [devLoop]
  | cons d ds ih =>
    intro card s hr hc hn
    unfold devLoop
    simp only [if_pos hS]
    have hw := hr d List.mem_cons_self
    have hcd := hc d List.mem_cons_self
    generalize hs1 : ({ cnum := d.devnum * c.sepCards + c.firstRow,
                        tcf := d.devnum * c.sepCards + c.firstRow - c.sepCols } : St) = s1
    have hns : nextStart c.sepCols s1 = d.devnum * c.sepCards + c.firstRow := by
      subst hs1; unfold nextStart
      by_cases h : c.sepCols > 0
      · rw [if_pos h]; simp only; omega
      · rw [if_neg h]
    obtain ⟨_, c2, _, _, _⟩ := colLoop_spec c.sepCols card d.nrows d.ncols hw d.ncols 0 s1
    rw [hns] at c2
    rw [List.map_cons, List.nodup_cons] at hn
    obtain ⟨i1, i2⟩ := ih (card + 1) (colLoop c.sepCols card d.nrows d.ncols d.ncols 0 s1).2
      (fun e he => hr e (List.mem_cons_of_mem _ he)) (fun e he => hc e (List.mem_cons_of_mem _ he)) hn.2
    have hcomm : (d.ncols : Int) * colW c.sepCols d.nrows = colW c.sepCols d.nrows * (d.ncols : Int) :=
      Int.mul_comm _ _
    have hin : ∀ g ∈ (colLoop c.sepCols card d.nrows d.ncols d.ncols 0 s1).1.groups,
        d.devnum * c.sepCards + c.firstRow ≤ g.first ∧
        g.first + (g.n : Int) ≤ d.devnum * c.sepCards + c.firstRow + c.sepCards := by
      intro g hg
      have := c2.2 g hg
      omega
    constructor
    · refine List.pairwise_append.mpr ⟨c2.disj, i1, ?_⟩
      intro g hg k hk
      obtain ⟨e, he, hk1, hk2⟩ := i2 k hk
      have hne : d.devnum ≠ e.devnum := by
        intro heq
        exact hn.1 (heq ▸ List.mem_map_of_mem (f := fun x => x.devnum) he)
      have hg' := hin g hg
      have := card_disj c.sepCards d.devnum e.devnum hS hne
      unfold Disj
      omega
    · intro g hg
      rcases List.mem_append.mp hg with h | h
      · exact ⟨d, List.mem_cons_self, hin g h⟩
      · obtain ⟨e, he, hk⟩ := i2 g h
        exact ⟨e, List.mem_cons_of_mem _ he, hk⟩

/-! ### validation -/

theorem colsep_eq_colW (sepCols : Int) (d : Dev) : colsep sepCols d = colW sepCols d.nrows := rfl

theorem validate_none_iff (c : LCfg) : lanceroValidate c = none ↔
    0 ≤ c.sepCards ∧ 0 ≤ c.sepCols ∧
    (c.sepCols > 0 → ∀ d ∈ c.devs, (d.nrows : Int) ≤ c.sepCols) ∧
    (c.sepCards > 0 → ∀ d ∈ c.devs, colsep c.sepCols d * (d.ncols : Int) ≤ c.sepCards) := by
  unfold lanceroValidate
  by_cases h1 : c.sepCards < 0
  · rw [if_pos h1]; constructor
    · intro h; cases h
    · rintro ⟨h, _⟩; omega
  rw [if_neg h1]
  by_cases h2 : c.sepCols < 0
  · rw [if_pos h2]; constructor
    · intro h; cases h
    · rintro ⟨_, h, _⟩; omega
  rw [if_neg h2]
  by_cases h3 : c.sepCols > 0 ∧ c.devs.any (fun d => decide ((d.nrows : Int) > c.sepCols)) = true
  · rw [if_pos h3]; constructor
    · intro h; cases h
    · rintro ⟨_, _, h, _⟩
      obtain ⟨hp, ha⟩ := h3
      obtain ⟨d, hd, hdd⟩ := List.any_eq_true.mp ha
      have := h hp d hd
      simp only [decide_eq_true_eq] at hdd
      omega
  rw [if_neg h3]
  by_cases h4 : c.sepCards > 0 ∧
      c.devs.any (fun d => decide (colsep c.sepCols d * (d.ncols : Int) > c.sepCards)) = true
  · rw [if_pos h4]; constructor
    · intro h; cases h
    · rintro ⟨_, _, _, h⟩
      obtain ⟨hp, ha⟩ := h4
      obtain ⟨d, hd, hdd⟩ := List.any_eq_true.mp ha
      have := h hp d hd
      simp only [decide_eq_true_eq] at hdd
      omega
  rw [if_neg h4]
  refine ⟨fun _ => ⟨by omega, by omega, ?_, ?_⟩, fun _ => rfl⟩
  · intro hp d hd
    apply Int.not_lt.mp
    intro hlt
    exact h3 ⟨hp, List.any_eq_true.mpr ⟨d, hd, by simp only [decide_eq_true_eq]; omega⟩⟩
  · intro hp d hd
    apply Int.not_lt.mp
    intro hlt
    exact h4 ⟨hp, List.any_eq_true.mpr ⟨d, hd, by simp only [decide_eq_true_eq]; omega⟩⟩

theorem rowsFit_of_valid (c : LCfg) (hv : lanceroValidate c = none) : RowsFit c c.devs := by
  obtain ⟨_, _, h3, _⟩ := (validate_none_iff c).mp hv
  intro d hd
  unfold colW
  by_cases h : c.sepCols > 0
  · rw [if_pos h]; exact h3 h d hd
  · rw [if_neg h]; exact Int.le_refl _

theorem cardsFit_of_valid (c : LCfg) (hv : lanceroValidate c = none) (hS : c.sepCards > 0) :
    CardsFit c c.devs := by
  obtain ⟨_, _, _, h4⟩ := (validate_none_iff c).mp hv
  intro d hd
  exact h4 hS d hd

/-- the groups of an accepted configuration are pairwise disjoint -/
theorem lancero_groups_disj (c : LCfg) (hv : lanceroValidate c = none)
    (hd : c.sepCards > 0 → (c.devs.map (·.devnum)).Nodup) : (lanceroLoop c).groups.Pairwise Disj := by
  unfold lanceroLoop
  by_cases hS : c.sepCards > 0
  · exact (devLoop_cards c hS c.devs 0 _ (rowsFit_of_valid c hv) (cardsFit_of_valid c hv hS) (hd hS)).1
  · obtain ⟨hi, _, h⟩ := devLoop_seq c hS c.devs 0 { cnum := c.firstRow, tcf := c.firstRow - c.sepCols }
      (rowsFit_of_valid c hv)
    exact h.disj

theorem lancero_nums_nodup (c : LCfg) (hv : lanceroValidate c = none)
    (hd : c.sepCards > 0 → (c.devs.map (·.devnum)).Nodup) :
    ((lanceroLoop c).pixels.map (·.num)).Nodup := by
  have h := (devLoop_pixels c c.devs 0 { cnum := c.firstRow, tcf := c.firstRow - c.sepCols }
    (rowsFit_of_valid c hv)).1
  unfold lanceroLoop
  rw [h]
  exact nodup_allChans _ (lancero_groups_disj c hv hd)

end DastardV.C19
