/-
`triggerData` outside edge-multi, opened up: the three index lists, the frames of the records
and the new `lastTrig`.
-/
import DastardV.Lemmas.Passes
import DastardV.Lemmas.Pipe2
namespace DastardV.Trig

theorem cut_frame {c : Chan} {i p n : Int} {r : Rec} (h : cut c i p n = some r) : r.frame = c.first + i := by
  unfold cut at h
  split at h
  · simp at h
  · split at h
    · simp only [Option.some.injEq] at h; subst h; rfl
    · simp at h

theorem cutAll_frames {c : Chan} : ∀ {is : List Int} {rs : List Rec}, cutAll c is = some rs →
    rs.map (·.frame) = is.map (c.first + ·)
  | [], rs, h => by simp [cutAll] at h; subst h; rfl
  | i :: is, rs, h => by
    simp only [cutAll, bind, Option.bind_eq_some_iff, pure, Option.some.injEq] at h
    obtain ⟨r0, hr0, rs0, hrs0, rfl⟩ := h
    simp [cut_frame hr0, cutAll_frames hrs0]

/-- the frame of the last record = `first +` the last index -/
theorem getLast_frame {c : Chan} {is : List Int} {rs : List Rec} (h : cutAll c is = some rs) :
    (rs.getLast?).map (·.frame) = (is.getLast?).map (c.first + ·) := by
  have := cutAll_frames h
  have h1 : (rs.map (·.frame)).getLast? = (is.map (c.first + ·)).getLast? := by rw [this]
  simpa [List.getLast?_map] using h1

/-- `triggerData` outside edge-multi, opened up -/
theorem triggerData_nonEMT_idx {c c' : Chan} {zt : ZT} {recs : List Rec}
    (hem : c.ts.edgeMulti = false) (h : triggerData c zt = some (c', recs)) :
    ∃ e el all, edgePass c = some e ∧ levelPass c e = some el ∧ autoPass c el = some all ∧
      recs.map (·.frame) = all.map (c.first + ·) ∧
      c' = { c with lastTrig := match all.getLast? with | some i => c.first + i | none => c.lastTrig } := by
  unfold triggerData at h
  simp only [hem, Bool.false_eq_true, if_false] at h
  split at h
  · simp at h
  · rename_i e he
    split at h
    · simp at h
    · split at h
      · simp at h
      · rename_i el hel
        split at h
        · simp at h
        · split at h
          · simp at h
          · rename_i all hall
            split at h
            · simp at h
            · rename_i rs hrs
              simp only [Option.some.injEq, Prod.mk.injEq] at h
              obtain ⟨hc, hr⟩ := h
              subst hr
              refine ⟨e, el, all, he, hel, hall, cutAll_frames hrs, ?_⟩
              rw [← hc]
              have hl := getLast_frame hrs
              cases hrl : rs.getLast? with
              | none =>
                rw [hrl] at hl
                cases hal : all.getLast? with
                | none => rfl
                | some i => rw [hal] at hl; simp at hl
              | some r =>
                rw [hrl] at hl
                cases hal : all.getLast? with
                | none => rw [hal] at hl; simp at hl
                | some i =>
                  rw [hal] at hl
                  simp only [Option.map_some, Option.some.injEq] at hl
                  simp [hl]

/-- found triggers survive the level pass -/
theorem levelPass_sub {c : Chan} {found res : List Int} (h : levelPass c found = some res) :
    ∀ x ∈ found, x ∈ res := by
  unfold levelPass at h
  split at h
  · simp only [Option.some.injEq] at h; subst h; exact fun _ hx => hx
  · split at h
    · simp only [Option.some.injEq] at h; subst h
      intro x hx; exact mem_sortAsc.mpr (List.mem_append_left _ hx)
    · simp at h

theorem sortAppend_sub {found res : List Int} {o : Option (List Int)}
    (h : (match o with | some new => some (sortAsc (found ++ new)) | none => none) = some res) :
    ∀ x ∈ found, x ∈ res := by
  cases o with
  | none => simp at h
  | some new =>
    simp only [Option.some.injEq] at h; subst h
    intro x hx; exact mem_sortAsc.mpr (List.mem_append_left _ hx)

theorem autoPass_sub {c : Chan} {found res : List Int} (h : autoPass c found = some res) :
    ∀ x ∈ found, x ∈ res := by
  unfold autoPass at h
  by_cases ha : c.ts.auto = true
  · simp only [ha, Bool.not_true, Bool.false_eq_true, if_false] at h
    split at h <;>
    · split at h
      · simp at h
      · exact sortAppend_sub h
  · have ha' : c.ts.auto = false := by simpa using ha
    simp only [ha', Bool.not_false, if_true, Option.some.injEq] at h
    subst h; exact fun _ hx => hx

end DastardV.Trig
