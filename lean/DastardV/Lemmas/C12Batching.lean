/-
C12 — the unwrapped Abaco stream does not depend on how the packets are batched into reads.

`Props/C12.lean` has the two-call form (`C12_split_independent`) and the enabled many-call form
(`runCalls_flatten`).  Here: for ANY parameter set (unwrapping enabled or not, any number of dropped
bits including 0) and ANY two batchings of the same sample stream, the concatenated output is the same
and so is the carried state (A1); and the same for a channel of an Abaco group, where the batches are
whole-frame pieces of one frame-major payload stream (A2).
-/
import DastardV.Props.C12
namespace DastardV.C12

/-! ### A1 — one unwrapper -/

/-- `UnwrapInPlace` on `xs ++ ys` is `UnwrapInPlace` on `xs`, then on `ys` with the carried state —
for every parameter set (`C12_split_independent` without its two hypotheses). -/
theorem unwrapCall_append (p : Params) (s : St) (xs ys : List Nat) :
    unwrapCall p s (xs ++ ys) =
      ((unwrapCall p (unwrapCall p s xs).1 ys).1,
       (unwrapCall p s xs).2 ++ (unwrapCall p (unwrapCall p s xs).1 ys).2) := by
  by_cases hd : p.drop = 0
  · unfold unwrapCall; simp [hd]
  · cases hen : p.enable
    · unfold unwrapCall; simp [hd, hen]
    · exact C12_split_independent p s xs ys hen hd

/-- the call on no data: no output; the state is kept except that the disabled, bit-dropping branch
zeroes the reset counter -/
theorem unwrapCall_nil (p : Params) (s : St) :
    (unwrapCall p s []).2 = [] ∧ (unwrapCall p s []).1.lastVal = s.lastVal ∧
    (unwrapCall p s []).1.offset = s.offset ∧
    ((p.enable = true ∨ p.drop = 0 ∨ s.resetCount = 0) → (unwrapCall p s []).1 = s) := by
  unfold unwrapCall
  by_cases hd : p.drop = 0
  · simp [hd]
  · cases hen : p.enable
    · simp only [hd, if_false, Bool.not_false, if_true, List.map_nil, true_and]
      intro h
      rcases h with h | h | h
      · cases h
      · exact h.elim
      · cases s; simp_all
    · simp [hd, runV]

/-- a second call does to the state what the first one did, if the first one had no data:
`unwrapCall` is idempotent on the state for empty data -/
theorem unwrapCall_nil_then (p : Params) (s : St) (ys : List Nat) :
    unwrapCall p (unwrapCall p s []).1 ys = unwrapCall p s ys := by
  have h := unwrapCall_append p s [] ys
  rw [List.nil_append, (unwrapCall_nil p s).1, List.nil_append] at h
  exact h.symm

/-- **any number of calls is one call**: the outputs of the calls, concatenated, are the output of
ONE call on the concatenated data, and (when there is at least one call) the carried state is the
state after that one call.  Every parameter set. -/
theorem runCalls_eq_one_call (p : Params) :
    ∀ (cs : List (List Nat)) (s : St),
      (runCalls p s cs).2.flatten = (unwrapCall p s cs.flatten).2 ∧
      (cs ≠ [] → (runCalls p s cs).1 = (unwrapCall p s cs.flatten).1)
  | [], s => by
    refine ⟨?_, fun h => absurd rfl h⟩
    simp [runCalls, (unwrapCall_nil p s).1]
  | c :: cs, s => by
    have ih := runCalls_eq_one_call p cs (unwrapCall p s c).1
    simp only [runCalls, List.flatten_cons]
    rw [unwrapCall_append]
    refine ⟨by rw [ih.1], fun _ => ?_⟩
    show (runCalls p (unwrapCall p s c).1 cs).1 = _
    cases cs with
    | nil =>
      simp only [runCalls, List.flatten_nil]
      have h := unwrapCall_append p s c []
      rw [List.append_nil] at h
      have h3 := congrArg Prod.fst h
      exact h3
    | cons d ds => exact ih.2 (by simp)

/-- with no call at all the state is untouched and there is no output -/
theorem runCalls_nil (p : Params) (s : St) : runCalls p s [] = (s, []) := rfl

/-- the state after any run differs from the state after one call on the concatenated data at most in
the reset counter, and not even there when unwrapping is enabled, no bits are dropped, or the counter
is 0 (which it is in every state the disabled unwrapper can be in: the constructor starts it at 0 and
the disabled branch only ever zeroes it) -/
theorem runCalls_state (p : Params) (cs : List (List Nat)) (s : St) :
    (runCalls p s cs).1.lastVal = (unwrapCall p s cs.flatten).1.lastVal ∧
    (runCalls p s cs).1.offset = (unwrapCall p s cs.flatten).1.offset ∧
    ((p.enable = true ∨ p.drop = 0 ∨ s.resetCount = 0 ∨ cs ≠ []) →
      (runCalls p s cs).1 = (unwrapCall p s cs.flatten).1) := by
  cases cs with
  | nil =>
    have h := unwrapCall_nil p s
    refine ⟨h.2.1.symm, h.2.2.1.symm, fun hc => ?_⟩
    simp only [runCalls_nil, List.flatten_nil]
    rcases hc with hc | hc | hc | hc
    · exact (h.2.2.2 (Or.inl hc)).symm
    · exact (h.2.2.2 (Or.inr (Or.inl hc))).symm
    · exact (h.2.2.2 (Or.inr (Or.inr hc))).symm
    · exact absurd rfl hc
  | cons c cs =>
    have h := (runCalls_eq_one_call p (c :: cs) s).2 (by simp)
    exact ⟨by rw [h], by rw [h], fun _ => h⟩

/-- **A1 — batching independence of one unwrapper.**  For ANY parameters (unwrapping enabled or
disabled, any number of dropped bits, 0 included), any state and any two lists of calls carrying the
same sample stream (`cs₁.flatten = cs₂.flatten`; empty calls allowed anywhere):

* the concatenated outputs are equal;
* the carried `lastVal` and `offset` are equal;
* the whole carried state is equal whenever unwrapping is enabled, or no bits are dropped, or the reset
  counter of the start state is 0 (always so for a disabled unwrapper built by the constructor), or
  both call lists are empty / both non-empty.

The one corner left out is real (`runCalls_state_corner`): a disabled bit-dropping unwrapper zeroes the
(otherwise unused) reset counter on every call, so no call vs. one empty call differ in that field
when it was not 0 to begin with. -/
theorem runCalls_batching_independent (p : Params) (s : St) (cs₁ cs₂ : List (List Nat))
    (h : cs₁.flatten = cs₂.flatten) :
    (runCalls p s cs₁).2.flatten = (runCalls p s cs₂).2.flatten ∧
    (runCalls p s cs₁).1.lastVal = (runCalls p s cs₂).1.lastVal ∧
    (runCalls p s cs₁).1.offset = (runCalls p s cs₂).1.offset ∧
    ((p.enable = true ∨ p.drop = 0 ∨ s.resetCount = 0 ∨ (cs₁ = [] ↔ cs₂ = [])) →
      (runCalls p s cs₁).1 = (runCalls p s cs₂).1) := by
  have h1 := runCalls_state p cs₁ s
  have h2 := runCalls_state p cs₂ s
  refine ⟨?_, ?_, ?_, fun hc => ?_⟩
  · rw [(runCalls_eq_one_call p cs₁ s).1, (runCalls_eq_one_call p cs₂ s).1, h]
  · rw [h1.1, h2.1, h]
  · rw [h1.2.1, h2.2.1, h]
  · rcases hc with hc | hc | hc | hc
    · rw [h1.2.2 (Or.inl hc), h2.2.2 (Or.inl hc), h]
    · rw [h1.2.2 (Or.inr (Or.inl hc)), h2.2.2 (Or.inr (Or.inl hc)), h]
    · rw [h1.2.2 (Or.inr (Or.inr (Or.inl hc))), h2.2.2 (Or.inr (Or.inr (Or.inl hc))), h]
    · by_cases he : cs₁ = []
      · rw [he, hc.mp he]
      · have he2 : cs₂ ≠ [] := fun h' => he (hc.mpr h')
        rw [h1.2.2 (Or.inr (Or.inr (Or.inr he))), h2.2.2 (Or.inr (Or.inr (Or.inr he2))), h]

/-- enabled unwrapping (the case the property is about): same stream, same output, same state -/
theorem runCalls_batching_independent_enabled (p : Params) (s : St) (cs₁ cs₂ : List (List Nat))
    (hen : p.enable = true) (h : cs₁.flatten = cs₂.flatten) :
    (runCalls p s cs₁).2.flatten = (runCalls p s cs₂).2.flatten ∧
    (runCalls p s cs₁).1 = (runCalls p s cs₂).1 :=
  have h' := runCalls_batching_independent p s cs₁ cs₂ h
  ⟨h'.1, h'.2.2.2 (Or.inl hen)⟩

/-- the excluded corner is real: disabled, 4 bits dropped, a start state with a non-zero counter; no
call leaves the counter, one call without data zeroes it (outputs, `lastVal`, `offset` agree) -/
theorem runCalls_state_corner :
    let p : Params := { drop := 4, enable := false, invert := false, signMask := 65535, twoPi := 0,
                        upper := 0, lower := 0, resetAfter := 0, resetOffset := 0 }
    let s : St := { lastVal := 0, offset := 0, resetCount := 5 }
    ([] : List (List Nat)).flatten = [([] : List Nat)].flatten ∧
    (runCalls p s []).1 ≠ (runCalls p s [[]]).1 := by
  decide

/-- Non-vacuity: three batchings of one stream through the enabled Abaco unwrapper (empty reads
included), with a wrap inside; all outputs and states agree, and the output is not the plain shift. -/
example :
    ∃ p s, mk 16 4 true 0 20000 1 false = some (p, s) ∧
      let a := [[100, 60000, 200], [], [65000, 300]]
      let b := [[100], [60000, 200, 65000], [300], []]
      let c := [[100, 60000, 200, 65000, 300]]
      a.flatten = b.flatten ∧ b.flatten = c.flatten ∧
      (runCalls p s a).2.flatten = (runCalls p s c).2.flatten ∧
      (runCalls p s b).2.flatten = (runCalls p s c).2.flatten ∧
      (runCalls p s a).1 = (runCalls p s b).1 ∧
      (runCalls p s c).2.flatten ≠ c.flatten.map (fun v => (pre p v + 4096) % 65536) := by
  refine ⟨_, _, rfl, ?_⟩
  decide

/-! ### A2 — a channel of an Abaco group -/

/-- de-interleaving a payload that is a whole number of frames followed by more payload is
de-interleaving the two pieces -/
theorem demuxChan_append (nch i : Nat) (wide : Bool) (hi : i < nch) (a b : List Int)
    (ha : a.length % nch = 0) :
    demuxChan nch i wide (a ++ b) = demuxChan nch i wide a ++ demuxChan nch i wide b := by
  have hn : 0 < nch := by omega
  obtain ⟨k, hk⟩ : ∃ k, a.length = nch * k := ⟨a.length / nch, by
    have := Nat.div_add_mod a.length nch; omega⟩
  have hdiv : (a ++ b).length / nch = k + b.length / nch := by
    rw [List.length_append, hk, Nat.mul_add_div hn]
  have hka : a.length / nch = k := by rw [hk, Nat.mul_div_cancel_left _ hn]
  unfold demuxChan
  rw [hdiv, hka, List.range_add, List.map_append, List.map_map]
  congr 1
  · apply List.map_congr_left
    intro f hf
    have hf' : f < k := List.mem_range.mp hf
    have hlt : f * nch + i < a.length := by
      rw [hk, Nat.mul_comm nch k]
      calc f * nch + i < f * nch + nch := by omega
        _ = (f + 1) * nch := by rw [Nat.add_mul, Nat.one_mul]
        _ ≤ k * nch := Nat.mul_le_mul_right _ hf'
    simp only [List.getD_eq_getElem?_getD, List.getElem?_append_left hlt]
  · apply List.map_congr_left
    intro g _
    have hge : a.length ≤ (k + g) * nch + i := by
      rw [hk, Nat.add_mul, Nat.mul_comm nch k]; omega
    have hsub : (k + g) * nch + i - a.length = g * nch + i := by
      rw [hk, Nat.add_mul, Nat.mul_comm nch k]; omega
    simp only [Function.comp, List.getD_eq_getElem?_getD, List.getElem?_append_right hge, hsub]

/-- a list of whole-frame pieces concatenates to a whole number of frames -/
theorem flatten_whole (nch : Nat) : ∀ (calls : List (List Int)),
    (∀ c ∈ calls, c.length % nch = 0) → calls.flatten.length % nch = 0
  | [], _ => by simp
  | c :: cs, h => by
    have h1 := h c List.mem_cons_self
    have h2 := flatten_whole nch cs (fun d hd => h d (List.mem_cons_of_mem _ hd))
    rw [List.flatten_cons, List.length_append, Nat.add_mod, h1, h2]
    simp

/-- **de-interleaving commutes with batching**: channel `i`'s samples of the reads, concatenated, are
channel `i`'s samples of the concatenated payload stream — provided every read is a whole number of
frames -/
theorem demuxChan_flatten (nch i : Nat) (wide : Bool) (hi : i < nch) :
    ∀ (calls : List (List Int)), (∀ c ∈ calls, c.length % nch = 0) →
      (calls.map (demuxChan nch i wide)).flatten = demuxChan nch i wide calls.flatten
  | [], _ => by
    have : ([] : List Int).length / nch = 0 := by simp
    simp [demuxChan]
  | c :: cs, h => by
    have h1 := h c List.mem_cons_self
    have ih := demuxChan_flatten nch i wide hi cs (fun d hd => h d (List.mem_cons_of_mem _ hd))
    rw [List.map_cons, List.flatten_cons, List.flatten_cons, ih, demuxChan_append nch i wide hi c _ h1]

/-- **A2 — batching independence of a channel group.**  For any option set (unwrapping on or off,
rescaling on or off, any inversion list), any group position `first`, any channel `i` of an
`nch`-channel group and either payload width: two batchings of the same frame-major payload stream
into reads of whole frames give channel `i` the same concatenated output (and the constructor panics
for both or for neither).  The whole-frame hypothesis is what `demuxData` is given: packets carry
whole frames. -/
theorem group_stream_batching_independent (o : GOpts) (first nch i : Nat) (wide : Bool)
    (calls₁ calls₂ : List (List Int)) (hi : i < nch)
    (h : calls₁.flatten = calls₂.flatten)
    (hw₁ : ∀ c ∈ calls₁, c.length % nch = 0) (hw₂ : ∀ c ∈ calls₂, c.length % nch = 0) :
    (groupChan o first nch i wide calls₁).map List.flatten =
      (groupChan o first nch i wide calls₂).map List.flatten := by
  unfold groupChan
  cases groupMk o first i with
  | none => rfl
  | some ps =>
    obtain ⟨p, s0⟩ := ps
    simp only [Option.map_some]
    congr 1
    apply (runCalls_batching_independent p s0 _ _ ?_).1
    rw [demuxChan_flatten nch i wide hi calls₁ hw₁, demuxChan_flatten nch i wide hi calls₂ hw₂, h]

/-- in particular every batching gives what ONE read of the whole stream gives -/
theorem group_stream_is_one_read (o : GOpts) (first nch i : Nat) (wide : Bool)
    (calls : List (List Int)) (hi : i < nch) (hw : ∀ c ∈ calls, c.length % nch = 0) :
    (groupChan o first nch i wide calls).map List.flatten =
      (groupChan o first nch i wide [calls.flatten]).map List.flatten :=
  group_stream_batching_independent o first nch i wide calls [calls.flatten] hi (by simp) hw
    (fun c hc => by
      rw [List.mem_singleton.mp hc]
      exact flatten_whole nch calls hw)

/-- the whole-frame hypothesis cannot be dropped: cutting a 2-channel stream in the middle of a frame
changes what channel 1 receives (`demuxData` would mis-assign the samples) -/
theorem group_partial_frame_counterexample :
    let o : GOpts := { rescale := false, unwrap := false, bias := false, reset := 1, sign := 1, inv := [] }
    ([[1, 2, 3], [4]] : List (List Int)).flatten = [[1, 2], [3, 4]].flatten ∧
    (groupChan o 0 2 1 false [[1, 2, 3], [4]]).map List.flatten ≠
      (groupChan o 0 2 1 false [[1, 2], [3, 4]]).map List.flatten := by
  decide

/-- Non-vacuity: an enabled, inverting, biased group away from channel 0; two whole-frame batchings of
one 3-frame stream (an empty read included) meet the hypotheses, and the common output is the one
`Props/C12` computes for the first batching. -/
example :
    let o : GOpts := { rescale := true, unwrap := true, bias := true, reset := 3, sign := -1, inv := [9, 0] }
    let a : List (List Int) := [[100, 200, 300, 400], [500, 600]]
    let b : List (List Int) := [[100, 200], [], [300, 400, 500, 600]]
    (1 < 2) ∧ a.flatten = b.flatten ∧ (∀ c ∈ a, c.length % 2 = 0) ∧ (∀ c ∈ b, c.length % 2 = 0) ∧
    (groupChan o 8 2 1 false b).map List.flatten = some [57331, 57318, 57306] := by
  decide

end DastardV.C12
