/-
Edge-multi, locality: the search on the retained buffer (a suffix `G.drop k` of the delivered
stream, first frame `f0 + k`) finds exactly what the search on the whole stream `G` finds.
-/
import DastardV.Lemmas.Emt
import DastardV.Lemmas.EdgeGlobal
namespace DastardV.Trig

theorem monoRun_drop (G : List Nat) (k : Nat) (rising : Bool) (i maxN : Int) (hi : 1 ≤ i) :
    ∀ (n : Nat) (j : Int), (maxN - j).toNat ≤ n → 1 ≤ j →
      monoRun (G.drop k) rising i maxN j = monoRun G rising (k + i) maxN j := by
  intro n
  induction n with
  | zero =>
    intro j hn hj
    conv => lhs; rw [monoRun]
    conv => rhs; rw [monoRun]
    rw [rd_drop G k (i + j) (by omega), rd_drop G k (i + j - 1) (by omega)]
    rw [show (k : Int) + (i + j) = k + i + j by omega, show (k : Int) + (i + j - 1) = k + i + j - 1 by omega]
    have : j ≥ maxN := by omega
    split <;> simp [this]
  | succ n ih =>
    intro j hn hj
    conv => lhs; rw [monoRun]
    conv => rhs; rw [monoRun]
    rw [rd_drop G k (i + j) (by omega), rd_drop G k (i + j - 1) (by omega)]
    rw [show (k : Int) + (i + j) = k + i + j by omega, show (k : Int) + (i + j - 1) = k + i + j - 1 by omega]
    split
    · dsimp only
      split
      · rfl
      · rename_i hcont
        have hjlt : j < maxN := by
          simp only [Bool.or_eq_true, Bool.not_eq_true', decide_eq_true_eq, not_or] at hcont
          omega
        exact ih (j + 1) (by omega) (by omega)
    · rfl

theorem ztApply_drop (G : List Nat) (k : Nat) (f0 : Int) (zt : ZT) (ezt : Bool) (i : Int)
    (h4 : ezt = true → 4 ≤ i) :
    ztApply (G.drop k) (f0 + k) zt ezt i = (ztApply G f0 zt ezt (k + i)).map (fun x => x - (k : Int)) := by
  unfold ztApply
  cases ezt with
  | false => simp; omega
  | true =>
    have := h4 rfl
    simp only [Bool.not_true, Bool.false_eq_true, if_false]
    rw [rd_drop G k (i - 4) (by omega), rd_drop G k (i + 3) (by omega)]
    rw [show (k : Int) + (i - 4) = k + i - 4 by omega, show (k : Int) + (i + 3) = k + i + 3 by omega]
    split
    · simp only [Option.map_some, Option.some.injEq]
      rw [show f0 + (k : Int) + i = f0 + (k + i) by omega]
      omega
    · simp

/-- shift a search result from whole-stream indices to buffer indices -/
def Found.shift (k : Int) (x : Found) : Found :=
  { trig := if x.found then x.trig - k else x.trig, found := x.found, nextI := x.nextI - k }

theorem findNext_drop (G : List Nat) (k : Nat) (f0 : Int) (zt : ZT) (iFirst iLast thr nmono maxN : Int) (ezt : Bool) :
    ∀ (n : Nat) (i : Int), (iLast + 1 - i).toNat ≤ n → 1 ≤ i → (ezt = true → 4 ≤ i) →
      findNext (G.drop k) (f0 + k) zt iFirst iLast thr nmono maxN ezt i =
        (findNext G f0 zt (k + iFirst) (k + iLast) thr nmono maxN ezt (k + i)).map (Found.shift k) := by
  intro n
  induction n with
  | zero =>
    intro i hn h1 h4
    have h1' : ¬ i ≤ iLast := by omega
    have h2' : ¬ (k : Int) + i ≤ k + iLast := by omega
    conv => lhs; rw [findNext]
    conv => rhs; rw [findNext]
    simp only [h1', h2', if_false, Option.map_some, Option.some.injEq, Found.shift]
    simp only [Bool.false_eq_true, if_false]
    congr 1
    split <;> split <;> omega
  | succ n ih =>
    intro i hn h1 h4
    conv => lhs; rw [findNext]
    conv => rhs; rw [findNext]
    by_cases hle : i ≤ iLast
    · have hle' : (k : Int) + i ≤ k + iLast := by omega
      simp only [hle, hle', if_true]
      rw [rd_drop G k i (by omega), rd_drop G k (i - 1) (by omega)]
      rw [show (k : Int) + (i - 1) = k + i - 1 by omega]
      have ihn := ih (i + 1) (by omega) (by omega) (fun he => by have := h4 he; omega)
      rw [show (k : Int) + (i + 1) = k + i + 1 by omega] at ihn
      split
      · split
        · rw [monoRun_drop G k _ i maxN h1 _ 1 (Nat.le_refl _) (by omega)]
          split
          · rfl
          · split
            · rw [ztApply_drop G k f0 zt ezt i h4]
              cases hzz : ztApply G f0 zt ezt (↑k + i) with
              | none => simp
              | some t =>
                simp only [Option.map_some, Found.shift, if_true, Option.some.injEq, Found.mk.injEq, true_and, and_true]
                omega
            · exact ihn
        · exact ihn
      · rfl
    · have hle' : ¬ (k : Int) + i ≤ k + iLast := by omega
      simp only [hle, hle', if_false, Option.map_some, Option.some.injEq, Found.shift]
      simp only [Bool.false_eq_true, if_false]
      congr 1
      split <;> split <;> omega

end DastardV.Trig
