/-
C17 — `skeleton_ok` (Lemmas/C17Skel.lean), part A: arithmetic of the id encoding.  Core Lean only.

Tokens are triples: `tk cls idx share = (idx*16+cls)*2+share` with `cls < 16`, `share < 2`; `clsT`, `idxT`,
`shT` decode a token.  A token set is a predicate on triples (`TS`), written with linear arithmetic only, so
that every inclusion between token sets is decided by `omega` (after a case split on the class).
-/
import DastardV.Model.C17Skel
import DastardV.Lemmas.C17TypedA
import DastardV.Lemmas.C17SkelAttr
namespace DastardV.C17

def clsT (k : Nat) : Nat := (k / 2) % 16
def idxT (k : Nat) : Nat := (k / 2) / 16
def shT (k : Nat) : Nat := k % 2

theorem clsT_lt (k : Nat) : clsT k < 16 := by unfold clsT; omega
theorem shT_lt (k : Nat) : shT k < 2 := by unfold shT; omega

theorem clsT_tk {c i s : Nat} (hc : c < 16) (hs : s < 2) : clsT (tk c i s) = c := by
  unfold clsT tk enc; omega
theorem idxT_tk {c i s : Nat} (hc : c < 16) (hs : s < 2) : idxT (tk c i s) = i := by
  unfold idxT tk enc; omega
theorem shT_tk {c i s : Nat} (hs : s < 2) : shT (tk c i s) = s := by
  unfold shT tk enc; omega
theorem tk_dec (k : Nat) : tk (clsT k) (idxT k) (shT k) = k := by
  show @Eq Nat (tk (clsT k) (idxT k) (shT k)) k
  unfold clsT idxT shT tk enc; omega

theorem tk_inj {c i s c' i' s' : Nat} (hc : c < 16) (hs : s < 2) (hc' : c' < 16) (hs' : s' < 2)
    (h : tk c i s = tk c' i' s') : c = c' ∧ i = i' ∧ s = s' := by
  have h : @Eq Nat (tk c i s) (tk c' i' s') := h
  unfold tk enc at h; omega

theorem eq_tk_iff {c i s : Nat} (hc : c < 16) (hs : s < 2) (k : Nat) :
    k = tk c i s ↔ clsT k = c ∧ idxT k = i ∧ shT k = s := by
  show @Eq Nat k (tk c i s) ↔ _
  unfold clsT idxT shT tk enc; omega

theorem clsOf_enc {c i : Nat} (hc : c < 16) : clsOf (enc c i) = c := by unfold clsOf enc; omega
theorem idxOf_enc {c i : Nat} (hc : c < 16) : idxOf (enc c i) = i := by unfold idxOf enc; omega
theorem enc_dec (x : Nat) : enc (clsOf x) (idxOf x) = x := by unfold clsOf idxOf enc; omega
theorem clsOf_lt (x : Nat) : clsOf x < 16 := by unfold clsOf; omega

theorem enc_inj {c i c' i' : Nat} (hc : c < 16) (hc' : c' < 16) (h : enc c i = enc c' i') : c = c' ∧ i = i' := by
  unfold enc at h; omega

theorem eq_enc_iff {c i : Nat} (hc : c < 16) (x : Nat) : x = enc c i ↔ clsOf x = c ∧ idxOf x = i := by
  unfold clsOf idxOf enc; omega

/-- `b * n + i` with `i < n` determines `b` and `i` -/
theorem mul_add_div {b n i : Nat} (h : i < n) : (b * n + i) / n = b := by
  have hn : 0 < n := by omega
  rw [Nat.add_comm, Nat.add_mul_div_right _ _ hn, Nat.div_eq_of_lt h, Nat.zero_add]

theorem mul_add_mod {b n i : Nat} (h : i < n) : (b * n + i) % n = i := by
  rw [Nat.add_comm, Nat.add_mul_mod_self_right, Nat.mod_eq_of_lt h]

theorem mul_add_inj {b n i b' i' : Nat} (h : i < n) (h' : i' < n) (e : b * n + i = b' * n + i') :
    b = b' ∧ i = i' := by
  constructor
  · have := congrArg (· / n) e
    simpa only [mul_add_div h, mul_add_div h'] using this
  · have := congrArg (· % n) e
    simpa only [mul_add_mod h, mul_add_mod h'] using this

theorem div_mul_add_mod (x n : Nat) : x / n * n + x % n = x := by
  rw [Nat.mul_comm]; exact Nat.div_add_mod x n

/-! ### token sets -/

abbrev TS := Nat → Nat → Nat → Prop

/-- the list `ks` is (as a set) the token set `A` -/
def Rep (ks : List Tok) (A : TS) : Prop := ∀ k, k ∈ ks ↔ A (clsT k) (idxT k) (shT k)

/-- `H` contains the token set `P` -/
def Holds (H : List Tok) (P : TS) : Prop := ∀ k, P (clsT k) (idxT k) (shT k) → k ∈ H

/-- inclusion of token sets (on well-formed triples) -/
def Sub (P Q : TS) : Prop := ∀ c i s, c < 16 → s < 2 → P c i s → Q c i s

theorem Holds.tk {H : List Tok} {P : TS} (h : Holds H P) {c i s : Nat} (hc : c < 16) (hs : s < 2)
    (hp : P c i s) : tk c i s ∈ H := by
  apply h; rw [clsT_tk hc hs, idxT_tk hc hs, shT_tk hs]; exact hp

theorem Holds.mono {H : List Tok} {P Q : TS} (h : Holds H P) (hs : Sub Q P) : Holds H Q :=
  fun k hk => h k (hs _ _ _ (clsT_lt k) (shT_lt k) hk)

theorem Rep.nil : Rep [] (fun _ _ _ => False) := fun k => by simp

/-- case split on the class of a token -/
theorem forall_cls {p : Nat → Prop} (h0 : p 0) (h1 : p 1) (h2 : p 2) (h3 : p 3) (h4 : p 4) (h5 : p 5) (h6 : p 6)
    (h7 : p 7) (h8 : p 8) (h9 : p 9) (h10 : p 10) (h11 : p 11) (h12 : p 12) (h13 : p 13) (h14 : p 14)
    (h15 : p 15) : ∀ c, c < 16 → p c := by
  intro c hc
  match c, hc with
  | 0, _ => exact h0 | 1, _ => exact h1 | 2, _ => exact h2 | 3, _ => exact h3 | 4, _ => exact h4
  | 5, _ => exact h5 | 6, _ => exact h6 | 7, _ => exact h7 | 8, _ => exact h8 | 9, _ => exact h9
  | 10, _ => exact h10 | 11, _ => exact h11 | 12, _ => exact h12 | 13, _ => exact h13 | 14, _ => exact h14
  | 15, _ => exact h15
  | n + 16, h => exact absurd h (by omega)

end DastardV.C17
