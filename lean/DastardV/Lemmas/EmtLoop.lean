/-
Edge-multi scan loop (`emtLoop`): on the retained buffer it does what it does on the whole
stream (shift); data arriving later does not change what was decided (prefix stability);
a scan up to `iLast2` is the scan up to `iLast1 ≤ iLast2` continued (split).
-/
import DastardV.Lemmas.EmtScan
namespace DastardV.Trig

/-! ### prefix stability: later data do not change the search below the look-ahead -/

theorem monoRun_append (G ext : List Nat) (rising : Bool) (i maxN : Int) (hlen : i + maxN < G.length) :
    ∀ (n : Nat) (j : Int), (maxN - j).toNat ≤ n → j ≤ maxN →
      monoRun (G ++ ext) rising i maxN j = monoRun G rising i maxN j := by
  intro n
  induction n with
  | zero =>
    intro j hn hjm
    conv => lhs; rw [monoRun]
    conv => rhs; rw [monoRun]
    rw [rd_append_left G ext (i + j) (by omega), rd_append_left G ext (i + j - 1) (by omega)]
    have : j ≥ maxN := by omega
    split <;> simp [this]
  | succ n ih =>
    intro j hn hjm
    conv => lhs; rw [monoRun]
    conv => rhs; rw [monoRun]
    rw [rd_append_left G ext (i + j) (by omega), rd_append_left G ext (i + j - 1) (by omega)]
    split
    · dsimp only
      split
      · rfl
      · rename_i hcont
        have hjlt : j < maxN := by
          simp only [Bool.or_eq_true, Bool.not_eq_true', decide_eq_true_eq, not_or] at hcont
          omega
        exact ih (j + 1) (by omega) (by omega)
    · rfl

theorem ztApply_append (G ext : List Nat) (first : Int) (zt : ZT) (ezt : Bool) (i : Int)
    (hlen : i + 3 < G.length) : ztApply (G ++ ext) first zt ezt i = ztApply G first zt ezt i := by
  unfold ztApply
  rw [rd_append_left G ext (i - 4) (by omega), rd_append_left G ext (i + 3) hlen]

theorem findNext_append (G ext : List Nat) (first : Int) (zt : ZT) (iFp iLast thr nmono maxN : Int) (ezt : Bool)
    (hmax : 1 ≤ maxN) (hz : ezt = true → 3 ≤ maxN) (hlen : iLast + maxN < G.length) :
    ∀ (n : Nat) (i : Int), (iLast + 1 - i).toNat ≤ n →
      findNext (G ++ ext) first zt iFp iLast thr nmono maxN ezt i = findNext G first zt iFp iLast thr nmono maxN ezt i := by
  intro n
  induction n with
  | zero =>
    intro i hn
    have hle : ¬ i ≤ iLast := by omega
    conv => lhs; rw [findNext]
    conv => rhs; rw [findNext]
    simp only [hle, if_false]
  | succ n ih =>
    intro i hn
    conv => lhs; rw [findNext]
    conv => rhs; rw [findNext]
    by_cases hle : i ≤ iLast
    · simp only [hle, if_true]
      rw [rd_append_left G ext i (by omega), rd_append_left G ext (i - 1) (by omega)]
      have ihn := ih (i + 1) (by omega)
      split
      · split
        · rw [monoRun_append G ext _ i maxN (by omega) _ 1 (Nat.le_refl _) hmax]
          split
          · rfl
          · split
            · by_cases he : ezt = true
              · rw [ztApply_append G ext first zt ezt i (by have := hz he; omega)]
              · have he' : ezt = false := by simpa using he
                subst he'
                simp [ztApply]
            · exact ihn
        · exact ihn
      · rfl
    · simp only [hle, if_false]

theorem emtLoop_append (G ext : List Nat) (first : Int) (zt : ZT) (s : EMT) (iLast maxN : Int)
    (hmax : 1 ≤ maxN) (hz : s.enableZT = true → 3 ≤ maxN) (hlen : iLast + maxN < G.length) :
    ∀ (n : Nat) (iFirst t u v : Int) (acc : List Spec), (iLast + maxN + 2 - iFirst).toNat ≤ n →
      emtLoop (G ++ ext) first zt s iLast maxN iFirst t u v acc = emtLoop G first zt s iLast maxN iFirst t u v acc := by
  intro n
  induction n with
  | zero =>
    intro iFirst t u v acc hn
    conv => lhs; rw [emtLoop]
    conv => rhs; rw [emtLoop]
    rw [findNext_append G ext first zt iFirst iLast s.threshold s.nmonotone maxN s.enableZT hmax hz hlen _ iFirst (Nat.le_refl _)]
    split
    · rfl
    · split
      · rfl
      · split
        · rename_i hg; omega
        · rfl
  | succ n ih =>
    intro iFirst t u v acc hn
    conv => lhs; rw [emtLoop]
    conv => rhs; rw [emtLoop]
    rw [findNext_append G ext first zt iFirst iLast s.threshold s.nmonotone maxN s.enableZT hmax hz hlen _ iFirst (Nat.le_refl _)]
    split
    · rfl
    · split
      · rfl
      · split
        · rename_i hg
          exact ih _ _ _ _ _ (by omega)
        · rfl

/-! ### split of a scan at an intermediate limit -/

theorem findNext_notfound (raw : List Nat) (first : Int) (zt : ZT) (iFp iLast thr nmono maxN : Int) (ezt : Bool) :
    ∀ (n : Nat) (i : Int) (x : Found), (iLast + 1 - i).toNat ≤ n →
      findNext raw first zt iFp iLast thr nmono maxN ezt i = some x → x.found = false →
      x.nextI = (if iLast + 1 ≥ iFp then iLast + 1 else iFp) := by
  intro n
  induction n with
  | zero =>
    intro i x hn h _
    have hle : ¬ i ≤ iLast := by omega
    rw [findNext] at h
    simp only [hle, if_false, Option.some.injEq] at h
    subst h; rfl
  | succ n ih =>
    intro i x hn h hf
    rw [findNext] at h
    by_cases hle : i ≤ iLast
    · simp only [hle, if_true] at h
      split at h
      · split at h
        · split at h
          · simp at h
          · split at h
            · split at h
              · simp only [Option.some.injEq] at h; subst h; simp at hf
              · simp at h
            · exact ih (i + 1) x (by omega) h hf
        · exact ih (i + 1) x (by omega) h hf
      · simp at h
    · simp only [hle, if_false, Option.some.injEq] at h
      subst h; rfl

/-- when the scan up to `iLast1` found nothing, the scan up to `iLast2` may resume where it stopped -/
theorem emtLoop_resume (G : List Nat) (first : Int) (zt : ZT) (s : EMT) (iLast1 iLast2 maxN : Int)
    (h12 : iLast1 ≤ iLast2) (hmax : 1 ≤ maxN) (iFirst t u v : Int) (acc : List Spec) (x : Found)
    (hx : findNext G first zt iFirst iLast1 s.threshold s.nmonotone maxN s.enableZT iFirst = some x)
    (hnf : x.found = false) :
    emtLoop G first zt s iLast2 maxN iFirst t u v acc = emtLoop G first zt s iLast2 maxN x.nextI t u v acc := by
  have hN := findNext_notfound G first zt iFirst iLast1 s.threshold s.nmonotone maxN s.enableZT _ iFirst x (Nat.le_refl _) hx hnf
  generalize hNdef : (if iLast1 + 1 ≥ iFirst then iLast1 + 1 else iFirst) = N at hN
  have hNge : iFirst ≤ N := by rw [← hNdef]; split <;> omega
  have hskip := findNext_skip G first zt iFirst iFirst iLast1 iLast2 s.threshold s.nmonotone maxN s.enableZT h12 _ iFirst x
    (Nat.le_refl _) hx hnf
  have hsame : (if iFirst ≤ iLast1 then iLast1 + 1 else iFirst) = N := by
    rw [← hNdef]
    by_cases h1 : iFirst ≤ iLast1
    · have h2 : iLast1 + 1 ≥ iFirst := by omega
      simp only [h1, h2, if_true]
    · by_cases h2 : iLast1 + 1 ≥ iFirst
      · simp only [h1, h2, if_true, if_false]; omega
      · simp only [h1, h2, if_false]
  rw [hsame] at hskip
  have hcond : (if iLast2 + 1 ≥ iFirst then iLast2 + 1 else iFirst) = (if iLast2 + 1 ≥ N then iLast2 + 1 else N) := by
    rw [← hNdef]
    by_cases h2 : iLast1 + 1 ≥ iFirst
    · have h3 : iLast2 + 1 ≥ iFirst := by omega
      have h4 : iLast2 + 1 ≥ iLast1 + 1 := by omega
      simp only [h2, h3, h4, if_true]
    · simp only [h2, if_false]
  have hpar := findNext_param G first zt iFirst N iLast2 s.threshold s.nmonotone maxN s.enableZT hcond _ N (Nat.le_refl _)
  rw [hN]
  conv => lhs; rw [emtLoop]
  conv => rhs; rw [emtLoop]
  rw [hskip, hpar]
  cases hy : findNext G first zt N iLast2 s.threshold s.nmonotone maxN s.enableZT N with
  | none => rfl
  | some y =>
    dsimp only
    by_cases hyf : y.found = true
    · simp only [hyf, Bool.not_true, Bool.false_eq_true, if_false]
      obtain ⟨j, hj1, hj2, hj3, hj4, _⟩ := (findNext_result G first zt N iLast2 s.threshold s.nmonotone maxN s.enableZT hmax _ N y
        (Nat.le_refl _) hy).1 hyf
      have g1 : iFirst < y.nextI ∧ y.nextI ≤ iLast2 + maxN + 1 := by omega
      have g2 : N < y.nextI ∧ y.nextI ≤ iLast2 + maxN + 1 := by omega
      simp only [g1, g2, and_self, dite_true]
    · have hyf' : y.found = false := by simpa using hyf
      simp only [hyf', Bool.not_false, if_true]

/-- scanning up to `iLast2` = scanning up to `iLast1 ≤ iLast2`, then continuing from where that stopped -/
theorem emtLoop_split (G : List Nat) (first : Int) (zt : ZT) (s : EMT) (iLast1 iLast2 maxN : Int)
    (h12 : iLast1 ≤ iLast2) (hmax : 1 ≤ maxN) :
    ∀ (n : Nat) (iFirst t u v : Int) (acc : List Spec) (r : Int × Int × Int × Int × List Spec),
      (iLast1 + maxN + 2 - iFirst).toNat ≤ n →
      emtLoop G first zt s iLast1 maxN iFirst t u v acc = some r →
      emtLoop G first zt s iLast2 maxN iFirst t u v acc =
        emtLoop G first zt s iLast2 maxN r.1 r.2.1 r.2.2.1 r.2.2.2.1 r.2.2.2.2 := by
  intro n
  induction n with
  | zero =>
    intro iFirst t u v acc r hn h
    rw [emtLoop] at h
    split at h
    · simp at h
    · rename_i x hx
      split at h
      · rename_i hnf
        simp only [Option.some.injEq] at h
        subst h
        exact emtLoop_resume G first zt s iLast1 iLast2 maxN h12 hmax iFirst t u v acc x hx (by simpa using hnf)
      · split at h
        · rename_i hg; omega
        · simp at h
  | succ n ih =>
    intro iFirst t u v acc r hn h
    rw [emtLoop] at h
    split at h
    · simp at h
    · rename_i x hx
      split at h
      · rename_i hnf
        simp only [Option.some.injEq] at h
        subst h
        exact emtLoop_resume G first zt s iLast1 iLast2 maxN h12 hmax iFirst t u v acc x hx (by simpa using hnf)
      · rename_i hfnd
        have hf : x.found = true := by simpa using hfnd
        split at h
        · rename_i hg
          have hx2 := findNext_found_mono G first zt iFirst iLast1 iLast2 s.threshold s.nmonotone maxN s.enableZT h12 _ iFirst x
            (Nat.le_refl _) hx hf
          have ihr := ih x.nextI u v (x.trig + first) _ r (by omega) h
          conv => lhs; rw [emtLoop]
          rw [hx2]
          dsimp only
          simp only [hf, Bool.not_true, Bool.false_eq_true, if_false]
          have g2 : iFirst < x.nextI ∧ x.nextI ≤ iLast2 + maxN + 1 := by omega
          simp only [g2, and_self, dite_true]
          exact ihr
        · simp at h

/-! ### shift: the loop on the retained buffer = the loop on the whole stream -/

/-- shift the position component of a loop result from whole-stream to buffer indices -/
def shiftRes (k : Int) (r : Int × Int × Int × Int × List Spec) : Int × Int × Int × Int × List Spec :=
  (r.1 - k, r.2)

theorem emtLoop_drop (G : List Nat) (k : Nat) (f0 : Int) (zt : ZT) (s : EMT) (iLast maxN : Int) :
    ∀ (n : Nat) (iFirst t u v : Int) (acc : List Spec), (iLast + maxN + 2 - iFirst).toNat ≤ n →
      1 ≤ iFirst → (s.enableZT = true → 4 ≤ iFirst) →
      emtLoop (G.drop k) (f0 + k) zt s iLast maxN iFirst t u v acc =
        (emtLoop G f0 zt s (k + iLast) maxN (k + iFirst) t u v acc).map (shiftRes k) := by
  intro n
  induction n with
  | zero =>
    intro iFirst t u v acc hn h1 h4
    conv => lhs; rw [emtLoop]
    conv => rhs; rw [emtLoop]
    rw [findNext_drop G k f0 zt iFirst iLast s.threshold s.nmonotone maxN s.enableZT _ iFirst (Nat.le_refl _) h1 h4]
    cases hx : findNext G f0 zt (k + iFirst) (k + iLast) s.threshold s.nmonotone maxN s.enableZT (k + iFirst) with
    | none => rfl
    | some x =>
      simp only [Option.map_some, Found.shift]
      by_cases hf : x.found = true
      · simp only [hf, Bool.not_true, Bool.false_eq_true, if_false, if_true]
        have g1 : ¬(iFirst < x.nextI - k ∧ x.nextI - k ≤ iLast + maxN + 1) := by omega
        have g2 : ¬((k : Int) + iFirst < x.nextI ∧ x.nextI ≤ k + iLast + maxN + 1) := by omega
        simp only [g1, g2, dite_false, Option.map_none]
      · have hf' : x.found = false := by simpa using hf
        simp only [hf', Bool.not_false, if_true, Option.map_some, shiftRes, Bool.false_eq_true, if_false]
  | succ n ih =>
    intro iFirst t u v acc hn h1 h4
    conv => lhs; rw [emtLoop]
    conv => rhs; rw [emtLoop]
    rw [findNext_drop G k f0 zt iFirst iLast s.threshold s.nmonotone maxN s.enableZT _ iFirst (Nat.le_refl _) h1 h4]
    cases hx : findNext G f0 zt (k + iFirst) (k + iLast) s.threshold s.nmonotone maxN s.enableZT (k + iFirst) with
    | none => rfl
    | some x =>
      simp only [Option.map_some, Found.shift]
      by_cases hf : x.found = true
      · simp only [hf, Bool.not_true, Bool.false_eq_true, if_false, if_true]
        by_cases g2 : (k : Int) + iFirst < x.nextI ∧ x.nextI ≤ k + iLast + maxN + 1
        · have g1 : iFirst < x.nextI - k ∧ x.nextI - k ≤ iLast + maxN + 1 := by omega
          simp only [g1, g2, and_self, dite_true]
          have ihr := ih (x.nextI - k) u v (x.trig - k + (f0 + k))
            (match shouldRecord u v (x.trig - k + (f0 + k)) s.npre s.nsamp s.mode with
              | some sp => acc ++ [sp]
              | none => acc) (by omega) (by omega) (fun he => by have := h4 he; omega)
          rw [show (k : Int) + (x.nextI - k) = x.nextI by omega] at ihr
          rw [show x.trig - (k : Int) + (f0 + k) = x.trig + f0 by omega] at ihr
          rw [show x.trig - (k : Int) + (f0 + k) = x.trig + f0 by omega]
          exact ihr
        · have g1 : ¬(iFirst < x.nextI - k ∧ x.nextI - k ≤ iLast + maxN + 1) := by omega
          simp only [g1, g2, dite_false, Option.map_none]
      · have hf' : x.found = false := by simpa using hf
        simp only [hf', Bool.not_false, if_true, Option.map_some, shiftRes, Bool.false_eq_true, if_false]

end DastardV.Trig