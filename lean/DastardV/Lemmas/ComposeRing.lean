/-
Ring → packets (C18 ∘ C15 ∘ C03): the packets `AbacoRing.ReadAllPackets` hands to the ingest are the packets
the producer wrote into the shared-memory ring, in order, none lost, repeated, split or altered.

* A. decoder facts: `decodeC_append` (trailing bytes are never looked at), `decodeC_plen` (the declared length
  of a decoded packet is header length + payload length of the fixed header), `enc_len`/`enc_rt` (for a
  constructible packet the declared length of the decoded packet is the number of bytes of the encoding).
* B. `readPlusPad_slot`: `ReadPacketPlusPad` on a slot (encoding + zero padding to the stride) followed by
  anything returns the packet and consumes exactly the slot.
* C. `readAll_slots`: one ring read that consists of whole slots yields exactly the packets, no error.
* D. `ring_packets_fifo`: producer/consumer histories on a ring of any size with any stride.
-/
import DastardV.Model.RingPackets
import DastardV.Props.C15
import DastardV.Props.C18
import DastardV.Lemmas.ComposePackets
namespace DastardV.RingPk
open C15

/-! ### A1. trailing bytes are never looked at -/

theorem words_append (w : Nat) (big : Bool) (n : Nat) : ∀ (bs extra : List Nat), w * n ≤ bs.length →
    words w big n (bs ++ extra) = words w big n bs := by
  induction n with
  | zero => intro bs extra _; rfl
  | succ n ih =>
    intro bs extra h
    have hw : w ≤ bs.length := by rw [Nat.mul_succ] at h; omega
    have hd : w * n ≤ (bs.drop w).length := by rw [Nat.mul_succ] at h; simp only [List.length_drop]; omega
    simp only [words]
    rw [List.take_append_of_le_length hw, List.drop_append_of_le_length hw, ih _ _ hd]

theorem readPayload_append (p : Packet) (rest extra : List Nat) (base : Nat) (q : Packet) (n : Nat)
    (h : readPayload p rest base = (.ok q, n)) : readPayload p (rest ++ extra) base = (.ok q, n) := by
  unfold readPayload at h ⊢
  split at h
  · exact h
  · rename_i f hf
    split at h
    · rename_i hz
      rw [if_pos hz]; exact h
    · rename_i hz
      rw [if_neg hz]
      simp only at h ⊢
      split at h
      · split at h
        · simp at h
        · rename_i hlen
          rw [if_neg (by simp only [List.length_append]; omega), words_append _ _ _ _ _ (by omega)]
          exact h
      · split at h
        · simp at h
        · rename_i hlen
          rw [if_neg (by simp only [List.length_append]; omega), words_append _ _ _ _ _ (by omega)]
          exact h
      · split at h
        · simp at h
        · rename_i hlen
          rw [if_neg (by simp only [List.length_append]; omega), words_append _ _ _ _ _ (by omega)]
          exact h
      · simp at h
      · split at h
        · simp at h
        · rename_i hlen
          rw [if_neg (by simp only [List.length_append]; omega),
              List.take_append_of_le_length (by omega)]
          exact h

/-- **prefix stability of `ReadPacket`**: whatever follows an accepted packet in the reader does not change
the result nor the number of bytes consumed -/
theorem decodeC_append (bs extra : List Nat) (q : Packet) (n : Nat) (h : decodeC bs = (.ok q, n)) :
    decodeC (bs ++ extra) = (.ok q, n) := by
  by_cases hlen : 16 ≤ bs.length
  · obtain ⟨v, hl, p0, p1, m0, m1, m2, m3, s0, s1, s2, s3, q0, q1, q2, q3, rest, rfl⟩ := exists_16 bs hlen
    simp only [List.cons_append]
    rw [decodeC_cons16] at h ⊢
    split at h
    · simp at h
    split at h
    · simp at h
    split at h
    · simp at h
    rename_i h16 hmagic hshort
    split at h
    · simp at h
    rename_i tlvs htl
    split at h
    · simp at h
    rename_i husable
    rw [if_neg h16, if_neg hmagic, if_neg (by simp only [List.length_append]; omega),
      List.take_append_of_le_length (by omega), List.drop_append_of_le_length (by omega), htl]
    simp only
    rw [if_neg husable]
    exact readPayload_append _ _ _ _ _ _ h
  · exfalso
    unfold decodeC at h
    split at h
    · simp at h
    · simp at hlen <;> omega
    · simp at h

/-! ### A2. declared length = bytes of the encoding -/

theorem fold_core (l : List TLV) : ∀ (p : Packet),
    (l.foldl applyTLV p).plen = p.plen ∧ (l.foldl applyTLV p).data = p.data := by
  induction l with
  | nil => intro p; exact ⟨rfl, rfl⟩
  | cons x r ih =>
    intro p
    rw [List.foldl_cons]
    have h := ih (applyTLV p x)
    have e : (applyTLV p x).plen = p.plen ∧ (applyTLV p x).data = p.data := by cases x <;> exact ⟨rfl, rfl⟩
    exact ⟨h.1.trans e.1, h.2.trans e.2⟩

/-- `Length()` of a packet that `ReadPacket` returned: header length + payload length as declared in the
fixed header (NOT the number of bytes consumed, see the examples at the end) -/
theorem decodeC_plen (bs : List Nat) (q : Packet) (n : Nat) (h : decodeC bs = (.ok q, n)) :
    length q = ((declared bs).1 : Int) + ((declared bs).2 : Nat) ∧ 16 ≤ bs.length := by
  by_cases hlen : 16 ≤ bs.length
  · refine ⟨?_, hlen⟩
    obtain ⟨v, hl, p0, p1, m0, m1, m2, m3, s0, s1, s2, s3, q0, q1, q2, q3, rest, rfl⟩ := exists_16 bs hlen
    rw [decodeC_cons16] at h
    split at h
    · simp at h
    split at h
    · simp at h
    split at h
    · simp at h
    split at h
    · simp at h
    rename_i tlvs htl
    split at h
    · simp at h
    obtain ⟨c1, c2⟩ := fold_core tlvs (basePacket v hl (be16 p0 p1) (be32 s0 s1 s2 s3) (be32 q0 q1 q2 q3))
    obtain ⟨⟨d, hq⟩, _⟩ := readPayload_ok _ _ _ _ _ h (by rw [c2]; rfl)
    simp only [declared, length]
    rw [hq]
    exact c1
  · exfalso
    unfold decodeC at h
    split at h
    · simp at h
    · simp at hlen <;> omega
    · simp at h

theorem encShape_length (sz : List Int) :
    (encShape sz).length = 8 * (1 + sz.length / 4) := by
  unfold encShape
  simp only [List.length_append, List.length_cons, List.length_nil, shapeBytes_length, List.length_replicate]
  omega

theorem declared_hdr (p : Packet) (tail : List Nat) (hpl : p.pl < 65536) :
    declared (hdrBytes p ++ tail) = (p.hl, p.pl) := by
  unfold hdrBytes
  rw [beBytes_two]
  simp only [List.cons_append, List.nil_append, declared]
  have : be16 (p.pl / 256 % 256) (p.pl % 256) = p.pl := by unfold be16; omega
  rw [this]

/-- the bytes `Bytes()` writes for a constructible packet: as many as header length + payload length, which
are the values in the fixed header -/
theorem enc_len (p : Packet) (g : Good p) (bs : List Nat) (he : encode p = .ok bs) :
    bs.length = p.hl + p.pl ∧ declared bs = (p.hl, p.pl) := by
  obtain ⟨hv, hs, hq, ho, hts, hb⟩ := g
  have hbl : baseLen p = 24 + (if p.ts.isSome then 16 else 0) := by
    unfold baseLen; split <;> rfl
  have htl : (encTS p.ts).length = (if p.ts.isSome then 16 else 0) := by
    cases p.ts with
    | none => rfl
    | some t => simp [encTS, beBytes_length]
  rcases hb with ⟨h1, h2, h3, h4, h5⟩ | ⟨dims, h1, h2, h3, h4, h5, h6, h7, h8, h9⟩
  · have henc : encode p = .ok (hdrBytes p ++ (([0x23, 1, 0, 0] ++ beBytes 4 p.offset) ++ encTS p.ts)) := by
      simp [encode, h1, hdrBytes]
    rw [henc] at he
    cases he
    refine ⟨?_, declared_hdr p _ (by omega)⟩
    simp only [List.length_append, hdrBytes_length, List.length_cons, List.length_nil, beBytes_length, htl]
    omega
  · have henc : encode p = .ok (hdrBytes p ++ ((([0x23, 1, 0, 0] ++ beBytes 4 p.offset) ++ (encTS p.ts ++
        (([0x21, 1] ++ padTo6 (fmtOf p.data).raw) ++ encShape dims))) ++
        unwords p.data.wsize false p.data.vals)) := by
      unfold encode
      rw [h4, h5]
      cases hd : p.data with
      | none => rw [hd] at h1; simp [Data.typed] at h1
      | raw _ => rw [hd] at h1; simp [Data.typed] at h1
      | i16 xs => simp [encPayload, fmtOf, Res.bind, hdrBytes, Data.wsize, Data.vals, List.append_assoc]
      | i32 xs => simp [encPayload, fmtOf, Res.bind, hdrBytes, Data.wsize, Data.vals, List.append_assoc]
      | i64 xs => simp [encPayload, fmtOf, Res.bind, hdrBytes, Data.wsize, Data.vals, List.append_assoc]
    rw [henc] at he
    cases he
    refine ⟨?_, declared_hdr p _ h9⟩
    have hvl : p.data.vals.length = p.data.len := by cases p.data <;> simp [Data.vals, Data.len]
    simp only [List.length_append, hdrBytes_length, List.length_cons, List.length_nil, beBytes_length, htl,
      padTo6_length, encShape_length dims, unwords_length, hvl]
    omega

/-- the bytes of a packet (`Bytes()`; `[]` if it panics — it does not for constructible packets) -/
def encB (p : Packet) : List Nat :=
  match encode p with
  | .ok bs => bs
  | .pan _ => []

/-- what `ReadPacket` returns for the bytes of `p` (`p` itself if it fails — it does not for constructible,
well-formed packets) -/
def rt (p : Packet) : Packet :=
  match decodeC (encB p) with
  | (.ok q, _) => q
  | _ => p

/-- the packets the ring carries: built through the public constructors, with a shape the wire format can
carry (the hypotheses of `C15_roundtrip`) -/
def Sendable (p : Packet) : Prop := Built p ∧ WF p

/-- A2: for a sendable packet the encoding decodes, whole, to `rt p`, whose `Length()` is the number of bytes
of the encoding (at least the 16 header bytes); `rt p` has the fields of `p` -/
theorem enc_rt (p : Packet) (h : Sendable p) :
    encode p = .ok (encB p) ∧ decodeC (encB p) = (.ok (rt p), (encB p).length) ∧
    length (rt p) = ((encB p).length : Int) ∧ 16 ≤ (encB p).length ∧
    (rt p).seq = p.seq ∧ (rt p).data.vals = p.data.vals ∧ (p.data.len = 0 ∨ (rt p).data.kind = p.data.kind) := by
  obtain ⟨bs, q, he, hd, _, _, hseq, _, _, hvals, hkind, _⟩ := C15_roundtrip_fields p h.1 h.2
  have e1 : encB p = bs := by unfold encB; rw [he]
  have e2 : rt p = q := by unfold rt; rw [e1, hd]
  rw [e1, e2]
  obtain ⟨hl, hdecl⟩ := enc_len p (built_good p h.1) bs he
  obtain ⟨hp, h16⟩ := decodeC_plen bs q _ hd
  refine ⟨he, hd, ?_, h16, hseq, hvals, hkind⟩
  rw [hp, hdecl, hl]
  simp

theorem rt_toIngest (p : Packet) (h : Sendable p) (hne : p.data.len ≠ 0) :
    Compose.toIngest (rt p) = Compose.toIngest p := by
  obtain ⟨_, _, _, _, hseq, hvals, hkind⟩ := enc_rt p h
  have hk : (rt p).data.kind = p.data.kind := by
    rcases hkind with h | h
    · exact absurd h hne
    · exact h
  simp only [Compose.toIngest, hseq, hvals, hk]

/-! ### B. `ReadPacketPlusPad` on a slot -/

theorem pad_eq (len stride : Nat) (hs : 1 ≤ stride) :
    (stride - len % stride) % stride = if len % stride = 0 then 0 else stride - len % stride := by
  have hm := Nat.mod_lt len (by omega : 0 < stride)
  split
  · rename_i h0; rw [h0, Nat.sub_zero, Nat.mod_self]
  · exact Nat.mod_eq_of_lt (by omega)

theorem slot_length (bs : List Nat) (stride : Nat) :
    (slot bs stride).length = bs.length + (stride - bs.length % stride) % stride := by
  simp [slot]

theorem slot_length_mod (bs : List Nat) (stride : Nat) (hs : 1 ≤ stride) :
    (slot bs stride).length % stride = 0 := by
  rw [slot_length, pad_eq _ _ hs]
  have hm := Nat.mod_lt bs.length (by omega : 0 < stride)
  have hd := Nat.div_add_mod bs.length stride
  split
  · rename_i h0; rw [Nat.add_zero]; exact h0
  · have e : bs.length + (stride - bs.length % stride) = stride * (bs.length / stride + 1) := by
      rw [Nat.mul_add, Nat.mul_one]; omega
    rw [e, Nat.mul_mod_right]

theorem slot_length_ge (bs : List Nat) (stride : Nat) : bs.length ≤ (slot bs stride).length := by
  rw [slot_length]; omega

/-- the general form: any byte string that decodes whole to a packet whose `Length()` is its number of bytes -/
theorem readPlusPad_slot_gen (bs : List Nat) (q : Packet) (hd : decodeC bs = (.ok q, bs.length))
    (hl : length q = (bs.length : Int)) (stride : Nat) (hs : 1 ≤ stride) (rest : List Nat) :
    readPlusPad (slot bs stride ++ rest) stride = (.ok q, (slot bs stride).length) := by
  have hm := Nat.mod_lt bs.length (by omega : 0 < stride)
  have hdec : decodeC (slot bs stride ++ rest) = (.ok q, bs.length) := by
    unfold slot; rw [List.append_assoc]; exact decodeC_append _ _ _ _ hd
  have hov : Int.tmod (length q) (stride : Int) = ((bs.length % stride : Nat) : Int) := by
    rw [hl]; exact (Int.ofNat_tmod _ _).symm
  unfold readPlusPad
  rw [hdec]
  simp only [hov]
  rw [slot_length, pad_eq _ _ hs]
  split
  · rename_i hpos
    have hne : bs.length % stride ≠ 0 := by omega
    rw [if_neg hne]
    have hp : ((stride : Int) - ((bs.length % stride : Nat) : Int)).toNat = stride - bs.length % stride := by omega
    rw [hp, if_neg]
    simp only [List.length_append, slot_length, pad_eq _ _ hs, if_neg hne]
    omega
  · rename_i hpos
    have h0 : bs.length % stride = 0 := by omega
    rw [if_pos h0, Nat.add_zero]

/-- B: `ReadPacketPlusPad` on the slot of a sendable packet followed by anything returns the packet and
consumes exactly the slot, which is a whole number of strides and holds the encoding -/
theorem readPlusPad_slot (p : Packet) (h : Sendable p) (stride : Nat) (hs : 1 ≤ stride) (rest : List Nat) :
    readPlusPad (slot (encB p) stride ++ rest) stride = (.ok (rt p), (slot (encB p) stride).length) ∧
    (slot (encB p) stride).length % stride = 0 ∧ (encB p).length ≤ (slot (encB p) stride).length := by
  obtain ⟨_, hd, hl, _⟩ := enc_rt p h
  exact ⟨readPlusPad_slot_gen _ _ hd hl stride hs rest, slot_length_mod _ _ hs, slot_length_ge _ _⟩

/-! ### C. one ring read made of whole slots -/

/-- the bytes the producer writes for a list of packets: one slot each -/
def slotsOf (stride : Nat) (ps : List Packet) : List Nat := (ps.map fun p => slot (encB p) stride).flatten

theorem slotsOf_nil (stride : Nat) : slotsOf stride [] = [] := rfl

theorem slotsOf_cons (stride : Nat) (p : Packet) (ps : List Packet) :
    slotsOf stride (p :: ps) = slot (encB p) stride ++ slotsOf stride ps := by
  simp [slotsOf]

theorem slotsOf_append (stride : Nat) (ps qs : List Packet) :
    slotsOf stride (ps ++ qs) = slotsOf stride ps ++ slotsOf stride qs := by
  simp [slotsOf]

theorem slotsOf_length_mod (stride : Nat) (hs : 1 ≤ stride) (ps : List Packet) :
    (slotsOf stride ps).length % stride = 0 := by
  induction ps with
  | nil => simp [slotsOf]
  | cons p r ih =>
    rw [slotsOf_cons, List.length_append, Nat.add_mod, slot_length_mod _ _ hs, ih]
    simp

theorem readPlusPad_nil (stride : Nat) : readPlusPad [] stride = (.error .eof, 0) := rfl

theorem readAllF_nil (f stride : Nat) : readAllF f [] stride = ([], none) := by
  cases f with
  | zero => rfl
  | succ f => rfl

theorem readAllF_slots (stride : Nat) (hs : 1 ≤ stride) (ps : List Packet) (hp : ∀ p ∈ ps, Sendable p) :
    ∀ f, (slotsOf stride ps).length < f → readAllF f (slotsOf stride ps) stride = (ps.map rt, none) := by
  induction ps with
  | nil => intro f _; rw [slotsOf_nil, readAllF_nil]; rfl
  | cons p r ih =>
    intro f hf
    have hsp := hp p (by simp)
    obtain ⟨hrp, _, hge⟩ := readPlusPad_slot p hsp stride hs (slotsOf stride r)
    have h16 := (enc_rt p hsp).2.2.2.1
    rw [slotsOf_cons] at hf ⊢
    cases f with
    | zero => simp at hf
    | succ f =>
      simp only [List.length_append] at hf
      have ihr := ih (fun x hx => hp x (by simp [hx])) f (by omega)
      simp only [readAllF, hrp, List.drop_left, ihr, List.map_cons]

/-- C: **one ring read that consists of whole slots yields exactly the packets that were written, in
order, and no error** -/
theorem readAll_slots (stride : Nat) (hs : 1 ≤ stride) (ps : List Packet) (hp : ∀ p ∈ ps, Sendable p) :
    readAll (slotsOf stride ps) stride = (ps.map rt, none) :=
  readAllF_slots stride hs ps hp _ (Nat.lt_succ_self _)

/-- the same seen by the ingest (packets with a payload, as in `wire_to_ingest`) -/
theorem readAll_slots_ingest (stride : Nat) (hs : 1 ≤ stride) (ps : List Packet)
    (hp : ∀ p ∈ ps, Sendable p ∧ p.data.len ≠ 0) :
    ∃ qs, readAll (slotsOf stride ps) stride = (qs, none) ∧
      qs.map Compose.toIngest = ps.map Compose.toIngest := by
  refine ⟨ps.map rt, readAll_slots stride hs ps (fun p h => (hp p h).1), ?_⟩
  rw [List.map_map]
  apply List.map_congr_left
  intro p h
  exact rt_toIngest p (hp p h).1 (hp p h).2

/-- the empty read -/
theorem readAll_nil (stride : Nat) : readAll [] stride = ([], none) := rfl

/-! ### D. producer/consumer histories on the ring -/

inductive Ev where
  | put (p : Packet)     -- the producer offers a packet
  | get                  -- the consumer calls `ReadAllPackets`

/-- free room of the ring as the producer computes it (`Write` accepts at most this many bytes) -/
def room (d : Dev) : Nat := d.rb.cap - 1 - (d.rb.w - d.rb.r)

structure St where
  d : Dev
  sent : List Packet      -- the packets written into the ring, in order
  seen : List Packet      -- `sent` at the time of the last get
  got : List Packet       -- the packets returned by all gets so far, in order
  ok : Bool               -- every write was accepted whole, every get succeeded with error nil

/-- The producer checks the free room first and SKIPS a packet whose slot does not fit (so every write
is a whole slot); the consumer calls `ReadAllPackets`. -/
def step (s : St) : Ev → St
  | .put p =>
    let sl := slot (encB p) s.d.stride
    if sl.length ≤ room s.d then
      match s.d.put sl with
      | (d', some n) => { s with d := d', sent := s.sent ++ [p], ok := s.ok && (n == sl.length) }
      | (_, none) => { s with ok := false }
    else s
  | .get =>
    match s.d.readAllPackets with
    | (d', some (qs, none)) => { s with d := d', got := s.got ++ qs, seen := s.sent }
    | (d', _) => { s with d := d', ok := false }

def run (s : St) (evs : List Ev) : St := evs.foldl step s

def St.init (cap stride : Nat) : St :=
  { d := { rb := C18.RB.create cap, stride := stride }, sent := [], seen := [], got := [], ok := true }

/-- the packets offered in a history -/
def puts : List Ev → List Packet
  | [] => []
  | .put p :: r => p :: puts r
  | .get :: r => puts r

structure RInv (cap stride : Nat) (s : St) : Prop where
  cap_eq : s.d.rb.cap = cap
  stride_eq : s.d.stride = stride
  ok : s.ok = true
  send : ∀ p ∈ s.sent, Sendable p
  pre : ∃ pend, s.sent = s.seen ++ pend
  rep : C18.Rep s.d.rb (slotsOf stride s.sent)
  r_eq : s.d.rb.r = (slotsOf stride s.seen).length
  got_eq : s.got = s.seen.map rt

theorem rinv_init (cap stride : Nat) (h2 : 2 ≤ cap) : RInv cap stride (St.init cap stride) :=
  ⟨rfl, rfl, rfl, by simp [St.init], ⟨[], rfl⟩, C18.rep_create cap h2, rfl, rfl⟩

theorem step_put (cap stride : Nat) (s : St) (hi : RInv cap stride s) (p : Packet) (hp : Sendable p) :
    RInv cap stride (step s (.put p)) := by
  obtain ⟨hcap, hstr, hok, hsend, ⟨pend, hpre⟩, hrep, hr, hgot⟩ := hi
  unfold step
  simp only
  split
  · rename_i hfit
    obtain ⟨b', n, hw, hn, hr', hc', hrep'⟩ := C18.write_spec s.d.rb _ hrep (slot (encB p) s.d.stride)
    have hn' : n = (slot (encB p) s.d.stride).length := by unfold room at hfit; omega
    have hput : s.d.put (slot (encB p) s.d.stride) = ({ s.d with rb := b' }, some n) := by
      unfold Dev.put; rw [hw]
    rw [hput]
    simp only
    refine ⟨hc'.trans hcap, hstr, ?_, ?_, ⟨pend ++ [p], by rw [hpre, List.append_assoc]⟩, ?_, hr'.trans hr, hgot⟩
    · rw [hok, hn']; simp
    · intro x hx
      rcases List.mem_append.mp hx with hx | hx
      · exact hsend x hx
      · simp only [List.mem_singleton] at hx; exact hx ▸ hp
    · rw [slotsOf_append, slotsOf_cons, slotsOf_nil, List.append_nil, ← hstr]
      rw [hn', List.take_length] at hrep'
      rw [hstr] at hrep' ⊢
      exact hrep'
  · exact ⟨hcap, hstr, hok, hsend, ⟨pend, hpre⟩, hrep, hr, hgot⟩

theorem step_get (cap stride : Nat) (hs : 1 ≤ stride) (hsc : stride < cap) (s : St) (hi : RInv cap stride s) :
    RInv cap stride (step s .get) ∧ (step s .get).seen = s.sent := by
  obtain ⟨hcap, hstr, hok, hsend, ⟨pend, hpre⟩, hrep, hr, hgot⟩ := hi
  have hW : slotsOf stride s.sent = slotsOf stride s.seen ++ slotsOf stride pend := by
    rw [hpre, slotsOf_append]
  have hw : s.d.rb.w = (slotsOf stride s.seen).length + (slotsOf stride pend).length := by
    rw [hrep.w_eq, hW, List.length_append]
  have hmod := slotsOf_length_mod stride hs pend
  have hdiff : s.d.rb.w - s.d.rb.r = (slotsOf stride pend).length := by omega
  have hmul : stride * ((s.d.rb.w - s.d.rb.r) / stride) = (slotsOf stride pend).length := by
    rw [hdiff]
    have := Nat.div_add_mod (slotsOf stride pend).length stride
    omega
  have hrm : C18.readMultipleOf s.d.rb s.d.stride
      = some (C18.read s.d.rb (((slotsOf stride pend).length : Nat) : Int)) := by
    rw [C18.readMult_eq _ _ hrep, hstr, if_neg (by omega), hmul]
  have hrs := C18.read_spec s.d.rb _ hrep (((slotsOf stride pend).length : Nat) : Int)
  simp only at hrs
  have hk : (min (((slotsOf stride pend).length : Nat) : Int) ((s.d.rb.w : Int) - s.d.rb.r)).toNat
      = (slotsOf stride pend).length := by omega
  rw [hk] at hrs
  obtain ⟨hbytes, hr2, _, hc2, hrep2⟩ := hrs
  have hbs : (C18.read s.d.rb (((slotsOf stride pend).length : Nat) : Int)).2 = slotsOf stride pend := by
    rw [hbytes, hW, hr, List.drop_left, List.take_length]
  have hall := readAll_slots stride hs pend (fun x hx => hsend x (by rw [hpre]; simp [hx]))
  unfold step
  simp only
  unfold Dev.readAllPackets
  rw [hrm]
  simp only [hbs, hstr, hall]
  refine ⟨⟨hc2.trans hcap, rfl, hok, hsend, ⟨[], by simp⟩, hrep2, ?_, ?_⟩, trivial⟩
  · show (C18.read s.d.rb _).1.r = _
    rw [hr2, hW, List.length_append, hr]
  · show s.got ++ pend.map rt = s.sent.map rt
    rw [hgot, hpre, List.map_append]

theorem puts_append (a b : List Ev) : puts (a ++ b) = puts a ++ puts b := by
  induction a with
  | nil => rfl
  | cons e r ih => cases e <;> simp [puts, ih]

theorem run_cons (s : St) (e : Ev) (evs : List Ev) : run s (e :: evs) = run (step s e) evs := rfl

theorem run_append (s : St) (a b : List Ev) : run s (a ++ b) = run (run s a) b := by
  unfold run; rw [List.foldl_append]

theorem run_rinv (cap stride : Nat) (hs : 1 ≤ stride) (hsc : stride < cap) (evs : List Ev) :
    ∀ s, RInv cap stride s → (∀ p ∈ puts evs, Sendable p) → RInv cap stride (run s evs) := by
  induction evs with
  | nil => intro s hi _; exact hi
  | cons e r ih =>
    intro s hi hp
    rw [run_cons]
    cases e with
    | put p =>
      exact ih _ (step_put cap stride s hi p (hp p (by simp [puts]))) (fun x hx => hp x (by simp [puts, hx]))
    | get =>
      exact ih _ (step_get cap stride hs hsc s hi).1 (fun x hx => hp x (by simpa [puts] using hx))

/-- **D. ring → packets is FIFO.**  On a ring of any size `cap ≥ 2` with any stride `1 ≤ stride < cap`, for
every history of sendable packets offered by a producer that writes whole slots (and skips a packet when
its slot does not fit into the free room) interleaved in any way with `ReadAllPackets` calls: every write
is accepted whole, every `ReadAllPackets` succeeds with error `nil`, and all the packets returned so far
are exactly (the decodings of) the packets written before the last `ReadAllPackets`, in order — a prefix of
what was written: nothing lost, repeated, split or altered. -/
theorem ring_packets_fifo (cap stride : Nat) (h2 : 2 ≤ cap) (hs : 1 ≤ stride) (hsc : stride < cap)
    (evs : List Ev) (hp : ∀ p ∈ puts evs, Sendable p) :
    (run (St.init cap stride) evs).ok = true ∧
    (run (St.init cap stride) evs).got = (run (St.init cap stride) evs).seen.map rt ∧
    (run (St.init cap stride) evs).seen <+: (run (St.init cap stride) evs).sent := by
  have hi := run_rinv cap stride hs hsc evs _ (rinv_init cap stride h2) hp
  obtain ⟨pend, hpre⟩ := hi.pre
  exact ⟨hi.ok, hi.got_eq, ⟨pend, hpre.symm⟩⟩

/-! `seen` and `sent`, independently of the bookkeeping: `seen` is what had been written when the last get
was made; `sent` is every packet offered when each of them fits. -/

def noGet : List Ev → Prop
  | [] => True
  | .put _ :: r => noGet r
  | .get :: _ => False

theorem step_put_frame (s : St) (p : Packet) :
    (step s (.put p)).got = s.got ∧ (step s (.put p)).seen = s.seen := by
  unfold step
  simp only
  split
  · split <;> exact ⟨rfl, rfl⟩
  · exact ⟨rfl, rfl⟩

theorem run_noGet (evs : List Ev) : ∀ s, noGet evs → (run s evs).got = s.got ∧ (run s evs).seen = s.seen := by
  induction evs with
  | nil => intro s _; exact ⟨rfl, rfl⟩
  | cons e r ih =>
    intro s h
    cases e with
    | put p =>
      rw [run_cons]
      have h1 := ih (step s (.put p)) h
      have h2 := step_put_frame s p
      exact ⟨h1.1.trans h2.1, h1.2.trans h2.2⟩
    | get => exact absurd h (by simp [noGet])

/-- the packets returned by all the gets of a history are the packets written before its last get -/
theorem ring_packets_upto_last_get (cap stride : Nat) (h2 : 2 ≤ cap) (hs : 1 ≤ stride) (hsc : stride < cap)
    (pre post : List Ev) (hpost : noGet post) (hp : ∀ p ∈ puts pre, Sendable p) :
    (run (St.init cap stride) (pre ++ .get :: post)).got = (run (St.init cap stride) pre).sent.map rt ∧
    (run (St.init cap stride) (pre ++ .get :: post)).seen = (run (St.init cap stride) pre).sent := by
  have hi := run_rinv cap stride hs hsc pre _ (rinv_init cap stride h2) hp
  obtain ⟨hi2, hseen⟩ := step_get cap stride hs hsc _ hi
  rw [run_append, run_cons]
  obtain ⟨hg, hsn⟩ := run_noGet post (step (run (St.init cap stride) pre) .get) hpost
  rw [hg, hsn, hi2.got_eq, hseen]
  exact ⟨rfl, rfl⟩

/-- every packet offered fits into the free room at the time it is offered -/
def Fits (s : St) : List Ev → Prop
  | [] => True
  | .put p :: r => (slot (encB p) s.d.stride).length ≤ room s.d ∧ Fits (step s (.put p)) r
  | .get :: r => Fits (step s .get) r

theorem step_put_sent (cap stride : Nat) (s : St) (hi : RInv cap stride s) (p : Packet)
    (hfit : (slot (encB p) s.d.stride).length ≤ room s.d) : (step s (.put p)).sent = s.sent ++ [p] := by
  obtain ⟨b', n, hw, _⟩ := C18.write_spec s.d.rb _ hi.rep (slot (encB p) s.d.stride)
  have hput : s.d.put (slot (encB p) s.d.stride) = ({ s.d with rb := b' }, some n) := by
    unfold Dev.put; rw [hw]
  unfold step
  simp only
  rw [if_pos hfit, hput]

theorem step_get_sent (s : St) : (step s .get).sent = s.sent := by
  unfold step
  simp only
  split <;> rfl

theorem run_fits_sent (cap stride : Nat) (hs : 1 ≤ stride) (hsc : stride < cap) (evs : List Ev) :
    ∀ s, RInv cap stride s → (∀ p ∈ puts evs, Sendable p) → Fits s evs →
      (run s evs).sent = s.sent ++ puts evs := by
  induction evs with
  | nil => intro s _ _ _; simp [run, puts]
  | cons e r ih =>
    intro s hi hp hf
    rw [run_cons]
    cases e with
    | put p =>
      have hi' := step_put cap stride s hi p (hp p (by simp [puts]))
      rw [ih _ hi' (fun x hx => hp x (by simp [puts, hx])) hf.2, step_put_sent cap stride s hi p hf.1]
      simp [puts]
    | get =>
      have hi' := (step_get cap stride hs hsc s hi).1
      rw [ih _ hi' (fun x hx => hp x (by simpa [puts] using hx)) hf, step_get_sent]
      simp [puts]

/-- **after a final get everything offered has been delivered** (seen through the ingest, for packets with
a payload): the producer offers the packets of `evs` (each fits when offered), the consumer reads whenever
it likes and once more at the end; the concatenation of everything the gets returned is the list of
packets offered, in order -/
theorem ring_packets_fifo_final (cap stride : Nat) (h2 : 2 ≤ cap) (hs : 1 ≤ stride) (hsc : stride < cap)
    (evs : List Ev) (hp : ∀ p ∈ puts evs, Sendable p ∧ p.data.len ≠ 0)
    (hf : Fits (St.init cap stride) evs) :
    (run (St.init cap stride) (evs ++ [.get])).ok = true ∧
    (run (St.init cap stride) (evs ++ [.get])).got.map Compose.toIngest = (puts evs).map Compose.toIngest := by
  have hp1 : ∀ p ∈ puts evs, Sendable p := fun p h => (hp p h).1
  have hp2 : ∀ p ∈ puts (evs ++ [.get]), Sendable p := by
    intro p h; rw [puts_append] at h; simp only [puts, List.append_nil] at h; exact hp1 p h
  obtain ⟨hok, _, _⟩ := ring_packets_fifo cap stride h2 hs hsc (evs ++ [.get]) hp2
  obtain ⟨hg, _⟩ := ring_packets_upto_last_get cap stride h2 hs hsc evs [] trivial hp1
  have hsent := run_fits_sent cap stride hs hsc evs _ (rinv_init cap stride h2) hp1 hf
  refine ⟨hok, ?_⟩
  rw [hg, hsent]
  simp only [St.init, List.nil_append, List.map_map]
  apply List.map_congr_left
  intro p h
  exact rt_toIngest p (hp p h).1 (hp p h).2

theorem step_put_sent_cases (s : St) (p : Packet) :
    (step s (.put p)).sent = s.sent ∨ (step s (.put p)).sent = s.sent ++ [p] := by
  unfold step
  simp only
  split
  · split
    · exact Or.inr rfl
    · exact Or.inl rfl
  · exact Or.inl rfl

/-- the packets written are some of the packets offered, in the order offered (those that fitted) -/
theorem run_sent_sublist (evs : List Ev) :
    ∀ s, ∃ l, (run s evs).sent = s.sent ++ l ∧ l.Sublist (puts evs) := by
  induction evs with
  | nil => intro s; exact ⟨[], by simp [run], List.Sublist.refl _⟩
  | cons e r ih =>
    intro s
    rw [run_cons]
    cases e with
    | put p =>
      obtain ⟨l, hl, hsub⟩ := ih (step s (.put p))
      rcases step_put_sent_cases s p with h | h
      · exact ⟨l, by rw [hl, h], List.Sublist.cons p hsub⟩
      · exact ⟨p :: l, by rw [hl, h]; simp, List.Sublist.cons_cons p hsub⟩
    | get =>
      obtain ⟨l, hl, hsub⟩ := ih (step s .get)
      exact ⟨l, by rw [hl, step_get_sent], hsub⟩

/-- the ingest view of the general statement (packets with a payload, as in `wire_to_ingest`): what the
ingest has been handed so far is the ingest view of the packets written before the last get; these are a
prefix of the packets written, which are a subsequence of the packets offered (all of them when each
fits: `run_fits_sent`) -/
theorem ring_packets_fifo_ingest (cap stride : Nat) (h2 : 2 ≤ cap) (hs : 1 ≤ stride) (hsc : stride < cap)
    (evs : List Ev) (hp : ∀ p ∈ puts evs, Sendable p ∧ p.data.len ≠ 0) :
    (run (St.init cap stride) evs).ok = true ∧
    (run (St.init cap stride) evs).got.map Compose.toIngest
      = (run (St.init cap stride) evs).seen.map Compose.toIngest ∧
    (run (St.init cap stride) evs).seen <+: (run (St.init cap stride) evs).sent ∧
    (run (St.init cap stride) evs).sent.Sublist (puts evs) := by
  obtain ⟨hok, hgot, hpre⟩ := ring_packets_fifo cap stride h2 hs hsc evs (fun p h => (hp p h).1)
  obtain ⟨l, hl, hsub⟩ := run_sent_sublist evs (St.init cap stride)
  have hsub' : (run (St.init cap stride) evs).sent.Sublist (puts evs) := by
    rw [hl]; simpa [St.init] using hsub
  refine ⟨hok, ?_, hpre, hsub'⟩
  rw [hgot, List.map_map]
  apply List.map_congr_left
  intro p h
  have hm : p ∈ puts evs := hsub'.subset (hpre.subset h)
  exact rt_toIngest p (hp p hm).1 (hp p hm).2

/-! ### E. non-vacuity, and what lies outside the hypotheses -/

/-- 4 int16 samples, one dimension of 4 channels, sequence number 8 (NewData increments it) -/
def pkA : Packet :=
  match newData (newPacket 1 2 7 0) (.i16 [1, -2, 3, 4]) [4] with
  | .ok p => p
  | .error _ => newPacket 1 2 7 0

/-- 6 int32 samples, dims [2, 3], a timestamp -/
def pkB : Packet :=
  match newData (setTimestamp (newPacket 1 2 8 0) ⟨12345, 400, 1⟩) (.i32 [10, 20, 30, -40, 50, 60]) [2, 3] with
  | .ok p => p
  | .error _ => newPacket 1 2 8 0

theorem pkA_sendable : Sendable pkA ∧ pkA.data.len ≠ 0 := by
  refine ⟨⟨Built.data (.i16 [1, -2, 3, 4]) [4] (Built.new 1 2 7 0 (by decide) (by decide) (by decide)) rfl ?_ ?_ rfl,
    ?_⟩, by decide⟩
  · intro x hx
    simp only [List.mem_cons, List.not_mem_nil, or_false] at hx
    rcases hx with rfl | rfl | rfl | rfl <;> (unfold InRange; decide)
  · intro d hd
    simp only [List.mem_cons, List.not_mem_nil, or_false] at hd
    rcases hd with rfl; decide
  · intro s hs
    cases hs
    decide

theorem pkB_sendable : Sendable pkB ∧ pkB.data.len ≠ 0 := by
  refine ⟨⟨Built.data (.i32 [10, 20, 30, -40, 50, 60]) [2, 3]
    (Built.setTs ⟨12345, 400, 1⟩ (Built.new 1 2 8 0 (by decide) (by decide) (by decide))
      ⟨by decide, by decide, by decide⟩) rfl ?_ ?_ rfl, ?_⟩, by decide⟩
  · intro x hx
    simp only [List.mem_cons, List.not_mem_nil, or_false] at hx
    rcases hx with rfl | rfl | rfl | rfl | rfl | rfl <;> (unfold InRange; decide)
  · intro d hd
    simp only [List.mem_cons, List.not_mem_nil, or_false] at hd
    rcases hd with rfl | rfl <;> decide
  · intro s hs
    cases hs
    decide

/-- the encodings are 48 and 80 bytes; with stride 64 the slots are 64 and 128 bytes -/
example : (encB pkA).length = 48 ∧ (encB pkB).length = 80 ∧
    (slot (encB pkA) 64).length = 64 ∧ (slot (encB pkB) 64).length = 128 := by decide +kernel

/-- a two-packet ring read returns both (stride 64, ring of 1000 bytes); each write fits -/
example : Fits (St.init 1000 64) [.put pkA, .put pkB] := by
  refine ⟨by decide +kernel, by decide +kernel, trivial⟩

example :
    let s := run (St.init 1000 64) [.put pkA, .put pkB, .get]
    s.ok = true ∧ s.got.map Compose.toIngest = [Compose.toIngest pkA, Compose.toIngest pkB] ∧
      s.got.map (·.seq) = [8, 9] ∧ s.d.rb.r = 192 ∧ s.d.rb.w = 192 := by decide +kernel

/-- the hypotheses of `ring_packets_fifo_final` are satisfiable -/
example : (run (St.init 1000 64) ([.put pkA, .put pkB] ++ [.get])).got.map Compose.toIngest
    = [Compose.toIngest pkA, Compose.toIngest pkB] :=
  (ring_packets_fifo_final 1000 64 (by decide) (by decide) (by decide) [.put pkA, .put pkB]
    (by
      intro p hp
      simp only [puts, List.mem_cons, List.not_mem_nil, or_false] at hp
      rcases hp with rfl | rfl
      · exact pkA_sendable
      · exact pkB_sendable)
    ⟨by decide +kernel, by decide +kernel, trivial⟩).2

/-- stride 8 on a ring of 100 bytes: the third write wraps around the end of the region, a packet that
does not fit (room 99 − 48 = 51 < 80) is skipped -/
example :
    let s := run (St.init 100 8) [.put pkA, .put pkB, .get, .put pkA, .get, .put pkA, .get]
    s.ok = true ∧ s.got.map (·.seq) = [8, 8, 8] ∧ s.sent.map (·.seq) = [8, 8, 8] ∧ s.d.rb.w = 144 := by decide +kernel

/-! Outside the hypotheses: `ReadPacketPlusPad` computes the padding from `Length()` (header length +
DECLARED payload length), not from the bytes `ReadPacket` consumed.  The two differ for packets that no
constructor produces: a payload length that is not a multiple of the word size, or a payload without a
format TLV (the payload is then not read at all).  Such a packet in a 64-byte slot leaves the reader in the
middle of the slot, and the next `ReadPacket` fails on the padding. -/

/-- header 24 bytes (offset TLV only), declared payload 16 bytes, no format TLV -/
def noFormat : List Nat :=
  [1, 24, 0, 16, 0x81, 0x0b, 0, 0xff, 0, 0, 0, 2, 0, 0, 0, 7, 0x23, 1, 0, 0, 0, 0, 0, 0] ++
    [1, 0, 2, 0, 3, 0, 4, 0, 5, 0, 6, 0, 7, 0, 8, 0]

/-- `ReadPacket` consumes 24 of the 40 bytes, `Length()` says 40; `ReadPacketPlusPad(…, 64)` skips 64 − 40 = 24
more and stops at byte 48 of the 64-byte slot; the loop of `ReadAllPackets` then returns an error -/
example : (decodeC noFormat).2 = 24 ∧ (decodeC noFormat).1.toOption.map length = some 40 ∧
    (readPlusPad (slot noFormat 64 ++ slot (encB pkA) 64) 64).2 = 48 ∧
    (readAll (slot noFormat 64 ++ slot (encB pkA) 64) 64).2 = some .bad := by decide +kernel

/-- format "<h", declared payload 7 bytes: 3 words = 6 bytes are read, the padding is computed from 40 + 7 -/
def oddPayload : List Nat :=
  [1, 40, 0, 7, 0x81, 0x0b, 0, 0xff, 0, 0, 0, 2, 0, 0, 0, 7, 0x23, 1, 0, 0, 0, 0, 0, 0,
   0x21, 1, 0x3c, 0x68, 0, 0, 0, 0, 0x22, 1, 0, 1, 0, 0, 0, 0] ++ [1, 0, 2, 0, 3, 0, 9]

example : (decodeC oddPayload).2 = 46 ∧ (decodeC oddPayload).1.toOption.map length = some 47 ∧
    (readPlusPad (slot oddPayload 64 ++ slot (encB pkA) 64) 64).2 = 63 ∧
    (readAll (slot oddPayload 64 ++ slot (encB pkA) 64) 64).2 = some .bad := by decide +kernel

end DastardV.RingPk
