/-
Composition of the pipeline model with the file-writer model (C01/C02 → C05): what the trigger
pipeline publishes for a channel, block after block, is what its LJH file holds.

`ProcessSegments` hands every channel's primary records and then its secondary records of a block to
`DataPublisher.PublishData` (two batches per block).  Outside edge-multi mode every record of the channel
has the channel's configured length (`runOps_chan_len`, no assumption on the data), so the LJH 2.2 writer
(which rejects records of another length) accepts every one of them; with `C05_body_parses_back_ljh22`:
for every run of blocks between START and STOP the file body, read back with the documented layout, is
exactly the records the pipeline published for the channel, in order — none dropped, none duplicated.
The LJH3 writer accepts any length, so the statement holds there for edge-multi channels as well.
-/
import DastardV.Lemmas.PipeGroup
import DastardV.Lemmas.PipeProj
import DastardV.Props.C05
namespace DastardV.Compose
open Pipe Trig

theorem cut_len {c : Chan} {i p n : Int} {r : Rec} (h : cut c i p n = some r) :
    (r.data.length : Int) = n ∧ r.npre = p := by
  unfold cut at h
  split at h
  · simp at h
  · rename_i hn
    split at h
    · rename_i d hd
      obtain ⟨h0, h1, h2, hd'⟩ := sliceI_some hd
      simp only [Option.some.injEq] at h
      subst h
      refine ⟨?_, rfl⟩
      simp only
      rw [hd', List.length_take, List.length_drop]
      omega
    · simp at h

/-- one block of the source, channel `j`: the channel's settings are kept and — outside edge-multi —
every record published for it (primary or secondary) has the configured lengths -/
theorem opBlock_chan_len {s s' : Src} {first t0 per : Int} {signed : List Bool} {data : List (List Nat)}
    {zts : List (List (Int × Int))} {rs : List (List Rec)}
    (h : opBlock s first t0 per signed data zts = some (s', rs)) :
    ∀ (j : Nat) (c : Chan), s.chans[j]? = some c →
      ∃ c1 prim sec, s'.chans[j]? = some c1 ∧ rs[j]? = some (prim ++ sec) ∧
        c1.ts = c.ts ∧ c1.nsamp = c.nsamp ∧ c1.npre = c.npre ∧
        (∀ r ∈ sec, (r.data.length : Int) = c.nsamp ∧ r.npre = c.npre) ∧
        (c.ts.edgeMulti = false → ∀ r ∈ prim, (r.data.length : Int) = c.nsamp ∧ r.npre = c.npre) := by
  unfold opBlock at h
  simp only [bind, pure] at h
  split at h
  · simp at h
  simp only [Option.bind_eq_some_iff] at h
  obtain ⟨p1, hp1, h⟩ := h
  split at h
  · simp at h
  rename_i secMap hdist
  simp only [Option.bind_eq_some_iff, Option.some.injEq, Prod.mk.injEq] at h
  obtain ⟨p2, hp2, hs', hrs⟩ := h
  subst hs'; subst hrs
  obtain ⟨hl1, g1⟩ := phase1_get first t0 per s.chans signed data zts p1 hp1
  obtain ⟨hl2, g2⟩ := phase2_get secMap p1 0 p2 hp2
  intro j c hcj
  have hjlt : j < s.chans.length := by
    rcases Nat.lt_or_ge j s.chans.length with h | h
    · exact h
    · rw [List.getElem?_eq_none h] at hcj; simp at hcj
  have hj2 : j < p2.length := by omega
  obtain ⟨c2, prim, fl, sec, hp1j, hsec, hc3, hout⟩ := g2 j (p2[j]).1 (p2[j]).2 (by simp [List.getElem?_eq_getElem hj2])
  obtain ⟨c', d, hcj', hdj, htd⟩ := g1 j c2 prim hp1j
  have : c' = c := by rw [hcj] at hcj'; simpa using hcj'.symm
  subst this
  obtain ⟨_, _, k3, k4, k5, _, _⟩ := triggerData_keep htd
  obtain ⟨t1, t2, _, t4⟩ := trim_keep c2
  have a1 : (append c' d first t0 per (signed[j]?.getD false)).npre = c'.npre := rfl
  have a2 : (append c' d first t0 per (signed[j]?.getD false)).nsamp = c'.nsamp := rfl
  have a3 : (append c' d first t0 per (signed[j]?.getD false)).ts = c'.ts := rfl
  refine ⟨trim c2, prim, sec, ?_, ?_, ?_, ?_, ?_, ?_, ?_⟩
  · simp [List.getElem?_map, List.getElem?_eq_getElem hj2, hc3]
  · simp [List.getElem?_map, List.getElem?_eq_getElem hj2, hout]
  · rw [t4, k5, a3]
  · rw [t2, k4, a2]
  · rw [t1, k3, a1]
  · intro r hr
    obtain ⟨i, hcut⟩ := secondaries_recs hsec r hr
    obtain ⟨hl, hp⟩ := cut_len hcut
    exact ⟨by rw [hl, k4, a2], by rw [hp, k3, a1]⟩
  · intro hem r hr
    obtain ⟨i, p, n, hcut, hfix⟩ := (triggerData_recs htd).2 r hr
    obtain ⟨hp', hn'⟩ := hfix (by rw [a3]; exact hem)
    obtain ⟨hl, hp⟩ := cut_len hcut
    exact ⟨by rw [hl, hn', a2], by rw [hp, hp', a1]⟩

/-- **every record of a run of blocks has the configured length** (channel not in edge-multi mode):
whatever the data, the other channels and the trigger broker do -/
theorem runOps_chan_len (zts : List (List (Int × Int))) (j : Nat) (sg : Bool) (tp : Nat → Int × Int) :
    ∀ (ops : List Op) (n : Nat) (first : Int) (segs : List (List Nat)) (s : Src) (c : Chan) (outs : List Out),
      BlocksFor j sg tp n first ops segs → s.chans[j]? = some c → c.ts.edgeMulti = false →
      runOps zts s ops = some outs →
      ∃ parts, OutsFor j outs parts ∧ parts.length = ops.length ∧
        ∀ pr ∈ parts, ∀ r ∈ pr.1 ++ pr.2, (r.data.length : Int) = c.nsamp ∧ r.npre = c.npre
  | [], n, first, segs, s, c, outs, hb, _, _, h => by
    simp only [runOps, Option.some.injEq] at h
    subst h
    exact ⟨[], rfl, rfl, by simp⟩
  | o :: os, n, first, segs, s, c, outs, hb, hc, hem, h => by
    obtain ⟨t0, per, d, rest, hblk, htp, hsegs, hrest⟩ := hb
    subst hsegs
    cases o with
    | block f t p sgs data =>
      simp only [blockOf, Option.some.injEq, Prod.mk.injEq] at hblk
      obtain ⟨rfl, rfl, rfl, hsg, hd⟩ := hblk
      simp only [runOps, stepOp, bind, pure, Option.bind_eq_some_iff, Option.some.injEq] at h
      obtain ⟨⟨s1, out1⟩, ⟨⟨s1', r⟩, hob, hpair⟩, outs2, hrun2, hout⟩ := h
      simp only [Prod.mk.injEq] at hpair
      obtain ⟨rfl, rfl⟩ := hpair
      subst hout
      obtain ⟨c1, prim, sec, hc1, hrj, hts, hns, hnp, hsecl, hpriml⟩ := opBlock_chan_len hob j c hc
      obtain ⟨parts2, hof, hlen2, hall⟩ := runOps_chan_len zts j sg tp os (n + 1) (f + d.length) rest s1' c1 outs2
        hrest hc1 (by rw [hts]; exact hem) hrun2
      refine ⟨(prim, sec) :: parts2, ⟨r, prim, sec, parts2, rfl, hrj, rfl, hof⟩, by simp [hlen2], ?_⟩
      intro pr hpr rr hrr
      rcases List.mem_cons.mp hpr with rfl | hpr
      · rcases List.mem_append.mp hrr with h1 | h1
        · exact hpriml hem rr h1
        · exact hsecl rr h1
      · have := hall pr hpr rr hrr
        rw [hns, hnp] at this
        exact this
    | trig r => simp [blockOf] at hblk
    | len a b => simp [blockOf] at hblk
    | gadd ps => simp [blockOf] at hblk
    | gdel ps => simp [blockOf] at hblk
    | gstop => simp [blockOf] at hblk

/-! ### the writer side -/

theorem takeWhile_all {α} (q : α → Bool) : ∀ (l : List α), (∀ r ∈ l, q r = true) → l.takeWhile q = l
  | [], _ => rfl
  | x :: xs, h => by
    simp only [List.takeWhile_cons, h x (by simp), if_true]
    rw [takeWhile_all q xs (fun r hr => h r (by simp [hr]))]

open C05 in
/-- the writer history of one writing period: START, the batches in order, STOP -/
def fileOps {ρ} (batches : List (List ρ)) : List (C05.Op ρ) :=
  C05.Op.start true true :: (batches.map C05.Op.publish ++ [C05.Op.stop])

def activeCtl : C05.Ctl := { phase := .active, sel := true, paused := false }

theorem accepted_batches {ρ} (F : C05.Fmt ρ) :
    ∀ (f0 : C05.FileSt) (batches : List (List ρ)), (∀ b ∈ batches, ∀ r ∈ b, F.accept r = true) →
      C05.accepted F activeCtl (batches.map C05.Op.publish ++ [C05.Op.stop]) = batches.flatten ∧
      C05.touched (ρ := ρ) activeCtl (batches.map C05.Op.publish ++ [C05.Op.stop]) = batches.any (fun b => !b.isEmpty) ∧
      (C05.run F { ctl := activeCtl, f := f0 } (batches.map C05.Op.publish ++ [C05.Op.stop])).ctl.phase = .stopped
  | f0, [], _ => by
    refine ⟨?_, ?_, ?_⟩
    · simp [C05.accepted, C05.accStep]
    · simp [C05.touched, C05.touchStep]
    · simp [C05.run, C05.step, C05.ctlStep, activeCtl]
  | f0, b :: bs, h => by
    obtain ⟨ih1, ih2, ih3⟩ := accepted_batches F f0 bs (fun b' hb' => h b' (by simp [hb']))
    have hb : C05.taken F b = b := by
      unfold C05.taken
      have hall : ∀ r ∈ b, F.accept r = true := h b (by simp)
      split
      · exact takeWhile_all F.accept b hall
      · exact List.filter_eq_self.mpr hall
    refine ⟨?_, ?_, ?_⟩
    · simp only [List.map_cons, List.cons_append, C05.accepted, C05.accStep, C05.ctlStep]
      have hw : C05.writing activeCtl = true := by decide
      rw [hw, if_pos rfl, hb, ih1]
      simp
    · simp only [List.map_cons, List.cons_append, C05.touched, C05.touchStep, C05.ctlStep]
      have hw : C05.writing activeCtl = true := by decide
      rw [hw, ih2]
      simp
    · simp only [List.map_cons, List.cons_append, C05.run, List.foldl_cons]
      have : (C05.step F { ctl := activeCtl, f := f0 } (C05.Op.publish b)).ctl = activeCtl := rfl
      have ih3' := accepted_batches F (C05.step F { ctl := activeCtl, f := f0 } (C05.Op.publish b)).f bs
        (fun b' hb' => h b' (by simp [hb']))
      have e : (C05.step F { ctl := activeCtl, f := f0 } (C05.Op.publish b)) =
          { ctl := activeCtl, f := (C05.step F { ctl := activeCtl, f := f0 } (C05.Op.publish b)).f } := rfl
      rw [e]
      exact ih3'.2.2


/-- START … batches … STOP: the writer ends stopped, the file exists iff some batch was non-empty, and —
when the writer accepts every record — everything published was accepted, in order -/
theorem fileOps_spec {ρ} (F : C05.Fmt ρ) (batches : List (List ρ)) (h : ∀ b ∈ batches, ∀ r ∈ b, F.accept r = true) :
    (C05.run F {} (fileOps batches)).ctl.phase = .stopped ∧
    C05.touched (ρ := ρ) {} (fileOps batches) = batches.any (fun b => !b.isEmpty) ∧
    C05.accepted F {} (fileOps batches) = batches.flatten := by
  obtain ⟨h1, h2, h3⟩ := accepted_batches F {} batches h
  have hs : C05.step F {} (C05.Op.start true true) = { ctl := activeCtl, f := {} } := rfl
  have hc : C05.ctlStep (ρ := ρ) {} (C05.Op.start true true) = activeCtl := rfl
  refine ⟨?_, ?_, ?_⟩
  · simp only [fileOps, C05.run, List.foldl_cons]
    rw [hs]
    exact h3
  · simp only [fileOps, C05.touched, C05.touchStep, hc, Bool.false_or]
    exact h2
  · simp only [fileOps, C05.accepted, C05.accStep, hc, List.nil_append]
    exact h1

/-- what `PublishData` hands to the LJH 2.2 writer for a record -/
def toW22 (r : Rec) : C05.W22 := { frame := r.frame, ts := r.time.tdiv 1000, data := r.data }

/-- what `PublishData` hands to the LJH3 writer for a record -/
def toW3 (r : Rec) : C05.W3 := { frs := r.npre + 1, frame := r.frame, ts := r.time.tdiv 1000, data := r.data }

/-- all records the source publishes for channel `j` over a run, in order -/
def chanRecs (j : Nat) : List Out → List Rec
  | [] => []
  | .recs r :: os => r[j]?.getD [] ++ chanRecs j os
  | _ :: os => chanRecs j os

theorem outsFor_chanRecs (j : Nat) : ∀ (outs : List Out) (parts : List (List Rec × List Rec)),
    OutsFor j outs parts → chanRecs j outs = parts.flatMap fun pr => pr.1 ++ pr.2
  | [], parts, h => by simp only [OutsFor] at h; subst h; rfl
  | o :: os, parts, h => by
    obtain ⟨r, prim, sec, rest, rfl, hr, rfl, hrest⟩ := h
    simp only [chanRecs, hr, Option.getD_some, List.flatMap_cons]
    rw [outsFor_chanRecs j os rest hrest]

theorem any_nonempty_iff {α} (batches : List (List α)) :
    batches.any (fun b => !b.isEmpty) = true ↔ batches.flatten ≠ [] := by
  constructor
  · intro h hnil
    rw [List.any_eq_true] at h
    obtain ⟨b, hbm, hne⟩ := h
    cases b with
    | nil => simp at hne
    | cons x xs =>
      have : x ∈ batches.flatten := List.mem_flatten.mpr ⟨_, hbm, by simp⟩
      rw [hnil] at this; simp at this
  · intro hne
    rw [List.any_eq_true]
    obtain ⟨x, hx⟩ := List.exists_mem_of_ne_nil _ hne
    obtain ⟨b, hbm, hxb⟩ := List.mem_flatten.mp hx
    exact ⟨b, hbm, by cases b with | nil => simp at hxb | cons _ _ => rfl⟩

/-- **From the trigger pipeline to the LJH 2.2 file, end to end.**  Channel `j` (not in edge-multi mode)
of any source processes any run of blocks `ops` — any data, any other channels, any group-trigger
connections — while its LJH 2.2 writer (header `hdr`, record length = the channel's configured `nsamp`) is
writing (START before, STOP after), the channel's records reaching `PublishData` in any batching
(`ProcessSegments`: primaries, then secondaries, per block).  Then the file exists iff the channel
published at least one record, and its body, read back with the documented record layout, is EXACTLY
the records the pipeline published for the channel, in order: none lost, none duplicated, none
truncated, and the file length is header + count × record size. -/
theorem pipeline_to_ljh22_file (zts : List (List (Int × Int))) (j : Nat) (sg : Bool) (tp : Nat → Int × Int)
    (ops : List Op) (n : Nat) (first : Int) (segs : List (List Nat)) (s : Src) (c : Chan) (outs : List Out)
    (hb : BlocksFor j sg tp n first ops segs) (hc : s.chans[j]? = some c) (hem : c.ts.edgeMulti = false)
    (hrun : runOps zts s ops = some outs)
    (p : C05.Params) (hdr : C05.Bytes) (hp : p.nsamp = c.nsamp)
    (batches : List (List C05.W22)) (hbat : batches.flatten = (chanRecs j outs).map toW22) :
    let recs := chanRecs j outs
    let fin := C05.run (C05.fmt22 p hdr) {} (fileOps batches)
    (∀ r ∈ recs, (r.data.length : Int) = c.nsamp ∧ r.npre = c.npre) ∧
    (recs = [] → C05.fileOf fin = none) ∧
    (recs ≠ [] → ∃ file, C05.fileOf fin = some file ∧ file.take hdr.length = hdr ∧
      C05.parseBody (C05.parseLJH22 p.nsamp.toNat 2) (file.drop hdr.length) =
        some (recs.map fun r => C05.expect22 p.subdiv p.suboff (toW22 r)) ∧
      file.length = hdr.length + recs.length * (16 + p.nsamp.toNat * 2)) := by
  obtain ⟨parts, hof, _, hall⟩ := runOps_chan_len zts j sg tp ops n first segs s c outs hb hc hem hrun
  have hcr := outsFor_chanRecs j outs parts hof
  have hlenall : ∀ r ∈ chanRecs j outs, (r.data.length : Int) = c.nsamp ∧ r.npre = c.npre := by
    intro r hr
    rw [hcr, List.mem_flatMap] at hr
    obtain ⟨pr, hpr, hrr⟩ := hr
    exact hall pr hpr r hrr
  have hacc : ∀ b ∈ batches, ∀ r ∈ b, (C05.fmt22 p hdr).accept r = true := by
    intro b hbm r hr
    have : r ∈ batches.flatten := List.mem_flatten.mpr ⟨b, hbm, hr⟩
    rw [hbat] at this
    obtain ⟨x, hx, rfl⟩ := List.mem_map.mp this
    have := (hlenall x hx).1
    simp only [C05.fmt22, toW22, beq_iff_eq]
    omega
  obtain ⟨hstop, htouch, haccd⟩ := fileOps_spec (C05.fmt22 p hdr) batches hacc
  have hany := any_nonempty_iff batches
  rw [hbat] at hany
  simp only
  refine ⟨hlenall, ?_, ?_⟩
  · intro hnil
    have ht : C05.touched (ρ := C05.W22) {} (fileOps batches) = false := by
      rw [htouch]
      cases h : batches.any (fun b => !b.isEmpty) with
      | false => rfl
      | true => exact absurd (by rw [hnil]; rfl) (hany.mp h)
    rw [C05.C05_file_is_header_plus_records _ _ hstop, ht]
    simp
  · intro hne
    have ht : C05.touched (ρ := C05.W22) {} (fileOps batches) = true := by
      rw [htouch]; exact hany.mpr (by simpa using hne)
    obtain ⟨file, hf, htake, hparse, hlen⟩ := C05.C05_body_parses_back_ljh22 p hdr _ hstop ht
    rw [haccd, hbat] at hparse hlen
    refine ⟨file, hf, htake, ?_, ?_⟩
    · rw [hparse, List.map_map]; rfl
    · rw [hlen, List.length_map]

/-- the same for the LJH3 writer (which takes records of any length) -/
theorem pipeline_to_ljh3_file (zts : List (List (Int × Int))) (j : Nat) (sg : Bool) (tp : Nat → Int × Int)
    (ops : List Op) (n : Nat) (first : Int) (segs : List (List Nat)) (s : Src) (c : Chan) (outs : List Out)
    (hb : BlocksFor j sg tp n first ops segs) (hc : s.chans[j]? = some c) (hem : c.ts.edgeMulti = false)
    (hrun : runOps zts s ops = some outs) (hns : c.nsamp < 2 ^ 31)
    (hdr : C05.Bytes)
    (batches : List (List C05.W3)) (hbat : batches.flatten = (chanRecs j outs).map toW3) :
    let recs := chanRecs j outs
    let fin := C05.run (C05.fmt3 hdr) {} (fileOps batches)
    (recs = [] → C05.fileOf fin = none) ∧
    (recs ≠ [] → ∃ file, C05.fileOf fin = some file ∧ file.take hdr.length = hdr ∧
      C05.parseBody C05.parseLJH3 (file.drop hdr.length) = some (recs.map fun r => C05.expect3 (toW3 r)) ∧
      file.length = hdr.length + recs.length * (24 + 2 * c.nsamp.toNat)) := by
  obtain ⟨parts, hof, _, hall⟩ := runOps_chan_len zts j sg tp ops n first segs s c outs hb hc hem hrun
  have hcr := outsFor_chanRecs j outs parts hof
  have hlenall : ∀ r ∈ chanRecs j outs, (r.data.length : Int) = c.nsamp := by
    intro r hr
    rw [hcr, List.mem_flatMap] at hr
    obtain ⟨pr, hpr, hrr⟩ := hr
    exact (hall pr hpr r hrr).1
  have hacc : ∀ b ∈ batches, ∀ r ∈ b, (C05.fmt3 hdr).accept r = true := fun _ _ _ _ => rfl
  obtain ⟨hstop, htouch, haccd⟩ := fileOps_spec (C05.fmt3 hdr) batches hacc
  have hany := any_nonempty_iff batches
  rw [hbat] at hany
  have hpub : ∀ b, C05.Op.publish b ∈ fileOps batches → ∀ r ∈ b, r.data.length < 2 ^ 31 := by
    intro b hbm r hr
    have hb' : b ∈ batches := by
      simp only [fileOps, List.mem_cons, List.mem_append, List.mem_map] at hbm
      rcases hbm with h | h | h | h
      all_goals first | exact h | (obtain ⟨b', hb', h⟩ := h; injection h with h; subst h; exact hb') | cases h
    have : r ∈ batches.flatten := List.mem_flatten.mpr ⟨b, hb', hr⟩
    rw [hbat] at this
    obtain ⟨x, hx, rfl⟩ := List.mem_map.mp this
    have := hlenall x hx
    simp only [toW3]
    omega
  simp only
  refine ⟨?_, ?_⟩
  · intro hnil
    have ht : C05.touched (ρ := C05.W3) {} (fileOps batches) = false := by
      rw [htouch]
      cases h : batches.any (fun b => !b.isEmpty) with
      | false => rfl
      | true => exact absurd (by rw [hnil]; rfl) (hany.mp h)
    rw [C05.C05_file_is_header_plus_records _ _ hstop, ht]
    simp
  · intro hne
    have ht : C05.touched (ρ := C05.W3) {} (fileOps batches) = true := by
      rw [htouch]; exact hany.mpr (by simpa using hne)
    obtain ⟨file, hf, htake, hparse, hlen⟩ := C05.C05_body_parses_back_ljh3 hdr _ hpub hstop ht
    rw [haccd, hbat] at hparse hlen
    refine ⟨file, hf, htake, ?_, ?_⟩
    · rw [hparse, List.map_map]; rfl
    · rw [hlen, List.map_map]
      have : ∀ (l : List Rec), (∀ r ∈ l, (r.data.length : Int) = c.nsamp) →
          (l.map ((fun r : C05.W3 => 24 + 2 * r.data.length) ∘ toW3)).sum = l.length * (24 + 2 * c.nsamp.toNat) := by
        intro l
        induction l with
        | nil => intro _; simp
        | cons x xs ih =>
          intro h
          have hx := h x (by simp)
          simp only [List.map_cons, List.sum_cons, List.length_cons, Function.comp, toW3]
          rw [ih (fun r hr => h r (by simp [hr]))]
          have : x.data.length = c.nsamp.toNat := by omega
          rw [this, Nat.add_mul, Nat.one_mul, Nat.add_comm]
      rw [this _ hlenall]

/-! ### with group-trigger requests woven in

While writing is active `ConfigurePulseLengths` is refused, but group-trigger connections may be edited at
any time.  Those requests change the broker only, so the statement on record lengths — and with it the
file theorem — holds for any history of blocks and group-trigger requests (no contiguity needed). -/

/-- operations that leave every channel's settings alone: data blocks and group-trigger edits -/
def KeepsSettings : Op → Prop
  | .block .. => True
  | .gadd _ => True
  | .gdel _ => True
  | .gstop => True
  | _ => False

theorem runOps_chanRecs_len (zts : List (List (Int × Int))) (j : Nat) :
    ∀ (ops : List Op) (s : Src) (c : Chan) (outs : List Out),
      (∀ o ∈ ops, KeepsSettings o) → s.chans[j]? = some c → c.ts.edgeMulti = false →
      runOps zts s ops = some outs →
      ∀ r ∈ chanRecs j outs, (r.data.length : Int) = c.nsamp ∧ r.npre = c.npre
  | [], s, c, outs, _, _, _, h => by
    simp only [runOps, Option.some.injEq] at h
    subst h
    intro r hr; simp [chanRecs] at hr
  | o :: os, s, c, outs, hk, hc, hem, h => by
    have hko := hk o (by simp)
    have hkos : ∀ o' ∈ os, KeepsSettings o' := fun o' ho' => hk o' (by simp [ho'])
    cases o with
    | block f t p sgs data =>
      simp only [runOps, stepOp, bind, pure, Option.bind_eq_some_iff, Option.some.injEq] at h
      obtain ⟨⟨s1, out1⟩, ⟨⟨s1', r⟩, hob, hpair⟩, outs2, hrun2, hout⟩ := h
      simp only [Prod.mk.injEq] at hpair
      obtain ⟨rfl, rfl⟩ := hpair
      subst hout
      obtain ⟨c1, prim, sec, hc1, hrj, hts, hns, hnp, hsecl, hpriml⟩ := opBlock_chan_len hob j c hc
      have ih := runOps_chanRecs_len zts j os s1' c1 outs2 hkos hc1 (by rw [hts]; exact hem) hrun2
      intro rr hrr
      simp only [chanRecs, hrj, Option.getD_some, List.mem_append] at hrr
      rcases hrr with (h1 | h1) | h1
      · exact hpriml hem rr h1
      · exact hsecl rr h1
      · have := ih rr h1
        rw [hns, hnp] at this
        exact this
    | gadd ps =>
      simp only [runOps, stepOp, bind, pure, Option.bind_eq_some_iff, Option.some.injEq] at h
      obtain ⟨⟨s1, out1⟩, hpair, outs2, hrun2, hout⟩ := h
      simp only [Prod.mk.injEq] at hpair
      obtain ⟨rfl, rfl⟩ := hpair
      subst hout
      exact runOps_chanRecs_len zts j os { s with broker := C09.applyAll C09.add s.broker ps } c outs2 hkos hc hem hrun2
    | gdel ps =>
      simp only [runOps, stepOp, bind, pure, Option.bind_eq_some_iff, Option.some.injEq] at h
      obtain ⟨⟨s1, out1⟩, hpair, outs2, hrun2, hout⟩ := h
      simp only [Prod.mk.injEq] at hpair
      obtain ⟨rfl, rfl⟩ := hpair
      subst hout
      exact runOps_chanRecs_len zts j os { s with broker := C09.applyAll C09.del s.broker ps } c outs2 hkos hc hem hrun2
    | gstop =>
      simp only [runOps, stepOp, bind, pure, Option.bind_eq_some_iff, Option.some.injEq] at h
      obtain ⟨⟨s1, out1⟩, hpair, outs2, hrun2, hout⟩ := h
      simp only [Prod.mk.injEq] at hpair
      obtain ⟨rfl, rfl⟩ := hpair
      subst hout
      exact runOps_chanRecs_len zts j os { s with broker := C09.stopAll s.broker } c outs2 hkos hc hem hrun2
    | trig r => exact absurd hko (by simp [KeepsSettings])
    | len a b => exact absurd hko (by simp [KeepsSettings])

/-- **`pipeline_to_ljh22_file` for any history of blocks and group-trigger requests** (what can happen
inside a writing period without touching the channel's own settings) -/
theorem pipeline_to_ljh22_file_weave (zts : List (List (Int × Int))) (j : Nat)
    (ops : List Op) (s : Src) (c : Chan) (outs : List Out)
    (hk : ∀ o ∈ ops, KeepsSettings o) (hc : s.chans[j]? = some c) (hem : c.ts.edgeMulti = false)
    (hrun : runOps zts s ops = some outs)
    (p : C05.Params) (hdr : C05.Bytes) (hp : p.nsamp = c.nsamp)
    (batches : List (List C05.W22)) (hbat : batches.flatten = (chanRecs j outs).map toW22) :
    let recs := chanRecs j outs
    let fin := C05.run (C05.fmt22 p hdr) {} (fileOps batches)
    (recs = [] → C05.fileOf fin = none) ∧
    (recs ≠ [] → ∃ file, C05.fileOf fin = some file ∧ file.take hdr.length = hdr ∧
      C05.parseBody (C05.parseLJH22 p.nsamp.toNat 2) (file.drop hdr.length) =
        some (recs.map fun r => C05.expect22 p.subdiv p.suboff (toW22 r)) ∧
      file.length = hdr.length + recs.length * (16 + p.nsamp.toNat * 2)) := by
  have hlenall := runOps_chanRecs_len zts j ops s c outs hk hc hem hrun
  have hacc : ∀ b ∈ batches, ∀ r ∈ b, (C05.fmt22 p hdr).accept r = true := by
    intro b hbm r hr
    have : r ∈ batches.flatten := List.mem_flatten.mpr ⟨b, hbm, hr⟩
    rw [hbat] at this
    obtain ⟨x, hx, rfl⟩ := List.mem_map.mp this
    have := (hlenall x hx).1
    simp only [C05.fmt22, toW22, beq_iff_eq]
    omega
  obtain ⟨hstop, htouch, haccd⟩ := fileOps_spec (C05.fmt22 p hdr) batches hacc
  have hany := any_nonempty_iff batches
  rw [hbat] at hany
  simp only
  refine ⟨?_, ?_⟩
  · intro hnil
    have ht : C05.touched (ρ := C05.W22) {} (fileOps batches) = false := by
      rw [htouch]
      cases h : batches.any (fun b => !b.isEmpty) with
      | false => rfl
      | true => exact absurd (by rw [hnil]; rfl) (hany.mp h)
    rw [C05.C05_file_is_header_plus_records _ _ hstop, ht]
    simp
  · intro hne
    have ht : C05.touched (ρ := C05.W22) {} (fileOps batches) = true := by
      rw [htouch]; exact hany.mpr (by simpa using hne)
    obtain ⟨file, hf, htake, hparse, hlen⟩ := C05.C05_body_parses_back_ljh22 p hdr _ hstop ht
    rw [haccd, hbat] at hparse hlen
    refine ⟨file, hf, htake, ?_, ?_⟩
    · rw [hparse, List.map_map]; rfl
    · rw [hlen, List.length_map]

/-! ### OFF: the analysis values travel as opaque bit patterns -/

/-- the float32 bit patterns `AnalyzeData` attaches to a record (pre-trigger mean, pre-trigger delta,
residual standard deviation) and the projection coefficients; their VALUES are C13's subject -/
structure Analysis where
  ptm : Nat
  pd : Nat
  resid : Nat
  coefs : List Nat

/-- what `PublishData` hands to the OFF writer for an analysed record -/
def toWO (an : Rec → Analysis) (r : Rec) : C05.WO :=
  { nsamp := r.data.length, npre := r.npre, frame := r.frame, ts := r.time,
    ptm := (an r).ptm, pd := (an r).pd, resid := (an r).resid, coefs := (an r).coefs }

/-- **Published records to the OFF file.**  For ANY list of records a channel publishes inside a writing
period (so in particular `chanRecs j outs` of any run of the source model, edge-multi or not — the OFF
record carries its own length) and any analysis that yields one coefficient per basis of the loaded model
(`projR`) for every record: the OFF file exists iff there was a record, and its body read back with the
0.3.0 record layout is exactly those records in order — record length, pre-trigger length, frame, time
stamp as the pipeline cut them, analysis values as attached —, file length = header + count × (36 + 4·projR). -/
theorem records_to_off_file (recs : List Rec)
    (an : Rec → Analysis) (p : C05.Params) (hdr : C05.Bytes)
    (han : ∀ r ∈ recs, (an r).coefs.length = p.projR)
    (batches : List (List C05.WO)) (hbat : batches.flatten = recs.map (toWO an)) :
    let fin := C05.run (C05.fmtOff p hdr) {} (fileOps batches)
    (recs = [] → C05.fileOf fin = none) ∧
    (recs ≠ [] → ∃ file, C05.fileOf fin = some file ∧ file.take hdr.length = hdr ∧
      C05.parseBody (C05.parseOFF p.projR) (file.drop hdr.length) =
        some (recs.map fun r => C05.expectOFF (toWO an r)) ∧
      file.length = hdr.length + recs.length * (36 + 4 * p.projR)) := by
  have hacc : ∀ b ∈ batches, ∀ r ∈ b, (C05.fmtOff p hdr).accept r = true := by
    intro b hbm r hr
    have : r ∈ batches.flatten := List.mem_flatten.mpr ⟨b, hbm, hr⟩
    rw [hbat] at this
    obtain ⟨x, hx, rfl⟩ := List.mem_map.mp this
    simp only [C05.fmtOff, toWO, beq_iff_eq]
    exact han x hx
  obtain ⟨hstop, htouch, haccd⟩ := fileOps_spec (C05.fmtOff p hdr) batches hacc
  have hany := any_nonempty_iff batches
  rw [hbat] at hany
  simp only
  refine ⟨?_, ?_⟩
  · intro hnil
    have ht : C05.touched (ρ := C05.WO) {} (fileOps batches) = false := by
      rw [htouch]
      cases h : batches.any (fun b => !b.isEmpty) with
      | false => rfl
      | true => exact absurd (by rw [hnil]; rfl) (hany.mp h)
    rw [C05.C05_file_is_header_plus_records _ _ hstop, ht]
    simp
  · intro hne
    have ht : C05.touched (ρ := C05.WO) {} (fileOps batches) = true := by
      rw [htouch]; exact hany.mpr (by simpa using hne)
    obtain ⟨file, hf, htake, hparse, hlen⟩ := C05.C05_body_parses_back_off p hdr _ hstop ht
    rw [haccd, hbat] at hparse hlen
    refine ⟨file, hf, htake, ?_, ?_⟩
    · rw [hparse, List.map_map]; rfl
    · rw [hlen, List.length_map]

/-- **Published records to the LJH3 file, any trigger mode.**  The LJH3 record carries its own length, so
for ANY list of records a channel publishes inside a writing period (edge-multi records of varying length
included), each shorter than 2^31 samples: the file exists iff there was a record and its body reads back
as exactly those records in order, file length = header + Σ (24 + 2·length). -/
theorem records_to_ljh3_file (recs : List Rec) (hdr : C05.Bytes)
    (hlen : ∀ r ∈ recs, r.data.length < 2 ^ 31)
    (batches : List (List C05.W3)) (hbat : batches.flatten = recs.map toW3) :
    let fin := C05.run (C05.fmt3 hdr) {} (fileOps batches)
    (recs = [] → C05.fileOf fin = none) ∧
    (recs ≠ [] → ∃ file, C05.fileOf fin = some file ∧ file.take hdr.length = hdr ∧
      C05.parseBody C05.parseLJH3 (file.drop hdr.length) = some (recs.map fun r => C05.expect3 (toW3 r)) ∧
      file.length = hdr.length + (recs.map fun r => 24 + 2 * r.data.length).sum) := by
  have hacc : ∀ b ∈ batches, ∀ r ∈ b, (C05.fmt3 hdr).accept r = true := fun _ _ _ _ => rfl
  obtain ⟨hstop, htouch, haccd⟩ := fileOps_spec (C05.fmt3 hdr) batches hacc
  have hany := any_nonempty_iff batches
  rw [hbat] at hany
  have hpub : ∀ b, C05.Op.publish b ∈ fileOps batches → ∀ r ∈ b, r.data.length < 2 ^ 31 := by
    intro b hbm r hr
    have hb' : b ∈ batches := by
      simp only [fileOps, List.mem_cons, List.mem_append, List.mem_map] at hbm
      rcases hbm with h | h | h | h
      all_goals first | exact h | (obtain ⟨b', hb', h⟩ := h; injection h with h; subst h; exact hb') | cases h
    have : r ∈ batches.flatten := List.mem_flatten.mpr ⟨b, hb', hr⟩
    rw [hbat] at this
    obtain ⟨x, hx, rfl⟩ := List.mem_map.mp this
    exact hlen x hx
  simp only
  refine ⟨?_, ?_⟩
  · intro hnil
    have ht : C05.touched (ρ := C05.W3) {} (fileOps batches) = false := by
      rw [htouch]
      cases h : batches.any (fun b => !b.isEmpty) with
      | false => rfl
      | true => exact absurd (by rw [hnil]; rfl) (hany.mp h)
    rw [C05.C05_file_is_header_plus_records _ _ hstop, ht]
    simp
  · intro hne
    have ht : C05.touched (ρ := C05.W3) {} (fileOps batches) = true := by
      rw [htouch]; exact hany.mpr (by simpa using hne)
    obtain ⟨file, hf, htake, hparse, hlen'⟩ := C05.C05_body_parses_back_ljh3 hdr _ hpub hstop ht
    rw [haccd, hbat] at hparse hlen'
    refine ⟨file, hf, htake, ?_, ?_⟩
    · rw [hparse, List.map_map]; rfl
    · rw [hlen', List.map_map]; rfl

/-! ### any writer history (START / PAUSE / UNPAUSE / flushes / STOP around the batches) -/

/-- the records published while the writer is active and unpaused, whatever the writer's own filter -/
def publishedWhileWriting {ρ} (F : C05.Fmt ρ) (c : C05.Ctl) (ops : List (C05.Op ρ)) : List ρ :=
  C05.accepted { F with accept := fun _ => true } c ops

theorem taken_all {ρ} (F : C05.Fmt ρ) (b : List ρ) (h : ∀ r ∈ b, F.accept r = true) : C05.taken F b = b := by
  unfold C05.taken
  split
  · exact takeWhile_all F.accept b h
  · exact List.filter_eq_self.mpr h

/-- when the writer's filter passes every published record, what it accepts is exactly what was published
while writing — for ANY history of START, PAUSE, UNPAUSE, flushes, STOP -/
theorem accepted_eq_published {ρ} (F : C05.Fmt ρ) : ∀ (ops : List (C05.Op ρ)) (c : C05.Ctl),
    (∀ b, C05.Op.publish b ∈ ops → ∀ r ∈ b, F.accept r = true) →
    C05.accepted F c ops = publishedWhileWriting F c ops
  | [], _, _ => rfl
  | op :: ops, c, h => by
    have ih := accepted_eq_published F ops (C05.ctlStep c op) (fun b hb => h b (by simp [hb]))
    unfold publishedWhileWriting at ih ⊢
    simp only [C05.accepted]
    rw [ih]
    congr 1
    cases op with
    | publish b =>
      simp only [C05.accStep]
      split
      · rw [taken_all F b (h b (by simp))]
        exact (taken_all { F with accept := fun _ => true } b (fun _ _ => rfl)).symm
      · rfl
    | _ => rfl

/-- **The LJH 2.2 length filter never drops a pipeline record, under any write-control history.**  Channel
`j` (not in edge-multi mode) of any source processes any history of blocks and group-trigger requests; the
channel's LJH 2.2 writer goes through ANY history `wops` of START, PAUSE, UNPAUSE, flushes and STOP in which
every published batch consists of records of that run.  If the history ends stopped and a non-empty batch
got through, the file body, read back with the documented layout, is exactly the records published while
writing was active and unpaused, in order. -/
theorem pipeline_to_ljh22_file_any_history (zts : List (List (Int × Int))) (j : Nat)
    (ops : List Op) (s : Src) (c : Chan) (outs : List Out)
    (hk : ∀ o ∈ ops, KeepsSettings o) (hc : s.chans[j]? = some c) (hem : c.ts.edgeMulti = false)
    (hrun : runOps zts s ops = some outs)
    (p : C05.Params) (hdr : C05.Bytes) (hp : p.nsamp = c.nsamp)
    (wops : List (C05.Op C05.W22))
    (hpub : ∀ b, C05.Op.publish b ∈ wops → ∀ w ∈ b, ∃ r ∈ chanRecs j outs, w = toW22 r)
    (hstop : (C05.run (C05.fmt22 p hdr) {} wops).ctl.phase = .stopped)
    (ht : C05.touched (ρ := C05.W22) {} wops = true) :
    ∃ file, C05.fileOf (C05.run (C05.fmt22 p hdr) {} wops) = some file ∧ file.take hdr.length = hdr ∧
      C05.parseBody (C05.parseLJH22 p.nsamp.toNat 2) (file.drop hdr.length) =
        some ((publishedWhileWriting (C05.fmt22 p hdr) {} wops).map (C05.expect22 p.subdiv p.suboff)) ∧
      file.length = hdr.length + (publishedWhileWriting (C05.fmt22 p hdr) {} wops).length * (16 + p.nsamp.toNat * 2) := by
  have hlenall := runOps_chanRecs_len zts j ops s c outs hk hc hem hrun
  have hacc : ∀ b, C05.Op.publish b ∈ wops → ∀ w ∈ b, (C05.fmt22 p hdr).accept w = true := by
    intro b hb w hw
    obtain ⟨r, hr, rfl⟩ := hpub b hb w hw
    have := (hlenall r hr).1
    simp only [C05.fmt22, toW22, beq_iff_eq]
    omega
  obtain ⟨file, hf, htake, hparse, hlen⟩ := C05.C05_body_parses_back_ljh22 p hdr wops hstop ht
  rw [accepted_eq_published (C05.fmt22 p hdr) wops {} hacc] at hparse hlen
  exact ⟨file, hf, htake, hparse, hlen⟩

end DastardV.Compose
