/-
From the datagrams to the samples in the file (C03 ∘ C01 ∘ C05, Abaco side).

`file_samples_are_stream_excerpts_of_blocks` (Lemmas/ComposeExcerpt.lean) says: the `k`-th record parsed
back from a channel's LJH 2.2 file has exactly `nsamp` samples, and they are the consecutive samples of
the stream DELIVERED to the pipeline channel (`chanStream j ops`) that start `npre` samples before the
record's trigger frame.  `C03_stream_exact` says what the Abaco reader loop delivers: per (group `i`,
channel `ch`), the concatenation of the blocks' segments is the gap-filled PACKET stream — for every
packet of the group from the common start on, in sequence order, the packet's own samples of that
channel if it arrived, `fpp` filler samples if it was lost.  Here the two are joined:

* `chanStream_blocks`   the stream delivered to pipeline channel `j` by block operations made from ingest
                        blocks is the concatenation of the channel's segments, `(chanSegs j blocks).flatten`
                        — which `chanSegs_catChan` identifies with `C03.catChan blocks i ch` for
                        `j = chanIndex L i ch`;
* `abaco_file_samples_are_packet_samples`
                        for every packet history the ingest theorems cover: the samples of the `k`-th
                        record in the file of channel `chanIndex L i ch` are
                        `((S.drop a).take nsamp).map (· % 65536)`, `S` = the gap-filled packet stream of
                        (group `i`, channel `ch`), `a = frame − f0 − npre`;
* `streamOK_packet`, `excerpt_sample_of_packet`
                        what `streamOK` means sample by sample: if the `q`-th expected packet arrived as
                        `p`, positions `q·fpp … q·fpp+fpp−1` of `S` are `p`'s own samples of the channel,
                        so the file sample that falls on position `q·fpp + r` IS sample `r` of that
                        datagram's channel data (the 16-bit reduction changes nothing: `conv_lt`).

By `wire_to_ingest` (Lemmas/ComposePackets.lean) the packets `C03.Pkt` of the history are the ingest views
of the datagrams decoded from the wire, so `H` may be read as the datagram history.
-/
import DastardV.Lemmas.ComposeAbaco
import DastardV.Lemmas.ComposeExcerpt
namespace DastardV.Compose
open Pipe Trig

/-- **the delivered stream of a pipeline channel, for block operations made from ingest blocks**, is the
concatenation of the channel's segments of those blocks -/
theorem chanStream_blocks (mk : C03.Block → Int × Int × List Bool) (j : Nat) (bs : List C03.Block) :
    chanStream j (bs.map (blockOp mk)) = (chanSegs j bs).flatten := by
  unfold chanStream chanSegs
  rw [List.map_map]
  rfl

/-- block operations made with a `mk` that gives every block the same sample period carry one period -/
theorem onePeriod_blocks (mk : C03.Block → Int × Int × List Bool) (per : Int) (hper : ∀ b, (mk b).2.1 = per)
    (bs : List C03.Block) : ∀ o ∈ bs.map (blockOp mk), OnePeriod per o := by
  intro o ho
  obtain ⟨b, _, rfl⟩ := List.mem_map.mp ho
  exact hper b

/-! ### what `streamOK` says sample by sample -/

/-- the values the demultiplexer produces are 16-bit -/
theorem conv_lt (wide : Bool) (x : Int) : C03.conv wide x < 65536 := by
  unfold C03.conv
  split
  · generalize Int.tdiv x 65536 = y
    omega
  · omega

theorem chanOf_lt {nchan c : Nat} {p : C03.Pkt} {v : Nat} (h : v ∈ C03.chanOf nchan c p) : v < 65536 := by
  unfold C03.chanOf at h
  obtain ⟨i, _, rfl⟩ := List.mem_map.mp h
  exact conv_lt _ _

/-- if the `q`-th expected packet arrived as `p`, the `fpp` samples of the stream from position `q·fpp`
on are exactly `p`'s own samples of the channel -/
theorem streamOK_packet (fpp nchan c : Nat) :
    ∀ (E : List (Option C03.Pkt)) (xs : List Nat) (q : Nat) (p : C03.Pkt),
      C03.streamOK fpp nchan c E xs = true → E[q]? = some (some p) →
      (xs.drop (q * fpp)).take fpp = C03.chanOf nchan c p ∧ (q + 1) * fpp ≤ xs.length
  | [], _, _, _, _, hq => by simp at hq
  | e :: E, xs, 0, p, h, hq => by
    simp only [List.getElem?_cons_zero, Option.some.injEq] at hq
    subst hq
    simp only [C03.streamOK, Bool.and_eq_true, beq_iff_eq, decide_eq_true_eq] at h
    refine ⟨by simpa using h.1.1, by have := h.1.2; omega⟩
  | e :: E, xs, q + 1, p, h, hq => by
    simp only [List.getElem?_cons_succ] at hq
    have h' : fpp ≤ xs.length ∧ C03.streamOK fpp nchan c E (xs.drop fpp) = true := by
      cases e with
      | none =>
        simp only [C03.streamOK, Bool.and_eq_true, decide_eq_true_eq] at h
        exact h
      | some p' =>
        simp only [C03.streamOK, Bool.and_eq_true, beq_iff_eq, decide_eq_true_eq] at h
        exact ⟨h.1.2, h.2⟩
    obtain ⟨ih1, ih2⟩ := streamOK_packet fpp nchan c E (xs.drop fpp) q p h'.2 hq
    rw [List.drop_drop, List.length_drop] at *
    have e1 : (q + 1) * fpp = fpp + q * fpp := by rw [Nat.succ_mul]; omega
    have e2 : (q + 1 + 1) * fpp = (q + 1) * fpp + fpp := Nat.succ_mul _ _
    refine ⟨by rw [e1]; exact ih1, by rw [e2]; omega⟩

/-- **a file sample is a datagram sample.**  `S` a stream that consists of the expected packet sequence
`E` (`streamOK`), whose `q`-th packet arrived as `p`; an excerpt of `S` as the file theorems name it
(`n` samples from position `a`, each reduced mod 65536).  Its `m`-th sample, when it falls on position
`q·fpp + r` of the stream (`r < fpp`), is sample `r` of `p`'s data for the channel — unchanged by the
16-bit encoding. -/
theorem excerpt_sample_of_packet {fpp nchan c : Nat} {E : List (Option C03.Pkt)} {S : List Nat}
    (hs : C03.streamOK fpp nchan c E S = true) {q : Nat} {p : C03.Pkt} (hq : E[q]? = some (some p))
    {a n m r : Nat} (hm : m < n) (hr : r < fpp) (hpos : a + m = q * fpp + r) :
    (((S.drop a).take n).map (· % 65536))[m]? = (C03.chanOf nchan c p)[r]? ∧
    r < (C03.chanOf nchan c p).length := by
  obtain ⟨hP, hle⟩ := streamOK_packet fpp nchan c E S q p hs hq
  have hlen : (C03.chanOf nchan c p).length = fpp := by
    rw [← hP, List.length_take, List.length_drop]
    have e2 : (q + 1) * fpp = q * fpp + fpp := Nat.succ_mul _ _
    omega
  have hr' : r < (C03.chanOf nchan c p).length := by omega
  refine ⟨?_, hr'⟩
  have h1 : (C03.chanOf nchan c p)[r]? = S[a + m]? := by
    rw [← hP, List.getElem?_take_of_lt hr, List.getElem?_drop, hpos]
  rw [List.getElem?_map, List.getElem?_take_of_lt hm, List.getElem?_drop, ← h1]
  rw [List.getElem?_eq_getElem hr']
  simp only [Option.map_some, Option.some.injEq]
  exact Nat.mod_eq_of_lt (chanOf_lt (List.getElem_mem hr'))

/-! ### the theorem -/

/-- **The samples in an Abaco channel's file are the samples of the packets.**  For every packet history
the ingest theorems cover (hypotheses of `abaco_packets_to_files`: any loss pattern, any interleaving of
the groups, any batching into reads), blocks stamped by any `mk` that gives ALL blocks one sample period
`per` (`hper`; time stamps and signedness flags arbitrary), a source from `PrepareRun` (any restored
trigger settings, valid record lengths): the source does not crash, and for every group `i`
(`L[i]? = some l`) and channel `ch < l.nchan` of it, with `j = chanIndex L i ch` the pipeline channel and

* `S = C03.catChan blocks i ch` the stream `C03_stream_exact` speaks about: it consists of the expected
  packet sequence `E` of the group (`streamOK`: an arrived packet's own samples of channel `ch`, `fpp`
  filler samples for a lost one) and has `navail · fpp` samples,

the LJH 2.2 file of channel `j` written over that period (records reaching the writer in any batching),
read back with the documented layout, is a list `parsed` with one entry per published record, and its
`k`-th entry `R`, `r` being the `k`-th record published for the channel,

* has exactly `nsamp` samples,
* they are `((S.drop a).take nsamp.toNat).map (· % 65536)` with `(a : Int) = r.frame − f0 − npre` and
  `a + nsamp ≤ S.length`: the `nsamp` consecutive samples of the gap-filled PACKET stream that start
  `npre` samples before the record's trigger frame (`excerpt_sample_of_packet` turns this into "sample
  `r'` of datagram `q`"),
* carries `twos 8 (r.frame * subdiv + suboff)` in its subframe field and the record's time in its time
  field. -/
theorem abaco_file_samples_are_packet_samples (fpp : Nat) (L : List C03.GL) (f0 : Int) (hf0 : 0 ≤ f0)
    (H : List (List (List C03.Pkt))) (gs : List C03.Group) (perms : List (List Nat))
    (hv : C03.validIn fpp L H = true) (hi : C03.InitOK L gs) (hp : C03.PermsOK L.length H perms)
    (s' : C03.St) (outs : List (Nat × C03.Block))
    (hrun : C03.runFrom 0 (C03.startSt gs f0) H perms = .ok (s', outs))
    (mk : C03.Block → Int × Int × List Bool) (per : Int) (hper : ∀ b, (mk b).2.1 = per)
    (npre nsamp : Int) (hlen : 3 ≤ npre ∧ npre < nsamp) (saved : List (Nat × Trig.TS))
    (zts : List (List (Int × Int)))
    (hzt : ∀ (j : Nat) (p : Int), -1 ≤ Pipe.ztOf (zts[j]?.getD []) p ∧ Pipe.ztOf (zts[j]?.getD []) p ≤ 1) :
    ∃ res, runOps zts (prepare ((L.map (·.nchan)).sum) npre nsamp saved) ((outs.map (·.2)).map (blockOp mk)) = some res ∧
      ∀ (i : Nat) (l : C03.GL), L[i]? = some l → ∀ (ch : Nat), ch < l.nchan →
        let j := chanIndex L i ch
        let S := C03.catChan (outs.map (·.2)) i ch
        let E := ((C03.specOf l H i).drop (C03.skipOf (C03.startSN L) l)).take (C03.navail L H)
        C03.streamOK fpp l.nchan ch E S = true ∧ S.length = C03.navail L H * fpp ∧
        ∀ (p : C05.Params) (hdr : C05.Bytes), p.nsamp = nsamp →
        ∀ (batches : List (List C05.W22)), batches.flatten = (chanRecs j res).map toW22 →
          let recs := chanRecs j res
          let fin := C05.run (C05.fmt22 p hdr) {} (fileOps batches)
          (recs = [] → C05.fileOf fin = none) ∧
          (recs ≠ [] → ∃ file parsed, C05.fileOf fin = some file ∧ file.take hdr.length = hdr ∧
            C05.parseBody (C05.parseLJH22 p.nsamp.toNat 2) (file.drop hdr.length) = some parsed ∧
            parsed.length = recs.length ∧
            ∀ (k : Nat) (R : C05.R22), parsed[k]? = some R →
              ∃ r, recs[k]? = some r ∧
                (R.samples.length : Int) = nsamp ∧
                (∃ a : Nat, (a : Int) = r.frame - f0 - npre ∧ a + nsamp.toNat ≤ S.length ∧
                  R.samples = ((S.drop a).take nsamp.toNat).map (· % 65536)) ∧
                R.subframe = C05.twos 8 (r.frame * p.subdiv + p.suboff) ∧
                R.timeUs = C05.twos 8 (r.time.tdiv 1000)) := by
  have h1 := (C03.C03_frames_contiguous fpp L f0 H gs perms hv hi hp s' outs hrun).1
  have h2 := C03.C03_groups_aligned fpp L f0 H gs perms hv hi hp s' outs hrun
  have hstream := C03.C03_stream_exact fpp L f0 H gs perms hv hi hp s' outs hrun
  obtain ⟨res, hres, hall⟩ :=
    file_samples_are_stream_excerpts_of_blocks _ npre nsamp saved hlen zts hzt per f0 _
      (blocks_opsOK mk L _ f0 hf0 h2 h1) (onePeriod_blocks mk per hper _)
      (keepsSettings_blocks (blockOp mk) (fun b => ⟨_, _, _, _, _, rfl⟩) (outs.map (·.2)))
  refine ⟨res, hres, ?_⟩
  intro i l hl ch hch
  have hmap := chanSegs_catChan L (outs.map (·.2)) h2 i l hl ch hch
  have hcount := C03.C03_sample_count fpp L f0 H gs perms hv hi hp s' outs hrun i l hl ch hch
  have hsok : C03.streamOK fpp l.nchan ch
      (((C03.specOf l H i).drop (C03.skipOf (C03.startSN L) l)).take (C03.navail L H))
      (C03.catChan (outs.map (·.2)) i ch) = true := by
    unfold C03.chkStream at hstream
    rw [List.all_eq_true] at hstream
    have h3 := hstream i (List.mem_range.mpr (C03.lt_length_of_getElem? hl))
    rw [hl] at h3
    simp only [List.all_eq_true, List.mem_range] at h3
    exact h3 ch hch
  refine ⟨hsok, hcount, ?_⟩
  intro p hdr hpn batches hbat
  have := hall (chanIndex L i ch) (chanIndex_lt L i l ch hl hch) p hdr hpn batches hbat
  rw [chanStream_blocks, hmap] at this
  exact this

/-! ### Non-vacuity -/

/-- the hypothesis on `mk` is met by the obvious stamping (time stamp from the first frame number, one
period, all channels unsigned), and `chanStream_blocks` / `excerpt_sample_of_packet` speak about
non-trivial objects: one group of two channels, two frames per packet, packets 1 and 3 arrived, packet
2 lost — channel 1's stream holds the arrived packets' samples around two filler samples, and the
sample at position 4 = 2·2 + 0 of an excerpt from position 3 is sample 0 of packet 3 -/
example :
    (∀ b : C03.Block, ((fun b : C03.Block => (b.first * 1000, (1000 : Int), ([] : List Bool))) b).2.1 = 1000) ∧
    C03.streamOK 2 2 1 [some ⟨1, false, [10, 11, 12, 13]⟩, none, some ⟨3, false, [30, 31, 32, 33]⟩]
      [11, 13, 0, 0, 31, 33] = true ∧
    (((([11, 13, 0, 0, 31, 33] : List Nat).drop 3).take 3).map (· % 65536))[1]? =
      (C03.chanOf 2 1 ⟨3, false, [30, 31, 32, 33]⟩)[0]? := by
  refine ⟨fun _ => rfl, by decide, by decide⟩

end DastardV.Compose
