/-
C09 for every history of the source model: in EVERY processing cycle of EVERY run from `PrepareRun` —
any trigger / record-length / group-trigger requests in between — the secondaries each channel publishes
sit exactly at the primary trigger frames of the channels connected to it as sources at that moment.
Lifts `C09_source_level` (one cycle) over operation sequences with the invariant `SrcSafe`, which carries
the broker's well-formedness across requests.
-/
import DastardV.Lemmas.PipeGroup
namespace DastardV.Pipe
open Trig

/-- the statement of C09 for one cycle's output `rs` of a source in state `s` -/
def BlockC09 (s : Src) (rs : List (List Rec)) : Prop :=
  ∃ prims : List (List Rec), prims.length = s.chans.length ∧
    ∀ (j : Nat), j < s.chans.length → ∃ prim sec, prims[j]? = some prim ∧ rs[j]? = some (prim ++ sec) ∧
      C09.SameMultiset (sec.map (·.frame))
        ((C09.sourcesOf s.broker j).flatMap fun src => (prims[src.toNat]?.getD []).map (·.frame))

/-- every block output of a run satisfies `BlockC09` w.r.t. the state the block found -/
def C09Outs (zts : List (List (Int × Int))) : Src → List Op → List Out → Prop
  | _, [], _ => True
  | _, _ :: _, [] => True
  | s, op :: ops, out :: outs =>
    (match op, out with
      | .block .., .recs rs => BlockC09 s rs
      | _, _ => True) ∧
    (match stepOp zts s op with
      | some (s', _) => C09Outs zts s' ops outs
      | none => True)

/-- **C09 over any operation sequence** (with `runOps_safe`: the run exists and every cycle obeys C09) -/
theorem runOps_c09 (zts : List (List (Int × Int)))
    (hzt : ∀ (j : Nat) (p : Int), -1 ≤ ztOf (zts[j]?.getD []) p ∧ ztOf (zts[j]?.getD []) p ≤ 1) (nch : Nat) :
    ∀ (ops : List Op) (F : Int) (s : Src) (NP NS : Int), SrcSafe NP NS F s → s.chans.length = nch →
      OpsOK nch F ops → ∃ outs, runOps zts s ops = some outs ∧ C09Outs zts s ops outs
  | [], _, _, _, _, _, _, _ => ⟨[], rfl, trivial⟩
  | o :: os, F, s, NP, NS, hs, hn, hok => by
    cases o with
    | block first t0 per signed data =>
      obtain ⟨hdl, n, hdn, hf0, hfF, hrest⟩ := hok
      obtain ⟨s', rs, hob, hs', hn'⟩ := opBlock_safe hs first t0 per signed data zts hzt (by rw [hdl, hn]) n hdn hf0
        (Or.inl hfF)
      obtain ⟨outs, ho, hc⟩ := runOps_c09 zts hzt nch os (F + n) s' NP NS (by rw [← hfF]; exact hs') (by rw [hn', hn]) hrest
      obtain ⟨hg, hbn, _, _, _⟩ := srcSafe_iff.mp hs
      refine ⟨.recs rs :: outs, by simp [runOps, stepOp, bind, pure, hob, ho], ?_, ?_⟩
      · exact C09_source_level hg hbn hob
      · simp only [stepOp, bind, pure, hob, Option.bind_some]
        exact hc
    | trig r =>
      obtain ⟨s', e, h1, hs', hn'⟩ := opTrig_safe hs r
      obtain ⟨outs, ho, hc⟩ := runOps_c09 zts hzt nch os F s' NP NS hs' (by rw [hn', hn]) hok
      refine ⟨.err e :: outs, by simp [runOps, stepOp, bind, pure, h1, ho], trivial, ?_⟩
      simp only [stepOp, bind, pure, h1, Option.bind_some]
      exact hc
    | len a b =>
      obtain ⟨NP', NS', hs', hn'⟩ := opLen_safe hs a b
      obtain ⟨outs, ho, hc⟩ := runOps_c09 zts hzt nch os F _ NP' NS' hs' (by rw [hn', hn]) hok
      exact ⟨.err (opLen s a b).2 :: outs, by simp [runOps, stepOp, bind, pure, ho], trivial, by simpa [stepOp] using hc⟩
    | gadd ps =>
      obtain ⟨hg, hbn, hv, L, hch⟩ := srcSafe_iff.mp hs
      obtain ⟨g1, g2, _⟩ := C09.applyAll_add_spec s.broker hg ps
      obtain ⟨outs, ho, hc⟩ := runOps_c09 zts hzt nch os F { s with broker := C09.applyAll C09.add s.broker ps } NP NS
        (srcSafe_iff.mpr ⟨g1, by rw [g2]; exact hbn, hv, L, hch⟩) hn hok
      exact ⟨.err false :: outs, by simp [runOps, stepOp, bind, pure, ho], trivial, by simpa [stepOp] using hc⟩
    | gdel ps =>
      obtain ⟨hg, hbn, hv, L, hch⟩ := srcSafe_iff.mp hs
      obtain ⟨g1, g2, _⟩ := C09.applyAll_del_spec s.broker hg ps
      obtain ⟨outs, ho, hc⟩ := runOps_c09 zts hzt nch os F { s with broker := C09.applyAll C09.del s.broker ps } NP NS
        (srcSafe_iff.mpr ⟨g1, by rw [g2]; exact hbn, hv, L, hch⟩) hn hok
      exact ⟨.err false :: outs, by simp [runOps, stepOp, bind, pure, ho], trivial, by simpa [stepOp] using hc⟩
    | gstop =>
      obtain ⟨hg, hbn, hv, L, hch⟩ := srcSafe_iff.mp hs
      obtain ⟨g1, _, g2⟩ := C09.stop_spec s.broker
      obtain ⟨outs, ho, hc⟩ := runOps_c09 zts hzt nch os F { s with broker := C09.stopAll s.broker } NP NS
        (srcSafe_iff.mpr ⟨g1, by rw [g2]; exact hbn, hv, L, hch⟩) hn hok
      exact ⟨.err false :: outs, by simp [runOps, stepOp, bind, pure, ho], trivial, by simpa [stepOp] using hc⟩

/-- **C09 for every run from `PrepareRun`**: any restored trigger settings, valid record lengths, any
history of requests and blocks as a data source delivers them. -/
theorem C09_run_level (nch : Nat) (npre nsamp : Int) (saved : List (Nat × TS)) (hv : 3 ≤ npre ∧ npre < nsamp)
    (zts : List (List (Int × Int)))
    (hzt : ∀ (j : Nat) (p : Int), -1 ≤ ztOf (zts[j]?.getD []) p ∧ ztOf (zts[j]?.getD []) p ≤ 1)
    (ops : List Op) (F : Int) (hok : OpsOK nch F ops) :
    ∃ outs, runOps zts (prepare nch npre nsamp saved) ops = some outs ∧
      C09Outs zts (prepare nch npre nsamp saved) ops outs := by
  obtain ⟨hs, hn⟩ := prepare_safe nch npre nsamp saved hv F
  exact runOps_c09 zts hzt nch ops F _ npre nsamp hs hn hok

end DastardV.Pipe
