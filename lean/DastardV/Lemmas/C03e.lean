/-
C03 helper lemmas, part e: whole runs (`runFrom`) — induction over the ticks of a history.
-/
import DastardV.Lemmas.C03d
namespace DastardV.C03

/-- shape of one block: one channel list per group, `nchan` channels each, all `nframes` long -/
def ShapeOK (L : List GL) (b : Block) : Prop :=
  b.data.map (·.length) = L.map (·.nchan) ∧ ∀ g ∈ b.data, ∀ ch ∈ g, ch.length = b.nframes

theorem arrOf_cons (arr : List (List Pkt)) (hs : List (List (List Pkt))) (i : Nat) :
    arrOf (arr :: hs) i = arr.getD i [] ++ arrOf hs i := by
  simp [arrOf]

theorem arrOf_nil (i : Nat) : arrOf [] i = [] := rfl

theorem arrOf_append (H1 H2 : List (List (List Pkt))) (i : Nat) : arrOf (H1 ++ H2) i = arrOf H1 i ++ arrOf H2 i := by
  simp [arrOf]

/-- a window of a list is not changed by appending to the list -/
theorem take_drop_append {α} (xs ys : List α) (s m : Nat) (h : s + m ≤ xs.length) :
    ((xs ++ ys).drop s).take m = (xs.drop s).take m := by
  rw [List.drop_append_of_le_length (by omega), List.take_append_of_le_length (by rw [List.length_drop]; omega)]

theorem take_drop_split {α} (xs : List α) (s m k : Nat) :
    (xs.drop s).take (m + k) = (xs.drop s).take m ++ (xs.drop (s + m)).take k := by
  rw [List.take_add, List.drop_drop]

theorem window_length (L : List GL) (A : Nat → List Pkt) (l : GL) (i n m : Nat) :
    (window L A l i n m).length = l.nchan := by simp [window]

theorem window_chan (L : List GL) (A : Nat → List Pkt) (l : GL) (i n m ch : Nat) (h : ch < l.nchan) :
    (window L A l i n m).getD ch [] =
      chanData l.nchan ch (((fullOf l (A i)).drop (skipOf (startSN L) l + n)).take m) := by
  unfold window
  rw [List.getD_eq_getElem?_getD, List.getElem?_map, List.getElem?_range h]
  rfl

theorem window_shape (fpp : Nat) (L : List GL) (A : Nat → List Pkt) (hok : AllOK fpp L A) (b : Block) (n m : Nat)
    (hnf : b.nframes = m * fpp) (hlen : b.data.length = L.length)
    (hdat : ∀ i l, L[i]? = some l → skipOf (startSN L) l + n + m ≤ (fullOf l (A i)).length ∧
      b.data[i]? = some (window L A l i n m)) : ShapeOK L b := by
  constructor
  · apply List.ext_getElem?
    intro i
    rw [List.getElem?_map, List.getElem?_map]
    by_cases hi : i < L.length
    · obtain ⟨l, hl⟩ := getElem?_of_lt_length hi
      rw [(hdat i l hl).2, hl]
      simp [window_length]
    · rw [List.getElem?_eq_none (by omega), List.getElem?_eq_none (by omega)]
      rfl
  · intro g hg ch hch
    obtain ⟨i, hi⟩ := List.mem_iff_getElem?.mp hg
    have hil : i < L.length := by rw [← hlen]; exact lt_length_of_getElem? hi
    obtain ⟨l, hl⟩ := getElem?_of_lt_length hil
    obtain ⟨hle, hd⟩ := hdat i l hl
    rw [hi] at hd; cases hd
    unfold window at hch
    obtain ⟨c, _, hc⟩ := List.mem_map.mp hch
    rw [← hc, chanData_length fpp l.nchan c (hok i l hl).nchan_pos _ (((fullOf_wf (hok i l hl)).drop _).take _),
      List.length_take, List.length_drop, hnf]
    congr 1
    omega

theorem catChan_nil (i c : Nat) : catChan [] i c = [] := rfl

theorem catChan_cons (b : Block) (bs : List Block) (i c : Nat) :
    catChan (b :: bs) i c = (b.data.getD i []).getD c [] ++ catChan bs i c := by
  simp [catChan]

/-- what a run from an invariant state produces -/
theorem run_spec (fpp : Nat) (L : List GL) (f0 : Int) (hL : L ≠ []) :
    ∀ (hist : List (List (List Pkt))) (t : Nat) (s : St) (A B : Nat → List Pkt) (c a : Nat → Nat)
      (n rep : Nat) (perms : List (List Nat)),
      (∀ i, B i = A i ++ arrOf hist i) → AllOK fpp L B →
      hist.length ≤ perms.length → (∀ p ∈ perms, ∀ i, i < L.length → i ∈ p) →
      TInv fpp L f0 A s c a n rep →
      ∃ s' bs c' a' n' rep', runFrom t s hist perms = .ok (s', bs) ∧
        TInv fpp L f0 B s' c' a' n' rep' ∧ n ≤ n' ∧
        chkFrames (f0 + ((fpp * n : Nat) : Int)) (bs.map (·.2)) = true ∧
        (∀ b ∈ bs.map (·.2), ShapeOK L b) ∧
        (∀ i l, L[i]? = some l → ∀ ch, ch < l.nchan →
          catChan (bs.map (·.2)) i ch =
            chanData l.nchan ch (((fullOf l (B i)).drop (skipOf (startSN L) l + n)).take (n' - n))) ∧
        rep' = rep + (bs.map (·.2.dropped)).sum ∧
        (∀ tk b, bs.getLast? = some (tk, b) → tk + 1 = t + hist.length →
          s'.pend = 0 ∧ ∀ i l, L[i]? = some l → a' i = addedOf l (B i)) ∧
        (hist = [] → s' = s ∧ a' = a) ∧
        (∀ x ∈ bs, ∃ nb mb, n ≤ nb ∧ nb + mb ≤ n' ∧ 0 < mb ∧ x.2.nframes = mb * fpp ∧
          ∀ i l, L[i]? = some l → x.2.data[i]? = some (window L B l i nb mb)) := by
  intro hist
  induction hist with
  | nil =>
    intro t s A B c a n rep perms hB hok _ _ hinv
    have hBA : B = A := funext fun i => by rw [hB i, arrOf_nil, List.append_nil]
    subst hBA
    refine ⟨s, [], c, a, n, rep, rfl, hinv, Nat.le_refl _, rfl, ?_, ?_, by simp, ?_, fun _ => ⟨rfl, rfl⟩,
      (fun x hx => by simp at hx)⟩
    · intro b hb; simp at hb
    · intro i l _ ch _
      rw [Nat.sub_self]; simp [catChan, chanData]
    · intro tk b h; simp at h
  | cons arr hs ih =>
    intro t s A B c a n rep perms hB hok hlen hcov hinv
    cases perms with
    | nil => simp at hlen
    | cons p ps =>
    -- arrivals after the first tick
    have hB1 : ∀ i, B i = (A i ++ arr.getD i []) ++ arrOf hs i := by
      intro i; rw [hB i, arrOf_cons, List.append_assoc]
    have hok1 : AllOK fpp L (fun i => A i ++ arr.getD i []) := by
      intro i l hl
      have := hok i l hl
      rw [hB1 i] at this
      exact this.prefix
    obtain ⟨s1, o, c1, a1, htick, hcase⟩ :=
      tick_spec fpp L f0 A s c a n rep arr p hL hok1 (hcov p (by simp)) hinv
    rw [runFrom]
    simp only [List.headD_cons, List.tail_cons]
    rw [htick]
    simp only []
    cases o with
    | none =>
      simp only [] at hcase
      obtain ⟨s', bs, c', a', n', rep', hrun, hinv', hnn, hfr, hsh, hdat, hrep, hlast, _, hwin⟩ :=
        ih (t + 1) s1 _ B c1 a1 n rep ps hB1 hok (by simpa using hlen)
          (fun q hq => hcov q (List.mem_cons_of_mem _ hq)) hcase
      rw [hrun]
      refine ⟨s', bs, c', a', n', rep', rfl, hinv', hnn, hfr, hsh, hdat, hrep, ?_, (fun h => by cases h), hwin⟩
      intro tk b h1 h2
      exact hlast tk b h1 (by simp only [List.length_cons] at h2; omega)
    | some b =>
      simp only [] at hcase
      obtain ⟨m, hm, hinv1, hnf, hfirst, hpend, ha1, hdlen, hdata⟩ := hcase
      obtain ⟨s', bs, c', a', n', rep', hrun, hinv', hnn, hfr, hsh, hdat, hrep, hlast, hnil, hwin⟩ :=
        ih (t + 1) s1 _ B c1 a1 (n + m) (rep + b.dropped) ps hB1 hok (by simpa using hlen)
          (fun q hq => hcov q (List.mem_cons_of_mem _ hq)) hinv1
      rw [hrun]
      -- the window of this tick, seen in the final filled lists
      have hstable : ∀ i l, L[i]? = some l →
          ((fullOf l (B i)).drop (skipOf (startSN L) l + n)).take m =
            ((fullOf l (A i ++ arr.getD i [])).drop (skipOf (startSN L) l + n)).take m := by
        intro i l hl
        have hg := hok i l hl
        rw [hB1 i] at hg
        rw [hB1 i, (fullOf_append hg).1]
        exact take_drop_append _ _ _ _ (by have := (hdata i l hl).1; omega)
      refine ⟨s', (t, b) :: bs, c', a', n', rep', rfl, hinv', by omega, ?_, ?_, ?_, ?_, ?_, (fun h => by cases h), ?_⟩
      rotate_right
      · intro x hx
        rcases List.mem_cons.mp hx with hx | hx
        · subst hx
          refine ⟨n, m, Nat.le_refl _, hnn, hm, hnf, ?_⟩
          intro i l hl
          rw [(hdata i l hl).2]
          unfold window
          simp only [hstable i l hl]
        · obtain ⟨nb, mb, k1, k2, k3, k4, k5⟩ := hwin x hx
          exact ⟨nb, mb, by omega, k2, k3, k4, k5⟩
      · show chkFrames _ (b :: bs.map (·.2)) = true
        rw [chkFrames, hfirst, hnf]
        simp only [beq_self_eq_true, Bool.true_and]
        have e : f0 + ((fpp * n : Nat) : Int) + ((m * fpp : Nat) : Int) = f0 + ((fpp * (n + m) : Nat) : Int) := by
          rw [Nat.mul_add, Nat.mul_comm m fpp]; omega
        rw [e]; exact hfr
      · intro b' hb'
        simp only [List.map_cons, List.mem_cons] at hb'
        rcases hb' with hb' | hb'
        · subst hb'
          exact window_shape fpp L _ hok1 b' n m hnf hdlen hdata
        · exact hsh b' hb'
      · intro i l hl ch hch
        show catChan (b :: bs.map (·.2)) i ch = _
        rw [catChan_cons, hdat i l hl ch hch]
        have e1 : b.data.getD i [] = window L (fun i => A i ++ arr.getD i []) l i n m := by
          rw [List.getD_eq_getElem?_getD, (hdata i l hl).2]; rfl
        rw [e1, window_chan _ _ _ _ _ _ _ hch, ← hstable i l hl, ← chanData_append]
        have e2 : n' - n = m + (n' - (n + m)) := by omega
        rw [e2, take_drop_split, Nat.add_assoc]
      · rw [hrep]; simp only [List.map_cons, List.sum_cons]; omega
      · intro tk b' h1 h2
        cases bs with
        | nil =>
          simp only [List.getLast?_singleton, Option.some.injEq, Prod.mk.injEq] at h1
          have hhs : hs = [] := by
            cases hs with
            | nil => rfl
            | cons _ _ => simp only [List.length_cons] at h2; omega
          subst hhs
          obtain ⟨e1, e2⟩ := hnil rfl
          have hBA : B = fun i => A i ++ arr.getD i [] := funext fun i => by
            rw [hB1 i, arrOf_nil, List.append_nil]
          rw [hBA, e1, e2]
          exact ⟨hpend, ha1⟩
        | cons x xs =>
          rw [List.getLast?_cons_cons] at h1
          exact hlast tk b' h1 (by simp only [List.length_cons] at h2 ⊢; omega)

end DastardV.C03
