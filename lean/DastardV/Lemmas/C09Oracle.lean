/-
C09 — soundness of the multiset comparison the pipeline-level oracle (`Model/C09Pipe.lean`) uses.
`chkC09Block` accepts a channel's block output only when `msSub` / `sameMs` say that what the channel
published beyond its own primaries IS the multiset of its sources' primary frames.  These theorems state
what those answers mean, for lists of any length: `msSub a b = some r` splits `a` into `b` and `r` up to
order, and `sameMs a b = true` holds exactly for permutations — so an accepted case really published the
connected sources' primaries, each exactly once, nothing else.
-/
import DastardV.Model.C09Pipe
namespace DastardV.Pipe

theorem eraseOne_perm : ∀ (x : Int) (l l' : List Int), eraseOne x l = some l' → l.Perm (x :: l')
  | _, [], _, h => by simp [eraseOne] at h
  | x, y :: ys, l', h => by
    unfold eraseOne at h
    by_cases hxy : (x == y) = true
    · have e : x = y := by simpa using hxy
      simp only [hxy, if_true, Option.some.injEq] at h
      subst h; subst e; exact List.Perm.refl _
    · simp only [hxy, Bool.false_eq_true, if_false, Option.map_eq_some_iff] at h
      obtain ⟨r, hr, rfl⟩ := h
      exact ((eraseOne_perm x ys r hr).cons y).trans (List.Perm.swap x y r)

/-- a present element can always be removed -/
theorem eraseOne_of_mem : ∀ (x : Int) (l : List Int), x ∈ l → ∃ l', eraseOne x l = some l'
  | _, [], h => by simp at h
  | x, y :: ys, h => by
    unfold eraseOne
    by_cases hxy : (x == y) = true
    · exact ⟨ys, by simp [hxy]⟩
    · have hne : x ≠ y := by simpa using hxy
      have hm : x ∈ ys := by
        rcases List.mem_cons.1 h with e | e
        · exact absurd e hne
        · exact e
      obtain ⟨r, hr⟩ := eraseOne_of_mem x ys hm
      exact ⟨y :: r, by simp [hxy, hr]⟩

/-- `msSub a b = some r`: `a` is `b` plus the remainder `r`, up to order -/
theorem msSub_perm : ∀ (b a r : List Int), msSub a b = some r → a.Perm (b ++ r)
  | [], a, r, h => by
    simp only [msSub, Option.some.injEq] at h
    subst h; exact List.Perm.refl _
  | x :: xs, a, r, h => by
    unfold msSub at h
    cases he : eraseOne x a with
    | none => simp [he] at h
    | some a' =>
      simp only [he] at h
      exact (eraseOne_perm x a a' he).trans ((msSub_perm xs a' r h).cons x)

/-- the multiset difference exists whenever `b` is contained in `a` up to order -/
theorem msSub_of_perm : ∀ (b a r : List Int), a.Perm (b ++ r) → ∃ r', msSub a b = some r' ∧ r'.Perm r
  | [], a, r, h => ⟨a, by simp [msSub], h⟩
  | x :: xs, a, r, h => by
    have hx : x ∈ a := h.symm.subset (by simp)
    obtain ⟨a', ha'⟩ := eraseOne_of_mem x a hx
    have h1 : (x :: a').Perm (x :: (xs ++ r)) := (eraseOne_perm x a a' ha').symm.trans h
    obtain ⟨r', hr', hp⟩ := msSub_of_perm xs a' r ((List.perm_cons x).1 h1)
    exact ⟨r', by unfold msSub; simp only [ha']; exact hr', hp⟩

/-- the oracle's equality of multisets is exactly "is a permutation of" -/
theorem sameMs_iff_perm (a b : List Int) : sameMs a b = true ↔ a.Perm b := by
  constructor
  · intro h
    simp only [sameMs, Bool.and_eq_true, beq_iff_eq] at h
    simpa using msSub_perm b a [] h.2
  · intro h
    obtain ⟨r', hr', hp⟩ := msSub_of_perm b a [] (by simpa using h)
    have : r' = [] := List.Perm.eq_nil hp
    subst this
    simp [sameMs, hr', h.length_eq]

/-- accepted ⇒ every frame occurs the same number of times on both sides -/
theorem sameMs_count {a b : List Int} (h : sameMs a b = true) (x : Int) : a.count x = b.count x :=
  ((sameMs_iff_perm a b).1 h).count_eq x

/-- what the accepted clause of `chkC09Block` says: the published frames are the own primaries plus exactly
the wanted secondaries, up to order -/
theorem C09_pipe_oracle_sound {all prims rest want : List Int}
    (h1 : msSub all prims = some rest) (h2 : sameMs rest want = true) : all.Perm (prims ++ want) :=
  (msSub_perm prims all rest h1).trans (((sameMs_iff_perm rest want).1 h2).append_left prims)

example : sameMs [3, 1, 2, 3] [3, 3, 2, 1] = true ∧ sameMs [3, 1, 2] [3, 3, 2, 1] = false ∧
    sameMs [1, 1, 2] [1, 2, 2] = false ∧ msSub [5, 7, 5, 9] [5, 9] = some [7, 5] := by decide

end DastardV.Pipe
