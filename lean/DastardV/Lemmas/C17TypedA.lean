/-
C17 — basic facts for `typed_interleavings_owned` (Lemmas/C17Typed.lean), core Lean only:
prefix runs of the ownership machine and of the blocking semantics, projections of a trace that
grows by one event, typing of a program that grows by one event, the set view of the token lists,
and the two ways tokens move (`moveL`: a release, `moveAll`: an acquire).
-/
import DastardV.Model.C17Sys

namespace DastardV.C17

/-! ### runs that return the final state -/

def runO (sp : Spec) : OSt → Trace → Option OSt
  | s, [] => some s
  | s, te :: r => match stepO sp s te with
    | none => none
    | some s' => runO sp s' r

def runF : FSt → Trace → Option FSt
  | s, [] => some s
  | s, te :: r => match stepF s te with
    | none => none
    | some s' => runF s' r

theorem runO_snoc (sp : Spec) (s : OSt) (pre : Trace) (te : Tid × Ev) :
    runO sp s (pre ++ [te]) = match runO sp s pre with
      | none => none
      | some s' => stepO sp s' te := by
  induction pre generalizing s with
  | nil => simp only [List.nil_append, runO]; cases stepO sp s te <;> rfl
  | cons x r ih =>
    simp only [List.cons_append, runO]
    cases stepO sp s x with
    | none => rfl
    | some s' => exact ih s'

theorem runF_snoc (s : FSt) (pre : Trace) (te : Tid × Ev) :
    runF s (pre ++ [te]) = match runF s pre with
      | none => none
      | some s' => stepF s' te := by
  induction pre generalizing s with
  | nil => simp only [List.nil_append, runF]; cases stepF s te <;> rfl
  | cons x r ih =>
    simp only [List.cons_append, runF]
    cases stepF s x with
    | none => rfl
    | some s' => exact ih s'

theorem ownRunFrom_of_runO (sp : Spec) (s s' : OSt) (tr : Trace) (h : runO sp s tr = some s') :
    ownRunFrom sp s tr = true := by
  induction tr generalizing s with
  | nil => rfl
  | cons x r ih =>
    simp only [runO] at h
    simp only [ownRunFrom]
    cases hx : stepO sp s x with
    | none => rw [hx] at h; cases h
    | some s1 => rw [hx] at h; exact ih s1 h

theorem runF_of_feasibleFrom (s : FSt) (tr : Trace) (h : feasibleFrom s tr = true) :
    ∃ s', runF s tr = some s' := by
  induction tr generalizing s with
  | nil => exact ⟨s, rfl⟩
  | cons x r ih =>
    simp only [feasibleFrom] at h
    simp only [runF]
    cases hx : stepF s x with
    | none => rw [hx] at h; cases h
    | some s1 => rw [hx] at h; exact ih s1 h

theorem feasibleFrom_of_runF (s s' : FSt) (tr : Trace) (h : runF s tr = some s') :
    feasibleFrom s tr = true := by
  induction tr generalizing s with
  | nil => rfl
  | cons x r ih =>
    simp only [runF] at h
    simp only [feasibleFrom]
    cases hx : stepF s x with
    | none => rw [hx] at h; cases h
    | some s1 => rw [hx] at h; exact ih s1 h

/-- snoc induction on lists -/
theorem snoc_induction {α : Type} {p : List α → Prop} (h0 : p [])
    (h1 : ∀ l x, p l → p (l ++ [x])) : ∀ l, p l := by
  have key : ∀ r : List α, p r.reverse := by
    intro r
    induction r with
    | nil => exact h0
    | cons x r ih => rw [List.reverse_cons]; exact h1 _ _ ih
  intro l
  have := key l.reverse
  rwa [List.reverse_reverse] at this

/-! ### projections -/

theorem proj_nil (t : Tid) : proj [] t = [] := rfl

theorem proj_snoc_self (pre : Trace) (t : Tid) (e : Ev) :
    proj (pre ++ [(t, e)]) t = proj pre t ++ [e] := by
  simp [proj, List.filter_append]

theorem proj_snoc_ne (pre : Trace) (t u : Tid) (e : Ev) (h : u ≠ t) :
    proj (pre ++ [(t, e)]) u = proj pre u := by
  have h' : t ≠ u := fun x => h x.symm
  simp [proj, List.filter_append, h']

theorem mem_proj_snoc (pre : Trace) (t u : Tid) (e e' : Ev) :
    e' ∈ proj (pre ++ [(t, e)]) u ↔ e' ∈ proj pre u ∨ (u = t ∧ e' = e) := by
  by_cases h : u = t
  · subst h; rw [proj_snoc_self]; simp
  · rw [proj_snoc_ne pre t u e h]; simp [h]

theorem mem_proj_snoc_of_ne (pre : Trace) (t u : Tid) (e e' : Ev) (h : e' ≠ e) :
    e' ∈ proj (pre ++ [(t, e)]) u ↔ e' ∈ proj pre u := by
  rw [mem_proj_snoc]; simp [h]

theorem mem_proj_snoc_mono (pre : Trace) (t u : Tid) (e e' : Ev) (h : e' ∈ proj pre u) :
    e' ∈ proj (pre ++ [(t, e)]) u := by
  rw [mem_proj_snoc]; exact Or.inl h

theorem cnt_proj_snoc_of_ne (pre : Trace) (t u : Tid) (e e' : Ev) (h : e' ≠ e) :
    cnt e' (proj (pre ++ [(t, e)]) u) = cnt e' (proj pre u) := by
  by_cases hu : u = t
  · subst hu
    rw [proj_snoc_self]
    have : (e == e') = false := by simp; exact fun x => h x.symm
    simp [cnt, List.count_append, List.count_cons, this]
  · rw [proj_snoc_ne pre t u e hu]

theorem cnt_proj_snoc_self (pre : Trace) (t : Tid) (e : Ev) :
    cnt e (proj (pre ++ [(t, e)]) t) = cnt e (proj pre t) + 1 := by
  rw [proj_snoc_self]; simp [cnt, List.count_append]

theorem proj_prefix_snoc (pre : Trace) (te : Tid × Ev) (u : Tid) :
    proj pre u <+: proj (pre ++ [te]) u := by
  obtain ⟨t, e⟩ := te
  by_cases h : u = t
  · subst h; rw [proj_snoc_self]; exact List.prefix_append _ _
  · rw [proj_snoc_ne pre t u e h]; exact List.prefix_refl _

theorem Interleaving.of_snoc {P : Prog} {pre : Trace} {te : Tid × Ev}
    (h : Interleaving P (pre ++ [te])) : Interleaving P pre :=
  fun u => List.IsPrefix.trans (proj_prefix_snoc pre te u) (h u)

/-! ### typing of a growing program -/

theorem typedFrom_append (sp : Spec) (kids : Obj → List Tid) (t : Tid) (H : List Tok) (a b : List Ev) :
    typedFrom sp kids t H (a ++ b) = match typedFrom sp kids t H a with
      | none => none
      | some H' => typedFrom sp kids t H' b := by
  induction a generalizing H with
  | nil => rfl
  | cons x r ih =>
    simp only [List.cons_append, typedFrom]
    cases typeEv sp kids t H x with
    | none => rfl
    | some H1 => exact ih H1

/-- a program that is typable up to and including `e` -/
theorem typedFrom_snoc_inv (sp : Spec) (kids : Obj → List Tid) (t : Tid) (H0 : List Tok) (a : List Ev)
    (e : Ev) (post : List Ev)
    (h : (typedFrom sp kids t H0 ((a ++ [e]) ++ post)).isSome = true) :
    ∃ H H', typedFrom sp kids t H0 a = some H ∧ typeEv sp kids t H e = some H' ∧
      typedFrom sp kids t H0 (a ++ [e]) = some H' := by
  rw [typedFrom_append] at h
  cases h1 : typedFrom sp kids t H0 (a ++ [e]) with
  | none => rw [h1] at h; cases h
  | some H' =>
    rw [typedFrom_append] at h1
    cases h2 : typedFrom sp kids t H0 a with
    | none => rw [h2] at h1; cases h1
    | some H =>
      rw [h2] at h1
      simp only [typedFrom] at h1
      cases h3 : typeEv sp kids t H e with
      | none => rw [h3] at h1; cases h1
      | some H'' =>
        rw [h3] at h1
        simp only [Option.some.injEq] at h1
        subst h1
        exact ⟨H, H'', rfl, h3, rfl⟩

/-! ### token lists as sets -/

theorem mem_minus (a b : List Tok) (k : Tok) : k ∈ minus a b ↔ k ∈ a ∧ k ∉ b := by
  simp [minus]

theorem subsetB_iff (a b : List Tok) : subsetB a b = true ↔ ∀ k, k ∈ a → k ∈ b := by
  simp [subsetB]

theorem mem_waitPay (sp : Spec) (kids : Obj → List Tid) (w : Obj) (k : Tok) :
    k ∈ waitPay sp kids w ↔ ∃ u, u ∈ kids w ∧ k ∈ sp.donePay w u := by
  simp [waitPay, List.mem_flatMap]

theorem allAt_iff (loc : Tok → Loc) (ks : List Tok) (l : Loc) :
    allAt loc ks l = true ↔ ∀ k, k ∈ ks → loc k = l := by
  simp [allAt]

/-! ### moving tokens -/

theorem moveL_eq_iff (loc : Tok → Loc) (ks : List Tok) (dst : Loc) (k : Tok) (l : Loc) :
    moveL loc ks dst k = l ↔ (k ∈ ks ∧ l = dst) ∨ (k ∉ ks ∧ loc k = l) := by
  unfold moveL
  by_cases h : k ∈ ks
  · simp only [h, if_true, true_and, not_true_eq_false, false_and, or_false]
    exact eq_comm
  · simp only [h, if_false, false_and, not_false_eq_true, true_and, false_or]

theorem moveAll_eq_iff (loc : Tok → Loc) (src dst : Loc) (k : Tok) (l : Loc) :
    moveAll loc src dst k = l ↔ (loc k = src ∧ l = dst) ∨ (loc k ≠ src ∧ loc k = l) := by
  unfold moveAll
  by_cases h : loc k = src
  · simp only [h, if_true, true_and, ne_eq, not_true_eq_false, false_and, or_false]
    exact eq_comm
  · simp only [h, if_false, false_and, ne_eq, not_false_eq_true, true_and, false_or]

theorem release_ok (s : OSt) (t : Tid) (ks : List Tok) (dst : Loc)
    (h : ∀ k, k ∈ ks → s.loc k = .thr t) :
    release s t ks dst = some { s with loc := moveL s.loc ks dst } := by
  unfold release
  rw [(allAt_iff s.loc ks (.thr t)).2 h]
  rfl

/-- tokens `ks`, all held by thread `t`, go to `dst`: the description `E` of who has what becomes `E'` -/
theorem loc_release {E E' : Loc → Tok → Prop} {loc : Tok → Loc} {ks : List Tok} {t : Tid} {dst : Loc}
    (h : ∀ k l, loc k = l ↔ E l k)
    (hks : ∀ k, k ∈ ks → E (.thr t) k)
    (hdst : dst ≠ .thr t)
    (h1 : ∀ k, E' (.thr t) k ↔ E (.thr t) k ∧ k ∉ ks)
    (h2 : ∀ k, E' dst k ↔ E dst k ∨ k ∈ ks)
    (h3 : ∀ l, l ≠ .thr t → l ≠ dst → ∀ k, E' l k ↔ E l k) :
    ∀ k l, moveL loc ks dst k = l ↔ E' l k := by
  intro k l
  rw [moveL_eq_iff]
  by_cases hl1 : l = .thr t
  · subst hl1
    rw [h1, ← h]
    constructor
    · rintro (⟨_, h'⟩ | ⟨h', h''⟩)
      · exact absurd h'.symm hdst
      · exact ⟨h'', h'⟩
    · rintro ⟨h', h''⟩
      exact Or.inr ⟨h'', h'⟩
  · by_cases hl2 : l = dst
    · subst hl2
      rw [h2, ← h]
      constructor
      · rintro (⟨h', _⟩ | ⟨_, h''⟩)
        · exact Or.inr h'
        · exact Or.inl h''
      · rintro (h' | h')
        · by_cases hk : k ∈ ks
          · exact Or.inl ⟨hk, rfl⟩
          · exact Or.inr ⟨hk, h'⟩
        · exact Or.inl ⟨h', rfl⟩
    · rw [h3 l hl1 hl2, ← h]
      constructor
      · rintro (⟨_, h'⟩ | ⟨_, h''⟩)
        · exact absurd h' hl2
        · exact h''
      · intro h'
        refine Or.inr ⟨fun hk => ?_, h'⟩
        have := (h k (.thr t)).2 (hks k hk)
        rw [this] at h'
        exact hl1 h'.symm

/-- everything at `src` goes to thread `t` -/
theorem loc_acquire {E E' : Loc → Tok → Prop} {loc : Tok → Loc} {t : Tid} {src : Loc}
    (h : ∀ k l, loc k = l ↔ E l k)
    (hsrc : src ≠ .thr t)
    (h1 : ∀ k, E' (.thr t) k ↔ E (.thr t) k ∨ E src k)
    (h2 : ∀ k, ¬ E' src k)
    (h3 : ∀ l, l ≠ .thr t → l ≠ src → ∀ k, E' l k ↔ E l k) :
    ∀ k l, moveAll loc src (.thr t) k = l ↔ E' l k := by
  intro k l
  rw [moveAll_eq_iff]
  by_cases hl1 : l = .thr t
  · subst hl1
    rw [h1, ← h, ← h]
    constructor
    · rintro (⟨h', _⟩ | ⟨_, h''⟩)
      · exact Or.inr h'
      · exact Or.inl h''
    · rintro (h' | h')
      · refine Or.inr ⟨fun hk => ?_, h'⟩
        rw [h'] at hk
        exact hsrc hk.symm
      · exact Or.inl ⟨h', rfl⟩
  · by_cases hl2 : l = src
    · subst hl2
      constructor
      · rintro (⟨_, h'⟩ | ⟨h', h''⟩)
        · exact absurd h' hl1
        · exact absurd h'' h'
      · intro h'
        exact absurd h' (h2 k)
    · rw [h3 l hl1 hl2, ← h]
      constructor
      · rintro (⟨_, h'⟩ | ⟨_, h''⟩)
        · exact absurd h' hl1
        · exact h''
      · intro h'
        refine Or.inr ⟨fun hk => ?_, h'⟩
        rw [h'] at hk
        exact hl2 hk

/-! ### counting the kids that are done -/

theorem countP_add_one {α : Type} [DecidableEq α] (p q : α → Bool) (t : α) :
    ∀ (l : List α), l.Nodup → t ∈ l → p t = false → q t = true →
      (∀ u, u ≠ t → q u = p u) → l.countP q = l.countP p + 1 := by
  intro l
  induction l with
  | nil => intro _ h; cases h
  | cons x r ih =>
    intro hnd hmem hp hq hne
    rw [List.nodup_cons] at hnd
    by_cases hx : x = t
    · subst hx
      have hr : r.countP q = r.countP p := by
        apply List.countP_congr
        intro u hu
        have : u ≠ x := fun e => hnd.1 (e ▸ hu)
        rw [hne u this]
      simp only [List.countP_cons, hp, hq, hr, if_true]
      simp
    · have hmem' : t ∈ r := by
        cases hmem with
        | head => exact absurd rfl hx
        | tail _ h => exact h
      have := ih hnd.2 hmem' hp hq hne
      simp only [List.countP_cons, this, hne x hx]
      omega

end DastardV.C17
