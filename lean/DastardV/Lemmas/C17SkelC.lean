/-
C17 — `skeleton_ok` (Lemmas/C17Skel.lean), part C: the payloads of the contracts `mkSpec p` as token sets.
Core Lean only.
-/
import DastardV.Lemmas.C17SkelB
namespace DastardV.C17

/-! ### token sets and the tactics that decide inclusions between them -/

@[c17set] def EmptyS : TS := fun _ _ _ => False
@[c17set] def OneS (c0 i0 s0 : Nat) : TS := fun c i s => c = c0 ∧ i = i0 ∧ s = s0
/-- block `bb` and its `n` segments -/
@[c17set] def BlkS (n bb : Nat) : TS := fun c i s =>
  (c = 3 ∧ i = bb ∧ s = 0) ∨ (c = 4 ∧ bb * n ≤ i ∧ i < bb * n + n ∧ s = 0)
/-- the merged block with the frame counter of a Lancero source -/
@[c17set] def BlkNS (n src : Nat) : TS := fun c i s => BlkS n 0 c i s ∨ (src = 2 ∧ c = 1 ∧ i = 0 ∧ s = 0)
/-- processor state of channel `j`, with the client's share of the trigger state iff `ph = 1` -/
@[c17set] def ProcS (j ph : Nat) : TS := fun c i s => (c = 7 ∧ i = j ∧ s = 0) ∨ (c = 8 ∧ i = j ∧ s ≤ ph)

theorem Sub.cls {P Q : TS}
    (h0 : ∀ i s, s < 2 → P 0 i s → Q 0 i s) (h1 : ∀ i s, s < 2 → P 1 i s → Q 1 i s)
    (h2 : ∀ i s, s < 2 → P 2 i s → Q 2 i s) (h3 : ∀ i s, s < 2 → P 3 i s → Q 3 i s)
    (h4 : ∀ i s, s < 2 → P 4 i s → Q 4 i s) (h5 : ∀ i s, s < 2 → P 5 i s → Q 5 i s)
    (h6 : ∀ i s, s < 2 → P 6 i s → Q 6 i s) (h7 : ∀ i s, s < 2 → P 7 i s → Q 7 i s)
    (h8 : ∀ i s, s < 2 → P 8 i s → Q 8 i s) (h9 : ∀ i s, s < 2 → P 9 i s → Q 9 i s)
    (h10 : ∀ i s, s < 2 → P 10 i s → Q 10 i s) (h11 : ∀ i s, s < 2 → P 11 i s → Q 11 i s)
    (h12 : ∀ i s, s < 2 → P 12 i s → Q 12 i s) (h13 : ∀ i s, s < 2 → P 13 i s → Q 13 i s)
    (h14 : ∀ i s, s < 2 → P 14 i s → Q 14 i s) (h15 : ∀ i s, s < 2 → P 15 i s → Q 15 i s) : Sub P Q := by
  intro c i s hc
  revert i s
  exact forall_cls (p := fun c => ∀ i s, s < 2 → P c i s → Q c i s)
    h0 h1 h2 h3 h4 h5 h6 h7 h8 h9 h10 h11 h12 h13 h14 h15 c hc

/-- unfold the token sets (at every hypothesis and the goal) and finish with `omega` -/
macro "tokarith" : tactic => `(tactic|
  (simp (config := {decide := true}) only [c17set, false_and, and_false, true_and, and_true, false_or, or_false,
      true_or, or_true, not_false_eq_true, not_true_eq_false, or_self, and_self, imp_self, false_imp_iff,
      true_imp_iff] at * <;> omega))

/-- an inclusion `Sub P Q`: one arithmetic goal per class -/
macro "toksub" : tactic => `(tactic|
  (apply Sub.cls <;>
    (intro i s hs h
     simp (config := {decide := true}) only [c17set, false_and, and_false, true_and, and_true, false_or, or_false,
       true_or, or_true, not_false_eq_true, not_true_eq_false, or_self, and_self, imp_self, false_imp_iff,
       true_imp_iff] at h ⊢ <;> omega)))

/-! ### building blocks -/

theorem Rep.congr {ks : List Tok} {A B : TS} (h : Rep ks A) (e : ∀ c i s, A c i s ↔ B c i s) : Rep ks B :=
  fun k => (h k).trans (e _ _ _)

theorem Rep.congrSub {ks : List Tok} {A B : TS} (h : Rep ks A) (h1 : Sub A B) (h2 : Sub B A) : Rep ks B :=
  fun k => (h k).trans ⟨h1 _ _ _ (clsT_lt k) (shT_lt k), h2 _ _ _ (clsT_lt k) (shT_lt k)⟩

theorem Rep.append {a b : List Tok} {A B : TS} (ha : Rep a A) (hb : Rep b B) :
    Rep (a ++ b) (fun c i s => A c i s ∨ B c i s) := fun k => by
  rw [List.mem_append, ha k, hb k]

theorem Rep.one {c i s : Nat} (hc : c < 16) (hs : s < 2) : Rep [tk c i s] (OneS c i s) := fun k => by
  rw [List.mem_singleton, eq_tk_iff hc hs]; rfl

theorem Rep.cons {c i s : Nat} (hc : c < 16) (hs : s < 2) {l : List Tok} {A : TS} (h : Rep l A) :
    Rep (tk c i s :: l) (fun c' i' s' => OneS c i s c' i' s' ∨ A c' i' s') :=
  Rep.append (a := [tk c i s]) (Rep.one hc hs) h

theorem Rep.ite {l : List Tok} {A : TS} (h : Rep l A) (b : Bool) :
    Rep (if b then l else []) (fun c i s => b = true ∧ A c i s) := fun k => by
  cases b with
  | true => simp only [if_true, true_and]; exact h k
  | false => simp

/-- `j ↦ tk c0 j s0` over `j < n` -/
theorem Rep.mapTk {c0 s0 : Nat} (hc : c0 < 16) (hs : s0 < 2) (n : Nat) :
    Rep ((rng n).map (fun j => tk c0 j s0)) (fun c i s => c = c0 ∧ i < n ∧ s = s0) := fun k => by
  simp only [rng, List.mem_map, List.mem_range]
  constructor
  · rintro ⟨j, hj, rfl⟩
    rw [clsT_tk hc hs, idxT_tk hc hs, shT_tk hs]; exact ⟨rfl, hj, rfl⟩
  · rintro ⟨h1, h2, h3⟩
    exact ⟨idxT k, h2, by rw [← h1, ← h3]; exact tk_dec k⟩

theorem rep_blockToks (p : Par) (b : Nat) : Rep (blockToks p b) (BlkS p.n b) := fun k => by
  simp only [blockToks, rng, List.mem_cons, List.mem_map, List.mem_range, BlkS]
  constructor
  · rintro (h | ⟨j, hj, rfl⟩)
    · rw [eq_tk_iff (by decide) (by decide)] at h; exact Or.inl h
    · rw [clsT_tk (by decide) (by decide), idxT_tk (by decide) (by decide), shT_tk (by decide)]
      exact Or.inr ⟨rfl, by omega, by omega, rfl⟩
  · rintro (h | ⟨h1, h2, h3, h4⟩)
    · exact Or.inl ((eq_tk_iff (by decide) (by decide) k).2 h)
    · refine Or.inr ⟨idxT k - b * p.n, by omega, ?_⟩
      rw [eq_comm, eq_tk_iff (by decide) (by decide)]
      exact ⟨h1, by omega, h4⟩

theorem rep_procToks_false (j : Nat) : Rep (procToks j false) (ProcS j 0) := fun k => by
  simp only [procToks, Bool.false_eq_true, if_false, List.mem_cons, List.mem_nil_iff, or_false, ProcS,
    eq_tk_iff (c := 7) (s := 0) (by decide) (by decide), eq_tk_iff (c := 8) (s := 0) (by decide) (by decide)]
  omega

theorem rep_procToks_true (j : Nat) : Rep (procToks j true) (ProcS j 1) := fun k => by
  have := shT_lt k
  simp only [procToks, if_true, List.mem_cons, List.mem_nil_iff, or_false, ProcS,
    eq_tk_iff (c := 7) (s := 0) (by decide) (by decide), eq_tk_iff (c := 8) (s := 0) (by decide) (by decide),
    eq_tk_iff (c := 8) (s := 1) (by decide) (by decide)]
  omega

theorem rep_procToks (j ph : Nat) (hph : ph ≤ 1) : Rep (procToks j (ph == 1)) (ProcS j ph) := by
  have : ph = 0 ∨ ph = 1 := by omega
  rcases this with rfl | rfl
  · exact rep_procToks_false j
  · exact rep_procToks_true j

theorem Rep.flatMapRange {f : Nat → List Tok} {A : Nat → TS} (h : ∀ j, Rep (f j) (A j)) (n : Nat) :
    Rep ((rng n).flatMap f) (fun c i s => ∃ j, j < n ∧ A j c i s) := fun k => by
  simp only [rng, List.mem_flatMap, List.mem_range]
  constructor
  · rintro ⟨j, hj, hk⟩; exact ⟨j, hj, (h j k).1 hk⟩
  · rintro ⟨j, hj, hk⟩; exact ⟨j, hj, (h j k).2 hk⟩

/-- all processor states, with the client's shares iff `ph = 1` -/
@[c17set] def ProcAllS (n ph : Nat) : TS := fun c i s => (c = 7 ∧ i < n ∧ s = 0) ∨ (c = 8 ∧ i < n ∧ s ≤ ph)

theorem rep_procAll (n ph : Nat) (hph : ph ≤ 1) :
    Rep ((rng n).flatMap (fun i => procToks i (ph == 1))) (ProcAllS n ph) :=
  (Rep.flatMapRange (fun j => rep_procToks j ph hph) n).congr (fun c i s => by
    constructor
    · rintro ⟨j, hj, h⟩; tokarith
    · intro h; exact ⟨i, by tokarith, by tokarith⟩)

/-! ### the contracts of `mkSpec p` -/

section spec
variable (p : Par)

theorem toks_one {c : Nat} (i : Nat) (hc : c < 16) (h2 : twoShares c = false) :
    (mkSpec p).toks (mkVar c i) = [tk c i 0] := by
  simp only [mkSpec, mkVar, clsOf_enc hc, h2, Bool.false_eq_true, if_false, tk, Nat.add_zero]

theorem toks_two {c : Nat} (i : Nat) (hc : c < 16) (h2 : twoShares c = true) :
    (mkSpec p).toks (mkVar c i) = [tk c i 0, tk c i 1] := by
  simp only [mkSpec, mkVar, clsOf_enc hc, h2, if_true, tk, Nat.add_zero]

variable {p} {kids : Obj → List Tid} {t : Tid} {P : TS}

theorem HT.rdv {c : Nat} (i sh : Nat) (hc : c < 16) (hs : sh < 2) (h2 : sh = 0 ∨ twoShares c = true)
    (hp : P c i sh) : HT (mkSpec p) kids t P [.rd (mkVar c i)] P := by
  refine HT.rd hc hs ?_ hp
  cases h : twoShares c with
  | false =>
    rw [toks_one p i hc h]
    have : sh = 0 := by rcases h2 with h2 | h2; exact h2; rw [h] at h2; cases h2
    subst this; exact List.mem_singleton.2 rfl
  | true =>
    rw [toks_two p i hc h]
    have : sh = 0 ∨ sh = 1 := by omega
    rcases this with rfl | rfl <;> simp

theorem HT.wrv1 {c : Nat} (i : Nat) (hc : c < 16) (h2 : twoShares c = false) (hp : P c i 0) :
    HT (mkSpec p) kids t P [.wr (mkVar c i)] P := by
  refine HT.wr ?_ ?_
  · rw [toks_one p i hc h2]; exact List.cons_ne_nil _ _
  · intro k hk
    rw [toks_one p i hc h2, List.mem_singleton] at hk
    subst hk
    rw [clsT_tk hc (by decide), idxT_tk hc (by decide), shT_tk (by decide)]; exact hp

theorem HT.wrv2 {c : Nat} (i : Nat) (hc : c < 16) (h2 : twoShares c = true) (hp0 : P c i 0) (hp1 : P c i 1) :
    HT (mkSpec p) kids t P [.wr (mkVar c i)] P := by
  refine HT.wr ?_ ?_
  · rw [toks_two p i hc h2]; exact List.cons_ne_nil _ _
  · intro k hk
    rw [toks_two p i hc h2] at hk
    simp only [List.mem_cons, List.mem_nil_iff, or_false] at hk
    rcases hk with rfl | rfl
    · rw [clsT_tk hc (by decide), idxT_tk hc (by decide), shT_tk (by decide)]; exact hp0
    · rw [clsT_tk hc (by decide), idxT_tk hc (by decide), shT_tk (by decide)]; exact hp1

variable (p)

/-! channels -/
theorem chanPay_nb_merged (h : p.merged = true) :
    (mkSpec p).chanPay (enc 1 0) = blockToks p 0 ++ (if p.src == 2 then [nfnTok] else []) := by
  simp [mkSpec, clsOf, idxOf, enc, h]
theorem chanPay_nb_sim (h : p.merged = false) (b : Nat) : (mkSpec p).chanPay (enc 1 (b + 1)) = blockToks p (b + 1) := by
  have h1 : clsOf (enc 1 (b + 1)) = 1 := clsOf_enc (by decide)
  have h2 : idxOf (enc 1 (b + 1)) = b + 1 := idxOf_enc (by decide)
  simp [mkSpec, h1, h2, h]
theorem chanPay_nb_sim0 (h : p.merged = false) : (mkSpec p).chanPay (enc 1 0) = [] := by
  simp [mkSpec, clsOf, idxOf, enc, h]
theorem chanPay_bufc : (mkSpec p).chanPay (enc 2 0) = [] := by
  simp [mkSpec, clsOf, enc]
theorem chanPay_qreq1 : (mkSpec p).chanPay (enc 3 1) = (rng p.n).map (fun i => tk 8 i 1) ++ [tk 9 0 1] := by
  simp [mkSpec, clsOf, idxOf, enc]
theorem chanPay_qreq (j : Nat) (hj : j ≠ 1) : (mkSpec p).chanPay (enc 3 j) = [] := by
  have h1 : clsOf (enc 3 j) = 3 := clsOf_enc (by decide)
  have h2 : idxOf (enc 3 j) = j := idxOf_enc (by decide)
  simp [mkSpec, h1, h2, hj]
theorem chanPay_qres : (mkSpec p).chanPay (enc 4 0) = [] := by
  simp [mkSpec, clsOf, enc]
theorem chanPay_cm (m : Nat) : (mkSpec p).chanPay (enc 5 m) = [tk 10 m 0] := by
  have h1 : clsOf (enc 5 m) = 5 := clsOf_enc (by decide)
  have h2 : idxOf (enc 5 m) = m := idxOf_enc (by decide)
  simp [mkSpec, h1, h2]
theorem chanPay_cmpl (j : Nat) : (mkSpec p).chanPay (enc 6 j) = [tk 6 j 0] := by
  have h1 : clsOf (enc 6 j) = 6 := clsOf_enc (by decide)
  have h2 : idxOf (enc 6 j) = j := idxOf_enc (by decide)
  simp [mkSpec, h1, h2]

/-! mutexes -/
theorem mtxPay_fl : (mkSpec p).mtxPay (enc 7 0) = if p.src == 1 then [nfnTok, tk 2 0 0] else [] := by
  simp [mkSpec, clsOf, enc]
theorem mtxPay_wsm : (mkSpec p).mtxPay (enc 8 0) = [tk 11 0 1] := by
  simp [mkSpec, clsOf, enc]
theorem mtxPay_cfg : (mkSpec p).mtxPay (enc 9 0) = [tk 13 0 0] := by
  simp [mkSpec, clsOf, enc]

/-! wait groups -/
theorem donePay_wga (b : Nat) (u : Tid) (h : clsOf u = 5) : (mkSpec p).donePay (enc 10 b) u = spawnPayOf p u := by
  have h1 : clsOf (enc 10 b) = 10 := clsOf_enc (by decide)
  simp [mkSpec, h1, h]
theorem donePay_wgp (e : Nat) (u : Tid) (h : 6 ≤ clsOf u ∧ clsOf u ≤ 9) :
    (mkSpec p).donePay (enc 11 e) u = spawnPayOf p u := by
  have h1 : clsOf (enc 11 e) = 11 := clsOf_enc (by decide)
  simp [mkSpec, h1, h]
theorem donePay_rund (u : Tid) : (mkSpec p).donePay (enc 12 0) u = [] := by
  simp [mkSpec, clsOf, enc]

/-! closes: only the per-run channel `rundone` hands something over -/
theorem closePay_rundone : (mkSpec p).closePay (enc 14 0) = [tk 11 0 0, tk 12 0 0] := by
  simp [mkSpec]
theorem closePay_other (c : Obj) (h : c ≠ enc 14 0) : (mkSpec p).closePay c = [] := by
  simp [mkSpec, h]

/-! what a thread is given when it is spawned -/
theorem chanOf_eq (hn : 0 < p.n) (u : Tid) : chanOf p u = idxOf u % p.n := by
  have : (p.n == 0) = false := by simp; omega
  simp only [chanOf, this, Bool.false_eq_true, if_false]

theorem spawnPayOf_5 (u : Tid) (h : clsOf u = 5) : spawnPayOf p u = [tk 4 (chanOf p u) 0] := by
  simp only [spawnPayOf, h]
theorem spawnPayOf_6 (u : Tid) (h : clsOf u = 6) : spawnPayOf p u = procToks (chanOf p u) false := by
  simp only [spawnPayOf, h]
theorem spawnPayOf_7 (u : Tid) (h : clsOf u = 7) : spawnPayOf p u = procToks (chanOf p u) true := by
  simp only [spawnPayOf, h]
theorem spawnPayOf_8 (u : Tid) (h : clsOf u = 8) : spawnPayOf p u = procToks (chanOf p u) false := by
  simp only [spawnPayOf, h]
theorem spawnPayOf_9 (u : Tid) (h : clsOf u = 9) : spawnPayOf p u = procToks (chanOf p u) true := by
  simp only [spawnPayOf, h]
theorem spawnPayOf_10 (u : Tid) (h : clsOf u = 10) : spawnPayOf p u = [] := by
  simp only [spawnPayOf, h]
theorem spawnPayOf_4 (u : Tid) (h : clsOf u = 4) :
    spawnPayOf p u = (if p.merged then blockToks p 0 else []) ++ (if p.src == 2 then [nfnTok] else []) := by
  simp only [spawnPayOf, h]
theorem spawnPayOf_2 (u : Tid) (h : clsOf u = 2) :
    spawnPayOf p u = if p.merged then (if p.src == 1 then [tk 0 0 0] else [])
      else nfnTok :: (rng p.nblk).flatMap (fun b => blockToks p (b + 1)) := by
  simp only [spawnPayOf, h]
theorem spawnPayOf_1 (u : Tid) (h : clsOf u = 1) :
    spawnPayOf p u = (rng p.n).flatMap (fun i => procToks i false) ++ [tk 9 0 0, tk 14 0 0, tk 5 0 0, tk 11 0 0, tk 12 0 0]
      ++ (rng p.narch).map (fun j => tk 6 j 0) ++ (rng p.ntrs).map (fun m => tk 10 m 0)
      ++ (if p.merged then blockToks p 0 else []) ++ (if p.src == 2 then [nfnTok] else []) := by
  simp only [spawnPayOf, h]

end spec

end DastardV.C17
