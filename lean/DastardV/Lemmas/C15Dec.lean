/-
C15 — what a successful `ReadPacket` guarantees about the packet (invariant `DecInv`), and how many
bytes it consumes.
-/
import DastardV.Lemmas.C15Bytes
namespace DastardV.C15

/-! ### Format TLV -/

def kindsSize : List Kind → Nat
  | [] => 0
  | k :: r => k.size + kindsSize r

theorem kindsSize_append (a b : List Kind) : kindsSize (a ++ b) = kindsSize a + kindsSize b := by
  induction a with
  | nil => simp [kindsSize]
  | cons k r ih => simp [kindsSize, ih, Nat.add_assoc]

theorem Kind.size_le (k : Kind) : k.size ≤ 8 := by cases k <;> decide
theorem Kind.size_pos (k : Kind) : 0 < k.size := by cases k <;> decide

theorem fmtStep_some (f f1 : Fmt) (c : Nat) (h : fmtStep f c = some f1) :
    (f1.kinds = f.kinds ∧ f1.wordlen = f.wordlen) ∨
    (∃ k, f1.kinds = f.kinds ++ [k] ∧ f1.wordlen = f.wordlen + k.size) := by
  unfold fmtStep at h
  simp only at h
  repeat' split at h
  all_goals first
    | (cases h; left; exact ⟨rfl, rfl⟩)
    | (cases h; right; exact ⟨_, rfl, rfl⟩)
    | (exact absurd h (by simp))

theorem fmtLoop_some (body : List Nat) (f f1 : Fmt) (h : fmtLoop f body = some f1)
    (hw : f.wordlen = kindsSize f.kinds) :
    f1.wordlen = kindsSize f1.kinds ∧ f1.wordlen ≤ f.wordlen + 8 * body.length := by
  induction body generalizing f with
  | nil => simp only [fmtLoop] at h; cases h; exact ⟨hw, by simp⟩
  | cons c r ih =>
    simp only [fmtLoop] at h
    split at h
    · rename_i f' hs
      rcases fmtStep_some f f' c hs with ⟨hk, hwl⟩ | ⟨k, hk, hwl⟩
      · have := ih f' h (by rw [hwl, hk]; exact hw)
        refine ⟨this.1, ?_⟩
        have := this.2
        simp only [List.length_cons]; omega
      · have := ih f' h (by rw [hwl, hk, kindsSize_append, hw]; simp [kindsSize])
        refine ⟨this.1, ?_⟩
        have h2 := this.2
        have := Kind.size_le k
        simp only [List.length_cons]; omega
    · exact absurd h (by simp)

def FmtOK (f : Fmt) : Prop := f.wordlen = kindsSize f.kinds ∧ f.wordlen ≤ 16320

theorem parseFmt_ok (body : List Nat) (f : Fmt) (h : parseFmt body = some f) (hl : body.length ≤ 2040) :
    FmtOK f := by
  unfold parseFmt at h
  have := fmtLoop_some body _ f h (by simp [kindsSize])
  refine ⟨this.1, ?_⟩
  have := this.2
  simp only at this
  omega

/-! ### Shape TLV -/

theorem prod_append (a b : List Int) : prod (a ++ b) = prod a * prod b := by
  induction a with
  | nil => simp [prod]
  | cons x r ih => simp [prod, ih, Int.mul_assoc]

def ShapeOK (s : List Int) : Prop := s ≠ [] ∧ (∀ d ∈ s, 0 < d) ∧ prod s ≤ 65535

theorem shapeLoop_some (l acc s : List Int) (n : Int) (h : shapeLoop l acc n = some s)
    (hacc : ∀ d ∈ acc, 0 < d) (hn : n = prod acc) (hb : n ≤ 65535) :
    (∀ d ∈ s, 0 < d) ∧ prod s ≤ 65535 := by
  induction l generalizing acc n with
  | nil => simp only [shapeLoop] at h; cases h; exact ⟨hacc, hn ▸ hb⟩
  | cons d r ih =>
    simp only [shapeLoop] at h
    split at h
    · rename_i hd
      split at h
      · exact absurd h (by simp)
      · rename_i hle
        refine ih (acc ++ [d]) (n * d) h ?_ ?_ (by omega)
        · intro x hx
          simp only [List.mem_append, List.mem_singleton] at hx
          rcases hx with hx | rfl
          · exact hacc x hx
          · exact hd
        · rw [prod_append, hn]; simp [prod]
    · exact ih acc n h hacc hn hb

theorem parseShape_ok (body : List Nat) (s : List Int) (h : parseShape body = some s) : ShapeOK s := by
  unfold parseShape at h
  split at h
  · exact absurd h (by simp)
  · rename_i s' hs
    split at h
    · exact absurd h (by simp)
    · rename_i hne
      cases h
      have := shapeLoop_some _ [] s 1 hs (by simp) (by simp [prod]) (by decide)
      exact ⟨hne, this.1, this.2⟩

/-! ### One TLV, the TLV loop -/

def TLVOK : TLV → Prop
  | .off o => o < 4294967296
  | .shape s => ShapeOK s
  | .fmt f => FmtOK f
  | .ts t => t.t < 18446744073709551616
  | _ => True

theorem isBytes_take (bs : List Nat) (n : Nat) (h : IsBytes bs) : IsBytes (bs.take n) :=
  fun b hb => h b (List.mem_of_mem_take hb)

theorem isBytes_drop (bs : List Nat) (n : Nat) (h : IsBytes bs) : IsBytes (bs.drop n) :=
  fun b hb => h b (List.mem_of_mem_drop hb)

theorem parseOne_ok (t size : Nat) (body : List Nat) (x : TLV) (h : parseOne t size body = .ok x)
    (hb : IsBytes body) (hl : body.length ≤ 2040) : TLVOK x := by
  unfold parseOne at h
  split at h
  · rename_i b2 b3 b4 b5 b6 b7 extra
    have h2 : b2 < 256 := hb b2 (by simp)
    have h3 : b3 < 256 := hb b3 (by simp)
    have h4 : b4 < 256 := hb b4 (by simp)
    have h5 : b5 < 256 := hb b5 (by simp)
    have h6 : b6 < 256 := hb b6 (by simp)
    have h7 : b7 < 256 := hb b7 (by simp)
    have hcnt : beNat (extra.take 8) < 18446744073709551616 := by
      have hx : IsBytes (extra.take 8) := isBytes_take _ _ (fun b hb' => hb b (by simp [hb']))
      have h1 := beNat_lt _ hx
      have h2 : (extra.take 8).length ≤ 8 := by simp; omega
      have h3 : 256 ^ (extra.take 8).length ≤ 256 ^ 8 := Nat.pow_le_pow_right (by decide) h2
      have h4 : (256 : Nat) ^ 8 = 18446744073709551616 := by decide
      omega
    repeat' split at h
    all_goals (cases h)
    all_goals (simp only [TLVOK])
    all_goals first
      | exact parseFmt_ok _ _ (by assumption) hl
      | exact parseShape_ok _ _ (by assumption)
      | (have := be16_lt b2 b3 h2 h3
         have := be32_lt b4 b5 b6 b7 h4 h5 h6 h7
         have := Nat.mod_le (beNat (List.take 8 extra)) (2 ^ b2)
         omega)
  · cases h

theorem parseTLVf_ok (fuel : Nat) (data : List Nat) (tlvs : List TLV)
    (h : parseTLVf fuel data = .ok tlvs) (hb : IsBytes data) : ∀ x ∈ tlvs, TLVOK x := by
  induction fuel generalizing data tlvs with
  | zero =>
    cases data with
    | nil => simp only [parseTLVf] at h; cases h; simp
    | cons a r => simp [parseTLVf] at h
  | succ fuel ih =>
    match data, h, hb with
    | [], h, _ => simp only [parseTLVf] at h; cases h; simp
    | [_], h, _ => simp [parseTLVf] at h
    | t :: l :: more, h, hb =>
      simp only [parseTLVf] at h
      repeat' split at h
      all_goals (cases h)
      have hl : l < 256 := hb l (by simp)
      have hmore : IsBytes more := fun b hb' => hb b (by simp [hb'])
      intro y hy
      simp only [List.mem_cons] at hy
      rcases hy with rfl | hy
      · exact parseOne_ok _ _ _ _ (by assumption) (isBytes_take _ _ hmore) (by simp; omega)
      · exact ih _ _ (by assumption) (isBytes_drop _ _ hmore) y hy

/-! ### The fold over the TLVs -/

def HdrOK (p : Packet) : Prop :=
  p.offset < 4294967296 ∧ (∀ t, p.ts = some t → t.t < 18446744073709551616) ∧
  (∀ f, p.format = some f → FmtOK f) ∧ (∀ s, p.shape = some s → ShapeOK s)

/-- the fields `applyTLV` never touches -/
def SameCore (p q : Packet) : Prop :=
  q.version = p.version ∧ q.hl = p.hl ∧ q.pl = p.pl ∧ q.src = p.src ∧ q.seq = p.seq ∧
  q.plen = p.plen ∧ q.data = p.data

theorem applyTLV_ok (p : Packet) (x : TLV) (hp : HdrOK p) (hx : TLVOK x) :
    HdrOK (applyTLV p x) ∧ SameCore p (applyTLV p x) := by
  obtain ⟨h1, h2, h3, h4⟩ := hp
  cases x with
  | off o => exact ⟨⟨hx, h2, h3, h4⟩, rfl, rfl, rfl, rfl, rfl, rfl, rfl⟩
  | shape s =>
    refine ⟨⟨h1, h2, h3, ?_⟩, rfl, rfl, rfl, rfl, rfl, rfl, rfl⟩
    intro s' hs'
    simp only [applyTLV, Option.some.injEq] at hs'
    exact hs' ▸ hx
  | fmt f =>
    refine ⟨⟨h1, h2, ?_, h4⟩, rfl, rfl, rfl, rfl, rfl, rfl, rfl⟩
    intro f' hf'
    simp only [applyTLV, Option.some.injEq] at hf'
    exact hf' ▸ hx
  | ts t =>
    refine ⟨⟨h1, ?_, h3, h4⟩, rfl, rfl, rfl, rfl, rfl, rfl, rfl⟩
    intro t' ht'
    simp only [applyTLV, Option.some.injEq] at ht'
    exact ht' ▸ hx
  | label l => exact ⟨⟨h1, h2, h3, h4⟩, rfl, rfl, rfl, rfl, rfl, rfl, rfl⟩
  | other => exact ⟨⟨h1, h2, h3, h4⟩, rfl, rfl, rfl, rfl, rfl, rfl, rfl⟩

theorem foldl_applyTLV_ok (tlvs : List TLV) (p : Packet) (hp : HdrOK p) (hx : ∀ x ∈ tlvs, TLVOK x) :
    HdrOK (tlvs.foldl applyTLV p) ∧ SameCore p (tlvs.foldl applyTLV p) := by
  induction tlvs generalizing p with
  | nil => exact ⟨hp, rfl, rfl, rfl, rfl, rfl, rfl, rfl⟩
  | cons x r ih =>
    have h1 := applyTLV_ok p x hp (hx x (by simp))
    have h2 := ih (applyTLV p x) h1.1 (fun y hy => hx y (by simp [hy]))
    refine ⟨h2.1, ?_⟩
    obtain ⟨a1, a2, a3, a4, a5, a6, a7⟩ := h1.2
    obtain ⟨b1, b2, b3, b4, b5, b6, b7⟩ := h2.2
    simp only [List.foldl_cons]
    exact ⟨b1.trans a1, b2.trans a2, b3.trans a3, b4.trans a4, b5.trans a5, b6.trans a6, b7.trans a7⟩

/-! ### The payload -/

theorem words_length (w : Nat) (big : Bool) (n : Nat) (bs : List Nat) : (words w big n bs).length = n := by
  induction n generalizing bs with
  | zero => rfl
  | succ n ih => simp [words, ih]

def DataOK (p : Packet) : Prop :=
  match p.data with
  | .none => p.format = none ∨ p.pl = 0
  | .i16 xs => ∃ f, p.format = some f ∧ f.kinds = [.i16] ∧ xs.length = p.pl / 2
  | .i32 xs => ∃ f, p.format = some f ∧ f.kinds = [.i32] ∧ xs.length = p.pl / 4
  | .i64 xs => ∃ f, p.format = some f ∧ f.kinds = [.i64] ∧ xs.length = p.pl / 8
  | .raw bs => ∃ f, p.format = some f ∧ f.kinds.length ≠ 1 ∧ bs.length = p.pl

theorem readPayload_ok (p : Packet) (rest : List Nat) (base : Nat) (q : Packet) (n : Nat)
    (h : readPayload p rest base = (.ok q, n)) (hd : p.data = .none) :
    (∃ d, q = { p with data := d }) ∧ DataOK q ∧ n = base + q.data.len * q.data.wsize ∧
      n ≤ base + p.pl ∧ n ≤ base + rest.length := by
  unfold readPayload at h
  split at h
  · rename_i hf
    simp only [Prod.mk.injEq, Except.ok.injEq] at h
    obtain ⟨rfl, rfl⟩ := h
    refine ⟨⟨p.data, rfl⟩, ?_, ?_, by omega, by omega⟩
    · unfold DataOK; rw [hd]; exact Or.inl hf
    · rw [hd]; simp [Data.len]
  · rename_i f hf
    split at h
    · rename_i hz
      simp only [Prod.mk.injEq, Except.ok.injEq] at h
      obtain ⟨rfl, rfl⟩ := h
      refine ⟨⟨p.data, rfl⟩, ?_, ?_, by omega, by omega⟩
      · unfold DataOK; rw [hd]; exact Or.inr hz
      · rw [hd]; simp [Data.len]
    · simp only at h
      split at h
      · rename_i hk
        split at h
        · simp at h
        · rename_i hlen
          simp only [Prod.mk.injEq, Except.ok.injEq] at h
          obtain ⟨rfl, rfl⟩ := h
          have hdv := Nat.mul_div_le p.pl 2
          refine ⟨⟨_, rfl⟩, ?_, ?_, by omega, by omega⟩
          · exact ⟨f, hf, hk, by simp [words_length]⟩
          · simp [Data.len, Data.wsize, words_length, Nat.mul_comm]
      · rename_i hk
        split at h
        · simp at h
        · rename_i hlen
          simp only [Prod.mk.injEq, Except.ok.injEq] at h
          obtain ⟨rfl, rfl⟩ := h
          have hdv := Nat.mul_div_le p.pl 4
          refine ⟨⟨_, rfl⟩, ?_, ?_, by omega, by omega⟩
          · exact ⟨f, hf, hk, by simp [words_length]⟩
          · simp [Data.len, Data.wsize, words_length, Nat.mul_comm]
      · rename_i hk
        split at h
        · simp at h
        · rename_i hlen
          simp only [Prod.mk.injEq, Except.ok.injEq] at h
          obtain ⟨rfl, rfl⟩ := h
          have hdv := Nat.mul_div_le p.pl 8
          refine ⟨⟨_, rfl⟩, ?_, ?_, by omega, by omega⟩
          · exact ⟨f, hf, hk, by simp [words_length]⟩
          · simp [Data.len, Data.wsize, words_length, Nat.mul_comm]
      · simp at h
      · rename_i h16 h32 h64 hone
        split at h
        · simp at h
        · rename_i hlen
          simp only [Prod.mk.injEq, Except.ok.injEq] at h
          obtain ⟨rfl, rfl⟩ := h
          refine ⟨⟨_, rfl⟩, ?_, ?_, by omega, by omega⟩
          · refine ⟨f, hf, ?_, by simp; omega⟩
            intro hl1
            obtain ⟨k, hk⟩ := List.length_eq_one_iff.mp hl1
            exact hone k hk
          · simp [Data.len, Data.wsize]; omega

theorem readPayload_consumed (p : Packet) (rest : List Nat) (base : Nat) :
    (readPayload p rest base).2 ≤ base + p.pl ∧ (readPayload p rest base).2 ≤ base + rest.length := by
  unfold readPayload
  split
  · simp
  · split
    · simp
    · simp only
      have h2 := Nat.mul_div_le p.pl 2
      have h4 := Nat.mul_div_le p.pl 4
      have h8 := Nat.mul_div_le p.pl 8
      split <;> (try split) <;> simp <;> omega

/-! ### ReadPacket -/

theorem exists_cons (bs : List Nat) (n : Nat) (h : n + 1 ≤ bs.length) :
    ∃ a r, bs = a :: r ∧ n ≤ r.length := by
  cases bs with
  | nil => simp at h
  | cons a r => exact ⟨a, r, rfl, by simpa using h⟩

theorem exists_16 (bs : List Nat) (h : 16 ≤ bs.length) :
    ∃ a0 a1 a2 a3 a4 a5 a6 a7 a8 a9 a10 a11 a12 a13 a14 a15 rest,
      bs = a0 :: a1 :: a2 :: a3 :: a4 :: a5 :: a6 :: a7 :: a8 :: a9 :: a10 :: a11 :: a12 :: a13 :: a14 :: a15 :: rest := by
  obtain ⟨a0, r0, rfl, h0⟩ := exists_cons bs 15 h
  obtain ⟨a1, r1, rfl, h1⟩ := exists_cons r0 14 h0
  obtain ⟨a2, r2, rfl, h2⟩ := exists_cons r1 13 h1
  obtain ⟨a3, r3, rfl, h3⟩ := exists_cons r2 12 h2
  obtain ⟨a4, r4, rfl, h4⟩ := exists_cons r3 11 h3
  obtain ⟨a5, r5, rfl, h5⟩ := exists_cons r4 10 h4
  obtain ⟨a6, r6, rfl, h6⟩ := exists_cons r5 9 h5
  obtain ⟨a7, r7, rfl, h7⟩ := exists_cons r6 8 h6
  obtain ⟨a8, r8, rfl, h8⟩ := exists_cons r7 7 h7
  obtain ⟨a9, r9, rfl, h9⟩ := exists_cons r8 6 h8
  obtain ⟨a10, r10, rfl, h10⟩ := exists_cons r9 5 h9
  obtain ⟨a11, r11, rfl, h11⟩ := exists_cons r10 4 h10
  obtain ⟨a12, r12, rfl, h12⟩ := exists_cons r11 3 h11
  obtain ⟨a13, r13, rfl, h13⟩ := exists_cons r12 2 h12
  obtain ⟨a14, r14, rfl, h14⟩ := exists_cons r13 1 h13
  obtain ⟨a15, r15, rfl, _⟩ := exists_cons r14 0 h14
  exact ⟨_, _, _, _, _, _, _, _, _, _, _, _, _, _, _, _, _, rfl⟩

/-- the header packet before the TLVs are applied -/
def basePacket (v hl pl src seq : Nat) : Packet :=
  { version := v, hl := hl, pl := pl, src := src, seq := seq,
    plen := (hl : Int) + pl, format := none, shape := none, ts := none, label := [],
    offset := 0, explicitOffset := false, data := .none }

/-- `decodeC` on an input with a complete fixed header, as a function of the 16 header bytes -/
theorem decodeC_cons16 (v hl p0 p1 m0 m1 m2 m3 s0 s1 s2 s3 q0 q1 q2 q3 : Nat) (rest : List Nat) :
    decodeC (v :: hl :: p0 :: p1 :: m0 :: m1 :: m2 :: m3 :: s0 :: s1 :: s2 :: s3 :: q0 :: q1 :: q2 :: q3 :: rest) =
      if hl < 16 then (.error .bad, 16) else
      if be32 m0 m1 m2 m3 ≠ magic then (.error .bad, 16) else
      if rest.length < hl - 16 then (.error (shortRead rest), 16 + rest.length) else
      match parseTLV (rest.take (hl - 16)) with
      | .error e => (.error e, hl)
      | .ok tlvs =>
        if shapeUnusable (tlvs.foldl applyTLV (basePacket v hl (be16 p0 p1) (be32 s0 s1 s2 s3) (be32 q0 q1 q2 q3)))
        then (.error .bad, hl)
        else readPayload (tlvs.foldl applyTLV (basePacket v hl (be16 p0 p1) (be32 s0 s1 s2 s3) (be32 q0 q1 q2 q3)))
              (rest.drop (hl - 16)) hl := by
  rfl

structure DecInv (p : Packet) (hl pl : Nat) : Prop where
  hl_eq : p.hl = hl
  pl_eq : p.pl = pl
  pl_lt : pl < 65536
  hl_lt : hl < 256
  plen : p.plen = (hl : Int) + pl
  hdr : HdrOK p
  usable : shapeUnusable p = false
  data : DataOK p

theorem decodeC_ok (bs : List Nat) (p : Packet) (n : Nat) (h : decodeC bs = (.ok p, n)) (hb : IsBytes bs) :
    DecInv p (declared bs).1 (declared bs).2 ∧ n = (declared bs).1 + p.data.len * p.data.wsize ∧
      n ≤ (declared bs).1 + (declared bs).2 ∧ n ≤ bs.length := by
  by_cases hlen : 16 ≤ bs.length
  · obtain ⟨v, hl, p0, p1, m0, m1, m2, m3, s0, s1, s2, s3, q0, q1, q2, q3, rest, rfl⟩ := exists_16 bs hlen
    rw [decodeC_cons16] at h
    have hhl : hl < 256 := hb hl (by simp)
    have hp0 : p0 < 256 := hb p0 (by simp)
    have hp1 : p1 < 256 := hb p1 (by simp)
    have hrest : IsBytes rest := fun b hb' => hb b (by simp [hb'])
    split at h
    · simp at h
    split at h
    · simp at h
    split at h
    · simp at h
    rename_i h16 hmagic hshort
    split at h
    · simp at h
    rename_i tlvs htl
    split at h
    · simp at h
    rename_i husable
    have htlv := parseTLVf_ok _ _ _ htl (isBytes_take _ _ hrest)
    have hbase : HdrOK (basePacket v hl (be16 p0 p1) (be32 s0 s1 s2 s3) (be32 q0 q1 q2 q3)) := by
      refine ⟨by simp [basePacket], ?_, ?_, ?_⟩ <;> intro _ hh <;> simp [basePacket] at hh
    obtain ⟨hhdr, c1, c2, c3, c4, c5, c6, c7⟩ := foldl_applyTLV_ok tlvs _ hbase htlv
    obtain ⟨⟨d, hq⟩, hdata, hn, hn1, hn2⟩ := readPayload_ok _ _ _ _ _ h (by rw [c7]; rfl)
    have hpl := be16_lt p0 p1 hp0 hp1
    simp only [declared]
    simp only [Bool.not_eq_true] at husable
    refine ⟨⟨?_, ?_, hpl, hhl, ?_, ?_, ?_, hdata⟩, ?_, ?_, ?_⟩
    · rw [hq]; exact c2
    · rw [hq]; exact c3
    · rw [hq]; exact c6
    · rw [hq]; exact hhdr
    · rw [hq]; exact husable
    · exact hn
    · rw [c3] at hn1; exact hn1
    · simp only [List.length_drop, List.length_cons] at hn2 ⊢
      omega
  · exfalso
    unfold decodeC at h
    split at h
    · simp at h
    · simp at hlen <;> omega
    · simp at h

theorem decodeC_consumed (bs : List Nat) :
    (decodeC bs).2 ≤ bs.length ∧ (decodeC bs).2 ≤ max 16 ((declared bs).1 + (declared bs).2) := by
  by_cases hlen : 16 ≤ bs.length
  · obtain ⟨v, hl, p0, p1, m0, m1, m2, m3, s0, s1, s2, s3, q0, q1, q2, q3, rest, rfl⟩ := exists_16 bs hlen
    rw [decodeC_cons16]
    simp only [declared, List.length_cons]
    split
    · simp; omega
    split
    · simp; omega
    split
    · simp; omega
    rename_i h16 hmagic hshort
    split
    · simp; omega
    rename_i tlvs htl
    split
    · simp; omega
    have hbase : HdrOK (basePacket v hl (be16 p0 p1) (be32 s0 s1 s2 s3) (be32 q0 q1 q2 q3)) := by
      refine ⟨by simp [basePacket], ?_, ?_, ?_⟩ <;> intro _ hh <;> simp [basePacket] at hh
    have hr := readPayload_consumed
      (tlvs.foldl applyTLV (basePacket v hl (be16 p0 p1) (be32 s0 s1 s2 s3) (be32 q0 q1 q2 q3)))
      (rest.drop (hl - 16)) hl
    have hpl : (tlvs.foldl applyTLV (basePacket v hl (be16 p0 p1) (be32 s0 s1 s2 s3) (be32 q0 q1 q2 q3))).pl
        = be16 p0 p1 := by
      have : ∀ (l : List TLV) (p : Packet), (l.foldl applyTLV p).pl = p.pl := by
        intro l
        induction l with
        | nil => intro p; rfl
        | cons x r ih => intro p; rw [List.foldl_cons, ih]; cases x <;> rfl
      rw [this]; rfl
    rw [hpl] at hr
    simp only [List.length_drop] at hr
    omega
  · have hl' : bs.length < 16 := by omega
    unfold decodeC
    split
    · simp
    · simp at hl' <;> omega
    · simp only; omega

end DastardV.C15
