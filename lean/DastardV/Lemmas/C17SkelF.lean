/-
C17 — `skeleton_ok` (Lemmas/C17Skel.lean), part F: the token universe (`used`, `allToks`), the initial
placement (`init_thr`, `init_kind`, `init_mtx`) and the typing of the control client.  Core Lean only.
-/
import DastardV.Lemmas.C17SkelE
namespace DastardV.C17
open Sched

/-- the tokens of a run -/
@[c17set] def UsedS (n narch ntrs nblk src : Nat) : TS := fun c i s =>
  ((c = 0 ∨ c = 1 ∨ c = 2 ∨ c = 5 ∨ c = 12 ∨ c = 13 ∨ c = 14 ∨ c = 15) ∧ i = 0 ∧ s = 0) ∨ ((c = 9 ∨ c = 11) ∧ i = 0)
  ∨ (c = 7 ∧ i < n ∧ s = 0) ∨ (c = 8 ∧ i < n) ∨ (c = 6 ∧ i < narch ∧ s = 0) ∨ (c = 10 ∧ i < ntrs ∧ s = 0)
  ∨ (c = 3 ∧ s = 0 ∧ ((1 ≤ src ∧ i = 0) ∨ (src = 0 ∧ 1 ≤ i ∧ i ≤ nblk)))
  ∨ (c = 4 ∧ s = 0 ∧ ((1 ≤ src ∧ i < n) ∨ (src = 0 ∧ n ≤ i ∧ i < (nblk + 1) * n)))

theorem used_iff (p : Par) (k : Nat) :
    used p k = true ↔ UsedS p.n p.narch p.ntrs p.nblk p.src (clsT k) (idxT k) (shT k) := by
  have hc := clsT_lt k
  have hs := shT_lt k
  unfold used
  simp only [show clsOf (k / 2) = clsT k from rfl, show idxOf (k / 2) = idxT k from rfl,
    show k % 2 = shT k from rfl]
  generalize clsT k = c at hc
  generalize idxT k = i
  generalize shT k = sh at hs
  revert i sh
  revert c
  refine forall_cls ?_ ?_ ?_ ?_ ?_ ?_ ?_ ?_ ?_ ?_ ?_ ?_ ?_ ?_ ?_ ?_ <;> intro i sh hs
  all_goals simp (config := {decide := true}) [UsedS, Par.merged]
  all_goals (intro _; split <;> omega)

section
variable (s : Sched)

/-- the token universe of the skeleton -/
@[c17set] def Sched.US (s : Sched) : TS := UsedS s.n (s.archIdx s.k) (s.trsIdx s.k) s.k s.src

theorem used_iff' (k : Nat) : used s.par k = true ↔ s.US (clsT k) (idxT k) (shT k) := used_iff s.par k

theorem rep_allToks : Rep s.allToks s.US := by
  unfold allToks
  have r1 : Rep [nfnTok, tk 2 0 0, tk 5 0 0, tk 9 0 0, tk 9 0 1, tk 11 0 0, tk 11 0 1, tk 12 0 0, tk 13 0 0, tk 14 0 0, tk 15 0 0, tk 0 0 0]
      (fun c i s' => ((c = 0 ∨ c = 1 ∨ c = 2 ∨ c = 5 ∨ c = 12 ∨ c = 13 ∨ c = 14 ∨ c = 15) ∧ i = 0 ∧ s' = 0) ∨ ((c = 9 ∨ c = 11) ∧ i = 0)) := by
    intro k
    have := shT_lt k
    simp only [List.mem_cons, List.mem_nil_iff, or_false, nfnTok,
      eq_tk_iff (c := 1) (s := 0) (by decide) (by decide), eq_tk_iff (c := 2) (s := 0) (by decide) (by decide),
      eq_tk_iff (c := 5) (s := 0) (by decide) (by decide), eq_tk_iff (c := 9) (s := 0) (by decide) (by decide),
      eq_tk_iff (c := 9) (s := 1) (by decide) (by decide), eq_tk_iff (c := 11) (s := 0) (by decide) (by decide),
      eq_tk_iff (c := 11) (s := 1) (by decide) (by decide), eq_tk_iff (c := 12) (s := 0) (by decide) (by decide),
      eq_tk_iff (c := 13) (s := 0) (by decide) (by decide), eq_tk_iff (c := 14) (s := 0) (by decide) (by decide),
      eq_tk_iff (c := 15) (s := 0) (by decide) (by decide), eq_tk_iff (c := 0) (s := 0) (by decide) (by decide)]
    omega
  have r2 := rep_procAll s.n 1 (by omega)
  have r3 := Rep.mapTk (c0 := 6) (s0 := 0) (by decide) (by decide) (s.archIdx s.k)
  have r4 := Rep.mapTk (c0 := 10) (s0 := 0) (by decide) (by decide) (s.trsIdx s.k)
  cases hm : s.merged with
  | true =>
    have hm' : s.par.merged = true := hm
    have h0 : s.src ≠ 0 := by
      intro h; rw [merged_zero h] at hm; cases hm
    have r5 := rep_blockToks s.par 0
    have r := (((r1.append r2).append r3).append r4).append r5
    clear r1 r2 r3 r4 r5
    simp only [par_n] at r
    simp only [hm', if_true]
    exact r.congrSub (by toksub) (by toksub)
  | false =>
    have hm' : s.par.merged = false := hm
    have h0 : s.src = 0 := by simpa [Sched.merged] using hm
    have r5 := rep_blocks s.par
    have r := (((r1.append r2).append r3).append r4).append r5
    clear r1 r2 r3 r4 r5
    simp only [par_n, par_nblk] at r
    simp only [hm', Bool.false_eq_true, if_false]
    exact r.congrSub (by toksub) (by toksub)

end

/-! ### the initial placement -/

theorem used26 (p : Par) : used p 26 = true := by simp [used, clsOf, idxOf]
theorem used23 (p : Par) : used p 23 = true := by simp [used, clsOf, idxOf]
theorem used2 (p : Par) : used p 2 = true := by simp [used, clsOf, idxOf]
theorem used4 (p : Par) : used p 4 = true := by simp [used, clsOf, idxOf]

theorem mem_mtxPay (p : Par) (k m : Nat) : k ∈ (mkSpec p).mtxPay m ↔
    (m % 16 = 15 ∧ k = m / 16 ∧ used p k = false) ∨ (m = 7 ∧ p.src = 1 ∧ (k = 2 ∨ k = 4)) ∨ (m = 8 ∧ k = 23)
    ∨ (m = 9 ∧ k = 26) := by
  simp only [mkSpec, tk, enc, nfnTok, clsOf, idxOf]
  by_cases hm : m % 16 = 15
  · have h7 : m ≠ 7 := by omega
    have h8 : m ≠ 8 := by omega
    have h9 : m ≠ 9 := by omega
    by_cases hu : used p (m / 16) = true
    · simp [hm, h7, h8, h9, hu]; intro h; subst h; simp [hu]
    · simp [hm, h7, h8, h9, hu]; intro h; subst h; simpa using hu
  · by_cases h7 : m = 7
    · subst h7
      by_cases hs : p.src = 1 <;> simp [hs]
    · by_cases h8 : m = 8
      · subst h8; simp
      · by_cases h9 : m = 9
        · subst h9; simp
        · simp [hm, h7, h8, h9]

theorem init_cases (p : Par) (k : Nat) :
    (used p k = false ∧ (mkSpec p).init k = .mtx (k * 16 + 15)) ∨
    (used p k = true ∧ k = 26 ∧ (mkSpec p).init k = .mtx 9) ∨
    (used p k = true ∧ k = 23 ∧ (mkSpec p).init k = .mtx 8) ∨
    (used p k = true ∧ p.src = 1 ∧ (k = 2 ∨ k = 4) ∧ (mkSpec p).init k = .mtx 7) ∨
    (used p k = true ∧ k ≠ 26 ∧ k ≠ 23 ∧ ¬ (p.src = 1 ∧ (k = 2 ∨ k = 4)) ∧
      (mkSpec p).init k = if k = 30 then .thr 3 else .thr 0) := by
  simp only [mkSpec, tk, enc, nfnTok]
  cases hu : used p k with
  | false => simp
  | true =>
    by_cases h26 : k = 26
    · simp [h26]
    · by_cases h23 : k = 23
      · simp [h23]
      · by_cases hs : p.src = 1 ∧ (k = 2 ∨ k = 4)
        · have : k ≠ 26 ∧ k ≠ 23 := ⟨h26, h23⟩
          rcases hs with ⟨hs, h | h⟩ <;> simp [hs, h]
        · simp [h26, h23, hs]

theorem init_mtx_iff (p : Par) (k m : Nat) : (mkSpec p).init k = .mtx m ↔ k ∈ (mkSpec p).mtxPay m := by
  rw [mem_mtxPay]
  have u26 := used26 p
  have u23 := used23 p
  have u2 := used2 p
  have u4 := used4 p
  rcases init_cases p k with ⟨hu, h⟩ | ⟨hu, hk, h⟩ | ⟨hu, hk, h⟩ | ⟨hu, hs, hk, h⟩ | ⟨hu, h1, h2, h3, h⟩ <;> rw [h]
  · have h26 : k ≠ 26 := fun e => by rw [e, u26] at hu; cases hu
    have h23 : k ≠ 23 := fun e => by rw [e, u23] at hu; cases hu
    have h2 : k ≠ 2 := fun e => by rw [e, u2] at hu; cases hu
    have h4 : k ≠ 4 := fun e => by rw [e, u4] at hu; cases hu
    simp only [Loc.mtx.injEq, hu, and_true]
    show @Eq Nat _ _ ↔ _
    constructor <;> intro hh <;> omega
  · subst hk
    simp only [Loc.mtx.injEq, u26, Bool.true_eq_false, and_false, false_or, and_true]
    show @Eq Nat _ _ ↔ _
    constructor <;> intro hh <;> omega
  · subst hk
    simp only [Loc.mtx.injEq, u23, Bool.true_eq_false, and_false, false_or, and_true]
    show @Eq Nat _ _ ↔ _
    constructor <;> intro hh <;> omega
  · simp only [Loc.mtx.injEq, hu, Bool.true_eq_false, and_false, false_or, hs, true_and]
    show @Eq Nat _ _ ↔ _
    constructor <;> intro hh <;> omega
  · have hne : (if k = 30 then Loc.thr 3 else Loc.thr 0) ≠ Loc.mtx m := by split <;> simp
    simp only [hne, hu, Bool.true_eq_false, and_false, false_or, false_iff]
    omega

section
variable (s : Sched)

theorem sys_init_kind (k : Nat) :
    (∃ t, s.system.sp.init k = .thr t) ∨ (∃ m, s.system.sp.init k = .mtx m) := by
  show (∃ t, (mkSpec s.par).init k = .thr t) ∨ (∃ m, (mkSpec s.par).init k = .mtx m)
  rcases init_cases s.par k with ⟨_, h⟩ | ⟨_, _, h⟩ | ⟨_, _, h⟩ | ⟨_, _, _, h⟩ | ⟨_, _, _, _, h⟩
  · exact Or.inr ⟨_, h⟩
  · exact Or.inr ⟨_, h⟩
  · exact Or.inr ⟨_, h⟩
  · exact Or.inr ⟨_, h⟩
  · rw [h]; split
    · exact Or.inl ⟨_, rfl⟩
    · exact Or.inl ⟨_, rfl⟩

theorem sys_init_thr (k : Nat) (t : Tid) (h : s.system.sp.init k = .thr t) :
    t ∈ s.system.roots ∧ k ∈ s.system.allToks := by
  change (mkSpec s.par).init k = .thr t at h
  show t ∈ [tR, tS] ∧ k ∈ s.allToks
  rcases init_cases s.par k with ⟨_, h'⟩ | ⟨_, _, h'⟩ | ⟨_, _, h'⟩ | ⟨_, _, _, h'⟩ | ⟨hu, _, _, _, h'⟩ <;>
    rw [h'] at h
  · cases h
  · cases h
  · cases h
  · cases h
  · refine ⟨?_, (rep_allToks s k).2 ((used_iff' s k).1 hu)⟩
    split at h <;> injection h with h <;> subst h
    · exact List.mem_cons_of_mem _ List.mem_cons_self
    · exact List.mem_cons_self

/-- what the control client holds at the beginning: everything that is not kept by a mutex -/
@[c17set] def Sched.R0 (s : Sched) : TS := fun c i s' =>
  s.US c i s' ∧ ¬ OneS 13 0 0 c i s' ∧ ¬ OneS 11 0 1 c i s' ∧ ¬ FlS s.src c i s' ∧ ¬ OneS 15 0 0 c i s'

theorem holds_H0_R : Holds (s.system.H0 tR) s.R0 := by
  intro k hk
  show k ∈ s.allToks.filter (fun k => (mkSpec s.par).init k == .thr tR)
  rw [List.mem_filter]
  refine ⟨(rep_allToks s k).2 hk.1, ?_⟩
  have hu := (used_iff' s k).2 hk.1
  rcases init_cases s.par k with ⟨hu', _⟩ | ⟨_, e, _⟩ | ⟨_, e, _⟩ | ⟨_, hs, e, _⟩ | ⟨_, _, _, _, h'⟩
  · rw [hu] at hu'; cases hu'
  · subst e; exact absurd ⟨rfl, rfl, rfl⟩ hk.2.1
  · subst e; exact absurd ⟨rfl, rfl, rfl⟩ hk.2.2.1
  · have hs' : s.src = 1 := hs
    rcases e with e | e <;> subst e
    · exact absurd ⟨hs', Or.inl rfl, rfl, rfl⟩ hk.2.2.2.1
    · exact absurd ⟨hs', Or.inr rfl, rfl, rfl⟩ hk.2.2.2.1
  · have h30 : k ≠ 30 := fun e => by subst e; exact hk.2.2.2.2 ⟨rfl, rfl, rfl⟩
    rw [h', if_neg h30]; rfl

/-- the status thread owns its table of last messages from the beginning -/
theorem holds_H0_S : Holds (s.system.H0 tS) (OneS 15 0 0) := by
  intro k hk
  have e : k = tk 15 0 0 := (eq_tk_iff (by decide) (by decide) k).2 hk
  show k ∈ s.allToks.filter (fun k => (mkSpec s.par).init k == .thr tS)
  rw [List.mem_filter]
  refine ⟨(rep_allToks s k).2 (by tokarith), ?_⟩
  subst e
  have u : used s.par 30 = true := by simp [used, clsOf, idxOf]
  have : (mkSpec s.par).init (tk 15 0 0) = .thr (enc 3 0) := by
    simp [mkSpec, tk, enc, nfnTok, u]
  rw [this]; rfl

theorem holds_H0_empty (t : Tid) : Holds (s.system.H0 t) EmptyS := fun _ h => h.elim

/-! ### the control client -/

theorem kids_rund : s.kids oRund = [tL] := by
  simp [kids, oRund, clsOf, enc]

theorem typedR_spawns :
    HT (mkSpec s.par) s.kids tR s.R0 [.lock oCfg, .rd vVip, .unlock oCfg, .wgAdd oRund, .spawn tP, .spawn tL]
      (ClientS s.n) := by
  refine HT.seq (a := [.lock oCfg, .rd vVip, .unlock oCfg]) (b := [.wgAdd oRund, .spawn tP, .spawn tL])
    (HT.cfg (p := s.par) _ (Or.inr rfl)) (HT.cons (HT.wgAdd _) ?_)
  cases hm : s.merged with
  | true =>
    have h0 : s.src ≠ 0 := by
      intro h; rw [merged_zero h] at hm; cases hm
    refine HT.cons (HT.spawn (rep_spawn_P_merged s hm) (by toksub)) ?_
    exact (HT.spawn (rep_spawn_tL s 1 (by simp [hm])) (by toksub)).post (by toksub)
  | false =>
    have h0 : s.src = 0 := by simpa [Sched.merged] using hm
    refine HT.cons (HT.spawn (rep_spawn_P_sim s h0) (by toksub)) ?_
    exact (HT.spawn (rep_spawn_tL s 0 (by simp [hm])) (by toksub)).post (by toksub)

theorem typedR_reqs :
    HT (mkSpec s.par) s.kids tR (ClientS s.n)
      (if s.k0 ≤ s.k then
        [.send (oQreq 1), .recv oQres]
        ++ (rng (s.k - s.k0)).flatMap (fun d => [.lock oWsm, .rd vWsa, .unlock oWsm, .send (oQreq (d + 2)), .recv oQres])
      else []) EmptyS := by
  split
  · have r : Rep ((mkSpec s.par).chanPay (oQreq 1)) (ClientS s.n) := rep_chan_qreq1 s.par
    refine HT.seq (Q := EmptyS) (HT.cons (HT.send r (by toksub)) ((HT.recv0 _).post (by toksub))) ?_
    apply HT.range_const; intro d _
    refine HT.cons (HT.lock (rep_mtx_wsm _))
      (HT.cons (HT.rdv (c := 11) 0 1 (by decide) (by decide) (Or.inr rfl) (by tokarith))
      (HT.cons (HT.unlock (rep_mtx_wsm _) (by toksub))
      (HT.cons (HT.send0 (chanPay_oQreq _ (d + 2) (by omega))) ((HT.recv0 _).post (by toksub)))))
  · exact HT.nil (by toksub)

theorem typedR : HT (mkSpec s.par) s.kids tR s.R0 s.progR EmptyS := by
  unfold progR
  refine HT.seq (Q := EmptyS) (HT.seq (Q := ClientS s.n) (HT.seq (Q := ClientS s.n) (HT.seq (Q := ClientS s.n)
    (HT.seq (Q := s.R0) ?_ (typedR_spawns s)) ?_) ?_) (typedR_reqs s)) ?_
  · by_cases h : s.src = 1
    · simp only [h, BEq.rfl, if_true]
      have := (HT.fl (p := s.par) (kids := s.kids) (t := tR) (P := s.R0) h _ (Or.inr rfl))
      exact this.post (by toksub)
    · have : (s.src == 1) = false := by simpa using h
      simp only [this, Bool.false_eq_true, if_false]
      exact HT.refl
  · apply HT.range_const; intro i hi
    exact HT.rdv (c := 8) i 1 (by decide) (by decide) (Or.inr rfl) (by tokarith)
  · exact HT.rdv (c := 9) 0 1 (by decide) (by decide) (Or.inr rfl) (by tokarith)
  · refine HT.cons (HT.close0 rfl) (HT.cons (HT.recvC (rep_close_rundone s)) ?_)
    exact (HT.rdv (c := 11) 0 0 (by decide) (by decide) (Or.inl rfl) (by tokarith)).post (by toksub)

/-! ### every thread id -/

theorem typed_nil (t : Tid) (H : List Tok) : (typedFrom (mkSpec s.par) s.kids t H []).isSome = true := rfl

theorem sys_typed (hn : 0 < s.n) (hsrc : s.src ≤ 2) (t : Tid) :
    (typedFrom s.system.sp s.system.kids t (s.system.H0 t) (s.system.P t)).isSome = true := by
  show (typedFrom (mkSpec s.par) s.kids t (s.system.H0 t) (s.prog t)).isSome = true
  have hn0 : (s.n == 0) = false := by simp; omega
  have hE := holds_H0_empty s t
  unfold prog
  simp only [hn0, Bool.false_eq_true, if_false]
  split
  · split
    next h => rw [show t = tR by simpa using h]; exact (typedR s).isSome (holds_H0_R s)
    next h => rfl
  · split
    next h => rw [show t = tL by simpa using h]; exact (typedL s hn).isSome (holds_H0_empty s _)
    next h => rfl
  · split
    next h => rw [show t = tP by simpa using h]; exact (typedP s hsrc).isSome (holds_H0_empty s _)
    next h => rfl
  · split
    next h => rw [show t = tS by simpa using h]; exact (typedS s).isSome (holds_H0_S s)
    next h => rfl
  next hc =>
    split
    next h => exact (typedA s hn h.1 hsrc hc _).isSome hE
    next h => rfl
  next hc =>
    split
    next h => exact (typedAW s hn (by simpa using h.2.1) hc _).isSome hE
    next h => rfl
  next hc =>
    split
    next h => exact (typedW s hn _ 0 0 (by simpa using h.2.2) (Or.inl hc)).isSome hE
    next h => rfl
  next hc =>
    split
    next h => exact (typedW s hn _ 0 1 (by simpa using h.2.2) (Or.inl hc)).isSome hE
    next h => rfl
  next hc =>
    split
    next h => exact (typedW s hn _ 1 0 (by simpa using h.2.2.1) (Or.inr hc)).isSome hE
    next h => rfl
  next hc =>
    split
    next h => exact (typedW s hn _ 1 1 (by simpa using h.2.2.1) (Or.inr hc)).isSome hE
    next h => rfl
  · split
    next h => exact (typedAR s _).isSome hE
    next h => rfl
  · rfl

end
end DastardV.C17
