/-
C17 — the invariant of `typed_interleavings_owned` (Lemmas/C17Typed.lean), core Lean only.

`Exp S pre f l k` says, from the thread-local point of view, that token `k` should be at location `l`
after the prefix `pre` of the trace whose blocking state is `f`:
* at thread `t` iff the local typing of `proj pre t` (started from `H0 t`) holds `k`;
* in message `j` of channel `c` iff the message is sent and not yet received and `k ∈ chanPay c`;
* at the close of `c` iff `c` is closed, the one receiver `waiter c` has not yet received the close, and
  `k ∈ closePay c`;
* in mutex `m` iff it is free and `k ∈ mtxPay m`;
* in wait group `w` iff the adder has not waited yet and a kid that is done gave it back;
* at the spawn of `u` iff `u` is spawned and not started and `k ∈ spawnPay u`.
`GoodT S pre o f` says that the ownership machine's state `o` is exactly that (`o.loc k = l ↔ Exp … l k`),
plus the bookkeeping (message counters, wait-group counters, a `recvC c` only after `close c`) that keeps it true.
-/
import DastardV.Lemmas.C17TypedA

namespace DastardV.C17

def heldBy (S : System) (pre : Trace) (t : Tid) (k : Tok) : Prop :=
  ∃ H, typedFrom S.sp S.kids t (S.H0 t) (proj pre t) = some H ∧ k ∈ H

/-- the adder of `w` has waited -/
def waited (S : System) (pre : Trace) (w : Obj) : Prop := Ev.wgWait w ∈ proj pre (S.adder w)

/-- number of kids of `w` that are done -/
def doneCount (S : System) (pre : Trace) (w : Obj) : Nat :=
  (S.kids w).countP (fun u => decide (Ev.wgDone w ∈ proj pre u))

def Exp (S : System) (pre : Trace) (f : FSt) : Loc → Tok → Prop
  | .thr t, k => heldBy S pre t k
  | .msg c j, k => (f.nrecv c ≤ j ∧ j < f.nsend c) ∧ k ∈ S.sp.chanPay c
  | .clo c, k => (f.closed c = true ∧ Ev.recvC c ∉ proj pre (S.waiter c)) ∧ k ∈ S.sp.closePay c
  | .mtx m, k => f.held m = false ∧ k ∈ S.sp.mtxPay m
  | .wgb w, k => ¬ waited S pre w ∧ ∃ u, u ∈ S.kids w ∧ Ev.wgDone w ∈ proj pre u ∧ k ∈ S.sp.donePay w u
  | .spw u, k => (f.spawned u = true ∧ f.started u = false) ∧ k ∈ S.sp.spawnPay u

structure GoodT (S : System) (pre : Trace) (o : OSt) (f : FSt) : Prop where
  loc : ∀ k l, o.loc k = l ↔ Exp S pre f l k
  ns : ∀ c, o.nsend c = f.nsend c
  nr : ∀ c, o.nrecv c = f.nrecv c
  le : ∀ c, f.nrecv c ≤ f.nsend c
  ss : ∀ u, f.started u = true → f.spawned u = true
  wg : ∀ w, ¬ waited S pre w → f.cnt w + doneCount S pre w = cnt (.wgAdd w) (proj pre (S.adder w))
  wd : ∀ w, waited S pre w → ∀ u, u ∈ S.kids w → Ev.wgDone w ∈ proj pre u
  rc : ∀ c u, Ev.recvC c ∈ proj pre u → f.closed c = true

/-! ### the initial state -/

theorem heldBy_nil (S : System) (t : Tid) (k : Tok) : heldBy S [] t k ↔ k ∈ S.H0 t := by
  unfold heldBy
  rw [proj_nil]
  simp only [typedFrom, Option.some.injEq]
  constructor
  · rintro ⟨H, h1, h2⟩; rw [h1]; exact h2
  · intro h; exact ⟨_, rfl, h⟩

theorem mem_H0 (S : System) (ok : S.OK) (t : Tid) (k : Tok) : k ∈ S.H0 t ↔ S.sp.init k = .thr t := by
  unfold System.H0
  rw [List.mem_filter]
  constructor
  · rintro ⟨_, h⟩; exact of_decide_eq_true (by simpa using h)
  · intro h; exact ⟨(ok.init_thr k t h).2, by simp [h]⟩

theorem GoodT.init (S : System) (ok : S.OK) : GoodT S [] (OSt.init S.sp) FSt.init where
  loc := by
    intro k l
    show S.sp.init k = l ↔ _
    cases l with
    | thr t => simp only [Exp]; rw [heldBy_nil, mem_H0 S ok]
    | msg c j =>
      simp only [Exp, FSt.init]
      constructor
      · intro h
        rcases ok.init_kind k with ⟨t, h'⟩ | ⟨m, h'⟩ <;> rw [h'] at h <;> cases h
      · rintro ⟨⟨_, h⟩, _⟩; exact absurd h (Nat.not_lt_zero _)
    | clo c =>
      simp only [Exp, FSt.init]
      constructor
      · intro h
        rcases ok.init_kind k with ⟨t, h'⟩ | ⟨m, h'⟩ <;> rw [h'] at h <;> cases h
      · rintro ⟨⟨h, _⟩, _⟩; cases h
    | mtx m =>
      simp only [Exp, FSt.init, true_and]
      exact ok.init_mtx k m
    | wgb w =>
      simp only [Exp, proj_nil, List.not_mem_nil, false_and, and_false, exists_false, iff_false]
      intro h
      rcases ok.init_kind k with ⟨t, h'⟩ | ⟨m, h'⟩ <;> rw [h'] at h <;> cases h
    | spw u =>
      simp only [Exp, FSt.init]
      constructor
      · intro h
        rcases ok.init_kind k with ⟨t, h'⟩ | ⟨m, h'⟩ <;> rw [h'] at h <;> cases h
      · rintro ⟨⟨h, _⟩, _⟩; cases h
  ns := fun _ => rfl
  nr := fun _ => rfl
  le := fun _ => Nat.le_refl _
  ss := fun _ h => by cases h
  wg := by
    intro w _
    simp [FSt.init, doneCount, proj_nil, cnt]
  wd := by
    intro w h
    simp [waited, proj_nil] at h
  rc := by
    intro c u h
    simp [proj_nil] at h

/-! ### what one more event of thread `t` means for its typing and its program -/

structure Ctx (S : System) (pre : Trace) (t : Tid) (e : Ev) (H H' : List Tok) : Prop where
  pref : proj pre t ++ [e] <+: S.P t
  tH : typedFrom S.sp S.kids t (S.H0 t) (proj pre t) = some H
  tE : typeEv S.sp S.kids t H e = some H'
  tH' : typedFrom S.sp S.kids t (S.H0 t) (proj (pre ++ [(t, e)]) t) = some H'

theorem Ctx.mk' (S : System) (ok : S.OK) (pre : Trace) (t : Tid) (e : Ev)
    (hI : Interleaving S.P (pre ++ [(t, e)])) : ∃ H H', Ctx S pre t e H H' := by
  have hp : proj pre t ++ [e] <+: S.P t := by
    have := hI t
    rwa [proj_snoc_self] at this
  obtain ⟨post, hpost⟩ := hp
  have hty := ok.typed t
  rw [← hpost] at hty
  obtain ⟨H, H', h1, h2, h3⟩ := typedFrom_snoc_inv _ _ _ _ _ _ _ hty
  refine ⟨H, H', ⟨⟨post, hpost⟩, h1, h2, ?_⟩⟩
  rw [proj_snoc_self]; exact h3

theorem Ctx.held {S : System} {pre : Trace} {t : Tid} {e : Ev} {H H' : List Tok}
    (cx : Ctx S pre t e H H') (k : Tok) : heldBy S pre t k ↔ k ∈ H := by
  unfold heldBy
  rw [cx.tH]
  simp only [Option.some.injEq]
  constructor
  · rintro ⟨H1, h1, h2⟩; rw [h1]; exact h2
  · intro h; exact ⟨_, rfl, h⟩

theorem Ctx.held' {S : System} {pre : Trace} {t : Tid} {e : Ev} {H H' : List Tok}
    (cx : Ctx S pre t e H H') (k : Tok) : heldBy S (pre ++ [(t, e)]) t k ↔ k ∈ H' := by
  unfold heldBy
  rw [cx.tH']
  simp only [Option.some.injEq]
  constructor
  · rintro ⟨H1, h1, h2⟩; rw [h1]; exact h2
  · intro h; exact ⟨_, rfl, h⟩

theorem heldBy_snoc_ne (S : System) (pre : Trace) (t u : Tid) (e : Ev) (k : Tok) (h : u ≠ t) :
    heldBy S (pre ++ [(t, e)]) u k ↔ heldBy S pre u k := by
  unfold heldBy
  rw [proj_snoc_ne pre t u e h]

theorem Ctx.mem_prog {S : System} {pre : Trace} {t : Tid} {e : Ev} {H H' : List Tok}
    (cx : Ctx S pre t e H H') : e ∈ S.P t :=
  cx.pref.subset (by simp)

theorem Ctx.cnt_le {S : System} {pre : Trace} {t : Tid} {e : Ev} {H H' : List Tok}
    (cx : Ctx S pre t e H H') : cnt e (proj pre t) + 1 ≤ cnt e (S.P t) := by
  have := cx.pref.sublist.count_le e
  simpa [cnt, List.count_append] using this

/-- an event the program has at most once has not happened before -/
theorem Ctx.fresh {S : System} {pre : Trace} {t : Tid} {e : Ev} {H H' : List Tok}
    (cx : Ctx S pre t e H H') (h : cnt e (S.P t) ≤ 1) : e ∉ proj pre t := by
  have := cx.cnt_le
  have h0 : cnt e (proj pre t) = 0 := by omega
  exact List.count_eq_zero.1 h0

/-! ### the wait-group facts the side conditions give at a step -/

theorem Ctx.add_adder {S : System} (ok : S.OK) {pre : Trace} {t : Tid} {w : Obj} {H H' : List Tok}
    (cx : Ctx S pre t (.wgAdd w) H H') : t = S.adder w := by
  refine Classical.byContradiction fun h => ?_
  exact (ok.add_adder w t h).1 cx.mem_prog

theorem Ctx.wait_adder {S : System} (ok : S.OK) {pre : Trace} {t : Tid} {w : Obj} {H H' : List Tok}
    (cx : Ctx S pre t (.wgWait w) H H') : t = S.adder w := by
  refine Classical.byContradiction fun h => ?_
  exact (ok.add_adder w t h).2 cx.mem_prog

theorem Ctx.wait_fresh {S : System} (ok : S.OK) {pre : Trace} {t : Tid} {w : Obj} {H H' : List Tok}
    (cx : Ctx S pre t (.wgWait w) H H') : ¬ waited S pre w := by
  have ht := cx.wait_adder ok
  unfold waited
  rw [← ht]
  apply cx.fresh
  rw [ht]
  exact ok.wait_once w

theorem Ctx.wait_adds {S : System} (ok : S.OK) {pre : Trace} {t : Tid} {w : Obj} {H H' : List Tok}
    (cx : Ctx S pre t (.wgWait w) H H') :
    cnt (.wgAdd w) (proj pre (S.adder w)) = (S.kids w).length := by
  have ht := cx.wait_adder ok
  obtain ⟨post, hpost⟩ := cx.pref
  rw [← ht]
  refine (ok.adds_before w (proj pre t) post ?_).1
  rw [← ht, ← hpost, List.append_assoc]
  rfl

theorem Ctx.done_kid {S : System} (ok : S.OK) {pre : Trace} {t : Tid} {w : Obj} {H H' : List Tok}
    (cx : Ctx S pre t (.wgDone w) H H') : t ∈ S.kids w := by
  refine Classical.byContradiction fun h => ?_
  have h1 := ok.done_kid w t
  rw [if_neg h] at h1
  exact (List.count_eq_zero.1 h1) cx.mem_prog

theorem Ctx.done_fresh {S : System} (ok : S.OK) {pre : Trace} {t : Tid} {w : Obj} {H H' : List Tok}
    (cx : Ctx S pre t (.wgDone w) H H') : Ev.wgDone w ∉ proj pre t := by
  apply cx.fresh
  rw [ok.done_kid w t]
  split <;> omega

/-! ### the facts about the one receiver of a close that hands tokens over -/

theorem Ctx.recvc_waiter {S : System} (ok : S.OK) {pre : Trace} {t : Tid} {c : Obj} {H H' : List Tok}
    (cx : Ctx S pre t (.recvC c) H H') (hne : S.sp.closePay c ≠ []) : t = S.waiter c := by
  refine Classical.byContradiction fun h => ?_
  exact (ok.recvc_one c hne).1 t h cx.mem_prog

theorem Ctx.recvc_fresh {S : System} (ok : S.OK) {pre : Trace} {t : Tid} {c : Obj} {H H' : List Tok}
    (cx : Ctx S pre t (.recvC c) H H') (hne : S.sp.closePay c ≠ []) :
    Ev.recvC c ∉ proj pre (S.waiter c) := by
  have ht := cx.recvc_waiter ok hne
  rw [← ht]
  apply cx.fresh
  rw [ht]
  exact (ok.recvc_one c hne).2

/-! ### frames: what an event leaves alone -/

theorem waited_snoc_of_ne (S : System) (pre : Trace) (t : Tid) (e : Ev) (w : Obj) (h : e ≠ .wgWait w) :
    waited S (pre ++ [(t, e)]) w ↔ waited S pre w := by
  unfold waited
  exact mem_proj_snoc_of_ne pre t _ e _ (fun x => h x.symm)

theorem waited_snoc_mono (S : System) (pre : Trace) (t : Tid) (e : Ev) (w : Obj) (h : waited S pre w) :
    waited S (pre ++ [(t, e)]) w := mem_proj_snoc_mono pre t _ e _ h

theorem doneCount_snoc_of_ne (S : System) (pre : Trace) (t : Tid) (e : Ev) (w : Obj)
    (h : e ≠ .wgDone w) : doneCount S (pre ++ [(t, e)]) w = doneCount S pre w := by
  unfold doneCount
  apply List.countP_congr
  intro u _
  have := mem_proj_snoc_of_ne pre t u e (.wgDone w) (fun x => h x.symm)
  simp only [decide_eq_true_eq]
  exact this

theorem doneCount_snoc_done (S : System) (ok : S.OK) (pre : Trace) (t : Tid) (w : Obj)
    (hk : t ∈ S.kids w) (hf : Ev.wgDone w ∉ proj pre t) :
    doneCount S (pre ++ [(t, .wgDone w)]) w = doneCount S pre w + 1 := by
  unfold doneCount
  apply countP_add_one _ _ t (S.kids w) (ok.kids_nodup w) hk
  · simpa using hf
  · simp [proj_snoc_self]
  · intro u hu
    rw [proj_snoc_ne pre t u _ hu]

/-- the wait-group bookkeeping is untouched by an event that is no wait-group operation -/
theorem wg_frame {S : System} {pre : Trace} {o : OSt} {f f' : FSt} (g : GoodT S pre o f) (t : Tid) (e : Ev)
    (hc : f'.cnt = f.cnt)
    (hA : ∀ w, e ≠ .wgAdd w) (hD : ∀ w, e ≠ .wgDone w) (hW : ∀ w, e ≠ .wgWait w) :
    (∀ w, ¬ waited S (pre ++ [(t, e)]) w →
        f'.cnt w + doneCount S (pre ++ [(t, e)]) w = cnt (.wgAdd w) (proj (pre ++ [(t, e)]) (S.adder w))) ∧
    (∀ w, waited S (pre ++ [(t, e)]) w → ∀ u, u ∈ S.kids w → Ev.wgDone w ∈ proj (pre ++ [(t, e)]) u) := by
  constructor
  · intro w hw
    rw [waited_snoc_of_ne S pre t e w (hW w)] at hw
    rw [hc, doneCount_snoc_of_ne S pre t e w (hD w),
      cnt_proj_snoc_of_ne pre t _ e _ (fun x => hA w x.symm)]
    exact g.wg w hw
  · intro w hw u hu
    rw [waited_snoc_of_ne S pre t e w (hW w)] at hw
    exact mem_proj_snoc_mono pre t u e _ (g.wd w hw u hu)

/-- a `recvC c` happens only on a closed channel, and channels stay closed -/
theorem rc_frame {S : System} {pre : Trace} {o : OSt} {f : FSt} (g : GoodT S pre o f) (t : Tid) (e : Ev)
    (cl' : Obj → Bool)
    (hc : ∀ c, f.closed c = true → cl' c = true) (he : ∀ c, e = .recvC c → cl' c = true) :
    ∀ c u, Ev.recvC c ∈ proj (pre ++ [(t, e)]) u → cl' c = true := by
  intro c u h
  rcases (mem_proj_snoc pre t u e _).1 h with h | ⟨_, h⟩
  · exact hc c (g.rc c u h)
  · exact he c h.symm

/-- `Exp` at a location the event has nothing to do with -/
theorem Exp_frame (S : System) (pre : Trace) (t : Tid) (e : Ev) (f f' : FSt) (l : Loc) (k : Tok)
    (hthr : ∀ u, l = .thr u → u ≠ t)
    (hmsg : ∀ c j, l = .msg c j → (f'.nrecv c ≤ j ∧ j < f'.nsend c ↔ f.nrecv c ≤ j ∧ j < f.nsend c))
    (hmtx : ∀ m, l = .mtx m → f'.held m = f.held m)
    (hspw : ∀ u, l = .spw u → f'.spawned u = f.spawned u ∧ f'.started u = f.started u)
    (hwgb : ∀ w, l = .wgb w → e ≠ .wgWait w ∧ e ≠ .wgDone w)
    (hclo : ∀ c, l = .clo c → f'.closed c = f.closed c ∧ e ≠ .recvC c) :
    Exp S (pre ++ [(t, e)]) f' l k ↔ Exp S pre f l k := by
  cases l with
  | thr u => simp only [Exp]; exact heldBy_snoc_ne S pre t u e k (hthr u rfl)
  | msg c j => simp only [Exp]; rw [hmsg c j rfl]
  | clo c =>
    simp only [Exp]
    rw [(hclo c rfl).1, mem_proj_snoc_of_ne pre t _ e _ (fun x => (hclo c rfl).2 x.symm)]
  | mtx m => simp only [Exp]; rw [hmtx m rfl]
  | wgb w =>
    simp only [Exp]
    rw [waited_snoc_of_ne S pre t e w (hwgb w rfl).1]
    have : ∀ u, Ev.wgDone w ∈ proj (pre ++ [(t, e)]) u ↔ Ev.wgDone w ∈ proj pre u :=
      fun u => mem_proj_snoc_of_ne pre t u e _ (fun x => (hwgb w rfl).2 x.symm)
    simp only [this]
  | spw u => simp only [Exp]; rw [(hspw u rfl).1, (hspw u rfl).2]

end DastardV.C17
