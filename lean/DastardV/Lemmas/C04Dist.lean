/-
C04 helper lemmas, part 3: channel table, mixer, external-trigger scan, distributeData.
-/
import DastardV.Lemmas.C04Reader
namespace DastardV.C04

/-! ### the channel table -/

theorem dm' (n q r a : Nat) (h : a = n * q + r) (hr : r < n) : a / n = q ∧ a % n = r := by
  subst h
  have hn : 0 < n := by omega
  constructor
  · rw [Nat.mul_add_div hn, Nat.div_eq_of_lt hr]; simp
  · rw [Nat.mul_add_mod, Nat.mod_eq_of_lt hr]

theorem lt_mul_of_parts (c nc r nr : Nat) (hc : c < nc) (hr : r < nr) : c * nr + r < nc * nr := by
  have : (c + 1) * nr ≤ nc * nr := Nat.mul_le_mul_right _ hc
  rw [Nat.succ_mul] at this
  omega

/-- closed form of `chan2readoutOrder`: channel `2(c·nrows+r)+e` is read out at index `2(r·ncols+c)+e` -/
def readoutOf (g : Geom) (ch : Nat) : Nat := 2 * ((ch / 2 % g.nr) * g.nc + ch / 2 / g.nr) + ch % 2

theorem readoutOf_channum (g : Geom) (hc : 0 < g.nc) (_hr : 0 < g.nr) (i : Nat) (hi : i < g.nchan) :
    channum g i < g.nchan ∧ readoutOf g (channum g i) = i := by
  have hw : i / 2 < g.nc * g.nr := by unfold Geom.nchan at hi; omega
  have hrr : i / 2 / g.nc < g.nr := (Nat.div_lt_iff_lt_mul hc).mpr (by rw [Nat.mul_comm]; exact hw)
  have hcc : i / 2 % g.nc < g.nc := Nat.mod_lt _ hc
  have hlt := lt_mul_of_parts _ _ _ _ hcc hrr
  have hdm := Nat.div_add_mod (i / 2) g.nc
  generalize hR : i / 2 / g.nc = r at *
  generalize hC : i / 2 % g.nc = c at *
  have hch : channum g i = 2 * (c * g.nr + r) + i % 2 := by
    unfold channum; simp only [hR, hC]; omega
  have h2 := dm' g.nr c r (c * g.nr + r) (by rw [Nat.mul_comm]) hrr
  constructor
  · rw [hch]; unfold Geom.nchan; omega
  · unfold readoutOf
    rw [hch]
    have e1 : (2 * (c * g.nr + r) + i % 2) / 2 = c * g.nr + r := by omega
    have e2 : (2 * (c * g.nr + r) + i % 2) % 2 = i % 2 := by omega
    rw [e1, e2, h2.1, h2.2]
    have : r * g.nc + c = i / 2 := by rw [Nat.mul_comm]; exact hdm
    rw [this]; omega

theorem channum_readoutOf (g : Geom) (_hc : 0 < g.nc) (hr : 0 < g.nr) (ch : Nat) (hch : ch < g.nchan) :
    readoutOf g ch < g.nchan ∧ channum g (readoutOf g ch) = ch := by
  have hk : ch / 2 < g.nc * g.nr := by unfold Geom.nchan at hch; omega
  have hcc : ch / 2 / g.nr < g.nc := (Nat.div_lt_iff_lt_mul hr).mpr hk
  have hrr : ch / 2 % g.nr < g.nr := Nat.mod_lt _ hr
  have hlt := lt_mul_of_parts _ _ _ _ hrr hcc
  have hdm := Nat.div_add_mod (ch / 2) g.nr
  generalize hC : ch / 2 / g.nr = c at *
  generalize hR : ch / 2 % g.nr = r at *
  have h2 := dm' g.nc r c (r * g.nc + c) (by rw [Nat.mul_comm]) hcc
  constructor
  · unfold readoutOf Geom.nchan; simp only [hC, hR]
    have : g.nr * g.nc = g.nc * g.nr := Nat.mul_comm _ _
    omega
  · unfold channum readoutOf
    simp only [hC, hR]
    have e1 : (2 * (r * g.nc + c) + ch % 2) / 2 = r * g.nc + c := by omega
    have e2 : (2 * (r * g.nc + c) + ch % 2) % 2 = ch % 2 := by omega
    rw [e1, e2, h2.1, h2.2]
    have : c * g.nr = g.nr * c := Nat.mul_comm _ _
    omega

theorem foldl_set_inverse (n : Nat) (f : Nat → Nat) (hf : ∀ i < n, f i < n)
    (hinj : ∀ i j, i < n → j < n → f i = f j → i = j) :
    ∀ k ≤ n, ((List.range k).foldl (fun t i => t.set (f i) i) (List.replicate n 0)).length = n ∧
      ∀ i < k, ((List.range k).foldl (fun t i => t.set (f i) i) (List.replicate n 0)).getD (f i) 0 = i := by
  intro k
  induction k with
  | zero => intro _; simp
  | succ k ih =>
    intro hk
    have ⟨hl, hv⟩ := ih (by omega)
    rw [List.range_succ, List.foldl_append]
    simp only [List.foldl_cons, List.foldl_nil]
    constructor
    · simp [hl]
    · intro i hi
      rw [List.getD_eq_getElem?_getD, List.getElem?_set]
      by_cases hik : i = k
      · subst hik; simp [hl, hf i (by omega)]
      · have hne : f k ≠ f i := fun h => hik (hinj i k (by omega) (by omega) h.symm)
        rw [if_neg hne, ← List.getD_eq_getElem?_getD]
        exact hv i (by omega)

theorem c2rTable_spec (g : Geom) (hc : 0 < g.nc) (hr : 0 < g.nr) :
    (c2rTable g).length = g.nchan ∧ ∀ ch < g.nchan, (c2rTable g).getD ch 0 = readoutOf g ch := by
  have hinj : ∀ i j, i < g.nchan → j < g.nchan → channum g i = channum g j → i = j := by
    intro i j hi hj h
    rw [← (readoutOf_channum g hc hr i hi).2, ← (readoutOf_channum g hc hr j hj).2, h]
  have ⟨hl, hv⟩ := foldl_set_inverse g.nchan (channum g) (fun i hi => (readoutOf_channum g hc hr i hi).1) hinj
    g.nchan (Nat.le_refl _)
  refine ⟨hl, ?_⟩
  intro ch hch
  have ⟨h1, h2⟩ := channum_readoutOf g hc hr ch hch
  have := hv (readoutOf g ch) h1
  rw [h2] at this
  exact this

/-! ### the mixer -/

/-- `lastFb` after a run of feedback samples -/
def carry : Nat → List Nat → Nat
  | last, [] => last
  | _, f :: fs => carry (mask f) fs

theorem carry_append (last : Nat) (a b : List Nat) : carry last (a ++ b) = carry (carry last a) b := by
  induction a generalizing last with
  | nil => rfl
  | cons f fs ih => simp [carry, ih]

variable {σ ρ : Type}

@[simp] theorem mixSpec_nil_left (ops : FloatOps σ ρ) (errs fbs : List Nat) (last : Nat) :
    mixSpec ops [] errs fbs last = [] := by simp [mixSpec]

@[simp] theorem mixSpec_nil_mid (ops : FloatOps σ ρ) (ss : List σ) (fbs : List Nat) (last : Nat) :
    mixSpec ops ss [] fbs last = [] := by simp [mixSpec]

theorem mixSpec_cons (ops : FloatOps σ ρ) (s : σ) (ss : List σ) (e : Nat) (es : List Nat) (f : Nat) (fs : List Nat)
    (last : Nat) :
    mixSpec ops (s :: ss) (e :: es) (f :: fs) last =
      (if ops.isZero s then last else mixOne ops s e last) :: mixSpec ops ss es fs (mask f) := by
  simp [mixSpec]

theorem mixRetard_eq (ops : FloatOps σ ρ) (s : σ) : ∀ (xs : List (Nat × Nat)) (last : Nat),
    mixRetard ops s last xs =
      (mixSpec ops (List.replicate xs.length s) (xs.map (·.2)) (xs.map (·.1)) last, carry last (xs.map (·.1))) := by
  intro xs
  induction xs with
  | nil => intro last; simp [mixRetard, carry]
  | cons x xs ih =>
    intro last
    obtain ⟨fb, err⟩ := x
    simp only [mixRetard, ih, List.length_cons, List.replicate_succ, List.map_cons, mixSpec_cons, carry]

theorem mixSpec_append (ops : FloatOps σ ρ) : ∀ (ss1 : List σ) (e1 f1 : List Nat) (ss2 : List σ) (e2 f2 : List Nat)
    (last : Nat), e1.length = ss1.length → f1.length = ss1.length →
    mixSpec ops (ss1 ++ ss2) (e1 ++ e2) (f1 ++ f2) last =
      mixSpec ops ss1 e1 f1 last ++ mixSpec ops ss2 e2 f2 (carry last f1) := by
  intro ss1
  induction ss1 with
  | nil =>
    intro e1 f1 ss2 e2 f2 last he hf
    have : e1 = [] := List.length_eq_zero_iff.mp he
    have : f1 = [] := List.length_eq_zero_iff.mp hf
    subst_vars; simp [carry]
  | cons s ss ih =>
    intro e1 f1 ss2 e2 f2 last he hf
    match e1, f1, he, hf with
    | e :: es, f :: fs, he, hf =>
      simp only [List.cons_append, mixSpec_cons, carry]
      rw [ih es fs ss2 e2 f2 (mask f) (by simpa using he) (by simpa using hf)]

/-! ### the rising-edge scan -/

def lastFlag : Bool → List (Int × Bool) → Bool
  | last, [] => last
  | _, it :: rest => lastFlag it.2 rest

theorem lastFlag_append (last : Bool) (a b : List (Int × Bool)) :
    lastFlag last (a ++ b) = lastFlag (lastFlag last a) b := by
  induction a generalizing last with
  | nil => rfl
  | cons it rest ih => simp [lastFlag, ih]

@[simp] theorem edgeSpec_nil (init : Bool) : edgeSpec init [] = [] := by simp [edgeSpec]

theorem edgeSpec_cons (init : Bool) (c : Int) (s : Bool) (rest : List (Int × Bool)) :
    edgeSpec init ((c, s) :: rest) = (if s && !init then [c] else []) ++ edgeSpec s rest := by
  simp only [edgeSpec, List.map_cons, List.zipWith_cons_cons, List.filterMap_cons]
  by_cases h : (s && !init) = true <;> simp [h]

theorem edgeScan_eq : ∀ (items : List (Int × Bool)) (last : Bool),
    edgeScan last items = (edgeSpec last items, lastFlag last items) := by
  intro items
  induction items with
  | nil => intro last; simp [edgeScan, lastFlag]
  | cons it rest ih =>
    intro last
    obtain ⟨c, s⟩ := it
    simp only [edgeScan, ih, edgeSpec_cons, lastFlag]
    by_cases h : (s && !last) = true <;> simp [h]

theorem edgeSpec_append (init : Bool) (a b : List (Int × Bool)) :
    edgeSpec init (a ++ b) = edgeSpec init a ++ edgeSpec (lastFlag init a) b := by
  induction a generalizing init with
  | nil => simp [lastFlag]
  | cons it rest ih =>
    obtain ⟨c, s⟩ := it
    simp only [List.cons_append, edgeSpec_cons, ih, lastFlag, List.append_assoc]

/-! ### readout-order slices of frames -/

theorem flat_getD (ws : List Word) : ∀ (w e : Nat), e < 2 →
    (flat ws).getD (2 * w + e) 0 = (if e = 0 then (ws.getD w (0, 0)).1 else (ws.getD w (0, 0)).2) := by
  induction ws with
  | nil => intro w e _; simp
  | cons x xs ih =>
    intro w e he
    cases w with
    | zero =>
      have : e = 0 ∨ e = 1 := by omega
      rcases this with rfl | rfl <;> simp
    | succ w =>
      have : 2 * (w + 1) + e = (2 * w + e) + 1 + 1 := by omega
      rw [this, flat_cons]
      simp only [List.getD_cons_succ]
      rw [ih w e he]

theorem sliced_length (g : Geom) (frs : List Frame) : (sliced g frs).length = g.nchan := by simp [sliced]

theorem sliced_getD (g : Geom) (frs : List Frame) (i : Nat) (hi : i < g.nchan) :
    (sliced g frs).getD i [] = frs.map fun fr => (flat fr).getD i 0 := by
  simp [sliced, List.getD_eq_getElem?_getD, List.getElem?_map, List.getElem?_range hi]

/-- the slice at the readout position of channel `ch` is the channel's word sequence -/
theorem sliced_readoutOf (g : Geom) (hc : 0 < g.nc) (hr : 0 < g.nr) (frs : List Frame) (ch : Nat) (hch : ch < g.nchan) :
    (sliced g frs).getD (readoutOf g ch) [] = chanTrue g frs ch := by
  rw [sliced_getD g frs _ (channum_readoutOf g hc hr ch hch).1]
  unfold chanTrue readoutOf wordAt
  apply List.map_congr_left
  intro fr _
  rw [flat_getD fr _ _ (Nat.mod_lt _ (by omega))]

theorem rect_sliced (g : Geom) (frs : List Frame) : rect g (sliced g frs) = true := by
  unfold rect
  simp only [sliced_length, beq_self_eq_true, Bool.true_and, List.all_eq_true]
  intro d hd
  simp only [sliced, List.mem_map, List.mem_range] at hd
  obtain ⟨i, _, rfl⟩ := hd
  simp only [List.length_map, beq_iff_eq]
  cases hn : g.nchan with
  | zero => simp [hn] at *
  | succ n => simp [sliced, hn, List.range_succ_eq_map]

theorem sliced_nframes (g : Geom) (hn : 0 < g.nchan) (frs : List Frame) : ((sliced g frs).headD []).length = frs.length := by
  obtain ⟨n, hn'⟩ : ∃ n, g.nchan = n + 1 := ⟨g.nchan - 1, by omega⟩
  simp [sliced, hn', List.range_succ_eq_map]

theorem zip_range_eq {α} (l : List α) (d : α) :
    List.zip (List.range l.length) l = (List.range l.length).map fun j => (j, l.getD j d) := by
  apply List.ext_getElem
  · simp
  · intro i h1 h2
    simp at h1
    simp [List.getD_eq_getElem?_getD, List.getElem?_eq_getElem h1]

theorem flatMap_congr' {α β} (l : List α) (f h : α → List β) (hfh : ∀ x ∈ l, f x = h x) :
    l.flatMap f = l.flatMap h := by
  induction l with
  | nil => rfl
  | cons x xs ih =>
    simp only [List.flatMap_cons]
    rw [hfh x (by simp), ih (fun y hy => hfh y (by simp [hy]))]

theorem extItems_sliced (g : Geom) (hc : 0 < g.nc) (hr : 0 < g.nr) (frs : List Frame) (frame0 : Int) :
    extItems g (c2rTable g) (sliced g frs) frs.length frame0 = flagItems g frs frame0 := by
  have ⟨_, htbl⟩ := c2rTable_spec g hc hr
  unfold extItems flagItems
  rw [zip_range_eq frs []]
  rw [List.flatMap_map]
  apply flatMap_congr'
  intro f hf
  simp only [List.mem_range] at hf
  rw [List.map_map]
  apply List.map_congr_left
  intro r hrr
  simp only [List.mem_range] at hrr
  have hch : r * 2 + 1 < g.nchan := by
    unfold Geom.nchan
    have : r < g.nc * g.nr := by
      calc r < g.nr := hrr
        _ = 1 * g.nr := by omega
        _ ≤ g.nc * g.nr := Nat.mul_le_mul_right _ hc
    omega
  simp only [Function.comp, extIdx]
  rw [htbl _ hch, sliced_readoutOf g hc hr frs _ hch]
  unfold rowFlag chanTrue
  have e1 : (r * 2 + 1) / 2 = r := by omega
  have e2 : (r * 2 + 1) % 2 = 1 := by omega
  rw [e1, e2]
  simp only [Nat.mod_eq_of_lt hrr, Nat.div_eq_of_lt hrr]
  simp [List.getD_eq_getElem?_getD, List.getElem?_map, List.getElem?_eq_getElem hf]

/-- the dropped-frame estimate of a buffer message -/
def dropEst (prevT t : Int) (drop : Bool) : Int := if drop then t - prevT else 0

theorem chanTrue_length (g : Geom) (frs : List Frame) (ch : Nat) : (chanTrue g frs ch).length = frs.length := by
  simp [chanTrue]

theorem zip_map_fst {α β} : ∀ (a : List α) (b : List β), a.length = b.length → (a.zip b).map (·.1) = a
  | [], _, _ => by simp
  | x :: xs, [], h => by simp at h
  | x :: xs, y :: ys, h => by simp [zip_map_fst xs ys (by simpa using h)]

theorem zip_map_snd {α β} : ∀ (a : List α) (b : List β), a.length = b.length → (a.zip b).map (·.2) = b
  | [], [], _ => by simp
  | [], y :: ys, h => by simp at h
  | x :: xs, [], h => by simp at h
  | x :: xs, y :: ys, h => by simp [zip_map_snd xs ys (by simpa using h)]

theorem chanOut_sliced (ops : FloatOps σ ρ) (g : Geom) (hc : 0 < g.nc) (hr : 0 < g.nr) (frs : List Frame)
    (s : σ) (last : Nat) (ch : Nat) (hch : ch < g.nchan) :
    chanOut ops (c2rTable g) (sliced g frs) s last ch =
      if ch % 2 = 1 then
        (mixSpec ops (List.replicate frs.length s) (chanTrue g frs (ch - 1)) (chanTrue g frs ch) last,
          carry last (chanTrue g frs ch))
      else (chanTrue g frs ch, last) := by
  have ⟨_, htbl⟩ := c2rTable_spec g hc hr
  unfold chanOut
  simp only [htbl ch hch, sliced_readoutOf g hc hr frs ch hch]
  by_cases hodd : ch % 2 = 1
  · simp only [hodd, ↓reduceIte]
    have h1 : ch - 1 < g.nchan := by omega
    rw [htbl _ h1, sliced_readoutOf g hc hr frs _ h1, mixRetard_eq]
    have hl : (chanTrue g frs ch).length = (chanTrue g frs (ch - 1)).length := by simp [chanTrue_length]
    rw [zip_map_fst _ _ hl, zip_map_snd _ _ hl]
    simp [chanTrue_length]
  · simp [hodd]

theorem distribute_sliced (ops : FloatOps σ ρ) (zero : σ) (g : Geom) (hg : geomOK g = true) (st : DState σ)
    (frs : List Frame) (t : Int) (drop : Bool) :
    ∃ st' blk, distribute ops zero g st { dc := sliced g frs, t := t, drop := drop } = some (st', blk) ∧
      blk.first = st.next + dropEst st.prevT t drop ∧ blk.dropped = dropEst st.prevT t drop ∧
      blk.nframes = frs.length ∧
      blk.ext = edgeSpec st.extLast (flagItems g frs blk.first) ∧
      blk.data.length = g.nchan ∧
      (∀ ch, ch < g.nchan → blk.data.getD ch [] =
        if ch % 2 = 1 then mixSpec ops (List.replicate frs.length (st.scale.getD ch zero))
            (chanTrue g frs (ch - 1)) (chanTrue g frs ch) (st.lastFb.getD ch 0)
        else chanTrue g frs ch) ∧
      st'.next = blk.first + frs.length ∧
      st'.extLast = lastFlag st.extLast (flagItems g frs blk.first) ∧
      st'.prevT = t ∧ st'.scale = st.scale ∧ st'.lastFb.length = g.nchan ∧
      (∀ ch, ch < g.nchan → st'.lastFb.getD ch 0 =
        if ch % 2 = 1 then carry (st.lastFb.getD ch 0) (chanTrue g frs ch) else st.lastFb.getD ch 0) := by
  have ⟨hc, hr, hF⟩ := geom_facts g hg
  have hn : 0 < g.nchan := by rw [nchan_eq]; omega
  unfold distribute
  simp only [rect_sliced, Bool.not_true, Bool.false_eq_true, ↓reduceIte, sliced_nframes g hn,
    extItems_sliced g (by omega) (by omega), edgeScan_eq]
  refine ⟨_, _, rfl, ?_, ?_, rfl, rfl, by simp, ?_, rfl, rfl, rfl, rfl, by simp, ?_⟩
  · simp [dropEst]
  · simp [dropEst]
  · intro ch hch
    simp only [List.map_map, List.getD_eq_getElem?_getD, List.getElem?_map, List.getElem?_range hch,
      Option.map_some, Option.getD_some, Function.comp]
    have := chanOut_sliced ops g (by omega) (by omega) frs (st.scale.getD ch zero) (st.lastFb.getD ch 0) ch hch
    simp only [List.getD_eq_getElem?_getD] at this
    rw [this]
    by_cases hodd : ch % 2 = 1 <;> simp [hodd]
  · intro ch hch
    simp only [List.map_map, List.getD_eq_getElem?_getD, List.getElem?_map, List.getElem?_range hch,
      Option.map_some, Option.getD_some, Function.comp]
    have := chanOut_sliced ops g (by omega) (by omega) frs (st.scale.getD ch zero) (st.lastFb.getD ch 0) ch hch
    simp only [List.getD_eq_getElem?_getD] at this
    rw [this]
    by_cases hodd : ch % 2 = 1 <;> simp [hodd]

end DastardV.C04
