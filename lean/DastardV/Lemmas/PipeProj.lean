/-
The per-channel projection of the source-level pipeline model.  The correspondence check compares the
real code with `Pipe.runOps` (all channels + broker + control requests); the cross-block theorems of
C02 / C08 are about the per-channel runs `runChan` / `runFull` (append → `triggerData` → trim).  This file
proves that the latter are exactly what `runOps` does to every single channel: secondaries (group
triggers) are cut from the channel's buffer but never change its state, and the broker never feeds back
into a channel's primary triggers.
-/
import DastardV.Lemmas.Pipe3
import DastardV.Lemmas.EmtRecs
import DastardV.Lemmas.EdgeGlobal
namespace DastardV.Pipe
open Trig

/-- `stepChan` is `stepFull` with the records reduced to their frames -/
theorem stepChan_eq_stepFull (zt : ZT) (c : Chan) (seg : List Nat) (first t0 per : Int) (sg : Bool) :
    stepChan zt c seg first t0 per sg = (stepFull zt c seg first t0 per sg).map (fun r => (r.1, r.2.map (·.frame))) := by
  unfold stepChan stepFull
  split <;> simp_all

/-- `runChan` is `runFull` with the records reduced to their frames -/
theorem runChan_eq_runFull (zt : ZT) (tp : Nat → Int × Int) (sg : Bool) :
    ∀ (segs : List (List Nat)) (n : Nat) (c : Chan) (first : Int),
      runChan zt tp sg n c first segs = (runFull zt tp sg n c first segs).map (fun r => (r.1, r.2.map (·.frame)))
  | [], n, c, first => by simp [runChan, runFull]
  | seg :: segs, n, c, first => by
    unfold runChan runFull
    rw [stepChan_eq_stepFull]
    cases h1 : stepFull zt c seg first (tp n).1 (tp n).2 sg with
    | none => simp
    | some r1 =>
      obtain ⟨c1, rs⟩ := r1
      simp only [Option.map_some]
      rw [runChan_eq_runFull zt tp sg segs (n + 1) c1 (first + seg.length)]
      cases h2 : runFull zt tp sg (n + 1) c1 (first + seg.length) segs with
      | none => simp
      | some r2 => simp

/-- **one block of the source-level model, channel by channel**: `ProcessSegments` does to channel `j`
exactly `stepFull` (append its segment, `TriggerData`, trim); the records published for the channel are
its primary records followed by its secondary (group-trigger) records. -/
theorem opBlock_chan {s s' : Src} {first t0 per : Int} {signed : List Bool} {data : List (List Nat)}
    {zts : List (List (Int × Int))} {rs : List (List Rec)}
    (h : opBlock s first t0 per signed data zts = some (s', rs)) :
    s'.chans.length = s.chans.length ∧ rs.length = s.chans.length ∧
    ∀ (j : Nat) (c : Chan), s.chans[j]? = some c →
      ∃ d c1 prim sec, data[j]? = some d ∧
        stepFull (ztOf (zts[j]?.getD [])) c d first t0 per (signed[j]?.getD false) = some (c1, prim) ∧
        s'.chans[j]? = some c1 ∧ rs[j]? = some (prim ++ sec) := by
  unfold opBlock at h
  simp only [bind, pure] at h
  split at h
  · simp at h
  simp only [Option.bind_eq_some_iff] at h
  obtain ⟨p1, hp1, h⟩ := h
  split at h
  · simp at h
  rename_i secMap hdist
  simp only [Option.bind_eq_some_iff, Option.some.injEq, Prod.mk.injEq] at h
  obtain ⟨p2, hp2, hs', hrs⟩ := h
  subst hs'; subst hrs
  obtain ⟨hl1, g1⟩ := phase1_get first t0 per s.chans signed data zts p1 hp1
  obtain ⟨hl2, g2⟩ := phase2_get secMap p1 0 p2 hp2
  refine ⟨by simp [hl2, hl1], by simp [hl2, hl1], ?_⟩
  intro j c hcj
  have hjlt : j < s.chans.length := by
    rcases Nat.lt_or_ge j s.chans.length with h | h
    · exact h
    · rw [List.getElem?_eq_none h] at hcj; simp at hcj
  have hj2 : j < p2.length := by omega
  obtain ⟨c2, prim, fl, sec, hp1j, hsec, hc3, hout⟩ := g2 j (p2[j]).1 (p2[j]).2 (by simp [List.getElem?_eq_getElem hj2])
  obtain ⟨c', d, hcj', hdj, htd⟩ := g1 j c2 prim hp1j
  have : c' = c := by rw [hcj] at hcj'; simpa using hcj'.symm
  subst this
  refine ⟨d, trim c2, prim, sec, hdj, ?_, ?_, ?_⟩
  · unfold stepFull; rw [htd]
  · simp [List.getElem?_map, List.getElem?_eq_getElem hj2, hc3]
  · simp [List.getElem?_map, List.getElem?_eq_getElem hj2, hout]

/-! ### a run of blocks -/

/-- the part of a block operation that concerns channel `j` -/
def blockOf (j : Nat) : Op → Option (Int × Int × Int × Bool × List Nat)
  | .block first t0 per signed data => some (first, t0, per, signed[j]?.getD false, data[j]?.getD [])
  | _ => none

/-- `ops` are blocks only, contiguous for channel `j` from frame `first` on, all with the signedness
`sg`, and block number `i` of them carries the stamp `tp (n + i)` -/
def BlocksFor (j : Nat) (sg : Bool) (tp : Nat → Int × Int) : Nat → Int → List Op → List (List Nat) → Prop
  | _, _, [], segs => segs = []
  | n, first, o :: os, segs =>
    ∃ t0 per d rest, blockOf j o = some (first, t0, per, sg, d) ∧ tp n = (t0, per) ∧ segs = d :: rest ∧
      BlocksFor j sg tp (n + 1) (first + d.length) os rest

/-- the records published for channel `j` by each block: primaries then secondaries -/
def OutsFor (j : Nat) : List Out → List (List Rec × List Rec) → Prop
  | [], parts => parts = []
  | o :: os, parts => ∃ r prim sec rest, o = .recs r ∧ r[j]? = some (prim ++ sec) ∧ parts = (prim, sec) :: rest ∧
      OutsFor j os rest

/-- **The per-channel projection of any run of blocks.**  Whatever the other channels and the trigger
broker do: if the source-level model processes the block operations `ops` (channel `j` receiving the
segments `segs`, contiguous from frame `first`), then the per-channel run `runFull` on channel `j`
alone processes `segs` too, ends in the same channel state, and its records are, block by block, the
primary part of what the source publishes for channel `j`. -/
theorem runOps_chan (zts : List (List (Int × Int))) (j : Nat) (sg : Bool) (tp : Nat → Int × Int) :
    ∀ (ops : List Op) (n : Nat) (first : Int) (segs : List (List Nat)) (s : Src) (c : Chan) (outs : List Out),
      BlocksFor j sg tp n first ops segs → s.chans[j]? = some c →
      runOps zts s ops = some outs →
      ∃ c' recs parts, runFull (ztOf (zts[j]?.getD [])) tp sg n c first segs = some (c', recs) ∧
        OutsFor j outs parts ∧ recs = (parts.map (·.1)).flatten
  | [], n, first, segs, s, c, outs, hb, _, h => by
    simp only [BlocksFor] at hb
    subst hb
    simp only [runOps, Option.some.injEq] at h
    subst h
    exact ⟨c, [], [], rfl, rfl, rfl⟩
  | o :: os, n, first, segs, s, c, outs, hb, hc, h => by
    obtain ⟨t0, per, d, rest, hblk, htp, hsegs, hrest⟩ := hb
    subst hsegs
    cases o with
    | block f t p sgs data =>
      simp only [blockOf, Option.some.injEq, Prod.mk.injEq] at hblk
      obtain ⟨rfl, rfl, rfl, hsg, hd⟩ := hblk
      simp only [runOps, stepOp, bind, pure, Option.bind_eq_some_iff, Option.some.injEq] at h
      obtain ⟨⟨s1, out1⟩, ⟨⟨s1', r⟩, hob, hpair⟩, outs2, hrun2, hout⟩ := h
      simp only [Prod.mk.injEq] at hpair
      obtain ⟨rfl, rfl⟩ := hpair
      subst hout
      obtain ⟨_, _, hch⟩ := opBlock_chan hob
      obtain ⟨d', c1, prim, sec, hd', hstep, hc1, hrj⟩ := hch j c hc
      have hdd : d' = d := by rw [hd'] at hd; simpa using hd
      subst hdd
      rw [hsg] at hstep
      obtain ⟨c', recs2, parts2, hrf, hof, hre⟩ := runOps_chan zts j sg tp os (n + 1) (f + d'.length) rest s1' c1 outs2
        hrest hc1 hrun2
      refine ⟨c', prim ++ recs2, (prim, sec) :: parts2, ?_, ⟨r, prim, sec, parts2, rfl, hrj, rfl, hof⟩, ?_⟩
      · unfold runFull
        rw [htp]
        simp only [hstep, hrf]
      · simp [hre]
    | trig r => simp [blockOf] at hblk
    | len a b => simp [blockOf] at hblk
    | gadd ps => simp [blockOf] at hblk
    | gdel ps => simp [blockOf] at hblk
    | gstop => simp [blockOf] at hblk

/-- the same with the per-channel run reduced to trigger frames (`runChan`, the subject of the C02
theorems) -/
theorem runOps_chan_frames (zts : List (List (Int × Int))) (j : Nat) (sg : Bool) (tp : Nat → Int × Int)
    (ops : List Op) (n : Nat) (first : Int) (segs : List (List Nat)) (s : Src) (c : Chan) (outs : List Out)
    (hb : BlocksFor j sg tp n first ops segs) (hc : s.chans[j]? = some c) (h : runOps zts s ops = some outs) :
    ∃ c' parts, OutsFor j outs parts ∧
      runChan (ztOf (zts[j]?.getD [])) tp sg n c first segs = some (c', ((parts.map (·.1)).flatten).map (·.frame)) := by
  obtain ⟨c', recs, parts, hrf, hof, hre⟩ := runOps_chan zts j sg tp ops n first segs s c outs hb hc h
  refine ⟨c', parts, hof, ?_⟩
  rw [runChan_eq_runFull, hrf, hre]
  rfl

end DastardV.Pipe
