/-
C17 — `skeleton_ok` (Lemmas/C17Skel.lean), part B: a Hoare logic for thread-local typing.  Core Lean only.

`HT sp kids t P es Q`: from every holding that CONTAINS the token set `P`, typing of `es` succeeds and the
resulting holding contains `Q`.  (`typeEv` never fails because of extra tokens, so lower bounds suffice.)
-/
import DastardV.Lemmas.C17SkelA
namespace DastardV.C17

def HT (sp : Spec) (kids : Obj → List Tid) (t : Tid) (P : TS) (es : List Ev) (Q : TS) : Prop :=
  ∀ H, Holds H P → ∃ H', typedFrom sp kids t H es = some H' ∧ Holds H' Q

variable {sp : Spec} {kids : Obj → List Tid} {t : Tid}

theorem HT.nil {P Q : TS} (h : Sub Q P) : HT sp kids t P [] Q :=
  fun H hH => ⟨H, rfl, hH.mono h⟩

theorem HT.refl {P : TS} : HT sp kids t P [] P := HT.nil (fun _ _ _ _ _ h => h)

theorem HT.seq {P Q R : TS} {a b : List Ev} (h1 : HT sp kids t P a Q) (h2 : HT sp kids t Q b R) :
    HT sp kids t P (a ++ b) R := by
  intro H hH
  obtain ⟨H1, e1, hH1⟩ := h1 H hH
  obtain ⟨H2, e2, hH2⟩ := h2 H1 hH1
  exact ⟨H2, by rw [typedFrom_append, e1]; exact e2, hH2⟩

theorem HT.cons {P Q R : TS} {e : Ev} {es : List Ev} (h1 : HT sp kids t P [e] Q) (h2 : HT sp kids t Q es R) :
    HT sp kids t P (e :: es) R := HT.seq (a := [e]) h1 h2

theorem HT.conseq {P P' Q Q' : TS} {es : List Ev} (hp : Sub P P') (h : HT sp kids t P es Q) (hq : Sub Q' Q) :
    HT sp kids t P' es Q' := by
  intro H hH
  obtain ⟨H1, e1, hH1⟩ := h H (hH.mono hp)
  exact ⟨H1, e1, hH1.mono hq⟩

theorem HT.pre {P P' Q : TS} {es : List Ev} (hp : Sub P P') (h : HT sp kids t P es Q) : HT sp kids t P' es Q :=
  HT.conseq hp h (fun _ _ _ _ _ h => h)

theorem HT.post {P Q Q' : TS} {es : List Ev} (h : HT sp kids t P es Q) (hq : Sub Q' Q) : HT sp kids t P es Q' :=
  HT.conseq (fun _ _ _ _ _ h => h) h hq

/-- an event that needs no permission and moves nothing -/
theorem HT.skip {P : TS} {e : Ev} (he : ∀ H, typeEv sp kids t H e = some H) : HT sp kids t P [e] P := by
  intro H hH
  exact ⟨H, by simp only [typedFrom, he], hH⟩

theorem HT.wgAdd {P : TS} (w : Obj) : HT sp kids t P [.wgAdd w] P := HT.skip (fun _ => rfl)

theorem HT.rd {P : TS} {x : Var} {c i s : Nat} (hc : c < 16) (hs : s < 2) (hx : tk c i s ∈ sp.toks x)
    (hp : P c i s) : HT sp kids t P [.rd x] P := by
  intro H hH
  refine ⟨H, ?_, hH⟩
  have : ((sp.toks x).any fun k => H.contains k) = true := by
    rw [List.any_eq_true]
    exact ⟨_, hx, by simpa using hH.tk hc hs hp⟩
  simp only [typedFrom, typeEv, this, if_true]

theorem HT.wr {P : TS} {x : Var} (hne : sp.toks x ≠ [])
    (hp : ∀ k, k ∈ sp.toks x → P (clsT k) (idxT k) (shT k)) : HT sp kids t P [.wr x] P := by
  intro H hH
  refine ⟨H, ?_, hH⟩
  have h1 : (!(sp.toks x).isEmpty) = true := by
    cases h : sp.toks x with
    | nil => exact absurd h hne
    | cons a r => rfl
  have h2 : subsetB (sp.toks x) H = true := by
    rw [subsetB_iff]; intro k hk; exact hH k (hp k hk)
  simp only [typedFrom, typeEv, h1, h2, Bool.and_self, if_true]

/-- a release of the tokens `ks` -/
theorem HT.give {P A : TS} {e : Ev} {ks : List Tok}
    (he : ∀ H, typeEv sp kids t H e = if subsetB ks H then some (minus H ks) else none)
    (hr : Rep ks A) (hA : Sub A P) : HT sp kids t P [e] (fun c i s => P c i s ∧ ¬ A c i s) := by
  intro H hH
  have h2 : subsetB ks H = true := by
    rw [subsetB_iff]; intro k hk
    exact hH k (hA _ _ _ (clsT_lt k) (shT_lt k) ((hr k).1 hk))
  refine ⟨minus H ks, by simp only [typedFrom, he, h2, if_true], ?_⟩
  intro k hk
  rw [mem_minus]
  exact ⟨hH k hk.1, fun hks => hk.2 ((hr k).1 hks)⟩

/-- an acquire of the tokens `ks` -/
theorem HT.take {P A : TS} {e : Ev} {ks : List Tok}
    (he : ∀ H, typeEv sp kids t H e = some (H ++ ks))
    (hr : Rep ks A) : HT sp kids t P [e] (fun c i s => P c i s ∨ A c i s) := by
  intro H hH
  refine ⟨H ++ ks, by simp only [typedFrom, he], ?_⟩
  intro k hk
  rw [List.mem_append]
  cases hk with
  | inl h => exact Or.inl (hH k h)
  | inr h => exact Or.inr ((hr k).2 h)

theorem HT.send {P A : TS} {c : Obj} (hr : Rep (sp.chanPay c) A) (hA : Sub A P) :
    HT sp kids t P [.send c] (fun c i s => P c i s ∧ ¬ A c i s) := HT.give (fun _ => rfl) hr hA
theorem HT.close {P A : TS} {c : Obj} (hr : Rep (sp.closePay c) A) (hA : Sub A P) :
    HT sp kids t P [.close c] (fun c i s => P c i s ∧ ¬ A c i s) := HT.give (fun _ => rfl) hr hA
theorem HT.unlock {P A : TS} {m : Obj} (hr : Rep (sp.mtxPay m) A) (hA : Sub A P) :
    HT sp kids t P [.unlock m] (fun c i s => P c i s ∧ ¬ A c i s) := HT.give (fun _ => rfl) hr hA
theorem HT.wgDone {P A : TS} {w : Obj} (hr : Rep (sp.donePay w t) A) (hA : Sub A P) :
    HT sp kids t P [.wgDone w] (fun c i s => P c i s ∧ ¬ A c i s) := HT.give (fun _ => rfl) hr hA
theorem HT.spawn {P A : TS} {u : Tid} (hr : Rep (sp.spawnPay u) A) (hA : Sub A P) :
    HT sp kids t P [.spawn u] (fun c i s => P c i s ∧ ¬ A c i s) := HT.give (fun _ => rfl) hr hA

theorem HT.recv {P A : TS} {c : Obj} (hr : Rep (sp.chanPay c) A) :
    HT sp kids t P [.recv c] (fun c i s => P c i s ∨ A c i s) := HT.take (fun _ => rfl) hr
theorem HT.recvC {P A : TS} {c : Obj} (hr : Rep (sp.closePay c) A) :
    HT sp kids t P [.recvC c] (fun c i s => P c i s ∨ A c i s) := HT.take (fun _ => rfl) hr
theorem HT.lock {P A : TS} {m : Obj} (hr : Rep (sp.mtxPay m) A) :
    HT sp kids t P [.lock m] (fun c i s => P c i s ∨ A c i s) := HT.take (fun _ => rfl) hr
theorem HT.wgWait {P A : TS} {w : Obj} (hr : Rep (waitPay sp kids w) A) :
    HT sp kids t P [.wgWait w] (fun c i s => P c i s ∨ A c i s) := HT.take (fun _ => rfl) hr
theorem HT.start {P A : TS} (hr : Rep (sp.spawnPay t) A) :
    HT sp kids t P [.start] (fun c i s => P c i s ∨ A c i s) := HT.take (fun _ => rfl) hr

/-- events that transfer nothing (an empty payload) keep the set -/
theorem HT.give0 {P : TS} {e : Ev} {ks : List Tok}
    (he : ∀ H, typeEv sp kids t H e = if subsetB ks H then some (minus H ks) else none)
    (h0 : ks = []) : HT sp kids t P [e] P := by
  subst h0
  exact (HT.give he Rep.nil (fun _ _ _ _ _ h => h.elim)).post (fun _ _ _ _ _ h => ⟨h, fun h => h⟩)

theorem HT.take0 {P : TS} {e : Ev} {ks : List Tok}
    (he : ∀ H, typeEv sp kids t H e = some (H ++ ks)) : HT sp kids t P [e] P := by
  intro H hH
  exact ⟨H ++ ks, by simp only [typedFrom, he], fun k hk => List.mem_append_left _ (hH k hk)⟩

theorem HT.send0 {P : TS} {c : Obj} (h : sp.chanPay c = []) : HT sp kids t P [.send c] P := HT.give0 (fun _ => rfl) h
theorem HT.close0 {P : TS} {c : Obj} (h : sp.closePay c = []) : HT sp kids t P [.close c] P := HT.give0 (fun _ => rfl) h
theorem HT.spawn0 {P : TS} {u : Tid} (h : sp.spawnPay u = []) : HT sp kids t P [.spawn u] P := HT.give0 (fun _ => rfl) h
theorem HT.unlock0 {P : TS} {m : Obj} (h : sp.mtxPay m = []) : HT sp kids t P [.unlock m] P := HT.give0 (fun _ => rfl) h
theorem HT.wgDone0 {P : TS} {w : Obj} (h : sp.donePay w t = []) : HT sp kids t P [.wgDone w] P := HT.give0 (fun _ => rfl) h
theorem HT.recv0 {P : TS} (c : Obj) : HT sp kids t P [.recv c] P := HT.take0 (fun _ => rfl)
theorem HT.recvC0 {P : TS} (c : Obj) : HT sp kids t P [.recvC c] P := HT.take0 (fun _ => rfl)
theorem HT.lock0 {P : TS} (m : Obj) : HT sp kids t P [.lock m] P := HT.take0 (fun _ => rfl)
theorem HT.wgWait0 {P : TS} (w : Obj) : HT sp kids t P [.wgWait w] P := HT.take0 (fun _ => rfl)
theorem HT.start0 {P : TS} : HT sp kids t P [.start] P := HT.take0 (fun _ => rfl)

/-- a loop over `0 .. n-1` with an invariant indexed by the number of rounds done -/
theorem HT.range (I : Nat → TS) (f : Nat → List Ev) (n : Nat)
    (h : ∀ j, j < n → HT sp kids t (I j) (f j) (I (j + 1))) : HT sp kids t (I 0) ((rng n).flatMap f) (I n) := by
  induction n with
  | zero => exact HT.refl
  | succ m ih =>
    have : (rng (m + 1)).flatMap f = (rng m).flatMap f ++ f m := by
      simp only [rng, List.range_succ, List.flatMap_append, List.flatMap_cons, List.flatMap_nil, List.append_nil]
    rw [this]
    exact HT.seq (ih (fun j hj => h j (by omega))) (h m (by omega))

theorem HT.range_const {P : TS} (f : Nat → List Ev) (n : Nat)
    (h : ∀ j, j < n → HT sp kids t P (f j) P) : HT sp kids t P ((rng n).flatMap f) P :=
  HT.range (fun _ => P) f n h

theorem HT.isSome {P Q : TS} {es : List Ev} {H : List Tok} (h : HT sp kids t P es Q) (hH : Holds H P) :
    (typedFrom sp kids t H es).isSome = true := by
  obtain ⟨H', e, _⟩ := h H hH
  rw [e]; rfl

end DastardV.C17
