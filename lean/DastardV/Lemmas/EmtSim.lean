/-
Edge-multi, simulation between the block-by-block run ("multi") and the single scan of the whole
stream ("single").  The two differ only in WHEN the record of the newest edge `v` is emitted:
the multi run may emit it early at a block end (the flush rule: the scan has passed `v + nsamp`),
the single scan emits it when the next edge is found — with the same content, because an edge
more than a record away does not influence the record.
-/
import DastardV.Lemmas.EmtLoop
namespace DastardV.Trig

def optList {α} : Option α → List α
  | some a => [a]
  | none => []

/-- a record does not depend on its successor edge once that is at least a record away -/
theorem shouldRecord_far {t u a b npreIn nsampIn : Int} {mode : EMTMode}
    (hpre : 0 ≤ npreIn) (hns : 0 < nsampIn) (ha : u + nsampIn ≤ a) (hb : u + nsampIn ≤ b) :
    shouldRecord t u a npreIn nsampIn mode = shouldRecord t u b npreIn nsampIn mode := by
  unfold shouldRecord
  have h1 : imin (nsampIn - npreIn) (a - u) = nsampIn - npreIn := by unfold imin; split <;> omega
  have h2 : imin (nsampIn - npreIn) (b - u) = nsampIn - npreIn := by unfold imin; split <;> omega
  simp only [h1, h2]
  have ha' : ¬ u = a := by omega
  have hb' : ¬ u = b := by omega
  simp only [ha', hb', false_or]

/-- `shouldRecord t t v = none`: an edge equal to its predecessor gives no record -/
theorem shouldRecord_same {t v npreIn nsampIn : Int} {mode : EMTMode} :
    shouldRecord t t v npreIn nsampIn mode = none := by
  unfold shouldRecord; simp

/-- the accumulator of the loop is only appended to -/
theorem emtLoop_acc (G : List Nat) (first : Int) (zt : ZT) (s : EMT) (iLast maxN : Int) :
    ∀ (n : Nat) (iFirst t u v : Int) (acc : List Spec), (iLast + maxN + 2 - iFirst).toNat ≤ n →
      emtLoop G first zt s iLast maxN iFirst t u v acc =
        (emtLoop G first zt s iLast maxN iFirst t u v []).map
          (fun r => (r.1, r.2.1, r.2.2.1, r.2.2.2.1, acc ++ r.2.2.2.2)) := by
  intro n
  induction n with
  | zero =>
    intro iFirst t u v acc hn
    conv => lhs; rw [emtLoop]
    conv => rhs; rw [emtLoop]
    cases hx : findNext G first zt iFirst iLast s.threshold s.nmonotone maxN s.enableZT iFirst with
    | none => rfl
    | some x =>
      dsimp only
      by_cases hf : x.found = true
      · simp only [hf, Bool.not_true, Bool.false_eq_true, if_false]
        have g : ¬(iFirst < x.nextI ∧ x.nextI ≤ iLast + maxN + 1) := by omega
        simp only [g, dite_false, Option.map_none]
      · have hf' : x.found = false := by simpa using hf
        simp only [hf', Bool.not_false, if_true, Option.map_some, List.append_nil]
  | succ n ih =>
    intro iFirst t u v acc hn
    conv => lhs; rw [emtLoop]
    conv => rhs; rw [emtLoop]
    cases hx : findNext G first zt iFirst iLast s.threshold s.nmonotone maxN s.enableZT iFirst with
    | none => rfl
    | some x =>
      dsimp only
      by_cases hf : x.found = true
      · simp only [hf, Bool.not_true, Bool.false_eq_true, if_false]
        by_cases g : iFirst < x.nextI ∧ x.nextI ≤ iLast + maxN + 1
        · simp only [g, and_self, dite_true]
          rw [ih x.nextI u v (x.trig + first) _ (by omega)]
          conv => rhs; rw [ih x.nextI u v (x.trig + first) _ (by omega)]
          cases hrec : shouldRecord u v (x.trig + first) s.npre s.nsamp s.mode with
          | none =>
            simp only [List.nil_append, Option.map_map]
            congr 1
          | some sp =>
            simp only [List.nil_append, Option.map_map]
            congr 1
            funext r
            simp [List.append_assoc]
        · simp only [g, dite_false, Option.map_none]
      · have hf' : x.found = false := by simpa using hf
        simp only [hf', Bool.not_false, if_true, Option.map_some, List.append_nil]

theorem ztApply_ge {raw : List Nat} {first : Int} {zt : ZT} {ezt : Bool} {j t : Int}
    (hzt : ∀ p, -1 ≤ zt p) (h : ztApply raw first zt ezt j = some t) : j - 1 ≤ t := by
  unfold ztApply at h
  split at h
  · simp only [Option.some.injEq] at h; omega
  · split at h
    · simp only [Option.some.injEq] at h
      have := hzt (first + j); omega
    · simp at h

/-- relation between the multi run's `(u, v, emitted)` and the single scan's, at stream position `P`:
equal, or the multi run has already flushed the record of `v` (emitted with a far successor `X`). -/
def Sim (npre nsamp : Int) (mode : EMTMode) (f0 P : Int) (um vm : Int) (Em : List Spec)
    (us vs : Int) (Es : List Spec) : Prop :=
  vm = vs ∧ ((um = us ∧ Em = Es) ∨
    (um = vm ∧ 0 < vs ∧ ∃ X, vs + nsamp < X ∧ X ≤ P + f0 ∧ Em = Es ++ optList (shouldRecord us vs X npre nsamp mode)))

theorem Sim.mono {npre nsamp : Int} {mode : EMTMode} {f0 P P' um vm : Int} {Em : List Spec} {us vs : Int}
    {Es : List Spec} (h : Sim npre nsamp mode f0 P um vm Em us vs Es) (hP : P ≤ P') :
    Sim npre nsamp mode f0 P' um vm Em us vs Es := by
  obtain ⟨h1, h2⟩ := h
  refine ⟨h1, ?_⟩
  rcases h2 with h2 | ⟨h2, hpos, X, hx1, hx2, hx3⟩
  · exact Or.inl h2
  · exact Or.inr ⟨h2, hpos, X, hx1, by omega, hx3⟩

/-- **Lemma A**: continuing the same scan from related states gives related states -/
theorem sim_loop (G : List Nat) (f0 : Int) (zt : ZT) (s : EMT) (iLast : Int)
    (hzt : ∀ p, -1 ≤ zt p) (hpre : 0 ≤ s.npre) (hns : 0 < s.nsamp) (hmax : 1 ≤ s.nsamp - s.npre) :
    ∀ (n : Nat) (P tm um vm : Int) (Em : List Spec) (ts us vs : Int) (Es : List Spec)
      (rm rs : Int × Int × Int × Int × List Spec),
      (iLast + (s.nsamp - s.npre) + 2 - P).toNat ≤ n →
      Sim s.npre s.nsamp s.mode f0 P um vm Em us vs Es →
      emtLoop G f0 zt s iLast (s.nsamp - s.npre) P tm um vm Em = some rm →
      emtLoop G f0 zt s iLast (s.nsamp - s.npre) P ts us vs Es = some rs →
      rm.1 = rs.1 ∧ P ≤ rm.1 ∧
        Sim s.npre s.nsamp s.mode f0 rm.1 rm.2.2.1 rm.2.2.2.1 rm.2.2.2.2 rs.2.2.1 rs.2.2.2.1 rs.2.2.2.2 := by
  intro n
  induction n with
  | zero =>
    intro P tm um vm Em ts us vs Es rm rs hn hsim hm hs
    rw [emtLoop] at hm hs
    cases hx : findNext G f0 zt P iLast s.threshold s.nmonotone (s.nsamp - s.npre) s.enableZT P with
    | none => simp [hx] at hm
    | some x =>
      simp only [hx] at hm hs
      by_cases hf : x.found = true
      · simp only [hf, Bool.not_true, Bool.false_eq_true, if_false] at hm
        have g : ¬(P < x.nextI ∧ x.nextI ≤ iLast + (s.nsamp - s.npre) + 1) := by omega
        simp only [g, dite_false] at hm
        simp at hm
      · have hf' : x.found = false := by simpa using hf
        simp only [hf', Bool.not_false, if_true, Option.some.injEq] at hm hs
        subst hm; subst hs
        have hN := findNext_notfound G f0 zt P iLast s.threshold s.nmonotone (s.nsamp - s.npre) s.enableZT _ P x (Nat.le_refl _) hx hf'
        have hge : P ≤ x.nextI := by rw [hN]; split <;> omega
        exact ⟨rfl, hge, hsim.mono hge⟩
  | succ n ih =>
    intro P tm um vm Em ts us vs Es rm rs hn hsim hm hs
    rw [emtLoop] at hm hs
    cases hx : findNext G f0 zt P iLast s.threshold s.nmonotone (s.nsamp - s.npre) s.enableZT P with
    | none => simp [hx] at hm
    | some x =>
      simp only [hx] at hm hs
      by_cases hf : x.found = true
      · simp only [hf, Bool.not_true, Bool.false_eq_true, if_false] at hm hs
        by_cases g : P < x.nextI ∧ x.nextI ≤ iLast + (s.nsamp - s.npre) + 1
        · simp only [g, and_self, dite_true] at hm hs
          obtain ⟨j, hj1, hj2, hj3, hj4, hzj⟩ := (findNext_result G f0 zt P iLast s.threshold s.nmonotone (s.nsamp - s.npre)
            s.enableZT hmax _ P x (Nat.le_refl _) hx).1 hf
          have hw : j - 1 ≤ x.trig := ztApply_ge hzt hzj
          -- the related states after this trigger
          have hsim' : Sim s.npre s.nsamp s.mode f0 x.nextI vm (x.trig + f0)
              (match shouldRecord um vm (x.trig + f0) s.npre s.nsamp s.mode with | some sp => Em ++ [sp] | none => Em)
              vs (x.trig + f0)
              (match shouldRecord us vs (x.trig + f0) s.npre s.nsamp s.mode with | some sp => Es ++ [sp] | none => Es) := by
            obtain ⟨hv, hcase⟩ := hsim
            refine ⟨rfl, Or.inl ⟨hv, ?_⟩⟩
            rcases hcase with ⟨hu, hE⟩ | ⟨hu, _, X, hx1, hx2, hE⟩
            · subst hu; subst hE; subst hv; rfl
            · -- the multi run had flushed: it emits nothing now, the single scan emits the flushed record
              subst hu
              rw [shouldRecord_same]
              subst hv
              have hfar : shouldRecord us um (x.trig + f0) s.npre s.nsamp s.mode = shouldRecord us um X s.npre s.nsamp s.mode :=
                shouldRecord_far hpre hns (by omega) (by omega)
              rw [hfar, hE]
              cases shouldRecord us um X s.npre s.nsamp s.mode <;> simp [optList]
          obtain ⟨r1, r2, r3⟩ := ih x.nextI um vm (x.trig + f0) _ us vs (x.trig + f0) _ rm rs (by omega) hsim' hm hs
          exact ⟨r1, by omega, r3⟩
        · simp only [g, dite_false] at hm
          simp at hm
      · have hf' : x.found = false := by simpa using hf
        simp only [hf', Bool.not_false, if_true, Option.some.injEq] at hm hs
        subst hm; subst hs
        have hN := findNext_notfound G f0 zt P iLast s.threshold s.nmonotone (s.nsamp - s.npre) s.enableZT _ P x (Nat.le_refl _) hx hf'
        have hge : P ≤ x.nextI := by rw [hN]; split <;> omega
        exact ⟨rfl, hge, hsim.mono hge⟩

/-- the end-of-call flush of `emtSpecs`: the record of the newest edge `v` is emitted once the scan
has passed `v + nsamp`; returns the new `(u, emitted)` -/
def flushUV (npre nsamp : Int) (mode : EMTMode) (nfi u v : Int) (E : List Spec) : Int × List Spec :=
  if 0 < v ∧ v < nfi - nsamp then (v, E ++ optList (shouldRecord u v nfi npre nsamp mode)) else (u, E)

/-- **Lemma B**: a flush on the multi side only keeps the relation -/
theorem sim_flush {npre nsamp : Int} {mode : EMTMode} {f0 P um vm : Int} {Em : List Spec} {us vs : Int}
    {Es : List Spec} (h : Sim npre nsamp mode f0 P um vm Em us vs Es) :
    Sim npre nsamp mode f0 P (flushUV npre nsamp mode (P + f0) um vm Em).1 vm
      (flushUV npre nsamp mode (P + f0) um vm Em).2 us vs Es := by
  obtain ⟨hv, hcase⟩ := h
  unfold flushUV
  by_cases hc : 0 < vm ∧ vm < P + f0 - nsamp
  · simp only [hc, and_self, if_true]
    refine ⟨hv, ?_⟩
    rcases hcase with ⟨hu, hE⟩ | ⟨hu, hpos, X, hx1, hx2, hE⟩
    · right
      subst hu; subst hE; subst hv
      exact ⟨rfl, hc.1, P + f0, by omega, by omega, rfl⟩
    · right
      subst hu
      rw [shouldRecord_same]
      exact ⟨rfl, hpos, X, hx1, hx2, by simpa [optList] using hE⟩
  · simp only [hc, if_false]
    exact ⟨hv, hcase⟩

/-- **Lemma C**: after the final flush on BOTH sides the emitted lists are equal -/
theorem sim_final {npre nsamp : Int} {mode : EMTMode} {f0 P um vm : Int} {Em : List Spec} {us vs : Int}
    {Es : List Spec} (hpre : 0 ≤ npre) (hns : 0 < nsamp)
    (h : Sim npre nsamp mode f0 P um vm Em us vs Es) :
    (flushUV npre nsamp mode (P + f0) um vm Em).2 = (flushUV npre nsamp mode (P + f0) us vs Es).2 := by
  obtain ⟨hv, hcase⟩ := h
  subst hv
  rcases hcase with ⟨hu, hE⟩ | ⟨hu, hpos, X, hx1, hx2, hE⟩
  · subst hu; subst hE; rfl
  · subst hu
    unfold flushUV
    have hc : 0 < um ∧ um < P + f0 - nsamp := by omega
    simp only [hc, and_self, if_true]
    rw [shouldRecord_same, hE]
    have hfar : shouldRecord us um (P + f0) npre nsamp mode = shouldRecord us um X npre nsamp mode :=
      shouldRecord_far hpre hns (by omega) (by omega)
    rw [hfar]
    simp [optList]

end DastardV.Trig
