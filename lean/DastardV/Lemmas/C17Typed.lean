/-
C17 — thread-LOCAL typing implies that EVERY feasible interleaving respects the ownership discipline
(core Lean only):

  `typed_interleavings_owned : S.OK → Interleaving S.P tr → feasible tr = true → ownRun S.sp tr = true`

Organisation.  `GoodT S pre o f` (Lemmas/C17TypedB.lean) relates the state `o` of the ownership machine
and the state `f` of the blocking semantics after a prefix `pre` of the trace to the positions of the
threads in their programs: token `k` is at location `l` iff the thread-local view says so (`Exp`).
`GoodT.init` is the invariant of the empty prefix, `GoodT.step` (one lemma per kind of event in
C17TypedC/D/E.lean) carries it over one event that the blocking semantics allows and shows that the
ownership machine accepts the event, `good_prefix` runs it over the whole trace (snoc induction,
because `Interleaving` speaks about whole projections).

A close may hand tokens to ONE receiver (`recvc_one`): the tokens `closePay c` are at `.clo c` from the
`close c` until the `recvC c` of `waiter c`; that this `recvC c` comes after the close is the blocking
semantics (`recvC` needs a closed channel, kept as `GoodT.rc`), that there is no second one is `recvc_one`.

Side conditions of `System.OK` that the proof does not use: `start_head`, `start_root`, the `roots`
half of `init_thr`, and the `.wgAdd w ∉ post` half of `adds_before`.
-/
import DastardV.Lemmas.C17TypedE

namespace DastardV.C17

theorem GoodT.step {S : System} (ok : S.OK) {pre : Trace} {o : OSt} {f f' : FSt} {t : Tid} {e : Ev}
    (g : GoodT S pre o f) (hI : Interleaving S.P (pre ++ [(t, e)])) (hF : stepF f (t, e) = some f') :
    ∃ o', stepO S.sp o (t, e) = some o' ∧ GoodT S (pre ++ [(t, e)]) o' f' := by
  obtain ⟨H, H', cx⟩ := Ctx.mk' S ok pre t e hI
  cases e with
  | rd x => exact step_rd g cx hF
  | wr x => exact step_wr g cx hF
  | send c => exact step_send g cx hF
  | recv c => exact step_recv g cx hF
  | close c => exact step_close g cx hF
  | recvC c => exact step_recvC ok g cx hF
  | lock m => exact step_lock g cx hF
  | unlock m => exact step_unlock g cx hF
  | wgAdd w => exact step_wgAdd ok g cx hF
  | wgDone w => exact step_wgDone ok g cx hF
  | wgWait w => exact step_wgWait ok g cx hF
  | spawn u => exact step_spawn g cx hF
  | start => exact step_start g cx hF

theorem good_prefix (S : System) (ok : S.OK) : ∀ tr : Trace,
    Interleaving S.P tr → feasible tr = true →
    ∃ o f, runO S.sp (OSt.init S.sp) tr = some o ∧ runF FSt.init tr = some f ∧ GoodT S tr o f := by
  intro tr
  induction tr using snoc_induction with
  | h0 => intro _ _; exact ⟨_, _, rfl, rfl, GoodT.init S ok⟩
  | h1 pre te ih =>
    intro hI hFe
    obtain ⟨t, e⟩ := te
    obtain ⟨f', hf'⟩ := runF_of_feasibleFrom _ _ hFe
    rw [runF_snoc] at hf'
    cases hf : runF FSt.init pre with
    | none => rw [hf] at hf'; cases hf'
    | some f =>
      rw [hf] at hf'
      obtain ⟨o, f0, ho, hf0, g⟩ := ih hI.of_snoc (feasibleFrom_of_runF _ _ _ hf)
      rw [hf] at hf0
      cases hf0
      obtain ⟨o', ho', g'⟩ := g.step ok hI hf'
      refine ⟨o', f', ?_, ?_, g'⟩
      · rw [runO_snoc, ho]; exact ho'
      · rw [runF_snoc, hf]; exact hf'

/-- If every thread's program is well typed on its own and the side conditions `S.OK` hold, every
feasible interleaving of prefixes of the programs is accepted by the global ownership machine. -/
theorem typed_interleavings_owned (S : System) (ok : S.OK) (tr : Trace) :
    Interleaving S.P tr → feasible tr = true → ownRun S.sp tr = true := by
  intro hI hF
  obtain ⟨o, _, ho, _, _⟩ := good_prefix S ok tr hI hF
  exact ownRunFrom_of_runO _ _ _ _ ho

end DastardV.C17
