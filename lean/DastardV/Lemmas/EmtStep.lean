/-
Edge-multi: one block of the block-by-block run preserves `EmtInv`; the first block establishes it.
-/
import DastardV.Lemmas.EmtRun
namespace DastardV.Trig

theorem map_eq_some' {α β} {f : α → β} {o : Option α} {b : β} (h : o.map f = some b) :
    ∃ a, o = some a ∧ f a = b := by
  cases o with
  | none => simp at h
  | some a => exact ⟨a, rfl, by simpa using h⟩

/-- where the trimmed edge-multi channel's buffer starts -/
theorem trim_emt {G : List Nat} {kk : Nat} {c : Chan} {nsamp : Int} (hk : kk ≤ G.length)
    (hbuf : c.buf = G.drop kk) (hns : c.emt.nsamp = nsamp) (hnn : 0 ≤ nsamp) :
    ∃ kk' : Nat, kk' ≤ G.length ∧ (trim c).buf = G.drop kk' ∧ (trim c).emt = c.emt ∧
      (kk' = kk ∨ ((kk' : Int) = (G.length : Int) - (2 * nsamp + 10) ∧ kk ≤ kk')) := by
  have hlenN : c.buf.length = G.length - kk := by rw [hbuf]; simp
  unfold trim
  simp only [hns]
  split
  · exact ⟨kk, hk, hbuf, rfl, Or.inl rfl⟩
  · rename_i hlt
    refine ⟨G.length - (2 * nsamp + 10).toNat, by omega, ?_, rfl, Or.inr ⟨by omega, by omega⟩⟩
    simp only [hbuf, List.drop_drop]
    congr 1
    simp only [List.length_drop]
    omega

set_option maxHeartbeats 1600000 in
/-- the common part of a block step: the multi call continues the scan of the whole stream from `P` -/
theorem stepEmt_core {cfg : EMT} {zt : ZT} {f0 : Int} {G' : List Nat} {kk : Nat} {s : EMT}
    {P : Int} {emt' : EMT} {specs : List Spec} (Em : List Spec)
    (hok : CfgOK cfg) (hk : kk ≤ G'.length) (hcfg : SameCfg cfg s)
    (hnext : s.next = P + f0) (hnonreset : cfg.npre ≤ s.next - (f0 + kk))
    (h : emtSpecs (G'.drop kk) (f0 + kk) zt s = some (emt', specs)) :
    ∃ rm, emtLoop G' f0 zt cfg ((G'.length : Int) - 1 - (cfg.nsamp - cfg.npre)) (cfg.nsamp - cfg.npre) P s.t s.u s.v Em = some rm ∧
      SameCfg cfg emt' ∧ emt'.next = rm.1 + f0 ∧ emt'.v = rm.2.2.2.1 ∧
      emt'.u = (flushUV cfg.npre cfg.nsamp cfg.mode (rm.1 + f0) rm.2.2.1 rm.2.2.2.1 rm.2.2.2.2).1 ∧
      Em ++ specs = (flushUV cfg.npre cfg.nsamp cfg.mode (rm.1 + f0) rm.2.2.1 rm.2.2.2.1 rm.2.2.2.2).2 := by
  obtain ⟨c1, c2, c3, c4, c5, c6⟩ := hcfg
  rw [emtSpecs_nonreset _ _ _ _ (by rw [c4]; exact hnonreset)] at h
  obtain ⟨rl, hrl, hfin⟩ := map_eq_some' h
  -- shift to the whole stream
  have hlenD : (((G'.drop kk).length : Nat) : Int) = (G'.length : Int) - kk := by simp; omega
  rw [hlenD] at hrl
  have h1 : 1 ≤ s.next - (f0 + kk) := by have := hok.npre3; omega
  have h4 : s.enableZT = true → 4 ≤ s.next - (f0 + kk) := by
    intro he; rw [c3] at he; have := (hok.zt4 he).1; omega
  rw [emtLoop_drop G' kk f0 zt s _ _ _ _ _ _ _ _ (Nat.le_refl _) h1 h4] at hrl
  obtain ⟨rW, hrW, hshift⟩ := map_eq_some' hrl
  rw [show (kk : Int) + ((G'.length : Int) - kk - 1 - (s.nsamp - s.npre)) = (G'.length : Int) - 1 - (s.nsamp - s.npre) by omega,
    show (kk : Int) + (s.next - (f0 + kk)) = P by omega] at hrW
  rw [emtLoop_congr G' f0 zt cfg s ⟨c1, c2, c3, c4, c5, c6⟩ _ _ _ _ _ _ _ _ (Nat.le_refl _)] at hrW
  rw [c4, c5] at hrW
  -- accumulate onto Em
  have hacc := emtLoop_acc G' f0 zt cfg ((G'.length : Int) - 1 - (cfg.nsamp - cfg.npre)) (cfg.nsamp - cfg.npre) _ P s.t s.u s.v Em (Nat.le_refl _)
  rw [hrW] at hacc
  simp only [Option.map_some] at hacc
  refine ⟨_, hacc, ?_⟩
  subst hshift
  simp only [emtFinish, shiftRes, Prod.mk.injEq] at hfin
  obtain ⟨he, hs⟩ := hfin
  subst he; subst hs
  dsimp only
  refine ⟨⟨c1, c2, c3, c4, c5, c6⟩, by omega, rfl, ?_, ?_⟩
  · rw [c4, c5, c6, flushUV_append]
    simp only
    rw [show rW.1 - (kk : Int) + (f0 + kk) = rW.1 + f0 by omega]
  · rw [c4, c5, c6, flushUV_append]
    simp only
    rw [show rW.1 - (kk : Int) + (f0 + kk) = rW.1 + f0 by omega]

set_option maxHeartbeats 1600000 in
/-- one block of the block-by-block run preserves the invariant -/
theorem stepEmt_inv {cfg : EMT} {zt : ZT} {f0 : Int} {G : List Nat} {c : Chan} {Em : List Spec} {kk : Nat}
    {seg : List Nat} {per : Int} {sg : Bool} {c1 : Chan} {sp : List Spec}
    (hok : CfgOK cfg) (hzt : ∀ p, -1 ≤ zt p)
    (hinv : EmtInv cfg zt f0 G c Em kk)
    (h : stepEmt zt c seg (f0 + G.length) per sg = some (c1, sp)) :
    ∃ kk', EmtInv cfg zt f0 (G ++ seg) c1 (Em ++ sp) kk' := by
  obtain ⟨hk, hbuf, hcfg, hnonreset, ⟨P, ts, us, vs, Es, hloop, hnext, hsim⟩, _⟩ := hinv
  have hpost : 1 ≤ cfg.nsamp - cfg.npre := by have := hok.lt; omega
  unfold stepEmt at h
  simp only at h
  -- the channel after append
  generalize hca : append c seg (f0 + ↑G.length) 0 per sg = ca at h
  have ca_buf : ca.buf = (G ++ seg).drop kk := by
    rw [← hca]; simp [append, hbuf, List.drop_append_of_le_length hk]
  have ca_first : ca.first = f0 + kk := by
    rw [← hca]; simp only [append, hbuf, List.length_drop]; omega
  have ca_emt : ca.emt = c.emt := by rw [← hca]; rfl
  split at h
  · simp at h
  rename_i emt' specs hsp
  rw [ca_buf, ca_first, ca_emt] at hsp
  simp only [Option.some.injEq, Prod.mk.injEq] at h
  obtain ⟨hc1, hsp'⟩ := h
  subst hsp'
  have hkG : kk ≤ (G ++ seg).length := by simp; omega
  obtain ⟨rm, hrm, hcfg', hnext', hv', hu', hE'⟩ := stepEmt_core (G' := G ++ seg) Em hok hkG hcfg hnext hnonreset hsp
  -- the single scan of the longer stream continues from the same position
  have hlenG : ((G ++ seg).length : Int) = (G.length : Int) + seg.length := by simp
  have hsplit : loopAt cfg zt f0 (G ++ seg) =
      emtLoop (G ++ seg) f0 zt cfg (((G ++ seg).length : Int) - 1 - (cfg.nsamp - cfg.npre)) (cfg.nsamp - cfg.npre) P ts us vs Es := by
    have happ := emtLoop_append G seg f0 zt cfg ((G.length : Int) - 1 - (cfg.nsamp - cfg.npre)) (cfg.nsamp - cfg.npre)
      hpost (fun he => by have := (hok.zt4 he).2; omega) (by omega) _ (emtStart cfg) 0 0 0 [] (Nat.le_refl _)
    unfold loopAt at hloop
    rw [← happ] at hloop
    unfold loopAt
    rw [emtLoop_split (G ++ seg) f0 zt cfg ((G.length : Int) - 1 - (cfg.nsamp - cfg.npre))
      (((G ++ seg).length : Int) - 1 - (cfg.nsamp - cfg.npre)) (cfg.nsamp - cfg.npre) (by omega) hpost _ _ _ _ _ _ _ (Nat.le_refl _) hloop]
  obtain ⟨rs, hrs⟩ := emtLoop_some_indep (G ++ seg) f0 zt cfg _ _ _ P c.emt.t c.emt.u c.emt.v Em ts us vs Es rm (Nat.le_refl _) hrm
  obtain ⟨hpos, hPle, hsim'⟩ := sim_loop (G ++ seg) f0 zt cfg _ hzt (by have := hok.npre3; omega) (by have := hok.npre3; have := hok.lt; omega)
    hpost _ P c.emt.t c.emt.u c.emt.v Em ts us vs Es rm rs (Nat.le_refl _) hsim hrm hrs
  have hflush := sim_flush hsim'
  have hposge := (emtLoop_pos (G ++ seg) f0 zt cfg _ _ _ P c.emt.t c.emt.u c.emt.v Em rm (Nat.le_refl _) hrm).1
  -- trimming
  obtain ⟨kk', hk', hbuf', hemt', hkk⟩ := trim_emt (G := G ++ seg) (kk := kk)
    (c := { ca with emt := emt' }) (nsamp := cfg.nsamp) hkG ca_buf hcfg'.nsamp
    (by have := hok.npre3; have := hok.lt; omega)
  subst hc1
  refine ⟨kk', ⟨hk', hbuf', by rw [hemt']; exact hcfg', ?_, ?_, ?_⟩⟩
  · rw [hemt']
    simp only
    rw [hnext']
    rcases hkk with h0 | ⟨h0, _⟩
    · subst h0; omega
    · have := hok.npre3; have := hok.lt; omega
  · refine ⟨rs.1, rs.2.1, rs.2.2.1, rs.2.2.2.1, rs.2.2.2.2, by rw [hsplit, hrs], ?_, ?_⟩
    · rw [hemt']; simp only; rw [hnext', hpos]
    · rw [hemt']
      simp only
      rw [hu', hv', hE', ← hpos]
      exact hflush
  · rw [hemt']
    simp only
    rw [hu', hv', hE', hnext']
    rw [flushUV_idem]

/-- a freshly configured edge-multi channel: empty buffer, scan position 0 -/
structure FreshC (c : Chan) : Prop where
  hbuf : c.buf = []
  hnext : c.emt.next = 0
  hok : CfgOK c.emt

set_option maxHeartbeats 1600000 in
/-- the first block establishes the invariant (with `cfg` = the channel's own configuration) -/
theorem stepEmt_first {zt : ZT} {f0 : Int} {c : Chan} {seg : List Nat} {per : Int} {sg : Bool} {c1 : Chan}
    {sp : List Spec} (hf : FreshC c) (hf0 : 0 ≤ f0)
    (h : stepEmt zt c seg f0 per sg = some (c1, sp)) :
    ∃ kk', EmtInv c.emt zt f0 seg c1 sp kk' := by
  obtain ⟨hbuf, hnext0, hok⟩ := hf
  unfold stepEmt at h
  simp only at h
  generalize hca : append c seg f0 0 per sg = ca at h
  have ca_buf : ca.buf = seg := by rw [← hca]; simp [append, hbuf]
  have ca_first : ca.first = f0 := by rw [← hca]; simp [append, hbuf]
  have ca_emt : ca.emt = c.emt := by rw [← hca]; rfl
  split at h
  · simp at h
  rename_i emt' specs hsp
  rw [ca_buf, ca_first, ca_emt] at hsp
  simp only [Option.some.injEq, Prod.mk.injEq] at h
  obtain ⟨hc1, hsp'⟩ := h
  subst hsp'
  rw [emtSpecs_reset _ _ _ _ (by rw [hnext0]; have := hok.npre3; omega)] at hsp
  obtain ⟨r, hr, hfin⟩ := map_eq_some' hsp
  have hcfg1 : SameCfg c.emt { c.emt.reset with sentinel := true } := ⟨rfl, rfl, rfl, rfl, rfl, rfl⟩
  rw [emtLoop_congr seg f0 zt c.emt _ hcfg1 _ _ _ _ _ _ _ _ (Nat.le_refl _)] at hr
  have hloop : loopAt c.emt zt f0 seg = some r := hr
  simp only [emtFinish, Prod.mk.injEq] at hfin
  obtain ⟨he, hs⟩ := hfin
  have hpos := emtLoop_pos seg f0 zt c.emt _ _ _ _ _ _ _ _ r (Nat.le_refl _) hr
  have hstart : c.emt.npre ≤ emtStart c.emt := by unfold emtStart; split <;> omega
  obtain ⟨kk', hk', hbuf', hemt', hkk⟩ := trim_emt (G := seg) (kk := 0) (c := { ca with emt := emt' }) (nsamp := c.emt.nsamp)
    (Nat.zero_le _) (by simpa using ca_buf) (by rw [← he]; rfl) (by have := hok.npre3; have := hok.lt; omega)
  subst hc1
  have hsim0 : Sim c.emt.npre c.emt.nsamp c.emt.mode f0 r.1 r.2.2.1 r.2.2.2.1 r.2.2.2.2 r.2.2.1 r.2.2.2.1 r.2.2.2.2 :=
    ⟨rfl, Or.inl ⟨rfl, rfl⟩⟩
  have hfl := sim_flush hsim0
  refine ⟨kk', ⟨hk', hbuf', ?_, ?_, ?_, ?_⟩⟩
  · rw [hemt', ← he]; exact ⟨rfl, rfl, rfl, rfl, rfl, rfl⟩
  · rw [hemt', ← he]
    simp only
    rcases hkk with h0 | ⟨h0, _⟩
    · subst h0; omega
    · have := hok.npre3; have := hok.lt; omega
  · refine ⟨r.1, r.2.1, r.2.2.1, r.2.2.2.1, r.2.2.2.2, hloop, ?_, ?_⟩
    · rw [hemt', ← he]
    · rw [hemt', ← he, ← hs]
      exact hfl
  · rw [hemt', ← he, ← hs]
    simp only [show c.emt.reset.npre = c.emt.npre from rfl, show c.emt.reset.nsamp = c.emt.nsamp from rfl,
      show c.emt.reset.mode = c.emt.mode from rfl]
    rw [flushUV_idem]

/-- any further blocks -/
theorem runEmt_inv {cfg : EMT} {zt : ZT} {f0 : Int} {per : Int} {sg : Bool} (hok : CfgOK cfg) (hzt : ∀ p, -1 ≤ zt p) :
    ∀ (segs : List (List Nat)) (G : List Nat) (c : Chan) (Em : List Spec) (kk : Nat) (c' : Chan) (sp : List Spec),
      EmtInv cfg zt f0 G c Em kk →
      runEmt zt per sg c (f0 + G.length) segs = some (c', sp) →
      ∃ kk', EmtInv cfg zt f0 (G ++ segs.flatten) c' (Em ++ sp) kk'
  | [], G, c, Em, kk, c', sp, hinv, h => by
    simp only [runEmt, Option.some.injEq, Prod.mk.injEq] at h
    obtain ⟨rfl, rfl⟩ := h
    exact ⟨kk, by simpa using hinv⟩
  | seg :: segs, G, c, Em, kk, c', sp, hinv, h => by
    unfold runEmt at h
    split at h
    · simp at h
    rename_i c1 sp1 hstep
    split at h
    · simp at h
    rename_i c2 sp2 hrun
    simp only [Option.some.injEq, Prod.mk.injEq] at h
    obtain ⟨rfl, rfl⟩ := h
    obtain ⟨k1, hinv1⟩ := stepEmt_inv hok hzt hinv hstep
    have hlen : f0 + (G.length : Int) + (seg.length : Int) = f0 + ((G ++ seg).length : Int) := by simp; omega
    rw [hlen] at hrun
    obtain ⟨k2, hinv2⟩ := runEmt_inv hok hzt segs (G ++ seg) c1 (Em ++ sp1) k1 c2 sp2 hinv1 hrun
    refine ⟨k2, ?_⟩
    simpa [List.append_assoc] using hinv2

/-- two runs that end with the same delivered stream have emitted the same records -/
theorem emtInv_same {cfg : EMT} {zt : ZT} {f0 : Int} {G : List Nat} {c c' : Chan} {E E' : List Spec} {k k' : Nat}
    (hok : CfgOK cfg) (h1 : EmtInv cfg zt f0 G c E k) (h2 : EmtInv cfg zt f0 G c' E' k') : E = E' := by
  obtain ⟨_, _, _, _, ⟨P, ts, us, vs, Es, hl, hn, hs⟩, hi⟩ := h1
  obtain ⟨_, _, _, _, ⟨P', ts', us', vs', Es', hl', hn', hs'⟩, hi'⟩ := h2
  rw [hl] at hl'
  simp only [Option.some.injEq, Prod.mk.injEq] at hl'
  obtain ⟨rfl, rfl, rfl, rfl, rfl⟩ := hl'
  have hpre : 0 ≤ cfg.npre := by have := hok.npre3; omega
  have hns : 0 < cfg.nsamp := by have := hok.npre3; have := hok.lt; omega
  have e1 := sim_final hpre hns hs
  have e2 := sim_final hpre hns hs'
  rw [← hn] at e1
  rw [← hn'] at e2
  rw [← hi, ← hi', e1, e2, hn, hn']

end DastardV.Trig
