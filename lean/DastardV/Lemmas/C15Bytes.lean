/-
C15 — byte and word lemmas: big/little-endian encodings are inverse to their readers, two's
complement round trip, `words ∘ unwords = id` on in-range values.
-/
import DastardV.Model.C15
namespace DastardV.C15

def IsBytes (bs : List Nat) : Prop := ∀ b ∈ bs, b < 256

theorem leBytes_length (w n : Nat) : (leBytes w n).length = w := by
  induction w generalizing n with
  | zero => rfl
  | succ w ih => simp [leBytes, ih]

theorem beBytes_length (w n : Nat) : (beBytes w n).length = w := by
  simp [beBytes, leBytes_length]

theorem leNat_leBytes (w n : Nat) : leNat (leBytes w n) = n % 256 ^ w := by
  induction w generalizing n with
  | zero => simp [leBytes, leNat, Nat.mod_one]
  | succ w ih =>
    simp only [leBytes, leNat, ih]
    rw [Nat.pow_succ, Nat.mul_comm (256 ^ w) 256, Nat.mod_mul]

theorem beNat_beBytes (w n : Nat) : beNat (beBytes w n) = n % 256 ^ w := by
  simp [beNat, beBytes, leNat_leBytes]

theorem leBytes_isBytes (w n : Nat) : IsBytes (leBytes w n) := by
  induction w generalizing n with
  | zero => intro b hb; simp [leBytes] at hb
  | succ w ih =>
    intro b hb
    simp only [leBytes, List.mem_cons] at hb
    rcases hb with rfl | hb
    · exact Nat.mod_lt _ (by decide)
    · exact ih _ b hb

theorem leNat_lt (bs : List Nat) (h : IsBytes bs) : leNat bs < 256 ^ bs.length := by
  induction bs with
  | nil => simp [leNat]
  | cons b r ih =>
    have hb : b < 256 := h b (by simp)
    have hr := ih (fun x hx => h x (by simp [hx]))
    simp only [leNat, List.length_cons, Nat.pow_succ]
    have : 256 * leNat r + 256 ≤ 256 * 256 ^ r.length := by
      have := Nat.mul_le_mul_left 256 (Nat.succ_le_of_lt hr)
      simpa [Nat.mul_succ] using this
    omega

theorem beNat_lt (bs : List Nat) (h : IsBytes bs) : beNat bs < 256 ^ bs.length := by
  have := leNat_lt bs.reverse (fun x hx => h x (by simpa using hx))
  simpa [beNat] using this

theorem be16_lt (a b : Nat) (ha : a < 256) (hb : b < 256) : be16 a b < 65536 := by
  unfold be16; omega

theorem be32_lt (a b c d : Nat) (ha : a < 256) (hb : b < 256) (hc : c < 256) (hd : d < 256) :
    be32 a b c d < 4294967296 := by
  unfold be32; omega

/-! two's complement round trips at the three widths -/

theorem toSigned_twos16 (x : Int) (h : -32768 ≤ x ∧ x < 32768) : toSigned 16 (twos 16 x) = x := by
  unfold toSigned twos
  have e1 : (2 : Int) ^ 16 = 65536 := by decide
  have e2 : (2 : Nat) ^ (16 - 1) = 32768 := by decide
  rw [e1, e2]; split <;> omega

theorem toSigned_twos32 (x : Int) (h : -2147483648 ≤ x ∧ x < 2147483648) :
    toSigned 32 (twos 32 x) = x := by
  unfold toSigned twos
  have e1 : (2 : Int) ^ 32 = 4294967296 := by decide
  have e2 : (2 : Nat) ^ (32 - 1) = 2147483648 := by decide
  rw [e1, e2]; split <;> omega

theorem toSigned_twos64 (x : Int) (h : -9223372036854775808 ≤ x ∧ x < 9223372036854775808) :
    toSigned 64 (twos 64 x) = x := by
  unfold toSigned twos
  have e1 : (2 : Int) ^ 64 = 18446744073709551616 := by decide
  have e2 : (2 : Nat) ^ (64 - 1) = 9223372036854775808 := by decide
  rw [e1, e2]; split <;> omega

theorem twos16_lt (x : Int) : twos 16 x < 65536 := by
  unfold twos
  have e1 : (2 : Int) ^ 16 = 65536 := by decide
  rw [e1]; omega

theorem twos32_lt (x : Int) : twos 32 x < 4294967296 := by
  unfold twos
  have e1 : (2 : Int) ^ 32 = 4294967296 := by decide
  rw [e1]; omega

theorem twos64_lt (x : Int) : twos 64 x < 18446744073709551616 := by
  unfold twos
  have e1 : (2 : Int) ^ 64 = 18446744073709551616 := by decide
  rw [e1]; omega

/-- value range of a `w`-byte signed word (w = 2, 4, 8) -/
def InRange (w : Nat) (x : Int) : Prop :=
  -((2 : Int) ^ (8 * w - 1)) ≤ x ∧ x < (2 : Int) ^ (8 * w - 1)

theorem word_roundtrip (w : Nat) (hw : w = 2 ∨ w = 4 ∨ w = 8) (x : Int) (hx : InRange w x) :
    toSigned (8 * w) (leNat (leBytes w (twos (8 * w) x))) = x := by
  rw [leNat_leBytes]
  rcases hw with rfl | rfl | rfl
  · have hx' : -32768 ≤ x ∧ x < 32768 := by
      have e : (2 : Int) ^ (8 * 2 - 1) = 32768 := by decide
      unfold InRange at hx; rw [e] at hx; exact hx
    have := twos16_lt x
    rw [Nat.mod_eq_of_lt (by simpa using this)]
    exact toSigned_twos16 x hx'
  · have hx' : -2147483648 ≤ x ∧ x < 2147483648 := by
      have e : (2 : Int) ^ (8 * 4 - 1) = 2147483648 := by decide
      unfold InRange at hx; rw [e] at hx; exact hx
    have := twos32_lt x
    rw [Nat.mod_eq_of_lt (by simpa using this)]
    exact toSigned_twos32 x hx'
  · have hx' : -9223372036854775808 ≤ x ∧ x < 9223372036854775808 := by
      have e : (2 : Int) ^ (8 * 8 - 1) = 9223372036854775808 := by decide
      unfold InRange at hx; rw [e] at hx; exact hx
    have := twos64_lt x
    rw [Nat.mod_eq_of_lt (by simpa using this)]
    exact toSigned_twos64 x hx'

theorem unwords_length (w : Nat) (big : Bool) (xs : List Int) :
    (unwords w big xs).length = w * xs.length := by
  induction xs with
  | nil => simp [unwords]
  | cons x r ih =>
    simp only [unwords, List.flatMap_cons, List.length_append, List.length_cons] at ih ⊢
    rw [ih]
    cases big <;> simp [leBytes_length, beBytes_length, Nat.mul_succ, Nat.add_comm]

/-- reading back the little-endian words written by `unwords` -/
theorem words_unwords (w : Nat) (hw : w = 2 ∨ w = 4 ∨ w = 8) (xs : List Int)
    (hx : ∀ x ∈ xs, InRange w x) (tail : List Nat) :
    words w false xs.length (unwords w false xs ++ tail) = xs := by
  induction xs with
  | nil => simp [words]
  | cons x r ih =>
    have hxr : ∀ y ∈ r, InRange w y := fun y hy => hx y (by simp [hy])
    have hlen : (leBytes w (twos (8 * w) x)).length = w := leBytes_length _ _
    simp only [unwords, List.flatMap_cons, List.length_cons, words, Bool.false_eq_true, if_false,
      List.append_assoc]
    rw [List.take_left' hlen, List.drop_left' hlen]
    rw [word_roundtrip w hw x (hx x (by simp))]
    congr 1
    exact ih hxr

end DastardV.C15
