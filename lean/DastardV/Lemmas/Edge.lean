/-
The edge pass (`edgeLoop`): never panics, sound, complete up to the one-record dead time,
records spaced by more than a record.  Shared by C01 (no crash) and C02 (no pulse lost/invented).
-/
import DastardV.Model.Trig
namespace DastardV.Trig

/-- the edge criterion evaluated at buffer index `x` (false when a sample is missing) -/
def edgeAt (c : Chan) (x : Int) : Bool :=
  match rd c.buf x, rd c.buf (x - 1), rd c.buf (x - 2), rd c.buf (x - 3) with
  | some a, some b, some cc, some d => edgeCrit c a b cc d
  | _, _, _, _ => false

theorem rd_some {raw : List Nat} {i : Int} (h0 : 0 ≤ i) (h1 : i < raw.length) : ∃ a, rd raw i = some a := by
  unfold rd
  simp only [h0, if_true]
  have : i.toNat < raw.length := by omega
  exact ⟨raw[i.toNat], by simp [this]⟩

/-- specification of the loop started at `i` with accumulator `acc` -/
structure EdgeSpec (c : Chan) (hi i : Int) (res : List Int) : Prop where
  range : ∀ x ∈ res, i ≤ x ∧ x < hi
  sound : ∀ x ∈ res, edgeAt c x = true
  complete : ∀ j, i ≤ j → j < hi → edgeAt c j = true → j ∈ res ∨ ∃ t ∈ res, t < j ∧ j ≤ t + c.nsamp
  spaced : res.Pairwise (fun a b => a + c.nsamp + 1 ≤ b)

theorem edgeLoop_spec (c : Chan) (hi : Int) (hns : 0 ≤ c.nsamp) (hhi : hi ≤ c.buf.length) :
    ∀ (n : Nat) (i : Int) (acc : List Int), (hi - i).toNat ≤ n → 3 ≤ i →
      ∃ res, edgeLoop c hi i acc = some (acc ++ res) ∧ EdgeSpec c hi i res := by
  intro n
  induction n with
  | zero =>
    intro i acc hn h3
    have hge : ¬ i < hi := by omega
    refine ⟨[], ?_, ⟨by simp, by simp, ?_, by simp⟩⟩
    · unfold edgeLoop; simp [hge]
    · intro j h1 h2; omega
  | succ n ih =>
    intro i acc hn h3
    by_cases hlt : i < hi
    · obtain ⟨a, ha⟩ := rd_some (raw := c.buf) (i := i) (by omega) (by omega)
      obtain ⟨b, hb⟩ := rd_some (raw := c.buf) (i := i - 1) (by omega) (by omega)
      obtain ⟨cc, hcc⟩ := rd_some (raw := c.buf) (i := i - 2) (by omega) (by omega)
      obtain ⟨d, hd⟩ := rd_some (raw := c.buf) (i := i - 3) (by omega) (by omega)
      have hat : edgeAt c i = edgeCrit c a b cc d := by simp [edgeAt, ha, hb, hcc, hd]
      by_cases hcrit : edgeCrit c a b cc d = true
      · -- trigger at i, continue at i + nsamp + 1
        obtain ⟨res, hres, hs⟩ := ih (i + c.nsamp + 1) (acc ++ [i]) (by omega) (by omega)
        refine ⟨i :: res, ?_, ?_⟩
        · rw [edgeLoop]
          simp only [hlt, if_true, ha, hb, hcc, hd, hcrit]
          have : ¬ c.nsamp < 0 := by omega
          simp only [this, if_false, hres, List.append_assoc, List.singleton_append]
        · refine ⟨?_, ?_, ?_, ?_⟩
          · intro x hx
            rcases List.mem_cons.mp hx with rfl | hx
            · exact ⟨by omega, hlt⟩
            · have := hs.range x hx; omega
          · intro x hx
            rcases List.mem_cons.mp hx with rfl | hx
            · rw [hat]; exact hcrit
            · exact hs.sound x hx
          · intro j h1 h2 hj
            by_cases hji : j = i
            · left; simp [hji]
            · by_cases hdead : j ≤ i + c.nsamp
              · right; exact ⟨i, by simp, by omega, hdead⟩
              · rcases hs.complete j (by omega) h2 hj with h | ⟨t, ht, h⟩
                · left; exact List.mem_cons_of_mem _ h
                · right; exact ⟨t, List.mem_cons_of_mem _ ht, h⟩
          · refine List.pairwise_cons.mpr ⟨?_, hs.spaced⟩
            intro x hx
            have := hs.range x hx; omega
      · -- no trigger at i
        obtain ⟨res, hres, hs⟩ := ih (i + 1) acc (by omega) (by omega)
        refine ⟨res, ?_, ?_⟩
        · rw [edgeLoop]
          simp only [hlt, if_true, ha, hb, hcc, hd, hcrit, Bool.false_eq_true, if_false, hres]
        · refine ⟨?_, hs.sound, ?_, hs.spaced⟩
          · intro x hx; have := hs.range x hx; omega
          · intro j h1 h2 hj
            by_cases hji : j = i
            · subst hji; rw [hat] at hj; exact absurd hj hcrit
            · exact hs.complete j (by omega) h2 hj
    · refine ⟨[], ?_, ⟨by simp, by simp, ?_, by simp⟩⟩
      · unfold edgeLoop; simp [hlt]
      · intro j h1 h2; omega

/-- the edge pass of one block: never panics when `3 ≤ npre`, `0 ≤ nsamp` -/
theorem edgePass_spec (c : Chan) (hnp : 3 ≤ c.npre) (hns : 0 ≤ c.nsamp) (hle : c.npre ≤ c.nsamp) :
    ∃ res, edgePass c = some res ∧
      (c.ts.edge = false → res = []) ∧
      (c.ts.edge = true → EdgeSpec c ((c.buf.length : Int) + c.npre - c.nsamp) (fpt c) res) := by
  unfold edgePass
  by_cases he : c.ts.edge = true
  · simp only [he, Bool.not_true, Bool.false_eq_true, if_false]
    have hf : 3 ≤ fpt c := by unfold fpt; simp only; split <;> omega
    obtain ⟨res, hres, hs⟩ := edgeLoop_spec c ((c.buf.length : Int) + c.npre - c.nsamp) hns (by omega)
      _ (fpt c) [] (Nat.le_refl _) hf
    refine ⟨res, by simpa using hres, ?_, fun _ => hs⟩
    intro h; cases h
  · have he' : c.ts.edge = false := by simpa using he
    simp only [he', Bool.not_false, if_true]
    refine ⟨[], rfl, fun _ => rfl, ?_⟩
    intro h; cases h

end DastardV.Trig
