/-
Line protocol shared by every model driver (core Lean only, no Mathlib).

A case line is a sequence of space separated tokens.  Integers are decimal, lists are
`n x₁ … xₙ`, byte strings lowercase hex (`-` for the empty string).  The parser is a
state monad over the remaining tokens with a string error.
-/
namespace DastardV

abbrev P := StateT (List String) (Except String)

namespace P

def fail {α} (msg : String) : P α := fun _ => .error msg

def tok : P String := fun ts =>
  match ts with
  | [] => .error "unexpected end of line"
  | t :: r => .ok (t, r)

def peek : P (Option String) := fun ts => .ok (ts.head?, ts)

def atEnd : P Bool := fun ts => .ok (ts.isEmpty, ts)

def kw (k : String) : P Unit := do
  let t ← tok
  if t == k then pure () else fail s!"expected {k} got {t}"

def int : P Int := do
  let t ← tok
  match t.toInt? with
  | some i => pure i
  | none => fail s!"bad int {t}"

def nat : P Nat := do
  let t ← tok
  match t.toNat? with
  | some i => pure i
  | none => fail s!"bad nat {t}"

def bool : P Bool := do
  let n ← nat
  pure (n != 0)

def rep {α} (p : P α) : Nat → P (List α)
  | 0 => pure []
  | n + 1 => do
    let x ← p
    let xs ← rep p n
    pure (x :: xs)

/-- `n x₁ … xₙ` -/
def list {α} (p : P α) : P (List α) := do
  let n ← nat
  rep p n

def hexDigit (c : Char) : Option Nat :=
  if '0' ≤ c ∧ c ≤ '9' then some (c.toNat - '0'.toNat)
  else if 'a' ≤ c ∧ c ≤ 'f' then some (c.toNat - 'a'.toNat + 10)
  else none

def hexBytesAux : List Char → Option (List Nat)
  | [] => some []
  | [_] => none
  | a :: b :: r => do
    let x ← hexDigit a
    let y ← hexDigit b
    let rest ← hexBytesAux r
    pure ((x * 16 + y) :: rest)

/-- hex byte string, `-` = empty -/
def bytes : P (List Nat) := do
  let t ← tok
  if t == "-" then pure [] else
  match hexBytesAux t.toList with
  | some bs => pure bs
  | none => fail s!"bad hex {t}"

def run {α} (p : P α) (ts : List String) : Except String α :=
  match p ts with
  | .ok (a, _) => .ok a
  | .error e => .error e

end P

def toks (s : String) : List String := (s.splitOn " ").filter (· ≠ "")

def showInts (xs : List Int) : String := " ".intercalate (xs.map toString)
def showNats (xs : List Nat) : String := " ".intercalate (xs.map toString)

def hexOfNat (n : Nat) : String :=
  let d (k : Nat) : Char := if k < 10 then Char.ofNat (k + 48) else Char.ofNat (k + 87)
  String.ofList [d (n / 16 % 16), d (n % 16)]

def hexOfBytes (bs : List Nat) : String :=
  if bs.isEmpty then "-" else String.join (bs.map hexOfNat)

/-- first index where two lists differ (for diff messages) -/
def firstDiff {α} [BEq α] : List α → List α → Nat → Option Nat
  | [], [], _ => none
  | a :: as, b :: bs, i => if a == b then firstDiff as bs (i + 1) else some i
  | _, _, i => some i

/-- Go's `int16(x)` for any integer `x`. -/
def toInt16 (x : Int) : Int :=
  let m := x % 65536
  if m < 32768 then m else m - 65536

/-- Go's `int32(x)`. -/
def toInt32 (x : Int) : Int :=
  let m := x % 4294967296
  if m < 2147483648 then m else m - 4294967296

/-- A verdict line of the driver. -/
inductive Verdict where
  | ok (tags : List String)          -- agreement and oracle satisfied; tags describe what the case exercised
  | diff (what : String)             -- model and implementation disagree
  | viol (clause : String)           -- the implementation's output violates the property oracle
  | bad (msg : String)               -- unparsable line

def Verdict.render : Verdict → String
  | .ok tags => "ok " ++ " ".intercalate tags
  | .diff w => "diff " ++ w
  | .viol c => "viol " ++ c
  | .bad m => "bad " ++ m

end DastardV
