/-
C04 — Lancero ingest: property theorems over the model `Model/C04.lean`
(helper lemmas in `Lemmas/C04Bits`, `C04Reader`, `C04Dist`, `C04Hist`).

Notation: a `Frame` is the list of its `nc*nr` words `(err, fb)` in readout order (row-major);
`encFrames` is the card's byte stream for a list of frames; `frameWF` = frame bit (lsb of fb) exactly
on the words of row 0; `geomOK` = at least one column and two rows.
-/
import DastardV.Lemmas.C04Hist
namespace DastardV.C04

variable {σ ρ : Type}

/-! ### FindFrameBits -/

/-- On a stream of well-formed frames, a buffer that starts `k` words into a frame (and holds the rest
of that frame plus two more frames — any 3-frame read does) yields `q = F-k`, `p = q+F`, `n = ncols`:
the reader's alignment test `q = ncols*nrows` succeeds exactly when the buffer starts on a frame
boundary, and otherwise `q` is the distance to the next boundary. -/
theorem ffb_aligned_iff (g : Geom) (hg : geomOK g = true) (fr0 fr1 fr2 : Frame)
    (h0 : frameWF g fr0 = true) (h1 : frameWF g fr1 = true) (h2 : frameWF g fr2 = true)
    (k : Nat) (hk : k < g.F) (X : List Nat) :
    findFrameBits (encWords (fr0.drop k ++ fr1 ++ fr2) ++ X) =
        { q := g.F - k, p := 2 * g.F - k, n := g.nc, ok := true } ∧
    ((findFrameBits (encWords (fr0.drop k ++ fr1 ++ fr2) ++ X)).q = g.nc * g.nr ↔ k = 0) := by
  have h := ffb_phase g hg fr0 fr1 fr2 h0 h1 h2 k hk X
  refine ⟨h, ?_⟩
  rw [h]
  have : g.F = g.nc * g.nr := rfl
  simp only
  omega

/-! ### channel order -/

/-- `chan2readoutOrder` as built by `updateChanOrderMap` is the column-major ↔ row-major bijection:
channel `2(c·nrows+r)+e` is found at readout index `2(r·ncols+c)+e`, and every readout index belongs
to exactly one channel. -/
theorem readout_perm_bijective (g : Geom) (hc : 0 < g.nc) (hr : 0 < g.nr) :
    (c2rTable g).length = g.nchan ∧
    (∀ r c e, r < g.nr → c < g.nc → e < 2 →
      (c2rTable g).getD (2 * (c * g.nr + r) + e) 0 = 2 * (r * g.nc + c) + e) ∧
    (∀ ch, ch < g.nchan → (c2rTable g).getD ch 0 < g.nchan) ∧
    (∀ i, i < g.nchan → ∃ ch, ch < g.nchan ∧ (c2rTable g).getD ch 0 = i ∧
      ∀ ch', ch' < g.nchan → (c2rTable g).getD ch' 0 = i → ch' = ch) := by
  have ⟨hl, htbl⟩ := c2rTable_spec g hc hr
  refine ⟨hl, ?_, ?_, ?_⟩
  · intro r c e hr' hc' he
    have hlt := lt_mul_of_parts c g.nc r g.nr hc' hr'
    have hch : 2 * (c * g.nr + r) + e < g.nchan := by unfold Geom.nchan; omega
    rw [htbl _ hch]
    unfold readoutOf
    have e1 : (2 * (c * g.nr + r) + e) / 2 = c * g.nr + r := by omega
    have e2 : (2 * (c * g.nr + r) + e) % 2 = e := by omega
    have h2 := dm' g.nr c r (c * g.nr + r) (by rw [Nat.mul_comm]) hr'
    rw [e1, e2, h2.1, h2.2]
  · intro ch hch
    rw [htbl ch hch]
    exact (channum_readoutOf g hc hr ch hch).1
  · intro i hi
    have ⟨h1, h2⟩ := readoutOf_channum g hc hr i hi
    refine ⟨channum g i, h1, by rw [htbl _ h1, h2], ?_⟩
    intro ch' hch' h
    rw [htbl ch' hch'] at h
    rw [← h, (channum_readoutOf g hc hr ch' hch').2]

/-! ### the reader loop: any chunking of a loss-free stream -/

/-- **Chunking independence.**  For every geometry, every list of well-formed frames, EVERY schedule of
reads (`ticks` = how many more bytes the card shows at each tick: shorter than 3 frames, not frame or
word aligned, anything) and every initial mixer / counter state, the reader and `distributeData`
deliver, with `N` = number of frames delivered:

* no panic, no data-drop flag, blocks numbered contiguously;
* at most the last < 3 frames' worth of visible bytes are withheld (the 3-frame minimum);
* every block has one slice per channel, all of the block's length (`shapeOK`);
* error channel `2(c·nrows+r)` is exactly the `err` component of word (r, c) of frames `0..N-1`, in
  order (`cleanRun`, the run-time oracle, holds);
* feedback channel `2(c·nrows+r)+1` is the retarded / mixed feedback of the same word (closed form
  `mixSpec`), independent of how the stream was cut into blocks;
* the external trigger counts are the rising edges of the column-0 flag, `frame·nrows+row`. -/
theorem C04_chunking_independent (ops : FloatOps σ ρ) (zero : σ) (scaleOf : Nat → σ)
    (g : Geom) (hg : geomOK g = true) (frames : List Frame) (hwf : ∀ fr ∈ frames, frameWF g fr = true)
    (ticks : List (Nat × Int)) (st : DState σ) :
    ∃ bufs, runReader g { pending := [], future := encFrames frames } false ticks = .ok bufs ∧
      (∀ b ∈ bufs, b.drop = false) ∧
      let blocks := blocksOf (runSteps ops zero scaleOf g st (bufs.map Step.buf))
      let N := totalFrames blocks
      N ≤ frames.length ∧
      min ((ticks.map (·.1)).sum) (encFrames frames).length < (N + 3) * g.fs ∧
      contiguous st.next blocks = true ∧
      cleanRun g frames blocks 0 = true ∧
      shapeOK g blocks = true ∧
      (∀ r c, r < g.nr → c < g.nc →
        concatChan blocks (2 * (c * g.nr + r)) = (frames.take N).map fun fr => (fr.getD (r * g.nc + c) (0, 0)).1) ∧
      (∀ ch, ch < g.nchan → ch % 2 = 1 →
        concatChan blocks ch = mixSpec ops (List.replicate N (st.scale.getD ch zero))
          (chanTrue g (frames.take N) (ch - 1)) (chanTrue g (frames.take N) ch) (st.lastFb.getD ch 0)) ∧
      blocks.flatMap (·.ext) = edgeSpec st.extLast (flagItems g (frames.take N) st.next) := by
  have ⟨hc, hr, hF⟩ := geom_facts g hg
  obtain ⟨parts, ts, hrun, hlen, _, hpre, hav⟩ :=
    runReader_wf g hg ticks frames [] (encFrames frames) hwf (by simp) (by simp [fs_eq]; omega)
  refine ⟨cleanBufs g parts ts, hrun, ?_, ?_⟩
  · intro b hb
    simp only [cleanBufs, List.mem_iff_getElem, List.getElem_zipWith] at hb
    obtain ⟨i, _, rfl⟩ := hb
    rfl
  intro blocks N
  have hsteps : blocks = blocksOf (runSteps ops zero scaleOf g st ((cleanSteps parts ts).map (FStep.toStep g))) := by
    show blocksOf _ = _
    rw [cleanSteps_toStep]
  have ⟨s1, s2, s3, s4, _, s6⟩ := runSteps_spec ops zero scaleOf g hg (cleanSteps parts ts) st
  simp only [← hsteps] at s1 s2 s3 s4 s6
  have hN : N = parts.flatten.length := by
    show totalFrames blocks = _
    unfold totalFrames
    rw [s3]
    exact (cleanSteps_spec scaleOf g zero 0 st.scale parts ts st.prevT hlen).2.2.1
  have hfr : parts.flatten = frames.take N := by
    rw [hN]; exact List.prefix_iff_eq_take.mp hpre
  have hNle : N ≤ frames.length := by rw [hN]; exact hpre.length_le
  have hzero := (cleanSteps_spec scaleOf g zero 0 st.scale parts ts st.prevT hlen).2.1
  have hframes := (cleanSteps_spec scaleOf g zero 0 st.scale parts ts st.prevT hlen).1
  have hchan : ∀ ch, ch < g.nchan → concatChan blocks ch =
      if ch % 2 = 1 then mixSpec ops (List.replicate N (st.scale.getD ch zero))
        (chanTrue g (frames.take N) (ch - 1)) (chanTrue g (frames.take N) ch) (st.lastFb.getD ch 0)
      else chanTrue g (frames.take N) ch := by
    intro ch hch
    rw [s6 ch hch, hframes, hfr, (cleanSteps_spec scaleOf g zero ch st.scale parts ts st.prevT hlen).2.2.2, ← hN]
  refine ⟨hNle, ?_, ?_, ?_, ?_, ?_, ?_, ?_⟩
  · simpa [hN] using hav
  · exact spec_contiguous _ _ _ hzero blocks s1 s2 s3
  · unfold cleanRun
    simp only [Nat.zero_add, List.drop_zero, Bool.and_eq_true, decide_eq_true_eq, List.all_eq_true, beq_iff_eq]
    refine ⟨hNle, ?_⟩
    intro ch hch
    simp only [evenChans, List.mem_filter, List.mem_range, beq_iff_eq] at hch
    rw [hchan ch hch.1]
    simp [hch.2]
    rfl
  · rw [hsteps]; exact runSteps_shape ops zero scaleOf g hg _ st
  · intro r c hr' hc'
    have hlt := lt_mul_of_parts c g.nc r g.nr hc' hr'
    have hch : 2 * (c * g.nr + r) < g.nchan := by unfold Geom.nchan; omega
    rw [hchan _ hch]
    have e0 : (2 * (c * g.nr + r)) % 2 = 0 := by omega
    have e1 : (2 * (c * g.nr + r)) / 2 = c * g.nr + r := by omega
    have h2 := dm' g.nr c r (c * g.nr + r) (by rw [Nat.mul_comm]) hr'
    simp only [e0, chanTrue, wordAt, e1, h2.1, h2.2]
    simp
  · intro ch hch hodd
    rw [hchan ch hch]; simp [hodd]
  · rw [s4, specItems_lossfree g _ _ _ hzero, hframes, hfr]

/-- **Shape of the blocks, for every history.**  Every block `distributeData` makes has one slice per
channel and every slice has the block's announced length `nSamp` (the run-time check `shapeOK`). -/
theorem C04_blocks_shape (ops : FloatOps σ ρ) (zero : σ) (scaleOf : Nat → σ)
    (g : Geom) (hg : geomOK g = true) (steps : List FStep) (st : DState σ) :
    shapeOK g (blocksOf (runSteps ops zero scaleOf g st (steps.map (FStep.toStep g)))) = true :=
  runSteps_shape ops zero scaleOf g hg steps st

/-! ### feedback: one-sample retard, flag bits cleared, saturating mix -/

/-- **Feedback retard / mix, for every history.**  Whatever the frames, however they are cut into
buffer messages, whatever mix requests arrive in between (accepted or rejected) and whatever the
data-drop flags: feedback channel `ch` (odd), concatenated over all blocks, is `mixSpec` of the whole
stream — sample `j` = feedback sample `j-1` with the two flag bits cleared (`lastFb` for `j = 0`) plus,
when the scale in force at sample `j` is non-zero, the scaled signed error OF SAMPLE `j`, saturated at 0
and 65535 (`mixOne`).  The block cuts do not appear in the right-hand side; a mix change takes effect
exactly from the first sample of the next block (`specScales`).  Error channels are untouched. -/
theorem C04_fb_retard_mix (ops : FloatOps σ ρ) (zero : σ) (scaleOf : Nat → σ)
    (g : Geom) (hg : geomOK g = true) (steps : List FStep) (st : DState σ) :
    let blocks := blocksOf (runSteps ops zero scaleOf g st (steps.map (FStep.toStep g)))
    (∀ ch, ch < g.nchan → ch % 2 = 1 →
      concatChan blocks ch =
        mixSpec ops (specScales scaleOf g zero ch st.scale steps) (chanTrue g (specFrames steps) (ch - 1))
          (chanTrue g (specFrames steps) ch) (st.lastFb.getD ch 0)) ∧
    (∀ ch, ch < g.nchan → ch % 2 = 0 → concatChan blocks ch = chanTrue g (specFrames steps) ch) := by
  intro blocks
  have ⟨_, _, _, _, _, s6⟩ := runSteps_spec ops zero scaleOf g hg steps st
  constructor
  · intro ch hch hodd
    have := s6 ch hch
    simpa [hodd] using this
  · intro ch hch hev
    have := s6 ch hch
    simpa [hev] using this

/-- what `mixSpec` says sample by sample (index form) -/
theorem C04_fb_retard_mix_sample (ops : FloatOps σ ρ) (ss : List σ) (errs fbs : List Nat) (last : Nat) (j : Nat) (s : σ)
    (he : errs.length = ss.length) (hf : fbs.length = ss.length) (hs : ss[j]? = some s) :
    (mixSpec ops ss errs fbs last)[j]? =
      some (if ops.isZero s then (if j = 0 then last else mask (fbs.getD (j - 1) 0))
            else mixOne ops s (errs.getD j 0) (if j = 0 then last else mask (fbs.getD (j - 1) 0))) :=
  mixSpec_getElem? ops ss errs fbs last j s he hf hs

/-- exact arithmetic instance (integer scale): what the float code approximates -/
def intOps : FloatOps Int Int where
  isZero s := s == 0
  mulAdd s e fb := e * s + fb
  geMax x := decide (x ≥ 65535)
  ltZero x := decide (x < 0)
  round x := x.toNat

/-- With exact arithmetic the mixed value is `fb + scale·err` clamped to `[0, 65535]`, `err` read as a
signed 16-bit number; and the shortcut the code takes for scale 0 agrees with the general formula. -/
theorem C04_mix_exact_saturating (s : Int) (err fb : Nat) (hfb : fb ≤ 65535) :
    ((if intOps.isZero s then fb else mixOne intOps s err fb : Nat) : Int) =
      max 0 (min 65535 ((fb : Int) + s * toInt16 err)) := by
  unfold mixOne intOps
  simp only [beq_iff_eq, ge_iff_le, decide_eq_true_eq]
  by_cases hs : s = 0
  · subst hs; simp; omega
  · simp only [hs, ↓reduceIte]
    have e : toInt16 ↑err * s + ↑fb = ↑fb + s * toInt16 ↑err := by rw [Int.mul_comm]; omega
    rw [e]
    generalize (fb : Int) + s * toInt16 err = x
    by_cases h1 : 65535 ≤ x
    · simp [h1]; omega
    · by_cases h2 : x < 0
      · simp [h1, h2]; omega
      · simp [h1, h2]; omega

/-! ### external triggers -/

/-- **External triggers, for every history and every number of columns.**  The counts delivered over
all blocks are `edgeSpec` of the (rowcount, flag) sequence of all frames in scan order: the flag of
(frame, row) is bit 1 of the feedback word of column 0 of THAT PHYSICAL ROW (`rowFlag`), its rowcount
is `(block's first frame + index in block)·nrows + row` (`flagItems`, `specItems`), and the previous
flag is carried across block boundaries. -/
theorem C04_ext_trigger (ops : FloatOps σ ρ) (zero : σ) (scaleOf : Nat → σ)
    (g : Geom) (hg : geomOK g = true) (steps : List FStep) (st : DState σ) :
    let blocks := blocksOf (runSteps ops zero scaleOf g st (steps.map (FStep.toStep g)))
    blocks.flatMap (·.ext) = edgeSpec st.extLast (specItems g st.next st.prevT steps) ∧
    ((∀ x ∈ specDropped st.prevT steps, x = 0) →
      blocks.flatMap (·.ext) = edgeSpec st.extLast (flagItems g (specFrames steps) st.next)) := by
  intro blocks
  have ⟨_, _, _, s4, _, _⟩ := runSteps_spec ops zero scaleOf g hg steps st
  refine ⟨s4, ?_⟩
  intro h
  rw [s4, specItems_lossfree g _ _ _ h]

/-- `edgeSpec` in index form: exactly one count per rising edge — item `i` contributes its rowcount iff
its flag is set and the flag of item `i-1` (the carried state for `i = 0`) is not; in order. -/
theorem C04_ext_trigger_edges (init : Bool) (items : List (Int × Bool)) :
    edgeSpec init items =
      ((List.range items.length).filter (risingAt init items)).map fun i => (items.getD i (0, false)).1 :=
  edgeSpec_index items init

/-- the rowcount attached to (frame `f`, row `r`) is `(frame0+f)·nrows + r`, its flag the one of column 0 -/
theorem C04_ext_trigger_items (g : Geom) (frs : List Frame) (frame0 : Int) :
    flagItems g frs frame0 = (List.range frs.length).flatMap fun (f : Nat) =>
      (List.range g.nr).map fun (r : Nat) =>
        (((f : Int) + frame0) * (g.nr : Int) + (r : Int), extBit (wordAt g (frs.getD f []) r 0 1)) :=
  flagItems_eq g frs frame0

/-! ### frame numbering and loss -/

/-- **Frame numbers never go backwards.**  For every history: each block is numbered from the running
counter advanced by its own loss estimate (`specFirsts`), reports exactly that estimate (0 without a
data-drop flag), and — whenever the estimates are not negative (a clock that does not run backwards) —
every block starts at or after the end of the previous one.  Without drop flags the numbering is
contiguous. -/
theorem C04_frames_monotone (ops : FloatOps σ ρ) (zero : σ) (scaleOf : Nat → σ)
    (g : Geom) (hg : geomOK g = true) (steps : List FStep) (st : DState σ) :
    let blocks := blocksOf (runSteps ops zero scaleOf g st (steps.map (FStep.toStep g)))
    blocks.map (·.first) = specFirsts st.next st.prevT steps ∧
    blocks.map (·.dropped) = specDropped st.prevT steps ∧
    blocks.map (·.nframes) = specLens steps ∧
    ((∀ x ∈ specDropped st.prevT steps, 0 ≤ x) → monotone blocks = true) ∧
    ((∀ x ∈ specDropped st.prevT steps, x = 0) → contiguous st.next blocks = true) := by
  intro blocks
  have ⟨s1, s2, s3, _, _, _⟩ := runSteps_spec ops zero scaleOf g hg steps st
  refine ⟨s1, s2, s3, ?_, ?_⟩
  · intro h
    rw [monotone_iff]
    have hz : (blocks.map fun b => (b.first, b.nframes)) = List.zip (blocks.map (·.first)) (blocks.map (·.nframes)) := by
      rw [List.zip_map']
    rw [hz, s1, s3]
    exact monotoneP_of_monoFrom _ _ (spec_monoFrom steps st.next st.prevT h)
  · intro h
    exact spec_contiguous steps st.next st.prevT h blocks s1 s2 s3

/-! ### re-alignment after lost bytes -/

/-- `dc` is the readout-order slicing of some run of whole frames of `frames` -/
def cleanDc (g : Geom) (frames : List Frame) (dc : List (List Nat)) : Bool :=
  (List.range (frames.length + 1)).any fun start =>
    dc == sliced g ((frames.drop start).take (dc.headD []).length)

/-- outcome wanted after a loss: no crash and every delivered buffer consists of whole frames -/
def realigned (g : Geom) (frames : List Frame) (pos len : Nat) (ticks : List (Nat × Int)) : Bool :=
  match runReader g { pending := [], future := cut (encFrames frames) [(pos, len)] } false ticks with
  | .ok bufs => bufs.all fun b => cleanDc g frames b.dc
  | .error _ => false

/-- FULL statement of "after lost bytes the stream is re-aligned to the next frame boundary":
whatever word-aligned byte range is cut out of a stream of well-formed frames and however the rest is
read, the reader does not crash and never delivers anything but whole frames.
NOT TRUE of the code (see `C04_realign_counterexample`; known finding `C04:gap-garbage-block`). -/
def C04_realign_full : Prop :=
  ∀ (g : Geom) (frames : List Frame) (pos len : Nat) (ticks : List (Nat × Int)),
    geomOK g = true → (∀ fr ∈ frames, frameWF g fr = true) → pos % 4 = 0 → len % 4 = 0 →
    realigned g frames pos len ticks = true

def exG : Geom := { nc := 1, nr := 2 }
def exFrames : List Frame :=
  [[(10, 1), (11, 0)], [(20, 1), (21, 0)], [(30, 1), (31, 0)], [(40, 1), (41, 0)], [(50, 1), (51, 0)], [(60, 1), (61, 0)]]

/-- One column, two rows, six frames, the second word of the third frame lost, everything read at
once: the loss lies behind the two frame starts `FindFrameBits` looks at, the read passes the alignment
test and is delivered as 5 "frames" whose words after the loss sit in the wrong channels. -/
theorem C04_realign_counterexample : ¬ C04_realign_full := by
  intro h
  have := h exG exFrames 20 4 [(44, 1)] (by decide) (by decide) (by decide) (by decide)
  revert this
  decide

/-- PROVED PART (guard: the read STARTS inside a frame — which is where every loss ends up at the latest
one read later, because reads are consumed in whole frames).  A read of at least 3 frames that starts
`k` words into a frame, `0 < k < F`: the data-drop flag is raised, the `F-k` words of the broken frame are
released, whole frames are delivered starting at the NEXT frame boundary (the demultiplexed buffer is the
slicing of `m ≥ 2` consecutive frames, in order), and what remains on the card starts on a frame boundary
again — so by `C04_chunking_independent` everything after it is delivered exactly once, in order. -/
theorem C04_realign_partial (g : Geom) (hg : geomOK g = true) (fr0 : Frame) (rem : List Frame)
    (h0 : frameWF g fr0 = true) (hwf : ∀ fr ∈ rem, frameWF g fr = true)
    (k : Nat) (hk0 : 0 < k) (hk : k < g.F) (L : Nat)
    (hL : L ≤ (encWords (fr0.drop k) ++ encFrames rem).length) (h3 : 3 * g.fs ≤ L) :
    ∃ m raw, readerTick g ((encWords (fr0.drop k) ++ encFrames rem).take L) =
        .deliver true (4 * (g.F - k) + m * g.fs) raw m ∧
      2 ≤ m ∧ m ≤ rem.length ∧
      demux g.nchan m raw = sliced g (rem.take m) ∧
      (encWords (fr0.drop k) ++ encFrames rem).drop (4 * (g.F - k) + m * g.fs) = encFrames (rem.drop m) := by
  have h := readerTick_misaligned g hg fr0 rem h0 hwf k hk0 hk L hL h3
  exact ⟨_, _, h.1, h.2.1, h.2.2.1, h.2.2.2.1, h.2.2.2.2⟩

/-- PROVED PART, whole reader loop: a stream that starts `k` words into a frame (a loss that a read
boundary falls on; also a misaligned start), EVERY schedule of reads: no crash; nothing is delivered
before 3 frames are visible; the first delivered buffer carries the data-drop flag and consists of whole
frames from the next frame boundary on; all later buffers are unflagged whole frames; together a prefix
of the frames after the broken one, each exactly once, in order. -/
theorem C04_realign_all_chunkings (g : Geom) (hg : geomOK g = true) (fr0 : Frame) (rem : List Frame)
    (h0 : frameWF g fr0 = true) (hwf : ∀ fr ∈ rem, frameWF g fr = true)
    (k : Nat) (hk0 : 0 < k) (hk : k < g.F) (ticks : List (Nat × Int)) :
    runReader g { pending := [], future := encWords (fr0.drop k) ++ encFrames rem } false ticks = .ok [] ∨
    ∃ (p : List Frame) (t : Int) (parts : List (List Frame)) (ts : List Int),
      runReader g { pending := [], future := encWords (fr0.drop k) ++ encFrames rem } false ticks =
        .ok ({ dc := sliced g p, t := t, drop := true } :: cleanBufs g parts ts) ∧
      p ≠ [] ∧ (p :: parts).flatten <+: rem :=
  runReader_misaligned g hg fr0 rem h0 hwf k hk0 hk ticks [] _ (by simp)
    (by have := geom_facts g hg; have := fs_eq g; simp; omega)

/-! ### non-vacuity: the hypotheses are satisfiable by ordinary inputs, the conclusions say something -/

example : geomOK exG = true ∧ (∀ fr ∈ exFrames, frameWF exG fr = true) := by decide

/-- a 2-column, 3-row frame with the external trigger flag on row 1 only -/
def exFrame23 : Frame := [(1, 5), (2, 9), (3, 6), (4, 10), (5, 16), (6, 20)]
example : geomOK ⟨2, 3⟩ = true ∧ frameWF ⟨2, 3⟩ exFrame23 = true := by decide
-- column-major channel numbering: channel 2(c·3+r) holds err of word (r,c)
example : (List.range 12).map (fun ch => chanTrue ⟨2, 3⟩ [exFrame23] ch) =
    [[1], [5], [3], [6], [5], [16], [2], [9], [4], [10], [6], [20]] := by decide
-- the table built by the transcribed loop
example : c2rTable ⟨2, 3⟩ = [0, 1, 4, 5, 8, 9, 2, 3, 6, 7, 10, 11] := by decide
-- the flag of physical row 1 rising in frame 101 gives the single count 101*3+1
example : edgeSpec false (flagItems ⟨2, 3⟩ [exFrame23] 101) = [304] := by decide
-- misaligned start: hypotheses of `C04_realign_partial` hold for k = 1 on the example frames
example : frameWF exG [(10, 1), (11, 0)] = true ∧ 0 < 1 ∧ 1 < exG.F ∧
    3 * exG.fs ≤ (encWords (([(10, 1), (11, 0)] : Frame).drop 1) ++ encFrames exFrames).length := by decide
-- saturation really happens in the exact instance
example : mixOne intOps 7 0x7fff 60000 = 65535 ∧ mixOne intOps 7 0x8000 60000 = 0 ∧ mixOne intOps (-1) 3 100 = 97 := by decide

end DastardV.C04
