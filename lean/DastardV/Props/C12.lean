/-
C12 — property theorems for the phase-unwrapping model (`Model/C12.lean`).
-/
import DastardV.Model.C12
namespace DastardV.C12

/-- Parameters as `NewPhaseUnwrapper` builds them when unwrapping is enabled: a quantum
that divides 2^16 and is at most 2^15, step limits `bias ± π` with `|bias| ≤ π`, a home
offset that is a whole number of quanta. -/
structure Valid (p : Params) (bias onePi : Int) : Prop where
  tp_pos : 0 < p.twoPi
  tp_dvd : p.twoPi ∣ 65536
  tp_le : p.twoPi ≤ 32768
  pi2 : 2 * onePi = p.twoPi
  up : p.upper = bias + onePi
  lo : p.lower = bias - onePi
  bias_le : bias ≤ onePi
  bias_ge : -onePi ≤ bias
  home_mod : p.resetOffset % p.twoPi = 0
  home_lt : p.resetOffset < 65536
  ra_pos : 0 < p.resetAfter

/-- State invariant: values in range, offset a whole number of quanta, counter bounded. -/
structure Good (p : Params) (s : St) : Prop where
  lv : s.lastVal < p.twoPi
  off_lt : s.offset < 65536
  off_mod : s.offset % p.twoPi = 0
  rc_ge : 0 ≤ s.resetCount
  rc_le : s.resetCount ≤ p.resetAfter
  rc_home : s.offset = p.resetOffset → s.resetCount = 0

theorem toInt16_small (x : Int) (h1 : -32768 ≤ x) (h2 : x < 32768) : toInt16 x = x := by
  unfold toInt16
  simp only
  split <;> omega

private theorem mod_of_mul (t a : Nat) : (t * a) % t = 0 := Nat.mul_mod_right t a

theorem shortTerm_mod (p : Params) (off : Nat) (st : Int) (hd : p.twoPi ∣ 65536)
    (_hpos : 0 < p.twoPi) (hlt : off < 65536) (hm : off % p.twoPi = 0) :
    shortTerm p off st % p.twoPi = 0 ∧ shortTerm p off st < 65536 := by
  obtain ⟨m, hm65⟩ := hd
  have hle : p.twoPi ≤ 65536 := by
    have : 0 < m := by
      rcases Nat.eq_zero_or_pos m with h | h
      · subst h; simp at hm65
      · exact h
    calc p.twoPi = p.twoPi * 1 := (Nat.mul_one _).symm
      _ ≤ p.twoPi * m := Nat.mul_le_mul_left _ this
      _ = 65536 := hm65.symm
  have hdvd : p.twoPi ∣ 65536 := ⟨m, hm65⟩
  unfold shortTerm
  split
  · refine ⟨?_, Nat.mod_lt _ (by decide)⟩
    rw [Nat.mod_mod_of_dvd _ hdvd]
    have h1 : p.twoPi ∣ off := Nat.dvd_of_mod_eq_zero hm
    have h2 : p.twoPi ∣ off + 65536 := Nat.dvd_add h1 hdvd
    have h3 : p.twoPi ∣ off + 65536 - p.twoPi := Nat.dvd_sub h2 (Nat.dvd_refl _)
    exact Nat.mod_eq_zero_of_dvd h3
  · split
    · refine ⟨?_, Nat.mod_lt _ (by decide)⟩
      rw [Nat.mod_mod_of_dvd _ hdvd]
      have h1 : p.twoPi ∣ off := Nat.dvd_of_mod_eq_zero hm
      exact Nat.mod_eq_zero_of_dvd (Nat.dvd_add h1 (Nat.dvd_refl _))
    · exact ⟨hm, hlt⟩

theorem longTermOff_cases (p : Params) (rc : Int) (off1 : Nat) :
    longTermOff p rc off1 = off1 ∨ longTermOff p rc off1 = p.resetOffset := by
  unfold longTermOff; split <;> try split
  all_goals simp

theorem longTermCount_spec (p : Params) (rc : Int) (off1 : Nat) (h0 : 0 ≤ rc) (hra : 0 < p.resetAfter) :
    0 ≤ longTermCount p rc off1 ∧ longTermCount p rc off1 ≤ p.resetAfter ∧
    (longTermOff p rc off1 = p.resetOffset → longTermCount p rc off1 = 0) ∧
    (longTermOff p rc off1 ≠ p.resetOffset → longTermCount p rc off1 = rc + 1) := by
  unfold longTermCount longTermOff
  split
  · rename_i h; exact ⟨by omega, by omega, fun _ => rfl, fun h' => absurd h h'⟩
  · split
    · exact ⟨by omega, by omega, fun _ => rfl, fun h' => absurd rfl h'⟩
    · rename_i h1 _; exact ⟨by omega, by omega, fun h' => absurd h' h1, fun _ => rfl⟩

theorem stepV_fst (p : Params) (s : St) (v : Nat) :
    (stepV p s v).1 =
      { lastVal := v,
        offset := longTermOff p s.resetCount (shortTerm p s.offset (toInt16 ((v : Int) - s.lastVal))),
        resetCount := longTermCount p s.resetCount (shortTerm p s.offset (toInt16 ((v : Int) - s.lastVal))) } :=
  rfl

/-- One step preserves the invariant. -/
theorem stepV_good (p : Params) (b π : Int) (hv : Valid p b π) (s : St) (hs : Good p s)
    (v : Nat) (hvlt : v < p.twoPi) : Good p (stepV p s v).1 := by
  have hst := shortTerm_mod p s.offset (toInt16 ((v : Int) - s.lastVal)) hv.tp_dvd hv.tp_pos
    hs.off_lt hs.off_mod
  have hc := longTermCount_spec p s.resetCount
    (shortTerm p s.offset (toInt16 ((v : Int) - s.lastVal))) hs.rc_ge hv.ra_pos
  rw [stepV_fst]
  refine ⟨hvlt, ?_, ?_, hc.1, hc.2.1, hc.2.2.1⟩
  · show longTermOff _ _ _ < 65536
    rcases longTermOff_cases p s.resetCount (shortTerm p s.offset (toInt16 ((v : Int) - s.lastVal))) with h | h
    · rw [h]; exact hst.2
    · rw [h]; exact hv.home_lt
  · show longTermOff _ _ _ % p.twoPi = 0
    rcases longTermOff_cases p s.resetCount (shortTerm p s.offset (toInt16 ((v : Int) - s.lastVal))) with h | h
    · rw [h]; exact hst.1
    · rw [h]; exact hv.home_mod

theorem stepV_out (p : Params) (s : St) (v : Nat) :
    (stepV p s v).2 = (v + (stepV p s v).1.offset) % 65536 := rfl

/-- **Output ≡ input modulo one quantum**, one step. -/
theorem stepV_out_mod (p : Params) (b π : Int) (hv : Valid p b π) (s : St) (hs : Good p s)
    (v : Nat) (hvlt : v < p.twoPi) : (stepV p s v).2 % p.twoPi = v % p.twoPi := by
  have hg := stepV_good p b π hv s hs v hvlt
  rw [stepV_out, Nat.mod_mod_of_dvd _ hv.tp_dvd, Nat.add_mod, hg.off_mod, Nat.add_zero, Nat.mod_mod]

/-- every element of `vs` is a valid pre-processed sample -/
def AllLt (t : Nat) (vs : List Nat) : Prop := ∀ v ∈ vs, v < t

theorem runV_good (p : Params) (b π : Int) (hv : Valid p b π) :
    ∀ (vs : List Nat) (s : St), Good p s → AllLt p.twoPi vs → Good p (runV p s vs).1
  | [], s, hs, _ => hs
  | v :: vs, s, hs, hl => by
    unfold runV
    simp only
    exact runV_good p b π hv vs _ (stepV_good p b π hv s hs v (hl v (List.mem_cons_self)))
      (fun x hx => hl x (List.mem_cons_of_mem _ hx))

/-- **C12_output_mod_quantum**: for every input sequence every output sample equals the
(pre-processed) input sample plus an integer number of quanta. -/
theorem C12_output_mod_quantum (p : Params) (b π : Int) (hv : Valid p b π) :
    ∀ (vs : List Nat) (s : St), Good p s → AllLt p.twoPi vs →
      ∀ i (hi : i < vs.length), ∃ hj : i < (runV p s vs).2.length,
        (runV p s vs).2[i] % p.twoPi = vs[i] % p.twoPi
  | [], _, _, _ => fun i hi => absurd hi (Nat.not_lt_zero _)
  | v :: vs, s, hs, hl => by
    intro i hi
    have hv0 := hl v (List.mem_cons_self)
    have htl : AllLt p.twoPi vs := fun x hx => hl x (List.mem_cons_of_mem _ hx)
    cases i with
    | zero =>
      refine ⟨by unfold runV; simp, ?_⟩
      unfold runV
      simpa using stepV_out_mod p b π hv s hs v hv0
    | succ j =>
      have ih := C12_output_mod_quantum p b π hv vs _ (stepV_good p b π hv s hs v hv0) htl j
        (by simpa using hi)
      obtain ⟨hj, hj2⟩ := ih
      refine ⟨by unfold runV; simpa using hj, ?_⟩
      unfold runV
      simpa using hj2

/-- The previous output value carried implicitly by a state. -/
def prevOut (s : St) : Nat := (s.lastVal + s.offset) % 65536

/-- **C12_step_rule**: when the step does not trigger a reset, the output moves by the
input step reduced modulo one quantum into `[bias − π, bias + π]`. -/
theorem C12_step_rule (p : Params) (b π : Int) (hv : Valid p b π) (s : St) (hs : Good p s)
    (v : Nat) (hvlt : v < p.twoPi)
    (hnr : (stepV p s v).1.offset = shortTerm p s.offset (toInt16 ((v : Int) - s.lastVal))) :
    ∃ adj k : Int, adj = ((v : Int) - s.lastVal) + k * p.twoPi ∧ (k = -1 ∨ k = 0 ∨ k = 1) ∧
      b - π ≤ adj ∧ adj ≤ b + π ∧
      ((stepV p s v).2 : Int) = ((prevOut s : Int) + adj) % 65536 := by
  have hlv := hs.lv
  have htp := hv.tp_le
  have hstep : toInt16 ((v : Int) - s.lastVal) = (v : Int) - s.lastVal :=
    toInt16_small _ (by omega) (by omega)
  rw [stepV_out, hnr, hstep]
  have hup := hv.up; have hlo := hv.lo; have hpi := hv.pi2
  have hb1 := hv.bias_le; have hb2 := hv.bias_ge
  have hoff := hs.off_lt
  unfold shortTerm prevOut
  split
  · refine ⟨(v : Int) - s.lastVal - p.twoPi, -1, by omega, by omega, by omega, by omega, ?_⟩
    omega
  · split
    · refine ⟨(v : Int) - s.lastVal + p.twoPi, 1, by omega, by omega, by omega, by omega, ?_⟩
      omega
    · refine ⟨(v : Int) - s.lastVal, 0, by omega, by omega, by omega, by omega, ?_⟩
      omega

/-- **C12_reset_rule** (step form): the counter counts consecutive samples away from the
home offset and never exceeds `resetAfter`; when it would, the offset is back home. -/
theorem C12_reset_rule (p : Params) (b π : Int) (hv : Valid p b π) (s : St) (hs : Good p s)
    (v : Nat) (hvlt : v < p.twoPi) :
    let s' := (stepV p s v).1
    (s'.offset = p.resetOffset → s'.resetCount = 0) ∧
    (s'.offset ≠ p.resetOffset → s'.resetCount = s.resetCount + 1) ∧
    s'.resetCount ≤ p.resetAfter ∧
    (s.resetCount = p.resetAfter → s'.offset = p.resetOffset) := by
  have hg := stepV_good p b π hv s hs v hvlt
  have hc := longTermCount_spec p s.resetCount
    (shortTerm p s.offset (toInt16 ((v : Int) - s.lastVal))) hs.rc_ge hv.ra_pos
  refine ⟨hg.rc_home, ?_, hg.rc_le, ?_⟩
  · rw [stepV_fst]; exact hc.2.2.2
  · intro hrc
    rw [stepV_fst]
    show longTermOff _ _ _ = _
    unfold longTermOff
    split
    · assumption
    · split
      · rfl
      · omega

/-- number of trailing states (most recent first) whose offset is away from home -/
def awayRun (p : Params) : List St → Nat
  | [] => 0
  | s :: r => if s.offset = p.resetOffset then 0 else awayRun p r + 1

/-- the list of states visited, most recent first -/
def trace (p : Params) : St → List Nat → List St → List St
  | _, [], acc => acc
  | s, v :: vs, acc => trace p (stepV p s v).1 vs ((stepV p s v).1 :: acc)

/-- **C12_reset_rule_global**: along any run (started at home) the number of consecutive
samples spent away from the home offset never exceeds `resetAfter`. -/
theorem C12_reset_rule_global (p : Params) (b π : Int) (hv : Valid p b π) :
    ∀ (vs : List Nat) (s : St) (acc : List St), Good p s → AllLt p.twoPi vs →
      (awayRun p acc : Int) = (match acc with | [] => s.resetCount | _ => s.resetCount) →
      (awayRun p (trace p s vs acc) : Int) ≤ p.resetAfter
  | [], s, acc, hs, _, hacc => by
    unfold trace
    have := hs.rc_le
    cases acc <;> simp_all
  | v :: vs, s, acc, hs, hl, hacc => by
    unfold trace
    have hv0 := hl v (List.mem_cons_self)
    have htl : AllLt p.twoPi vs := fun x hx => hl x (List.mem_cons_of_mem _ hx)
    have hg := stepV_good p b π hv s hs v hv0
    have hr := C12_reset_rule p b π hv s hs v hv0
    apply C12_reset_rule_global p b π hv vs _ _ hg htl
    simp only [awayRun]
    split
    · rename_i h; rw [hr.1 h]; rfl
    · rename_i h
      rw [hr.2.1 h]
      have : (awayRun p acc : Int) = s.resetCount := by cases acc <;> simpa using hacc
      omega

/-- **C12_split_independent**: the result does not depend on how the sequence is split
into calls (enabled path): processing `xs ++ ys` in one call equals two calls. -/
theorem runV_append (p : Params) : ∀ (xs ys : List Nat) (s : St),
    runV p s (xs ++ ys) =
      ((runV p (runV p s xs).1 ys).1, (runV p s xs).2 ++ (runV p (runV p s xs).1 ys).2)
  | [], ys, s => by simp [runV]
  | x :: xs, ys, s => by
    simp only [List.cons_append, runV]
    rw [runV_append p xs ys]

theorem C12_split_independent (p : Params) (s : St) (xs ys : List Nat)
    (hen : p.enable = true) (hd : p.drop ≠ 0) :
    unwrapCall p s (xs ++ ys) =
      ((unwrapCall p (unwrapCall p s xs).1 ys).1,
       (unwrapCall p s xs).2 ++ (unwrapCall p (unwrapCall p s xs).1 ys).2) := by
  unfold unwrapCall
  simp [hen, hd, runV_append]

/-- with unwrapping disabled the output is the masked, shifted input, call by call
(so it is split-independent as well) -/
theorem C12_disabled_is_shift (p : Params) (s : St) (xs : List Nat)
    (hen : p.enable = false) (hd : p.drop ≠ 0) :
    (unwrapCall p s xs).2 = xs.map (pre p) := by
  unfold unwrapCall
  simp [hen, hd]

/-- The pre-processed sample is always below one quantum for the parameter sets the
constructor builds (`signMask = 2^fb − 1`, `twoPi = 2^(fb−drop)`). -/
theorem pre_lt (p : Params) (fb : Nat) (hfb : p.drop ≤ fb)
    (hm : p.signMask = 2 ^ fb - 1) (ht : p.twoPi = 2 ^ (fb - p.drop)) (raw : Nat) :
    pre p raw < p.twoPi := by
  unfold pre
  simp only
  rw [ht, Nat.shiftRight_eq_div_pow]
  have h1 : ∀ r : Nat, r &&& p.signMask < 2 ^ fb := by
    intro r
    have : r &&& p.signMask ≤ p.signMask := Nat.and_le_right
    have hpos : 0 < 2 ^ fb := Nat.pow_pos (by decide)
    omega
  have h2 : 2 ^ fb = 2 ^ (fb - p.drop) * 2 ^ p.drop := by
    rw [← Nat.pow_add]; congr 1; omega
  apply Nat.div_lt_of_lt_mul
  rw [Nat.mul_comm, ← h2]
  exact h1 _

/-! ### The constructor builds valid parameters (the two real parameter sets) -/

/-- decidable version of `Valid` + initial `Good`, for concrete parameter sets -/
def validB (p : Params) (s : St) (b π : Int) : Bool :=
  decide (0 < p.twoPi) && decide (65536 % p.twoPi = 0) && decide (p.twoPi ≤ 32768) &&
  decide (2 * π = p.twoPi) && decide (p.upper = b + π) && decide (p.lower = b - π) &&
  decide (b ≤ π) && decide (-π ≤ b) && decide (p.resetOffset % p.twoPi = 0) &&
  decide (p.resetOffset < 65536) && decide (0 < p.resetAfter) &&
  decide (s.lastVal < p.twoPi) && decide (s.offset = p.resetOffset) &&
  decide (s.resetCount = 0)

theorem validB_sound (p : Params) (s : St) (b π : Int) (h : validB p s b π = true) :
    Valid p b π ∧ Good p s := by
  unfold validB at h
  simp only [Bool.and_eq_true, decide_eq_true_eq] at h
  obtain ⟨⟨⟨⟨⟨⟨⟨⟨⟨⟨⟨⟨⟨h1, h2⟩, h3⟩, h4⟩, h5⟩, h6⟩, h7⟩, h8⟩, h9⟩, h10⟩, h11⟩, h12⟩, h13⟩, h14⟩ := h
  refine ⟨⟨h1, Nat.dvd_of_mod_eq_zero h2, h3, h4, h5, h6, h7, h8, h9, h10, h11⟩,
    ⟨h12, by omega, by rw [h13]; exact h9, by omega, by omega, fun _ => h14⟩⟩

/-- Abaco parameters (16 fraction bits, 4 dropped), bias off / +0.38 ϕ0 / −0.38 ϕ0:
the constructor's output satisfies `Valid` and the initial state `Good`. -/
theorem abaco_params_valid :
    (∀ r, mk 16 4 true 0 20000 1 false = some r → validB r.1 r.2 0 2048 = true) ∧
    (∀ r, mk 16 4 true 24904 20000 1 false = some r → validB r.1 r.2 1556 2048 = true) ∧
    (∀ r, mk 16 4 true (-24904) 20000 (-1) false = some r → validB r.1 r.2 (-1557) 2048 = true) := by
  refine ⟨?_, ?_, ?_⟩ <;> intro r h <;> (have h' := h; revert h') <;> decide +revert

/-- Non-vacuity: a concrete reachable state meets the hypotheses of the theorems. -/
example : ∃ p s, mk 16 4 true 24904 20000 1 false = some (p, s) ∧ validB p s 1556 2048 = true := by
  refine ⟨_, _, rfl, ?_⟩
  decide

/-! ### The unwrappers as an Abaco channel group wires them -/

theorem mk_abaco_enabled (B : Int) (reset sign : Int) (inv : Bool) (hra : 0 < reset) :
    mk 16 4 true B reset sign inv =
      some ({ drop := 4, enable := true, invert := inv, signMask := 65535, twoPi := 4096,
              upper := toInt16 (Int.tmod (toInt16 (B >>> 4)) 4096 + 2048),
              lower := toInt16 (Int.tmod (toInt16 (B >>> 4)) 4096 - 2048),
              resetAfter := reset, resetOffset := if sign > 0 then 4096 else 57344 },
            { lastVal := 0, offset := if sign > 0 then 4096 else 57344, resetCount := 0 }) := by
  unfold mk
  have h1 : ¬ reset ≤ 0 := by omega
  have e1 : toInt16 ((2 : Int) ^ (16 - 4 - 1)) = 2048 := by decide
  have e3 : shl16 (16 - 4) = 4096 := by decide
  have e4 : toInt16 4096 = 4096 := by decide
  simp only [e1, e3, h1]
  simp [e4]

/-- **the unwrappers a channel group builds**: for every option set that enables unwrapping (the
options `isvalid` accepts: `Unwrap → RescaleRaw`; a positive reset interval), every group position
and every channel of the group, `NewAbacoGroup` builds valid parameters and a good initial state:
quantum 2^12, limits `bias ± 2^11` with the bias 0 or ±0.38 ϕ0 by `Bias` and the pulse sign, and the
channel is inverted iff its channel NUMBER `first + i` is listed in `InvertChan`. -/
theorem group_params_valid (o : GOpts) (first i : Nat) (hu : o.unwrap = true) (hr : o.rescale = true)
    (hra : 0 < o.reset) :
    ∃ p s b, groupMk o first i = some (p, s) ∧ Valid p b 2048 ∧ Good p s ∧
      p.invert = o.inv.contains (first + i) ∧ p.drop = 4 ∧ p.enable = true ∧ p.signMask = 65535 ∧
      p.twoPi = 4096 ∧
      (b = if o.bias then (if o.sign < 0 then -1557 else 1556) else 0) := by
  unfold groupMk
  rw [hu, hr, if_pos rfl, mk_abaco_enabled _ _ _ _ hra]
  refine ⟨_, _, _, rfl, ?_, ?_, rfl, rfl, rfl, rfl, rfl, rfl⟩
  · unfold abacoBias
    constructor <;> (try simp only) <;> (try split) <;> (try split) <;> (try decide) <;> (try omega)
  · constructor <;> simp only <;> (try split) <;> (try omega) <;> (try decide)

/-- any number of calls: with unwrapping enabled the outputs of the calls, concatenated, are the
outputs of one call on the concatenated input (`C12_split_independent` for every split) -/
theorem runCalls_flatten (p : Params) (hen : p.enable = true) (hd : p.drop ≠ 0) :
    ∀ (cs : List (List Nat)) (s : St),
      (runCalls p s cs).2.flatten = (runV p s (cs.flatten.map (pre p))).2
  | [], s => by simp [runCalls, runV]
  | c :: cs, s => by
    simp only [runCalls, List.flatten_cons, List.map_append, runV_append]
    rw [runCalls_flatten p hen hd cs]
    unfold unwrapCall
    simp [hen, hd]

/-- **C12 for a channel group** (`NewAbacoGroup` + `demuxData`, any number of calls, any packet
payloads): with unwrapping enabled, every output sample of every channel equals that channel's input
sample — inverted iff the channel's number is listed, masked and with 4 bits dropped — plus a whole
number of quanta (2^12). -/
theorem C12_group_output_mod_quantum (o : GOpts) (first nch i : Nat) (wide : Bool) (calls : List (List Int))
    (hu : o.unwrap = true) (hr : o.rescale = true) (hra : 0 < o.reset) :
    ∃ outs, groupChan o first nch i wide calls = some outs ∧
      let ins := (calls.map (demuxChan nch i wide)).flatten
      outs.flatten.length = ins.length ∧
      ∀ k (hk : k < ins.length) (hk' : k < outs.flatten.length),
        outs.flatten[k] % 4096 =
          ((((if o.inv.contains (first + i) then ins[k] ^^^ 65535 else ins[k]) &&& 65535) >>> 4)) % 4096 := by
  obtain ⟨p, s, b, hmk, hv, hg, hinv, hdrop, hen, hmask, htp, _⟩ := group_params_valid o first i hu hr hra
  refine ⟨_, by unfold groupChan; rw [hmk]; rfl, ?_⟩
  simp only
  have hd : p.drop ≠ 0 := by omega
  rw [runCalls_flatten p hen hd]
  have hall : AllLt p.twoPi ((calls.map (demuxChan nch i wide)).flatten.map (pre p)) := by
    intro v hv'
    obtain ⟨raw, _, rfl⟩ := List.mem_map.mp hv'
    exact pre_lt p 16 (by omega) (by rw [hmask]) (by rw [htp, hdrop]) raw
  have hmain := C12_output_mod_quantum p b 2048 hv _ s hg hall
  have hlen : (runV p s ((calls.map (demuxChan nch i wide)).flatten.map (pre p))).2.length =
      (calls.map (demuxChan nch i wide)).flatten.length := by
    have : ∀ (vs : List Nat) (s : St), (runV p s vs).2.length = vs.length := by
      intro vs
      induction vs with
      | nil => intro s; simp [runV]
      | cons v vs ih => intro s; simp [runV, ih]
    rw [this, List.length_map]
  refine ⟨hlen, ?_⟩
  intro k hk hk'
  obtain ⟨hj, heq⟩ := hmain k (by rw [List.length_map]; exact hk)
  rw [htp] at heq
  rw [heq]
  simp only [List.getElem_map, pre, hinv, hmask, hdrop]

/-- Non-vacuity: a group that does not start at channel 0, with one listed channel number inside it
and one listed number that is only an index within the group; the hypotheses hold and channel number
9 (index 1) is inverted while index 1 as a number (channel 1) is not in the group at all. -/
example :
    let o : GOpts := { rescale := true, unwrap := true, bias := true, reset := 3, sign := -1, inv := [9, 0] }
    o.unwrap = true ∧ o.rescale = true ∧ 0 < o.reset ∧
    groupChan o 8 2 1 false [[100, 200, 300, 400], [500, 600]] = some [[57331, 57318], [57306]] ∧
    groupChan o 8 2 0 false [[100, 200, 300, 400], [500, 600]] = some [[57350, 57362], [57375]] := by
  decide

end DastardV.C12

namespace DastardV.C12

/-- `RoachDevice.samplePacket`'s constructor call, evaluated -/
theorem roachMk_eq (bias : Bool) (sign : Int) :
    roachMk bias sign = some
      ({ drop := 2, enable := true, invert := false, signMask := 16383, twoPi := 4096,
         upper := (if bias then (if sign < 0 then -1557 else 1556) else 0) + 2048,
         lower := (if bias then (if sign < 0 then -1557 else 1556) else 0) - 2048,
         resetAfter := 20000, resetOffset := if sign > 0 then 4096 else 57344 },
       { lastVal := 0, offset := if sign > 0 then 4096 else 57344, resetCount := 0 }) := by
  unfold roachMk roachBias mk
  cases bias <;> by_cases hs : sign < 0 <;> by_cases hp : sign > 0 <;>
    simp only [hs, hp, if_true, if_false, Bool.false_eq_true] <;> first | rfl | decide | omega

/-- **the parameters of a ROACH channel's unwrapper are valid for every option set**: quantum 2^12 (14 fraction
bits, 2 dropped), limits `bias ± 2^11` with the bias 0 or ±0.38 ϕ0 — within half a quantum, which is what the
step rule needs (`C12_step_rule`, `C12_reset_rule_global` apply).  With the bias level of `calcBiasLevel` taken
unscaled (2^16 per ϕ0, as the code did before the repair) the reduced bias is 2130 > 2^11 and this fails. -/
theorem roach_params_valid (bias : Bool) (sign : Int) :
    ∃ p s b, roachMk bias sign = some (p, s) ∧ Valid p b 2048 ∧ Good p s ∧
      p.invert = false ∧ p.drop = 2 ∧ p.enable = true ∧ p.twoPi = 4096 ∧ p.resetAfter = 20000 ∧
      (b = if bias then (if sign < 0 then -1557 else 1556) else 0) := by
  refine ⟨_, _, _, roachMk_eq bias sign, ?_, ?_, rfl, rfl, rfl, rfl, rfl, rfl⟩
  · constructor <;> (try simp only) <;> (try split) <;> (try split) <;> (try decide) <;> (try omega)
  · constructor <;> simp only <;> (try split) <;> (try omega) <;> (try decide)

theorem runV_length (p : Params) : ∀ (vs : List Nat) (s : St), (runV p s vs).2.length = vs.length
  | [], s => by simp [runV]
  | v :: vs, s => by simp [runV, runV_length p vs]

/-- one channel of a ROACH device over its data blocks -/
def roachChan (bias : Bool) (sign : Int) (blocks : List (List Nat)) : Option (List (List Nat)) :=
  (roachMk bias sign).map fun (p, s) => (runCalls p s blocks).2

/-- **C12 for a ROACH channel** (`samplePacket` + `readPackets`, any option set, any sequence of data blocks of
any lengths): every output sample equals the input sample, masked to 14 bits and with 2 bits dropped, plus a
whole number of quanta (2^12); and the concatenated output does not depend on how the stream was cut into
blocks (`runCalls_flatten`). -/
theorem C12_roach_output_mod_quantum (bias : Bool) (sign : Int) (blocks : List (List Nat)) :
    ∃ outs, roachChan bias sign blocks = some outs ∧
      outs.flatten.length = blocks.flatten.length ∧
      (∀ k (hk : k < blocks.flatten.length) (hk' : k < outs.flatten.length),
        outs.flatten[k] % 4096 = ((blocks.flatten[k] &&& 16383) >>> 2) % 4096) ∧
      (∀ blocks', blocks'.flatten = blocks.flatten →
        ∃ outs', roachChan bias sign blocks' = some outs' ∧ outs'.flatten = outs.flatten) := by
  have hmk := roachMk_eq bias sign
  obtain ⟨p, s, b, hmk', hv, hg, _, hdrop, hen, htp, _, _⟩ := roach_params_valid bias sign
  have hmask : p.signMask = 16383 := by
    rw [hmk] at hmk'
    have := (Option.some.inj hmk')
    rw [← (Prod.mk.inj this).1]
  have hinv : p.invert = false := by
    rw [hmk] at hmk'
    have := (Option.some.inj hmk')
    rw [← (Prod.mk.inj this).1]
  have hd : p.drop ≠ 0 := by omega
  refine ⟨(runCalls p s blocks).2, by unfold roachChan; rw [hmk']; rfl, ?_, ?_, ?_⟩
  · rw [runCalls_flatten p hen hd, runV_length, List.length_map]
  · intro k hk hk'
    have hall : AllLt p.twoPi (blocks.flatten.map (pre p)) := by
      intro v hv'
      obtain ⟨raw, _, rfl⟩ := List.mem_map.mp hv'
      exact pre_lt p 14 (by omega) (by rw [hmask]) (by rw [htp, hdrop]) raw
    obtain ⟨hj, heq⟩ := C12_output_mod_quantum p b 2048 hv _ s hg hall k (by rw [List.length_map]; exact hk)
    have hfl : (runCalls p s blocks).2.flatten = (runV p s (blocks.flatten.map (pre p))).2 :=
      runCalls_flatten p hen hd blocks s
    simp only [hfl]
    rw [htp] at heq
    rw [heq]
    simp only [List.getElem_map, pre, hinv, hmask, hdrop, Bool.false_eq_true, if_false]
  · intro blocks' hfl
    refine ⟨(runCalls p s blocks').2, by unfold roachChan; rw [hmk']; rfl, ?_⟩
    rw [runCalls_flatten p hen hd, runCalls_flatten p hen hd, hfl]

/-- the unscaled bias level is NOT within half a quantum: limits 82 .. 4178, i.e. a reduced bias of 2130 > 2048 -/
example : (mk 14 2 true 24904 20000 1 false).map (fun x => (x.1.lower, x.1.upper)) = some (82, 4178) := by decide

end DastardV.C12
