/-
C05 — output files (LJH 2.2, LJH 3, OFF) are well-formed and hold exactly the records.
Property theorems over `Model/C05.lean` (helper lemmas in `Lemmas/C05*.lean`).
-/
import DastardV.Lemmas.C05Records
import DastardV.Lemmas.C05Pub
import DastardV.Lemmas.C05Header
namespace DastardV.C05

/-! ## 1. every record reads back (all lengths, all values, incl. extremes) -/

/-- **ljh22_roundtrip**: the reader written from doc/LJH.md (L = record length, M = 2) applied to
the bytes `ljh.Writer.WriteRecord` produces — followed by anything — returns the record's fields
(sub-frame count and microsecond time as 64-bit images, every sample) and exactly the rest. -/
theorem ljh22_roundtrip (subdiv suboff : Int) (r : W22) (rest : Bytes) :
    parseLJH22 r.data.length 2 (encodeLJH22 subdiv suboff r ++ rest) = some (expect22 subdiv suboff r, rest) :=
  ljh22_read subdiv suboff r rest

theorem c64 : ((256 ^ 8 : Nat) : Int) = 18446744073709551616 := by decide
theorem c32 : ((256 ^ 4 : Nat) : Int) = 4294967296 := by decide

/-- inside the int64 / 16-bit ranges the values are recovered exactly -/
theorem ljh22_exact (subdiv suboff : Int) (r : W22)
    (hs : -(2 ^ 63) ≤ r.frame * subdiv + suboff ∧ r.frame * subdiv + suboff < 2 ^ 63)
    (ht : -(2 ^ 63) ≤ r.ts ∧ r.ts < 2 ^ 63) (hd : ∀ x ∈ r.data, x < 65536) :
    ∃ a, parseLJH22 r.data.length 2 (encodeLJH22 subdiv suboff r) = some (a, []) ∧
      toSigned 8 a.subframe = r.frame * subdiv + suboff ∧ toSigned 8 a.timeUs = r.ts ∧ a.samples = r.data := by
  refine ⟨expect22 subdiv suboff r, ?_, ?_, ?_, ?_⟩
  · simpa using ljh22_roundtrip subdiv suboff r []
  · exact toSigned_twos 8 _ (by rw [c64]; omega) (by rw [c64]; omega)
  · exact toSigned_twos 8 _ (by rw [c64]; omega) (by rw [c64]; omega)
  · exact map_mod_id 65536 r.data hd

/-- **ljh3_roundtrip** (variable length; the length field is an int32, so below 2^31 samples) -/
theorem ljh3_roundtrip (r : W3) (hlen : r.data.length < 2 ^ 31) (rest : Bytes) :
    parseLJH3 (encodeLJH3 r ++ rest) = some (expect3 r, rest) :=
  ljh3_read r hlen rest

theorem ljh3_exact (r : W3) (hlen : r.data.length < 2 ^ 31)
    (hf : -(2 ^ 63) ≤ r.frame ∧ r.frame < 2 ^ 63) (ht : -(2 ^ 63) ≤ r.ts ∧ r.ts < 2 ^ 63)
    (hr : -(2 ^ 31) ≤ r.frs ∧ r.frs < 2 ^ 31) (hd : ∀ x ∈ r.data, x < 65536) :
    ∃ a, parseLJH3 (encodeLJH3 r) = some (a, []) ∧ a.nsamp = r.data.length ∧
      toSigned 4 a.frs = r.frs ∧ toSigned 8 a.frame = r.frame ∧ toSigned 8 a.timeUs = r.ts ∧
      a.samples = r.data := by
  refine ⟨expect3 r, ?_, rfl, ?_, ?_, ?_, ?_⟩
  · simpa using ljh3_roundtrip r hlen []
  · exact toSigned_twos 4 _ (by rw [c32]; omega) (by rw [c32]; omega)
  · exact toSigned_twos 8 _ (by rw [c64]; omega) (by rw [c64]; omega)
  · exact toSigned_twos 8 _ (by rw [c64]; omega) (by rw [c64]; omega)
  · exact map_mod_id 65536 r.data hd

/-- **off_roundtrip** (0.3.0 layout: pretrigger delta at bytes 28-31) -/
theorem off_roundtrip (r : WO) (rest : Bytes) :
    parseOFF r.coefs.length (encodeOFF r ++ rest) = some (expectOFF r, rest) :=
  off_read r rest

theorem off_exact (r : WO)
    (hn : -(2 ^ 31) ≤ r.nsamp ∧ r.nsamp < 2 ^ 31) (hp : -(2 ^ 31) ≤ r.npre ∧ r.npre < 2 ^ 31)
    (hf : -(2 ^ 63) ≤ r.frame ∧ r.frame < 2 ^ 63) (ht : -(2 ^ 63) ≤ r.ts ∧ r.ts < 2 ^ 63)
    (hb : r.ptm < 2 ^ 32 ∧ r.pd < 2 ^ 32 ∧ r.resid < 2 ^ 32) (hc : ∀ x ∈ r.coefs, x < 2 ^ 32) :
    ∃ a, parseOFF r.coefs.length (encodeOFF r) = some (a, []) ∧
      toSigned 4 a.nsamp = r.nsamp ∧ toSigned 4 a.npre = r.npre ∧ toSigned 8 a.frame = r.frame ∧
      toSigned 8 a.timeNs = r.ts ∧ a.ptm = r.ptm ∧ a.pdelta = r.pd ∧ a.resid = r.resid ∧ a.coefs = r.coefs := by
  refine ⟨expectOFF r, ?_, ?_, ?_, ?_, ?_, ?_, ?_, ?_, ?_⟩
  · simpa using off_roundtrip r []
  · exact toSigned_twos 4 _ (by rw [c32]; omega) (by rw [c32]; omega)
  · exact toSigned_twos 4 _ (by rw [c32]; omega) (by rw [c32]; omega)
  · exact toSigned_twos 8 _ (by rw [c64]; omega) (by rw [c64]; omega)
  · exact toSigned_twos 8 _ (by rw [c64]; omega) (by rw [c64]; omega)
  · exact Nat.mod_eq_of_lt hb.1
  · exact Nat.mod_eq_of_lt hb.2.1
  · exact Nat.mod_eq_of_lt hb.2.2
  · exact map_mod_id (2 ^ 32) r.coefs hc

/-- non-vacuity: an ordinary and an extreme record satisfy the guards -/
example : ∃ r : W22, (-(2 ^ 63) ≤ r.frame * 64 + 3 ∧ r.frame * 64 + 3 < 2 ^ 63) ∧ r.data = [0, 65535, 32768] :=
  ⟨{ frame := 2 ^ 56, ts := 0, data := [0, 65535, 32768] }, by decide, rfl⟩

/-- **the layout comment of off/off.go was stale** (documentation defect, not a file defect): read
with the layout the comment gave before it was corrected (no pretrigger-delta field, coefficients
from byte 32) a 0.3.0 record does not come back: the residual is not where the comment says. -/
theorem off_comment_layout_is_stale :
    ∃ r : WO, parseOFFComment r.coefs.length (encodeOFF r) ≠ some ({ expectOFF r with pdelta := 0 }, []) ∧
      parseOFF r.coefs.length (encodeOFF r) = some (expectOFF r, []) := by
  refine ⟨{ nsamp := 4, npre := 1, frame := 7, ts := 9, ptm := 1, pd := 2, resid := 3, coefs := [5] }, ?_, ?_⟩
  · decide
  · decide

/-! ## 2. bodies: a concatenation of records parses back to exactly that list -/

/-- **body_parse_concat** (LJH 2.2; all records of the file have the header's length `L`) -/
theorem body_parse_concat_ljh22 (subdiv suboff : Int) (L : Nat) (rs : List W22)
    (hL : ∀ r ∈ rs, r.data.length = L) :
    parseBody (parseLJH22 L 2) (rs.flatMap (encodeLJH22 subdiv suboff)) = some (rs.map (expect22 subdiv suboff)) := by
  unfold parseBody
  exact parseMany_concat _ _ _ rs (fun r hr rest => by rw [← hL r hr]; exact ljh22_read subdiv suboff r rest)
    (fun r _ => encodeLJH22_ne_nil subdiv suboff r) _ (Nat.le_refl _)

theorem body_parse_concat_ljh3 (rs : List W3) (hlen : ∀ r ∈ rs, r.data.length < 2 ^ 31) :
    parseBody parseLJH3 (rs.flatMap encodeLJH3) = some (rs.map expect3) := by
  unfold parseBody
  exact parseMany_concat _ _ _ rs (fun r hr rest => ljh3_read r (hlen r hr) rest)
    (fun r _ => encodeLJH3_ne_nil r) _ (Nat.le_refl _)

theorem body_parse_concat_off (nb : Nat) (rs : List WO) (hnb : ∀ r ∈ rs, r.coefs.length = nb) :
    parseBody (parseOFF nb) (rs.flatMap encodeOFF) = some (rs.map expectOFF) := by
  unfold parseBody
  exact parseMany_concat _ _ _ rs (fun r hr rest => by rw [← hnb r hr]; exact off_read r rest)
    (fun r _ => encodeOFF_ne_nil r) _ (Nat.le_refl _)

/-- **body_parse_unique**: two record lists with the same body bytes have the same fields, record
by record (the body determines the list) -/
theorem body_parse_unique_ljh22 (subdiv suboff : Int) (L : Nat) (rs rs' : List W22)
    (hL : ∀ r ∈ rs, r.data.length = L) (hL' : ∀ r ∈ rs', r.data.length = L)
    (h : rs.flatMap (encodeLJH22 subdiv suboff) = rs'.flatMap (encodeLJH22 subdiv suboff)) :
    rs.map (expect22 subdiv suboff) = rs'.map (expect22 subdiv suboff) := by
  have h1 := body_parse_concat_ljh22 subdiv suboff L rs hL
  have h2 := body_parse_concat_ljh22 subdiv suboff L rs' hL'
  rw [h, h2] at h1
  exact (Option.some.inj h1).symm

theorem body_parse_unique_ljh3 (rs rs' : List W3)
    (hl : ∀ r ∈ rs, r.data.length < 2 ^ 31) (hl' : ∀ r ∈ rs', r.data.length < 2 ^ 31)
    (h : rs.flatMap encodeLJH3 = rs'.flatMap encodeLJH3) : rs.map expect3 = rs'.map expect3 := by
  have h1 := body_parse_concat_ljh3 rs hl
  have h2 := body_parse_concat_ljh3 rs' hl'
  rw [h, h2] at h1
  exact (Option.some.inj h1).symm

theorem body_parse_unique_off (nb : Nat) (rs rs' : List WO)
    (hn : ∀ r ∈ rs, r.coefs.length = nb) (hn' : ∀ r ∈ rs', r.coefs.length = nb)
    (h : rs.flatMap encodeOFF = rs'.flatMap encodeOFF) : rs.map expectOFF = rs'.map expectOFF := by
  have h1 := body_parse_concat_off nb rs hn
  have h2 := body_parse_concat_off nb rs' hn'
  rw [h, h2] at h1
  exact (Option.some.inj h1).symm

theorem sum_const {α} (ps : List α) (s : Nat) : (ps.map (fun _ => s)).sum = ps.length * s := by
  induction ps with
  | nil => simp
  | cons p ps ih => simp only [List.map_cons, List.sum_cons, List.length_cons, ih, Nat.succ_mul]; omega

/-- **a body that parses has length = Σ record sizes** (for ANY bytes): nothing is left over -/
theorem body_length_ljh22 (L M : Nat) (bs : Bytes) (ps : List R22) (h : parseBody (parseLJH22 L M) bs = some ps) :
    bs.length = ps.length * (16 + L * M) := by
  have := parseMany_length (parseLJH22 L M) (fun _ => 16 + L * M)
    (fun bs a rest hp => (parseLJH22_consumes L M bs a rest hp).1) _ bs ps h
  rw [this, sum_const]

theorem body_length_ljh3 (bs : Bytes) (ps : List R3) (h : parseBody parseLJH3 bs = some ps) :
    bs.length = (ps.map (fun a => 24 + 2 * a.nsamp)).sum :=
  parseMany_length parseLJH3 (fun a => 24 + 2 * a.nsamp)
    (fun bs a rest hp => (parseLJH3_consumes bs a rest hp).1) _ bs ps h

theorem body_length_off (nb : Nat) (bs : Bytes) (ps : List ROff) (h : parseBody (parseOFF nb) bs = some ps) :
    bs.length = ps.length * (36 + 4 * nb) := by
  have := parseMany_length (parseOFF nb) (fun _ => 36 + 4 * nb)
    (fun bs a rest hp => (parseOFF_consumes nb bs a rest hp).1) _ bs ps h
  rw [this, sum_const]

/-- **a trailing partial record is rejected** -/
theorem body_partial_rejected_ljh22 (subdiv suboff : Int) (L : Nat) (rs : List W22)
    (hL : ∀ r ∈ rs, r.data.length = L) (tail : Bytes) (h0 : tail ≠ []) (h1 : tail.length < 16 + L * 2) :
    parseBody (parseLJH22 L 2) (rs.flatMap (encodeLJH22 subdiv suboff) ++ tail) = none := by
  unfold parseBody
  exact parseMany_partial _ _ (expect22 subdiv suboff) rs
    (fun r hr rest => by rw [← hL r hr]; exact ljh22_read subdiv suboff r rest)
    (fun r _ => encodeLJH22_ne_nil subdiv suboff r) tail h0 (parseLJH22_short L 2 tail h1) _

theorem body_partial_rejected_ljh3 (rs : List W3) (hlen : ∀ r ∈ rs, r.data.length < 2 ^ 31)
    (r : W3) (hr : r.data.length < 2 ^ 31) (k : Nat) (hk0 : 0 < k) (hk : k < (encodeLJH3 r).length) :
    parseBody parseLJH3 (rs.flatMap encodeLJH3 ++ (encodeLJH3 r).take k) = none := by
  unfold parseBody
  refine parseMany_partial _ _ expect3 rs (fun q hq rest => ljh3_read q (hlen q hq) rest)
    (fun q _ => encodeLJH3_ne_nil q) _ ?_ (parseLJH3_prefix r hr k hk) _
  intro h
  have : ((encodeLJH3 r).take k).length = k := by rw [List.length_take]; omega
  rw [h] at this
  simp at this
  omega

theorem body_partial_rejected_off (nb : Nat) (rs : List WO) (hnb : ∀ r ∈ rs, r.coefs.length = nb)
    (tail : Bytes) (h0 : tail ≠ []) (h1 : tail.length < 36 + 4 * nb) :
    parseBody (parseOFF nb) (rs.flatMap encodeOFF ++ tail) = none := by
  unfold parseBody
  exact parseMany_partial _ _ expectOFF rs (fun r hr rest => by rw [← hnb r hr]; exact off_read r rest)
    (fun r _ => encodeOFF_ne_nil r) tail h0 (parseOFF_short nb tail h1) _

/-! ## 3. the file after STOP, for all interleavings of start / publish / flush / pause / unpause / stop -/

variable {ρ : Type}

/-- **C05_file_is_header_plus_records**: for every format (header, acceptance test, encoder), and
every history of operations that ends with the writer stopped, the file is exactly
`header ++ encodings of the records accepted while active and unpaused, in order` — and there is no
file when no non-empty batch was published while writing. -/
theorem C05_file_is_header_plus_records (F : Fmt ρ) (ops : List (Op ρ))
    (hstop : (run F {} ops).ctl.phase = .stopped) :
    fileOf (run F {} ops) =
      if touched {} ops then some (F.header ++ (accepted F {} ops).flatMap F.enc) else none := by
  have g := good_run F ops {} [] false (good_init F)
  simp only [List.nil_append, Bool.false_or] at g
  have hp := g.stopped_flushed hstop
  have hc := g.content
  rw [hp, List.append_nil] at hc
  unfold fileOf
  rw [g.created_eq, hc]
  cases touched ({} : Ctl) ops <;> simp

/-- the file length is the header length plus the sum of the record sizes: no partial record -/
theorem C05_file_length (F : Fmt ρ) (ops : List (Op ρ)) (hstop : (run F {} ops).ctl.phase = .stopped)
    (file : Bytes) (hfile : fileOf (run F {} ops) = some file) :
    file.length = F.header.length + ((accepted F {} ops).map (fun r => (F.enc r).length)).sum := by
  rw [C05_file_is_header_plus_records F ops hstop] at hfile
  split at hfile
  · simp only [Option.some.injEq] at hfile
    subst hfile
    simp [List.length_flatMap]
  · simp at hfile

/-- at EVERY moment (stopped or not) the bytes in the file are a prefix of header ++ accepted
records, and the file exists iff a non-empty batch got through -/
theorem C05_disk_is_prefix (F : Fmt ρ) (ops : List (Op ρ)) :
    (run F {} ops).f.created = touched {} ops ∧
    (run F {} ops).f.disk ++ (run F {} ops).f.pending =
      if touched {} ops then F.header ++ (accepted F {} ops).flatMap F.enc else [] := by
  have g := good_run F ops {} [] false (good_init F)
  simp only [List.nil_append, Bool.false_or] at g
  exact ⟨g.created_eq, g.content⟩

/-- non-vacuity: a history with publishes before START, while paused, after STOP; the hypothesis
holds and the file is header ++ the two records accepted while writing -/
example :
    let F : Fmt Nat := { header := [1, 2], accept := fun r => r != 0, enc := fun r => [r, r], stopAtReject := false }
    let ops : List (Op Nat) := [.publish [9], .start true true, .publish [], .publish [5, 0, 6], .flush, .pause,
      .publish [7], .unpause, .stop, .publish [8]]
    (run F {} ops).ctl.phase = .stopped ∧ fileOf (run F {} ops) = some [1, 2, 5, 5, 6, 6] := by
  decide

theorem mem_takeWhile_sub {α} (q : α → Bool) (l : List α) (r : α) (hr : r ∈ l.takeWhile q) :
    r ∈ l ∧ q r = true := by
  induction l with
  | nil => simp at hr
  | cons x xs ih =>
    simp only [List.takeWhile_cons] at hr
    split at hr
    · simp only [List.mem_cons] at hr
      rcases hr with rfl | hr
      · exact ⟨by simp, by assumption⟩
      · exact ⟨by simp [(ih hr).1], (ih hr).2⟩
    · simp at hr

theorem taken_sub (F : Fmt ρ) (batch : List ρ) : ∀ r ∈ taken F batch, r ∈ batch ∧ F.accept r = true := by
  intro r hr
  unfold taken at hr
  split at hr
  · exact mem_takeWhile_sub _ _ _ hr
  · simpa [List.mem_filter] using hr

/-- every accepted record was published in some batch and passed the writer's test -/
theorem accepted_sub (F : Fmt ρ) (ops : List (Op ρ)) (c : Ctl) :
    ∀ r ∈ accepted F c ops, F.accept r = true ∧ ∃ b, Op.publish b ∈ ops ∧ r ∈ b := by
  induction ops generalizing c with
  | nil => intro r hr; simp [accepted] at hr
  | cons op ops ih =>
    intro r hr
    simp only [accepted, List.mem_append] at hr
    rcases hr with hr | hr
    · cases op with
      | publish b =>
        simp only [accStep] at hr
        split at hr
        · have := taken_sub F b r hr
          exact ⟨this.2, b, by simp, this.1⟩
        · simp at hr
      | _ => simp [accStep] at hr
    · obtain ⟨h1, b, hb, hrb⟩ := ih _ r hr
      exact ⟨h1, b, by simp [hb], hrb⟩

/-- **C05_body_parses_back (LJH 2.2)**: after STOP the body of the channel's LJH 2.2 file, read
with the doc-derived reader and the header's record length, is exactly the accepted records, and
the file length is header + count × (16 + 2·L). -/
theorem C05_body_parses_back_ljh22 (p : Params) (hdr : Bytes) (ops : List (Op W22))
    (hstop : (run (fmt22 p hdr) {} ops).ctl.phase = .stopped) (ht : touched {} ops = true) :
    ∃ file, fileOf (run (fmt22 p hdr) {} ops) = some file ∧ file.take hdr.length = hdr ∧
      parseBody (parseLJH22 p.nsamp.toNat 2) (file.drop hdr.length) =
        some ((accepted (fmt22 p hdr) {} ops).map (expect22 p.subdiv p.suboff)) ∧
      file.length = hdr.length + (accepted (fmt22 p hdr) {} ops).length * (16 + p.nsamp.toNat * 2) := by
  have hf := C05_file_is_header_plus_records (fmt22 p hdr) ops hstop
  rw [ht] at hf
  simp only [if_true] at hf
  have hL : ∀ r ∈ accepted (fmt22 p hdr) {} ops, r.data.length = p.nsamp.toNat := by
    intro r hr
    have := (accepted_sub (fmt22 p hdr) ops {} r hr).1
    simp only [fmt22, beq_iff_eq] at this
    omega
  refine ⟨_, hf, ?_, ?_, ?_⟩
  · exact List.take_left' rfl
  · have hd : ∀ X : Bytes, List.drop hdr.length ((fmt22 p hdr).header ++ X) = X := fun X => List.drop_left' rfl
    rw [hd]
    exact body_parse_concat_ljh22 p.subdiv p.suboff _ _ hL
  · have := body_length_ljh22 _ 2 _ _ (body_parse_concat_ljh22 p.subdiv p.suboff _ _ hL)
    simp only [fmt22, List.length_append, List.length_map] at this ⊢
    omega

theorem C05_body_parses_back_ljh3 (hdr : Bytes) (ops : List (Op W3))
    (hlen : ∀ b, Op.publish b ∈ ops → ∀ r ∈ b, r.data.length < 2 ^ 31)
    (hstop : (run (fmt3 hdr) {} ops).ctl.phase = .stopped) (ht : touched {} ops = true) :
    ∃ file, fileOf (run (fmt3 hdr) {} ops) = some file ∧ file.take hdr.length = hdr ∧
      parseBody parseLJH3 (file.drop hdr.length) = some ((accepted (fmt3 hdr) {} ops).map expect3) ∧
      file.length = hdr.length + ((accepted (fmt3 hdr) {} ops).map (fun r => 24 + 2 * r.data.length)).sum := by
  have hf := C05_file_is_header_plus_records (fmt3 hdr) ops hstop
  rw [ht] at hf
  simp only [if_true] at hf
  have hL : ∀ r ∈ accepted (fmt3 hdr) {} ops, r.data.length < 2 ^ 31 := by
    intro r hr
    obtain ⟨_, b, hb, hrb⟩ := accepted_sub (fmt3 hdr) ops {} r hr
    exact hlen b hb r hrb
  refine ⟨_, hf, ?_, ?_, ?_⟩
  · exact List.take_left' rfl
  · have hd : ∀ X : Bytes, List.drop hdr.length ((fmt3 hdr).header ++ X) = X := fun X => List.drop_left' rfl
    rw [hd]
    exact body_parse_concat_ljh3 _ hL
  · simp only [fmt3, List.length_append, List.length_flatMap, encodeLJH3_length]

theorem C05_body_parses_back_off (p : Params) (hdr : Bytes) (ops : List (Op WO))
    (hstop : (run (fmtOff p hdr) {} ops).ctl.phase = .stopped) (ht : touched {} ops = true) :
    ∃ file, fileOf (run (fmtOff p hdr) {} ops) = some file ∧ file.take hdr.length = hdr ∧
      parseBody (parseOFF p.projR) (file.drop hdr.length) = some ((accepted (fmtOff p hdr) {} ops).map expectOFF) ∧
      file.length = hdr.length + (accepted (fmtOff p hdr) {} ops).length * (36 + 4 * p.projR) := by
  have hf := C05_file_is_header_plus_records (fmtOff p hdr) ops hstop
  rw [ht] at hf
  simp only [if_true] at hf
  have hL : ∀ r ∈ accepted (fmtOff p hdr) {} ops, r.coefs.length = p.projR := by
    intro r hr
    have := (accepted_sub (fmtOff p hdr) ops {} r hr).1
    simpa [fmtOff] using this
  refine ⟨_, hf, ?_, ?_, ?_⟩
  · exact List.take_left' rfl
  · have hd : ∀ X : Bytes, List.drop hdr.length ((fmtOff p hdr).header ++ X) = X := fun X => List.drop_left' rfl
    rw [hd]
    exact body_parse_concat_off _ _ hL
  · have := body_length_off _ _ _ (body_parse_concat_off p.projR _ hL)
    simp only [fmtOff, List.length_append, List.length_map] at this ⊢
    omega

/-! ## 4. headers -/

/-- the text of every header value, given the texts Go's float / date formatting produced -/
def header22Text (p : Params) (dt : Bytes → Bytes) : List (Bytes × Bytes) :=
  (header22 p).map (fun kv => (kv.1, match kv.2 with
    | .txt v => v
    | _ => dt kv.1))

/-- **C05_header_fields** (LJH 2.2): if the channel's strings contain no line break, then for every
text the float / date formatting may produce (without line break) the reader written from
doc/LJH.md finds the end of the header exactly (whatever the first body bytes are) and returns
every key with the channel's value: record length, pre-trigger length, channel identity, geometry
and sub-frame parameters, word size, … in the order written. -/
theorem C05_header_fields (p : Params) (dt : Bytes → Bytes) (body : Bytes)
    (hdt : ∀ k, NoEOL (dt k))
    (h1 : NoEOL p.dver) (h2 : NoEOL p.ghash) (h3 : NoEOL p.src) (h4 : NoEOL p.chname) (h5 : NoEOL p.pxname) :
    parseHeader22 (renderHeader22 (header22Text p dt) ++ body) = some (header22Text p dt, body) := by
  apply parseHeader22_render
  intro kv hkv
  have klit : ∀ k : Bytes, GoodKey k → ∀ v, NoEOL v → GoodKV (k, v) := fun k hk v hv => ⟨hk, hv⟩
  have kdec : ∀ (pre post : Bytes) (i : Int), GoodKey pre → (∀ x ∈ post, x ≠ 10 ∧ x ≠ 13 ∧ x ≠ 58) → pre ≠ [] →
      GoodKey (pre ++ decInt i ++ post) := by
    intro pre post i hpre hpost hne
    refine ⟨?_, ?_⟩
    · intro x hx
      simp only [List.mem_append] at hx
      rcases hx with (hx | hx) | hx
      · exact hpre.1 x hx
      · exact decInt_keychars i x hx
      · exact hpost x hx
    · cases pre with
      | nil => exact absurd rfl hne
      | cons c pre => simpa using hpre.2
  simp only [header22Text, header22, List.map_cons, List.map_nil, List.mem_cons, List.not_mem_nil, or_false] at hkv
  rcases hkv with rfl | rfl | rfl | rfl | rfl | rfl | rfl | rfl | rfl | rfl | rfl | rfl | rfl | rfl | rfl | rfl |
    rfl | rfl | rfl | rfl | rfl | rfl | rfl | rfl | rfl
  all_goals first
    | exact klit _ (by decide) _ (by decide)
    | exact klit _ (by decide) _ (decInt_noEOL _)
    | exact klit _ (by decide) _ (hdt _)
    | exact klit _ (by decide) _ h2
    | exact klit _ (by decide) _ h3
    | exact klit _ (by decide) _ h4
    | exact klit _ (by decide) _ h5
    | exact klit _ (by decide) _ (NoEOL.append (by decide) h1)
    | exact klit _ (kdec _ _ _ (by decide) (by decide) (by decide)) _ (decInt_noEOL _)

/-- the word size, the record length and the pre-trigger length are found under the documented keys -/
theorem C05_header_lengths (p : Params) (dt : Bytes → Bytes) :
    lookup docWordSizeKey (header22Text p dt) = some (b "2") ∧
    lookup (b "Total Samples") (header22Text p dt) = some (decInt p.nsamp) ∧
    lookup (b "Presamples") (header22Text p dt) = some (decInt p.npre) := by
  have r1 : b "Row number (from 0-" = 82 :: b "ow number (from 0-" := by decide
  have r2 : b "Column number (from 0-" = 67 :: b "olumn number (from 0-" := by decide
  have hk1 : ∀ (i : Int) (post k : Bytes), k.head? ≠ some 82 → (b "Row number (from 0-" ++ decInt i ++ post = k) = False := by
    intro i post k hk
    apply eq_false
    intro h
    rw [← h, r1] at hk
    simp at hk
  have hk2 : ∀ (i : Int) (post k : Bytes), k.head? ≠ some 67 → (b "Column number (from 0-" ++ decInt i ++ post = k) = False := by
    intro i post k hk
    apply eq_false
    intro h
    rw [← h, r2] at hk
    simp at hk
  refine ⟨?_, ?_, ?_⟩
  · simp only [header22Text, header22, List.map_cons, List.map_nil, lookup, hk1 _ _ docWordSizeKey (by decide),
      hk2 _ _ docWordSizeKey (by decide), if_false]
    repeat rw [if_neg (by decide)]
    rw [if_pos (by decide)]
  · simp only [header22Text, header22, List.map_cons, List.map_nil, lookup, hk1 _ _ (b "Total Samples") (by decide),
      hk2 _ _ (b "Total Samples") (by decide), if_false]
    repeat rw [if_neg (by decide)]
    rw [if_pos (by decide)]
  · simp only [header22Text, header22, List.map_cons, List.map_nil, lookup, hk1 _ _ (b "Presamples") (by decide),
      hk2 _ _ (b "Presamples") (by decide), if_false]
    repeat rw [if_neg (by decide)]
    rw [if_pos (by decide)]

/-- **off_matrix_block_roundtrip**: the binary block after the OFF JSON header reads back the
projector and basis matrices (all shapes), and exactly the rest follows -/
theorem off_matrix_block_roundtrip (proj bas : List Nat) (pr pc br bc : Nat) (rest : Bytes)
    (hp : proj.length = pr * pc) (hb : bas.length = br * bc)
    (h64 : ∀ x ∈ proj ++ bas, x < 2 ^ 64) :
    parseOffMatrices pr pc br bc (offMatrixBlock proj bas ++ rest) = some (proj, bas, rest) := by
  rw [off_matrix_block_read proj bas pr pc br bc rest hp hb]
  rw [map_mod_id (2 ^ 64) proj (fun x hx => h64 x (by simp [hx])),
    map_mod_id (2 ^ 64) bas (fun x hx => h64 x (by simp [hx]))]

end DastardV.C05
