/-
C10 — source life cycle: property theorems over the transition system of `Model/C10.lean`.

Reachability is over ALL event sequences (all interleavings of Start callers, k concurrent Stop
callers, the core loop, the producer and RPC callers; k, the number of runs and the schedule are
unbounded).  `ReachW`: every interleaving, every closure replies once.  `ReachE`: additionally the
environment discipline E (`envOK`): Start calls and Stop calls do not overlap each other.

What is proved here is about the MODEL.  Liveness ("every Stop returns") is the conjunction of
`C10_no_stuck_state` (some step is always enabled while a call is in flight), `C10_stop_measure`
(a natural-number measure strictly decreases on every non-environment step during shut-down) and
`C10_stop_progress`; for the Go code it is only observed on the explored schedules.
-/
import DastardV.Lemmas.C10
namespace DastardV.C10

def Reach (o : Bool) (s : St) : Prop := ∃ evs, run (init o) evs = some s
def ReachW (o : Bool) (s : St) : Prop := ∃ evs, runW (init o) evs = some s
def ReachE (o : Bool) (s : St) : Prop := ∃ evs, runE (init o) evs = some s

/-- evaluate a run and a decidable predicate of its final state in one `decide` -/
theorem exists_of_run (r : Option St) (p : St → Bool) (h : r.map p = some true) : ∃ s, r = some s ∧ p s = true := by
  cases r with
  | none => simp at h
  | some s => exact ⟨s, rfl, by simpa using h⟩

/-! ### Invariants along runs -/

theorem run_good {s s' : St} {evs : List Ev} (h : Good s) (hr : run s evs = some s') : Good s' := by
  induction evs generalizing s with
  | nil => simp [run] at hr; exact hr ▸ h
  | cons e es ih =>
    simp only [run] at hr
    split at hr
    · next s1 h1 => exact ih (good_step h h1) hr
    · contradiction

theorem runW_good {s s' : St} {evs : List Ev} (h : Good s) (hw : GoodW s) (hr : runW s evs = some s') :
    Good s' ∧ GoodW s' := by
  induction evs generalizing s with
  | nil => simp [runW] at hr; exact hr ▸ ⟨h, hw⟩
  | cons e es ih =>
    simp only [runW] at hr
    split at hr
    · next hwf =>
      split at hr
      · next s1 h1 => exact ih (good_step h h1) (goodW_step h hw hwf h1) hr
      · contradiction
    · contradiction

/-- no Go panic is reachable under E: `Stop` never meets the state Starting, the wait group never
goes negative, no channel is closed twice -/
theorem noCrash_step {s s' : St} {e : Ev} (h : Good s) (he : GoodE s) (hok : envOK s e = true)
    (hc : s.crashed = false) (hs : step s e = some s') : s'.crashed = false := by
  obtain ⟨st, sEnter, sp, kEnter, kDecided, kWait, kReady, kClean, lp, pp, abortClosed, nbClosed, wg, writing, res, opens, crashed,
    fuel, flag, rEnter, rSend, rWait, runOver, stopsDone, asm⟩ := s
  obtain ⟨h1, h2, h3, h4, h5, h6, h7, h8, h9, h10, h11, h12, h13, h14, h15, h16, h17, h18, h19⟩ := h
  obtain ⟨e1, e2, e3, e4, e5⟩ := he
  dsimp only [stoppers] at h1 h2 h3 h4 h5 h6 h7 h8 h9 h10 h11 h12 h13 h14 h15 h16 h17 h18 h19 e1 e2 e3 e4 e5 hc
  cases e <;> simp only [envOK, stoppers] at hok <;> lc_open hs
  all_goals try (have hser := e1 (by omega))
  all_goals ((try simp only [deactivate]) <;> (try split) <;>
    simp_all [LPc.alive, LPc.working, PPc.alive, SPc.inStarting, SPc.owner, SrcState.running] <;> (try omega) <;> (try grind))

structure AllGood (s : St) : Prop where
  good : Good s
  goodE : GoodE s
  goodW : GoodW s
  alive : s.crashed = false

theorem runE_good {s s' : St} {evs : List Ev} (h : AllGood s) (hr : runE s evs = some s') : AllGood s' := by
  induction evs generalizing s with
  | nil => simp [runE] at hr; exact hr ▸ h
  | cons e es ih =>
    simp only [runE] at hr
    split at hr
    · next hc =>
      simp only [Bool.and_eq_true] at hc
      split at hr
      · next s1 h1 =>
        exact ih ⟨good_step h.good h1, goodE_step h.good h.goodE hc.1 h1, goodW_step h.good h.goodW hc.2 h1,
          noCrash_step h.good h.goodE hc.1 h.alive h1⟩ hr
      · contradiction
    · contradiction

theorem allGood_init (o : Bool) : AllGood (init o) :=
  ⟨good_init o, goodE_init o, goodW_init o, rfl⟩

theorem reachE_allGood {o : Bool} {s : St} (h : ReachE o s) : AllGood s := by
  obtain ⟨evs, hr⟩ := h
  exact runE_good (allGood_init o) hr

/-! ### `lc_inv`: state ↔ wait-group counter ↔ thread program points, for EVERY interleaving -/

/-- The life-cycle invariant holds in every reachable state, whatever the environment does:
`runDone` counter = 1 exactly in the states Active/Stopping, which is exactly when a core loop (or a
Start call between `RunDoneActivate` and `go CoreLoop`) exists; Starting exactly while a Start call is
between `SetStateStarting` and `RunDoneActivate`; Stopping implies `abortSelf` closed and a Stop
caller waiting; a live producer implies `nextBlock` open and a loop that still receives; writing
active implies a live loop; resources held imply a Start call or producer that will release them. -/
theorem lc_inv (o : Bool) (s : St) (h : Reach o s) : Good s := by
  obtain ⟨evs, hr⟩ := h
  exact run_good (good_init o) hr

/-- the wait group is never negative: `Done()` only happens with counter 1 -/
theorem lc_inv_wg_nonneg (o : Bool) (s s' : St) (h : Reach o s)
    (hs : step s .loopDeactivate = some s' ∨ step s .starterDeactivate = some s') :
    s.wg = 1 ∧ s'.wg = 0 ∧ s'.crashed = false := by
  have hg := lc_inv o s h
  obtain ⟨st, sEnter, sp, kEnter, kDecided, kWait, kReady, kClean, lp, pp, abortClosed, nbClosed, wg, writing, res, opens, crashed,
    fuel, flag, rEnter, rSend, rWait, runOver, stopsDone, asm⟩ := s
  obtain ⟨h1, h2, h3, h4, h5, h6, h7, h8, h9, h10, h11, h12, h13, h14, h15, h16, h17, h18, h19⟩ := hg
  dsimp only at h1 h2 h3 h4 h5 h6 h7 h8 h9 h10 h11 h12 h13 h14 h15 h16 h17 h18 h19
  rcases hs with hs | hs <;> lc_open hs <;>
    simp_all [deactivate, LPc.alive, LPc.working, PPc.alive, SPc.inStarting, SPc.owner, SrcState.running]

/-- no close of a closed channel: when the producer closes `nextBlock` it is open (`abortSelf` is
closed through `closeIfOpen`, which cannot close twice by construction) -/
theorem lc_inv_no_double_close (o : Bool) (s s' : St) (h : Reach o s) (hs : step s .abortSeen = some s') :
    s.nbClosed = false ∧ s'.crashed = false := by
  have hg := lc_inv o s h
  obtain ⟨st, sEnter, sp, kEnter, kDecided, kWait, kReady, kClean, lp, pp, abortClosed, nbClosed, wg, writing, res, opens, crashed,
    fuel, flag, rEnter, rSend, rWait, runOver, stopsDone, asm⟩ := s
  have h7 := hg.prod_alive
  dsimp only at h7
  lc_open hs <;> simp_all [PPc.alive]

/-! ### At most one acquisition step pending -/

/-- **C10_one_acquisition_step**: for a hardware-style source (`opens`: each `getNextBlock` call launches an
assembler goroutine that delivers one block or, when the run ends, closes `nextBlock`), in every reachable state
at most ONE acquisition step is pending — exactly one while the loop is in its select or serves a request and
`nextBlock` is open, none otherwise (in particular serving k requests does not launch k more) — so `nextBlock`
is closed by exactly one of them (`lc_inv_no_double_close`).  Other sources never have one. -/
theorem C10_one_acquisition_step (o : Bool) (s : St) (h : Reach o s) :
    s.asm ≤ 1 ∧ (s.asm = if s.opens = true ∧ s.nbClosed = false ∧ s.lp.serving = true then 1 else 0) ∧
    (s.opens = false → s.asm = 0) := by
  have hg := lc_inv o s h
  refine ⟨hg.asm_le, hg.asm_eq, ?_⟩
  intro ho
  have := hg.asm_eq
  simpa [ho] using this

/-- serving a request leaves the number of pending acquisition steps unchanged -/
theorem C10_request_keeps_step (s s' : St) (n : Nat) (w : WEff)
    (hs : step s (.gotRequest n w) = some s' ∨ step s .requestDone = some s' ∨ step s .reply = some s') :
    s'.asm = s.asm := by
  rcases hs with hs | hs | hs <;> (unfold step at hs; split at hs)
  all_goals first
    | contradiction
    | (dsimp only at hs; repeat' split at hs) <;> first | contradiction | (simp only [Option.some.injEq] at hs; subst hs; rfl)

/-- the run of a hardware-style source that ends BY ITSELF (no data for the reader's time-out, nobody called Stop):
the pending acquisition step closes `nextBlock` once and releases the devices, the loop leaves through its
deferred clean-up, and the source is Inactive with nothing left — from where `C10_restart` applies -/
example : ∃ s, run (init true) [.callStart, .startOk, .sampled, .chans, .prepared 0, .activate, .runStarted, .loopStart,
    .tick, .send, .gotBlock, .processed, .selfClose, .gotClosed, .loopDeactivate] = some s ∧
    (decide (s.st = .inactive ∧ s.res = false ∧ s.asm = 0 ∧ s.lp = .off ∧ s.wg = 0 ∧ s.crashed = false ∧ s.runOver = true)) = true :=
  exists_of_run _ _ (by decide)

theorem C10_self_close_once (o : Bool) (s s' : St) (h : Reach o s) (hs : step s .selfClose = some s') :
    s.nbClosed = false ∧ s'.crashed = false ∧ s'.nbClosed = true ∧ s'.res = false ∧ s'.asm = 0 := by
  have hg := lc_inv o s h
  obtain ⟨st, sEnter, sp, kEnter, kDecided, kWait, kReady, kClean, lp, pp, abortClosed, nbClosed, wg, writing, res, opens, crashed,
    fuel, flag, rEnter, rSend, rWait, runOver, stopsDone, asm⟩ := s
  have h7 := hg.prod_alive
  have h16 := hg.asm_le
  dsimp only at h7 h16
  lc_open hs <;> simp_all [PPc.alive] <;> omega

/-! ### Atomicity of Stop's decision -/

/-- **C10_stop_decision_atomic**: in every reachable state (any interleaving), while a Stop caller is between its
decision "the source is Active" and its write "Stopping" it holds `sourceStateLock`: it is the only one there, the
state IS Active, and no other lock section is enabled — neither the core loop's nor a failed Start's
`RunDoneDeactivate`, nor `SetStateInactive`, `SetStateStarting`, `RunDoneActivate`, nor another Stop's decision.
So the write `Stopping` always lands on an Active source (`C10_switch_from_active`); `C10_after_stops_inactive`
rests on this (invariant clause `decided_active`): a Stop that wrote Stopping over an already Inactive source
would leave it Stopping for ever. -/
theorem C10_stop_decision_atomic (o : Bool) (s : St) (h : Reach o s) (hk : s.kDecided > 0) :
    s.st = .active ∧ s.kDecided = 1 ∧
    step s .loopDeactivate = none ∧ step s .starterDeactivate = none ∧ step s .setInactive = none ∧
    step s .startOk = none ∧ step s .startRejected = none ∧ step s .activate = none ∧
    step s .stopDecide = none ∧ step s .stopNotActive = none ∧ step s .stopAlready = none ∧
    step s .stopOnStarting = none := by
  have hg := lc_inv o s h
  have h1 := hg.decided_active hk
  have h2 := hg.decided_one
  have hne : s.kDecided ≠ 0 := by omega
  refine ⟨h1, by omega, ?_, ?_, ?_, ?_, ?_, ?_, ?_, ?_, ?_, ?_⟩ <;>
    (unfold step; split <;> simp [hne])

/-- the write of `Stopping` happens on an Active source, and it is what closes `abortSelf` -/
theorem C10_switch_from_active (o : Bool) (s s' : St) (h : Reach o s) (hs : step s .stopSwitched = some s') :
    s.st = .active ∧ s'.st = .stopping ∧ s'.abortClosed = true ∧ s'.kWait = s.kWait + 1 := by
  have hg := lc_inv o s h
  unfold step at hs
  split at hs
  · contradiction
  · dsimp only at hs
    split at hs
    · next hk =>
      simp only [Option.some.injEq] at hs
      subst hs
      exact ⟨hg.decided_active hk, rfl, rfl, rfl⟩
    · contradiction

/-! ### Crash freedom, and the two ways an overlapping Start breaks `Stop` (known findings) -/

/-- under E no reachable state is a crashed one -/
theorem C10_no_crash_partial (o : Bool) (s : St) (h : ReachE o s) : s.crashed = false :=
  (reachE_allGood h).alive

/-- full statement: for ALL interleavings of Start and Stop calls -/
def C10_no_crash_full : Prop :=
  ∀ o s, ReachW o s → (∀ evs, runW (init o) evs = some s → Ev.processFailed ∉ evs) → s.crashed = false

/-- it is false: a Stop call that takes the lock while a Start call is between `SetStateStarting` and
`RunDoneActivate` panics ("Called Stop on a Starting source") -/
theorem C10_no_crash_counterexample : ¬ C10_no_crash_full := by
  intro h
  have hr : runW (init false) [.callStart, .startOk, .callStop, .stopOnStarting] =
      some { init false with st := .starting, sp := .starting, kEnter := 1, crashed := true } := by decide
  have := h false _ ⟨_, hr⟩ (by
    intro evs hevs
    intro hmem
    -- a run containing `processFailed` ends crashed with the loop in `block`; compare `lp`
    have : ∀ (es : List Ev) (a b : St), runW a es = some b → Ev.processFailed ∈ es → b.lp = .block := by
      intro es
      induction es with
      | nil => intro a b _ hm; cases hm
      | cons e es ih =>
        intro a b hr hm
        simp only [runW] at hr
        split at hr
        · split at hr
          · next s1 h1 =>
            rcases List.mem_cons.mp hm with rfl | hm'
            · -- after processFailed the state is crashed: only the empty continuation exists
              have hc : s1.crashed = true ∧ s1.lp = .block := by
                unfold step at h1
                split at h1
                · contradiction
                · dsimp only at h1
                  split at h1
                  · next hb => simp only [Option.some.injEq] at h1; subst h1; exact ⟨rfl, hb⟩
                  · contradiction
              cases es with
              | nil => simp [runW] at hr; exact hr ▸ hc.2
              | cons e2 es2 =>
                simp only [runW] at hr
                split at hr
                · have : step s1 e2 = none := by unfold step; simp [hc.1]
                  simp [this] at hr
                · contradiction
            · exact ih s1 b hr hm'
          · contradiction
        · contradiction
    have hl := this evs _ _ hevs hmem
    simp [init] at hl)
  simp at this

/-- a Stop caller only ever waits for the run it stopped: for ALL interleavings (this was refuted by a
counterexample before the repair d9d435f: the shared WaitGroup attached a delayed Stop to the next run) -/
def C10_wait_own_run_full : Prop := ∀ o s, ReachW o s → s.kWait > 0 → s.st ≠ .active

/-- **C10_wait_own_run**: in every reachable state of every interleaving (no discipline E), a Stop caller that is
still blocked on its run's done channel finds the source Stopping — the run it stopped is the one that is alive —
never an Active run started after it. -/
theorem C10_wait_own_run (o : Bool) (s : St) (h : Reach o s) (hk : s.kWait > 0) :
    s.st = .stopping ∧ s.st ≠ .active := by
  have := (lc_inv o s h).waiting_stopping hk
  exact ⟨this, by simp [this]⟩

theorem runW_run {a s : St} {es : List Ev} (hr : runW a es = some s) : run a es = some s := by
  induction es generalizing a with
  | nil => simpa [runW, run] using hr
  | cons e es ih =>
    simp only [runW] at hr
    split at hr
    · split at hr
      · next s1 h1 => simp only [run, h1]; exact ih hr
      · contradiction
    · contradiction

theorem reachW_reach {o : Bool} {s : St} (h : ReachW o s) : Reach o s := by
  obtain ⟨evs, hr⟩ := h
  exact ⟨evs, runW_run hr⟩

theorem C10_wait_own_run_full_holds : C10_wait_own_run_full :=
  fun o s h hk => (C10_wait_own_run o s (reachW_reach h) hk).2

/-- when the run ends, every Stop caller that was stopping it is released, together -/
theorem C10_deactivate_releases_waiters (s s' : St) (hs : step s .loopDeactivate = some s') (hc : s'.crashed = false) :
    s'.kWait = 0 ∧ s'.kReady = s.kReady + s.kWait := by
  unfold step at hs
  split at hs
  · contradiction
  · dsimp only at hs
    split at hs
    · simp only [Option.some.injEq] at hs
      subst hs
      simp only [deactivate] at hc ⊢
      split
      · next hw => simp [hw] at hc
      · exact ⟨rfl, rfl⟩
    · contradiction

/-- a released Stop caller returns from its wait whatever has happened since — also when a new Start has
succeeded meanwhile and the source is Active again -/
theorem C10_released_stop_returns (s : St) (hc : s.crashed = false) (hk : s.kReady > 0) :
    ∃ s', step s .stopWaited = some s' ∧ s'.kReady = s.kReady - 1 ∧ s'.kClean = s.kClean + 1 ∧ s'.st = s.st := by
  refine ⟨{ s with kReady := s.kReady - 1, kClean := s.kClean + 1 }, by simp [step, hc, hk], rfl, rfl, rfl⟩

/-- the history that used to leave the first Stop waiting on the second run: now it is released by the end of
ITS run and returns while the new run is Active -/
example : ∃ s, runW (init false) [.callStart, .startOk, .sampled, .chans, .prepared 0, .activate, .runStarted,
    .loopStart, .callStop, .stopDecide, .stopSwitched, .abortSeen, .gotClosed, .loopDeactivate,
    .callStart, .startOk, .sampled, .chans, .prepared 0, .activate, .stopWaited] = some s ∧
    (decide (s.kWait = 0 ∧ s.kReady = 0 ∧ s.kClean = 1 ∧ s.st = .active)) = true :=
  exists_of_run _ _ (by decide)

/-! ### Deadlock freedom -/

theorem stuck_mk (s : St) (e : Ev) (henv : e.isEnv = false) (h : (step s e).isSome = true) :
    ∃ e s', e.isEnv = false ∧ step s e = some s' := by
  obtain ⟨s', hs'⟩ := Option.isSome_iff_exists.mp h
  exact ⟨e, s', henv, hs'⟩

/-- **C10_no_stuck_state**: in every state reachable under E (any number k of concurrent Stop callers, any
schedule), if some Start or Stop call has not returned then some non-environment step is enabled. -/
theorem C10_no_stuck_state (o : Bool) (s : St) (h : ReachE o s) (hin : starters s > 0 ∨ stoppers s > 0) :
    ∃ e s', e.isEnv = false ∧ step s e = some s' := by
  have hall := reachE_allGood h
  obtain ⟨st, sEnter, sp, kEnter, kDecided, kWait, kReady, kClean, lp, pp, abortClosed, nbClosed, wg, writing, res, opens, crashed,
    fuel, flag, rEnter, rSend, rWait, runOver, stopsDone, asm⟩ := s
  obtain ⟨⟨h1, h2, h3, h4, h5, h6, h7, h8, h9, h10, h11, h12, h13, h14, h15, h16, h17, h18, h19⟩, ⟨e1, e2, e3, e4, e5⟩, hw, hc⟩ := hall
  dsimp only [stoppers, GoodW] at h1 h2 h3 h4 h5 h6 h7 h8 h9 h10 h11 h12 h13 h14 h15 h16 h17 h18 h19 e1 e2 e3 e4 e5 hw hc
  subst hc
  simp only [starters, stoppers] at hin
  -- a Stop caller inside its lock section always completes it
  by_cases hkd : kDecided > 0
  · exact stuck_mk _ (.stopSwitched) rfl (by simp [step, hkd])
  have hkd0 : kDecided = 0 := by omega
  subst hkd0
  -- a Start call before the lock
  by_cases hse : sEnter > 0
  · by_cases hst : st = .inactive
    · exact stuck_mk _ (.startOk) rfl (by simp [step, hse, hst])
    · exact stuck_mk _ (.startRejected) rfl (by simp [step, hse, hst])
  -- the accepted Start call
  by_cases hsp : sp ≠ .idle
  · cases sp with
    | idle => exact absurd rfl hsp
    | starting => exact stuck_mk _ (.sampled) rfl (by simp [step])
    | sampled => exact stuck_mk _ (.chans) rfl (by simp [step])
    | chans => exact stuck_mk _ (.prepared 0) rfl (by simp [step])
    | prepared => exact stuck_mk _ (.activate) rfl (by simp [step])
    | activated => exact stuck_mk _ (.runStarted) rfl (by simp [step])
    | failing => exact stuck_mk _ (.setInactive) rfl (by simp [step])
    | runFailing => exact stuck_mk _ (.starterDeactivate) rfl (by simp [step])
  -- Stop callers
  have hsp : sp = .idle := by
    cases sp <;> simp_all
  subst hsp
  have hk : kEnter + kWait + kReady + kClean > 0 := by
    rcases hin with hin | hin
    · simp at hin; omega
    · omega
  by_cases hkr : kReady > 0
  · exact stuck_mk _ (.stopWaited) rfl (by simp [step, hkr])
  by_cases hkc : kClean > 0
  · exact stuck_mk _ (.stopCleaned) rfl (by simp [step, hkc])
  by_cases hke : kEnter > 0
  · cases st with
    | inactive => exact stuck_mk _ (.stopNotActive) rfl (by simp [step, hke])
    | starting => simp [SPc.inStarting] at h4
    | active => exact stuck_mk _ (.stopDecide) rfl (by simp [step, hke])
    | stopping => exact stuck_mk _ (.stopAlready) rfl (by simp [step, hke])
  have hkw : kWait > 0 := by omega
  -- the run this caller stopped is still alive: the loop or the producer can move
  have hst : st = .stopping := h18 hkw
  have hrun : st.running := Or.inr hst
  have habort : abortClosed = true := h5 hst
  have hlp : lp ≠ .off := by
    have := h2.mp hrun
    simpa [LPc.alive, SPc.owner] using this
  cases lp with
  | off => exact absurd rfl hlp
  | spawned => exact stuck_mk _ (.loopStart) rfl (by simp [step])
  | block => exact stuck_mk _ (.processed) rfl (by simp [step])
  | exiting => exact stuck_mk _ (.loopDeactivate) rfl (by simp [step])
  | req n =>
    cases n with
    | zero => exact stuck_mk _ (.requestDone) rfl (by simp [step])
    | succ m =>
      have : rWait > 0 := by simp [pendingReplies] at hw; omega
      exact stuck_mk _ (.reply) rfl (by simp [step, this])
  | select =>
    have hp := h8 (Or.inl (by simp [LPc.working]))
    cases pp with
    | off => exact absurd rfl hp.1
    | done =>
      have := hp.2 rfl
      exact stuck_mk _ (.gotClosed) rfl (by simp [step, this])
    | run =>
      have hnb : nbClosed = false := (h7 (by simp [PPc.alive])).1
      have hasm : opens = true → asm > 0 := by
        intro ho
        simp [ho, hnb, LPc.serving] at h17
        omega
      exact stuck_mk _ (.abortSeen) rfl (by simp [step, habort, hnb]; exact hasm)
    | tick => exact stuck_mk _ (.send) rfl (by simp [step])
    | send => exact stuck_mk _ (.gotBlock) rfl (by simp [step])
    | sendErr => exact stuck_mk _ (.gotError) rfl (by simp [step])

/-- **C10_stop_waits_for_run**: a Stop caller that switched the state leaves its wait only after the run it stopped
is over — it becomes ready only by a `RunDoneDeactivate` step, however long that takes: there is no step by which
it gives up earlier.  Under E (no Start in between) the source is then Inactive with no core loop. -/
theorem C10_stop_waits_for_run (s s' : St) (e : Ev) (hs : step s e = some s') (hr : s'.kReady > s.kReady) :
    e = .loopDeactivate ∨ e = .starterDeactivate := by
  obtain ⟨st, sEnter, sp, kEnter, kDecided, kWait, kReady, kClean, lp, pp, abortClosed, nbClosed, wg, writing, res, opens, crashed,
    fuel, flag, rEnter, rSend, rWait, runOver, stopsDone, asm⟩ := s
  cases e <;> (try (first | (left; rfl) | (right; rfl)))
  all_goals (exfalso; lc_open hs)
  all_goals (simp_all <;> omega)

theorem C10_stop_waited_inactive (o : Bool) (s s' : St) (h : ReachE o s) (hs : step s .stopWaited = some s') :
    s.st = .inactive ∧ s.lp = .off ∧ s.wg = 0 := by
  have hall := reachE_allGood h
  have hk : s.kReady > 0 := by
    unfold step at hs
    split at hs
    · contradiction
    · dsimp only at hs
      split at hs
      · next hk => exact hk
      · contradiction
  have hst := hall.goodE.ready_inactive hk
  have hnr : ¬ s.st.running := by simp [SrcState.running, hst]
  have hwg : s.wg = 0 := by
    have := hall.good.wg_eq
    simpa [hnr] using this
  have := (not_congr hall.good.run_owner).mp hnr
  simp only [not_or, LPc.alive, ne_eq, Decidable.not_not] at this
  exact ⟨hst, this.1, hwg⟩

/-! ### Termination measure of the shut-down -/

def prodRank : PPc → Nat
  | .off | .done | .sendErr => 0
  | .run => 1
  | .send => 2
  | .tick => 3

def loopRank : LPc → Nat
  | .off => 0
  | .exiting => 1
  | .select => 2
  | .block | .spawned => 3
  | .req n => 3 + n

def measure (s : St) : Nat :=
  if s.crashed then 0 else
  1 + 3 * (4 * s.fuel + prodRank s.pp) + loopRank s.lp + 5 * s.kEnter + 4 * s.kDecided + 3 * s.kWait + 2 * s.kReady + s.kClean
    + 6 * s.rEnter + 5 * s.rSend + s.rWait

/-- no Start call in flight and the source is not Active: the situation from the moment the first Stop
call has switched the state (or found the source already ended) until the next Start call -/
def ShuttingDown (s : St) : Prop := s.sEnter = 0 ∧ s.sp = .idle ∧ s.st ≠ .active

/-- **C10_stop_measure**: while shutting down, every non-environment step (of any thread: Stop callers, core
loop, producer, RPC callers) strictly decreases `measure`, and the situation persists.  `fuel` is the
fairness assumption on the producer's `select`: after `abortSelf` is closed it starts at most `fuel` more
blocks (`fuel` is arbitrary, chosen per run by the event `prepared fuel`). -/
theorem C10_stop_measure (s s' : St) (e : Ev) (hg : Good s) (hw : GoodW s) (hsd : ShuttingDown s)
    (henv : e.isEnv = false) (hwf : e.wf = true) (hs : step s e = some s') :
    measure s' < measure s ∧ ShuttingDown s' := by
  obtain ⟨st, sEnter, sp, kEnter, kDecided, kWait, kReady, kClean, lp, pp, abortClosed, nbClosed, wg, writing, res, opens, crashed,
    fuel, flag, rEnter, rSend, rWait, runOver, stopsDone, asm⟩ := s
  obtain ⟨h1, h2, h3, h4, h5, h6, h7, h8, h9, h10, h11, h12, h13, h14, h15, h16, h17, h18, h19⟩ := hg
  obtain ⟨hd1, hd2, hd3⟩ := hsd
  dsimp only [GoodW] at h1 h2 h3 h4 h5 h6 h7 h8 h9 h10 h11 h12 h13 h14 h15 h16 h17 h18 h19 hd1 hd2 hd3 hw
  subst hd1 hd2
  have habort : pp.alive → abortClosed = true := by
    intro hp
    have hl := (h7 hp).2
    have : st.running := h2.mpr (Or.inl (by
      rcases hl with hl | hl
      · cases hl
      · exact hl.1))
    rcases this with h | h
    · exact absurd h hd3
    · exact h5 h
  cases e <;> simp only [Ev.isEnv, Ev.wf, reduceCtorEq, decide_eq_true_eq] at henv hwf <;> lc_open hs
  all_goals ((try simp only [deactivate]) <;> (try split) <;>
    simp_all [measure, ShuttingDown, prodRank, loopRank, pendingReplies, PPc.alive] <;> (try omega))

/-- while a Stop caller is before its lock section and the source is Active, its step is enabled and ends the
Active phase: after it the measure argument applies -/
theorem C10_stop_progress (s : St) (hc : s.crashed = false) (hk : s.kEnter > 0) (ha : s.st = .active)
    (hl : s.kDecided = 0) :
    ∃ s', run s [.stopDecide, .stopSwitched] = some s' ∧ s'.st = .stopping ∧ s'.abortClosed = true := by
  refine ⟨_, by simp [run, step, hc, hk, ha, hl]; rfl, rfl, rfl⟩

/-- bounded shut-down: from a shutting-down state, an execution without environment events has at most
`measure s` steps — with `C10_no_stuck_state` (a step exists while a Stop call is in flight): every Stop call
returns under any schedule that keeps taking enabled steps -/
theorem C10_stop_bounded (s s' : St) (evs : List Ev) (hg : Good s) (hw : GoodW s) (hsd : ShuttingDown s)
    (henv : ∀ e ∈ evs, e.isEnv = false) (hr : runW s evs = some s') :
    evs.length + measure s' ≤ measure s := by
  induction evs generalizing s with
  | nil => simp [runW] at hr; subst hr; simp
  | cons e es ih =>
    simp only [runW] at hr
    split at hr
    · next hwf =>
      split at hr
      · next s1 h1 =>
        have hm := C10_stop_measure s s1 e hg hw hsd (henv e (by simp)) hwf h1
        have := ih s1 (good_step hg h1) (goodW_step hg hw hwf h1) hm.2
          (fun e' he' => henv e' (by simp [he'])) hr
        simp only [List.length_cons]
        omega
      · contradiction
    · contradiction

/-! ### After the Stops -/

/-- **C10_after_stops_inactive**: once at least one Stop call has returned since the last Start call and no Stop
call is in flight, the source is Inactive, no Start call is in flight, the core loop and the producer are
gone, the wait group is 0, writing is stopped and the resources of `Sample` are released. -/
theorem C10_after_stops_inactive (o : Bool) (s : St) (h : ReachE o s) (hd : s.stopsDone > 0)
    (hk : stoppers s = 0) :
    s.st = .inactive ∧ starters s = 0 ∧ s.lp = .off ∧ ¬ s.pp.alive ∧ s.wg = 0 ∧ s.writing = false ∧
      s.res = false := by
  have hall := reachE_allGood h
  obtain ⟨st, sEnter, sp, kEnter, kDecided, kWait, kReady, kClean, lp, pp, abortClosed, nbClosed, wg, writing, res, opens, crashed,
    fuel, flag, rEnter, rSend, rWait, runOver, stopsDone, asm⟩ := s
  obtain ⟨⟨h1, h2, h3, h4, h5, h6, h7, h8, h9, h10, h11, h12, h13, h14, h15, h16, h17, h18, h19⟩, ⟨e1, e2, e3, e4, e5⟩, hw, hc⟩ := hall
  dsimp only [stoppers, starters, GoodW] at *
  obtain ⟨q1, q2, q3⟩ := e5 hd
  subst q1 q2
  have hst : st = .inactive := by
    cases st with
    | inactive => rfl
    | starting => simp [SPc.inStarting] at h4
    | active => exact absurd rfl q3
    | stopping => have := h6 rfl; omega
  subst hst
  have hlp : lp = .off := by
    have := (not_congr h2).mp (by simp [SrcState.running])
    simpa [LPc.alive, SPc.owner] using this
  subst hlp
  have hpp : ¬ pp.alive := by
    intro hp
    have := (h7 hp).2
    simp [LPc.working] at this
  refine ⟨rfl, by simp, rfl, hpp, by simpa [SrcState.running] using h1, ?_, ?_⟩
  · cases hwv : writing with
    | false => rfl
    | true => exact absurd (h10 hwv) (by simp [LPc.alive])
  · cases hrv : res with
    | false => rfl
    | true =>
      have := (h11 hrv).2
      simp [hpp] at this

/-- **C10_rpc_restart_after_stops**: at the RPC layer a Stop request is the source's Stop followed by the refresh of
`isSourceActive`.  Once the Stops have returned (`C10_after_stops_inactive`) that refresh clears the flag, whether
the source was stopped by the request or had ended by itself before: the next Start request is not refused by the
RPC layer (`scStartRefused` is disabled) and the source accepts it (`C10_restart`). -/
theorem C10_rpc_restart_after_stops (o : Bool) (s s' : St) (h : ReachE o s) (hd : s.stopsDone > 0)
    (hk : stoppers s = 0) (hr : step s .flagRefresh = some s') :
    s'.flag = false ∧ step s' .scStartRefused = none ∧ s'.st = .inactive ∧ s'.sEnter = 0 := by
  have hst := C10_after_stops_inactive o s h hd hk
  have hcr := C10_no_crash_partial o s h
  have hkd : s.kDecided = 0 := by simp only [stoppers] at hk; omega
  have hse : s.sEnter = 0 := by
    have := hst.2.1
    simp only [starters] at this
    omega
  unfold step at hr
  simp only [hcr, hkd] at hr
  simp only [Bool.false_eq_true, if_false, if_true, Option.some.injEq] at hr
  subst hr
  refine ⟨by simp [hst.1], ?_, hst.1, hse⟩
  simp [step, hst.1]

/-! ### Failed Start, restart -/

/-- a complete successful Start from a state in which the source is Inactive -/
def startSeq (fuel : Nat) : List Ev :=
  [.callStart, .startOk, .sampled, .chans, .prepared fuel, .activate, .runStarted]

/-- **C10_restart**: from EVERY reachable non-crashed state in which the source is Inactive and no Start call
is in flight (in particular after the Stops, `C10_after_stops_inactive`, after self-termination, after a failed
Start) a whole Start sequence is enabled and ends Active, with a fresh open `abortSelf` / `nextBlock`, wait
group 1, a spawned core loop and a running producer. -/
theorem C10_restart (o : Bool) (s : St) (fuel : Nat) (h : Reach o s) (hc : s.crashed = false)
    (hst : s.st = .inactive) (hse : s.sEnter = 0) :
    ∃ s', run s (startSeq fuel) = some s' ∧ s'.st = .active ∧ s'.lp = .spawned ∧ s'.pp = .run ∧ s'.wg = 1 ∧
      s'.abortClosed = false ∧ s'.nbClosed = false ∧ s'.sp = .idle := by
  have hg := lc_inv o s h
  obtain ⟨st, sEnter, sp, kEnter, kDecided, kWait, kReady, kClean, lp, pp, abortClosed, nbClosed, wg, writing, res, opens, crashed,
    fuel0, flag, rEnter, rSend, rWait, runOver, stopsDone, asm⟩ := s
  obtain ⟨h1, h2, h3, h4, h5, h6, h7, h8, h9, h10, h11, h12, h13, h14, h15, h16, h17, h18, h19⟩ := hg
  dsimp only at *
  subst hc hst hse
  have hwg : wg = 0 := by simpa [SrcState.running] using h1
  subst hwg
  have hkd : kDecided = 0 := by
    cases kDecided with
    | zero => rfl
    | succ n => simp at h14
  subst hkd
  simp [startSeq, run, step]

/-- **C10_failed_start_restartable**: when a Start call fails (Sample / PrepareChannels / PrepareRun error, in any
reachable state, under any interleaving) the source is left Inactive with no core loop, no producer, wait group
0 and NO resources held, and the next Start call is accepted. -/
theorem C10_failed_start_restartable (o : Bool) (s s' : St) (h : Reach o s) (hs : step s .setInactive = some s') :
    s'.st = .inactive ∧ s'.sp = .idle ∧ s'.lp = .off ∧ ¬ s'.pp.alive ∧ s'.wg = 0 ∧ s'.res = false ∧
      ∃ s'', run s' [.callStart, .startOk] = some s'' ∧ s''.sp = .starting := by
  have hg := lc_inv o s h
  obtain ⟨st, sEnter, sp, kEnter, kDecided, kWait, kReady, kClean, lp, pp, abortClosed, nbClosed, wg, writing, res, opens, crashed,
    fuel0, flag, rEnter, rSend, rWait, runOver, stopsDone, asm⟩ := s
  obtain ⟨h1, h2, h3, h4, h5, h6, h7, h8, h9, h10, h11, h12, h13, h14, h15, h16, h17, h18, h19⟩ := hg
  dsimp only at h1 h2 h3 h4 h5 h6 h7 h8 h9 h10 h11 h12 h13 h14 h15 h16 h17 h18 h19
  lc_open hs
  simp_all [SPc.inStarting, SPc.owner, LPc.alive, LPc.working, PPc.alive, SrcState.running, run, step]
  grind

/-- **C10_failed_startrun_restartable**: the Start call that fails AFTER `RunDoneActivate` (in `StartRun`) undoes the
activation with `RunDoneDeactivate`: before that step the wait group is 1 and the state Active (or Stopping, if a
Stop came in); after it the source is Inactive, the wait group is 0, the run-done channel is closed (`runOver`),
no core loop or producer exists, no resources are held, and the next Start call is accepted.  (A failure path
that only reset the state here would leave `wg = 1`: `lc_inv` — counter 1 iff Active/Stopping — would break.) -/
theorem C10_failed_startrun_restartable (o : Bool) (s s' : St) (h : Reach o s)
    (hs : step s .starterDeactivate = some s') :
    s.wg = 1 ∧ s.sp = .runFailing ∧
    s'.st = .inactive ∧ s'.sp = .idle ∧ s'.lp = .off ∧ ¬ s'.pp.alive ∧ s'.wg = 0 ∧ s'.runOver = true ∧
      s'.res = false ∧ s'.crashed = false ∧
      ∃ s'', run s' [.callStart, .startOk] = some s'' ∧ s''.sp = .starting := by
  have hg := lc_inv o s h
  obtain ⟨st, sEnter, sp, kEnter, kDecided, kWait, kReady, kClean, lp, pp, abortClosed, nbClosed, wg, writing, res, opens, crashed,
    fuel0, flag, rEnter, rSend, rWait, runOver, stopsDone, asm⟩ := s
  obtain ⟨h1, h2, h3, h4, h5, h6, h7, h8, h9, h10, h11, h12, h13, h14, h15, h16, h17, h18, h19⟩ := hg
  dsimp only at h1 h2 h3 h4 h5 h6 h7 h8 h9 h10 h11 h12 h13 h14 h15 h16 h17 h18 h19
  lc_open hs
  all_goals simp only [deactivate]
  all_goals split
  all_goals simp_all [SPc.inStarting, SPc.owner, LPc.alive, LPc.working, PPc.alive, SrcState.running, run, step]
  all_goals grind

/-- after ANY failed Start call — before or after the activation — the completion barrier is released:
counter 0 in state Inactive (what the harness observes on the real object after every failed Start) -/
theorem C10_failed_start_barrier_released (o : Bool) (s s' : St) (h : Reach o s)
    (hs : step s .setInactive = some s' ∨ step s .starterDeactivate = some s') :
    s'.st = .inactive ∧ s'.wg = 0 := by
  rcases hs with hs | hs
  · have := C10_failed_start_restartable o s s' h hs
    exact ⟨this.1, this.2.2.2.2.1⟩
  · have := C10_failed_startrun_restartable o s s' h hs
    exact ⟨this.2.2.1, this.2.2.2.2.2.2.1⟩

/-- a StartRun failure followed by a successful Start and a Stop that returns is a run of the model -/
example : ∃ s, runE (init false) [.callStart, .startOk, .sampled, .chans, .prepared 0, .activate, .startRunFailed,
    .starterDeactivate, .callStart, .startOk, .sampled, .chans, .prepared 0, .activate, .runStarted, .loopStart,
    .callStop, .stopDecide, .stopSwitched, .abortSeen, .gotClosed, .loopDeactivate, .stopWaited, .stopCleaned] = some s ∧
    (decide (s.st = .inactive ∧ s.wg = 0 ∧ stoppers s = 0 ∧ s.stopsDone = 1)) = true :=
  exists_of_run _ _ (by decide)

/-- **C10_inactive_not_writing**: in every reachable state without a core loop — in particular whenever the source is
Inactive, however the run ended (Stop, error block, closed channel, time-out) and whether writing was paused or not —
nothing is being written: the loop's deferred clean-up stops writing before `RunDoneDeactivate`. -/
theorem C10_inactive_not_writing (o : Bool) (s : St) (h : Reach o s) (hl : s.lp = .off) : s.writing = false := by
  have hg := lc_inv o s h
  cases hw : s.writing with
  | false => rfl
  | true => exact absurd hl (hg.writing_loop hw)

theorem C10_inactive_no_loop (o : Bool) (s : St) (h : Reach o s) (hst : s.st = .inactive) : s.lp = .off ∧ s.writing = false := by
  have hg := lc_inv o s h
  have hnr : ¬ s.st.running := by simp [SrcState.running, hst]
  have := (not_congr hg.run_owner).mp hnr
  simp only [not_or, LPc.alive, ne_eq, Decidable.not_not] at this
  exact ⟨this.1, C10_inactive_not_writing o s h this.1⟩

/-! ### Blocks and channel counts (ROACH source of several devices: known finding)

The life-cycle automaton does not count channels.  What `ProcessSegments` demands of a delivered block — as many
segments as the source has processors — is stated here on its own: a source that sizes itself for the SUM of its
devices' channels while every device delivers blocks with its OWN channels only satisfies it exactly when there is a
single device. -/

/-- `ProcessSegments` panics unless the block has one segment per processor -/
def blockFits (sourceChannels blockSegments : Nat) : Bool := sourceChannels == blockSegments

/-- the ROACH source: `Sample` sums the devices' channels, `StartRun` forwards each device's block unmerged -/
def roachBlocksFit (devs : List Nat) : Bool := devs.all fun n => blockFits devs.sum n

/-- full statement: every block a started ROACH source delivers is one the core loop can process -/
def C10_roach_blocks_fit_full : Prop := ∀ devs : List Nat, devs ≠ [] → (∀ n ∈ devs, n > 0) → roachBlocksFit devs = true

/-- it holds for a single device … -/
theorem C10_roach_blocks_fit_partial (n : Nat) : roachBlocksFit [n] = true := by
  simp [roachBlocksFit, blockFits]

/-- … and fails for two (2 + 3 channels: the first block has 2 segments, the source 5 processors → panic) -/
theorem C10_roach_blocks_fit_counterexample : ¬ C10_roach_blocks_fit_full := by
  intro h
  have := h [2, 3] (by simp) (by intro n hn; simp at hn; rcases hn with rfl | rfl <;> omega)
  simp [roachBlocksFit, blockFits] at this

/-! ### A valid Configure clears a remembered configuration error -/

/-- **C10_valid_configure_clears_error**: whatever requests came before (any number of rejected configurations,
failed Starts, runs), once the source is not running and a Configure has been accepted, the next Start is not
refused: a failed Start / rejected configuration leaves the source able to be configured and started later. -/
theorem C10_valid_configure_clears_error (hist : List CfgOp) (s0 : CfgSt)
    (hidle : (cfgRun s0 hist).1.active = false) :
    let s := (cfgRun s0 hist).1
    (cfgStep s .cfgGood).2 = 0 ∧ (cfgStep (cfgStep s .cfgGood).1 .start).2 = 0 ∧
      (cfgStep (cfgStep s .cfgGood).1 .start).1.active = true := by
  simp [cfgStep, hidle]

/-- and a rejected configuration does make the next Start fail (the error is remembered, not lost) -/
theorem C10_rejected_configure_blocks_start (s : CfgSt) :
    (cfgStep (cfgStep s .cfgBad).1 .start).2 = 1 := by
  simp only [cfgStep]
  split <;> simp

example : (cfgRun { cfgErr := false, active := false } [.cfgBad, .start, .cfgGood, .start, .stop]).2 = [1, 1, 0, 0, 0] := by
  decide

/-! ### Non-vacuity -/

/-- a run with two concurrent Stop callers racing the producer's shut-down satisfies E -/
example : ∃ s, runE (init false) [.callStart, .startOk, .sampled, .chans, .prepared 2, .activate, .runStarted,
    .loopStart, .tick, .send, .gotBlock, .callStop, .callStop, .stopDecide, .stopSwitched, .processed, .stopAlready, .tick,
    .send, .gotBlock, .processed, .abortSeen, .gotClosed, .loopDeactivate, .stopWaited, .stopCleaned] = some s ∧
    (decide (s.stopsDone = 2 ∧ stoppers s = 0 ∧ s.st = .inactive)) = true :=
  exists_of_run _ _ (by decide)

/-- a shutting-down state with a Stop caller waiting (hypotheses of `C10_stop_measure`) is reachable -/
example : ∃ s, runE (init false) [.callStart, .startOk, .sampled, .chans, .prepared 2, .activate, .runStarted,
    .loopStart, .callStop, .stopDecide, .stopSwitched] = some s ∧
    (decide (s.sEnter = 0 ∧ s.sp = .idle ∧ s.st ≠ .active ∧ s.kWait = 1)) = true :=
  exists_of_run _ _ (by decide)

/-- a failed Start of a source that opens resources in `Sample` is a run of the model -/
example : ∃ s, run (init true) [.callStart, .startOk, .sampleFailed, .setInactive] = some s ∧
    (decide (s.res = false ∧ s.st = .inactive)) = true :=
  exists_of_run _ _ (by decide)

end DastardV.C10
