/-
C09 — property theorems for the trigger-broker model (`Model/C09.lean`).
-/
import DastardV.Model.C09
namespace DastardV.C09

/-- Broker invariant: the pair list has no duplicates, no self connections, every index is
in range, and the fast-path counter equals the number of connections. -/
structure Good (b : Broker) : Prop where
  nodup : b.conns.Nodup
  count_eq : b.count = b.conns.length
  inr : ∀ p ∈ b.conns, inRange b.n p.1 = true ∧ inRange b.n p.2 = true ∧ p.1 ≠ p.2

theorem good_new (n : Nat) : Good (Broker.new n) := by
  sorry

/-- `AddConnection` as a set operation: afterwards `q` is connected iff it was before, or it is
the requested pair and the request is legal (distinct, both indices in range). -/
theorem add_spec (b : Broker) (hg : Good b) (s r : Int) :
    Good (add b s r).1 ∧ (add b s r).1.n = b.n ∧ (add b s r).1.latest = b.latest ∧
    ∀ q, q ∈ (add b s r).1.conns ↔
      (q ∈ b.conns ∨ (q = (s, r) ∧ s ≠ r ∧ inRange b.n s = true ∧ inRange b.n r = true)) := by
  sorry

/-- `DeleteConnection` as a set operation. -/
theorem del_spec (b : Broker) (hg : Good b) (s r : Int) :
    Good (del b s r).1 ∧ (del b s r).1.n = b.n ∧ (del b s r).1.latest = b.latest ∧
    ∀ q, q ∈ (del b s r).1.conns ↔ (q ∈ b.conns ∧ ¬ (q = (s, r) ∧ inRange b.n r = true)) := by
  sorry

theorem stop_spec (b : Broker) : Good (stopAll b) ∧ (stopAll b).conns = [] ∧ (stopAll b).n = b.n := by
  sorry

/-- a request (list of pairs) applied with `add`: union with the legal pairs of the request -/
theorem applyAll_add_spec (b : Broker) (hg : Good b) (ps : List (Int × Int)) :
    Good (applyAll add b ps) ∧ (applyAll add b ps).n = b.n ∧
    ∀ q, q ∈ (applyAll add b ps).conns ↔
      (q ∈ b.conns ∨ (q ∈ ps ∧ q.1 ≠ q.2 ∧ inRange b.n q.1 = true ∧ inRange b.n q.2 = true)) := by
  sorry

/-- a request applied with `del`: difference -/
theorem applyAll_del_spec (b : Broker) (hg : Good b) (ps : List (Int × Int)) :
    Good (applyAll del b ps) ∧ (applyAll del b ps).n = b.n ∧
    ∀ q, q ∈ (applyAll del b ps).conns ↔ (q ∈ b.conns ∧ ¬ (q ∈ ps ∧ inRange b.n q.2 = true)) := by
  sorry

/-- set-theoretic specification of a whole request history: membership of pair `q`
(`Op.dist` does not change connections) -/
def specStep (n : Nat) (q : Int × Int) (acc : Prop) : Op → Prop
  | .add ps => acc ∨ (q ∈ ps ∧ q.1 ≠ q.2 ∧ inRange n q.1 = true ∧ inRange n q.2 = true)
  | .del ps => acc ∧ ¬ (q ∈ ps ∧ inRange n q.2 = true)
  | .stop => False
  | .couple m =>
    let ef := evenPairs n
    let fe := ef.map fun (a, c) => (c, a)
    let a1 := if m = 3 then acc ∨ (q ∈ ef ∧ q.1 ≠ q.2 ∧ inRange n q.1 = true ∧ inRange n q.2 = true)
              else acc ∧ ¬ (q ∈ ef ∧ inRange n q.2 = true)
    if m = 2 then a1 ∨ (q ∈ fe ∧ q.1 ≠ q.2 ∧ inRange n q.1 = true ∧ inRange n q.2 = true)
    else a1 ∧ ¬ (q ∈ fe ∧ inRange n q.2 = true)
  | .dist _ => acc

def specHist (n : Nat) (q : Int × Int) : Prop → List Op → Prop
  | acc, [] => acc
  | acc, o :: os => specHist n q (specStep n q acc o) os

def runHist : Broker → List Op → Broker
  | b, [] => b
  | b, o :: os => runHist (step b o).1 os

/-- **C09_set_semantics**: after any sequence of add / delete / stop-coupling / err-fb-coupling
requests (arbitrary, also out-of-range, negative, repeated or self indices), interleaved with
distributions, the connection set equals the set-theoretic result; adds and deletes are
idempotent, self connections ignored, out-of-range indices never take effect; the invariant
(in particular counter = cardinality) holds. -/
theorem C09_set_semantics (n : Nat) (ops : List Op) :
    Good (runHist (Broker.new n) ops) ∧
    ∀ q, q ∈ (runHist (Broker.new n) ops).conns ↔ specHist n q False ops := by
  sorry

/-- **count_eq_card**: the fast-path counter of `Distribute` is the number of live connections,
so skipping distribution when it is zero is sound. -/
theorem count_eq_card (n : Nat) (ops : List Op) :
    (runHist (Broker.new n) ops).count = ((runHist (Broker.new n) ops).conns.length : Int) :=
  (C09_set_semantics n ops).1.count_eq

/-- **C09_report_eq_used**: the state reported to clients is exactly the set `Distribute` uses. -/
theorem C09_report_eq_used (b : Broker) (rx : Int) (s : Int) :
    s ∈ sourcesOf b rx ↔ (s, rx) ∈ reported b := by
  sorry

/-- **C09_no_oob**: under the invariant, `Distribute` never indexes outside the primary table
(one frame list per channel). -/
theorem C09_no_oob (b : Broker) (hg : Good b) (prim : List (List Int)) (hl : prim.length = b.n) :
    (distribute b prim).2 ≠ DistRes.panic := by
  sorry

/-- multiset equality of integer lists, as equal counts -/
def SameMultiset (a b : List Int) : Prop := ∀ x, a.count x = b.count x

theorem sortInts_perm (xs : List Int) : SameMultiset (sortInts xs) xs := by
  sorry

/-- **C09_distribute_exact**: when any primary exists, every receiver with at least one incoming
connection gets exactly the multiset union of its sources' primary frames (sorted), and a
receiver with no incoming connection gets no entry. -/
theorem C09_distribute_exact (b : Broker) (hg : Good b) (prim : List (List Int))
    (hl : prim.length = b.n) (hp : (prim.map List.length).sum ≠ 0) :
    ∃ m, (distribute b prim).2 = DistRes.ok m ∧
      (∀ rx fr, (rx, fr) ∈ m →
        sourcesOf b rx ≠ [] ∧ rx < b.n ∧
        SameMultiset fr ((sourcesOf b rx).flatMap fun s => prim[s.toNat]?.getD [])) ∧
      (∀ rx : Nat, rx < b.n → sourcesOf b rx ≠ [] → ∃ fr, (rx, fr) ∈ m) := by
  sorry

/-- non-vacuity: a small history reaches a state with connections where `Good` holds -/
example : (runHist (Broker.new 4) [.add [(0, 1), (2, 1), (9, 1), (1, 1)], .del [(2, 1)]]).conns = [(0, 1)] := by
  decide

end DastardV.C09
