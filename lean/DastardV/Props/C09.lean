/-
C09 — property theorems for the trigger-broker model (`Model/C09.lean`).
-/
import DastardV.Model.C09
namespace DastardV.C09

/-- Broker invariant: the pair list has no duplicates, no self connections, every index is
in range, and the fast-path counter equals the number of connections. -/
structure Good (b : Broker) : Prop where
  nodup : b.conns.Nodup
  count_eq : b.count = b.conns.length
  inr : ∀ p ∈ b.conns, inRange b.n p.1 = true ∧ inRange b.n p.2 = true ∧ p.1 ≠ p.2

theorem good_new (n : Nat) : Good (Broker.new n) := by
  constructor <;> simp [Broker.new]

/-- `AddConnection` as a set operation: afterwards `q` is connected iff it was before, or it is
the requested pair and the request is legal (distinct, both indices in range). -/
theorem add_spec (b : Broker) (hg : Good b) (s r : Int) :
    Good (add b s r).1 ∧ (add b s r).1.n = b.n ∧ (add b s r).1.latest = b.latest ∧
    ∀ q, q ∈ (add b s r).1.conns ↔
      (q ∈ b.conns ∨ (q = (s, r) ∧ s ≠ r ∧ inRange b.n s = true ∧ inRange b.n r = true)) := by
  unfold add
  split
  · next h => exact ⟨hg, rfl, rfl, fun q => by simp [h]⟩
  split
  · next h1 h =>
    refine ⟨hg, rfl, rfl, fun q => ?_⟩
    simp at h; simp [h]
  split
  · next h1 h2 h =>
    refine ⟨hg, rfl, rfl, fun q => ?_⟩
    simp at h; simp [h]
  split
  · next h1 h2 h3 h =>
    refine ⟨hg, rfl, rfl, fun q => ?_⟩
    simp at h
    constructor
    · exact Or.inl
    · rintro (hq | ⟨rfl, _⟩)
      · exact hq
      · exact h
  · next h1 h2 h3 h =>
    simp at h2 h3 h
    refine ⟨⟨?_, ?_, ?_⟩, rfl, rfl, fun q => ?_⟩
    · simp only
      rw [List.nodup_append]
      refine ⟨hg.nodup, by simp, ?_⟩
      intro a ha c hc
      simp at hc
      subst hc
      intro hac; subst hac; exact h ha
    · simp [hg.count_eq]
    · intro p hp
      simp only [List.mem_append, List.mem_singleton] at hp
      rcases hp with hp | rfl
      · exact hg.inr p hp
      · exact ⟨h3, h2, h1⟩
    · simp only [List.mem_append, List.mem_singleton]
      constructor
      · rintro (hq | rfl)
        · exact Or.inl hq
        · exact Or.inr ⟨rfl, h1, h3, h2⟩
      · rintro (hq | ⟨rfl, _⟩)
        · exact Or.inl hq
        · exact Or.inr rfl

/-- `DeleteConnection` as a set operation. -/
theorem del_spec (b : Broker) (hg : Good b) (s r : Int) :
    Good (del b s r).1 ∧ (del b s r).1.n = b.n ∧ (del b s r).1.latest = b.latest ∧
    ∀ q, q ∈ (del b s r).1.conns ↔ (q ∈ b.conns ∧ ¬ (q = (s, r) ∧ inRange b.n r = true)) := by
  unfold del
  split
  · next h =>
    refine ⟨hg, rfl, rfl, fun q => ?_⟩
    simp at h; simp [h]
  split
  · next h1 h =>
    simp at h1 h
    refine ⟨⟨?_, ?_, ?_⟩, rfl, rfl, fun q => ?_⟩
    · exact hg.nodup.erase _
    · simp only
      rw [List.length_erase_of_mem h, hg.count_eq]
      have := List.length_pos_of_mem h
      omega
    · intro p hp
      exact hg.inr p (List.mem_of_mem_erase hp)
    · simp only
      rw [hg.nodup.mem_erase_iff]
      simp [h1, and_comm]
  · next h1 h =>
    simp at h1 h
    refine ⟨hg, rfl, rfl, fun q => ?_⟩
    constructor
    · intro hq
      refine ⟨hq, ?_⟩
      rintro ⟨rfl, _⟩
      exact h hq
    · exact fun hq => hq.1

theorem stop_spec (b : Broker) : Good (stopAll b) ∧ (stopAll b).conns = [] ∧ (stopAll b).n = b.n := by
  refine ⟨⟨?_, ?_, ?_⟩, rfl, rfl⟩ <;> simp [stopAll]

/-- a request (list of pairs) applied with `add`: union with the legal pairs of the request -/
theorem applyAll_add_spec (b : Broker) (hg : Good b) (ps : List (Int × Int)) :
    Good (applyAll add b ps) ∧ (applyAll add b ps).n = b.n ∧
    ∀ q, q ∈ (applyAll add b ps).conns ↔
      (q ∈ b.conns ∨ (q ∈ ps ∧ q.1 ≠ q.2 ∧ inRange b.n q.1 = true ∧ inRange b.n q.2 = true)) := by
  induction ps generalizing b with
  | nil => exact ⟨hg, rfl, fun q => by simp [applyAll]⟩
  | cons p ps ih =>
    obtain ⟨s, r⟩ := p
    obtain ⟨hg1, hn1, _, hm1⟩ := add_spec b hg s r
    obtain ⟨hg2, hn2, hm2⟩ := ih (add b s r).1 hg1
    refine ⟨hg2, hn2.trans hn1, fun q => ?_⟩
    show q ∈ (applyAll add (add b s r).1 ps).conns ↔ _
    rw [hm2, hm1, hn1]
    simp only [List.mem_cons]
    constructor
    · rintro ((hq | ⟨rfl, h1, h2, h3⟩) | ⟨h0, h1, h2, h3⟩)
      · exact Or.inl hq
      · exact Or.inr ⟨Or.inl rfl, h1, h2, h3⟩
      · exact Or.inr ⟨Or.inr h0, h1, h2, h3⟩
    · rintro (hq | ⟨rfl | h0, h1, h2, h3⟩)
      · exact Or.inl (Or.inl hq)
      · exact Or.inl (Or.inr ⟨rfl, h1, h2, h3⟩)
      · exact Or.inr ⟨h0, h1, h2, h3⟩

/-- a request applied with `del`: difference -/
theorem applyAll_del_spec (b : Broker) (hg : Good b) (ps : List (Int × Int)) :
    Good (applyAll del b ps) ∧ (applyAll del b ps).n = b.n ∧
    ∀ q, q ∈ (applyAll del b ps).conns ↔ (q ∈ b.conns ∧ ¬ (q ∈ ps ∧ inRange b.n q.2 = true)) := by
  induction ps generalizing b with
  | nil => exact ⟨hg, rfl, fun q => by simp [applyAll]⟩
  | cons p ps ih =>
    obtain ⟨s, r⟩ := p
    obtain ⟨hg1, hn1, _, hm1⟩ := del_spec b hg s r
    obtain ⟨hg2, hn2, hm2⟩ := ih (del b s r).1 hg1
    refine ⟨hg2, hn2.trans hn1, fun q => ?_⟩
    show q ∈ (applyAll del (del b s r).1 ps).conns ↔ _
    rw [hm2, hm1, hn1]
    simp only [List.mem_cons]
    constructor
    · rintro ⟨⟨hq, h1⟩, h2⟩
      refine ⟨hq, ?_⟩
      rintro ⟨rfl | h0, h3⟩
      · exact h1 ⟨rfl, h3⟩
      · exact h2 ⟨h0, h3⟩
    · rintro ⟨hq, h1⟩
      refine ⟨⟨hq, ?_⟩, ?_⟩
      · rintro ⟨rfl, h3⟩
        exact h1 ⟨Or.inl rfl, h3⟩
      · rintro ⟨h0, h3⟩
        exact h1 ⟨Or.inr h0, h3⟩

/-- set-theoretic specification of a whole request history: membership of pair `q`
(`Op.dist` does not change connections) -/
def specStep (n : Nat) (q : Int × Int) (acc : Prop) : Op → Prop
  | .add ps => acc ∨ (q ∈ ps ∧ q.1 ≠ q.2 ∧ inRange n q.1 = true ∧ inRange n q.2 = true)
  | .del ps => acc ∧ ¬ (q ∈ ps ∧ inRange n q.2 = true)
  | .stop => False
  | .couple m =>
    let ef := evenPairs n
    let fe := ef.map fun (a, c) => (c, a)
    let a1 := if m = 3 then acc ∨ (q ∈ ef ∧ q.1 ≠ q.2 ∧ inRange n q.1 = true ∧ inRange n q.2 = true)
              else acc ∧ ¬ (q ∈ ef ∧ inRange n q.2 = true)
    if m = 2 then a1 ∨ (q ∈ fe ∧ q.1 ≠ q.2 ∧ inRange n q.1 = true ∧ inRange n q.2 = true)
    else a1 ∧ ¬ (q ∈ fe ∧ inRange n q.2 = true)
  | .dist _ => acc

def specHist (n : Nat) (q : Int × Int) : Prop → List Op → Prop
  | acc, [] => acc
  | acc, o :: os => specHist n q (specStep n q acc o) os

def runHist : Broker → List Op → Broker
  | b, [] => b
  | b, o :: os => runHist (step b o).1 os

/-- `SetCoupling` as a set operation (the `.couple` clause of `specStep`) -/
theorem setCoupling_spec (b : Broker) (hg : Good b) (m : Nat) :
    Good (setCoupling b m) ∧ (setCoupling b m).n = b.n ∧
    ∀ q, q ∈ (setCoupling b m).conns ↔ specStep b.n q (q ∈ b.conns) (.couple m) := by
  unfold setCoupling specStep
  simp only
  by_cases h3 : m = 3
  · have h2 : ¬ m = 2 := by omega
    simp only [h3, if_true]
    obtain ⟨hg1, hn1, hm1⟩ := applyAll_add_spec b hg (evenPairs b.n)
    obtain ⟨hg2, hn2, hm2⟩ := applyAll_del_spec _ hg1
      ((evenPairs b.n).map fun (a, c) => (c, a))
    refine ⟨by simpa using hg2, by simpa [hn1] using hn2, fun q => ?_⟩
    have := hm2 q
    rw [hm1, hn1] at this
    simpa using this
  · simp only [h3, if_false]
    obtain ⟨hg1, hn1, hm1⟩ := applyAll_del_spec b hg (evenPairs b.n)
    by_cases h2 : m = 2
    · simp only [h2, if_true]
      obtain ⟨hg2, hn2, hm2⟩ := applyAll_add_spec _ hg1
        ((evenPairs b.n).map fun (a, c) => (c, a))
      refine ⟨hg2, hn2.trans hn1, fun q => ?_⟩
      have := hm2 q
      rw [hm1, hn1] at this
      exact this
    · simp only [h2, if_false]
      obtain ⟨hg2, hn2, hm2⟩ := applyAll_del_spec _ hg1
        ((evenPairs b.n).map fun (a, c) => (c, a))
      refine ⟨hg2, hn2.trans hn1, fun q => ?_⟩
      have := hm2 q
      rw [hm1, hn1] at this
      exact this

theorem distribute_conns (b : Broker) (prim : List (List Int)) :
    (distribute b prim).1 = { b with latest := prim } := by
  unfold distribute
  simp only
  split
  · rfl
  · split <;> rfl

/-- one request preserves the invariant and acts on membership as `specStep` -/
theorem step_spec (b : Broker) (hg : Good b) (o : Op) :
    Good (step b o).1 ∧ (step b o).1.n = b.n ∧
    ∀ q, q ∈ (step b o).1.conns ↔ specStep b.n q (q ∈ b.conns) o := by
  cases o with
  | add ps => exact applyAll_add_spec b hg ps
  | del ps => exact applyAll_del_spec b hg ps
  | stop =>
    obtain ⟨h1, h2, h3⟩ := stop_spec b
    exact ⟨h1, h3, fun q => by simp [step, h2, specStep]⟩
  | couple m => exact setCoupling_spec b hg m
  | dist prim =>
    show Good (distribute b prim).1 ∧ (distribute b prim).1.n = b.n ∧
      ∀ q, q ∈ (distribute b prim).1.conns ↔ q ∈ b.conns
    rw [distribute_conns]
    exact ⟨⟨hg.nodup, hg.count_eq, hg.inr⟩, rfl, fun q => Iff.rfl⟩

theorem specStep_congr (n : Nat) (q : Int × Int) (a a' : Prop) (h : a ↔ a') (o : Op) :
    specStep n q a o ↔ specStep n q a' o := by
  have : a = a' := propext h
  rw [this]

theorem runHist_spec (n : Nat) (ops : List Op) (b : Broker) (hg : Good b) (hn : b.n = n)
    (acc : Int × Int → Prop) (hacc : ∀ q, q ∈ b.conns ↔ acc q) :
    Good (runHist b ops) ∧ ∀ q, q ∈ (runHist b ops).conns ↔ specHist n q (acc q) ops := by
  induction ops generalizing b acc with
  | nil => exact ⟨hg, hacc⟩
  | cons o os ih =>
    obtain ⟨hg1, hn1, hm1⟩ := step_spec b hg o
    exact ih (step b o).1 hg1 (hn1.trans hn) (fun q => specStep n q (acc q) o) (fun q => by
      rw [hm1 q, hn]
      exact specStep_congr n q _ _ (hacc q) o)

/-- **C09_set_semantics**: after any sequence of add / delete / stop-coupling / err-fb-coupling
requests (arbitrary, also out-of-range, negative, repeated or self indices), interleaved with
distributions, the connection set equals the set-theoretic result; adds and deletes are
idempotent, self connections ignored, out-of-range indices never take effect; the invariant
(in particular counter = cardinality) holds. -/
theorem C09_set_semantics (n : Nat) (ops : List Op) :
    Good (runHist (Broker.new n) ops) ∧
    ∀ q, q ∈ (runHist (Broker.new n) ops).conns ↔ specHist n q False ops := by
  exact runHist_spec n ops (Broker.new n) (good_new n) rfl (fun _ => False)
    (fun q => by simp [Broker.new])

/-- **count_eq_card**: the fast-path counter of `Distribute` is the number of live connections,
so skipping distribution when it is zero is sound. -/
theorem count_eq_card (n : Nat) (ops : List Op) :
    (runHist (Broker.new n) ops).count = ((runHist (Broker.new n) ops).conns.length : Int) :=
  (C09_set_semantics n ops).1.count_eq

/-- **C09_report_eq_used**: the state reported to clients is exactly the set `Distribute` uses. -/
theorem C09_report_eq_used (b : Broker) (rx : Int) (s : Int) :
    s ∈ sourcesOf b rx ↔ (s, rx) ∈ reported b := by
  simp [sourcesOf, reported]

theorem gather_some (latest : List (List Int)) (ss : List Int)
    (h : ∀ s ∈ ss, 0 ≤ s ∧ s.toNat < latest.length) :
    gather latest ss = some (ss.flatMap fun s => latest[s.toNat]?.getD []) := by
  induction ss with
  | nil => rfl
  | cons s ss ih =>
    have hs := h s (by simp)
    have := ih (fun x hx => h x (by simp [hx]))
    simp [gather, framesOf, hs.1, this, List.getElem?_eq_getElem hs.2]

/-- under in-range sources the per-receiver loop of `Distribute` succeeds and its result is
characterised entry by entry -/
theorem distRx_some (b : Broker) (latest : List (List Int))
    (h : ∀ p ∈ b.conns, 0 ≤ p.1 ∧ p.1.toNat < latest.length) (rxs : List Nat) :
    ∃ m, distRx b latest rxs = some m ∧
      ∀ (rx : Nat) (fr : List Int), (rx, fr) ∈ m ↔
        (rx ∈ rxs ∧ sourcesOf b rx ≠ [] ∧
          fr = sortInts ((sourcesOf b rx).flatMap fun s => latest[s.toNat]?.getD [])) := by
  induction rxs with
  | nil => exact ⟨[], rfl, by simp⟩
  | cons r rs ih =>
    obtain ⟨m, hm, hc⟩ := ih
    have hsrc : ∀ s ∈ sourcesOf b r, 0 ≤ s ∧ s.toNat < latest.length := by
      intro s hs
      have := (C09_report_eq_used b r s).1 hs
      exact h _ this
    have hgat := gather_some latest _ hsrc
    by_cases he : sourcesOf b r = []
    · refine ⟨m, by simp [distRx, hm, he], fun rx fr => ?_⟩
      rw [hc]
      constructor
      · rintro ⟨h1, h2, h3⟩
        exact ⟨List.mem_cons_of_mem _ h1, h2, h3⟩
      · rintro ⟨h1, h2, h3⟩
        rcases List.mem_cons.1 h1 with rfl | h1
        · exact absurd he h2
        · exact ⟨h1, h2, h3⟩
    · refine ⟨(r, sortInts ((sourcesOf b r).flatMap fun s => latest[s.toNat]?.getD [])) :: m,
        by simp [distRx, hm, he, hgat], fun rx fr => ?_⟩
      rw [List.mem_cons, hc]
      constructor
      · rintro (h0 | ⟨h1, h2, h3⟩)
        · obtain ⟨rfl, rfl⟩ := Prod.mk.inj h0
          exact ⟨List.mem_cons_self, he, rfl⟩
        · exact ⟨List.mem_cons_of_mem _ h1, h2, h3⟩
      · rintro ⟨h1, h2, h3⟩
        rcases List.mem_cons.1 h1 with rfl | h1
        · exact Or.inl (by rw [h3])
        · exact Or.inr ⟨h1, h2, h3⟩

theorem good_sources_inr (b : Broker) (hg : Good b) (prim : List (List Int))
    (hl : prim.length = b.n) : ∀ p ∈ b.conns, 0 ≤ p.1 ∧ p.1.toNat < prim.length := by
  intro p hp
  have := (hg.inr p hp).1
  simp [inRange] at this
  omega

/-- **C09_no_oob**: under the invariant, `Distribute` never indexes outside the primary table
(one frame list per channel). -/
theorem C09_no_oob (b : Broker) (hg : Good b) (prim : List (List Int)) (hl : prim.length = b.n) :
    (distribute b prim).2 ≠ DistRes.panic := by
  obtain ⟨m, hm, _⟩ := distRx_some b prim (good_sources_inr b hg prim hl) (List.range b.n)
  unfold distribute
  simp only
  split
  · simp
  · rw [hm]; simp

/-- multiset equality of integer lists, as equal counts -/
def SameMultiset (a b : List Int) : Prop := ∀ x, a.count x = b.count x

theorem insertSorted_count (x y : Int) (l : List Int) :
    (insertSorted x l).count y = (x :: l).count y := by
  induction l with
  | nil => rfl
  | cons z zs ih =>
    unfold insertSorted
    split
    · rfl
    · simp only [List.count_cons] at ih ⊢
      rw [ih]; omega

theorem sortInts_perm (xs : List Int) : SameMultiset (sortInts xs) xs := by
  intro y
  induction xs with
  | nil => rfl
  | cons x xs ih =>
    show (insertSorted x (sortInts xs)).count y = _
    rw [insertSorted_count, List.count_cons, List.count_cons, ih]

/-- **C09_distribute_exact**: when any primary exists, every receiver with at least one incoming
connection gets exactly the multiset union of its sources' primary frames (sorted), and a
receiver with no incoming connection gets no entry. -/
theorem C09_distribute_exact (b : Broker) (hg : Good b) (prim : List (List Int))
    (hl : prim.length = b.n) (hp : (prim.map List.length).sum ≠ 0) :
    ∃ m, (distribute b prim).2 = DistRes.ok m ∧
      (∀ rx fr, (rx, fr) ∈ m →
        sourcesOf b rx ≠ [] ∧ rx < b.n ∧
        SameMultiset fr ((sourcesOf b rx).flatMap fun s => prim[s.toNat]?.getD [])) ∧
      (∀ rx : Nat, rx < b.n → sourcesOf b rx ≠ [] → ∃ fr, (rx, fr) ∈ m) := by
  obtain ⟨m, hm, hc⟩ := distRx_some b prim (good_sources_inr b hg prim hl) (List.range b.n)
  unfold distribute
  simp only
  by_cases h0 : b.count = 0
  · have hnil : b.conns = [] := by
      have := hg.count_eq
      rw [h0] at this
      exact List.eq_nil_of_length_eq_zero (by omega)
    refine ⟨[], by simp [h0], by simp, fun rx _ hne => ?_⟩
    exact absurd (by simp [sourcesOf, hnil]) hne
  · refine ⟨m, by simp [h0, hp, hm], fun rx fr hmem => ?_, fun rx hrx hne => ?_⟩
    · obtain ⟨h1, h2, h3⟩ := (hc rx fr).1 hmem
      refine ⟨h2, List.mem_range.1 h1, ?_⟩
      rw [h3]
      exact sortInts_perm _
    · exact ⟨_, (hc rx _).2 ⟨List.mem_range.2 hrx, hne, rfl⟩⟩

/-- non-vacuity: a small history reaches a state with connections where `Good` holds -/
example : (runHist (Broker.new 4) [.add [(0, 1), (2, 1), (9, 1), (1, 1)], .del [(2, 1)]]).conns = [(0, 1)] := by
  decide

end DastardV.C09
