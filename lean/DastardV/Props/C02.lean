/-
C02 — no pulse lost or invented: triggers are sound and complete across block edges.

Model: `Model/Trig.lean` (the trigger passes transcribed loop for loop), one channel fed any
sequence of blocks (`runChan`: append → `triggerData` → trim, the per-channel projection of
`ProcessSegments`).  `G` is the delivered stream (sample 0 has frame `f0`), positions are
indices into `G`.

Proved for ALL streams, ALL partitions into blocks, ALL edge/level/auto settings:

* `C02_edge_complete`        every sample satisfying the edge criterion that has `npre` samples
                             of history in the epoch and `nsamp − npre` samples (+1) after it is a
                             trigger or lies in the dead time `(T, T+nsamp]` of an emitted trigger
                             — from the first block after a start (restored or default settings)
                             and (`…_after_reconfigure`) after a ConfigureTriggers request arriving
                             at any point of the stream;
* `C02_sound`                any trigger combination: every trigger sits on a sample satisfying an enabled
                             criterion (or auto is on); `C02_edge_only_sound` is the edge-only case;
* `C02_edge_only_no_overlap` edge-only: successive triggers of an epoch are ≥ one record apart;
* per block (any trigger combination): `C02_block_edge` (sound, complete, spaced),
  `C02_block_level` (sound; complete up to one record before/after a found trigger; separated),
  `C02_block_auto_in_range`.
* `C02_level_complete`       the level clause across blocks (invariant `LevelInv`): every level crossing is
                             a trigger or within one record before/after an emitted trigger.
* `C02_auto_gap`             the auto clause across blocks (invariant `AutoInv`, Lemmas/AutoGlobal): with auto
                             trigger and no veto the trigger frames of the whole run are ascending and
                             neighbours are at most `delay + nsamp` apart (`delay` = auto delay, or one
                             record if longer); window form `C02_auto_dense`; after a reconfiguration
                             `C02_auto_gap_after_reconfigure`.
With a veto the auto clause does not apply (the property says "no veto"); the veto path is covered by
`C02_block_auto_in_range` (no crash, in range) and judged at run time by the oracle `chkC02`.
-/
import DastardV.Lemmas.LevelGlobal
import DastardV.Lemmas.AutoGlobal
import DastardV.Lemmas.PipeProj
import DastardV.Lemmas.Reconf
import DastardV.Lemmas.SoundGlobal
namespace DastardV.C02
open Trig

/-- a channel at the start of an epoch: empty buffer, hold-off reference far in the past -/
structure Fresh (c : Chan) (ts : TS) (npre nsamp : Int) (f0 : Int) : Prop where
  hbuf : c.buf = []
  hts : c.ts = ts
  hnpre : c.npre = npre
  hnsamp : c.nsamp = nsamp
  hsync : c.emt.nsamp = nsamp          -- `PrepareRun` / `ConfigureTrigger` / `ConfigurePulseLengths` keep this copy in sync
  hlast : c.lastTrig + nsamp ≤ f0      -- `MinInt64/4`: "far in the past"

theorem fresh_inv {c : Chan} {ts : TS} {npre nsamp f0 : Int} (sg : Bool) (hv : 3 ≤ npre ∧ npre < nsamp)
    (h : Fresh c ts npre nsamp f0) : EdgeInv ts npre nsamp sg 0 [] f0 c [] 0 := by
  obtain ⟨hbuf, hts, hnpre, hnsamp, hsync, hlast⟩ := h
  refine ⟨by simp, by simp [hbuf], ⟨hts, hnpre, hnsamp, hsync, Or.inr hbuf⟩, ?_, by simp, Or.inr hlast,
    Or.inl (Nat.le_refl _), by simp, by simp, by simp⟩
  intro p h1 h2
  simp at h1 h2
  omega

/-- **No pulse lost (edge), from the first block after a start.**  `c` is the channel as
`PrepareRun` leaves it; the blocks `segs` have any lengths. -/
theorem C02_edge_complete {c c' : Chan} {ts : TS} {npre nsamp f0 : Int} {tp : Nat → Int × Int} {n : Nat} {sg : Bool} {zt : ZT}
    (hv : 3 ≤ npre ∧ npre < nsamp) (hem : ts.edgeMulti = false) (hedge : ts.edge = true)
    (hfresh : Fresh c ts npre nsamp f0) (segs : List (List Nat)) {tr : List Int}
    (hrun : runChan zt tp sg n c f0 segs = some (c', tr)) :
    ∀ p : Int, npre ≤ p → p + (nsamp - npre) < (segs.flatten.length : Int) →
      edgeAtG (cfgChan ts sg) segs.flatten p = true → Cov nsamp f0 tr p := by
  have h0 := fresh_inv sg hv hfresh
  obtain ⟨k', hinv⟩ := runChan_inv hv hem hedge segs n [] c [] 0 c' tr h0 (by simpa using hrun)
  rw [List.nil_append, List.nil_append] at hinv
  intro p h1 h2 h3
  exact hinv.covered p (by simpa using h1) (by omega) h3

/-- edge-only: **no pulse invented** — every trigger frame satisfies the edge criterion -/
theorem C02_edge_only_sound {c c' : Chan} {ts : TS} {npre nsamp f0 : Int} {tp : Nat → Int × Int} {n : Nat} {sg : Bool} {zt : ZT}
    (hv : 3 ≤ npre ∧ npre < nsamp) (hem : ts.edgeMulti = false) (hedge : ts.edge = true)
    (hl : ts.level = false) (ha : ts.auto = false)
    (hfresh : Fresh c ts npre nsamp f0) (segs : List (List Nat)) {tr : List Int}
    (hrun : runChan zt tp sg n c f0 segs = some (c', tr)) :
    ∀ T ∈ tr, edgeAtG (cfgChan ts sg) segs.flatten (T - f0) = true := by
  have h0 := fresh_inv sg hv hfresh
  obtain ⟨k', hinv⟩ := runChan_inv hv hem hedge segs n [] c [] 0 c' tr h0 (by simpa using hrun)
  rw [List.nil_append, List.nil_append] at hinv
  intro T hT
  exact hinv.sound hl ha T hT

/-- edge-only: **records of one epoch never overlap** (successive triggers ≥ `nsamp` apart) -/
theorem C02_edge_only_no_overlap {c c' : Chan} {ts : TS} {npre nsamp f0 : Int} {tp : Nat → Int × Int} {n : Nat} {sg : Bool} {zt : ZT}
    (hv : 3 ≤ npre ∧ npre < nsamp) (hem : ts.edgeMulti = false) (hedge : ts.edge = true)
    (hl : ts.level = false) (ha : ts.auto = false)
    (hfresh : Fresh c ts npre nsamp f0) (segs : List (List Nat)) {tr : List Int}
    (hrun : runChan zt tp sg n c f0 segs = some (c', tr)) :
    tr.Pairwise (fun a b => a + nsamp ≤ b) := by
  have h0 := fresh_inv sg hv hfresh
  obtain ⟨k', hinv⟩ := runChan_inv hv hem hedge segs n [] c [] 0 c' tr h0 (by simpa using hrun)
  rw [List.nil_append, List.nil_append] at hinv
  exact hinv.spaced hl ha

/-- the channel right after an accepted ConfigureTriggers request that arrived when the stream
`G` had been delivered and the buffer held its suffix from position `k`: a new epoch begins at
position `|G|`. -/
theorem reconfigured_inv {c : Chan} {ts : TS} {npre nsamp f0 : Int} (sg : Bool) {G : List Nat} {k : Nat}
    (hk : k ≤ G.length) (hbuf : c.buf = G.drop k) (hts : c.ts = ts) (hnpre : c.npre = npre)
    (hnsamp : c.nsamp = nsamp) (hsync : c.emt.nsamp = nsamp) (hsg : c.signed = sg)
    (hlast : c.lastTrig + nsamp ≤ f0) (hv : 3 ≤ npre ∧ npre < nsamp) :
    EdgeInv ts npre nsamp sg G.length G f0 c [] k := by
  refine ⟨hk, hbuf, ⟨hts, hnpre, hnsamp, hsync, Or.inl hsg⟩, ?_, by simp, Or.inr hlast,
    Or.inl hk, by simp, by simp, by simp⟩
  intro p h1 h2
  omega

/-- **No pulse lost (edge), after a reconfiguration at any point of the stream**: samples with
`npre` samples of history since the request are covered by the triggers emitted since. -/
theorem C02_edge_complete_after_reconfigure {c c' : Chan} {ts : TS} {npre nsamp f0 : Int} {tp : Nat → Int × Int} {n : Nat} {sg : Bool}
    {zt : ZT} {G : List Nat} {k : Nat}
    (hv : 3 ≤ npre ∧ npre < nsamp) (hem : ts.edgeMulti = false) (hedge : ts.edge = true)
    (hk : k ≤ G.length) (hbuf : c.buf = G.drop k) (hts : c.ts = ts) (hnpre : c.npre = npre)
    (hnsamp : c.nsamp = nsamp) (hsync : c.emt.nsamp = nsamp) (hsg : c.signed = sg)
    (hlast : c.lastTrig + nsamp ≤ f0)
    (segs : List (List Nat)) {tr : List Int}
    (hrun : runChan zt tp sg n c (f0 + G.length) segs = some (c', tr)) :
    ∀ p : Int, (G.length : Int) + npre ≤ p → p + (nsamp - npre) < ((G ++ segs.flatten).length : Int) →
      edgeAtG (cfgChan ts sg) (G ++ segs.flatten) p = true → Cov nsamp f0 tr p := by
  have h0 := reconfigured_inv sg hk hbuf hts hnpre hnsamp hsync hsg hlast hv
  obtain ⟨k', hinv⟩ := runChan_inv hv hem hedge segs n G c [] k c' tr h0 hrun
  intro p h1 h2 h3
  have := hinv.covered p h1 (by omega) h3
  simpa using this

/-- `configureTrigger` produces exactly such a channel (given the source-level sync of lengths) -/
theorem configureTrigger_epoch (c : Chan) (ts : TS) (emt : EMT) (hem : ts.edgeMulti = false) :
    let c' := (configureTrigger c ts emt).1
    c'.buf = c.buf ∧ c'.ts = ts ∧ c'.npre = c.npre ∧ c'.nsamp = c.nsamp ∧ c'.emt.nsamp = c.nsamp ∧
      c'.signed = c.signed ∧ c'.lastTrig = -2305843009213693952 := by
  simp [configureTrigger, hem, EMT.reset]

/-- **No pulse lost (edge) after ConfigurePulseLengths.**  That request changes the record lengths and
KEEPS the hold-off reference `T0 = LastTrigger` (`configureLengths_epoch`).  When `T0` lies below the new
search frontier (always the case when the post-trigger length does not grow: the old frontier was
`|G| − (nsamp_old − npre_old)`), every edge-criterion sample with `npre` samples of history since the
request and a complete post-trigger is a trigger of the new epoch or lies in the dead time — measured
with the NEW record length — of one of them or of `T0`. -/
theorem C02_edge_complete_after_configureLengths {c c' : Chan} {ts : TS} {npre nsamp f0 : Int}
    {tp : Nat → Int × Int} {n : Nat} {sg : Bool} {zt : ZT} {G : List Nat} {k : Nat} {T0 : Int}
    (hv : 3 ≤ npre ∧ npre < nsamp) (hem : ts.edgeMulti = false) (hedge : ts.edge = true)
    (hk : k ≤ G.length) (hbuf : c.buf = G.drop k) (hts : c.ts = ts) (hnpre : c.npre = npre)
    (hnsamp : c.nsamp = nsamp) (hsync : c.emt.nsamp = nsamp) (hsg : c.signed = sg)
    (hT0 : c.lastTrig = T0) (hbelow : T0 - f0 < (G.length : Int) + npre - nsamp)
    (hs0 : ts.level = false → ts.auto = false → edgeAtG (cfgChan ts sg) G (T0 - f0) = true)
    (segs : List (List Nat)) {tr : List Int}
    (hrun : runChan zt tp sg n c (f0 + G.length) segs = some (c', tr)) :
    ∀ p : Int, (G.length : Int) + npre ≤ p → p + (nsamp - npre) < ((G ++ segs.flatten).length : Int) →
      edgeAtG (cfgChan ts sg) (G ++ segs.flatten) p = true → Cov nsamp f0 (T0 :: tr) p := by
  have h0 : EdgeInv ts npre nsamp sg G.length G f0 c [T0] k := by
    refine ⟨hk, hbuf, ⟨hts, hnpre, hnsamp, hsync, Or.inl hsg⟩, ?_, ?_, Or.inl (by simp [hT0]), Or.inl hk, ?_, by simp, ?_⟩
    · intro p h1 h2; omega
    · intro T hT; simp at hT; subst hT; exact hbelow
    · intro hl ha T hT; simp at hT; subst hT; exact hs0 hl ha
    · intro _ _ T hT; simp at hT; subst hT; omega
  obtain ⟨k', hinv⟩ := runChan_inv hv hem hedge segs n G c [T0] k c' tr h0 hrun
  intro p h1 h2 h3
  have := hinv.covered p h1 (by omega) h3
  simpa using this

/-- the same for the level clause -/
theorem C02_level_complete_after_configureLengths {c c' : Chan} {ts : TS} {npre nsamp f0 : Int}
    {tp : Nat → Int × Int} {n : Nat} {sg : Bool} {zt : ZT} {G : List Nat} {k : Nat} {T0 : Int}
    (hv : 3 ≤ npre ∧ npre < nsamp) (hem : ts.edgeMulti = false) (hlevel : ts.level = true)
    (hk : k ≤ G.length) (hbuf : c.buf = G.drop k) (hts : c.ts = ts) (hnpre : c.npre = npre)
    (hnsamp : c.nsamp = nsamp) (hsync : c.emt.nsamp = nsamp) (hsg : c.signed = sg)
    (hT0 : c.lastTrig = T0) (hbelow : T0 - f0 < (G.length : Int) + npre - nsamp)
    (segs : List (List Nat)) {tr : List Int}
    (hrun : runChan zt tp sg n c (f0 + G.length) segs = some (c', tr)) :
    ∀ p : Int, (G.length : Int) + npre ≤ p → p + (nsamp - npre) < ((G ++ segs.flatten).length : Int) →
      levelAtG (cfgChan ts sg) (G ++ segs.flatten) p = true → Near nsamp f0 (T0 :: tr) p := by
  have h0 : LevelInv ts npre nsamp sg G.length G f0 c [T0] k := by
    refine ⟨hk, hbuf, ⟨hts, hnpre, hnsamp, hsync, Or.inl hsg⟩, ?_, ?_, Or.inl (by simp [hT0]), Or.inl hk⟩
    · intro p h1 h2; omega
    · intro T hT; simp at hT; subst hT; exact hbelow
  obtain ⟨k', hinv⟩ := runChan_level_inv hv hem hlevel segs n G c [T0] k c' tr h0 hrun
  intro p h1 h2 h3
  have := hinv.covered p h1 (by omega) h3
  simpa using this

/-- `ConfigurePulseLengths` on one channel, when accepted: buffer, trigger settings and hold-off
reference are kept; the lengths and the edge-multi copy of them are the new ones -/
theorem configureLengths_epoch (c : Chan) (nsamp npre : Int) (h : (configureLengths c nsamp npre).2 = false) :
    let c' := (configureLengths c nsamp npre).1
    c'.buf = c.buf ∧ c'.ts = c.ts ∧ c'.npre = npre ∧ c'.nsamp = nsamp ∧ c'.emt.nsamp = nsamp ∧
      c'.signed = c.signed ∧ c'.lastTrig = c.lastTrig := by
  unfold configureLengths at h ⊢
  split at h
  · simp at h
  · rename_i hc
    simp only [hc, if_false]
    exact ⟨rfl, rfl, rfl, rfl, rfl, rfl, rfl⟩

/-! ### Per-block statements for every trigger combination -/

/-- the edge pass of one block: sound, complete up to the dead time, records spaced -/
theorem C02_block_edge (c : Chan) (hv : ValidLen c) (he : c.ts.edge = true) :
    ∃ res, edgePass c = some res ∧ EdgeSpec c ((c.buf.length : Int) + c.npre - c.nsamp) (fpt c) res := by
  obtain ⟨res, h1, _, h3⟩ := edgePass_spec c hv.1 (by obtain ⟨a, b⟩ := hv; omega) (by obtain ⟨a, b⟩ := hv; omega)
  exact ⟨res, h1, h3 he⟩

/-- the level pass of one block -/
theorem C02_block_level (c : Chan) (hv : ValidLen c) (found : List Int) (hf : FoundOK c (fpt c) found) :
    ∃ res, levelLoop c ((c.buf.length : Int) + c.npre - c.nsamp) (fpt c) found [] = some res ∧
      LevelSpec c ((c.buf.length : Int) + c.npre - c.nsamp) (fpt c) found res := by
  obtain ⟨h3, hlt⟩ := hv
  obtain ⟨res, hres, hs⟩ := levelLoop_spec c ((c.buf.length : Int) + c.npre - c.nsamp) (by omega) (by omega) _ (fpt c) found [] (Nat.le_refl _)
    (by have := fpt_ge c; omega) hf
  exact ⟨res, by simpa using hres, hs⟩

/-- the auto pass of one block never panics and keeps every trigger in range -/
theorem C02_block_auto_in_range (c : Chan) (hv : ValidLen c) (found : List Int)
    (hr : ∀ x ∈ found, c.npre ≤ x ∧ x < hiOf c) :
    ∃ res, autoPass c found = some res ∧ ∀ x ∈ res, c.npre ≤ x ∧ x < hiOf c :=
  autoPass_some hv hr

/-! ### The level clause across blocks -/

theorem fresh_level_inv {c : Chan} {ts : TS} {npre nsamp f0 : Int} (sg : Bool) (hv : 3 ≤ npre ∧ npre < nsamp)
    (h : Fresh c ts npre nsamp f0) : LevelInv ts npre nsamp sg 0 [] f0 c [] 0 := by
  obtain ⟨hbuf, hts, hnpre, hnsamp, hsync, hlast⟩ := h
  refine ⟨by simp, by simp [hbuf], ⟨hts, hnpre, hnsamp, hsync, Or.inr hbuf⟩, ?_, by simp, Or.inr hlast,
    Or.inl (Nat.le_refl _)⟩
  intro p h1 h2
  simp at h1 h2
  omega

/-- **No pulse lost (level), from the first block after a start**: every sample satisfying the level
criterion (with `npre` samples of history and a complete post-trigger) is a trigger or lies within one
record length before or after an emitted trigger — for all streams, all block partitions, level alone
or combined with edge and auto triggers. -/
theorem C02_level_complete {c c' : Chan} {ts : TS} {npre nsamp f0 : Int} {tp : Nat → Int × Int} {n : Nat} {sg : Bool} {zt : ZT}
    (hv : 3 ≤ npre ∧ npre < nsamp) (hem : ts.edgeMulti = false) (hlevel : ts.level = true)
    (hfresh : Fresh c ts npre nsamp f0) (segs : List (List Nat)) {tr : List Int}
    (hrun : runChan zt tp sg n c f0 segs = some (c', tr)) :
    ∀ p : Int, npre ≤ p → p + (nsamp - npre) < (segs.flatten.length : Int) →
      levelAtG (cfgChan ts sg) segs.flatten p = true → Near nsamp f0 tr p := by
  have h0 := fresh_level_inv sg hv hfresh
  obtain ⟨k', hinv⟩ := runChan_level_inv hv hem hlevel segs n [] c [] 0 c' tr h0 (by simpa using hrun)
  rw [List.nil_append, List.nil_append] at hinv
  intro p h1 h2 h3
  exact hinv.covered p (by simpa using h1) (by omega) h3

/-! ### The auto clause across blocks -/

theorem fresh_auto_inv {c : Chan} {ts : TS} {npre nsamp f0 : Int} (sg : Bool)
    (h : Fresh c ts npre nsamp f0) : AutoInv ts npre nsamp sg [] f0 c [] 0 := by
  obtain ⟨hbuf, hts, hnpre, hnsamp, hsync, _⟩ := h
  exact ⟨by simp, by simp [hbuf], ⟨hts, hnpre, hnsamp, hsync, Or.inr hbuf⟩, by simp, by simp, by simp,
    by simp, by simp, by simp⟩

/-- **Auto trigger without veto, window form, from the first block after a start**: from the first
trigger on, every window of `delay + nsamp` consecutive frames that ends at or before the newest
trigger contains a trigger (`delay` = the auto delay, or one record if that is longer) — for all
streams, all block partitions, auto alone or combined with edge and level triggers. -/
theorem C02_auto_dense {c c' : Chan} {ts : TS} {npre nsamp f0 : Int} {tp : Nat → Int × Int} {n : Nat} {sg : Bool} {zt : ZT}
    (hv : 3 ≤ npre ∧ npre < nsamp) (hem : ts.edgeMulti = false) (hauto : ts.auto = true) (hveto : ts.autoVeto = 0)
    (hfresh : Fresh c ts npre nsamp f0) (segs : List (List Nat)) {tr : List Int}
    (hrun : runChan zt tp sg n c f0 segs = some (c', tr)) :
    (∀ T ∈ tr, T ≤ c'.lastTrig) ∧ (tr ≠ [] → c'.lastTrig ∈ tr) ∧
    ∀ y, y ≤ c'.lastTrig → (∃ T ∈ tr, T ≤ y) → ∃ T ∈ tr, y - (autoD ts nsamp + nsamp) < T ∧ T ≤ y := by
  have h0 := fresh_auto_inv sg hfresh
  obtain ⟨k', hinv⟩ := runChan_auto_inv hv hem hauto hveto segs n [] c [] 0 c' tr h0 (by simpa using hrun)
  rw [List.nil_append, List.nil_append] at hinv
  exact ⟨hinv.newest, hinv.last, hinv.dense⟩

/-- **Auto trigger without veto: the gap between successive triggers never exceeds the auto delay (or
one record, if longer) plus one record** — the emitted trigger frames are ascending and any two
neighbours `a, b` of the whole run's trigger sequence satisfy `b − a ≤ delay + nsamp`; for all streams,
all block partitions (any lengths, empty blocks included), auto alone or combined with edge and level. -/
theorem C02_auto_gap {c c' : Chan} {ts : TS} {npre nsamp f0 : Int} {tp : Nat → Int × Int} {n : Nat} {sg : Bool} {zt : ZT}
    (hv : 3 ≤ npre ∧ npre < nsamp) (hem : ts.edgeMulti = false) (hauto : ts.auto = true) (hveto : ts.autoVeto = 0)
    (hfresh : Fresh c ts npre nsamp f0) (segs : List (List Nat)) {tr : List Int}
    (hrun : runChan zt tp sg n c f0 segs = some (c', tr)) :
    ∀ a b, [a, b] <:+: tr → a ≤ b ∧ b - a ≤ autoD ts nsamp + nsamp := by
  have h0 := fresh_auto_inv sg hfresh
  obtain ⟨k', hinv⟩ := runChan_auto_inv hv hem hauto hveto segs n [] c [] 0 c' tr h0 (by simpa using hrun)
  rw [List.nil_append, List.nil_append] at hinv
  intro a b hab
  exact gap_of_dense hinv.sorted hinv.newest hinv.dense hab

/-- the same **after a reconfiguration at any point of the stream** (the channel as
`configureTrigger` leaves it — `configureTrigger_epoch` — with whatever the buffer retains) -/
theorem C02_auto_gap_after_reconfigure {c c' : Chan} {ts : TS} {npre nsamp f0 : Int} {tp : Nat → Int × Int} {n : Nat} {sg : Bool}
    {zt : ZT} {G : List Nat} {k : Nat}
    (hv : 3 ≤ npre ∧ npre < nsamp) (hem : ts.edgeMulti = false) (hauto : ts.auto = true) (hveto : ts.autoVeto = 0)
    (hk : k ≤ G.length) (hbuf : c.buf = G.drop k) (hts : c.ts = ts) (hnpre : c.npre = npre)
    (hnsamp : c.nsamp = nsamp) (hsync : c.emt.nsamp = nsamp) (hsg : c.signed = sg)
    (segs : List (List Nat)) {tr : List Int}
    (hrun : runChan zt tp sg n c (f0 + G.length) segs = some (c', tr)) :
    ∀ a b, [a, b] <:+: tr → a ≤ b ∧ b - a ≤ autoD ts nsamp + nsamp := by
  have h0 : AutoInv ts npre nsamp sg G f0 c [] k :=
    ⟨hk, hbuf, ⟨hts, hnpre, hnsamp, hsync, Or.inl hsg⟩, by simp, by simp, by simp, by simp, by simp, by simp⟩
  obtain ⟨k', hinv⟩ := runChan_auto_inv hv hem hauto hveto segs n G c [] k c' tr h0 hrun
  rw [List.nil_append] at hinv
  intro a b hab
  exact gap_of_dense hinv.sorted hinv.newest hinv.dense hab

/-- the effective delay is the configured one, or one record if that is longer -/
theorem autoD_def (ts : TS) (nsamp : Int) : autoD ts nsamp = if ts.autoDelay < nsamp then nsamp else ts.autoDelay := rfl

/-! ### Soundness for every trigger combination -/

/-- **No pulse invented, any trigger combination, across blocks**: every primary trigger emitted in a
run from a start sits on a sample of the delivered stream that satisfies an ENABLED criterion (edge or
level, evaluated on the stream itself), unless the auto trigger is enabled (an auto trigger has no
sample criterion). -/
theorem C02_sound {c c' : Chan} {ts : TS} {npre nsamp f0 : Int} {tp : Nat → Int × Int} {n : Nat} {sg : Bool} {zt : ZT}
    (hv : 3 ≤ npre ∧ npre < nsamp) (hem : ts.edgeMulti = false)
    (hfresh : Fresh c ts npre nsamp f0) (segs : List (List Nat)) {tr : List Int}
    (hrun : runChan zt tp sg n c f0 segs = some (c', tr)) :
    ∀ T ∈ tr, SoundAt ts sg segs.flatten f0 T := by
  obtain ⟨hbuf, hts, hnpre, hnsamp, hsync, _⟩ := hfresh
  have h0 : SoundInv ts npre nsamp sg [] f0 c [] 0 :=
    ⟨by simp, by simp [hbuf], ⟨hts, hnpre, hnsamp, hsync, Or.inr hbuf⟩, by simp, by simp⟩
  obtain ⟨k', hinv⟩ := runChan_sound_inv hv hem segs n [] c [] 0 c' tr h0 (by simpa using hrun)
  rw [List.nil_append, List.nil_append] at hinv
  exact hinv.sound

/-- with the auto trigger off this is: every trigger satisfies the edge or the level criterion -/
theorem C02_sound_no_auto {c c' : Chan} {ts : TS} {npre nsamp f0 : Int} {tp : Nat → Int × Int} {n : Nat} {sg : Bool}
    {zt : ZT} (hv : 3 ≤ npre ∧ npre < nsamp) (hem : ts.edgeMulti = false) (ha : ts.auto = false)
    (hfresh : Fresh c ts npre nsamp f0) (segs : List (List Nat)) {tr : List Int}
    (hrun : runChan zt tp sg n c f0 segs = some (c', tr)) :
    ∀ T ∈ tr, (ts.edge = true ∧ edgeAtG (cfgChan ts sg) segs.flatten (T - f0) = true) ∨
      (ts.level = true ∧ levelAtG (cfgChan ts sg) segs.flatten (T - f0) = true) := by
  intro T hT
  rcases C02_sound hv hem hfresh segs hrun T hT with h | h | h
  · exact Or.inl h
  · exact Or.inr h
  · rw [ha] at h; cases h

/-! ### After a reconfiguration: the retained samples are searched again

`ConfigureTriggers` keeps the buffer and forgets the hold-off reference, so the next block is searched
from `npre` samples into the RETAINED buffer.  By `runChan_prepend` the run after the request is a fresh
run on the stream `B ++ segs.flatten` (`B` = the retained samples, whose first frame is `fB`), so all
three clauses hold for that whole stream — in particular for the tail of the earlier stream that could
not be searched before the request (its last `nsamp − npre` samples). -/

/-- the channel right after an accepted ConfigureTriggers, viewed with an empty buffer, is `Fresh` -/
theorem fresh_of_reconfigured {c : Chan} {ts : TS} {npre nsamp fB : Int} (hts : c.ts = ts) (hnpre : c.npre = npre)
    (hnsamp : c.nsamp = nsamp) (hsync : c.emt.nsamp = nsamp) (hlast : c.lastTrig + nsamp ≤ fB) :
    Fresh { c with buf := [] } ts npre nsamp fB :=
  ⟨rfl, hts, hnpre, hnsamp, hsync, hlast⟩

/-- **C02 after a reconfiguration, including the not-yet-searched tail.**  `c` is the channel as an
accepted ConfigureTriggers leaves it, holding the retained samples `c.buf` whose first frame is `fB`;
the next blocks are `seg :: segs`.  On the stream `c.buf ++ (seg :: segs).flatten` the edge, level and
auto clauses hold exactly as from a fresh start. -/
theorem C02_after_reconfigure_full {c c' : Chan} {ts : TS} {npre nsamp fB : Int} {tp : Nat → Int × Int} {n : Nat}
    {sg : Bool} {zt : ZT} (hv : 3 ≤ npre ∧ npre < nsamp) (hem : ts.edgeMulti = false)
    (hts : c.ts = ts) (hnpre : c.npre = npre) (hnsamp : c.nsamp = nsamp) (hsync : c.emt.nsamp = nsamp)
    (hlast : c.lastTrig + nsamp ≤ fB)
    (seg : List Nat) (segs : List (List Nat)) {tr : List Int}
    (hrun : runChan zt tp sg n c (fB + c.buf.length) (seg :: segs) = some (c', tr)) :
    let S := c.buf ++ (seg :: segs).flatten
    (ts.edge = true → ∀ p : Int, npre ≤ p → p + (nsamp - npre) < (S.length : Int) →
      edgeAtG (cfgChan ts sg) S p = true → Cov nsamp fB tr p) ∧
    (ts.level = true → ∀ p : Int, npre ≤ p → p + (nsamp - npre) < (S.length : Int) →
      levelAtG (cfgChan ts sg) S p = true → Near nsamp fB tr p) ∧
    (ts.auto = true → ts.autoVeto = 0 → ∀ a b, [a, b] <:+: tr → a ≤ b ∧ b - a ≤ autoD ts nsamp + nsamp) ∧
    (∀ T ∈ tr, SoundAt ts sg S fB T) := by
  obtain ⟨tp', hpre⟩ := runChan_prepend zt tp sg n c (fB + c.buf.length) seg segs
  rw [hpre, show fB + (c.buf.length : Int) - c.buf.length = fB by omega] at hrun
  have hfresh := fresh_of_reconfigured (fB := fB) hts hnpre hnsamp hsync hlast
  have hS : c.buf ++ (seg :: segs).flatten = ((c.buf ++ seg) :: segs).flatten := by simp
  simp only
  rw [hS]
  refine ⟨fun hedge => C02_edge_complete hv hem hedge hfresh _ hrun,
    fun hlevel => C02_level_complete hv hem hlevel hfresh _ hrun,
    fun hauto hveto => C02_auto_gap hv hem hauto hveto hfresh _ hrun,
    C02_sound hv hem hfresh _ hrun⟩

/-! ### The same at the level of the whole source

`Pipe.runOps` is the model the correspondence check compares with the real `ProcessSegments` (all
channels, trigger broker, group-trigger secondaries).  `Pipe.runOps_chan` shows that it treats every
channel exactly as `runChan` does, so the clauses above hold for the primary records the SOURCE
publishes for each channel, whatever the other channels and the broker do. -/

open Pipe in
/-- **C02 at source level.**  `ops` are block operations giving channel `j` the segments `segs`
(contiguous from frame `f0`, constant signedness, any time stamps); channel `j` of the source `s` is
as a start leaves it.  Then for the primary records `prims` the source publishes for channel `j`:
the edge clause, the level clause and the auto clause of C02 hold (each under its own enabling
condition). -/
theorem C02_source_level {zts : List (List (Int × Int))} {j : Nat} {sg : Bool} {tp : Nat → Int × Int} {n : Nat}
    {ops : List Op} {f0 : Int} {segs : List (List Nat)} {s : Src} {c : Chan} {outs : List Out}
    {ts : TS} {npre nsamp : Int}
    (hb : BlocksFor j sg tp n f0 ops segs) (hc : s.chans[j]? = some c) (hrun : runOps zts s ops = some outs)
    (hv : 3 ≤ npre ∧ npre < nsamp) (hem : ts.edgeMulti = false) (hfresh : Fresh c ts npre nsamp f0) :
    ∃ parts, OutsFor j outs parts ∧
      let prims := ((parts.map (·.1)).flatten).map (·.frame)
      (ts.edge = true → ∀ p : Int, npre ≤ p → p + (nsamp - npre) < (segs.flatten.length : Int) →
        edgeAtG (cfgChan ts sg) segs.flatten p = true → Cov nsamp f0 prims p) ∧
      (ts.level = true → ∀ p : Int, npre ≤ p → p + (nsamp - npre) < (segs.flatten.length : Int) →
        levelAtG (cfgChan ts sg) segs.flatten p = true → Near nsamp f0 prims p) ∧
      (ts.auto = true → ts.autoVeto = 0 → ∀ a b, [a, b] <:+: prims → a ≤ b ∧ b - a ≤ autoD ts nsamp + nsamp) ∧
      (ts.edge = true → ts.level = false → ts.auto = false →
        (∀ T ∈ prims, edgeAtG (cfgChan ts sg) segs.flatten (T - f0) = true) ∧
        prims.Pairwise (fun a b => a + nsamp ≤ b)) ∧
      (∀ T ∈ prims, SoundAt ts sg segs.flatten f0 T) := by
  obtain ⟨c', parts, hof, hrc⟩ := runOps_chan_frames zts j sg tp ops n f0 segs s c outs hb hc hrun
  refine ⟨parts, hof, ?_, ?_, ?_, ?_, C02_sound hv hem hfresh segs hrc⟩
  · intro hedge
    exact C02_edge_complete hv hem hedge hfresh segs hrc
  · intro hlevel
    exact C02_level_complete hv hem hlevel hfresh segs hrc
  · intro hauto hveto
    exact C02_auto_gap hv hem hauto hveto hfresh segs hrc
  · intro hedge hl ha
    exact ⟨C02_edge_only_sound hv hem hedge hl ha hfresh segs hrc,
      C02_edge_only_no_overlap hv hem hedge hl ha hfresh segs hrc⟩

open Pipe in
/-- every channel of a source as `PrepareRun` leaves it (restored or default trigger settings) is
`Fresh`, with edge-multi off — so `C02_source_level` applies from the very first block of a run -/
theorem prepare_fresh {nch : Nat} {npre nsamp : Int} {saved : List (Nat × TS)} {j : Nat} {c : Chan} {f0 : Int}
    (h : (prepare nch npre nsamp saved).chans[j]? = some c) (hf0 : -2305843009213693952 + nsamp ≤ f0) :
    Fresh c c.ts npre nsamp f0 ∧ c.ts.edgeMulti = false := by
  unfold prepare at h
  simp only [List.getElem?_map] at h
  cases hr : (List.range nch)[j]? with
  | none => simp [hr] at h
  | some i =>
    simp only [hr, Option.map_some, Option.some.injEq] at h
    subst h
    refine ⟨⟨rfl, rfl, rfl, rfl, rfl, ?_⟩, ?_⟩
    · show (-2305843009213693952 : Int) + nsamp ≤ f0
      exact hf0
    · simp only
      split <;> rfl

/-! ### Non-vacuity -/

/-- the hypotheses are met by an ordinary configuration: a fresh channel with npre 3, nsamp 8 -/
example : Fresh { npre := 3, nsamp := 8, ts := { edge := true, edgeRising := true, edgeLevel := 100 },
                  emt := { npre := 3, nsamp := 8 } }
    { edge := true, edgeRising := true, edgeLevel := 100 } 3 8 0 :=
  ⟨rfl, rfl, rfl, rfl, rfl, by decide⟩

end DastardV.C02
