/-
C05 — the repository's own LJH reader (`ljh.OpenReader` / `NextPulse`, transcribed in `Model/C05.lean` as
`readerParse`) applied to what the writer writes.
-/
import DastardV.Lemmas.C05Reader
namespace DastardV.C05

/-- a header line as the reader's scanner sees it -/
def lineOf (kv : Bytes × Bytes) : Bytes := kv.1 ++ 58 :: 32 :: kv.2

/-- **reader_pulses_roundtrip**: `NextPulse` called until it fails, on the concatenation of any list of written
records (all of the header's length) returns exactly those records — sub-frame count and time as signed 64-bit values,
every sample — and ends with io.EOF. -/
theorem reader_pulses_roundtrip (subdiv suboff : Int) (L : Nat) (rs : List W22) (hL : ∀ r ∈ rs, r.data.length = L)
    (fuel : Nat) (hf : rs.length < fuel) :
    readPulses L fuel (rs.flatMap (encodeLJH22 subdiv suboff)) = (rs.map (toPulse subdiv suboff), .eof) := by
  have := readPulses_records_then_tail subdiv suboff L rs hL [] (by show 0 < 16 + 2 * L; omega) fuel hf
  simpa [tailEnd] using this

/-- **reader_truncated_record**: a file cut inside a record: the whole records before it are returned, and the
iteration ends with `tailEnd` of what is left — io.EOF when exactly 0, 8 or 16 bytes of the record are left
(a partial record is then indistinguishable from a clean end), io.ErrUnexpectedEOF otherwise. -/
theorem reader_truncated_record (subdiv suboff : Int) (L : Nat) (rs : List W22) (hL : ∀ r ∈ rs, r.data.length = L)
    (r : W22) (k : Nat) (hk : k < 16 + 2 * L) (fuel : Nat) (hf : rs.length < fuel) :
    readPulses L fuel (rs.flatMap (encodeLJH22 subdiv suboff) ++ (encodeLJH22 subdiv suboff r).take k) =
      (rs.map (toPulse subdiv suboff), tailEnd L ((encodeLJH22 subdiv suboff r).take k)) :=
  readPulses_records_then_tail subdiv suboff L rs hL _ (by rw [List.length_take]; omega) fuel hf

/-- the 16-byte time marker of a record alone (samples missing) reads as a clean end of file -/
theorem reader_eof_hides_partial_record (subdiv suboff : Int) (r : W22) (hne : r.data.length ≠ 0) :
    tailEnd r.data.length ((encodeLJH22 subdiv suboff r).take 16) = .eof ∧
    tailEnd r.data.length ((encodeLJH22 subdiv suboff r).take 8) = .eof ∧
    tailEnd r.data.length ((encodeLJH22 subdiv suboff r).take 17) = .ueof := by
  have hl := encodeLJH22_length subdiv suboff r
  refine ⟨?_, ?_, ?_⟩ <;> (unfold tailEnd; rw [List.length_take, hl])
  · rw [if_pos (by omega)]
  · rw [if_pos (by omega)]
  · rw [if_neg (by omega)]

theorem flatMap_length_ge (subdiv suboff : Int) (rs : List W22) :
    rs.length ≤ (rs.flatMap (encodeLJH22 subdiv suboff)).length := by
  induction rs with
  | nil => simp
  | cons r rs ih =>
    simp only [List.flatMap_cons, List.length_append, List.length_cons, encodeLJH22_length]
    omega

/-- **reader_reads_what_writer_wrote**: for every header the writer can render (`kvs`: keys without colon / line
break / leading `#`, values without line break), whatever the reader's per-line scanning (`lineStep`: version line,
six `Sscanf` patterns) makes of those lines (`h`), and every list of records of the length the reader extracted:
`OpenReader` finds the body exactly behind the header and `NextPulse` returns exactly the records, then io.EOF —
PROVIDED (1) the first body byte is not CR / LF (the reader swallows every CR / LF after `#End of Header`; see
`reader_eats_leading_newline_bytes`), (2) the header has fewer than ~1000 lines and no `#` among its last
(number of lines) bytes (the reader re-finds the end tag in a 1024-byte window that starts that many bytes early). -/
theorem reader_reads_what_writer_wrote (kvs : List (Bytes × Bytes)) (hg : ∀ kv ∈ kvs, GoodKV kv) (h : RHdr)
    (hfold : (kvs.map lineOf).foldlM lineStep {} = .ok h)
    (hwin : kvs.length + 17 ≤ 1024)
    (h35 : ∀ x ∈ (magic22 ++ 10 :: kvs.flatMap renderKV).drop
        ((magic22 ++ 10 :: kvs.flatMap renderKV).length - (kvs.length + 1)), x ≠ 35)
    (subdiv suboff : Int) (rs : List W22) (hL : ∀ r ∈ rs, r.data.length = h.samples.toNat)
    (hnl : (rs.flatMap (encodeLJH22 subdiv suboff)).head? ≠ some 10 ∧
           (rs.flatMap (encodeLJH22 subdiv suboff)).head? ≠ some 13) :
    readerParse (renderHeader22 kvs ++ rs.flatMap (encodeLJH22 subdiv suboff)) =
      .ok { hdr := h, headerLength := (renderHeader22 kvs).length,
            recordLength := h.recLen + h.wordSize * h.samples,
            pulses := rs.map (toPulse subdiv suboff), fin := .eof } := by
  have hls : kvs.flatMap renderKV = (kvs.map lineOf).flatMap (· ++ [10]) := by
    simp only [List.flatMap_map]
    congr 1
    funext kv
    simp [renderKV, lineOf, List.append_assoc]
  have hlines : ∀ l ∈ (kvs.map lineOf), NoEOL l ∧ l ≠ endTag22 := by
    intro l hl
    obtain ⟨kv, hkv, rfl⟩ := List.mem_map.mp hl
    obtain ⟨⟨hk1, hk2⟩, hv⟩ := hg kv hkv
    have hline : NoEOL (lineOf kv) := by
      intro x hx
      rcases List.mem_append.mp hx with h' | h'
      · exact ⟨(hk1 x h').1, (hk1 x h').2.1⟩
      · simp only [List.mem_cons] at h'
        rcases h' with rfl | rfl | h'
        · decide
        · decide
        · exact hv x h'
    refine ⟨hline, ?_⟩
    intro he
    have hhead := line_head kv.1 kv.2 hk2
    unfold lineOf at he
    rw [he] at hhead
    exact hhead (by decide)
  have hfile : renderHeader22 kvs ++ (rs.flatMap (encodeLJH22 subdiv suboff)) =
      magic22 ++ 10 :: ((kvs.map lineOf).flatMap (· ++ [10]) ++ (endTag22 ++ 10 :: (rs.flatMap (encodeLJH22 subdiv suboff)))) := by
    rw [renderHeader22_eq, hls]; simp [List.append_assoc]
  have hsum : (kvs.flatMap renderKV).length = ((kvs.map lineOf).map List.length).sum + kvs.length := by
    clear hg hfold hwin h35 hlines hfile hls
    induction kvs with
    | nil => simp
    | cons kv kvs ih =>
      simp only [List.flatMap_cons, List.length_append, List.map_cons, List.sum_cons, List.length_cons] at ih ⊢
      rw [ih]
      simp only [renderKV, lineOf, List.length_append, List.length_cons, List.length_nil]
      omega
  have hmagic : magic22.length = 25 := by decide
  have htag : endTag22.length = 14 := by decide
  -- the scan
  have hscan : scanHeader ((renderHeader22 kvs ++ (rs.flatMap (encodeLJH22 subdiv suboff))).length + 1) 0 0 {} (renderHeader22 kvs ++ (rs.flatMap (encodeLJH22 subdiv suboff))) =
      .ok (h, 25 + ((kvs.map lineOf).map List.length).sum + 14) := by
    have hfuel : (kvs.map lineOf).length < (renderHeader22 kvs ++ (rs.flatMap (encodeLJH22 subdiv suboff))).length := by
      rw [hfile]
      simp only [List.length_append, List.length_cons, ← hls, hsum, List.length_map]
      omega
    rw [hfile] at hfuel ⊢
    rw [scanHeader, scanLine_line magic22 _ (by decide)]
    simp only [if_true, ne_eq, not_true_eq_false, if_false, Nat.zero_add]
    rw [scanHeader_lines (kvs.map lineOf) hlines (rs.flatMap (encodeLJH22 subdiv suboff)) _ hfuel 1 (by decide) magic22.length {}, hfold, hmagic, htag]
  -- the (rs.flatMap (encodeLJH22 subdiv suboff)) position
  have hpre : (magic22 ++ 10 :: kvs.flatMap renderKV).length = 26 + ((kvs.map lineOf).map List.length).sum + kvs.length := by
    simp only [List.length_append, List.length_cons, hsum, hmagic]; omega
  have hfile2 : renderHeader22 kvs ++ (rs.flatMap (encodeLJH22 subdiv suboff)) = (magic22 ++ 10 :: kvs.flatMap renderKV) ++ (endTag22 ++ 10 :: (rs.flatMap (encodeLJH22 subdiv suboff))) := by
    rw [renderHeader22_eq]; simp [List.append_assoc]
  have hloc : locateBody (renderHeader22 kvs ++ (rs.flatMap (encodeLJH22 subdiv suboff))) (25 + ((kvs.map lineOf).map List.length).sum + 14) =
      some ((renderHeader22 kvs).length) := by
    rw [hfile2, locateBody_header _ (rs.flatMap (encodeLJH22 subdiv suboff)) _ (by rw [htag]; omega) (by rw [htag, hpre]; omega)
      (by rw [htag, hpre]; omega)
      (by
        have e : 25 + ((kvs.map lineOf).map List.length).sum + 14 - endTag22.length =
            (magic22 ++ 10 :: kvs.flatMap renderKV).length - (kvs.length + 1) := by rw [htag, hpre]; omega
        rw [e]; exact h35) hnl]
    rw [renderHeader22_eq]
    congr 1
    simp only [List.length_append, List.length_cons, List.length_nil]
    omega
  have hdrop : (renderHeader22 kvs ++ (rs.flatMap (encodeLJH22 subdiv suboff))).drop (renderHeader22 kvs).length = (rs.flatMap (encodeLJH22 subdiv suboff)) := List.drop_left' rfl
  have hpul := reader_pulses_roundtrip subdiv suboff h.samples.toNat rs hL
    ((renderHeader22 kvs ++ (rs.flatMap (encodeLJH22 subdiv suboff))).length + 1)
    (by have := flatMap_length_ge subdiv suboff rs
        simp only [List.length_append]; omega)
  unfold readerParse
  rw [hscan]
  simp only [hloc, hdrop]
  rw [hpul]

/-- non-vacuity: a small header (version line, word size, record length, time base) and two records -/
def okFile : Bytes :=
  renderHeader22 [(b "Save File Format Version", b "2.2.1"), (b "Digitized Word Size in Bytes", b "2"),
      (b "Total Samples", b "2"), (b "Timebase", b "1.000000e-06")] ++
    [({ frame := 7, ts := 9, data := [1, 2] } : W22), { frame := 8, ts := 10, data := [3, 65535] }].flatMap (encodeLJH22 1 0)

set_option maxRecDepth 20000 in
example :
    (match readerParse okFile with
     | .ok o => o == { hdr := { version := 2, recLen := 16, wordSize := 2, samples := 2, tbTok := some (b "1.000000e-06") },
                       headerLength := 145, recordLength := 20,
                       pulses := [{ sub := 7, ts := 9, samples := [1, 2] }, { sub := 8, ts := 10, samples := [3, 65535] }],
                       fin := .eof }
     | .error _ => false) = true := by
  decide

def okKvs : List (Bytes × Bytes) :=
  [(b "Save File Format Version", b "2.2.1"), (b "Digitized Word Size in Bytes", b "2"),
   (b "Presamples", b "1"), (b "Total Samples", b "2"), (b "Channel", b "-7"), (b "Timebase", b "1.000000e-06")]

instance (kv : Bytes × Bytes) : Decidable (GoodKV kv) := by unfold GoodKV; infer_instance

set_option maxRecDepth 20000 in
/-- non-vacuity of the hypotheses of `reader_reads_what_writer_wrote`: for this header they hold (by evaluation), so
the conclusion holds for EVERY list of 2-sample records whose first byte is not CR / LF -/
example (rs : List W22) (hL : ∀ r ∈ rs, r.data.length = 2)
    (hnl : (rs.flatMap (encodeLJH22 64 3)).head? ≠ some 10 ∧ (rs.flatMap (encodeLJH22 64 3)).head? ≠ some 13) :
    readerParse (renderHeader22 okKvs ++ rs.flatMap (encodeLJH22 64 3)) =
      .ok { hdr := { version := 2, recLen := 16, wordSize := 2, presamples := 1, samples := 2, channel := -7,
                     tbTok := some (b "1.000000e-06") },
            headerLength := (renderHeader22 okKvs).length, recordLength := 16 + 2 * 2,
            pulses := rs.map (toPulse 64 3), fin := .eof } :=
  reader_reads_what_writer_wrote okKvs (by decide) _ (by rfl) (by decide) (by decide) 64 3 rs hL hnl

/-- a well-formed file whose first record has sub-frame count 10: the first body byte is 0x0a -/
def nlHeader : Bytes :=
  renderHeader22 [(b "Save File Format Version", b "2.2.1"), (b "Digitized Word Size in Bytes", b "2"),
    (b "Total Samples", b "1")]
def nlRecords : List W22 := [{ frame := 10, ts := 9, data := [5] }, { frame := 11, ts := 9, data := [6] }]
def nlFile : Bytes := nlHeader ++ nlRecords.flatMap (encodeLJH22 1 0)

set_option maxRecDepth 20000 in
/-- **reader_eats_leading_newline_bytes** (`reader_reads_what_writer_wrote` without proviso (1) is false): the
repository's own reader takes the header of `nlFile` to be one byte longer than it is and returns records that were
never written, while the reader written from doc/LJH.md reads the same bytes back exactly. -/
theorem reader_eats_leading_newline_bytes :
    (match readerParse nlFile with
     | .ok o => decide (o.headerLength = nlHeader.length + 1 ∧ o.pulses ≠ nlRecords.map (toPulse 1 0))
     | .error _ => false) = true ∧
    (match parseHeader22 nlFile with
     | some (_, body) => decide (parseBody (parseLJH22 1 2) body = some (nlRecords.map (expect22 1 0)))
     | none => false) = true := by
  decide

end DastardV.C05
