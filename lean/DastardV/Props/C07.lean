/-
C07 — property theorems for the asynchronous-writer model (`Model/C07.lean`).

All statements are for EVERY queue capacity and EVERY schedule (any list of producer and consumer
steps in any interleaving; a disk stall is any stretch without `pop`/`sync`).

* `q_fifo`                      file ++ bufio ++ channel = the accepted chunks in order; channel ≤ cap
* `flush_post`                  when Flush/Close returns, everything accepted so far is in the file
* `C07_whole_records_only`      one Write per record  ⇒  the oracle `chkC07` accepts every observation
* `C07_whole_records_state`     … and at every moment the accepted stream is exactly the records that returned nil
* `C07_multichunk_counterexample`, `C07_multichunk_torn_any_cap`
                                with ≥ 2 Writes per record the statement is false, for every cap ≥ 1
* `C07_header_accepted`         a header of k chunks written into a fresh queue of cap ≥ k is accepted whole
* `C07_publish_crash_counterexample`  PublishData/processSegment turn a rejected OFF record into a crash
-/
import DastardV.Model.C07
namespace DastardV.C07

/-! ### q_fifo -/

theorem accOf_append (a b : List Tok) : accOf (a ++ b) = accOf a ++ accOf b := by
  simp [accOf, List.filterMap_append]

theorem step_stream (y : Sys) (o : Op) :
    (step y o).1.s.stream = y.s.stream ++ (accOf (step y o).2).flatten := by
  cases o with
  | w c =>
    unfold step
    by_cases h : y.recOk = true
    · simp only [h, if_true]
      unfold Q.write
      by_cases hq : y.s.q.length < y.s.cap
      · simp [hq, Q.stream, accOf]
      · simp [hq, Q.stream, accOf]
    · simp [h, accOf]
  | endRec => simp [step, accOf]
  | pop n =>
    unfold step Q.pop
    by_cases hc : (y.s.closed || y.s.inTick) = true
    · simp [hc, accOf]
    · simp only [hc, accOf, Q.stream]
      simp [List.flatten_append, List.append_assoc]
      rw [← List.flatten_append, List.take_append_drop]
  | sync n =>
    unfold step Q.sync
    by_cases hc : (y.s.closed || y.s.inTick) = true
    · simp [hc, accOf]
    · simp only [hc, accOf, Q.stream]
      simp [List.append_assoc]
  | tick =>
    unfold step Q.tick
    by_cases hc : (y.s.closed || y.s.inTick) = true
    · simp [hc, accOf]
    · simp [hc, accOf, Q.stream, List.flatten_append, List.append_assoc]
  | tickDone =>
    unfold step Q.tickDone
    by_cases hc : y.s.inTick = true
    · simp [hc, accOf, Q.stream, List.append_assoc]
    · simp [hc, accOf]
  | flush =>
    unfold step
    by_cases hc : y.s.closed = true
    · simp [hc, accOf]
    · simp [hc, accOf, Q.stream, Q.drain]
  | close =>
    unfold step
    by_cases hc : y.s.closed = true
    · simp [hc, accOf]
    · simp [hc, accOf, Q.stream, Q.drain]
  | snap => simp [step, accOf]

theorem step_bound (y : Sys) (o : Op) (h : y.s.q.length ≤ y.s.cap) :
    (step y o).1.s.q.length ≤ (step y o).1.s.cap ∧ (step y o).1.s.cap = y.s.cap := by
  cases o with
  | w c =>
    unfold step
    by_cases hr : y.recOk = true
    · simp only [hr, if_true]
      unfold Q.write
      by_cases hq : y.s.q.length < y.s.cap
      · simp [hq]; omega
      · simp [hq]; omega
    · simp [hr]; omega
  | endRec => simp [step]; omega
  | pop n =>
    unfold step Q.pop
    by_cases hc : (y.s.closed || y.s.inTick) = true
    · simp [hc]; omega
    · simp [hc]; omega
  | sync n =>
    unfold step Q.sync
    by_cases hc : (y.s.closed || y.s.inTick) = true
    · simp [hc]; omega
    · simp [hc]; omega
  | tick =>
    unfold step Q.tick
    by_cases hc : (y.s.closed || y.s.inTick) = true
    · simp [hc]; omega
    · simp [hc]
  | tickDone =>
    unfold step Q.tickDone
    by_cases hc : y.s.inTick = true
    · simp [hc]; omega
    · simp [hc]; omega
  | flush =>
    unfold step
    by_cases hc : y.s.closed = true
    · simp [hc]; omega
    · simp [hc, Q.drain]
  | close =>
    unfold step
    by_cases hc : y.s.closed = true
    · simp [hc]; omega
    · simp [hc, Q.drain]
  | snap => simp [step]; omega

theorem runOps_stream (ops : List Op) (y : Sys) :
    (runOps y ops).1.s.stream = y.s.stream ++ (accOf (runOps y ops).2).flatten := by
  induction ops generalizing y with
  | nil => simp [runOps, accOf]
  | cons o os ih =>
    simp only [runOps]
    rw [ih, step_stream, accOf_append, List.flatten_append, List.append_assoc]

theorem runOps_bound (ops : List Op) (y : Sys) (h : y.s.q.length ≤ y.s.cap) :
    (runOps y ops).1.s.q.length ≤ (runOps y ops).1.s.cap ∧ (runOps y ops).1.s.cap = y.s.cap := by
  induction ops generalizing y with
  | nil => simp [runOps]; omega
  | cons o os ih =>
    simp only [runOps]
    have hs := step_bound y o h
    have := ih (step y o).1 hs.1
    omega

theorem runOps_append (a b : List Op) (y : Sys) :
    runOps y (a ++ b) = ((runOps (runOps y a).1 b).1, (runOps y a).2 ++ (runOps (runOps y a).1 b).2) := by
  induction a generalizing y with
  | nil => simp [runOps]
  | cons o os ih => simp [runOps, ih, List.append_assoc]

/-- **q_fifo.**  For every capacity and every schedule: what is in the file, then in `bufio`, then in
the channel is exactly the sequence of accepted chunks, in the order they were accepted (nothing lost,
duplicated or reordered), and the channel never holds more than `cap` chunks. -/
theorem q_fifo (cap : Nat) (ops : List Op) :
    (runOps (Sys.init cap) ops).1.s.stream = (accOf (runOps (Sys.init cap) ops).2).flatten ∧
    (runOps (Sys.init cap) ops).1.s.q.length ≤ cap := by
  constructor
  · rw [runOps_stream]; simp [Sys.init, Q.init, Q.stream]
  · have := runOps_bound ops (Sys.init cap) (by simp [Sys.init, Q.init])
    have h2 : (Sys.init cap).s.cap = cap := rfl
    omega

/-- at every moment the file is a prefix of the accepted byte stream (order preserved). -/
theorem file_prefix_of_accepted (cap : Nat) (ops : List Op) :
    (runOps (Sys.init cap) ops).1.s.file <+: (accOf (runOps (Sys.init cap) ops).2).flatten := by
  rw [← (q_fifo cap ops).1]
  exact ⟨(runOps (Sys.init cap) ops).1.s.buf.flatten ++ (runOps (Sys.init cap) ops).1.s.q.flatten,
    by simp [Q.stream, List.append_assoc]⟩

/-! ### flush_post -/

/-- **flush_post.**  For every capacity and schedule `ops`: if the writer is not closed and the
producer now calls `Flush` or `Close`, then when the call returns the file holds every chunk accepted
so far (in order) and nothing is left in `bufio` or the channel. -/
theorem flush_post (cap : Nat) (ops : List Op) (o : Op) (ho : o = .flush ∨ o = .close)
    (hc : (runOps (Sys.init cap) ops).1.s.closed = false) :
    (step (runOps (Sys.init cap) ops).1 o).1.s.file = (accOf (runOps (Sys.init cap) ops).2).flatten ∧
    (step (runOps (Sys.init cap) ops).1 o).1.s.q = [] ∧
    (step (runOps (Sys.init cap) ops).1 o).1.s.buf = [] := by
  have hq := (q_fifo cap ops).1
  rcases ho with rfl | rfl
  · simp [step, hc, Q.drain]
    simpa [Q.stream, List.append_assoc] using hq
  · simp [step, hc, Q.drain]
    simpa [Q.stream, List.append_assoc] using hq

/-- the same as one statement about the history `ops ++ [o]`. -/
theorem flush_post' (cap : Nat) (ops : List Op) (o : Op) (ho : o = .flush ∨ o = .close)
    (hc : (runOps (Sys.init cap) ops).1.s.closed = false) :
    (runOps (Sys.init cap) (ops ++ [o])).1.s.file = (accOf (runOps (Sys.init cap) (ops ++ [o])).2).flatten := by
  have h := (q_fifo cap (ops ++ [o])).1
  rw [runOps_append] at h ⊢
  simp only [runOps] at h ⊢
  have hp := flush_post cap ops o ho hc
  rw [← h]
  simp [Q.stream, hp.2.1, hp.2.2]

example : (runOps (Sys.init 2) [.w [1], .endRec, .w [2], .endRec, .w [3], .endRec]).1.s.closed = false := by decide

/-- `flush_post` covers schedules with periodic flushes (`Op.tick`/`Op.tickDone` are ordinary schedule
steps).  The schedule "periodic flush stalled on the disk — a write is accepted meanwhile — the periodic
flush ends — explicit Flush": the Flush must still bring the write made during the tick into the file. -/
example : (runOps (Sys.init 3) [.w [1], .endRec, .tick, .w [2], .endRec, .tickDone, .flush]).2 =
    [.w [1] true, .e true, .tb 1, .w [2] true, .e true, .te 1, .f 0 [1, 2]] := by decide

/-- … also when the explicit Flush arrives while the periodic flush is still stalled (the producer waits
for it, then its own flush runs), and for Close. -/
example : (runOps (Sys.init 3) [.w [1], .endRec, .tick, .w [2], .endRec, .flush, .tickDone, .pop 1]).2 =
    [.w [1] true, .e true, .tb 1, .w [2] true, .e true, .f 0 [1, 2], .te 0, .p 0] := by decide


/-- the guard is needed: a write issued after `Close` is still accepted while the channel has room,
and is never written (asyncbufio: "we don't test for that case"). -/
example : (runOps (Sys.init 2) [.close, .w [9], .endRec, .pop 1, .sync 1]).2
    = [.c 0 [], .w [9] true, .e true, .p 0, .y 0] ∧
    (runOps (Sys.init 2) [.close, .w [9], .endRec, .pop 1, .sync 1]).1.s.file = [] := by decide

/-! ### whole records only -/

/-- every record of the schedule issues at most one `Write` (the repaired writers). -/
def singleAux : Nat → List Op → Bool
  | _, [] => true
  | n, .w _ :: r => n == 0 && singleAux 1 r
  | _, .endRec :: r => singleAux 0 r
  | n, _ :: r => singleAux n r

def SingleChunk (ops : List Op) : Prop := singleAux 0 ops = true

instance (ops : List Op) : Decidable (SingleChunk ops) := by unfold SingleChunk; infer_instance

/-- joint invariant of model state and oracle state (while not closed). -/
structure J (y : Sys) (o : OSt) (n : Nat) : Prop where
  yopen : y.s.closed = false
  oopen : o.closed = false
  seenle : y.seen ≤ y.s.file.length
  filed : o.file.flatten = y.s.file.take y.seen
  strm : y.s.stream = o.whole.flatten ++ (if y.recOk then o.cur.flatten else [])
  cnt : o.cur.length = n
  le1 : n ≤ 1
  ok0 : n = 0 → y.recOk = true

theorem chk_closed (ts : List Tok) (o : OSt) (h : o.closed = true) : chkToks o ts = .ok o := by
  induction ts with
  | nil => simp [chkToks]
  | cons t ts ih => simp [chkToks, ostep, h, ih]

theorem chkToks_append (a b : List Tok) (o : OSt) :
    chkToks o (a ++ b) = match chkToks o a with
      | .ok o' => chkToks o' b
      | .error e => .error e := by
  induction a generalizing o with
  | nil => simp [chkToks]
  | cons t ts ih =>
    simp only [List.cons_append, chkToks]
    cases ostep o t with
    | ok o' => simp [ih]
    | error e => simp

theorem take_file_ext (file extra : List Nat) (seen : Nat) (h : seen ≤ file.length) :
    (file ++ extra).take seen = file.take seen := by
  rw [List.take_append_of_le_length h]

def nextN (n : Nat) : Op → Nat
  | .w _ => 1
  | .endRec => 0
  | _ => n

theorem write_closed (s : Q) (c : Chunk) : (s.write c).1.closed = s.closed := by
  unfold Q.write; split <;> rfl

theorem step_closed (y : Sys) (op : Op) (h : y.s.closed = true) : (step y op).1.s.closed = true := by
  cases op with
  | w c =>
    unfold step
    by_cases hr : y.recOk = true
    · simp only [hr, if_true]; rw [write_closed]; exact h
    · simp only [hr]; exact h
  | endRec => simp [step, h]
  | pop n => simp [step, Q.pop, h]
  | sync n => simp [step, Q.sync, h]
  | tick => simp [step, Q.tick, h]
  | tickDone =>
    unfold step Q.tickDone
    by_cases hc : y.s.inTick = true
    · simp [hc, h]
    · simp [hc, h]
  | flush => simp [step, h]
  | close => simp [step, h]
  | snap => simp [step, h]

theorem runOps_closed (ops : List Op) (y : Sys) (h : y.s.closed = true) : (runOps y ops).1.s.closed = true := by
  induction ops generalizing y with
  | nil => simpa [runOps] using h
  | cons o os ih => simp only [runOps]; exact ih _ (step_closed y o h)


/-- consumer-only steps (`pop`, `sync`, `tick`, `tickDone`): the writer stays open, the file only grows,
nothing is accepted, the producer's record state is untouched. -/
def isCons : Op → Bool
  | .pop _ => true | .sync _ => true | .tick => true | .tickDone => true | _ => false

theorem cons_facts (y : Sys) (op : Op) (h : isCons op = true) :
    (step y op).1.s.closed = y.s.closed ∧ (∃ extra, (step y op).1.s.file = y.s.file ++ extra) ∧
    (step y op).1.seen = y.seen ∧ (step y op).1.recOk = y.recOk ∧ accOf (step y op).2 = [] ∧
    (∀ o : OSt, chkToks o (step y op).2 = .ok o) := by
  have hchk : ∀ (o : OSt) (t : Tok), (match t with | .p _ => True | .y _ => True | .tb _ => True | .te _ => True | _ => False) →
      chkToks o [t] = .ok o := by
    intro o t ht
    cases t <;> simp at ht <;> (by_cases hc : o.closed = true <;> simp [chkToks, ostep, hc])
  cases op with
  | pop k =>
    unfold step Q.pop
    by_cases hc : (y.s.closed || y.s.inTick) = true
    · exact ⟨by simp [hc], ⟨[], by simp [hc]⟩, rfl, rfl, by simp [accOf], fun o => hchk o _ trivial⟩
    · exact ⟨by simp [hc], ⟨[], by simp [hc]⟩, rfl, rfl, by simp [accOf], fun o => hchk o _ trivial⟩
  | sync k =>
    unfold step Q.sync
    by_cases hc : (y.s.closed || y.s.inTick) = true
    · exact ⟨by simp [hc], ⟨[], by simp [hc]⟩, rfl, rfl, by simp [accOf], fun o => hchk o _ trivial⟩
    · exact ⟨by simp [hc], ⟨_, by simp [hc]; rfl⟩, rfl, rfl, by simp [accOf], fun o => hchk o _ trivial⟩
  | tick =>
    unfold step Q.tick
    by_cases hc : (y.s.closed || y.s.inTick) = true
    · exact ⟨by simp [hc], ⟨[], by simp [hc]⟩, rfl, rfl, by simp [accOf], fun o => hchk o _ trivial⟩
    · exact ⟨by simp [hc], ⟨[], by simp [hc]⟩, rfl, rfl, by simp [accOf], fun o => hchk o _ trivial⟩
  | tickDone =>
    unfold step Q.tickDone
    by_cases hc : y.s.inTick = true
    · exact ⟨by simp [hc], ⟨_, by simp [hc]; rfl⟩, rfl, rfl, by simp [accOf], fun o => hchk o _ trivial⟩
    · exact ⟨by simp [hc], ⟨[], by simp [hc]⟩, rfl, rfl, by simp [accOf], fun o => hchk o _ trivial⟩
  | _ => simp [isCons] at h

theorem cons_J (y : Sys) (o : OSt) (n : Nat) (op : Op) (hJ : J y o n) (h : isCons op = true) :
    chkToks o (step y op).2 = .ok o ∧ J (step y op).1 o n := by
  obtain ⟨yopen, oopen, seenle, filed, strm, cnt, le1, ok0⟩ := hJ
  obtain ⟨e4, ⟨extra, e1⟩, e2, e3, e5, e6⟩ := cons_facts y op h
  have hst := step_stream y op
  refine ⟨e6 o, ⟨by rw [e4]; exact yopen, oopen, by rw [e1, e2]; simp; omega,
    by rw [e1, e2, take_file_ext _ _ _ seenle]; exact filed,
    by rw [hst, e5, e3, strm]; simp, cnt, le1, by rw [e3]; exact ok0⟩⟩

theorem step_keeps_open (y : Sys) (op : Op) (h : op ≠ .close) : (step y op).1.s.closed = y.s.closed := by
  cases op with
  | w c =>
    unfold step
    by_cases hr : y.recOk = true
    · simp only [hr, if_true]; rw [write_closed]
    · simp only [hr]; rfl
  | endRec => simp [step]
  | pop k => exact (cons_facts y _ rfl).1
  | sync k => exact (cons_facts y _ rfl).1
  | tick => exact (cons_facts y _ rfl).1
  | tickDone => exact (cons_facts y _ rfl).1
  | flush =>
    unfold step
    by_cases hc : y.s.closed = true
    · simp [hc]
    · simp [hc, Q.drain]
  | close => exact absurd rfl h
  | snap => simp [step]

/-- **flush_post with a stalled periodic flush**: for every history `ops`, if the ticker fires, a record is
accepted while that periodic flush is in progress, the periodic flush ends, and the producer then calls
`Flush`: when it returns the file holds everything accepted, including that record. -/
theorem flush_post_in_tick (cap : Nat) (ops : List Op)
    (hc : (runOps (Sys.init cap) (ops ++ [.tick])).1.s.closed = false) (c : Chunk) :
    (runOps (Sys.init cap) (ops ++ [.tick] ++ [.w c, .endRec, .tickDone] ++ [.flush])).1.s.file =
      (accOf (runOps (Sys.init cap) (ops ++ [.tick] ++ [.w c, .endRec, .tickDone] ++ [.flush])).2).flatten := by
  apply flush_post' cap _ .flush (Or.inl rfl)
  rw [runOps_append]
  simp only [runOps]
  rw [step_keeps_open _ _ (by simp), step_keeps_open _ _ (by simp), step_keeps_open _ _ (by simp)]
  exact hc

/-- one step preserves the joint invariant and the oracle accepts its token(s). -/
theorem step_J (y : Sys) (o : OSt) (n : Nat) (op : Op) (hJ : J y o n)
    (hs : ∀ c, op = .w c → n = 0) :
    ∃ o', chkToks o (step y op).2 = .ok o' ∧
      ((o'.closed = true ∧ (step y op).1.s.closed = true) ∨ J (step y op).1 o' (nextN n op)) := by
  obtain ⟨yopen, oopen, seenle, filed, strm, cnt, le1, ok0⟩ := hJ
  cases op with
  | w c =>
    have hn : n = 0 := hs c rfl
    subst hn
    have hr := ok0 rfl
    have hcur : o.cur = [] := List.eq_nil_of_length_eq_zero cnt
    have hst := step_stream y (.w c)
    unfold step at hst ⊢
    simp only [hr, if_true] at hst ⊢
    refine ⟨{ o with cur := o.cur ++ [c] }, by simp [chkToks, ostep, oopen], Or.inr ?_⟩
    unfold Q.write at hst ⊢
    by_cases hq : y.s.q.length < y.s.cap
    · simp only [hq, if_true] at hst ⊢
      exact ⟨yopen, oopen, seenle, filed, by rw [hst, strm]; simp [hr, hcur, accOf], by simp [hcur, nextN], by simp [nextN], by simp [nextN]⟩
    · simp only [hq, if_false] at hst ⊢
      exact ⟨yopen, oopen, seenle, filed, by rw [strm]; simp [hr, hcur], by simp [hcur, nextN], by simp [nextN], by simp [nextN]⟩
  | endRec =>
    refine ⟨{ o with whole := if y.recOk then o.whole ++ [o.cur.flatten] else o.whole, cur := [] },
      by simp [step, chkToks, ostep, oopen], Or.inr ?_⟩
    simp only [step]
    refine ⟨yopen, oopen, seenle, filed, ?_, by simp [nextN], by simp [nextN], by simp⟩
    rw [strm]
    by_cases hr : y.recOk = true <;> simp [hr]
  | pop k =>
    have := cons_J y o n (.pop k) ⟨yopen, oopen, seenle, filed, strm, cnt, le1, ok0⟩ rfl
    exact ⟨o, this.1, Or.inr (by simpa [nextN] using this.2)⟩
  | sync k =>
    have := cons_J y o n (.sync k) ⟨yopen, oopen, seenle, filed, strm, cnt, le1, ok0⟩ rfl
    exact ⟨o, this.1, Or.inr (by simpa [nextN] using this.2)⟩
  | tick =>
    have := cons_J y o n .tick ⟨yopen, oopen, seenle, filed, strm, cnt, le1, ok0⟩ rfl
    exact ⟨o, this.1, Or.inr (by simpa [nextN] using this.2)⟩
  | tickDone =>
    have := cons_J y o n .tickDone ⟨yopen, oopen, seenle, filed, strm, cnt, le1, ok0⟩ rfl
    exact ⟨o, this.1, Or.inr (by simpa [nextN] using this.2)⟩
  | flush =>
    have hfile : y.s.drain.file = y.s.stream := by simp [Q.drain, Q.stream]
    have hd : o.file.flatten ++ y.s.drain.file.drop y.seen = y.s.stream := by
      rw [filed, hfile]
      have : y.s.file.take y.seen = y.s.stream.take y.seen := by
        simp only [Q.stream, List.append_assoc]; rw [take_file_ext _ _ _ seenle]
      rw [this, List.take_append_drop]
    have hstep : (step y .flush) = ({ y with s := y.s.drain, seen := y.s.drain.file.length },
        [.f 0 (y.s.drain.file.drop y.seen)]) := by simp [step, yopen]
    rw [hstep]
    let o' : OSt := { o with file := o.file ++ [y.s.drain.file.drop y.seen], closed := false }
    have hJ' : J { y with s := y.s.drain, seen := y.s.drain.file.length } o' n := by
      refine ⟨by simp [Q.drain, yopen], rfl, by simp, ?_, ?_, cnt, le1, ok0⟩
      · simp only [o', List.flatten_append, List.flatten_cons, List.flatten_nil, List.append_nil]
        rw [hd, hfile]; simp
      · have : y.s.drain.stream = y.s.stream := by simp [Q.drain, Q.stream]
        simp only [this, o']; exact strm
    refine ⟨o', ?_, Or.inr hJ'⟩
    simp only [chkToks, ostep, oopen, flushChk]
    by_cases hcur : o.cur = []
    · have : (o.file ++ [y.s.drain.file.drop y.seen]).flatten = o.whole.flatten := by
        simp only [List.flatten_append, List.flatten_cons, List.flatten_nil, List.append_nil]
        rw [hd, strm, hcur]; simp
      simp [hcur, this, o']
    · simp [hcur, o']
  | close =>
    have hfile : y.s.drain.file = y.s.stream := by simp [Q.drain, Q.stream]
    have hd : o.file.flatten ++ y.s.drain.file.drop y.seen = y.s.stream := by
      rw [filed, hfile]
      have : y.s.file.take y.seen = y.s.stream.take y.seen := by
        simp only [Q.stream, List.append_assoc]; rw [take_file_ext _ _ _ seenle]
      rw [this, List.take_append_drop]
    have hstep : (step y .close).2 = [.c 0 (y.s.drain.file.drop y.seen)] := by simp [step, yopen]
    rw [hstep]
    refine ⟨{ o with file := o.file ++ [y.s.drain.file.drop y.seen], closed := true }, ?_,
      Or.inl ⟨rfl, by simp [step, yopen]⟩⟩
    simp only [chkToks, ostep, oopen, flushChk]
    by_cases hcur : o.cur = []
    · have : (o.file ++ [y.s.drain.file.drop y.seen]).flatten = o.whole.flatten := by
        simp only [List.flatten_append, List.flatten_cons, List.flatten_nil, List.append_nil]
        rw [hd, strm, hcur]; simp
      simp [hcur, this]
    · simp [hcur]
  | snap =>
    have hstep : (step y .snap) = ({ y with seen := y.s.file.length }, [.z (y.s.file.drop y.seen)]) := by
      simp [step]
    rw [hstep]
    have hfl : (o.file ++ [y.s.file.drop y.seen]).flatten = y.s.file := by
      simp only [List.flatten_append, List.flatten_cons, List.flatten_nil, List.append_nil]
      rw [filed, List.take_append_drop]
    have hpre : y.s.file <+: (o.whole ++ o.cur).flatten := by
      have h1 : y.s.file <+: y.s.stream := ⟨y.s.buf.flatten ++ y.s.q.flatten, by simp [Q.stream, List.append_assoc]⟩
      have h2 : y.s.stream <+: (o.whole ++ o.cur).flatten := by
        rw [strm, List.flatten_append]
        by_cases hr : y.recOk = true
        · simp [hr]
        · simp only [hr]; exact ⟨o.cur.flatten, by simp⟩
      exact h1.trans h2
    refine ⟨{ o with file := o.file ++ [y.s.file.drop y.seen] }, ?_, Or.inr ?_⟩
    · simp only [chkToks, ostep, oopen]
      rw [hfl]
      have hb : y.s.file <+: o.whole.flatten ++ o.cur.flatten := by rw [← List.flatten_append]; exact hpre
      simp [hb]
    · exact ⟨yopen, oopen, by simp, by simp only [hfl]; simp, strm, cnt, le1, ok0⟩

theorem run_J (ops : List Op) (y : Sys) (o : OSt) (n : Nat) (hJ : J y o n) (hs : singleAux n ops = true) :
    ∃ o', chkToks o (runOps y ops).2 = .ok o' ∧
      ((runOps y ops).1.s.closed = false →
        (runOps y ops).1.s.stream = o'.whole.flatten ++ (if (runOps y ops).1.recOk then o'.cur.flatten else [])) := by
  induction ops generalizing y o n with
  | nil => exact ⟨o, by simp [runOps, chkToks], fun _ => hJ.strm⟩
  | cons op os ih =>
    simp only [runOps]
    have hw : ∀ c, op = .w c → n = 0 := by
      intro c hc; subst hc
      simp [singleAux] at hs; exact hs.1
    obtain ⟨o1, h1, h2⟩ := step_J y o n op hJ hw
    rw [chkToks_append, h1]
    rcases h2 with ⟨hcl, hycl⟩ | hJ1
    · refine ⟨o1, chk_closed _ _ hcl, ?_⟩
      intro hopen
      rw [runOps_closed os _ hycl] at hopen
      cases hopen
    · have hs' : singleAux (nextN n op) os = true := by
        cases op <;> simp [singleAux, nextN] at hs ⊢ <;> first | exact hs | exact hs.2
      exact ih _ _ _ hJ1 hs'

theorem J_init (cap : Nat) : J (Sys.init cap) OSt.init 0 :=
  ⟨rfl, rfl, by simp [Sys.init], by simp [Sys.init, OSt.init, Q.init], by simp [Sys.init, OSt.init, Q.init, Q.stream],
   rfl, by omega, fun _ => rfl⟩

/-- **C07_whole_records_state.**  For every capacity and every schedule in which each record is one
`Write`: the oracle accepts, and (while the writer is open) the accepted byte stream — file, then
bufio, then channel — is exactly the concatenation of the records whose call returned nil, in call
order, followed by the record in progress if its write was accepted.  A record that returned an error
contributes nothing. -/
theorem C07_whole_records_state (cap : Nat) (ops : List Op) (h : SingleChunk ops) :
    ∃ o, chkToks OSt.init (runOps (Sys.init cap) ops).2 = .ok o ∧
      ((runOps (Sys.init cap) ops).1.s.closed = false →
        (runOps (Sys.init cap) ops).1.s.stream =
          o.whole.flatten ++ (if (runOps (Sys.init cap) ops).1.recOk then o.cur.flatten else [])) :=
  run_J ops (Sys.init cap) OSt.init 0 (J_init cap) h

/-- **C07_whole_records_only.**  For every queue capacity and every schedule (any interleaving of
record writes, consumer receives, bufio hand-overs, flushes, looks at the file and a close; stalls of
any length anywhere) in which each record is issued as ONE `Write` — what `ljh.Writer`, `ljh.Writer3`
and `off.Writer` do — the property oracle holds: whenever `Flush`/`Close` returns the file is exactly
the header followed by the whole records that were accepted, in order; every rejected record is
entirely absent; at every other moment the file is a prefix of that. -/
theorem C07_whole_records_only (cap : Nat) (ops : List Op) (h : SingleChunk ops) :
    chkC07 (runOps (Sys.init cap) ops).2 = true := by
  obtain ⟨o, ho, _⟩ := C07_whole_records_state cap ops h
  simp [chkC07, ho, Except.isOk, Except.toBool]

/-- the hypothesis is satisfiable by a non-trivial schedule: cap 2, disk stalled, third and fourth
record rejected, disk resumes, flush, one more record, close. -/
example : SingleChunk [.w [1], .endRec, .w [2, 3], .endRec, .w [4], .endRec, .w [5], .endRec, .pop 1, .sync 1,
    .snap, .w [6], .endRec, .flush, .w [7], .endRec, .close] := by decide

example : (runOps (Sys.init 2) [.w [1], .endRec, .w [2, 3], .endRec, .w [4], .endRec, .w [5], .endRec, .pop 1, .sync 1,
    .snap, .w [6], .endRec, .flush, .w [7], .endRec, .close]).2 =
    [.w [1] true, .e true, .w [2, 3] true, .e true, .w [4] false, .e false, .w [5] false, .e false, .p 1, .y 1,
     .z [1], .w [6] true, .e true, .f 0 [2, 3, 6], .w [7] true, .e true, .c 0 [7]] := by decide

/-! ### more than one Write per record: the statement is false -/

/-- the statement without the one-Write-per-record hypothesis -/
def C07_whole_records_any_chunking : Prop :=
  ∀ (cap : Nat) (ops : List Op), chkC07 (runOps (Sys.init cap) ops).2 = true

/-- **C07_multichunk_counterexample.**  Queue of 1, disk stalled: the first chunk of a two-chunk record
is queued, the second is rejected, `WriteRecord` returns the error — and after the flush the file
holds the first chunk of the rejected record. -/
theorem C07_multichunk_counterexample : ¬ C07_whole_records_any_chunking := by
  intro h
  have := h 1 [.w [1], .w [2], .endRec, .flush]
  revert this
  decide

/-- the shapes of the unrepaired writers (3 / 5 / 8 writes per record) against small queues -/
example : chkC07 (runOps (Sys.init 4) [.w [0], .endRec,                       -- header
    .w [1], .w [2], .w [3], .endRec,                                           -- record 1 (accepted): queue exactly full
    .w [4], .w [5], .w [6], .endRec, .pop 4, .flush]).2 = true := by decide    -- record 2 rejected cleanly (0 of 3): no tear
example : chkC07 (runOps (Sys.init 5) [.w [0], .endRec, .w [1], .w [2], .w [3], .endRec,
    .w [4], .w [5], .w [6], .endRec, .flush]).2 = false := by decide           -- LJH2.2: 1 of 3 chunks got in
example : chkC07 (runOps (Sys.init 4) [.w [1], .w [2], .w [3], .w [4], .w [5], .endRec, .flush]).2 = false := by
  decide                                                                       -- LJH3: 4 of 5
example : chkC07 (runOps (Sys.init 7) [.w [1], .w [2], .w [3], .w [4], .w [5], .w [6], .w [7], .w [8], .endRec,
    .close]).2 = false := by decide                                            -- OFF: 7 of 8

/-! #### … for every capacity ≥ 1

`cap − 1` one-chunk records fill the stalled queue up to one free slot; the next record has two
chunks: the first takes the last slot, the second is rejected.  (With k-chunk records only, the same
happens whenever the free room at a record boundary is not a multiple of k — e.g. after the consumer
took a single chunk.) -/

def fillOps : Nat → List Op
  | 0 => []
  | m + 1 => .w [0] :: .endRec :: fillOps m

def fillToks : Nat → List Tok
  | 0 => []
  | m + 1 => .w [0] true :: .e true :: fillToks m

def tornOps (cap : Nat) : List Op := fillOps (cap - 1) ++ [.w [1], .w [2], .endRec, .flush]

theorem fill_model (m : Nat) (rest : List Op) (y : Sys) (hr : y.recOk = true)
    (hroom : y.s.q.length + m ≤ y.s.cap) :
    runOps y (fillOps m ++ rest) =
      ((runOps { y with s := { y.s with q := y.s.q ++ List.replicate m [0] } } rest).1,
       fillToks m ++ (runOps { y with s := { y.s with q := y.s.q ++ List.replicate m [0] } } rest).2) := by
  induction m generalizing y with
  | zero => simp [fillOps, fillToks]
  | succ m ih =>
    have hq : y.s.q.length < y.s.cap := by omega
    simp only [fillOps, List.cons_append, runOps]
    have e1 : (step y (.w [0])) = ({ y with s := { y.s with q := y.s.q ++ [[0]] } }, [.w [0] true]) := by
      simp [step, hr, Q.write, hq]
    rw [e1]
    have e2 : ∀ z : Sys, z.recOk = true → step z .endRec = (z, [.e true]) := by
      intro z hz; cases z; simp_all [step]
    rw [e2 _ (by simpa using hr)]
    rw [ih _ (by simpa using hr) (by simp; omega)]
    simp [fillToks, List.replicate_succ, List.append_assoc]

theorem fill_oracle (m : Nat) (ts : List Tok) (o : OSt) (ho : o.closed = false) (hc : o.cur = []) :
    chkToks o (fillToks m ++ ts) = chkToks { o with whole := o.whole ++ List.replicate m [0] } ts := by
  induction m generalizing o with
  | zero => simp [fillToks]
  | succ m ih =>
    simp only [fillToks, List.cons_append, chkToks, ostep, ho, hc]
    simp only [Bool.false_eq_true, if_false, if_true, List.nil_append]
    rw [ih _ rfl rfl]
    simp [List.replicate_succ, List.append_assoc]

theorem torn_oracle (W : List Chunk) (d : List Nat) (hne : d ≠ W.flatten) :
    (chkToks { whole := W, cur := [], file := [], closed := false }
      [.w [1] true, .w [2] false, .e false, .f 0 d]).isOk = false := by
  simp only [chkToks, ostep, flushChk, Bool.false_eq_true, if_false, List.nil_append, List.flatten_cons,
    List.flatten_nil, List.append_nil, ne_eq, not_true_eq_false, hne]
  by_cases hp : d.isPrefixOf W.flatten = true <;> simp [hp, Except.isOk, Except.toBool]

/-- **C07_multichunk_torn_any_cap.**  For EVERY queue capacity ≥ 1 there is a schedule (a disk stall)
after which the file holds part of a record whose write call returned an error. -/
theorem C07_multichunk_torn_any_cap (cap : Nat) (h : 1 ≤ cap) :
    chkC07 (runOps (Sys.init cap) (tornOps cap)).2 = false := by
  unfold tornOps chkC07
  rw [fill_model (cap - 1) _ (Sys.init cap) rfl (by simp [Sys.init, Q.init])]
  simp only []
  rw [fill_oracle _ _ _ rfl rfl]
  have hlen : (List.replicate (cap - 1) ([0] : Chunk)).length < cap := by simp; omega
  have hlen2 : ¬ ((List.replicate (cap - 1) ([0] : Chunk)).length + 1 < cap) := by simp; omega
  simp only [runOps, step, Sys.init, Q.init, Q.write, Q.drain, OSt.init, List.nil_append, List.length_append,
    List.length_cons, List.length_nil, hlen, hlen2, if_true, if_false, Bool.false_eq_true, List.append_nil,
    List.flatten_nil, List.drop_zero, List.flatten_append, List.flatten_cons]
  apply torn_oracle
  intro he
  have := congrArg List.length he
  simp at this

example : chkC07 (runOps (Sys.init 1000) (tornOps 1000)).2 = false := C07_multichunk_torn_any_cap 1000 (by decide)

/-! ### header -/

/-- a header issued as `k` chunk writes into a fresh queue of capacity ≥ k, with any consumer activity
in between, is accepted whole (cap = 1000, k ≤ 4 in dastard).  `gaps` are the numbers of receives the
consumer performs before each chunk write. -/
def hdrOps : List Chunk → List Nat → List Op
  | [], _ => [.endRec]
  | c :: cs, [] => .w c :: hdrOps cs []
  | c :: cs, g :: gs => .pop g :: .w c :: hdrOps cs gs

theorem hdr_aux (cs : List Chunk) (gaps : List Nat) (y : Sys) (hr : y.recOk = true)
    (hroom : y.s.q.length + cs.length ≤ y.s.cap) :
    (runOps y (hdrOps cs gaps)).2.getLast? = some (.e true) := by
  induction cs generalizing y gaps with
  | nil => simp [hdrOps, runOps, step, hr]
  | cons c cs ih =>
    have key : ∀ (z : Sys), z.recOk = true → z.s.q.length + (cs.length + 1) ≤ z.s.cap → ∀ gs,
        (runOps z (.w c :: hdrOps cs gs)).2.getLast? = some (.e true) := by
      intro z hz hroom gs
      have hq : z.s.q.length < z.s.cap := by omega
      simp only [runOps]
      have e1 : (step z (.w c)).1.recOk = true := by simp [step, hz, Q.write, hq]
      have e2 : (step z (.w c)).1.s.q.length = z.s.q.length + 1 := by simp [step, hz, Q.write, hq]
      have e3 : (step z (.w c)).1.s.cap = z.s.cap := by simp [step, hz, Q.write, hq]
      have := ih gs (step z (.w c)).1 e1 (by rw [e2, e3]; omega)
      rw [List.getLast?_append, this]; simp
    cases gaps with
    | nil => exact key y hr (by simpa using hroom) []
    | cons g gs =>
      simp only [hdrOps, runOps]
      have e1 : (step y (.pop g)).1.recOk = true := by simp [step, hr]
      have e2 : (step y (.pop g)).1.s.q.length ≤ y.s.q.length := by
        simp only [step, Q.pop]; split <;> simp
      have e3 : (step y (.pop g)).1.s.cap = y.s.cap := by
        simp only [step, Q.pop]; split <;> simp
      have := key (step y (.pop g)).1 e1 (by rw [e3]; simp at hroom; omega) gs
      simp only [runOps] at this
      rw [List.getLast?_append, this]; simp

theorem C07_header_accepted (cap : Nat) (cs : List Chunk) (gaps : List Nat) (h : cs.length ≤ cap) :
    (runOps (Sys.init cap) (hdrOps cs gaps)).2.getLast? = some (.e true) :=
  hdr_aux cs gaps (Sys.init cap) rfl (by simpa [Sys.init, Q.init] using h)

example : (runOps (Sys.init 1000) (hdrOps [[1, 2], [3], [4], [5]] [0, 1, 0, 2])).2.getLast? = some (.e true) :=
  C07_header_accepted 1000 _ _ (by decide)

/-! ### PublishData / processSegment -/

/-- "no disk timing crashes the server" at the PublishData level -/
def C07_publish_never_crashes_full : Prop :=
  ∀ (ljh22 ljh3 off : Option Bool), publishOne ljh22 ljh3 off = .done

/-- false for the code as it is: a record the OFF writer rejected (full queue) makes `PublishData`
return the error and `processSegment` panic.  Recorded as known finding `C07:stall-crash-off`. -/
theorem C07_publish_crash_counterexample : ¬ C07_publish_never_crashes_full := by
  intro h; have := h none none (some false); revert this; decide

/-- what does hold: without an OFF writer, or while the OFF writer accepts, nothing crashes; a record
rejected by the LJH writers is dropped (whole). -/
theorem C07_publish_partial (ljh22 ljh3 off : Option Bool) (h : off ≠ some false) :
    publishOne ljh22 ljh3 off = .done := by
  unfold publishOne
  split
  · rename_i h2; exact absurd rfl h
  · rfl

example : publishOne (some false) (some false) (some true) = .done := by decide

end DastardV.C07
