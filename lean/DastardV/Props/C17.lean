/-
C17 — a running acquisition is free of data races.  PARTIAL: the theorems are about the
synchronisation skeleton over the NAMED shared state (Model/C17Skel.lean) and its ownership contracts
(Model/C17.lean `mkSpec`); memory the skeleton does not name is covered only by the Go race detector,
which is a search for a failing schedule, never the proof.

  raceFree_sound            (Lemmas/C17Sound)  raceFree tr = true → ¬ Race tr            (vector clocks vs. declarative HB)
  ownership_transfer        (Lemmas/C17OwnVC)  ownRun sp tr = true → raceFree tr = true  (any contracts `sp`)
  typed_interleavings_owned (Lemmas/C17Typed)  thread-local typing + side conditions → every feasible interleaving is owned
  skeleton_ok               (Lemmas/C17Skel)   the skeleton satisfies them for ALL n, k, source kinds, request / trigger patterns
  C17_skeleton_race_free / C17_skeleton_no_race   ∀ interleavings of the skeleton
  C17_logged_trace_no_race  what the driver's conformance verdict on a logged trace implies
  C17_known_races_detected  the five real races found (before their fixes) as skeleton fragments, and their repaired forms
-/
import DastardV.Lemmas.C17Sound
import DastardV.Lemmas.C17OwnVC
import DastardV.Lemmas.C17Typed
import DastardV.Lemmas.C17Skel
namespace DastardV.C17

/-- **Every feasible interleaving of the skeleton of a running acquisition is accepted by the race analysis** — for any
number of channels `s.n ≥ 1` (a source without channels cannot be started), any number of blocks `s.k`, the three source kinds, any position `s.k0` of the client's
first request, any request kinds `s.rk`, any secondary-trigger pattern `s.sec` and trigger-rate pattern `s.tm`. -/
theorem C17_skeleton_race_free (s : Sched) (hsrc : s.src ≤ 2) (hn : 0 < s.n) (tr : Trace)
    (hi : Interleaving s.prog tr) (hf : feasible tr = true) : raceFree tr = true :=
  ownership_transfer s.system.sp tr (typed_interleavings_owned s.system (skeleton_ok s hsrc hn) tr hi hf)

/-- … hence no two conflicting accesses of it are unordered by happens-before. -/
theorem C17_skeleton_no_race (s : Sched) (hsrc : s.src ≤ 2) (hn : 0 < s.n) (tr : Trace)
    (hi : Interleaving s.prog tr) (hf : feasible tr = true) : ¬ Race tr :=
  raceFree_sound tr (C17_skeleton_race_free s hsrc hn tr hi hf)

theorem ownFailFrom_none (sp : Spec) : ∀ (tr : Trace) (o : OSt) (i : Nat),
    ownFailFrom sp o tr i = none → ownRunFrom sp o tr = true
  | [], _, _, _ => rfl
  | te :: r, o, i, h => by
    unfold ownFailFrom at h
    unfold ownRunFrom
    cases hs : stepO sp o te with
    | none => rw [hs] at h; cases h
    | some o' => rw [hs] at h; exact ownFailFrom_none sp r o' (i + 1) h

/-- What the driver's conformance verdict means: a logged trace that the ownership contracts of a run with ANY
parameters `p` accept has no data race (on the logged accesses, under the logged synchronisation). -/
theorem C17_logged_trace_no_race (p : Par) (tr : Trace) (h : ownFail (mkSpec p) tr = none) : ¬ Race tr :=
  raceFree_sound tr (ownership_transfer (mkSpec p) tr (ownFailFrom_none (mkSpec p) tr (OSt.init (mkSpec p)) 0 h))

/-! ### the real races found on the unchanged tree, as skeleton fragments (before / after the fix) -/

/-- `abaco.go`: every per-channel goroutine of block assembly wrote `block.nSamp` (variable 3) -/
def cexNSamp : Trace :=
  [(0, .wgAdd 9), (0, .spawn 1), (0, .wgAdd 9), (0, .spawn 2), (1, .start), (1, .wr 3), (1, .wgDone 9),
   (2, .start), (2, .wr 3), (2, .wgDone 9), (0, .wgWait 9)]
def fixNSamp : Trace :=
  [(0, .wgAdd 9), (0, .spawn 1), (0, .wgAdd 9), (0, .spawn 2), (1, .start), (1, .wr 4), (1, .wgDone 9),
   (2, .start), (2, .wr 5), (2, .wgDone 9), (0, .wgWait 9), (0, .wr 3)]

/-- `data_source.go`: `close(complete)` then `active = false` (variable 5) while the writer goroutine copies the struct -/
def cexArchive : Trace :=
  [(0, .spawn 1), (1, .start), (0, .wr 5), (0, .close 6), (0, .wr 5), (1, .recvC 6), (1, .rd 5)]
def fixArchive : Trace :=
  [(0, .spawn 1), (1, .start), (0, .wr 5), (0, .wr 8), (0, .send 6), (0, .wr 5), (1, .recv 6), (1, .rd 8)]

/-- `abaco.go`: the reader loop reads `nextFrameNum` (variable 1), block assembly writes it -/
def cexNextFrame : Trace :=
  [(0, .spawn 1), (0, .spawn 2), (1, .start), (2, .start), (1, .rd 1), (2, .wr 1)]
def fixNextFrame : Trace :=
  [(0, .spawn 1), (0, .spawn 2), (1, .start), (2, .start), (1, .lock 7), (1, .rd 1), (1, .unlock 7),
   (2, .lock 7), (2, .wr 1), (2, .unlock 7)]

/-- `abaco.go`: the reader loop appends to the external-trigger packet queue (variable 2), block assembly drains it -/
def cexTrigQueue : Trace :=
  [(0, .spawn 1), (0, .spawn 2), (1, .start), (2, .start), (1, .wr 2), (2, .wr 2)]
def fixTrigQueue : Trace :=
  [(0, .spawn 1), (0, .spawn 2), (1, .start), (2, .start), (1, .lock 7), (1, .wr 2), (1, .unlock 7),
   (2, .lock 7), (2, .wr 2), (2, .unlock 7)]

/-- the global viper store (variable 13): written by the status thread's save, read by `PrepareRun` on the client's thread -/
def cexViper : Trace := [(3, .wr 13), (0, .rd 13)]
def fixViper : Trace := [(3, .lock 9), (3, .wr 13), (3, .unlock 9), (0, .lock 9), (0, .rd 13), (0, .unlock 9)]

theorem C17_known_races_detected :
    raceFree cexNSamp = false ∧ raceFree fixNSamp = true ∧
    raceFree cexArchive = false ∧ raceFree fixArchive = true ∧
    raceFree cexNextFrame = false ∧ raceFree fixNextFrame = true ∧
    raceFree cexTrigQueue = false ∧ raceFree fixTrigQueue = true ∧
    raceFree cexViper = false ∧ raceFree fixViper = true := by
  decide

/-! ### non-vacuity: the hypotheses of the skeleton theorem are satisfiable by complete runs -/

def totalEvents (s : Sched) : Nat := (s.threads.map (fun t => (s.prog t).length)).sum

/-- `Interleaving` restricted to the threads that occur (decidable) -/
def interleavingB (P : Prog) (tr : Trace) : Bool :=
  (tr.map (·.1)).all (fun t => (proj tr t).isPrefixOf (P t))

theorem proj_nil_of_not_mem (tr : Trace) (t : Tid) (h : t ∉ tr.map (·.1)) : proj tr t = [] := by
  unfold proj
  have : tr.filter (fun te => te.1 == t) = [] := by
    apply List.filter_eq_nil_iff.mpr
    intro te hte hc
    apply h
    have : te.1 = t := by simpa using hc
    exact this ▸ List.mem_map_of_mem hte
  rw [this]; rfl

theorem interleaving_of_B (P : Prog) (tr : Trace) (h : interleavingB P tr = true) : Interleaving P tr := by
  intro t
  by_cases ht : t ∈ tr.map (·.1)
  · have := (List.all_eq_true.mp h) t ht
    exact List.isPrefixOf_iff_prefix.mp this
  · rw [proj_nil_of_not_mem tr t ht]; exact List.nil_prefix

/-- a small Abaco instance: 1 channel, 1 block, the first request right after it, an archive request, a secondary
trigger, a trigger-rate message -/
def exSched : Sched :=
  { n := 1, k := 1, src := 1, k0 := 0, rk := fun _ => 3, sec := fun _ _ => true, tm := fun _ => true }

/-- a COMPLETE run of it (produced by a greedy scheduler: always the first thread whose next event is enabled) -/
def exRun : Trace :=
  [(0, .lock 7), (0, .wr 2), (0, .rd 1), (0, .unlock 7), (0, .lock 9), (0, .rd 13), (0, .unlock 9), (0, .wgAdd 12),
   (0, .spawn 2), (0, .spawn 1), (0, .rd 8), (0, .rd 9), (0, .send 19), (1, .start), (1, .spawn 4), (1, .recv 19),
   (1, .send 4), (0, .recv 4), (0, .lock 8), (0, .rd 11), (0, .unlock 8), (0, .send 35), (1, .wr 8), (1, .wr 7),
   (1, .rd 8), (2, .start), (2, .lock 7), (2, .wr 2), (2, .rd 1), (2, .unlock 7), (2, .wr 0), (2, .rd 0),
   (2, .send 2), (3, .lock 9), (3, .wr 13), (3, .wr 15), (3, .unlock 9), (4, .start), (4, .recv 2), (4, .wr 3),
   (4, .lock 7), (4, .wr 2), (4, .wr 1), (4, .unlock 7), (4, .wgAdd 10), (4, .spawn 5), (5, .start), (5, .wr 4),
   (5, .wgDone 10), (4, .wgWait 10), (4, .send 1), (1, .recv 1), (1, .rd 3), (1, .rd 5), (1, .rd 4), (1, .wgAdd 11),
   (1, .spawn 7), (7, .start), (7, .wr 7), (7, .rd 8), (7, .wr 8), (7, .wgDone 11), (1, .wgWait 11), (1, .rd 7),
   (1, .rd 9), (1, .wr 14), (1, .wr 10), (1, .send 5), (1, .wgAdd 27), (1, .spawn 9), (3, .recv 5), (3, .rd 10),
   (3, .wr 15), (3, .lock 9), (3, .wr 13), (3, .wr 15), (3, .unlock 9), (9, .start), (9, .wr 7), (9, .rd 8),
   (9, .wr 8), (9, .wgDone 27), (1, .wgWait 27), (1, .wr 7), (1, .rd 11), (1, .wr 12), (1, .spawn 20), (1, .recv 35),
   (1, .send 4), (0, .recv 4), (0, .close 13), (1, .wr 5), (1, .spawn 10), (2, .recvC 13), (2, .close 2),
   (20, .start), (20, .recvC 2), (20, .close 1), (1, .recvC 1), (1, .lock 8), (1, .rd 11), (1, .unlock 8),
   (1, .close 14), (0, .recvC 14), (0, .rd 11), (1, .wgDone 12), (10, .start)]

set_option maxRecDepth 100000 in
example : Interleaving exSched.prog exRun := interleaving_of_B _ _ (by decide)
set_option maxRecDepth 100000 in
example : feasible exRun = true := by decide
/-- every event of every thread has been executed, except the last two of the archive writer, which waits for a
block that the single data block of this instance never fills -/
example : exRun.length = 107 ∧ totalEvents exSched = 109 := by decide

end DastardV.C17
