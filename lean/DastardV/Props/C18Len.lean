/-
C18 — the LENGTH-LEVEL ring-buffer model (`Model/C18.lean`, namespace `L`) is exactly the projection of
the full model: same pointers, same accepted counts, same error cases, and every read of the full model
returns exactly as many BYTES as the length model says — for all buffers and inputs.

The only hypotheses (for the reads) are `mem.length = cap` and `w - r ≤ cap` (truncated subtraction:
nothing is asked when `r > w`); both are consequences of the representation invariant `Rep` of
`Props/C18.lean` and are preserved by every operation except a discard that rewinds by more than `cap`.
-/
import DastardV.Props.C18
namespace DastardV.C18

/-- forget the contents -/
def RB.toL (b : RB) : L.LB := { cap := b.cap, w := b.w, r := b.r }

/-! ### Operation by operation -/

/-- `Write`: both `none` in the same cases; same pointers; same accepted count.  No hypothesis. -/
theorem write_len (b : RB) (d : List Nat) :
    (write b d).map (fun p => (p.1.toL, p.2)) = L.write b.toL d.length := by
  unfold write L.write RB.toL
  simp only
  split
  · rfl
  · rfl

theorem lread_eq (b : L.LB) (size : Int) (k : Nat)
    (hk : k = (min size ((b.w : Int) - b.r)).toNat) :
    L.read b size = if k = 0 then (b, 0) else ({ b with r := b.r + k }, k) := by
  unfold L.read
  have e : (if size > (b.w : Int) - b.r then (b.w : Int) - b.r else size) =
      min size ((b.w : Int) - b.r) := by
    split <;> omega
  simp only [e]
  split
  · rw [if_pos (by omega)]
  · rw [if_neg (by omega), ← hk]

/-- a read of a whole ring (`k = cap`, not covered by `rdata_spec`) -/
theorem rdata_len_full (mem : List Nat) (cap r : Nat) (hlen : mem.length = cap) (hc : 0 < cap) :
    (rdata mem cap r cap).length = cap := by
  have hlt := Nat.mod_lt r hc
  have hd : (r + cap) / cap > r / cap := by
    rw [Nat.add_div_right r hc]; omega
  unfold rdata slice
  simp only [hd, if_true, true_and, List.length_take, List.length_drop, hlen]
  generalize r % cap = rb at *
  split <;> simp [hlen] <;> omega

/-- the split-at-wrap slices add up to the requested count, up to and including a full ring -/
theorem rdata_len (mem : List Nat) (cap r k : Nat) (hlen : mem.length = cap) (hk : k ≤ cap)
    (h0 : 0 < k) : (rdata mem cap r k).length = k := by
  by_cases h : k < cap
  · exact (rdata_spec mem cap r k hlen h).1
  · have e : k = cap := by omega
    subst e
    exact rdata_len_full mem k r hlen h0

/-- the pointer part of `read_len` needs no hypothesis -/
theorem read_len_ptr (b : RB) (n : Int) : (read b n).1.toL = (L.read b.toL n).1 := by
  obtain ⟨k, hk⟩ : ∃ k, k = (min n ((b.w : Int) - b.r)).toNat := ⟨_, rfl⟩
  rw [lread_eq b.toL n k hk]
  by_cases h0 : k = 0
  · rw [if_pos h0, read_zero b n (by omega)]
  · rw [if_neg h0, read_pos b n k hk (by omega)]
    rfl

/-- `Read(n)`: the full model returns exactly as many bytes as the length model says, and moves the read
pointer identically. -/
theorem read_len (b : RB) (n : Int) (hm : b.mem.length = b.cap) (hocc : b.w - b.r ≤ b.cap) :
    ((read b n).1.toL, (read b n).2.length) = L.read b.toL n := by
  obtain ⟨k, hk⟩ : ∃ k, k = (min n ((b.w : Int) - b.r)).toNat := ⟨_, rfl⟩
  rw [lread_eq b.toL n k hk]
  by_cases h0 : k = 0
  · rw [if_pos h0, read_zero b n (by omega)]
    rfl
  · rw [if_neg h0, read_pos b n k hk (by omega)]
    have hkc : k ≤ b.cap := by omega
    show (_, (rdata b.mem b.cap b.r k).length) = _
    rw [rdata_len b.mem b.cap b.r k hm hkc (by omega)]
    rfl

theorem bytesReadable_len (b : RB) : bytesReadable b = L.bytesReadable b.toL := rfl

/-- `ReadMultipleOf(chunk)`: an error in the same cases, otherwise the same count and pointers -/
theorem readMultipleOf_len (b : RB) (chunk : Nat) (hm : b.mem.length = b.cap)
    (hocc : b.w - b.r ≤ b.cap) :
    (readMultipleOf b chunk).map (fun p => (p.1.toL, p.2.length)) = L.readMultipleOf b.toL chunk := by
  unfold readMultipleOf L.readMultipleOf
  rw [← bytesReadable_len]
  by_cases h : chunk ≥ b.cap
  · have h' : chunk ≥ b.toL.cap := h
    rw [if_pos h, if_pos h']
    rfl
  · have h' : ¬ chunk ≥ b.toL.cap := h
    rw [if_neg h, if_neg h']
    simp only [Option.map_some]
    rw [read_len b _ hm hocc]

theorem readAll_len (b : RB) (hm : b.mem.length = b.cap) (hocc : b.w - b.r ≤ b.cap) :
    ((readAll b).1.toL, (readAll b).2.length) = L.readAll b.toL := by
  unfold readAll L.readAll
  exact read_len b _ hm hocc

/-- `DiscardStride(k)`: same pointers.  No hypothesis. -/
theorem discard_len (b : RB) (k : Nat) : (discardStride b k).toL = L.discardStride b.toL k := by
  unfold discardStride L.discardStride RB.toL
  rfl

/-- the same under the representation invariant of `Props/C18.lean` -/
theorem read_len_of_rep (b : RB) (W : List Nat) (hr : Rep b W) (n : Int) :
    ((read b n).1.toL, (read b n).2.length) = L.read b.toL n := by
  have := hr.occ
  exact read_len b n hr.len (by omega)

theorem readMultipleOf_len_of_rep (b : RB) (W : List Nat) (hr : Rep b W) (chunk : Nat) :
    (readMultipleOf b chunk).map (fun p => (p.1.toL, p.2.length)) = L.readMultipleOf b.toL chunk := by
  have := hr.occ
  exact readMultipleOf_len b chunk hr.len (by omega)

theorem readAll_len_of_rep (b : RB) (W : List Nat) (hr : Rep b W) :
    ((readAll b).1.toL, (readAll b).2.length) = L.readAll b.toL := by
  have := hr.occ
  exact readAll_len b hr.len (by omega)

/-! ### Steps and runs -/

/-- what the length-level model says about a result: counts instead of bytes -/
inductive LRes where
  | wrote (n : Nat)
  | len (n : Nat)
  | err
  | unit
  | unmodelled
deriving Repr, DecidableEq

def lenRes : Res → LRes
  | .wrote n => .wrote n
  | .bytes bs => .len bs.length
  | .err => .err
  | .unit => .unit
  | .unmodelled => .unmodelled

/-- `step` with the `L.*` functions: of a write only the length of the data is used -/
def lenStep (b : L.LB) : Op → L.LB × LRes
  | .write d => match L.write b d.length with
    | some (b', n) => (b', .wrote n)
    | none => (b, .unmodelled)
  | .read n => ((L.read b n).1, .len (L.read b n).2)
  | .readMult k => match L.readMultipleOf b k with
    | some (b', m) => (b', .len m)
    | none => (b, .err)
  | .readAll => ((L.readAll b).1, .len (L.readAll b).2)
  | .discard k => (L.discardStride b k, .unit)
  | .reopen => (b, .unit)

def lenRun : L.LB → List Op → L.LB × List LRes
  | b, [] => (b, [])
  | b, o :: os => ((lenRun (lenStep b o).1 os).1, (lenStep b o).2 :: (lenRun (lenStep b o).1 os).2)

/-- what the reads need: the region has `cap` bytes and at most `cap` bytes lie between the pointers -/
structure LenInv (b : RB) : Prop where
  len : b.mem.length = b.cap
  occ : b.w - b.r ≤ b.cap

theorem lenInv_create (cap : Nat) : LenInv (RB.create cap) :=
  ⟨by simp [RB.create], by simp [RB.create]⟩

theorem lenInv_of_rep (b : RB) (W : List Nat) (hr : Rep b W) : LenInv b :=
  ⟨hr.len, by have := hr.occ; omega⟩

/-- the only operation that can break `LenInv` is a discard whose stride boundary lies more than `cap`
bytes behind the write position (a rewinding discard with a stride `> cap`, or stride 0) -/
def LenStepOk (b : RB) : Op → Prop
  | .discard k => b.w % k ≤ b.cap
  | _ => True

def LenHist : RB → List Op → Prop
  | _, [] => True
  | b, o :: os => LenStepOk b o ∧ LenHist (step b o).1 os

theorem step_len (b : RB) (o : Op) (hi : LenInv b) :
    ((step b o).1.toL, lenRes (step b o).2) = lenStep b.toL o := by
  cases o with
  | write d =>
    have h := write_len b d
    simp only [step, lenStep]
    rw [← h]
    cases write b d with
    | none => rfl
    | some p => rfl
  | read n =>
    have h := read_len b n hi.len hi.occ
    simp only [step, lenStep, lenRes]
    rw [← h]
  | readMult k =>
    have h := readMultipleOf_len b k hi.len hi.occ
    simp only [step, lenStep]
    rw [← h]
    cases readMultipleOf b k with
    | none => rfl
    | some p => rfl
  | readAll =>
    have h := readAll_len b hi.len hi.occ
    simp only [step, lenStep, lenRes]
    rw [← h]
  | discard k =>
    simp only [step, lenStep, lenRes, discard_len]
  | reopen => rfl

theorem read_inv (b : RB) (n : Int) (hi : LenInv b) : LenInv (read b n).1 := by
  obtain ⟨k, hk⟩ : ∃ k, k = (min n ((b.w : Int) - b.r)).toNat := ⟨_, rfl⟩
  have hocc := hi.occ
  by_cases h0 : k = 0
  · rw [read_zero b n (by omega)]; exact hi
  · rw [read_pos b n k hk (by omega)]
    refine ⟨hi.len, ?_⟩
    show b.w - (b.r + k) ≤ b.cap
    omega

theorem write_inv (b : RB) (d : List Nat) (hi : LenInv b) (b' : RB) (n : Nat)
    (h : write b d = some (b', n)) : LenInv b' := by
  have hocc := hi.occ
  by_cases hfull : b.w - b.r + 1 ≤ b.cap
  · obtain ⟨m, hm⟩ : ∃ m, m = min d.length (b.cap - 1 - (b.w - b.r)) := ⟨_, rfl⟩
    rw [write_eq b d hfull m hm] at h
    have hb : b' = { b with w := b.w + m, mem := wmem b.mem b.cap b.w m d } :=
      (Prod.mk.inj (Option.some.inj h)).1.symm
    subst hb
    refine ⟨(wmem_spec b.mem b.cap b.w m d hi.len (by omega) (by omega)).1, ?_⟩
    show b.w + m - b.r ≤ b.cap
    omega
  · unfold write at h
    simp only at h
    rw [if_pos (by omega)] at h
    cases h

theorem readMult_inv (b : RB) (k : Nat) (hi : LenInv b) (p : RB × List Nat)
    (h : readMultipleOf b k = some p) : LenInv p.1 := by
  unfold readMultipleOf at h
  split at h
  · cases h
  · cases h
    exact read_inv b _ hi

theorem step_inv (b : RB) (o : Op) (hi : LenInv b) (hok : LenStepOk b o) : LenInv (step b o).1 := by
  cases o with
  | write d =>
    simp only [step]
    cases h : write b d with
    | none => exact hi
    | some p => exact write_inv b d hi p.1 p.2 h
  | read n => exact read_inv b n hi
  | readMult k =>
    simp only [step]
    cases h : readMultipleOf b k with
    | none => exact hi
    | some p => exact readMult_inv b k hi p h
  | readAll => exact read_inv b _ hi
  | discard k =>
    have hok' : b.w % k ≤ b.cap := hok
    refine ⟨hi.len, ?_⟩
    show b.w - (discardStride b k).r ≤ b.cap
    unfold discardStride
    simp only
    split <;> omega
  | reopen => exact hi

/-- **the length-level run is the projection of the full run**: final pointers and the lengths of all
results, from any state satisfying `LenInv`, along any history satisfying `LenHist` -/
theorem run_len (ops : List Op) : ∀ (b : RB), LenInv b → LenHist b ops →
    ((runOps b ops).1.toL, (runOps b ops).2.map lenRes) = lenRun b.toL ops := by
  induction ops with
  | nil => intro b _ _; rfl
  | cons o os ih =>
    intro b hi hh
    have hs := step_len b o hi
    have ih' := ih (step b o).1 (step_inv b o hi hh.1) hh.2
    rw [runOps_cons]
    simp only [lenRun, List.map_cons]
    rw [← hs]
    simp only
    rw [← ih']

/-- a forward discard (the hypothesis of `C18_fifo_with_discards`) is in particular harmless for lengths -/
theorem lenStepOk_of_okStep (b : RB) (o : Op) (hi : LenInv b) (hok : OkStep b o) : LenStepOk b o := by
  cases o with
  | discard k =>
    have hf : b.r ≤ b.w - b.w % k := hok.2
    have hocc := hi.occ
    have hle : b.w % k ≤ b.w := Nat.mod_le _ _
    show b.w % k ≤ b.cap
    omega
  | _ => trivial

theorem lenHist_of_okHist (ops : List Op) : ∀ (b : RB), LenInv b → OkHist b ops → LenHist b ops := by
  induction ops with
  | nil => intro _ _ _; trivial
  | cons o os ih =>
    intro b hi hok
    rw [okHist_cons] at hok
    have h1 := lenStepOk_of_okStep b o hi hok.1
    exact ⟨h1, ih _ (step_inv b o hi h1) hok.2⟩

theorem lenHist_of_noDiscard (ops : List Op) : ∀ (b : RB), (∀ o ∈ ops, ∀ k, o ≠ .discard k) →
    LenHist b ops := by
  induction ops with
  | nil => intro _ _; trivial
  | cons o os ih =>
    intro b hno
    refine ⟨?_, ih _ (fun o' ho' => hno o' (by simp [ho']))⟩
    cases o with
    | discard k => exact absurd rfl (hno _ (by simp) k)
    | _ => trivial

/-- **C18_lengths_of_run**: from a fresh buffer of ANY size, along any history whose discards do not
rewind (`OkHist`, the hypothesis of `C18_fifo_with_discards`), the final pointers, the accepted counts,
the error cases and the number of bytes returned by every read are those of the length-level run. -/
theorem C18_lengths_of_run (cap : Nat) (ops : List Op) (hok : OkHist (RB.create cap) ops) :
    ((runOps (RB.create cap) ops).1.toL, (runOps (RB.create cap) ops).2.map lenRes) =
      lenRun { cap := cap, w := 0, r := 0 } ops :=
  run_len ops _ (lenInv_create cap) (lenHist_of_okHist ops _ (lenInv_create cap) hok)

/-- the same for histories without discards: no hypothesis on strides, chunk sizes or `cap` at all -/
theorem C18_lengths_of_run_noDiscard (cap : Nat) (ops : List Op)
    (hno : ∀ o ∈ ops, ∀ k, o ≠ .discard k) :
    ((runOps (RB.create cap) ops).1.toL, (runOps (RB.create cap) ops).2.map lenRes) =
      lenRun { cap := cap, w := 0, r := 0 } ops :=
  run_len ops _ (lenInv_create cap) (lenHist_of_noDiscard ops _ hno)

/-! ### Non-vacuity -/

/-- cap 8, w 13, r 6: a read of 7 bytes across the wrap (2 bytes to the end of the region, 5 from its
start) satisfies the hypotheses and returns 7 bytes -/
example :
    let b : RB := { cap := 8, w := 13, r := 6, mem := [10, 11, 12, 13, 14, 15, 16, 17] }
    b.mem.length = b.cap ∧ b.w - b.r ≤ b.cap ∧
      read b 7 = ({ b with r := 13 }, [16, 17, 10, 11, 12, 13, 14]) ∧
      L.read b.toL 7 = ({ cap := 8, w := 13, r := 13 }, 7) := by
  decide

/-- a completely full ring (`w - r = cap`, only reachable after a rewinding discard) read in one call -/
example :
    let b : RB := { cap := 4, w := 7, r := 3, mem := [4, 5, 6, 3] }
    LenInv b ∧ (read b 9).2 = [3, 4, 5, 6] ∧ L.read b.toL 9 = ({ cap := 4, w := 7, r := 7 }, 4) := by
  refine ⟨⟨by decide, by decide⟩, by decide, by decide⟩

/-- the hypothesis on the occupancy is needed: 9 bytes between the pointers of a ring of 4 -/
example :
    let b : RB := { cap := 4, w := 9, r := 0, mem := [0, 1, 2, 3] }
    (read b 9).2.length = 8 ∧ (L.read b.toL 9).2 = 9 := by
  decide

/-- a wrapping run with a forward discard: the lengths agree (both sides computed) -/
example :
    let ops := [Op.write [1, 2, 3], .read 2, .write [4, 5, 6], .discard 2, .readMult 2, .readAll,
      .readMult 4, .reopen]
    OkHist (RB.create 4) ops ∧
      (runOps (RB.create 4) ops).2.map lenRes =
        [.wrote 3, .len 2, .wrote 2, .unit, .len 0, .len 1, .err, .unit] ∧
      (lenRun { cap := 4, w := 0, r := 0 } ops).2 =
        [.wrote 3, .len 2, .wrote 2, .unit, .len 0, .len 1, .err, .unit] := by
  refine ⟨⟨trivial, trivial, trivial, ⟨by decide, ?_⟩, by decide, trivial, by decide, trivial, trivial⟩,
    by decide, by decide⟩
  show (_ : Nat) ≤ _
  decide

end DastardV.C18
